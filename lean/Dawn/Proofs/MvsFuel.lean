import Dawn.Proofs.MvsDowngradeClosure
import Std.Data.String.ToNat
/-!
# Fuel sufficiency of `ReqList` and of `add` (C11 as total correctness)

In a finite universe `U` of modules closed under requirements the stack machines of `mvs.ReqList` (`postorder`, `markHave`,
`selectMin`) and of `mvs.Downgrade`'s `add` never answer `Err.fuel` once the fuel exceeds an explicit bound in `|U|` and
the number of requirement edges. (`explore`: `buildListWith_fuel`; the loop `for excluded[r]`: `stepDown_terminates_on`.)
-/
namespace Dawn.Mvs

/-! ### fuel sufficiency of the remaining stack machines, in a finite universe `U` closed under requirements -/

/-- total weight of the modules of `U` that a predicate has not marked yet -/
def unmarked (w : Mod → Nat) (U : List Mod) (vis : Mod → Bool) : Nat := ((U.filter fun n => ! vis n).map w).sum

theorem unmarked_mono (w : Mod → Nat) (vis vis' : Mod → Bool) (h : ∀ x, vis x = true → vis' x = true) :
    ∀ U : List Mod, unmarked w U vis' ≤ unmarked w U vis := by
  intro U
  induction U with
  | nil => simp [unmarked]
  | cons y ys ih =>
    simp only [unmarked, List.filter_cons] at ih ⊢
    cases hy : vis y
    · cases hy' : vis' y
      · simp only [Bool.not_false, ↓reduceIte, List.map_cons, List.sum_cons]; omega
      · simp only [Bool.not_false, Bool.not_true, ↓reduceIte, Bool.false_eq_true, List.map_cons, List.sum_cons]; omega
    · simp only [h y hy, Bool.not_true, Bool.false_eq_true, ↓reduceIte]; exact ih

theorem unmarked_mark (w : Mod → Nat) (vis vis' : Mod → Bool) (n : Mod) (hn : vis n = false) (hn' : vis' n = true)
    (h : ∀ x, vis x = true → vis' x = true) : ∀ U : List Mod, n ∈ U → unmarked w U vis' + w n ≤ unmarked w U vis := by
  intro U
  induction U with
  | nil => intro h; cases h
  | cons y ys ih =>
    intro hmem
    have hm := unmarked_mono w vis vis' h ys
    simp only [unmarked, List.filter_cons] at ih hm ⊢
    by_cases hy : y = n
    · subst hy
      simp only [hn, hn', Bool.not_false, Bool.not_true, ↓reduceIte, Bool.false_eq_true, List.map_cons, List.sum_cons]
      omega
    · have hys : n ∈ ys := by
        rcases List.mem_cons.mp hmem with h1 | h1
        · exact absurd h1.symm hy
        · exact h1
      have := ih hys
      cases hvy : vis y
      · cases hvy' : vis' y
        · simp only [Bool.not_false, ↓reduceIte, List.map_cons, List.sum_cons]; omega
        · simp only [Bool.not_false, Bool.not_true, ↓reduceIte, Bool.false_eq_true, List.map_cons, List.sum_cons]; omega
      · simp only [h y hvy, Bool.not_true, Bool.false_eq_true, ↓reduceIte]; exact this

/-- number of requirements of a module (0 when they cannot be loaded) -/
def deg (rq : Reqs) (n : Mod) : Nat := ((rq.required n).getD []).length

def framesWork (stk : List Frame) : Nat := (stk.map fun fr => 1 + fr.rest.length).sum

/-- the first walk of `ReqList` never runs out of fuel once the fuel covers one step per frame and pending child plus, for
every module of the universe not cached yet, the steps its own frame will take -/
theorem postorder_fuel (rq : Reqs) (U : List Mod)
    (hU : ∀ n ∈ U, ∀ l, rq.required n = some l → ∀ m ∈ l, m ∈ U) :
    ∀ (f : Nat) (stk : List Frame) (cache : List (Mod × List Mod)) (post : List Mod),
      (∀ fr ∈ stk, ∀ c ∈ fr.rest, c ∈ U) →
      framesWork stk + unmarked (fun n => 2 + deg rq n) U (fun n => cache.any (·.1 = n)) ≤ f →
      postorder rq f stk cache post ≠ .error .fuel := by
  intro f
  induction f with
  | zero =>
    intro stk cache post _ hle
    cases stk with
    | nil => simp [postorder]
    | cons fr stk => simp [framesWork] at hle
  | succ f ih =>
    intro stk cache post hin hle
    cases stk with
    | nil => simp [postorder]
    | cons fr stk =>
      obtain ⟨m, rest⟩ := fr
      cases rest with
      | nil =>
        simp only [postorder]
        apply ih
        · exact fun fr hfr => hin fr (List.mem_cons_of_mem _ hfr)
        · simp only [framesWork, List.map_cons, List.sum_cons, List.length_nil] at hle ⊢; omega
      | cons c cs =>
        simp only [postorder]
        have hrest : ∀ fr ∈ (⟨m, cs⟩ : Frame) :: stk, ∀ x ∈ fr.rest, x ∈ U := by
          intro fr hfr x hx
          rcases List.mem_cons.mp hfr with rfl | h1
          · exact hin ⟨m, c :: cs⟩ List.mem_cons_self x (List.mem_cons_of_mem _ hx)
          · exact hin fr (List.mem_cons_of_mem _ h1) x hx
        split
        · apply ih _ _ _ hrest
          simp only [framesWork, List.map_cons, List.sum_cons, List.length_cons] at hle ⊢; omega
        · rename_i hc
          cases hr : rq.required c with
          | none => simp
          | some req =>
            dsimp only
            have hcU : c ∈ U := hin ⟨m, c :: cs⟩ List.mem_cons_self c List.mem_cons_self
            apply ih
            · intro fr hfr x hx
              rcases List.mem_cons.mp hfr with rfl | h1
              · exact hU c hcU req hr x hx
              · exact hrest fr h1 x hx
            · have hmark := unmarked_mark (fun n => 2 + deg rq n) (fun n => cache.any (·.1 = n))
                (fun n => ((c, req) :: cache).any (·.1 = n)) c
                (by cases h : cache.any (·.1 = c); · rfl
                    · exact absurd h hc) (by simp)
                (by intro x hx; simp only [List.any_cons] at hx ⊢; simp [hx]) U hcU
              have hdeg : deg rq c = req.length := by simp [deg, hr]
              simp only [framesWork, List.map_cons, List.sum_cons, List.length_cons] at hle ⊢
              omega

/-- the second walk -/
theorem markHave_fuel_suff (cache : List (Mod × List Mod)) (U : List Mod)
    (hU : ∀ n ∈ U, ∀ m ∈ cached cache n, m ∈ U) :
    ∀ (f : Nat) (todo hv : List Mod), (∀ n ∈ todo, n ∈ U) →
      todo.length + unmarked (fun n => 1 + (cached cache n).length) U (fun n => decide (n ∈ hv)) ≤ f →
      (markHave cache f todo hv).isSome := by
  intro f
  induction f with
  | zero =>
    intro todo hv _ hle
    cases todo with
    | nil => simp [markHave]
    | cons n t => simp at hle
  | succ f ih =>
    intro todo hv hin hle
    cases todo with
    | nil => simp [markHave]
    | cons n t =>
      simp only [markHave]
      split
      · apply ih t hv (fun m hm => hin m (List.mem_cons_of_mem _ hm))
        simp only [List.length_cons] at hle; omega
      · rename_i hn
        have hnU := hin n List.mem_cons_self
        have hmark := unmarked_mark (fun n => 1 + (cached cache n).length) (fun x => decide (x ∈ hv))
          (fun x => decide (x ∈ n :: hv)) n (by simpa using hn) (by simp)
          (by intro x hx; simp only [decide_eq_true_eq] at hx ⊢; exact List.mem_cons_of_mem _ hx) U hnU
        apply ih
        · intro m hm
          rcases List.mem_append.mp hm with h1 | h1
          · exact hU n hnU m h1
          · exact hin m (List.mem_cons_of_mem _ h1)
        · simp only [List.length_cons, List.length_append] at hle ⊢; omega


theorem unmarked_le_total (w : Mod → Nat) (U : List Mod) (vis : Mod → Bool) : unmarked w U vis ≤ (U.map w).sum := by
  have := unmarked_mono w (fun _ => false) vis (fun x h => by cases h) U
  simpa [unmarked, List.filter_eq_self.mpr] using this

theorem sum_map_le {α : Type} (w w' : α → Nat) : ∀ (l : List α), (∀ x ∈ l, w x ≤ w' x) → (l.map w).sum ≤ (l.map w').sum
  | [], _ => by simp
  | x :: xs, h => by
    have := sum_map_le w w' xs (fun y hy => h y (List.mem_cons_of_mem _ hy))
    have := h x List.mem_cons_self
    simp only [List.map_cons, List.sum_cons]; omega

theorem selectMin_fuel_suff (fuel : Nat) (cache : List (Mod × List Mod)) (maxv : Sel) (U : List Mod)
    (hU : ∀ n ∈ U, ∀ m ∈ cached cache n, m ∈ U)
    (hf : 1 + (U.map fun n => 1 + (cached cache n).length).sum ≤ fuel) :
    ∀ (l hv min : List Mod), (∀ m ∈ l, m ∈ U) → (selectMin fuel cache maxv l hv min).isSome := by
  intro l
  induction l with
  | nil => intro hv min _; simp [selectMin]
  | cons m rest ih =>
    intro hv min hl
    have hrest : ∀ x ∈ rest, x ∈ U := fun x hx => hl x (List.mem_cons_of_mem _ hx)
    simp only [selectMin]
    split
    · exact ih _ _ hrest
    · split
      · exact ih _ _ hrest
      · have hsome := markHave_fuel_suff cache U hU fuel [m] hv
          (fun n hn => by rw [List.mem_singleton.mp hn]; exact hl m List.mem_cons_self)
          (by
            have := unmarked_le_total (fun n => 1 + (cached cache n).length) U (fun n => decide (n ∈ hv))
            simp only [List.length_singleton]; omega)
        cases hm : markHave cache fuel [m] hv with
        | none => rw [hm] at hsome; simp at hsome
        | some hv' => exact ih _ _ hrest

/-- `ReqList` answers — requirements or an error, never `Err.fuel` — once the fuel exceeds
`1 + |list| + Σ_{n ∈ U} (2 + number of requirements of n)` for a finite universe `U` that contains the main module and
the list and is closed under requirements -/
theorem reqList_fuel (rq : Reqs) (main : Mod) (list U : List Mod) (hmain : main ∈ U) (hlist : ∀ m ∈ list, m ∈ U)
    (hU : ∀ n ∈ U, ∀ l, rq.required n = some l → ∀ m ∈ l, m ∈ U) (fuel : Nat)
    (hf : 1 + list.length + (U.map fun n => 2 + deg rq n).sum ≤ fuel) :
    reqList fuel rq main list ≠ .error .fuel := by
  unfold reqList
  have hpo := postorder_fuel rq U hU fuel [⟨main, list⟩] [(main, [])] []
    (fun fr hfr => by rw [List.mem_singleton.mp hfr]; exact hlist)
    (by
      have := unmarked_le_total (fun n => 2 + deg rq n) U (fun n => [(main, ([] : List Mod))].any (·.1 = n))
      simp only [framesWork, List.map_cons, List.map_nil, List.sum_cons, List.sum_nil]; omega)
  cases hp : postorder rq fuel [⟨main, list⟩] [(main, [])] [] with
  | error e =>
    dsimp only
    intro h; cases h; exact hpo hp
  | ok r =>
    obtain ⟨cache, post⟩ := r
    dsimp only
    have ps := postorder_spec rq fuel _ _ _ cache post hp
    -- the cache only holds requirement lists of modules of U
    have hcached : ∀ n, ∀ m ∈ cached cache n, (n ≠ main ∧ ∃ l, rq.required n = some l ∧ m ∈ l) := by
      intro n m hm
      unfold cached at hm
      cases hl : cache.lookup n with
      | none => simp [hl] at hm
      | some r =>
        simp only [hl, Option.getD_some] at hm
        have hmem := lookup_mem cache n r hl
        have hne : n ≠ main := by
          rintro rfl
          rcases ps.keys_new _ hmem with h1 | h1
          · simp only [List.mem_singleton, Prod.mk.injEq, true_and] at h1; subst h1; cases hm
          · exact h1 ⟨(n, []), List.mem_cons_self, rfl⟩
        rcases ps.cache_sound _ hmem with h1 | h1
        · simp only [List.mem_singleton, Prod.mk.injEq] at h1; exact absurd h1.1 hne
        · exact ⟨hne, r, h1, hm⟩
    have hUc : ∀ n ∈ U, ∀ m ∈ cached cache n, m ∈ U := by
      intro n hn m hm
      obtain ⟨_, l, hl, hml⟩ := hcached n m hm
      exact hU n hn l hl m hml
    have hlen : ∀ n ∈ U, 1 + (cached cache n).length ≤ 2 + deg rq n := by
      intro n _
      unfold cached
      cases hl : cache.lookup n with
      | none => simp; omega
      | some r =>
        have hmem := lookup_mem cache n r hl
        rcases ps.cache_sound _ hmem with h1 | h1
        · simp only [List.mem_singleton, Prod.mk.injEq] at h1; simp [h1.2]; omega
        · simp [deg, h1]
    have hpostU : ∀ m ∈ post.filter (· ≠ main), m ∈ U := by
      intro m hm
      exact ps.prov (· ∈ U) (fun fr hfr => by rw [List.mem_singleton.mp hfr]; exact ⟨hmain, hlist⟩) (fun _ h => nomatch h)
        (fun a r b ha _ hr hb => hU a ha r hr b hb) m (List.mem_filter.mp hm).1
    have hsel := selectMin_fuel_suff fuel cache (listMap list) U hUc
      (by have := sum_map_le _ _ U hlen; omega) (post.filter (· ≠ main)) [] [] hpostU
    cases hs : selectMin fuel cache (listMap list) (post.filter (· ≠ main)) [] [] with
    | none => rw [hs] at hsel; simp at hsel
    | some min => simp



def aframesWork (stk : List AFrame) : Nat :=
  (stk.map fun fr => 1 + 2 * fr.rest.length + (if fr.pending.isSome then 1 else 0)).sum

/-- the recursion of `add` never runs out of fuel once the fuel covers the open frames and, for every module of the
universe not added yet, the three steps per requirement-slot its own frame will take -/
theorem addRun_fuel (rq : Reqs) (maxv : Sel) (U : List Mod)
    (hU : ∀ n ∈ U, ∀ l, rq.required n = some l → ∀ m ∈ l, m ∈ U) :
    ∀ (f : Nat) (stk : List AFrame) (st : DState), (∀ fr ∈ stk, ∀ c ∈ fr.rest, c ∈ U) →
      aframesWork stk + unmarked (fun n => 3 + 2 * deg rq n) U (fun n => decide (n ∈ st.added)) ≤ f →
      (addRun rq maxv f stk st).isSome := by
  intro f
  induction f with
  | zero =>
    intro stk st _ hle
    cases stk with
    | nil => simp [addRun]
    | cons fr stk => simp [aframesWork] at hle
  | succ f ih =>
    intro stk st hin hle
    cases stk with
    | nil => simp [addRun]
    | cons fr stk =>
      obtain ⟨m, pending, rest⟩ := fr
      have htail : ∀ fr ∈ stk, ∀ c ∈ fr.rest, c ∈ U := fun fr hfr => hin fr (List.mem_cons_of_mem _ hfr)
      cases pending with
      | some r =>
        simp only [addRun]
        split
        · apply ih stk _ htail
          rw [(exclude_spec st m).1]
          simp only [aframesWork, List.map_cons, List.sum_cons] at hle ⊢; omega
        · apply ih
          · intro fr hfr c hc
            rcases List.mem_cons.mp hfr with rfl | h1
            · exact hin ⟨m, some r, rest⟩ List.mem_cons_self c hc
            · exact htail fr h1 c hc
          · simp only [aframesWork, List.map_cons, List.sum_cons, Option.isSome_some, Option.isSome_none,
              ↓reduceIte, Bool.false_eq_true] at hle ⊢
            omega
      | none =>
        cases rest with
        | nil =>
          simp only [addRun]
          apply ih stk st htail
          simp only [aframesWork, List.map_cons, List.sum_cons] at hle ⊢; omega
        | cons r rs =>
          simp only [addRun]
          have hrU : r ∈ U := hin ⟨m, .none, r :: rs⟩ List.mem_cons_self r List.mem_cons_self
          have hrest : ∀ fr ∈ (⟨m, some r, rs⟩ : AFrame) :: stk, ∀ c ∈ fr.rest, c ∈ U := by
            intro fr hfr c hc
            rcases List.mem_cons.mp hfr with rfl | h1
            · exact hin ⟨m, .none, r :: rs⟩ List.mem_cons_self c (List.mem_cons_of_mem _ hc)
            · exact htail fr h1 c hc
          have hwork : aframesWork ((⟨m, some r, rs⟩ : AFrame) :: stk) + 1 = aframesWork ((⟨m, .none, r :: rs⟩ : AFrame) :: stk) := by
            simp only [aframesWork, List.map_cons, List.sum_cons, List.length_cons, Option.isSome_some, Option.isSome_none,
              ↓reduceIte, Bool.false_eq_true]
            omega
          rcases addEnter_eq rq maxv st r with ⟨_, heq⟩ | ⟨hradd, heq⟩ | ⟨hradd, _, l, hl, heq⟩
          · rw [heq]; dsimp only
            apply ih _ _ hrest; omega
          · rw [heq]; dsimp only
            apply ih _ _ hrest
            rw [(exclude_spec { st with added := r :: st.added } r).1]
            show aframesWork _ + unmarked _ U (fun n => decide (n ∈ r :: st.added)) ≤ f
            have := unmarked_mono (fun n => 3 + 2 * deg rq n) (fun n => decide (n ∈ st.added))
              (fun n => decide (n ∈ r :: st.added))
              (by intro x hx; simp only [decide_eq_true_eq] at hx ⊢; exact List.mem_cons_of_mem _ hx) U
            omega
          · rw [heq]; dsimp only
            apply ih
            · intro fr hfr c hc
              rcases List.mem_cons.mp hfr with rfl | h1
              · exact hU r hrU l hl c hc
              · exact hrest fr h1 c hc
            · have hmark := unmarked_mark (fun n => 3 + 2 * deg rq n) (fun n => decide (n ∈ st.added))
                (fun n => decide (n ∈ r :: st.added)) r (by simpa using hradd) (by simp)
                (by intro x hx; simp only [decide_eq_true_eq] at hx ⊢; exact List.mem_cons_of_mem _ hx) U hrU
              have hdeg : deg rq r = l.length := by simp [deg, hl]
              have hpush : aframesWork ((⟨r, .none, l⟩ : AFrame) :: ⟨m, some r, rs⟩ :: stk) =
                  1 + 2 * l.length + aframesWork ((⟨m, some r, rs⟩ : AFrame) :: stk) := by
                simp [aframesWork]
              show aframesWork ((⟨r, .none, l⟩ : AFrame) :: ⟨m, some r, rs⟩ :: stk) +
                unmarked (fun n => 3 + 2 * deg rq n) U (fun n => decide (n ∈ r :: st.added)) ≤ f
              rw [hpush]
              omega

/-- a top-level `add` answers as soon as the fuel reaches `Σ_{n ∈ U} (3 + 2 · number of requirements of n)` -/
theorem add_fuel (rq : Reqs) (maxv : Sel) (U : List Mod)
    (hU : ∀ n ∈ U, ∀ l, rq.required n = some l → ∀ m ∈ l, m ∈ U) (fuel : Nat)
    (hf : (U.map fun n => 3 + 2 * deg rq n).sum ≤ fuel) (st : DState) (m : Mod) (hm : m ∈ U) :
    (add fuel rq maxv st m).isSome := by
  unfold add
  rcases addEnter_eq rq maxv st m with ⟨_, heq⟩ | ⟨_, heq⟩ | ⟨hadd, _, l, hl, heq⟩
  · rw [heq]; rfl
  · rw [heq]; rfl
  · rw [heq]; dsimp only
    apply addRun_fuel rq maxv U hU
    · intro fr hfr c hc
      rw [List.mem_singleton.mp hfr] at hc
      exact hU m hm l hl c hc
    · have hmark := unmarked_mark (fun n => 3 + 2 * deg rq n) (fun n => decide (n ∈ st.added))
        (fun n => decide (n ∈ m :: st.added)) m (by simpa using hadd) (by simp)
        (by intro x hx; simp only [decide_eq_true_eq] at hx ⊢; exact List.mem_cons_of_mem _ hx) U hm
      have := unmarked_le_total (fun n => 3 + 2 * deg rq n) U (fun n => decide (n ∈ st.added))
      have hdeg : deg rq m = l.length := by simp [deg, hl]
      simp only [aframesWork, List.map_cons, List.map_nil, List.sum_cons, List.sum_nil, Option.isSome_none,
        Bool.false_eq_true, ↓reduceIte]
      omega


/-- an exploration (plain, overridden, or with an upgrade function) followed by `ReqList`, the shape of every edit: it
answers once the fuel exceeds both bounds, in a finite universe closed under the edges of the exploration and under
requirements -/
theorem op_reqList_fuel (rq rq' : Reqs) (up : Option (Mod → Option Mod)) (main : Mod) (U : List Mod) (hmain : main ∈ U)
    (hU : ∀ n ∈ U, ∀ l, rq.required n = some l → ∀ m ∈ l, m ∈ U)
    (hU' : ∀ n ∈ U, ∀ m ∈ edges rq' up n, m ∈ U) (fuel : Nat)
    (hf1 : 1 + (U.map fun n => 1 + (edges rq' up n).length).sum ≤ fuel)
    (hf2 : 1 + U.length + (U.map fun n => 2 + deg rq n).sum ≤ fuel) :
    (match buildListWith fuel rq' up main with
      | .error e => (.error e : Except Err (List Mod))
      | .ok bl => reqList fuel rq main bl) ≠ .error .fuel := by
  have hb := buildListWith_fuel rq' up main U hmain hU' fuel hf1
  cases hbl : buildListWith fuel rq' up main with
  | error e =>
    dsimp only
    intro h; cases h; exact hb hbl
  | ok list =>
    dsimp only
    have hreachU : ∀ x, Reach rq' up main x → x ∈ U := by
      intro x hr
      induction hr with
      | root => exact hmain
      | step a b _ hb' ih => exact hU' a ih b hb'
    have hsub : ∀ m ∈ list, m ∈ U := by
      rintro ⟨p, v⟩ hm
      exact hreachU _ ((buildListWith_exact hbl p v).mp hm).2.1
    have hlen : list.length ≤ U.length :=
      (nodup_of_nodup_paths (buildListWith_nodup hbl)).length_le_of_subset (fun m hm => hsub m hm)
    exact reqList_fuel rq main list U hmain hsub hU fuel (by omega)

theorem edges_plain_subset (rq : Reqs) (U : List Mod) (hU : ∀ n ∈ U, ∀ l, rq.required n = some l → ∀ m ∈ l, m ∈ U) :
    ∀ n ∈ U, ∀ m ∈ edges rq .none n, m ∈ U := by
  intro n hn m hm
  rw [edges_plain] at hm
  split at hm
  · cases hr : rq.required n with
    | none => simp [hr] at hm
    | some l => simp only [hr, Option.getD_some] at hm; exact hU n hn l hr m hm
  · cases hm

theorem edges_plain_length_le (rq : Reqs) (n : Mod) : (edges rq .none n).length ≤ deg rq n := by
  rw [edges_plain]; split
  · exact Nat.le_refl _
  · simp

/-- the tidy operation (`mvs.Req`: `BuildList`, then `ReqList`) of a project file answers once the fuel exceeds the bound -/
theorem req_fuel (rq : Reqs) (main : Mod) (U : List Mod) (hmain : main ∈ U)
    (hU : ∀ n ∈ U, ∀ l, rq.required n = some l → ∀ m ∈ l, m ∈ U) (fuel : Nat)
    (hf : 1 + U.length + (U.map fun n => 2 + deg rq n).sum ≤ fuel) :
    req fuel rq main ≠ .error .fuel := by
  unfold req buildList
  apply op_reqList_fuel rq rq .none main U hmain hU (edges_plain_subset rq U hU) fuel _ hf
  have := sum_map_le (fun n => 1 + (edges rq .none n).length) (fun n => 2 + deg rq n) U
    (fun n _ => by have := edges_plain_length_le rq n; omega)
  omega

/-! ### the loop that picks a fresh name always finds one -/

theorem candidate_injective (name : String) {j k : Nat} (h : candidate name j = candidate name k) : j = k := by
  have hne : ∀ i, i ≠ 0 → name ≠ name ++ "-" ++ toString i := by
    intro i _ he
    have h1 : name ++ "" = name ++ ("-" ++ toString i) := by rw [String.append_empty, ← String.append_assoc]; exact he
    have h2 := (String.append_right_inj name).mp h1
    have : ("-" ++ toString i).length = 0 := by rw [← h2]; rfl
    simp [String.length_append] at this
  unfold candidate at h
  by_cases hj : j = 0
  · by_cases hk : k = 0
    · rw [hj, hk]
    · simp only [hj, hk, ↓reduceIte] at h
      exact absurd h (hne k hk)
  · by_cases hk : k = 0
    · simp only [hj, hk, ↓reduceIte] at h
      exact absurd h.symm (hne j hj)
    · simp only [hj, hk, ↓reduceIte] at h
      have h1 := (String.append_right_inj (name ++ "-")).mp h
      exact Nat.repr_inj.mp h1

theorem freshName_isSome (taken : List String) (name : String) : (freshName taken name).isSome := by
  unfold freshName
  rw [Option.isSome_map]
  cases hf : (List.range (taken.length + 1)).find? (fun k => candidate name k ∉ taken) with
  | some k => rfl
  | none =>
    exfalso
    have hall : ∀ k ∈ List.range (taken.length + 1), candidate name k ∈ taken := by
      intro k hk
      have := List.find?_eq_none.mp hf k hk
      simpa using this
    have hnd : ((List.range (taken.length + 1)).map (candidate name)).Nodup := by
      rw [List.Nodup, List.pairwise_map]
      exact (List.nodup_range (n := taken.length + 1)).imp (fun hne h => hne (candidate_injective name h))
    have hle := hnd.length_le_of_subset (l₂ := taken) (by
      intro s hs
      obtain ⟨k, hk, rfl⟩ := List.mem_map.mp hs
      exact hall k hk)
    simp only [List.length_map, List.length_range] at hle
    omega

theorem fresh_match (t : List String) (n : String) (f : String → Except Err Config) (hf : ∀ x, f x ≠ .error .fuel) :
    (match freshName t n with
      | .none => (.error .fuel : Except Err Config)
      | some x => f x) ≠ .error .fuel := by
  have := freshName_isSome t n
  cases h : freshName t n with
  | none => rw [h] at this; cases this
  | some x => exact hf x

theorem nameNew_fuel (e : Env) (old : Config) : ∀ (vs : List Mod) (acc : Config), nameNew e old vs acc ≠ .error .fuel
  | [], _ => by simp [nameNew]
  | v :: vs, acc => by
    simp only [nameNew]
    split
    · exact nameNew_fuel e old vs acc
    · split
      · exact nameNew_fuel e old vs acc
      · split
        · simp
        · exact fresh_match _ _ _ (fun x => nameNew_fuel e old vs _)

/-- `transformReqs` adds no fuel failure of its own: it answers `Err.fuel` only if the operation did -/
theorem transformReqs_fuel {e : Env} {c : Config} {tx : List Mod → Except Err (List Mod)}
    (h : tx (c.map (·.2)) ≠ .error .fuel) : transformReqs e c tx ≠ .error .fuel := by
  unfold transformReqs
  cases htx : tx (c.map (·.2)) with
  | error err =>
    dsimp only
    intro he; cases he; exact h htx
  | ok nv =>
    dsimp only
    have := nameNew_fuel e c nv (c.filterMap fun nr => (pickFor nr.2 nv .none).map fun v => (nr.1, v))
    cases hn : nameNew e c nv (c.filterMap fun nr => (pickFor nr.2 nv .none).map fun v => (nr.1, v)) with
    | error err => dsimp only; intro he; cases he; exact this hn
    | ok all => simp

/-! ### `get` never answers `Err.fuel`: one universe, one bound, all three branches -/

/-- the fuel bound of `get` in a universe `U`: per module, three steps, one per module of `U` (the overridden requirement
lists of the main module are that long at most) and two per requirement -/
def getBound (rq : Reqs) (U : List Mod) : Nat := 1 + (U.map fun n => 3 + U.length + 2 * deg rq n).sum

theorem edges_length_le (rq' : Reqs) (up : Option (Mod → Option Mod)) (n : Mod) :
    (edges rq' up n).length ≤ 1 + ((rq'.required n).getD []).length := by
  simp only [edges, workItem]
  cases hv : decide (n.ver ≠ .none) <;> cases hr : rq'.required n <;> cases up with
  | none => simp_all
  | some f =>
    cases hf : f n with
    | none => simp_all
    | some u =>
      by_cases hun : u = n <;> simp_all <;> omega

theorem sum_const_ge {α : Type} (l : List α) (x : α) (hx : x ∈ l) (k : Nat) (w : α → Nat) :
    k ≤ (l.map fun n => k + w n).sum := by
  induction l with
  | nil => cases hx
  | cons a as ih => simp only [List.map_cons, List.sum_cons]; omega

/-- an exploration over requirements overridden at the target by a list `L ⊆ U`, with an upgrade function that stays in
`U`, does not run out of fuel under `getBound` -/
theorem buildListWith_override_fuel (rq : Reqs) (up : Option (Mod → Option Mod)) (t : Mod) (L U : List Mod)
    (ht : t ∈ U) (hL : ∀ m ∈ L, m ∈ U) (hLlen : L.length ≤ U.length + 1 + 2 * deg rq t)
    (hU : ∀ n ∈ U, ∀ l, rq.required n = some l → ∀ m ∈ l, m ∈ U)
    (hup : ∀ f, up = some f → ∀ n ∈ U, ∀ m, f n = some m → m ∈ U)
    (fuel : Nat) (hf : getBound rq U ≤ fuel) :
    buildListWith fuel (override t L rq) up t ≠ .error .fuel := by
  have hreq : ∀ n, (override t L rq).required n = if n = t then some L else rq.required n := fun n => rfl
  have hcl : ∀ n ∈ U, ∀ m ∈ edges (override t L rq) up n, m ∈ U := by
    intro n hn m hm
    cases up with
    | none =>
      rw [edges_plain] at hm
      split at hm
      · rw [hreq] at hm
        split at hm
        · exact hL m (by simpa using hm)
        · cases hr : rq.required n with
          | none => simp [hr] at hm
          | some l => simp only [hr, Option.getD_some] at hm; exact hU n hn l hr m hm
      · cases hm
    | some f =>
      rcases (mem_edges_up _ f n m).mp hm with ⟨hfu, _⟩ | ⟨_, r, hr, hmr⟩
      · exact hup f rfl n hn m hfu
      · rw [hreq] at hr
        split at hr
        · cases hr; exact hL m hmr
        · exact hU n hn r hr m hmr
  apply buildListWith_fuel _ up t U ht hcl fuel
  have hpt : ∀ n ∈ U, 1 + (edges (override t L rq) up n).length ≤ 3 + U.length + 2 * deg rq n := by
    intro n _
    have h1 := edges_length_le (override t L rq) up n
    rw [hreq] at h1
    split at h1
    · rename_i hnt
      subst hnt
      simp only [Option.getD_some] at h1; omega
    · unfold deg; omega
  have := sum_map_le (fun n => 1 + (edges (override t L rq) up n).length) (fun n => 3 + U.length + 2 * deg rq n) U hpt
  unfold getBound at hf
  omega

theorem buildList_plain_fuel (rq : Reqs) (t : Mod) (U : List Mod) (ht : t ∈ U)
    (hU : ∀ n ∈ U, ∀ l, rq.required n = some l → ∀ m ∈ l, m ∈ U) (fuel : Nat) (hf : getBound rq U ≤ fuel) :
    buildList fuel rq t ≠ .error .fuel := by
  unfold buildList
  apply buildListWith_fuel rq .none t U ht (edges_plain_subset rq U hU) fuel
  have := sum_map_le (fun n => 1 + (edges rq .none n).length) (fun n => 3 + U.length + 2 * deg rq n) U
    (fun n _ => by have := edges_plain_length_le rq n; omega)
  unfold getBound at hf
  omega

/-- a successful exploration lists modules of the universe only, and no more than the universe has -/
theorem buildListWith_in_universe {fuel : Nat} {rq' : Reqs} {up : Option (Mod → Option Mod)} {t : Mod} {U bl : List Mod}
    (ht : t ∈ U) (hcl : ∀ n ∈ U, ∀ m ∈ edges rq' up n, m ∈ U) (h : buildListWith fuel rq' up t = .ok bl) :
    (∀ m ∈ bl, m ∈ U) ∧ bl.length ≤ U.length := by
  have hreachU : ∀ x, Reach rq' up t x → x ∈ U := by
    intro x hr
    induction hr with
    | root => exact ht
    | step a b _ hb ih => exact hcl a ih b hb
  have hsub : ∀ m ∈ bl, m ∈ U := by
    rintro ⟨p, v⟩ hm
    exact hreachU _ ((buildListWith_exact h p v).mp hm).2.1
  exact ⟨hsub, (nodup_of_nodup_paths (buildListWith_nodup h)).length_le_of_subset (fun m hm => hsub m hm)⟩

theorem reqList_get_fuel (rq : Reqs) (t : Mod) (list U : List Mod) (ht : t ∈ U) (hlist : ∀ m ∈ list, m ∈ U)
    (hlen : list.length ≤ U.length)
    (hU : ∀ n ∈ U, ∀ l, rq.required n = some l → ∀ m ∈ l, m ∈ U) (fuel : Nat) (hf : getBound rq U ≤ fuel) :
    reqList fuel rq t list ≠ .error .fuel := by
  apply reqList_fuel rq t list U ht hlist hU fuel
  unfold getBound at hf
  -- |list| ≤ |U| ≤ Σ, and Σ(2+deg) ≤ Σ(3+|U|+2deg): together they need twice the sum; use the slack of `3 + |U|` per node
  have h4 : (U.map fun n => 2 + deg rq n).sum + U.length ≤ (U.map fun n => 3 + U.length + 2 * deg rq n).sum := by
    clear hf
    have : ∀ (V : List Mod) (k : Nat), V.length ≤ k →
        (V.map fun n => 2 + deg rq n).sum + V.length ≤ (V.map fun n => 3 + k + 2 * deg rq n).sum + 0 := by
      intro V
      induction V with
      | nil => intro k _; simp
      | cons a as ih =>
        intro k hk
        have := ih k (by simp at hk; omega)
        simp only [List.map_cons, List.sum_cons, List.length_cons] at this ⊢
        omega
    have := this U U.length (Nat.le_refl _)
    omega
  omega


/-- every value of the downgrade's map of maxima is the version of a listed module or the requested version -/
theorem downMax_lookup_mem (list : List Mod) (d : Mod) (hnd : (list.map (·.path)).Nodup) (p : String) (v : Ver)
    (h : (downMax list d).lookup p = some v) : (⟨p, v⟩ : Mod) ∈ list ∨ (⟨p, v⟩ : Mod) = d := by
  have hset : (setSel (listMap list) d.path d.ver).lookup p = some v → (⟨p, v⟩ : Mod) ∈ list ∨ (⟨p, v⟩ : Mod) = d := by
    intro hl
    rw [lookup_setSel] at hl
    split at hl
    · rename_i hp; cases hl; right; subst hp; rfl
    · exact Or.inl ((lookup_listMap_some list hnd p v).mp hl)
  unfold downMax at h
  split at h
  · split at h
    · exact hset h
    · exact Or.inl ((lookup_listMap_some list hnd p v).mp h)
  · exact hset h

/-- the candidates the loop `for excluded[r]` moves through stay in the universe -/
theorem stepDown_in_universe (fuel : Nat) (rq : Reqs) (prev : Mod → Option Mod) (maxv : Sel) (C : Mod → Prop)
    (hprev : ∀ r p, C r → prev r = some p → p.ver = .none ∨ C p)
    (hadj : ∀ r p v, C r → prev r = some p → maxv.lookup r.path = some v → C ⟨p.path, v⟩) :
    ∀ (n : Nat) (st st' : DState) (r r' : Mod), C r →
      stepDown fuel rq prev maxv n st r = .ok (st', some r') → C r' := by
  intro n
  induction n with
  | zero => intro st st' r r' _ h; simp [stepDown] at h
  | succ n ih =>
    intro st st' r r' hr h
    simp only [stepDown] at h
    split at h
    · simp only [Except.ok.injEq, Prod.mk.injEq, Option.some.injEq] at h
      rw [← h.2]; exact hr
    · cases hp : prev r with
      | none => simp [hp] at h
      | some p =>
        simp only [hp] at h
        generalize hp' : (if vmax ((maxv.lookup r.path).getD .root) r.ver ≠ (maxv.lookup r.path).getD .root ∧
            vmax p.ver ((maxv.lookup r.path).getD .root) ≠ p.ver then (⟨p.path, (maxv.lookup r.path).getD .root⟩ : Mod) else p) = p' at h
        split at h
        · cases h
        · rename_i hne
          have hp'U : C p' := by
            split at hp'
            · rename_i hc
              subst hp'
              cases hl : maxv.lookup r.path with
              | none =>
                exfalso
                rw [hl] at hc
                simp only [Option.getD_none] at hc
                apply hc.1
                rw [vmax_eq]
                have : cmpVersion .root r.ver ≠ .lt := by cases r.ver <;> simp [cmpVersion]
                simp [this]
              | some v => simp only [Option.getD_some]; exact hadj r p v hr hp hl
            · subst hp'
              rcases hprev r p hr hp with h1 | h1
              · exact absurd h1 hne
              · exact h1
          split at h
          · cases h
          · exact ih _ _ _ _ hp'U h

/-- the loop labelled `List` of `mvs.Downgrade` does not run out of fuel, and what it collects stays in the universe -/
theorem downLoop_fuel (fuel : Nat) (rq : Reqs) (prev : Mod → Option Mod) (maxv : Sel) (U : List Mod)
    (hU : ∀ n ∈ U, ∀ l, rq.required n = some l → ∀ m ∈ l, m ∈ U)
    (hf : getBound rq U ≤ fuel)
    (tp : String)
    (hprev : ∀ r p, (r ∈ U ∧ r.path ≠ tp) → prev r = some p →
      p.ver = .none ∨ (p.ver ∈ U.map (·.ver) ∧ cmpVersion p.ver r.ver = .lt ∧ (p ∈ U ∧ p.path ≠ tp)))
    (hmax : ∀ p v, maxv.lookup p = some v → v ∈ U.map (·.ver))
    (hadj : ∀ r p v, (r ∈ U ∧ r.path ≠ tp) → prev r = some p → maxv.lookup r.path = some v →
      ((⟨p.path, v⟩ : Mod) ∈ U ∧ p.path ≠ tp)) :
    ∀ (list : List Mod) (st : DState) (acc : List Mod), (∀ m ∈ list, m ∈ U ∧ m.path ≠ tp) → (∀ m ∈ acc, m ∈ U) →
      downLoop fuel rq prev maxv list st acc ≠ .error .fuel ∧
      ∀ out, downLoop fuel rq prev maxv list st acc = .ok out →
        (∀ m ∈ out, m ∈ U) ∧ out.length ≤ acc.length + list.length := by
  have haddf : (U.map fun n => 3 + 2 * deg rq n).sum ≤ fuel := by
    have := sum_map_le (fun n => 3 + 2 * deg rq n) (fun n => 3 + U.length + 2 * deg rq n) U (fun n _ => by omega)
    unfold getBound at hf; omega
  have hlenU : U.length < fuel := by
    unfold getBound at hf
    by_cases hne : U = []
    · subst hne; simp at hf ⊢; omega
    · obtain ⟨x, hx⟩ := List.exists_mem_of_ne_nil U hne
      have h2 := sum_const_ge U x hx U.length (fun n => 3 + 2 * deg rq n)
      have h3 : (U.map fun n => U.length + (3 + 2 * deg rq n)).sum = (U.map fun n => 3 + U.length + 2 * deg rq n).sum := by
        congr 1; apply List.map_congr_left; intro n _; omega
      omega
  intro list
  induction list with
  | nil =>
    intro st acc _ hacc
    simp only [downLoop]
    exact ⟨by simp, fun out h => by cases h; exact ⟨hacc, by simp⟩⟩
  | cons r rest ih =>
    intro st acc hl hacc
    have hrU := hl r List.mem_cons_self
    have hrest : ∀ m ∈ rest, m ∈ U ∧ m.path ≠ tp := fun m hm => hl m (List.mem_cons_of_mem _ hm)
    simp only [downLoop]
    have hadd := add_fuel rq maxv U hU fuel haddf st r hrU.1
    cases ha : add fuel rq maxv st r with
    | none => rw [ha] at hadd; cases hadd
    | some st1 =>
      dsimp only
      have hsd := stepDown_terminates_on (fun r => r ∈ U ∧ r.path ≠ tp) fuel rq prev maxv (U.map (·.ver))
        (fun st p hp => add_fuel rq maxv U hU fuel haddf st p hp.1) hprev hmax hadj fuel st1 r hrU
        (by
          have : below (U.map (·.ver)) r.ver ≤ (U.map (·.ver)).length := List.length_filter_le _ _
          simp only [List.length_map] at this; omega)
      cases hs : stepDown fuel rq prev maxv fuel st1 r with
      | error err =>
        dsimp only
        exact ⟨fun h => by cases h; exact hsd hs, fun out h => by cases h⟩
      | ok res =>
        obtain ⟨st2, ro⟩ := res
        cases ro with
        | none =>
          dsimp only
          obtain ⟨i1, i2⟩ := ih st2 acc hrest hacc
          exact ⟨i1, fun out h => ⟨(i2 out h).1, by have := (i2 out h).2; simp only [List.length_cons]; omega⟩⟩
        | some r' =>
          dsimp only
          have hr'U := stepDown_in_universe fuel rq prev maxv (fun r => r ∈ U ∧ r.path ≠ tp)
            (fun r p hr hp => by
              rcases hprev r p hr hp with h1 | h1
              · exact Or.inl h1
              · exact Or.inr h1.2.2) hadj fuel st1 st2 r r' hrU hs
          obtain ⟨i1, i2⟩ := ih st2 (acc ++ [r']) hrest (by
            intro m hm
            rcases List.mem_append.mp hm with h1 | h1
            · exact hacc m h1
            · rw [List.mem_singleton.mp h1]; exact hr'U.1)
          exact ⟨i1, fun out h => ⟨(i2 out h).1, by
            have := (i2 out h).2
            simp only [List.length_append, List.length_cons, List.length_nil] at this ⊢; omega⟩⟩


theorem override_edges_closed (rq : Reqs) (up : Option (Mod → Option Mod)) (t : Mod) (L U : List Mod)
    (hL : ∀ m ∈ L, m ∈ U) (hU : ∀ n ∈ U, ∀ l, rq.required n = some l → ∀ m ∈ l, m ∈ U)
    (hup : ∀ f, up = some f → ∀ n ∈ U, ∀ m, f n = some m → m ∈ U) :
    ∀ n ∈ U, ∀ m ∈ edges (override t L rq) up n, m ∈ U := by
  have hreq : ∀ n, (override t L rq).required n = if n = t then some L else rq.required n := fun n => rfl
  intro n hn m hm
  cases up with
  | none =>
    rw [edges_plain] at hm
    split at hm
    · rw [hreq] at hm
      split at hm
      · exact hL m (by simpa using hm)
      · cases hr : rq.required n with
        | none => simp [hr] at hm
        | some l => simp only [hr, Option.getD_some] at hm; exact hU n hn l hr m hm
    · cases hm
  | some f =>
    rcases (mem_edges_up _ f n m).mp hm with ⟨hfu, _⟩ | ⟨_, r, hr, hmr⟩
    · exact hup f rfl n hn m hfu
    · rw [hreq] at hr
      split at hr
      · cases hr; exact hL m hmr
      · exact hU n hn r hr m hmr

/-- `mvs.Downgrade` does not run out of fuel, and its answer stays in the universe -/
theorem mvsDowngrade_fuel (fuel : Nat) (rq : Reqs) (prev : Mod → Option Mod) (t d : Mod) (U : List Mod)
    (ht : t ∈ U) (hd : d ∈ U)
    (hU : ∀ n ∈ U, ∀ l, rq.required n = some l → ∀ m ∈ l, m ∈ U)
    (hprev : ∀ r p, r ∈ U → r.path ≠ t.path → prev r = some p → p.ver = .none ∨ (cmpVersion p.ver r.ver = .lt ∧ p ∈ U))
    (hpath : ∀ r p, prev r = some p → p.path = r.path)
    (hf : getBound rq U ≤ fuel) :
    mvsDowngrade fuel rq prev t d ≠ .error .fuel ∧
    ∀ bld, mvsDowngrade fuel rq prev t d = .ok bld → (∀ m ∈ bld, m ∈ U) ∧ bld.length ≤ U.length := by
  unfold mvsDowngrade
  have hfull := buildList_plain_fuel rq t U ht hU fuel hf
  cases hb : buildList fuel rq t with
  | error err => dsimp only; exact ⟨fun h => by cases h; exact hfull hb, fun bld h => by cases h⟩
  | ok full =>
    dsimp only
    have hb' := hb
    unfold buildList at hb'
    obtain ⟨hfullU, hfulllen⟩ := buildListWith_in_universe ht (edges_plain_subset rq U hU) hb'
    have hlistU : ∀ m ∈ full.drop 1, m ∈ U := fun m hm => hfullU m (List.mem_of_mem_drop hm)
    have hlistT : ∀ m ∈ full.drop 1, m.path ≠ t.path := by
      have hhead := buildListWith_head hb'
      have hnd := buildListWith_nodup hb'
      cases full with
      | nil => intro m hm; cases hm
      | cons x xs =>
        simp only [List.take_succ_cons, List.take_zero, List.cons.injEq, and_true] at hhead
        subst hhead
        intro m hm hp
        simp only [List.drop_succ_cons, List.drop_zero] at hm
        simp only [List.map_cons, List.nodup_cons] at hnd
        exact hnd.1 (List.mem_map.mpr ⟨m, hm, hp⟩)
    have hlistnd : ((full.drop 1).map (·.path)).Nodup :=
      (List.Sublist.map _ (List.drop_sublist 1 full)).nodup (buildListWith_nodup hb')
    have hlistlen : (full.drop 1).length ≤ U.length := by simp only [List.length_drop]; omega
    have hmaxU : ∀ p v, (downMax (full.drop 1) d).lookup p = some v → (⟨p, v⟩ : Mod) ∈ U := by
      intro p v hl
      rcases downMax_lookup_mem _ d hlistnd p v hl with h1 | h1
      · exact hlistU _ h1
      · rw [h1]; exact hd
    have hloop := downLoop_fuel fuel rq prev (downMax (full.drop 1) d) U hU hf t.path
      (fun r p hr hp => by
        rcases hprev r p hr.1 hr.2 hp with h1 | ⟨h1, h2⟩
        · exact Or.inl h1
        · exact Or.inr ⟨List.mem_map.mpr ⟨p, h2, rfl⟩, h1, h2, by rw [hpath r p hp]; exact hr.2⟩)
      (fun p v hl => List.mem_map.mpr ⟨⟨p, v⟩, hmaxU p v hl, rfl⟩)
      (fun r p v hr hp hl => by rw [hpath r p hp]; exact ⟨hmaxU _ _ hl, hr.2⟩)
      (full.drop 1) ⟨[], [], []⟩ [t] (fun m hm => ⟨hlistU m hm, hlistT m hm⟩) (fun m hm => by rw [List.mem_singleton.mp hm]; exact ht)
    unfold downMax at hloop
    generalize hdl : downLoop fuel rq prev _ (full.drop 1) ⟨[], [], []⟩ [t] = dl at hloop ⊢
    cases dl with
    | error err => dsimp only; exact ⟨fun h => by cases h; exact hloop.1 rfl, fun bld h => by cases h⟩
    | ok downgraded =>
      dsimp only
      obtain ⟨hdgU, hdglen⟩ := hloop.2 downgraded rfl
      have hnoup : ∀ f, (Option.none : Option (Mod → Option Mod)) = some f → ∀ n ∈ U, ∀ m, f n = some m → m ∈ U :=
        fun f h => nomatch h
      have hact := buildListWith_override_fuel rq .none t downgraded U ht hdgU
        (by simp only [List.length_cons, List.length_nil] at hdglen; omega) hU hnoup fuel hf
      cases ha : buildList fuel (override t downgraded rq) t with
      | error err => dsimp only; exact ⟨fun h => by cases h; exact hact ha, fun bld h => by cases h⟩
      | ok actual =>
        dsimp only
        have ha' := ha
        unfold buildList at ha'
        obtain ⟨hactU, _⟩ := buildListWith_in_universe ht (override_edges_closed rq .none t downgraded U hdgU hU hnoup) ha'
        have hdg2U : ∀ m ∈ (full.drop 1).filterMap (fun m => ((listMap actual).lookup m.path).map fun v => (⟨m.path, v⟩ : Mod)), m ∈ U := by
          intro x hx
          obtain ⟨m, _, hmx⟩ := List.mem_filterMap.mp hx
          cases hl : (listMap actual).lookup m.path with
          | none => simp [hl] at hmx
          | some v =>
            simp only [hl, Option.map_some, Option.some.injEq] at hmx
            subst hmx
            exact hactU _ ((lookup_listMap_some actual (buildListWith_nodup ha') m.path v).mp hl)
        have hdg2len : ((full.drop 1).filterMap (fun m => ((listMap actual).lookup m.path).map fun v => (⟨m.path, v⟩ : Mod))).length ≤ U.length :=
          Nat.le_trans (List.length_filterMap_le _ _) hlistlen
        have hfin := buildListWith_override_fuel rq .none t _ U ht hdg2U (by omega) hU hnoup fuel hf
        refine ⟨hfin, ?_⟩
        intro bld hbld
        unfold buildList at hbld
        exact buildListWith_in_universe ht (override_edges_closed rq .none t _ U hdg2U hU hnoup) hbld


/-! query resolution has no fuel: its errors are never `Err.fuel` -/

theorem resolveRef_nofuel (e : Env) (path ref : String) : resolveRef e path ref ≠ .error .fuel := by
  unfold resolveRef; split <;> simp

theorem resolveLatest_nofuel (e : Env) (major path : String) : resolveLatest e major path ≠ .error .fuel := by
  unfold resolveLatest
  dsimp only
  split
  · simp
  · split
    · simp
    · exact resolveRef_nofuel e path e.defaultRef

theorem resolveVersionQuery_nofuel (e : Env) (bl : List Mod) (q : VersionQuery) : resolveVersionQuery e bl q ≠ .error .fuel := by
  unfold resolveVersionQuery
  split
  · simp
  · dsimp only
    split
    · exact resolveLatest_nofuel _ _ _
    · split
      · unfold resolveUpgrade
        have := resolveLatest_nofuel e (splitPathVersion (cleanPath q.path)).2 (cleanPath q.path)
        split
        · rename_i err herr; intro h; cases h; exact this herr
        · split
          · split <;> simp
          · simp
      · split
        · unfold resolvePatch
          split
          · exact resolveLatest_nofuel _ _ _
          · split <;> simp
        · have hrange : ∀ m p s, resolveRange e m p s ≠ .error .fuel := by
            intro m p s
            unfold resolveRange
            split
            · simp
            · split <;> simp
          split
          · exact hrange _ _ _
          · exact hrange _ _ _
          · split
            · exact hrange _ _ _
            · exact resolveRef_nofuel _ _ _
          · exact resolveRef_nofuel _ _ _

theorem upFn_closed (u : Mod) (U : List Mod) (hu : u ∈ U) :
    ∀ f, some (upFn u) = some f → ∀ n ∈ U, ∀ m, f n = some m → m ∈ U := by
  intro f hf n hn m hm
  cases hf
  simp only [upFn] at hm
  split at hm
  · rename_i hp
    cases hm
    have : (⟨n.path, u.ver⟩ : Mod) = u := by obtain ⟨up, uv⟩ := u; simp only at hp; subst hp; rfl
    rw [this]; exact hu
  · cases hm; exact hn

/-- C11, fuel sufficiency of `get` (all three branches): in one finite universe `U` closed under requirements, that
contains whatever the query can resolve to (with the placeholder `p@none` that `mvs.Upgrade` adds) and what `Previous`
answers, `get` never answers `Err.fuel` once the fuel reaches `getBound` -/
theorem get_fuel (fuel : Nat) (e : Env) (prev : Mod → Option Mod) (roots : List Mod) (vq : VersionQuery) (U : List Mod)
    (hroot : rootMod ∈ U)
    (hU : ∀ n ∈ U, ∀ l, (dawnReqs e roots).required n = some l → ∀ m ∈ l, m ∈ U)
    (hres : ∀ bl version, resolveVersionQuery e bl vq = .ok version → version ∈ U ∧ (⟨version.path, .none⟩ : Mod) ∈ U)
    (hprev : ∀ r p, r ∈ U → r.path ≠ "" → prev r = some p → p.ver = .none ∨ (cmpVersion p.ver r.ver = .lt ∧ p ∈ U))
    (hpath : ∀ r p, prev r = some p → p.path = r.path)
    (hf : getBound (dawnReqs e roots) U ≤ fuel) :
    get fuel e prev roots vq ≠ .error .fuel := by
  have hrootsU : ∀ m ∈ roots, m ∈ U := fun m hm => hU rootMod hroot roots (by simp [dawnReqs, rootMod]) m hm
  unfold get
  dsimp only
  have hbl := buildList_plain_fuel (dawnReqs e roots) rootMod U hroot hU fuel hf
  cases hb : buildList fuel (dawnReqs e roots) rootMod with
  | error err => dsimp only; intro h; cases h; exact hbl hb
  | ok bl0 =>
    dsimp only
    cases hr : resolveVersionQuery e bl0 vq with
    | error err => dsimp only; intro h; cases h; exact resolveVersionQuery_nofuel e bl0 vq hr
    | ok version =>
      dsimp only
      obtain ⟨hvU, hvnone⟩ := hres bl0 version hr
      split
      · simp
      · split
        · simp
        · -- upgrade
          rw [mvsUpgrade_eq]
          have hL : ∀ m ∈ upList roots version, m ∈ U := by
            intro m hm
            unfold upList at hm
            split at hm
            · exact hrootsU m hm
            · rcases List.mem_append.mp hm with h1 | h1
              · exact hrootsU m h1
              · rw [List.mem_singleton.mp h1]; exact hvnone
          have hLlen : (upList roots version).length ≤ U.length + 1 + 2 * deg (dawnReqs e roots) rootMod := by
            have : deg (dawnReqs e roots) rootMod = roots.length := by simp [deg, dawnReqs, rootMod]
            unfold upList
            split <;> simp <;> omega
          have hup := buildListWith_override_fuel (dawnReqs e roots) (some (upFn version)) rootMod _ U hroot hL hLlen hU
            (upFn_closed version U hvU) fuel hf
          cases hu : buildListWith fuel (override rootMod (upList roots version) (dawnReqs e roots)) (some (upFn version)) rootMod with
          | error err => dsimp only; intro h; cases h; exact hup hu
          | ok blu =>
            dsimp only
            obtain ⟨hbluU, hblulen⟩ := buildListWith_in_universe hroot
              (override_edges_closed _ (some (upFn version)) rootMod _ U hL hU (upFn_closed version U hvU)) hu
            exact reqList_get_fuel _ rootMod blu U hroot hbluU hblulen hU fuel hf
        · -- downgrade
          obtain ⟨hd1, hd2⟩ := mvsDowngrade_fuel fuel (dawnReqs e roots) prev rootMod version U hroot hvU hU hprev hpath hf
          cases hd : mvsDowngrade fuel (dawnReqs e roots) prev rootMod version with
          | error err => dsimp only; intro h; cases h; exact hd1 hd
          | ok bld =>
            dsimp only
            obtain ⟨hbldU, hbldlen⟩ := hd2 bld hd
            exact reqList_get_fuel _ rootMod bld U hroot hbldU hbldlen hU fuel hf

theorem previous_path (e : Env) (r p : Mod) (h : previous e r = some p) : p.path = r.path := by
  unfold previous previousFrom at h
  split at h
  · cases h; rfl
  · split at h
    · cases h
    · cases h; rfl

/-- `dawn get`, total: `Get` never answers `Err.fuel` -/
theorem Get_fuel (fuel : Nat) (e : Env) (c : Config) (q : String) (U : List Mod) (hroot : rootMod ∈ U)
    (hU : ∀ n ∈ U, ∀ l, (dawnReqs e (c.map (·.2))).required n = some l → ∀ m ∈ l, m ∈ U)
    (hres : ∀ bl version, resolveVersionQuery e bl (parseVersionQuery q) = .ok version →
      version ∈ U ∧ (⟨version.path, .none⟩ : Mod) ∈ U)
    (hprev : ∀ r p, r ∈ U → r.path ≠ "" → previous e r = some p → p.ver = .none ∨ (cmpVersion p.ver r.ver = .lt ∧ p ∈ U))
    (hf : getBound (dawnReqs e (c.map (·.2))) U ≤ fuel) :
    Get fuel e c q ≠ .error .fuel :=
  transformReqs_fuel (get_fuel fuel e (previous e) _ _ U hroot hU hres hprev (previous_path e) hf)

end Dawn.Mvs

import Dawn.Proofs.MvsDowngradeClosure
import Std.Data.String.ToNat
/-!
# Fuel sufficiency of `ReqList` and of `add` (C11 as total correctness)

In a finite universe `U` of modules closed under requirements the stack machines of `mvs.ReqList` (`postorder`, `markHave`,
`selectMin`) and of `mvs.Downgrade`'s `add` never answer `Err.fuel` once the fuel exceeds an explicit bound in `|U|` and
the number of requirement edges. (`explore`: `buildListWith_fuel`; the loop `for excluded[r]`: `stepDown_terminates_on`.)
-/
namespace Dawn.Mvs

/-! ### fuel sufficiency of the remaining stack machines, in a finite universe `U` closed under requirements -/

/-- total weight of the modules of `U` that a predicate has not marked yet -/
def unmarked (w : Mod → Nat) (U : List Mod) (vis : Mod → Bool) : Nat := ((U.filter fun n => ! vis n).map w).sum

theorem unmarked_mono (w : Mod → Nat) (vis vis' : Mod → Bool) (h : ∀ x, vis x = true → vis' x = true) :
    ∀ U : List Mod, unmarked w U vis' ≤ unmarked w U vis := by
  intro U
  induction U with
  | nil => simp [unmarked]
  | cons y ys ih =>
    simp only [unmarked, List.filter_cons] at ih ⊢
    cases hy : vis y
    · cases hy' : vis' y
      · simp only [Bool.not_false, ↓reduceIte, List.map_cons, List.sum_cons]; omega
      · simp only [Bool.not_false, Bool.not_true, ↓reduceIte, Bool.false_eq_true, List.map_cons, List.sum_cons]; omega
    · simp only [h y hy, Bool.not_true, Bool.false_eq_true, ↓reduceIte]; exact ih

theorem unmarked_mark (w : Mod → Nat) (vis vis' : Mod → Bool) (n : Mod) (hn : vis n = false) (hn' : vis' n = true)
    (h : ∀ x, vis x = true → vis' x = true) : ∀ U : List Mod, n ∈ U → unmarked w U vis' + w n ≤ unmarked w U vis := by
  intro U
  induction U with
  | nil => intro h; cases h
  | cons y ys ih =>
    intro hmem
    have hm := unmarked_mono w vis vis' h ys
    simp only [unmarked, List.filter_cons] at ih hm ⊢
    by_cases hy : y = n
    · subst hy
      simp only [hn, hn', Bool.not_false, Bool.not_true, ↓reduceIte, Bool.false_eq_true, List.map_cons, List.sum_cons]
      omega
    · have hys : n ∈ ys := by
        rcases List.mem_cons.mp hmem with h1 | h1
        · exact absurd h1.symm hy
        · exact h1
      have := ih hys
      cases hvy : vis y
      · cases hvy' : vis' y
        · simp only [Bool.not_false, ↓reduceIte, List.map_cons, List.sum_cons]; omega
        · simp only [Bool.not_false, Bool.not_true, ↓reduceIte, Bool.false_eq_true, List.map_cons, List.sum_cons]; omega
      · simp only [h y hvy, Bool.not_true, Bool.false_eq_true, ↓reduceIte]; exact this

/-- number of requirements of a module (0 when they cannot be loaded) -/
def deg (rq : Reqs) (n : Mod) : Nat := ((rq.required n).getD []).length

def framesWork (stk : List Frame) : Nat := (stk.map fun fr => 1 + fr.rest.length).sum

/-- the first walk of `ReqList` never runs out of fuel once the fuel covers one step per frame and pending child plus, for
every module of the universe not cached yet, the steps its own frame will take -/
theorem postorder_fuel (rq : Reqs) (U : List Mod)
    (hU : ∀ n ∈ U, ∀ l, rq.required n = some l → ∀ m ∈ l, m ∈ U) :
    ∀ (f : Nat) (stk : List Frame) (cache : List (Mod × List Mod)) (post : List Mod),
      (∀ fr ∈ stk, ∀ c ∈ fr.rest, c ∈ U) →
      framesWork stk + unmarked (fun n => 2 + deg rq n) U (fun n => cache.any (·.1 = n)) ≤ f →
      postorder rq f stk cache post ≠ .error .fuel := by
  intro f
  induction f with
  | zero =>
    intro stk cache post _ hle
    cases stk with
    | nil => simp [postorder]
    | cons fr stk => simp [framesWork] at hle
  | succ f ih =>
    intro stk cache post hin hle
    cases stk with
    | nil => simp [postorder]
    | cons fr stk =>
      obtain ⟨m, rest⟩ := fr
      cases rest with
      | nil =>
        simp only [postorder]
        apply ih
        · exact fun fr hfr => hin fr (List.mem_cons_of_mem _ hfr)
        · simp only [framesWork, List.map_cons, List.sum_cons, List.length_nil] at hle ⊢; omega
      | cons c cs =>
        simp only [postorder]
        have hrest : ∀ fr ∈ (⟨m, cs⟩ : Frame) :: stk, ∀ x ∈ fr.rest, x ∈ U := by
          intro fr hfr x hx
          rcases List.mem_cons.mp hfr with rfl | h1
          · exact hin ⟨m, c :: cs⟩ List.mem_cons_self x (List.mem_cons_of_mem _ hx)
          · exact hin fr (List.mem_cons_of_mem _ h1) x hx
        split
        · apply ih _ _ _ hrest
          simp only [framesWork, List.map_cons, List.sum_cons, List.length_cons] at hle ⊢; omega
        · rename_i hc
          cases hr : rq.required c with
          | none => simp
          | some req =>
            dsimp only
            have hcU : c ∈ U := hin ⟨m, c :: cs⟩ List.mem_cons_self c List.mem_cons_self
            apply ih
            · intro fr hfr x hx
              rcases List.mem_cons.mp hfr with rfl | h1
              · exact hU c hcU req hr x hx
              · exact hrest fr h1 x hx
            · have hmark := unmarked_mark (fun n => 2 + deg rq n) (fun n => cache.any (·.1 = n))
                (fun n => ((c, req) :: cache).any (·.1 = n)) c
                (by cases h : cache.any (·.1 = c); · rfl
                    · exact absurd h hc) (by simp)
                (by intro x hx; simp only [List.any_cons] at hx ⊢; simp [hx]) U hcU
              have hdeg : deg rq c = req.length := by simp [deg, hr]
              simp only [framesWork, List.map_cons, List.sum_cons, List.length_cons] at hle ⊢
              omega

/-- the second walk -/
theorem markHave_fuel_suff (cache : List (Mod × List Mod)) (U : List Mod)
    (hU : ∀ n ∈ U, ∀ m ∈ cached cache n, m ∈ U) :
    ∀ (f : Nat) (todo hv : List Mod), (∀ n ∈ todo, n ∈ U) →
      todo.length + unmarked (fun n => 1 + (cached cache n).length) U (fun n => decide (n ∈ hv)) ≤ f →
      (markHave cache f todo hv).isSome := by
  intro f
  induction f with
  | zero =>
    intro todo hv _ hle
    cases todo with
    | nil => simp [markHave]
    | cons n t => simp at hle
  | succ f ih =>
    intro todo hv hin hle
    cases todo with
    | nil => simp [markHave]
    | cons n t =>
      simp only [markHave]
      split
      · apply ih t hv (fun m hm => hin m (List.mem_cons_of_mem _ hm))
        simp only [List.length_cons] at hle; omega
      · rename_i hn
        have hnU := hin n List.mem_cons_self
        have hmark := unmarked_mark (fun n => 1 + (cached cache n).length) (fun x => decide (x ∈ hv))
          (fun x => decide (x ∈ n :: hv)) n (by simpa using hn) (by simp)
          (by intro x hx; simp only [decide_eq_true_eq] at hx ⊢; exact List.mem_cons_of_mem _ hx) U hnU
        apply ih
        · intro m hm
          rcases List.mem_append.mp hm with h1 | h1
          · exact hU n hnU m h1
          · exact hin m (List.mem_cons_of_mem _ h1)
        · simp only [List.length_cons, List.length_append] at hle ⊢; omega


theorem unmarked_le_total (w : Mod → Nat) (U : List Mod) (vis : Mod → Bool) : unmarked w U vis ≤ (U.map w).sum := by
  have := unmarked_mono w (fun _ => false) vis (fun x h => by cases h) U
  simpa [unmarked, List.filter_eq_self.mpr] using this

theorem sum_map_le {α : Type} (w w' : α → Nat) : ∀ (l : List α), (∀ x ∈ l, w x ≤ w' x) → (l.map w).sum ≤ (l.map w').sum
  | [], _ => by simp
  | x :: xs, h => by
    have := sum_map_le w w' xs (fun y hy => h y (List.mem_cons_of_mem _ hy))
    have := h x List.mem_cons_self
    simp only [List.map_cons, List.sum_cons]; omega

theorem selectMin_fuel_suff (fuel : Nat) (cache : List (Mod × List Mod)) (maxv : Sel) (U : List Mod)
    (hU : ∀ n ∈ U, ∀ m ∈ cached cache n, m ∈ U)
    (hf : 1 + (U.map fun n => 1 + (cached cache n).length).sum ≤ fuel) :
    ∀ (l hv min : List Mod), (∀ m ∈ l, m ∈ U) → (selectMin fuel cache maxv l hv min).isSome := by
  intro l
  induction l with
  | nil => intro hv min _; simp [selectMin]
  | cons m rest ih =>
    intro hv min hl
    have hrest : ∀ x ∈ rest, x ∈ U := fun x hx => hl x (List.mem_cons_of_mem _ hx)
    simp only [selectMin]
    split
    · exact ih _ _ hrest
    · split
      · exact ih _ _ hrest
      · have hsome := markHave_fuel_suff cache U hU fuel [m] hv
          (fun n hn => by rw [List.mem_singleton.mp hn]; exact hl m List.mem_cons_self)
          (by
            have := unmarked_le_total (fun n => 1 + (cached cache n).length) U (fun n => decide (n ∈ hv))
            simp only [List.length_singleton]; omega)
        cases hm : markHave cache fuel [m] hv with
        | none => rw [hm] at hsome; simp at hsome
        | some hv' => exact ih _ _ hrest

/-- `ReqList` answers — requirements or an error, never `Err.fuel` — once the fuel exceeds
`1 + |list| + Σ_{n ∈ U} (2 + number of requirements of n)` for a finite universe `U` that contains the main module and
the list and is closed under requirements -/
theorem reqList_fuel (rq : Reqs) (main : Mod) (list U : List Mod) (hmain : main ∈ U) (hlist : ∀ m ∈ list, m ∈ U)
    (hU : ∀ n ∈ U, ∀ l, rq.required n = some l → ∀ m ∈ l, m ∈ U) (fuel : Nat)
    (hf : 1 + list.length + (U.map fun n => 2 + deg rq n).sum ≤ fuel) :
    reqList fuel rq main list ≠ .error .fuel := by
  unfold reqList
  have hpo := postorder_fuel rq U hU fuel [⟨main, list⟩] [(main, [])] []
    (fun fr hfr => by rw [List.mem_singleton.mp hfr]; exact hlist)
    (by
      have := unmarked_le_total (fun n => 2 + deg rq n) U (fun n => [(main, ([] : List Mod))].any (·.1 = n))
      simp only [framesWork, List.map_cons, List.map_nil, List.sum_cons, List.sum_nil]; omega)
  cases hp : postorder rq fuel [⟨main, list⟩] [(main, [])] [] with
  | error e =>
    dsimp only
    intro h; cases h; exact hpo hp
  | ok r =>
    obtain ⟨cache, post⟩ := r
    dsimp only
    have ps := postorder_spec rq fuel _ _ _ cache post hp
    -- the cache only holds requirement lists of modules of U
    have hcached : ∀ n, ∀ m ∈ cached cache n, (n ≠ main ∧ ∃ l, rq.required n = some l ∧ m ∈ l) := by
      intro n m hm
      unfold cached at hm
      cases hl : cache.lookup n with
      | none => simp [hl] at hm
      | some r =>
        simp only [hl, Option.getD_some] at hm
        have hmem := lookup_mem cache n r hl
        have hne : n ≠ main := by
          rintro rfl
          rcases ps.keys_new _ hmem with h1 | h1
          · simp only [List.mem_singleton, Prod.mk.injEq, true_and] at h1; subst h1; cases hm
          · exact h1 ⟨(n, []), List.mem_cons_self, rfl⟩
        rcases ps.cache_sound _ hmem with h1 | h1
        · simp only [List.mem_singleton, Prod.mk.injEq] at h1; exact absurd h1.1 hne
        · exact ⟨hne, r, h1, hm⟩
    have hUc : ∀ n ∈ U, ∀ m ∈ cached cache n, m ∈ U := by
      intro n hn m hm
      obtain ⟨_, l, hl, hml⟩ := hcached n m hm
      exact hU n hn l hl m hml
    have hlen : ∀ n ∈ U, 1 + (cached cache n).length ≤ 2 + deg rq n := by
      intro n _
      unfold cached
      cases hl : cache.lookup n with
      | none => simp; omega
      | some r =>
        have hmem := lookup_mem cache n r hl
        rcases ps.cache_sound _ hmem with h1 | h1
        · simp only [List.mem_singleton, Prod.mk.injEq] at h1; simp [h1.2]; omega
        · simp [deg, h1]
    have hpostU : ∀ m ∈ post.filter (· ≠ main), m ∈ U := by
      intro m hm
      exact ps.prov (· ∈ U) (fun fr hfr => by rw [List.mem_singleton.mp hfr]; exact ⟨hmain, hlist⟩) (fun _ h => nomatch h)
        (fun a r b ha _ hr hb => hU a ha r hr b hb) m (List.mem_filter.mp hm).1
    have hsel := selectMin_fuel_suff fuel cache (listMap list) U hUc
      (by have := sum_map_le _ _ U hlen; omega) (post.filter (· ≠ main)) [] [] hpostU
    cases hs : selectMin fuel cache (listMap list) (post.filter (· ≠ main)) [] [] with
    | none => rw [hs] at hsel; simp at hsel
    | some min => simp



def aframesWork (stk : List AFrame) : Nat :=
  (stk.map fun fr => 1 + 2 * fr.rest.length + (if fr.pending.isSome then 1 else 0)).sum

/-- the recursion of `add` never runs out of fuel once the fuel covers the open frames and, for every module of the
universe not added yet, the three steps per requirement-slot its own frame will take -/
theorem addRun_fuel (rq : Reqs) (maxv : Sel) (U : List Mod)
    (hU : ∀ n ∈ U, ∀ l, rq.required n = some l → ∀ m ∈ l, m ∈ U) :
    ∀ (f : Nat) (stk : List AFrame) (st : DState), (∀ fr ∈ stk, ∀ c ∈ fr.rest, c ∈ U) →
      aframesWork stk + unmarked (fun n => 3 + 2 * deg rq n) U (fun n => decide (n ∈ st.added)) ≤ f →
      (addRun rq maxv f stk st).isSome := by
  intro f
  induction f with
  | zero =>
    intro stk st _ hle
    cases stk with
    | nil => simp [addRun]
    | cons fr stk => simp [aframesWork] at hle
  | succ f ih =>
    intro stk st hin hle
    cases stk with
    | nil => simp [addRun]
    | cons fr stk =>
      obtain ⟨m, pending, rest⟩ := fr
      have htail : ∀ fr ∈ stk, ∀ c ∈ fr.rest, c ∈ U := fun fr hfr => hin fr (List.mem_cons_of_mem _ hfr)
      cases pending with
      | some r =>
        simp only [addRun]
        split
        · apply ih stk _ htail
          rw [(exclude_spec st m).1]
          simp only [aframesWork, List.map_cons, List.sum_cons] at hle ⊢; omega
        · apply ih
          · intro fr hfr c hc
            rcases List.mem_cons.mp hfr with rfl | h1
            · exact hin ⟨m, some r, rest⟩ List.mem_cons_self c hc
            · exact htail fr h1 c hc
          · simp only [aframesWork, List.map_cons, List.sum_cons, Option.isSome_some, Option.isSome_none,
              ↓reduceIte, Bool.false_eq_true] at hle ⊢
            omega
      | none =>
        cases rest with
        | nil =>
          simp only [addRun]
          apply ih stk st htail
          simp only [aframesWork, List.map_cons, List.sum_cons] at hle ⊢; omega
        | cons r rs =>
          simp only [addRun]
          have hrU : r ∈ U := hin ⟨m, .none, r :: rs⟩ List.mem_cons_self r List.mem_cons_self
          have hrest : ∀ fr ∈ (⟨m, some r, rs⟩ : AFrame) :: stk, ∀ c ∈ fr.rest, c ∈ U := by
            intro fr hfr c hc
            rcases List.mem_cons.mp hfr with rfl | h1
            · exact hin ⟨m, .none, r :: rs⟩ List.mem_cons_self c (List.mem_cons_of_mem _ hc)
            · exact htail fr h1 c hc
          have hwork : aframesWork ((⟨m, some r, rs⟩ : AFrame) :: stk) + 1 = aframesWork ((⟨m, .none, r :: rs⟩ : AFrame) :: stk) := by
            simp only [aframesWork, List.map_cons, List.sum_cons, List.length_cons, Option.isSome_some, Option.isSome_none,
              ↓reduceIte, Bool.false_eq_true]
            omega
          rcases addEnter_eq rq maxv st r with ⟨_, heq⟩ | ⟨hradd, heq⟩ | ⟨hradd, _, l, hl, heq⟩
          · rw [heq]; dsimp only
            apply ih _ _ hrest; omega
          · rw [heq]; dsimp only
            apply ih _ _ hrest
            rw [(exclude_spec { st with added := r :: st.added } r).1]
            show aframesWork _ + unmarked _ U (fun n => decide (n ∈ r :: st.added)) ≤ f
            have := unmarked_mono (fun n => 3 + 2 * deg rq n) (fun n => decide (n ∈ st.added))
              (fun n => decide (n ∈ r :: st.added))
              (by intro x hx; simp only [decide_eq_true_eq] at hx ⊢; exact List.mem_cons_of_mem _ hx) U
            omega
          · rw [heq]; dsimp only
            apply ih
            · intro fr hfr c hc
              rcases List.mem_cons.mp hfr with rfl | h1
              · exact hU r hrU l hl c hc
              · exact hrest fr h1 c hc
            · have hmark := unmarked_mark (fun n => 3 + 2 * deg rq n) (fun n => decide (n ∈ st.added))
                (fun n => decide (n ∈ r :: st.added)) r (by simpa using hradd) (by simp)
                (by intro x hx; simp only [decide_eq_true_eq] at hx ⊢; exact List.mem_cons_of_mem _ hx) U hrU
              have hdeg : deg rq r = l.length := by simp [deg, hl]
              have hpush : aframesWork ((⟨r, .none, l⟩ : AFrame) :: ⟨m, some r, rs⟩ :: stk) =
                  1 + 2 * l.length + aframesWork ((⟨m, some r, rs⟩ : AFrame) :: stk) := by
                simp [aframesWork]
              show aframesWork ((⟨r, .none, l⟩ : AFrame) :: ⟨m, some r, rs⟩ :: stk) +
                unmarked (fun n => 3 + 2 * deg rq n) U (fun n => decide (n ∈ r :: st.added)) ≤ f
              rw [hpush]
              omega

/-- a top-level `add` answers as soon as the fuel reaches `Σ_{n ∈ U} (3 + 2 · number of requirements of n)` -/
theorem add_fuel (rq : Reqs) (maxv : Sel) (U : List Mod)
    (hU : ∀ n ∈ U, ∀ l, rq.required n = some l → ∀ m ∈ l, m ∈ U) (fuel : Nat)
    (hf : (U.map fun n => 3 + 2 * deg rq n).sum ≤ fuel) (st : DState) (m : Mod) (hm : m ∈ U) :
    (add fuel rq maxv st m).isSome := by
  unfold add
  rcases addEnter_eq rq maxv st m with ⟨_, heq⟩ | ⟨_, heq⟩ | ⟨hadd, _, l, hl, heq⟩
  · rw [heq]; rfl
  · rw [heq]; rfl
  · rw [heq]; dsimp only
    apply addRun_fuel rq maxv U hU
    · intro fr hfr c hc
      rw [List.mem_singleton.mp hfr] at hc
      exact hU m hm l hl c hc
    · have hmark := unmarked_mark (fun n => 3 + 2 * deg rq n) (fun n => decide (n ∈ st.added))
        (fun n => decide (n ∈ m :: st.added)) m (by simpa using hadd) (by simp)
        (by intro x hx; simp only [decide_eq_true_eq] at hx ⊢; exact List.mem_cons_of_mem _ hx) U hm
      have := unmarked_le_total (fun n => 3 + 2 * deg rq n) U (fun n => decide (n ∈ st.added))
      have hdeg : deg rq m = l.length := by simp [deg, hl]
      simp only [aframesWork, List.map_cons, List.map_nil, List.sum_cons, List.sum_nil, Option.isSome_none,
        Bool.false_eq_true, ↓reduceIte]
      omega


/-- an exploration (plain, overridden, or with an upgrade function) followed by `ReqList`, the shape of every edit: it
answers once the fuel exceeds both bounds, in a finite universe closed under the edges of the exploration and under
requirements -/
theorem op_reqList_fuel (rq rq' : Reqs) (up : Option (Mod → Option Mod)) (main : Mod) (U : List Mod) (hmain : main ∈ U)
    (hU : ∀ n ∈ U, ∀ l, rq.required n = some l → ∀ m ∈ l, m ∈ U)
    (hU' : ∀ n ∈ U, ∀ m ∈ edges rq' up n, m ∈ U) (fuel : Nat)
    (hf1 : 1 + (U.map fun n => 1 + (edges rq' up n).length).sum ≤ fuel)
    (hf2 : 1 + U.length + (U.map fun n => 2 + deg rq n).sum ≤ fuel) :
    (match buildListWith fuel rq' up main with
      | .error e => (.error e : Except Err (List Mod))
      | .ok bl => reqList fuel rq main bl) ≠ .error .fuel := by
  have hb := buildListWith_fuel rq' up main U hmain hU' fuel hf1
  cases hbl : buildListWith fuel rq' up main with
  | error e =>
    dsimp only
    intro h; cases h; exact hb hbl
  | ok list =>
    dsimp only
    have hreachU : ∀ x, Reach rq' up main x → x ∈ U := by
      intro x hr
      induction hr with
      | root => exact hmain
      | step a b _ hb' ih => exact hU' a ih b hb'
    have hsub : ∀ m ∈ list, m ∈ U := by
      rintro ⟨p, v⟩ hm
      exact hreachU _ ((buildListWith_exact hbl p v).mp hm).2.1
    have hlen : list.length ≤ U.length :=
      (nodup_of_nodup_paths (buildListWith_nodup hbl)).length_le_of_subset (fun m hm => hsub m hm)
    exact reqList_fuel rq main list U hmain hsub hU fuel (by omega)

theorem edges_plain_subset (rq : Reqs) (U : List Mod) (hU : ∀ n ∈ U, ∀ l, rq.required n = some l → ∀ m ∈ l, m ∈ U) :
    ∀ n ∈ U, ∀ m ∈ edges rq .none n, m ∈ U := by
  intro n hn m hm
  rw [edges_plain] at hm
  split at hm
  · cases hr : rq.required n with
    | none => simp [hr] at hm
    | some l => simp only [hr, Option.getD_some] at hm; exact hU n hn l hr m hm
  · cases hm

theorem edges_plain_length_le (rq : Reqs) (n : Mod) : (edges rq .none n).length ≤ deg rq n := by
  rw [edges_plain]; split
  · exact Nat.le_refl _
  · simp

/-- the tidy operation (`mvs.Req`: `BuildList`, then `ReqList`) of a project file answers once the fuel exceeds the bound -/
theorem req_fuel (rq : Reqs) (main : Mod) (U : List Mod) (hmain : main ∈ U)
    (hU : ∀ n ∈ U, ∀ l, rq.required n = some l → ∀ m ∈ l, m ∈ U) (fuel : Nat)
    (hf : 1 + U.length + (U.map fun n => 2 + deg rq n).sum ≤ fuel) :
    req fuel rq main ≠ .error .fuel := by
  unfold req buildList
  apply op_reqList_fuel rq rq .none main U hmain hU (edges_plain_subset rq U hU) fuel _ hf
  have := sum_map_le (fun n => 1 + (edges rq .none n).length) (fun n => 2 + deg rq n) U
    (fun n _ => by have := edges_plain_length_le rq n; omega)
  omega

/-! ### the loop that picks a fresh name always finds one -/

theorem candidate_injective (name : String) {j k : Nat} (h : candidate name j = candidate name k) : j = k := by
  have hne : ∀ i, i ≠ 0 → name ≠ name ++ "-" ++ toString i := by
    intro i _ he
    have h1 : name ++ "" = name ++ ("-" ++ toString i) := by rw [String.append_empty, ← String.append_assoc]; exact he
    have h2 := (String.append_right_inj name).mp h1
    have : ("-" ++ toString i).length = 0 := by rw [← h2]; rfl
    simp [String.length_append] at this
  unfold candidate at h
  by_cases hj : j = 0
  · by_cases hk : k = 0
    · rw [hj, hk]
    · simp only [hj, hk, ↓reduceIte] at h
      exact absurd h (hne k hk)
  · by_cases hk : k = 0
    · simp only [hj, hk, ↓reduceIte] at h
      exact absurd h.symm (hne j hj)
    · simp only [hj, hk, ↓reduceIte] at h
      have h1 := (String.append_right_inj (name ++ "-")).mp h
      exact Nat.repr_inj.mp h1

theorem freshName_isSome (taken : List String) (name : String) : (freshName taken name).isSome := by
  unfold freshName
  rw [Option.isSome_map]
  cases hf : (List.range (taken.length + 1)).find? (fun k => candidate name k ∉ taken) with
  | some k => rfl
  | none =>
    exfalso
    have hall : ∀ k ∈ List.range (taken.length + 1), candidate name k ∈ taken := by
      intro k hk
      have := List.find?_eq_none.mp hf k hk
      simpa using this
    have hnd : ((List.range (taken.length + 1)).map (candidate name)).Nodup := by
      rw [List.Nodup, List.pairwise_map]
      exact (List.nodup_range (n := taken.length + 1)).imp (fun hne h => hne (candidate_injective name h))
    have hle := hnd.length_le_of_subset (l₂ := taken) (by
      intro s hs
      obtain ⟨k, hk, rfl⟩ := List.mem_map.mp hs
      exact hall k hk)
    simp only [List.length_map, List.length_range] at hle
    omega

theorem fresh_match (t : List String) (n : String) (f : String → Except Err Config) (hf : ∀ x, f x ≠ .error .fuel) :
    (match freshName t n with
      | .none => (.error .fuel : Except Err Config)
      | some x => f x) ≠ .error .fuel := by
  have := freshName_isSome t n
  cases h : freshName t n with
  | none => rw [h] at this; cases this
  | some x => exact hf x

theorem nameNew_fuel (e : Env) (old : Config) : ∀ (vs : List Mod) (acc : Config), nameNew e old vs acc ≠ .error .fuel
  | [], _ => by simp [nameNew]
  | v :: vs, acc => by
    simp only [nameNew]
    split
    · exact nameNew_fuel e old vs acc
    · split
      · exact nameNew_fuel e old vs acc
      · split
        · simp
        · exact fresh_match _ _ _ (fun x => nameNew_fuel e old vs _)

/-- `transformReqs` adds no fuel failure of its own: it answers `Err.fuel` only if the operation did -/
theorem transformReqs_fuel {e : Env} {c : Config} {tx : List Mod → Except Err (List Mod)}
    (h : tx (c.map (·.2)) ≠ .error .fuel) : transformReqs e c tx ≠ .error .fuel := by
  unfold transformReqs
  cases htx : tx (c.map (·.2)) with
  | error err =>
    dsimp only
    intro he; cases he; exact h htx
  | ok nv =>
    dsimp only
    have := nameNew_fuel e c nv (c.filterMap fun nr => (pickFor nr.2 nv .none).map fun v => (nr.1, v))
    cases hn : nameNew e c nv (c.filterMap fun nr => (pickFor nr.2 nv .none).map fun v => (nr.1, v)) with
    | error err => dsimp only; intro he; cases he; exact this hn
    | ok all => simp

end Dawn.Mvs

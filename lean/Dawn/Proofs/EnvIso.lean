import Dawn.Proofs.EnvToTerm
import Dawn.Proofs.EnvTerm
/-!
Equal terms come from isomorphic graphs — second half of C08_sensitive (for the repaired code, `Cfg.current`).

`R` is a finite one-to-one relation between the addresses of the non-tuple objects of two heaps. Two values are
similar (`VSim`) when they are the same atom, related objects, or tuples whose elements are similar (tuples are
immutable and never memoised: their identity is not part of the environment). `GoodPair R (a, b)`: the objects at
`a` and `b` are of the same kind, carry the same payload (label, builtin name, bytecode) and have similar children.
`lockstep`: if the traversals of `v₁` in `g₁` and of `v₂` in `g₂` return the same term from related encoder states,
then `v₁` and `v₂` are similar under an extension of `R`, every pair added is good, and the final states are related.
-/
set_option linter.unusedSimpArgs false

namespace Dawn.Env

abbrev Pairs := List (Nat × Nat)

mutual
inductive VSim (g₁ g₂ : Heap) (R : Pairs) : Val → Val → Prop
  | atom (a : Atom) : VSim g₁ g₂ R (.atom a) (.atom a)
  | node (a b : Nat) : (a, b) ∈ R → VSim g₁ g₂ R (.ref a) (.ref b)
  | tuple (a b : Nat) (xs ys : List Val) : g₁[a]? = some (.tuple xs) → g₂[b]? = some (.tuple ys) →
      VSimL g₁ g₂ R xs ys → VSim g₁ g₂ R (.ref a) (.ref b)
inductive VSimL (g₁ g₂ : Heap) (R : Pairs) : List Val → List Val → Prop
  | nil : VSimL g₁ g₂ R [] []
  | cons (x y : Val) (xs ys : List Val) : VSim g₁ g₂ R x y → VSimL g₁ g₂ R xs ys → VSimL g₁ g₂ R (x :: xs) (y :: ys)
end

/-- same kind, same payload, similar children (a function's own name is not part of its environment) -/
inductive OSim (g₁ g₂ : Heap) (R : Pairs) : Obj → Obj → Prop
  | list (xs ys) : VSimL g₁ g₂ R xs ys → OSim g₁ g₂ R (.list xs) (.list ys)
  | dict (k₁ k₂) : VSimL g₁ g₂ R (flattenKvs k₁) (flattenKvs k₂) → OSim g₁ g₂ R (.dict k₁) (.dict k₂)
  | set (xs ys) : VSimL g₁ g₂ R xs ys → OSim g₁ g₂ R (.set xs) (.set ys)
  | target (l) : OSim g₁ g₂ R (.target l) (.target l)
  | builtin (n r₁ r₂) : VSim g₁ g₂ R r₁ r₂ → OSim g₁ g₂ R (.builtin n r₁) (.builtin n r₂)
  | code (n₁ n₂ m₁ m₂ gl₁ gl₂ bc s₁ s₂) : VSim g₁ g₂ R m₁ m₂ → VSim g₁ g₂ R gl₁ gl₂ → VSim g₁ g₂ R s₁ s₂ →
      OSim g₁ g₂ R (.code n₁ m₁ gl₁ bc s₁) (.code n₂ m₂ gl₂ bc s₂)
  | func (n₁ n₂ d₁ d₂ f₁ f₂ c₁ c₂) : VSim g₁ g₂ R d₁ d₂ → VSim g₁ g₂ R f₁ f₂ → VSim g₁ g₂ R c₁ c₂ →
      OSim g₁ g₂ R (.func n₁ d₁ f₁ c₁) (.func n₂ d₂ f₂ c₂)
  | mandatory : OSim g₁ g₂ R .mandatory .mandatory

def GoodPair (g₁ g₂ : Heap) (R : Pairs) (p : Nat × Nat) : Prop :=
  ∃ o₁ o₂, g₁[p.1]? = some o₁ ∧ g₂[p.2]? = some o₂ ∧ OSim g₁ g₂ R o₁ o₂

/-- `R` relates each address to at most one address, in both directions -/
def OneToOne (R : Pairs) : Prop :=
  (∀ a b b', (a, b) ∈ R → (a, b') ∈ R → b = b') ∧ (∀ a a' b, (a, b) ∈ R → (a', b) ∈ R → a = a')

mutual
theorem VSim.mono {g₁ g₂ : Heap} {R R' : Pairs} (h : ∀ p ∈ R, p ∈ R') : ∀ {x y}, VSim g₁ g₂ R x y → VSim g₁ g₂ R' x y
  | _, _, .atom a => .atom a
  | _, _, .node a b hm => .node a b (h _ hm)
  | _, _, .tuple a b xs ys h1 h2 hl => .tuple a b xs ys h1 h2 (VSimL.mono h hl)
theorem VSimL.mono {g₁ g₂ : Heap} {R R' : Pairs} (h : ∀ p ∈ R, p ∈ R') : ∀ {xs ys}, VSimL g₁ g₂ R xs ys → VSimL g₁ g₂ R' xs ys
  | _, _, .nil => .nil
  | _, _, .cons x y xs ys hx hl => .cons x y xs ys (VSim.mono h hx) (VSimL.mono h hl)
end

theorem OSim.mono {g₁ g₂ : Heap} {R R' : Pairs} (h : ∀ p ∈ R, p ∈ R') {o₁ o₂ : Obj} (ho : OSim g₁ g₂ R o₁ o₂) :
    OSim g₁ g₂ R' o₁ o₂ := by
  cases ho with
  | list xs ys hl => exact .list xs ys (VSimL.mono h hl)
  | dict k₁ k₂ hl => exact .dict k₁ k₂ (VSimL.mono h hl)
  | set xs ys hl => exact .set xs ys (VSimL.mono h hl)
  | target l => exact .target l
  | builtin n r₁ r₂ hr => exact .builtin n r₁ r₂ (VSim.mono h hr)
  | code n₁ n₂ m₁ m₂ gl₁ gl₂ bc s₁ s₂ h1 h2 h3 =>
    exact .code n₁ n₂ m₁ m₂ gl₁ gl₂ bc s₁ s₂ (VSim.mono h h1) (VSim.mono h h2) (VSim.mono h h3)
  | func n₁ n₂ d₁ d₂ f₁ f₂ c₁ c₂ h1 h2 h3 =>
    exact .func n₁ n₂ d₁ d₂ f₁ f₂ c₁ c₂ (VSim.mono h h1) (VSim.mono h h2) (VSim.mono h h3)
  | mandatory => exact .mandatory

theorem GoodPair.mono {g₁ g₂ : Heap} {R R' : Pairs} (h : ∀ p ∈ R, p ∈ R') {p : Nat × Nat} (hg : GoodPair g₁ g₂ R p) :
    GoodPair g₁ g₂ R' p := by
  obtain ⟨o₁, o₂, h1, h2, ho⟩ := hg
  exact ⟨o₁, o₂, h1, h2, ho.mono h⟩

end Dawn.Env

namespace Dawn.Env

/-! ### the traversal of the repaired code as a relation (the graph of `toTerm Cfg.current` on its `ok` results) -/

abbrev C := Cfg.current

@[simp] theorem C_fixed : Cfg.current.fixed = true := rfl
@[simp] theorem C_builtinIdentity : Cfg.current.builtinIdentity = true := rfl
@[simp] theorem C_signature : Cfg.current.signature = true := rfl
@[simp] theorem C_mandatory : Cfg.current.mandatory = true := rfl
@[simp] theorem C_memoCounter : Cfg.current.memoCounter = true := rfl
@[simp] theorem C_reencode : Cfg.current.reencode = false := rfl

def EncSt.see (s : EncSt) (a : Nat) : EncSt := { s with seen := s.seen ++ [a] }

/-- the name the marker carries for a host object that can reach itself -/
def markName : Obj → Option Bytes
  | .builtin n _ => some n
  | .code n _ _ _ _ => some n
  | .func n _ _ _ => some n
  | _ => none

mutual
inductive Enc (g : Heap) : Nat → EncSt → Val → EncSt → Term → Prop
  | atom (fuel s a) : Enc g fuel s (.atom a) s (.atom a)
  | hit (fuel s a id) : lookup s.memo a = some id → Enc g (fuel + 1) s (.ref a) s (.bg id)
  | tuple (fuel s a xs s' ts) : lookup s.memo a = none → g[a]? = some (.tuple xs) → EncL g fuel s xs s' ts →
      Enc g (fuel + 1) s (.ref a) s' (tupleOf ts)
  | list (fuel s a xs s' ts) : lookup s.memo a = none → g[a]? = some (.list xs) → EncL g fuel (s.memoize C a) xs s' ts →
      Enc g (fuel + 1) s (.ref a) s' (.list (Terms.ofList ts))
  | dict (fuel s a kvs s' ts) : lookup s.memo a = none → g[a]? = some (.dict kvs) →
      EncL g fuel (s.memoize C a) (flattenKvs kvs) s' ts → Enc g (fuel + 1) s (.ref a) s' (.dict (Terms.ofList ts))
  | set (fuel s a xs s' ts) : lookup s.memo a = none → g[a]? = some (.set xs) → EncL g fuel (s.memoize C a) xs s' ts →
      Enc g (fuel + 1) s (.ref a) s' (.set (Terms.ofList ts))
  | target (fuel s a l) : lookup s.memo a = none → g[a]? = some (.target l) →
      Enc g (fuel + 1) s (.ref a) (s.memoize C a) (.host nameTarget (tupleOf [.atom (.str l)]))
  | mandatory (fuel s a) : lookup s.memo a = none → g[a]? = some .mandatory →
      Enc g (fuel + 1) s (.ref a) (s.memoize C a) (.host nameMandatory (tupleOf []))
  | marker (fuel s a o name idx) : lookup s.memo a = none → g[a]? = some o → markName o = some name →
      indexOf s.seen a = some idx → Enc g (fuel + 1) s (.ref a) (s.memoize C a) (markerTerm name idx)
  | builtin (fuel s a name recv s' t) : lookup s.memo a = none → g[a]? = some (.builtin name recv) →
      indexOf s.seen a = none → Enc g fuel (s.see a) recv s' t →
      Enc g (fuel + 1) s (.ref a) (s'.memoize C a) (.host nameBuiltin (tupleOf [.atom (.str name), t]))
  | code (fuel s a name m gl bc sig s1 ts1 s' t2) : lookup s.memo a = none → g[a]? = some (.code name m gl bc sig) →
      indexOf s.seen a = none → EncL g fuel (s.see a) [m, gl] s1 ts1 → Enc g fuel s1 sig s' t2 →
      Enc g (fuel + 1) s (.ref a) (s'.memoize C a) (.host nameCode (tupleOf (ts1 ++ [.atom (.bytes bc), t2])))
  | func (fuel s a name d fv c s' ts) : lookup s.memo a = none → g[a]? = some (.func name d fv c) →
      indexOf s.seen a = none → EncL g fuel (s.see a) [d, fv, c] s' ts →
      Enc g (fuel + 1) s (.ref a) (s'.memoize C a) (.host nameFunc (tupleOf ts))
inductive EncL (g : Heap) : Nat → EncSt → List Val → EncSt → List Term → Prop
  | nil (fuel s) : EncL g fuel s [] s []
  | cons (fuel s x xs s1 t s2 ts) : Enc g fuel s x s1 t → EncL g fuel s1 xs s2 ts → EncL g fuel s (x :: xs) s2 (t :: ts)
end

theorem tSeq_EncL (g : Heap) (fuel : Nat)
    (h : ∀ s v s' t, toTerm C g fuel s v = .ok (s', t) → Enc g fuel s v s' t) :
    ∀ xs s s' ts, tSeq (toTerm C g fuel) s xs = .ok (s', ts) → EncL g fuel s xs s' ts := by
  intro xs
  induction xs with
  | nil => intro s s' ts hs; simp [tSeq] at hs; obtain ⟨rfl, rfl⟩ := hs; exact .nil fuel s
  | cons x xs ih =>
    intro s s' ts hs
    simp only [tSeq] at hs
    cases hx : toTerm C g fuel s x with
    | error e => rw [hx] at hs; simp at hs
    | ok p =>
      obtain ⟨s1, t⟩ := p
      rw [hx] at hs; simp only [] at hs
      cases hr : tSeq (toTerm C g fuel) s1 xs with
      | error e => rw [hr] at hs; simp at hs
      | ok q =>
        obtain ⟨s2, ts'⟩ := q
        rw [hr] at hs; simp at hs
        obtain ⟨rfl, rfl⟩ := hs
        exact .cons fuel s x xs s1 t s2 ts' (h _ _ _ _ hx) (ih _ _ _ hr)

theorem toTerm_Enc (g : Heap) : ∀ fuel s v s' t, toTerm C g fuel s v = .ok (s', t) → Enc g fuel s v s' t := by
  intro fuel
  induction fuel with
  | zero =>
    intro s v s' t h
    cases v with
    | atom a => simp [toTerm] at h; obtain ⟨rfl, rfl⟩ := h; exact .atom 0 s a
    | ref a => simp [toTerm] at h
  | succ fuel ih =>
    intro s v s' t h
    have hL := tSeq_EncL g fuel ih
    cases v with
    | atom a => simp [toTerm] at h; obtain ⟨rfl, rfl⟩ := h; exact .atom _ s a
    | ref a =>
      simp only [toTerm] at h
      cases hl : lookup s.memo a with
      | some id => rw [hl] at h; simp at h; obtain ⟨rfl, rfl⟩ := h; exact .hit fuel s a id hl
      | none =>
        rw [hl] at h; simp only [] at h
        cases hg : g[a]? with
        | none => rw [hg] at h; simp at h
        | some o =>
          rw [hg] at h
          cases o with
          | tuple xs =>
            simp only [] at h
            cases hs : tSeq (toTerm C g fuel) s xs with
            | error e => rw [hs] at h; simp at h
            | ok p => obtain ⟨s1, ts⟩ := p; rw [hs] at h; simp at h; obtain ⟨rfl, rfl⟩ := h
                      exact .tuple fuel s a xs s1 ts hl hg (hL _ _ _ _ hs)
          | list xs =>
            simp only [] at h
            cases hs : tSeq (toTerm C g fuel) (s.memoize C a) xs with
            | error e => rw [hs] at h; simp at h
            | ok p => obtain ⟨s1, ts⟩ := p; rw [hs] at h; simp at h; obtain ⟨rfl, rfl⟩ := h
                      exact .list fuel s a xs s1 ts hl hg (hL _ _ _ _ hs)
          | dict kvs =>
            simp only [] at h
            cases hs : tSeq (toTerm C g fuel) (s.memoize C a) (flattenKvs kvs) with
            | error e => rw [hs] at h; simp at h
            | ok p => obtain ⟨s1, ts⟩ := p; rw [hs] at h; simp at h; obtain ⟨rfl, rfl⟩ := h
                      exact .dict fuel s a kvs s1 ts hl hg (hL _ _ _ _ hs)
          | set xs =>
            simp only [] at h
            cases hs : tSeq (toTerm C g fuel) (s.memoize C a) xs with
            | error e => rw [hs] at h; simp at h
            | ok p => obtain ⟨s1, ts⟩ := p; rw [hs] at h; simp at h; obtain ⟨rfl, rfl⟩ := h
                      exact .set fuel s a xs s1 ts hl hg (hL _ _ _ _ hs)
          | target l => simp at h; obtain ⟨rfl, rfl⟩ := h; exact .target fuel s a l hl hg
          | mandatory => simp at h; obtain ⟨rfl, rfl⟩ := h; exact .mandatory fuel s a hl hg
          | other => simp at h
          | builtin name recv =>
            simp only [C_fixed, C_builtinIdentity, C_signature, ↓reduceIte] at h  -- (one of them per case)
            cases hi : indexOf s.seen a with
            | some idx => rw [hi] at h; simp at h; obtain ⟨rfl, rfl⟩ := h
                          exact .marker fuel s a _ name idx hl hg rfl hi
            | none =>
              rw [hi] at h; simp only [] at h
              cases hr : toTerm Cfg.current g fuel { s with seen := s.seen ++ [a] } recv with
              | error e => rw [hr] at h; simp at h
              | ok p => obtain ⟨s1, t1⟩ := p; rw [hr] at h; simp at h; obtain ⟨rfl, rfl⟩ := h
                        exact .builtin fuel s a name recv s1 t1 hl hg hi (ih _ _ _ _ hr)
          | code name m gl bc sig =>
            simp only [C_fixed, C_builtinIdentity, C_signature, ↓reduceIte] at h  -- (one of them per case)
            cases hi : indexOf s.seen a with
            | some idx => rw [hi] at h; simp at h; obtain ⟨rfl, rfl⟩ := h
                          exact .marker fuel s a _ name idx hl hg rfl hi
            | none =>
              rw [hi] at h; simp only [] at h
              cases hs : tSeq (toTerm Cfg.current g fuel) { s with seen := s.seen ++ [a] } [m, gl] with
              | error e => rw [hs] at h; simp at h
              | ok p =>
                obtain ⟨s1, ts1⟩ := p; rw [hs] at h; simp only [] at h
                cases hr : toTerm Cfg.current g fuel s1 sig with
                | error e => rw [hr] at h; simp at h
                | ok q => obtain ⟨s2, t2⟩ := q; rw [hr] at h; simp at h; obtain ⟨rfl, rfl⟩ := h
                          exact .code fuel s a name m gl bc sig s1 ts1 s2 t2 hl hg hi (hL _ _ _ _ hs) (ih _ _ _ _ hr)
          | func name d fv c =>
            simp only [C_fixed, C_builtinIdentity, C_signature, ↓reduceIte] at h  -- (one of them per case)
            cases hi : indexOf s.seen a with
            | some idx => rw [hi] at h; simp at h; obtain ⟨rfl, rfl⟩ := h
                          exact .marker fuel s a _ name idx hl hg rfl hi
            | none =>
              rw [hi] at h; simp only [] at h
              cases hs : tSeq (toTerm Cfg.current g fuel) { s with seen := s.seen ++ [a] } [d, fv, c] with
              | error e => rw [hs] at h; simp at h
              | ok p => obtain ⟨s1, ts⟩ := p; rw [hs] at h; simp at h; obtain ⟨rfl, rfl⟩ := h
                        exact .func fuel s a name d fv c s1 ts hl hg hi (hL _ _ _ _ hs)

end Dawn.Env

namespace Dawn.Env

/-! ### related encoder states -/

def IsHostAt (g : Heap) (a : Nat) : Prop := ∃ o n, g[a]? = some o ∧ markName o = some n

/-- the two `seen` lists are related position by position -/
inductive SeenRel (R : Pairs) : List Nat → List Nat → Prop
  | nil : SeenRel R [] []
  | cons (a b : Nat) (l₁ l₂ : List Nat) : (a, b) ∈ R → SeenRel R l₁ l₂ → SeenRel R (a :: l₁) (b :: l₂)

theorem SeenRel.mono {R R' : Pairs} (h : ∀ p ∈ R, p ∈ R') : ∀ {l₁ l₂}, SeenRel R l₁ l₂ → SeenRel R' l₁ l₂
  | _, _, .nil => .nil
  | _, _, .cons a b l₁ l₂ hab hl => .cons a b l₁ l₂ (h _ hab) (SeenRel.mono h hl)

theorem SeenRel.snoc {R : Pairs} {l₁ l₂ : List Nat} (hl : SeenRel R l₁ l₂) {a b : Nat} (hab : (a, b) ∈ R) :
    SeenRel R (l₁ ++ [a]) (l₂ ++ [b]) := by
  induction hl with
  | nil => exact .cons a b [] [] hab .nil
  | cons x y m₁ m₂ hxy _ ih => exact .cons x y _ _ hxy ih

theorem SeenRel.indexOf {R : Pairs} (ho : OneToOne R) {l₁ l₂ : List Nat} (hl : SeenRel R l₁ l₂) {a b : Nat} {i : Nat}
    (h1 : indexOf l₁ a = some i) (h2 : indexOf l₂ b = some i) : (a, b) ∈ R := by
  induction hl generalizing i with
  | nil => simp [Dawn.Env.indexOf] at h1
  | cons x y m₁ m₂ hxy _ ih =>
    simp only [Dawn.Env.indexOf] at h1 h2
    by_cases e1 : x = a <;> by_cases e2 : y = b
    · subst e1; subst e2; exact hxy
    · simp [e1, e2] at h1 h2
      cases hh : Dawn.Env.indexOf m₂ b <;> simp [hh] at h2
      omega
    · simp [e1, e2] at h1 h2
      cases hh : Dawn.Env.indexOf m₁ a <;> simp [hh] at h1
      omega
    · simp [e1, e2] at h1 h2
      cases h1' : Dawn.Env.indexOf m₁ a <;> simp [h1'] at h1
      cases h2' : Dawn.Env.indexOf m₂ b <;> simp [h2'] at h2
      rename_i i1 i2
      have : i1 = i2 := by omega
      subst this
      exact ih h1' h2'

theorem SeenRel.indexOf_none {R : Pairs} (ho : OneToOne R) {l₁ l₂ : List Nat} (hl : SeenRel R l₁ l₂) {a b : Nat}
    (hab : (a, b) ∈ R) (h1 : Dawn.Env.indexOf l₁ a = none) : Dawn.Env.indexOf l₂ b = none := by
  induction hl with
  | nil => rfl
  | cons x y m₁ m₂ hxy _ ih =>
    simp only [Dawn.Env.indexOf] at h1 ⊢
    by_cases e1 : x = a
    · simp [e1] at h1
    · simp [e1] at h1
      have e2 : y ≠ b := fun e => e1 (ho.2 x a b (e ▸ hxy) hab)
      simp [e2, ih h1]

theorem lookup_cons' (m : List (Nat × Nat)) (k v a : Nat) :
    lookup ((k, v) :: m) a = if k = a then some v else lookup m a := rfl

/-- everything about two related states except where the related addresses live -/
structure InvCore (g₁ g₂ : Heap) (R : Pairs) (s₁ s₂ : EncSt) : Prop where
  nops : s₁.nops = s₂.nops
  fwd : ∀ a id, lookup s₁.memo a = some id → ∃ b, (a, b) ∈ R ∧ lookup s₂.memo b = some id
  bwd : ∀ b id, lookup s₂.memo b = some id → ∃ a, (a, b) ∈ R ∧ lookup s₁.memo a = some id
  lt₁ : ∀ a id, lookup s₁.memo a = some id → id < s₁.nops
  lt₂ : ∀ b id, lookup s₂.memo b = some id → id < s₂.nops
  inj₁ : ∀ a a' id, lookup s₁.memo a = some id → lookup s₁.memo a' = some id → a = a'
  inj₂ : ∀ b b' id, lookup s₂.memo b = some id → lookup s₂.memo b' = some id → b = b'
  seen : SeenRel R s₁.seen s₂.seen
  oto : OneToOne R
  host₁ : ∀ a ∈ s₁.seen, IsHostAt g₁ a
  host₂ : ∀ b ∈ s₂.seen, IsHostAt g₂ b

/-- every related address is memoised or in progress (`seen`), except possibly the pair `ex` -/
def Dom (R : Pairs) (s₁ s₂ : EncSt) (ex : Option (Nat × Nat)) : Prop :=
  ∀ a b, (a, b) ∈ R → some (a, b) = ex ∨
    (((lookup s₁.memo a).isSome ∨ a ∈ s₁.seen) ∧ ((lookup s₂.memo b).isSome ∨ b ∈ s₂.seen))

def Inv (g₁ g₂ : Heap) (R : Pairs) (s₁ s₂ : EncSt) : Prop := InvCore g₁ g₂ R s₁ s₂ ∧ Dom R s₁ s₂ none

theorem lookup_memoize (s : EncSt) (a x : Nat) :
    lookup (s.memoize C a).memo x = if a = x then some s.nops else lookup s.memo x := by
  simp [EncSt.memoize, lookup_cons']

theorem nops_memoize (s : EncSt) (a : Nat) : (s.memoize C a).nops = s.nops + 1 := by simp [EncSt.memoize]
theorem seen_memoize (s : EncSt) (a : Nat) : (s.memoize C a).seen = s.seen := by simp [EncSt.memoize]

/-- memoising a related pair on both sides keeps the states related (also when the pair was memoised before: the
`Recursive` marker, then the finished object) -/
theorem InvCore.memoize {g₁ g₂ : Heap} {R : Pairs} {s₁ s₂ : EncSt} (h : InvCore g₁ g₂ R s₁ s₂) {a b : Nat}
    (hab : (a, b) ∈ R) : InvCore g₁ g₂ R (s₁.memoize C a) (s₂.memoize C b) := by
  refine ⟨by simp [nops_memoize, h.nops], ?_, ?_, ?_, ?_, ?_, ?_, by simpa [seen_memoize] using h.seen, h.oto,
    by simpa [seen_memoize] using h.host₁, by simpa [seen_memoize] using h.host₂⟩
  · intro x id hx
    rw [lookup_memoize] at hx
    split at hx
    · next e => subst e; simp at hx; subst hx; exact ⟨b, hab, by simp [lookup_memoize, h.nops]⟩
    · next ne =>
      obtain ⟨y, hxy, hy⟩ := h.fwd x id hx
      refine ⟨y, hxy, ?_⟩
      rw [lookup_memoize]
      have : b ≠ y := fun e => ne (h.oto.2 a x b hab (e ▸ hxy))
      simp [this, hy]
  · intro y id hy
    rw [lookup_memoize] at hy
    split at hy
    · next e => subst e; simp at hy; subst hy; exact ⟨a, hab, by simp [lookup_memoize, h.nops]⟩
    · next ne =>
      obtain ⟨x, hxy, hx⟩ := h.bwd y id hy
      refine ⟨x, hxy, ?_⟩
      rw [lookup_memoize]
      have : a ≠ x := fun e => ne (h.oto.1 a b y hab (e ▸ hxy))
      simp [this, hx]
  · intro x id hx
    rw [lookup_memoize] at hx; rw [nops_memoize]
    split at hx
    · simp at hx; omega
    · have := h.lt₁ x id hx; omega
  · intro x id hx
    rw [lookup_memoize] at hx; rw [nops_memoize]
    split at hx
    · simp at hx; omega
    · have := h.lt₂ x id hx; omega
  · intro x x' id hx hx'
    rw [lookup_memoize] at hx hx'
    split at hx <;> split at hx'
    · next e e' => exact e.symm.trans e'
    · next e ne => simp at hx; subst hx; have := h.lt₁ x' _ hx'; omega
    · next ne e => simp at hx'; subst hx'; have := h.lt₁ x _ hx; omega
    · exact h.inj₁ x x' id hx hx'
  · intro x x' id hx hx'
    rw [lookup_memoize] at hx hx'
    split at hx <;> split at hx'
    · next e e' => exact e.symm.trans e'
    · next e ne => simp at hx; subst hx; have := h.lt₂ x' _ hx'; omega
    · next ne e => simp at hx'; subst hx'; have := h.lt₂ x _ hx; omega
    · exact h.inj₂ x x' id hx hx'

theorem Dom.memoize {R : Pairs} {s₁ s₂ : EncSt} {a b : Nat} (h : Dom R s₁ s₂ (some (a, b))) :
    Dom R (s₁.memoize C a) (s₂.memoize C b) none := by
  intro x y hxy
  right
  rw [lookup_memoize, lookup_memoize, seen_memoize, seen_memoize]
  rcases h x y hxy with e | ⟨h1, h2⟩
  · simp at e; obtain ⟨rfl, rfl⟩ := e; simp
  · constructor
    · rcases h1 with hm | hs
      · left; split <;> simp [hm]
      · exact Or.inr hs
    · rcases h2 with hm | hs
      · left; split <;> simp [hm]
      · exact Or.inr hs

theorem Dom.weaken {R : Pairs} {s₁ s₂ : EncSt} (h : Dom R s₁ s₂ none) (ex : Option (Nat × Nat)) : Dom R s₁ s₂ ex :=
  fun a b hab => (h a b hab).imp (fun e => by simp at e) id

theorem Inv.memoize {g₁ g₂ : Heap} {R : Pairs} {s₁ s₂ : EncSt} (h : Inv g₁ g₂ R s₁ s₂) {a b : Nat} (hab : (a, b) ∈ R) :
    Inv g₁ g₂ R (s₁.memoize C a) (s₂.memoize C b) :=
  ⟨h.1.memoize hab, (h.2.weaken _).memoize⟩

/-- adding a pair of addresses that are not related to anything yet -/
theorem InvCore.add {g₁ g₂ : Heap} {R : Pairs} {s₁ s₂ : EncSt} (h : InvCore g₁ g₂ R s₁ s₂) {a b : Nat}
    (ha : ∀ y, (a, y) ∉ R) (hb : ∀ x, (x, b) ∉ R) : InvCore g₁ g₂ ((a, b) :: R) s₁ s₂ := by
  refine ⟨h.nops, ?_, ?_, h.lt₁, h.lt₂, h.inj₁, h.inj₂, h.seen.mono (fun _ hm => List.mem_cons_of_mem _ hm),
    ⟨?_, ?_⟩, h.host₁, h.host₂⟩
  · intro x id hx; obtain ⟨y, hxy, hy⟩ := h.fwd x id hx; exact ⟨y, List.mem_cons_of_mem _ hxy, hy⟩
  · intro y id hy; obtain ⟨x, hxy, hx⟩ := h.bwd y id hy; exact ⟨x, List.mem_cons_of_mem _ hxy, hx⟩
  · intro x y y' h1 h2
    rcases List.mem_cons.mp h1 with e1 | m1 <;> rcases List.mem_cons.mp h2 with e2 | m2
    · simp at e1 e2; rw [e1.2, e2.2]
    · simp at e1; exact absurd (e1.1 ▸ m2) (ha y')
    · simp at e2; exact absurd (e2.1 ▸ m1) (ha y)
    · exact h.oto.1 x y y' m1 m2
  · intro x x' y h1 h2
    rcases List.mem_cons.mp h1 with e1 | m1 <;> rcases List.mem_cons.mp h2 with e2 | m2
    · simp at e1 e2; rw [e1.1, e2.1]
    · simp at e1; exact absurd (e1.2 ▸ m2) (hb x')
    · simp at e2; exact absurd (e2.2 ▸ m1) (hb x)
    · exact h.oto.2 x x' y m1 m2

theorem Dom.add {R : Pairs} {s₁ s₂ : EncSt} (h : Dom R s₁ s₂ none) (a b : Nat) : Dom ((a, b) :: R) s₁ s₂ (some (a, b)) := by
  intro x y hxy
  rcases List.mem_cons.mp hxy with e | m
  · left; rw [e]
  · right; rcases h x y m with e | h'
    · simp at e
    · exact h'

/-- an unmemoised address that is not in progress is not related to anything -/
theorem Inv.fresh₁ {g₁ g₂ : Heap} {R : Pairs} {s₁ s₂ : EncSt} (h : Inv g₁ g₂ R s₁ s₂) {a : Nat}
    (hm : lookup s₁.memo a = none) (hs : a ∉ s₁.seen) : ∀ y, (a, y) ∉ R := by
  intro y hay
  rcases h.2 a y hay with e | ⟨h1, _⟩
  · simp at e
  · rcases h1 with h1 | h1
    · simp [hm] at h1
    · exact hs h1

theorem Inv.fresh₂ {g₁ g₂ : Heap} {R : Pairs} {s₁ s₂ : EncSt} (h : Inv g₁ g₂ R s₁ s₂) {b : Nat}
    (hm : lookup s₂.memo b = none) (hs : b ∉ s₂.seen) : ∀ x, (x, b) ∉ R := by
  intro x hxb
  rcases h.2 x b hxb with e | ⟨_, h2⟩
  · simp at e
  · rcases h2 with h2 | h2
    · simp [hm] at h2
    · exact hs h2

/-- an object that is not a builtin, function or function code is never in `seen` -/
theorem Inv.notSeen₁ {g₁ g₂ : Heap} {R : Pairs} {s₁ s₂ : EncSt} (h : Inv g₁ g₂ R s₁ s₂) {a : Nat} {o : Obj}
    (hg : g₁[a]? = some o) (hn : markName o = none) : a ∉ s₁.seen := by
  intro hs
  obtain ⟨o', n, h1, h2⟩ := h.1.host₁ a hs
  rw [hg] at h1; cases h1; rw [hn] at h2; cases h2

theorem Inv.notSeen₂ {g₁ g₂ : Heap} {R : Pairs} {s₁ s₂ : EncSt} (h : Inv g₁ g₂ R s₁ s₂) {b : Nat} {o : Obj}
    (hg : g₂[b]? = some o) (hn : markName o = none) : b ∉ s₂.seen := by
  intro hs
  obtain ⟨o', n, h1, h2⟩ := h.1.host₂ b hs
  rw [hg] at h1; cases h1; rw [hn] at h2; cases h2

/-- entering a list / dict / set, or finishing a target / placeholder: new pair, memoised at once -/
theorem Inv.addMemo {g₁ g₂ : Heap} {R : Pairs} {s₁ s₂ : EncSt} (h : Inv g₁ g₂ R s₁ s₂) {a b : Nat}
    (ha : ∀ y, (a, y) ∉ R) (hb : ∀ x, (x, b) ∉ R) :
    Inv g₁ g₂ ((a, b) :: R) (s₁.memoize C a) (s₂.memoize C b) :=
  ⟨(h.1.add ha hb).memoize (List.mem_cons_self ..), (h.2.add a b).memoize⟩

theorem seen_see (s : EncSt) (a : Nat) : (s.see a).seen = s.seen ++ [a] := rfl
theorem memo_see (s : EncSt) (a : Nat) : (s.see a).memo = s.memo := rfl
theorem nops_see (s : EncSt) (a : Nat) : (s.see a).nops = s.nops := rfl

/-- entering a builtin / function / function code: new pair, put in `seen` on both sides -/
theorem Inv.addSee {g₁ g₂ : Heap} {R : Pairs} {s₁ s₂ : EncSt} (h : Inv g₁ g₂ R s₁ s₂) {a b : Nat}
    (ha : ∀ y, (a, y) ∉ R) (hb : ∀ x, (x, b) ∉ R) (h1 : IsHostAt g₁ a) (h2 : IsHostAt g₂ b) :
    Inv g₁ g₂ ((a, b) :: R) (s₁.see a) (s₂.see b) := by
  have hc := h.1.add ha hb
  refine ⟨⟨hc.nops, hc.fwd, hc.bwd, hc.lt₁, hc.lt₂, hc.inj₁, hc.inj₂, hc.seen.snoc (List.mem_cons_self ..), hc.oto, ?_, ?_⟩, ?_⟩
  · intro x hx
    rcases List.mem_append.mp hx with hx | hx
    · exact hc.host₁ x hx
    · simp at hx; subst hx; exact h1
  · intro x hx
    rcases List.mem_append.mp hx with hx | hx
    · exact hc.host₂ x hx
    · simp at hx; subst hx; exact h2
  · intro x y hxy
    right
    rcases List.mem_cons.mp hxy with e | m
    · simp at e; obtain ⟨rfl, rfl⟩ := e; simp [seen_see]
    · rcases h.2 x y m with e | ⟨d1, d2⟩
      · simp at e
      · exact ⟨d1.imp id (fun hs => List.mem_append_left _ hs), d2.imp id (fun hs => List.mem_append_left _ hs)⟩

end Dawn.Env

namespace Dawn.Env

/-! ### lockstep -/

@[simp] theorem nameTarget_ne_nameBuiltin : (nameTarget = nameBuiltin) = False := by
  have : nameTarget ≠ nameBuiltin := by decide +kernel
  simp [this]
@[simp] theorem nameTarget_ne_nameCode : (nameTarget = nameCode) = False := by
  have : nameTarget ≠ nameCode := by decide +kernel
  simp [this]
@[simp] theorem nameTarget_ne_nameFunc : (nameTarget = nameFunc) = False := by
  have : nameTarget ≠ nameFunc := by decide +kernel
  simp [this]
@[simp] theorem nameTarget_ne_nameRecursive : (nameTarget = nameRecursive) = False := by
  have : nameTarget ≠ nameRecursive := by decide +kernel
  simp [this]
@[simp] theorem nameTarget_ne_nameMandatory : (nameTarget = nameMandatory) = False := by
  have : nameTarget ≠ nameMandatory := by decide +kernel
  simp [this]
@[simp] theorem nameBuiltin_ne_nameTarget : (nameBuiltin = nameTarget) = False := by
  have : nameBuiltin ≠ nameTarget := by decide +kernel
  simp [this]
@[simp] theorem nameBuiltin_ne_nameCode : (nameBuiltin = nameCode) = False := by
  have : nameBuiltin ≠ nameCode := by decide +kernel
  simp [this]
@[simp] theorem nameBuiltin_ne_nameFunc : (nameBuiltin = nameFunc) = False := by
  have : nameBuiltin ≠ nameFunc := by decide +kernel
  simp [this]
@[simp] theorem nameBuiltin_ne_nameRecursive : (nameBuiltin = nameRecursive) = False := by
  have : nameBuiltin ≠ nameRecursive := by decide +kernel
  simp [this]
@[simp] theorem nameBuiltin_ne_nameMandatory : (nameBuiltin = nameMandatory) = False := by
  have : nameBuiltin ≠ nameMandatory := by decide +kernel
  simp [this]
@[simp] theorem nameCode_ne_nameTarget : (nameCode = nameTarget) = False := by
  have : nameCode ≠ nameTarget := by decide +kernel
  simp [this]
@[simp] theorem nameCode_ne_nameBuiltin : (nameCode = nameBuiltin) = False := by
  have : nameCode ≠ nameBuiltin := by decide +kernel
  simp [this]
@[simp] theorem nameCode_ne_nameFunc : (nameCode = nameFunc) = False := by
  have : nameCode ≠ nameFunc := by decide +kernel
  simp [this]
@[simp] theorem nameCode_ne_nameRecursive : (nameCode = nameRecursive) = False := by
  have : nameCode ≠ nameRecursive := by decide +kernel
  simp [this]
@[simp] theorem nameCode_ne_nameMandatory : (nameCode = nameMandatory) = False := by
  have : nameCode ≠ nameMandatory := by decide +kernel
  simp [this]
@[simp] theorem nameFunc_ne_nameTarget : (nameFunc = nameTarget) = False := by
  have : nameFunc ≠ nameTarget := by decide +kernel
  simp [this]
@[simp] theorem nameFunc_ne_nameBuiltin : (nameFunc = nameBuiltin) = False := by
  have : nameFunc ≠ nameBuiltin := by decide +kernel
  simp [this]
@[simp] theorem nameFunc_ne_nameCode : (nameFunc = nameCode) = False := by
  have : nameFunc ≠ nameCode := by decide +kernel
  simp [this]
@[simp] theorem nameFunc_ne_nameRecursive : (nameFunc = nameRecursive) = False := by
  have : nameFunc ≠ nameRecursive := by decide +kernel
  simp [this]
@[simp] theorem nameFunc_ne_nameMandatory : (nameFunc = nameMandatory) = False := by
  have : nameFunc ≠ nameMandatory := by decide +kernel
  simp [this]
@[simp] theorem nameRecursive_ne_nameTarget : (nameRecursive = nameTarget) = False := by
  have : nameRecursive ≠ nameTarget := by decide +kernel
  simp [this]
@[simp] theorem nameRecursive_ne_nameBuiltin : (nameRecursive = nameBuiltin) = False := by
  have : nameRecursive ≠ nameBuiltin := by decide +kernel
  simp [this]
@[simp] theorem nameRecursive_ne_nameCode : (nameRecursive = nameCode) = False := by
  have : nameRecursive ≠ nameCode := by decide +kernel
  simp [this]
@[simp] theorem nameRecursive_ne_nameFunc : (nameRecursive = nameFunc) = False := by
  have : nameRecursive ≠ nameFunc := by decide +kernel
  simp [this]
@[simp] theorem nameRecursive_ne_nameMandatory : (nameRecursive = nameMandatory) = False := by
  have : nameRecursive ≠ nameMandatory := by decide +kernel
  simp [this]
@[simp] theorem nameMandatory_ne_nameTarget : (nameMandatory = nameTarget) = False := by
  have : nameMandatory ≠ nameTarget := by decide +kernel
  simp [this]
@[simp] theorem nameMandatory_ne_nameBuiltin : (nameMandatory = nameBuiltin) = False := by
  have : nameMandatory ≠ nameBuiltin := by decide +kernel
  simp [this]
@[simp] theorem nameMandatory_ne_nameCode : (nameMandatory = nameCode) = False := by
  have : nameMandatory ≠ nameCode := by decide +kernel
  simp [this]
@[simp] theorem nameMandatory_ne_nameFunc : (nameMandatory = nameFunc) = False := by
  have : nameMandatory ≠ nameFunc := by decide +kernel
  simp [this]
@[simp] theorem nameMandatory_ne_nameRecursive : (nameMandatory = nameRecursive) = False := by
  have : nameMandatory ≠ nameRecursive := by decide +kernel
  simp [this]

theorem ofList_inj {l₁ l₂ : List Term} (h : Terms.ofList l₁ = Terms.ofList l₂) : l₁ = l₂ := by
  have := congrArg Terms.toList h
  simpa [Terms.toList_ofList] using this

theorem tupleOf_inj {l₁ l₂ : List Term} (h : tupleOf l₁ = tupleOf l₂) : l₁ = l₂ := by
  simp only [tupleOf, Term.tuple.injEq] at h
  exact ofList_inj h

/-- what a lockstep step establishes: an extension of `R` under which the final states are related, `P` holds,
and every added pair is good -/
def Step (g₁ g₂ : Heap) (R : Pairs) (s₁' s₂' : EncSt) (P : Pairs → Prop) : Prop :=
  ∃ R', (∀ p ∈ R, p ∈ R') ∧ Inv g₁ g₂ R' s₁' s₂' ∧ P R' ∧ (∀ p ∈ R', p ∉ R → GoodPair g₁ g₂ R' p)

theorem Step.same {g₁ g₂ : Heap} {R : Pairs} {s₁ s₂ : EncSt} {P : Pairs → Prop} (h : Inv g₁ g₂ R s₁ s₂) (hp : P R) :
    Step g₁ g₂ R s₁ s₂ P :=
  ⟨R, fun _ h => h, h, hp, fun p h1 h2 => absurd h1 h2⟩

/-- new pairs of two consecutive steps -/
theorem good_trans {g₁ g₂ : Heap} {R R₁ R₂ : Pairs} (h12 : ∀ p ∈ R₁, p ∈ R₂)
    (n1 : ∀ p ∈ R₁, p ∉ R → GoodPair g₁ g₂ R₁ p) (n2 : ∀ p ∈ R₂, p ∉ R₁ → GoodPair g₁ g₂ R₂ p) :
    ∀ p ∈ R₂, p ∉ R → GoodPair g₁ g₂ R₂ p := by
  intro p hp hn
  by_cases h1 : p ∈ R₁
  · exact (n1 p h1 hn).mono h12
  · exact n2 p hp h1

/-- sequences, given the lockstep lemma for their elements -/
theorem lockstepL (g₁ g₂ : Heap) (f₁ : Nat)
    (hE : ∀ f₂ s₁ s₂ v₁ v₂ s₁' s₂' t₁ t₂ R, Enc g₁ f₁ s₁ v₁ s₁' t₁ → Enc g₂ f₂ s₂ v₂ s₂' t₂ → t₁ = t₂ → Inv g₁ g₂ R s₁ s₂ →
      Step g₁ g₂ R s₁' s₂' (fun R' => VSim g₁ g₂ R' v₁ v₂)) :
    ∀ xs f₂ s₁ s₂ ys s₁' s₂' ts₁ ts₂ R, EncL g₁ f₁ s₁ xs s₁' ts₁ → EncL g₂ f₂ s₂ ys s₂' ts₂ → ts₁ = ts₂ → Inv g₁ g₂ R s₁ s₂ →
      Step g₁ g₂ R s₁' s₂' (fun R' => VSimL g₁ g₂ R' xs ys) := by
  intro xs
  induction xs with
  | nil =>
    intro f₂ s₁ s₂ ys s₁' s₂' ts₁ ts₂ R h₁ h₂ e hI
    cases h₁
    cases h₂ with
    | nil => exact Step.same hI .nil
    | cons => simp at e
  | cons x xs ih =>
    intro f₂ s₁ s₂ ys s₁' s₂' ts₁ ts₂ R h₁ h₂ e hI
    cases h₁ with
    | cons _ _ _ _ m₁ t₁ _ ts₁' hx₁ hr₁ =>
      cases h₂ with
      | nil => simp at e
      | cons _ _ y ys' m₂ t₂ _ ts₂' hx₂ hr₂ =>
        simp at e
        obtain ⟨R₁, sub₁, I₁, V₁, N₁⟩ := hE _ _ _ _ _ _ _ _ _ _ hx₁ hx₂ e.1 hI
        obtain ⟨R₂, sub₂, I₂, V₂, N₂⟩ := ih _ _ _ _ _ _ _ _ _ hr₁ hr₂ e.2 I₁
        exact ⟨R₂, fun p hp => sub₂ p (sub₁ p hp), I₂, .cons _ _ _ _ (V₁.mono sub₂) V₂, good_trans sub₂ N₁ N₂⟩

end Dawn.Env

namespace Dawn.Env

theorem isHostAt_of {g : Heap} {a : Nat} {o : Obj} {n : Bytes} (hg : g[a]? = some o) (hn : markName o = some n) :
    IsHostAt g a := ⟨o, n, hg, hn⟩

theorem not_seen_of_index {l : List Nat} {a : Nat} (h : indexOf l a = none) : a ∉ l := (indexOf_none l a).mp h

/-- adding one good pair on top of a step -/
theorem finish {g₁ g₂ : Heap} {R R' : Pairs} {a b : Nat} (sub : ∀ p ∈ (a, b) :: R, p ∈ R')
    (N : ∀ p ∈ R', p ∉ (a, b) :: R → GoodPair g₁ g₂ R' p) (hab : GoodPair g₁ g₂ R' (a, b)) :
    ∀ p ∈ R', p ∉ R → GoodPair g₁ g₂ R' p := by
  intro p hp hn
  by_cases e : p = (a, b)
  · subst e; exact hab
  · exact N p hp (by simp [e, hn])

theorem lockstep (g₁ g₂ : Heap) :
    ∀ f₁ f₂ s₁ s₂ v₁ v₂ s₁' s₂' t₁ t₂ R, Enc g₁ f₁ s₁ v₁ s₁' t₁ → Enc g₂ f₂ s₂ v₂ s₂' t₂ → t₁ = t₂ → Inv g₁ g₂ R s₁ s₂ →
      Step g₁ g₂ R s₁' s₂' (fun R' => VSim g₁ g₂ R' v₁ v₂) := by
  intro f₁
  induction f₁ with
  | zero =>
    intro f₂ s₁ s₂ v₁ v₂ s₁' s₂' t₁ t₂ R h₁ h₂ e hI
    cases h₁ with
    | atom _ _ a =>
      cases h₂ with
      | atom _ _ b => simp at e; subst e; exact Step.same hI (.atom a)
      | _ => simp [tupleOf, markerTerm] at e
  | succ f ih =>
    have hL := lockstepL g₁ g₂ f ih
    intro f₂ s₁ s₂ v₁ v₂ s₁' s₂' t₁ t₂ R h₁ h₂ e hI
    cases h₁ with
    | atom _ _ a =>
      cases h₂ with
      | atom _ _ b => simp at e; subst e; exact Step.same hI (.atom a)
      | _ => simp [tupleOf, markerTerm] at e
    | hit _ _ a id hl =>
      cases h₂ with
      | hit _ _ b id' hl' =>
        simp at e; subst e
        obtain ⟨b', hab', hb'⟩ := hI.1.fwd a id hl
        have : b' = b := hI.1.inj₂ _ _ _ hb' hl'
        subst this
        exact Step.same hI (.node a b' hab')
      | _ => simp [tupleOf, markerTerm] at e
    | tuple _ _ a xs _ ts hl hg hs =>
      cases h₂ with
      | tuple _ _ b ys _ ts' hl' hg' hs' =>
        obtain ⟨R', sub, I', V', N'⟩ := hL _ _ _ _ _ _ _ _ _ _ hs hs' (tupleOf_inj e) hI
        exact ⟨R', sub, I', .tuple a b xs ys hg hg' V', N'⟩
      | _ => simp [tupleOf, markerTerm] at e
    | list _ _ a xs _ ts hl hg hs =>
      cases h₂ with
      | list _ _ b ys _ ts' hl' hg' hs' =>
        have e' : ts = ts' := ofList_inj (by simpa using e)
        have I₀ := hI.addMemo (hI.fresh₁ hl (hI.notSeen₁ hg rfl)) (hI.fresh₂ hl' (hI.notSeen₂ hg' rfl))
        obtain ⟨R', sub, I', V', N'⟩ := hL _ _ _ _ _ _ _ _ _ _ hs hs' e' I₀
        exact ⟨R', fun p hp => sub p (List.mem_cons_of_mem _ hp), I', .node a b (sub _ (List.mem_cons_self ..)),
          finish sub N' ⟨_, _, hg, hg', .list xs ys V'⟩⟩
      | _ => simp [tupleOf, markerTerm] at e
    | dict _ _ a kvs _ ts hl hg hs =>
      cases h₂ with
      | dict _ _ b kvs' _ ts' hl' hg' hs' =>
        have e' : ts = ts' := ofList_inj (by simpa using e)
        have I₀ := hI.addMemo (hI.fresh₁ hl (hI.notSeen₁ hg rfl)) (hI.fresh₂ hl' (hI.notSeen₂ hg' rfl))
        obtain ⟨R', sub, I', V', N'⟩ := hL _ _ _ _ _ _ _ _ _ _ hs hs' e' I₀
        exact ⟨R', fun p hp => sub p (List.mem_cons_of_mem _ hp), I', .node a b (sub _ (List.mem_cons_self ..)),
          finish sub N' ⟨_, _, hg, hg', .dict kvs kvs' V'⟩⟩
      | _ => simp [tupleOf, markerTerm] at e
    | set _ _ a xs _ ts hl hg hs =>
      cases h₂ with
      | set _ _ b ys _ ts' hl' hg' hs' =>
        have e' : ts = ts' := ofList_inj (by simpa using e)
        have I₀ := hI.addMemo (hI.fresh₁ hl (hI.notSeen₁ hg rfl)) (hI.fresh₂ hl' (hI.notSeen₂ hg' rfl))
        obtain ⟨R', sub, I', V', N'⟩ := hL _ _ _ _ _ _ _ _ _ _ hs hs' e' I₀
        exact ⟨R', fun p hp => sub p (List.mem_cons_of_mem _ hp), I', .node a b (sub _ (List.mem_cons_self ..)),
          finish sub N' ⟨_, _, hg, hg', .set xs ys V'⟩⟩
      | _ => simp [tupleOf, markerTerm] at e
    | target _ _ a l hl hg =>
      cases h₂ with
      | target _ _ b l' hl' hg' =>
        have e' := tupleOf_inj (by simpa using e)
        simp at e'; subst e'
        have I₀ := hI.addMemo (hI.fresh₁ hl (hI.notSeen₁ hg rfl)) (hI.fresh₂ hl' (hI.notSeen₂ hg' rfl))
        exact ⟨(a, b) :: R, fun p hp => List.mem_cons_of_mem _ hp, I₀, .node a b (List.mem_cons_self ..),
          finish (fun p hp => hp) (fun p hp hn => absurd hp hn) ⟨_, _, hg, hg', .target l⟩⟩
      | _ => simp [tupleOf, markerTerm] at e
    | mandatory _ _ a hl hg =>
      cases h₂ with
      | mandatory _ _ b hl' hg' =>
        have I₀ := hI.addMemo (hI.fresh₁ hl (hI.notSeen₁ hg rfl)) (hI.fresh₂ hl' (hI.notSeen₂ hg' rfl))
        exact ⟨(a, b) :: R, fun p hp => List.mem_cons_of_mem _ hp, I₀, .node a b (List.mem_cons_self ..),
          finish (fun p hp => hp) (fun p hp hn => absurd hp hn) ⟨_, _, hg, hg', .mandatory⟩⟩
      | _ => simp [tupleOf, markerTerm] at e
    | marker _ _ a o name idx hl hg hn hi =>
      cases h₂ with
      | marker _ _ b o' name' idx' hl' hg' hn' hi' =>
        have e' := tupleOf_inj (by simpa [markerTerm] using e)
        simp at e'
        obtain ⟨rfl, hidx⟩ := e'
        have : idx = idx' := by omega
        subst this
        have hab : (a, b) ∈ R := hI.1.seen.indexOf hI.1.oto hi hi'
        exact Step.same (hI.memoize hab) (.node a b hab)
      | _ => simp [tupleOf, markerTerm] at e
    | builtin _ _ a name recv _ t hl hg hi hr =>
      cases h₂ with
      | builtin _ _ b name' recv' _ t' hl' hg' hi' hr' =>
        have e' := tupleOf_inj (by simpa using e)
        simp at e'
        obtain ⟨rfl, rfl⟩ := e'
        have I₀ := hI.addSee (hI.fresh₁ hl (not_seen_of_index hi)) (hI.fresh₂ hl' (not_seen_of_index hi'))
          (isHostAt_of hg rfl) (isHostAt_of hg' rfl)
        obtain ⟨R', sub, I', V', N'⟩ := ih _ _ _ _ _ _ _ _ _ _ hr hr' rfl I₀
        have hab : (a, b) ∈ R' := sub _ (List.mem_cons_self ..)
        exact ⟨R', fun p hp => sub p (List.mem_cons_of_mem _ hp), I'.memoize hab, .node a b hab,
          finish sub N' ⟨_, _, hg, hg', .builtin name recv recv' V'⟩⟩
      | _ => simp [tupleOf, markerTerm] at e
    | code _ _ a name m gl bc sig s1 ts1 _ t2 hl hg hi hs hr =>
      cases h₂ with
      | code _ _ b name' m' gl' bc' sig' s1' ts1' _ t2' hl' hg' hi' hs' hr' =>
        have e' := tupleOf_inj (by simpa using e)
        have hl1 : ts1.length = 2 := by cases hs with | cons _ _ _ _ _ _ _ _ _ h => cases h with | cons _ _ _ _ _ _ _ _ _ h => cases h; rfl
        have hl2 : ts1'.length = 2 := by cases hs' with | cons _ _ _ _ _ _ _ _ _ h => cases h with | cons _ _ _ _ _ _ _ _ _ h => cases h; rfl
        have e1 : ts1 = ts1' ∧ bc = bc' ∧ t2 = t2' := by
          have := List.append_inj e' (by omega)
          simpa using this
        obtain ⟨rfl, rfl, rfl⟩ := e1
        have I₀ := hI.addSee (hI.fresh₁ hl (not_seen_of_index hi)) (hI.fresh₂ hl' (not_seen_of_index hi'))
          (isHostAt_of hg rfl) (isHostAt_of hg' rfl)
        obtain ⟨R₁, sub₁, I₁, V₁, N₁⟩ := hL _ _ _ _ _ _ _ _ _ _ hs hs' rfl I₀
        obtain ⟨R₂, sub₂, I₂, V₂, N₂⟩ := ih _ _ _ _ _ _ _ _ _ _ hr hr' rfl I₁
        have hab : (a, b) ∈ R₂ := sub₂ _ (sub₁ _ (List.mem_cons_self ..))
        have V₁' := V₁.mono sub₂
        have hgood : GoodPair g₁ g₂ R₂ (a, b) := by
          cases V₁' with
          | cons _ _ _ _ hm hrest =>
            cases hrest with
            | cons _ _ _ _ hgl _ => exact ⟨_, _, hg, hg', .code name name' m m' gl gl' bc sig sig' hm hgl V₂⟩
        exact ⟨R₂, fun p hp => sub₂ p (sub₁ p (List.mem_cons_of_mem _ hp)), I₂.memoize hab, .node a b hab,
          finish (fun p hp => sub₂ p (sub₁ p hp)) (good_trans sub₂ N₁ N₂) hgood⟩
      | _ => simp [tupleOf, markerTerm] at e
    | func _ _ a name d fv c _ ts hl hg hi hs =>
      cases h₂ with
      | func _ _ b name' d' fv' c' _ ts' hl' hg' hi' hs' =>
        have e' : ts = ts' := tupleOf_inj (by simpa using e)
        have I₀ := hI.addSee (hI.fresh₁ hl (not_seen_of_index hi)) (hI.fresh₂ hl' (not_seen_of_index hi'))
          (isHostAt_of hg rfl) (isHostAt_of hg' rfl)
        obtain ⟨R', sub, I', V', N'⟩ := hL _ _ _ _ _ _ _ _ _ _ hs hs' e' I₀
        have hab : (a, b) ∈ R' := sub _ (List.mem_cons_self ..)
        have hgood : GoodPair g₁ g₂ R' (a, b) := by
          cases V' with
          | cons _ _ _ _ hd hrest =>
            cases hrest with
            | cons _ _ _ _ hfv hrest2 =>
              cases hrest2 with
              | cons _ _ _ _ hc _ => exact ⟨_, _, hg, hg', .func name name' d d' fv fv' c c' hd hfv hc⟩
        exact ⟨R', fun p hp => sub p (List.mem_cons_of_mem _ hp), I'.memoize hab, .node a b hab, finish sub N' hgood⟩
      | _ => simp [tupleOf, markerTerm] at e

end Dawn.Env

namespace Dawn.Env

/-- the environments below `r₁` in `g₁` and below `r₂` in `g₂` are the same up to the addresses of their objects (and
up to the identity of tuples): a one-to-one relation between object addresses under which the roots are similar and
related objects have the same kind, the same payload and similar children -/
def EnvIso (g₁ : Heap) (r₁ : Val) (g₂ : Heap) (r₂ : Val) : Prop :=
  ∃ R : Pairs, OneToOne R ∧ VSim g₁ g₂ R r₁ r₂ ∧ ∀ p ∈ R, GoodPair g₁ g₂ R p

theorem inv_empty (g₁ g₂ : Heap) : Inv g₁ g₂ [] {} {} := by
  refine ⟨⟨rfl, ?_, ?_, ?_, ?_, ?_, ?_, .nil, ⟨?_, ?_⟩, ?_, ?_⟩, ?_⟩
  · intro a id h; simp [lookup] at h
  · intro a id h; simp [lookup] at h
  · intro a id h; simp [lookup] at h
  · intro a id h; simp [lookup] at h
  · intro a a' id h; simp [lookup] at h
  · intro a a' id h; simp [lookup] at h
  · intro a b b' h; cases h
  · intro a a' b h; cases h
  · intro a h; cases h
  · intro a h; cases h
  · intro a b h; cases h

theorem ok_written {n : Nat} {r : TRes} {st : EncSt} {ops : List Op} (h : written n r = .ok (st, ops)) :
    ∃ t, r = .ok (st, t) ∧ serT n t = ops := by
  cases r with
  | error e => simp [written] at h
  | ok p => obtain ⟨s, t⟩ := p; simp [written] at h; exact ⟨t, by rw [h.1], h.2⟩

/-- equal opcode streams come from isomorphic environments (repaired code) -/
theorem iso_of_equal_ops (g₁ g₂ : Heap) (r₁ r₂ : Val) (f₁ f₂ : Nat) (ops : List Op)
    (h₁ : encodeOps Cfg.current g₁ f₁ r₁ = .ok ops) (h₂ : encodeOps Cfg.current g₂ f₂ r₂ = .ok ops) :
    EnvIso g₁ r₁ g₂ r₂ := by
  have hb : Cfg.current.batch ≠ 0 := by decide
  simp only [encodeOps] at h₁ h₂
  cases e₁ : encVal Cfg.current g₁ f₁ {} r₁ with
  | error e => rw [e₁] at h₁; simp at h₁
  | ok p₁ =>
    obtain ⟨s₁', o₁⟩ := p₁
    cases e₂ : encVal Cfg.current g₂ f₂ {} r₂ with
    | error e => rw [e₂] at h₂; simp at h₂
    | ok p₂ =>
      obtain ⟨s₂', o₂⟩ := p₂
      rw [e₁] at h₁; rw [e₂] at h₂
      simp at h₁ h₂
      have ho : o₁ = o₂ := by
        have : o₁ ++ [Op.stop] = o₂ ++ [Op.stop] := by rw [h₁, h₂]
        exact List.append_cancel_right this
      rw [encVal_toTerm Cfg.current rfl hb] at e₁ e₂
      obtain ⟨t₁, ht₁, hs₁⟩ := ok_written e₁
      obtain ⟨t₂, ht₂, hs₂⟩ := ok_written e₂
      have ht : t₁ = t₂ := serT_injective _ hb t₁ t₂ (by rw [hs₁, hs₂, ho])
      obtain ⟨R, _, hI, hV, hN⟩ := lockstep g₁ g₂ f₁ f₂ {} {} r₁ r₂ s₁' s₂' t₁ t₂ [] (toTerm_Enc g₁ _ _ _ _ _ ht₁)
        (toTerm_Enc g₂ _ _ _ _ _ ht₂) ht (inv_empty g₁ g₂)
      exact ⟨R, hI.1.oto, hV, fun p hp => hN p hp (by simp)⟩

end Dawn.Env

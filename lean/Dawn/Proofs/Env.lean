import Dawn.Model.Env
/-!
Helper lemmas for C08 (`Dawn/Props/Env.lean`): the witnesses of D3 and D16, and the comparison lemmas.
-/
namespace Dawn.Env

/-! ## D16: `EqualDepth` on cyclic data -/

/-- a decoded environment whose global `V` is the list `V = []; V.append(V)`:
`{"global values": {"V": V}}` with `V = [V]` -/
def sGlobalValues : Bytes := "global values".toUTF8.toList
def sV : Bytes := "V".toUTF8.toList
def sFact : Bytes := "fact".toUTF8.toList

def gCyc : Heap :=
  [.dict [(.atom (.str sGlobalValues), .ref 1)],
   .dict [(.atom (.str sV), .ref 2)],
   .list [.ref 2]]

theorem equalDepth_selfList (n : Nat) : equalDepth gCyc gCyc n (.ref 2) (.ref 2) = .error .depthExceeded := by
  induction n with
  | zero => rfl
  | succ n ih =>
    simp only [gCyc] at ih ⊢
    simp [equalDepth, cmpSeq, ih]

theorem equalDepth_gCyc (n : Nat) : equalDepth gCyc gCyc n (.ref 0) (.ref 0) = .error .depthExceeded := by
  match n with
  | 0 => rfl
  | 1 => simp [equalDepth, gCyc, cmpDict, findKey, keyEq, atomEq]
  | 2 => simp [equalDepth, gCyc, cmpDict, findKey, keyEq, atomEq]
  | n+3 =>
    have h := equalDepth_selfList n
    simp only [gCyc] at h
    simp [equalDepth, gCyc, cmpDict, findKey, keyEq, atomEq, cmpSeq, h]

/-! ## D3: the stateless pickler on a function that calls itself -/

/-- `def fact(n): … fact(n - 1)`: the function (0), its code (1), the empty tuple of its defaults and free
variables (2), the association list of its globals `(("fact", fact),)` (4 → 3 → 0) -/
def gFact : Heap :=
  [.func sFact (.ref 2) (.ref 2) (.ref 1),
   .code sFact (.ref 2) (.ref 4) [] (.ref 2),
   .tuple [],
   .tuple [.atom (.str sFact), .ref 0],
   .tuple [.ref 3]]

end Dawn.Env

namespace Dawn.Env

theorem encVal_gFact (n : Nat) : encVal Cfg.original gFact n {} (.ref 0) = .error .outOfFuel := by
  induction n using Nat.strongRecOn with
  | _ n ih =>
    match n with
    | 0 => rfl
    | 1 => simp [encVal, encSeq, gFact, lookup, Cfg.original]
    | 2 => simp [encVal, encSeq, gFact, lookup, Cfg.original]
    | 3 => simp [encVal, encSeq, gFact, lookup, Cfg.original]
    | j+4 =>
      have h := ih j (by omega)
      simp only [gFact, Cfg.original] at h
      simp [encVal, encSeq, gFact, lookup, Cfg.original, h]

end Dawn.Env

import Dawn.Proofs.RunnerDeadlock
/-!
# Runner: the gate at the level of `cond.Wait` / `cond.Signal` (group H)

`GState` refines `State` by who sleeps in `gate.enter` and in which order. Every `gstep` is a `step` of the core or
leaves the core unchanged, so the safety theorems transfer. A sleeper needs a `Signal`: deadlock freedom is proved
again here, from the invariant "while somebody sleeps, every free slot is matched by a thread that stands at the
gate awake" — which a gate that signals only when the first slot frees does not maintain.
-/
namespace Dawn.Runner

/-! ## every refined step is a core step or a stutter -/

theorem gstepV_core {b : Bool} {P : Params} {g g' : GState} {t : Tid} (h : gstepV b P g t = some g') :
    g'.core = g.core ∨ step P g.core t = some g'.core := by
  cases t with
  | main =>
    simp only [gstepV] at h
    cases hs : step P g.core .main with
    | none => rw [hs] at h; cases h
    | some c => rw [hs] at h; simp at h; subst h; exact Or.inr rfl
  | tgt l =>
    simp only [gstepV] at h
    cases hp : g.core.pc l with
    | none => rw [hp] at h; cases h
    | some p =>
      rw [hp] at h; simp only at h
      cases hs : step P g.core (.tgt l) with
      | none =>
        rw [hs] at h
        split at h
        · split at h
          · cases h
          · split at h
            · injection h with h; subst h; exact Or.inl rfl
            · cases h
        · split at h <;> cases h
      | some c =>
        rw [hs] at h
        split at h
        · split at h
          · cases h
          · split at h
            · injection h with h; subst h; exact Or.inl rfl
            · simp at h; subst h; exact Or.inr rfl
        · split at h
          · simp at h
            split at h
            · subst h; exact Or.inr rfl
            · subst h
              right
              unfold gsignal
              split <;> rfl
          · simp at h; subst h; exact Or.inr rfl

theorem GReachable.core {P : Params} {g : GState} (h : GReachable P g) : Reachable P g.core := by
  induction h with
  | init => exact .init
  | step t _ hs ih =>
    rcases gstepV_core hs with h | h
    · rw [h]; exact ih
    · exact .step t ih h

/-! ## how a core step moves program counters, the registry and the capacity -/

structure Frame (s s' : State) (l : Option Label) : Prop where
  pc  : ∀ x, some x ≠ l → s'.pc x = s.pc x ∨ (s.pc x = none ∧ s'.pc x = some .enter1)
  reg : s'.registry = s.registry ∨ ∃ d, s'.registry = d :: s.registry

theorem frame_startTarget (s : State) (d : Label) (hidle : s.status d = .idle → s.pc d = none) :
    (∀ x, (startTarget s d).pc x = s.pc x ∨ (s.pc x = none ∧ (startTarget s d).pc x = some .enter1)) ∧
    ((startTarget s d).registry = s.registry ∨ ∃ e, (startTarget s d).registry = e :: s.registry) ∧
    (startTarget s d).capacity = s.capacity := by
  unfold startTarget
  split
  next hi =>
    refine ⟨?_, Or.inr ⟨d, rfl⟩, rfl⟩
    intro x
    by_cases e : x = d
    · subst e; right; exact ⟨hidle hi, by simp⟩
    · left; simp [e]
  · exact ⟨fun _ => Or.inl rfl, Or.inl rfl, rfl⟩

theorem Inv.pc_none_idle {P : Params} {s : State} (inv : Inv P s) (d : Label) : s.status d = .idle → s.pc d = none :=
  fun h => inv.pc_none_of_idle h

theorem tstep_frame {P : Params} {s s' : State} {l : Label} {p : PC} (inv : Inv P s) (hp : s.pc l = some p)
    (h : TStep P s l p s') :
    Frame s s' (some l) ∧
    (p.atGate = true → s'.capacity + 1 = s.capacity ∧ ∃ q, s'.pc l = some q ∧ q.atGate = false) ∧
    (p.isExit = true → s'.capacity = s.capacity + 1) ∧
    (p.atGate = false → p.isExit = false → s'.capacity = s.capacity) := by
  have simple : ∀ (p' : PC) (s'' : State), s''.pc = upd s.pc l (some p') → s''.registry = s.registry →
      Frame s s'' (some l) := by
    intro p' s'' hpc hreg
    exact ⟨fun x hx => Or.inl (by rw [hpc]; simp [show x ≠ l from fun e => hx (e ▸ rfl)]), Or.inl hreg⟩
  cases h with
  | start d rest =>
    obtain ⟨f1, f2, f3⟩ := frame_startTarget s d (inv.pc_none_idle d)
    refine ⟨⟨?_, f2⟩, (by intro h; cases h), (by intro h; cases h), fun _ _ => f3⟩
    intro x hx
    have : x ≠ l := fun e => hx (e ▸ rfl)
    show upd (startTarget s d).pc l _ x = _ ∨ _
    simp only [upd_other _ _ _ _ this]
    exact f1 x
  | enter1 hc =>
    refine ⟨simple _ _ rfl rfl, fun _ => ⟨?_, .load, by simp, rfl⟩, (by intro h; cases h), (by intro h; cases h)⟩
    show s.capacity - 1 + 1 = s.capacity; omega
  | enter2 res hc =>
    refine ⟨simple _ _ rfl rfl, fun _ => ⟨?_, .evalRest res, by simp, rfl⟩, (by intro h; cases h), (by intro h; cases h)⟩
    show s.capacity - 1 + 1 = s.capacity; omega
  | exit1 => exact ⟨simple _ _ rfl rfl, (by intro h; cases h), fun _ => rfl, (by intro _ h; cases h)⟩
  | exit2 => exact ⟨simple _ _ rfl rfl, (by intro h; cases h), fun _ => rfl, (by intro _ h; cases h)⟩
  | load => exact ⟨simple _ _ rfl rfl, (by intro h; cases h), (by intro h; cases h), fun _ _ => rfl⟩
  | evalStart => exact ⟨simple _ _ rfl rfl, (by intro h; cases h), (by intro h; cases h), fun _ _ => rfl⟩
  | publish => exact ⟨simple _ _ rfl rfl, (by intro h; cases h), (by intro h; cases h), fun _ _ => rfl⟩
  | found rest => exact ⟨simple _ _ rfl rfl, (by intro h; cases h), (by intro h; cases h), fun _ _ => rfl⟩
  | readPub d rest ds hd hw => exact ⟨simple _ _ rfl rfl, (by intro h; cases h), (by intro h; cases h), fun _ _ => rfl⟩
  | readNil d rest hd hw => exact ⟨simple _ _ rfl rfl, (by intro h; cases h), (by intro h; cases h), fun _ _ => rfl⟩
  | walked => exact ⟨simple _ _ rfl rfl, (by intro h; cases h), (by intro h; cases h), fun _ _ => rfl⟩
  | waited d rest hs hr => exact ⟨simple _ _ rfl rfl, (by intro h; cases h), (by intro h; cases h), fun _ _ => rfl⟩
  | unpub hs => exact ⟨simple _ _ rfl rfl, (by intro h; cases h), (by intro h; cases h), fun _ _ => rfl⟩
  | unpubCyc => exact ⟨simple _ _ rfl rfl, (by intro h; cases h), (by intro h; cases h), fun _ _ => rfl⟩
  | evalRest res => exact ⟨simple _ _ rfl rfl, (by intro h; cases h), (by intro h; cases h), fun _ _ => rfl⟩
  | finish st e => exact ⟨simple _ _ rfl rfl, (by intro h; cases h), (by intro h; cases h), fun _ _ => rfl⟩
  | wgDone => exact ⟨simple _ _ rfl rfl, (by intro h; cases h), (by intro h; cases h), fun _ _ => rfl⟩

theorem mstep_frame {P : Params} {s s' : State} (inv : Inv P s) (h : MStep P s s') :
    Frame s s' none ∧ s'.capacity = s.capacity := by
  cases h with
  | start hm =>
    obtain ⟨f1, f2, f3⟩ := frame_startTarget s P.root (inv.pc_none_idle P.root)
    exact ⟨⟨fun x _ => f1 x, f2⟩, f3⟩
  | wait hm hr => exact ⟨⟨fun _ _ => Or.inl rfl, Or.inl rfl⟩, rfl⟩
  | waitAll e hm hl => exact ⟨⟨fun _ _ => Or.inl rfl, Or.inl rfl⟩, rfl⟩

/-! ## counting the threads that stand at the gate awake -/

def awake (g : GState) (x : Label) : Bool :=
  (match g.core.pc x with | some p => p.atGate | none => false) && !g.asleep x

theorem filter_len_mono (reg : List Label) (f f' : Label → Bool) (h : ∀ x ∈ reg, f x = true → f' x = true) :
    (reg.filter f).length ≤ (reg.filter f').length := by
  induction reg with
  | nil => simp
  | cons a t ih =>
    have ih' := ih (fun x hx => h x (List.mem_cons_of_mem _ hx))
    have ha := h a (by simp)
    simp only [List.filter_cons]
    cases hfa : f a <;> cases hfa' : f' a <;> simp_all <;> omega

theorem filter_len_cons_ge (reg : List Label) (f : Label → Bool) (d : Label) :
    (reg.filter f).length ≤ ((d :: reg).filter f).length := by
  simp only [List.filter_cons]; split <;> simp

/-- one member switched on, nobody switched off -/
theorem filter_len_inc (reg : List Label) (f f' : Label → Bool) (w : Label) (hn : reg.Nodup) (hw : w ∈ reg)
    (hfw : f w = false) (hfw' : f' w = true) (h : ∀ x ∈ reg, f x = true → f' x = true) :
    (reg.filter f).length + 1 ≤ (reg.filter f').length := by
  have h1 := filter_upd_true reg f w hn hw hfw
  have h2 := filter_len_mono reg (upd f w true) f' (by
    intro x hx hfx
    by_cases e : x = w
    · subst e; exact hfw'
    · simp [upd, e] at hfx; exact h x hx hfx)
  omega

/-- one member switched off, nobody else switched off -/
theorem filter_len_dec (reg : List Label) (f f' : Label → Bool) (l : Label) (hn : reg.Nodup) (hl : l ∈ reg)
    (hfl : f l = true) (h : ∀ x ∈ reg, x ≠ l → f x = true → f' x = true) :
    (reg.filter f).length ≤ (reg.filter f').length + 1 := by
  have h1 := filter_upd_false reg f l hn hl hfl
  have h2 := filter_len_mono reg (upd f l false) f' (by
    intro x hx hfx
    by_cases e : x = l
    · subst e; simp [upd] at hfx
    · simp [upd, e] at hfx; exact h x hx e hfx)
  omega

structure InvG (P : Params) (g : GState) : Prop where
  aq   : ∀ x, g.asleep x = true ↔ x ∈ g.gateQ
  nd   : g.gateQ.Nodup
  atg  : ∀ x, g.asleep x = true → ∃ p, g.core.pc x = some p ∧ p.atGate = true
  wake : g.gateQ ≠ [] → g.core.capacity ≤ (g.core.registry.filter (awake g)).length

/-- the count of awake threads at the gate across a core step that leaves `asleep` alone -/
theorem awake_step {g : GState} {c : State} {l : Option Label} (hatg : ∀ x, g.asleep x = true →
    ∃ p, g.core.pc x = some p ∧ p.atGate = true) (fr : Frame g.core c l) :
    ∀ x, some x ≠ l → awake g x = true → awake { g with core := c } x = true := by
  intro x hx ha
  unfold awake at ha ⊢
  rcases fr.pc x hx with h | ⟨h, _⟩
  · show ((match c.pc x with | some p => p.atGate | none => false) && !g.asleep x) = true
    rw [h]; exact ha
  · rw [h] at ha; simp at ha

theorem mem_of_frame_reg {s c : State} {l : Option Label} (fr : Frame s c l) {x : Label} (h : x ∈ s.registry) :
    x ∈ c.registry := by
  rcases fr.reg with e | ⟨d, e⟩ <;> rw [e]
  · exact h
  · exact List.mem_cons_of_mem _ h

theorem count_frame_ge {s c : State} {l : Option Label} (fr : Frame s c l) (f : Label → Bool) :
    (s.registry.filter f).length ≤ (c.registry.filter f).length := by
  rcases fr.reg with e | ⟨d, e⟩ <;> rw [e]
  · exact Nat.le_refl _
  · exact filter_len_cons_ge _ _ _

theorem invG_init (P : Params) : InvG P (ginit P) where
  aq := by intro x; simp [ginit]
  nd := by simp [ginit]
  atg := by intro x h; simp [ginit] at h
  wake := by intro h; simp [ginit] at h

theorem invG_step {P : Params} {g g' : GState} {t : Tid} (hr : Reachable P g.core) (ig : InvG P g)
    (h : gstep P g t = some g') : InvG P g' := by
  have inv := hr.inv
  unfold gstep at h
  cases t with
  | main =>
    simp only [gstepV] at h
    cases hs : step P g.core .main with
    | none => rw [hs] at h; cases h
    | some c =>
      rw [hs] at h; simp at h; subst h
      obtain ⟨fr, hcap⟩ := mstep_frame inv (mstep_of_step hs)
      exact {
        aq := ig.aq, nd := ig.nd
        atg := by
          intro x hx
          obtain ⟨p, hp, hg⟩ := ig.atg x hx
          rcases fr.pc x (by simp) with e | ⟨e, _⟩
          · exact ⟨p, by rw [e]; exact hp, hg⟩
          · rw [hp] at e; cases e
        wake := by
          intro hq
          show c.capacity ≤ (c.registry.filter (awake { g with core := c })).length
          rw [hcap]
          have h1 := ig.wake hq
          have h2 := filter_len_mono g.core.registry (awake g) (awake { g with core := c })
            (fun x _ hx => awake_step ig.atg fr x (by simp) hx)
          have h3 := count_frame_ge fr (awake { g with core := c })
          omega }
  | tgt l =>
    simp only [gstepV] at h
    cases hp : g.core.pc l with
    | none => rw [hp] at h; cases h
    | some p =>
      rw [hp] at h; simp only at h
      have hlreg : l ∈ g.core.registry := inv.mem_reg hp
      by_cases hg : p.atGate = true
      · rw [if_pos hg] at h
        by_cases hsl : g.asleep l = true
        · rw [if_pos hsl] at h; cases h
        · rw [if_neg hsl] at h
          have hsl' : g.asleep l = false := by simpa using hsl
          by_cases hc : g.core.capacity = 0
          · -- goes to sleep
            rw [if_pos hc] at h; injection h with h; subst h
            have hnq : l ∉ g.gateQ := fun c => by rw [(ig.aq l).mpr c] at hsl'; cases hsl'
            exact {
              aq := by
                intro x
                by_cases e : x = l
                · subst e; simp
                · simp [e]; exact ig.aq x
              nd := List.nodup_append.mpr ⟨ig.nd, by simp, by
                intro a ha b hb; simp at hb; subst hb; intro e; subst e; exact hnq ha⟩
              atg := by
                intro x hx
                by_cases e : x = l
                · subst e; exact ⟨p, hp, hg⟩
                · simp [e] at hx; exact ig.atg x hx
              wake := by intro _; show g.core.capacity ≤ _; rw [hc]; exact Nat.zero_le _ }
          · -- takes a slot
            rw [if_neg hc] at h
            cases hs : step P g.core (.tgt l) with
            | none => rw [hs] at h; cases h
            | some c =>
              rw [hs] at h; simp at h; subst h
              have hts : TStep P g.core l p c := by
                have := hs; simp only [step, hp] at this; exact tstep_of_stepTgt this
              obtain ⟨fr, hgate, _, _⟩ := tstep_frame inv hp hts
              obtain ⟨hcap, q, hq, hqg⟩ := hgate hg
              exact {
                aq := ig.aq, nd := ig.nd
                atg := by
                  intro x hx
                  obtain ⟨p', hp', hg'⟩ := ig.atg x hx
                  have hxl : x ≠ l := by intro e; subst e; rw [hsl'] at hx; cases hx
                  rcases fr.pc x (by simpa using hxl) with e | ⟨e, _⟩
                  · exact ⟨p', by rw [e]; exact hp', hg'⟩
                  · rw [hp'] at e; cases e
                wake := by
                  intro hq'
                  have h1 := ig.wake hq'
                  have hal : awake g l = true := by simp [awake, hp, hg, hsl']
                  have h2 := filter_len_dec g.core.registry (awake g) (awake { g with core := c }) l inv.nodup hlreg hal
                    (fun x _ hxl hx => awake_step ig.atg fr x (by simpa using hxl) hx)
                  have h3 := count_frame_ge fr (awake { g with core := c })
                  show c.capacity ≤ (c.registry.filter (awake { g with core := c })).length
                  omega }
      · have hg' : p.atGate = false := by simpa using hg
        rw [if_neg hg] at h
        have hnsl : g.asleep l = false := by
          cases hsl : g.asleep l with
          | false => rfl
          | true => obtain ⟨p', hp', hgp⟩ := ig.atg l hsl; rw [hp] at hp'; cases hp'; rw [hg'] at hgp; cases hgp
        cases hs : step P g.core (.tgt l) with
        | none => rw [hs] at h; split at h <;> cases h
        | some c =>
          have hts : TStep P g.core l p c := by
            have := hs; simp only [step, hp] at this; exact tstep_of_stepTgt this
          obtain ⟨fr, _, hexit, hother⟩ := tstep_frame inv hp hts
          have hat : ∀ (as : Label → Bool), (∀ x, as x = true → g.asleep x = true) →
              ∀ x, as x = true → ∃ p, c.pc x = some p ∧ p.atGate = true := by
            intro as has x hx
            obtain ⟨p', hp', hgp⟩ := ig.atg x (has x hx)
            have hxl : x ≠ l := by intro e; subst e; have := has x hx; rw [hnsl] at this; cases this
            rcases fr.pc x (by simpa using hxl) with e | ⟨e, _⟩
            · exact ⟨p', by rw [e]; exact hp', hgp⟩
            · rw [hp'] at e; cases e
          have hmono : ∀ x ∈ g.core.registry, awake g x = true → awake { g with core := c } x = true := by
            intro x _ hx
            by_cases e : x = l
            · subst e; simp [awake, hp, hg'] at hx
            · exact awake_step ig.atg fr x (by simpa using e) hx
          rw [hs] at h
          by_cases hx : p.isExit = true
          · rw [if_pos hx] at h
            simp at h
            subst h
            -- `exit` signals
            have hcap := hexit hx
            unfold gsignal
            cases hq : g.gateQ with
            | nil =>
              simp only [hq]
              exact {
                aq := by intro x; rw [ig.aq x, hq]
                nd := by simp
                atg := hat g.asleep (fun _ h => h)
                wake := by intro h; exact absurd rfl h }
            | cons w q =>
              simp only [hq]
              have hwq : w ∉ q := by have := ig.nd; rw [hq] at this; exact (List.nodup_cons.mp this).1
              have hwsl : g.asleep w = true := (ig.aq w).mpr (by rw [hq]; simp)
              obtain ⟨pw, hpw, hgw⟩ := ig.atg w hwsl
              have hwl : w ≠ l := by intro e; subst e; rw [hnsl] at hwsl; cases hwsl
              exact {
                aq := by
                  intro x
                  by_cases e : x = w
                  · subst e; simp [hwq]
                  · simp only [upd_other _ _ _ _ e]; rw [ig.aq x, hq]; simp [e]
                nd := by have := ig.nd; rw [hq] at this; exact (List.nodup_cons.mp this).2
                atg := hat (upd g.asleep w false) (by
                  intro x hx
                  by_cases e : x = w
                  · subst e; simp at hx
                  · simpa [e] using hx)
                wake := by
                  intro _
                  have h1 := ig.wake (by rw [hq]; simp)
                  show c.capacity ≤ (c.registry.filter (awake { core := c, asleep := upd g.asleep w false, gateQ := q })).length
                  have hcw : c.pc w = some pw := by
                    rcases fr.pc w (by simpa using hwl) with e | ⟨e, _⟩
                    · rw [e]; exact hpw
                    · rw [hpw] at e; cases e
                  have h2 := filter_len_inc g.core.registry (awake g)
                    (awake { core := c, asleep := upd g.asleep w false, gateQ := q }) w inv.nodup
                    (inv.mem_reg hpw) (by simp [awake, hwsl]) (by simp [awake, hcw, hgw]) (by
                      intro x hxr hxa
                      have := hmono x hxr hxa
                      by_cases e : x = w
                      · subst e; simp [awake, hwsl] at hxa
                      · simp only [awake] at this ⊢
                        simpa [e] using this)
                  have h3 := count_frame_ge fr (awake { core := c, asleep := upd g.asleep w false, gateQ := q })
                  omega }
          · rw [if_neg hx] at h
            simp at h; subst h
            have hcap := hother hg' (by simpa using hx)
            exact {
              aq := ig.aq, nd := ig.nd
              atg := hat g.asleep (fun _ h => h)
              wake := by
                intro hq
                have h1 := ig.wake hq
                have h2 := filter_len_mono g.core.registry (awake g) (awake { g with core := c }) hmono
                have h3 := count_frame_ge fr (awake { g with core := c })
                show c.capacity ≤ (c.registry.filter (awake { g with core := c })).length
                omega }

theorem GReachable.invG {P : Params} {g : GState} (h : GReachable P g) : InvG P g := by
  induction h with
  | init => exact invG_init P
  | step t hr hs ih => exact invG_step hr.core ih hs

/-! ## deadlock freedom with `Signal` -/

theorem g_stuck_all_done {P : Params} (hcap : 1 ≤ P.cap) {g : GState} (hr : GReachable P g)
    (hstuck : ∀ t, gstep P g t = none) : g.core.isDone = true ∧ ∀ l p, g.core.pc l = some p → p = .done := by
  have hc := hr.core
  have inv := hc.inv
  have ig := hr.invG
  -- a thread that stands at the gate awake can always move (take a slot or go to sleep)
  have hsleep : ∀ x p, g.core.pc x = some p → p.atGate = true → g.asleep x = true := by
    intro x p hp hg
    cases hsl : g.asleep x with
    | true => rfl
    | false =>
      exfalso
      have := hstuck (.tgt x)
      simp only [gstep, gstepV, hp, hg, hsl] at this
      by_cases hcz : g.core.capacity = 0
      · simp [hcz] at this
      · simp only [if_neg hcz, Bool.false_eq_true, if_false, if_true] at this
        cases p with
        | enter1 => simp [step, hp, stepTgt, hcz] at this
        | enter2 res => simp [step, hp, stepTgt, hcz] at this
        | _ => cases hg
  -- a thread that is not at the gate moves in the refined system whenever it moves in the core
  have hlift : ∀ x p, g.core.pc x = some p → p.atGate = false → step P g.core (.tgt x) = none := by
    intro x p hp hg
    have := hstuck (.tgt x)
    simp only [gstep, gstepV, hp] at this
    rw [if_neg (by simp [hg])] at this
    cases hs : step P g.core (.tgt x) with
    | none => rfl
    | some c => rw [hs] at this; split at this <;> simp at this
  -- nobody is asleep: otherwise no slot is free and a holder could move
  have hnoq : g.gateQ = [] := by
    cases hq : g.gateQ with
    | nil => rfl
    | cons w q =>
      exfalso
      have hw := ig.wake (by rw [hq]; simp)
      have hz : (g.core.registry.filter (awake g)) = [] := by
        apply List.filter_eq_nil_iff.mpr
        intro x _
        unfold awake
        cases hp : g.core.pc x with
        | none => simp
        | some p =>
          cases hg : p.atGate with
          | false => simp [hg]
          | true => simp [hsleep x p hp hg]
      rw [hz] at hw
      have hcz : g.core.capacity = 0 := by simpa using hw
      obtain ⟨l, hl⟩ := exists_holder hcap inv hcz
      obtain ⟨s', hs'⟩ := holder_can_step inv hl
      cases hp : g.core.pc l with
      | none => simp [step, hp] at hs'
      | some p =>
        have hx : p.executing = true := by have := inv.holds_of hp; rw [hl] at this; exact this.symm
        have hg : p.atGate = false := by cases p <;> simp_all [PC.executing, PC.atGate]
        rw [hlift l p hp hg] at hs'; cases hs'
  have hnogate : ∀ x p, g.core.pc x = some p → p.atGate = false := by
    intro x p hp
    cases hg : p.atGate with
    | false => rfl
    | true =>
      have := (ig.aq x).mp (hsleep x p hp hg)
      rw [hnoq] at this; cases this
  -- so the core itself is stuck
  apply stuck_all_done hcap hc
  intro t
  cases t with
  | main =>
    have := hstuck .main
    simp only [gstep, gstepV] at this
    cases hs : step P g.core .main with
    | none => rfl
    | some c => rw [hs] at this; simp at this
  | tgt x =>
    cases hp : g.core.pc x with
    | none => simp [step, hp]
    | some p => exact hlift x p hp (hnogate x p hp)

theorem g_deadlock_free {P : Params} (hcap : 1 ≤ P.cap) {g : GState} (hr : GReachable P g)
    (hnd : g.core.isDone = false) : ∃ t g', gstep P g t = some g' := by
  apply Classical.byContradiction
  intro hno
  have hstuck : ∀ t, gstep P g t = none := by
    intro t
    cases h : gstep P g t with
    | none => rfl
    | some g' => exact absurd ⟨t, g', h⟩ hno
  have := (g_stuck_all_done hcap hr hstuck).1
  rw [hnd] at this; cases this

/-- run a schedule of the refined system -/
def grunSched (b : Bool) (P : Params) : GState → List Tid → Option GState
  | g, [] => some g
  | g, t :: ts => match gstepV b P g t with
    | some g' => grunSched b P g' ts
    | none => none

theorem greachableV_of_grunSched {b : Bool} {P : Params} (ts : List Tid) {g0 g : GState}
    (h0 : GReachableV b P g0) (h : grunSched b P g0 ts = some g) : GReachableV b P g := by
  induction ts generalizing g0 with
  | nil => simp [grunSched] at h; subst h; exact h0
  | cons t ts ih =>
    simp only [grunSched] at h
    split at h
    next g1 hg1 => exact ih (GReachableV.step t h0 hg1) h
    · cases h

end Dawn.Runner

import Dawn.Proofs.PickleDec
/-! A Decoder that is called again — after a call that failed, or after one that succeeded — still answers every call
with a well-formed value or an error. -/
namespace Dawn.Pickle

theorem Closed.substack {ds : DecSt} (hc : Closed ds) (stk : List Val) (h : ∀ x ∈ stk, x ∈ ds.stack) :
    Closed { ds with stack := stk } := ⟨fun x hx => hc.stack x (h x hx), hc.memo, hc.heap⟩

theorem failState_closed (ds : DecSt) (o : Op) (hc : Closed ds) : Closed (failState ds o) := by
  cases o <;> simp only [failState] <;> try exact hc
  case append =>
    split
    · rename_i v rest hst; exact hc.substack _ (fun x hx => by simp [hst, hx])
    · exact hc
  case tuple2 =>
    split
    · exact hc.substack _ (by simp)
    · exact hc
  case tuple3 =>
    split
    · exact hc.substack _ (by simp)
    · exact hc.substack _ (by simp)
    · exact hc
  case stackGlobal =>
    split
    · rename_i hst; exact hc.substack _ (fun x hx => by simp [hst, hx])
    · exact hc.substack _ (by simp)
    · rename_i hst; exact hc.substack _ (fun x hx => by simp [hst, hx])
    · exact hc
  case newobj =>
    split
    · rename_i a rest hst
      split
      · exact hc.substack _ (fun x hx => by rw [hst]; exact List.mem_cons_of_mem _ (List.mem_of_mem_tail hx))
      · exact hc.substack _ (fun x hx => by simp [hst, hx])
    · rename_i hst; exact hc.substack _ (fun x hx => by simp [hst, hx])
    · exact hc

/-- a value with every reference in range, or an error -/
def Outcome.Fine : Outcome → Prop
  | .ok h v => v.closed h.length ∧ ∀ o ∈ h, o.closed h.length
  | .err _ => True
  | _ => False

theorem decodeCall_safe (cfg : DecCfg) (hf : cfg.failureIsInterface = true) (hno : ¬ HostMisbehaves cfg) :
    ∀ (fuel : Nat) (ds : DecSt) (bs : Bytes), bs.length < fuel → Closed ds →
      (decodeCall cfg fuel ds bs).1.Fine ∧ Closed (decodeCall cfg fuel ds bs).2.1 := by
  intro fuel
  induction fuel with
  | zero => intro ds bs h; omega
  | succ fuel ih =>
    intro ds bs hlen hc
    simp only [decodeCall]
    split
    · exact ⟨trivial, hc⟩
    · exact ⟨trivial, hc⟩
    · rename_i o rest hp
      have hl := parseOp_length _ _ _ hp
      have hg := stepOp_good cfg ds hc o
      have hpn := stepOp_panics cfg ds hc o
      split
      · rename_i ds' hs
        rw [hs] at hg
        exact ih ds' rest (by omega) hg
      · rename_i v ds' hs
        rw [hs] at hg
        exact ⟨⟨hg.2, hg.1.heap⟩, hg.1⟩
      · exact ⟨trivial, failState_closed ds o hc⟩
      · simp only [hf, if_true]
        exact ⟨trivial, failState_closed ds o hc⟩
      · rename_i hs
        exact absurd (hpn.1 hs) hno

theorem decodeCalls_safe (cfg : DecCfg) (hf : cfg.failureIsInterface = true) (hno : ¬ HostMisbehaves cfg) :
    ∀ (n : Nat) (ds : DecSt) (bs : Bytes), Closed ds → ∀ o ∈ decodeCalls cfg n ds bs, o.Fine := by
  intro n
  induction n with
  | zero => intro ds bs _ o ho; simp [decodeCalls] at ho
  | succ n ih =>
    intro ds bs hc o ho
    simp only [decodeCalls, List.mem_cons] at ho
    have hs := decodeCall_safe cfg hf hno (bs.length + 1) ds bs (Nat.lt_succ_self _) hc
    rcases ho with rfl | ho
    · exact hs.1
    · exact ih _ _ hs.2 o ho

end Dawn.Pickle

import Dawn.Proofs.RunnerInv
import Dawn.Proofs.RunnerStep
/-!
# Runner: what a thread knows about its dependencies (group B)

`DataOk` ties the thread-local data of a program counter (remaining work lists, the errors handed back by
`wait()`, the outcome about to be stored) to the shared state. From it follow C04 "dependencies first",
"the outcome handed over is the actual outcome" and the local characterisation of every target's outcome.
-/
namespace Dawn.Runner

def DataOk (P : Params) (s : State) (x : Label) : PC → Prop
  | .startDeps todo => ∃ pre, P.deps x = pre ++ todo ∧ ∀ d ∈ pre, s.status d ≠ .idle
  | .walk _ => ∀ d ∈ P.deps x, s.status d ≠ .idle
  | .waitDeps todo hs =>
      ∃ pre, P.deps x = pre ++ todo ∧ hs = pre.map s.err ∧ (∀ d ∈ pre, (s.status d).final = true) ∧
        ∀ d ∈ P.deps x, s.status d ≠ .idle
  | .enter2 (some hs) => hs = (P.deps x).map s.err ∧ ∀ d ∈ P.deps x, (s.status d).final = true
  | .evalRest (some hs) => hs = (P.deps x).map s.err ∧ ∀ d ∈ P.deps x, (s.status d).final = true
  | .finish st e => OutcomeSpec P s x st e
  | .exit2 => OutcomeSpec P s x (s.status x) (s.err x)
  | .wgDone => OutcomeSpec P s x (s.status x) (s.err x)
  | .done => OutcomeSpec P s x (s.status x) (s.err x)
  | _ => True

def Inv2 (P : Params) (s : State) : Prop := ∀ x p, s.pc x = some p → DataOk P s x p

/-- `s'` agrees with `s` on the status and error of every finished target -/
def Stable (s s' : State) : Prop :=
  ∀ d, ((s.status d).final = true → s'.status d = s.status d ∧ s'.err d = s.err d) ∧
       (s.status d ≠ .idle → s'.status d ≠ .idle)

theorem notIdle_stable {s s' : State} (hst : Stable s s') (ds : List Label)
    (h : ∀ d ∈ ds, s.status d ≠ .idle) : ∀ d ∈ ds, s'.status d ≠ .idle :=
  fun d hd => (hst d).2 (h d hd)

theorem map_err_stable {s s' : State} (hst : Stable s s') (ds : List Label)
    (h : ∀ d ∈ ds, (s.status d).final = true) : ds.map s'.err = ds.map s.err := by
  apply List.map_congr_left
  intro d hd
  exact ((hst d).1 (h d hd)).2

theorem final_stable {s s' : State} (hst : Stable s s') (ds : List Label)
    (h : ∀ d ∈ ds, (s.status d).final = true) : ∀ d ∈ ds, (s'.status d).final = true := by
  intro d hd
  rw [((hst d).1 (h d hd)).1]; exact h d hd

theorem OutcomeSpec.stable {P : Params} {s s' : State} {x : Label} {st : Status} {e : Err}
    (hst : Stable s s') (hc : s'.cyc x = s.cyc x) (h : OutcomeSpec P s x st e) : OutcomeSpec P s' x st e := by
  rcases h with h | h | ⟨hk, hcy, hf, ho⟩
  · exact Or.inl h
  · exact Or.inr (Or.inl (by rw [hc]; exact h))
  · refine Or.inr (Or.inr ⟨hk, by rw [hc]; exact hcy, final_stable hst _ hf, ?_⟩)
    rw [map_err_stable hst _ hf]; exact ho

theorem DataOk.stable {P : Params} {s s' : State} {x : Label} {p : PC}
    (hst : Stable s s') (hc : s'.cyc x = s.cyc x) (hx : p.final = true → (s.status x).final = true)
    (h : DataOk P s x p) : DataOk P s' x p := by
  cases p with
  | startDeps todo =>
    obtain ⟨pre, h1, h2⟩ := h
    exact ⟨pre, h1, notIdle_stable hst _ h2⟩
  | walk todo => exact notIdle_stable hst _ h
  | waitDeps todo hs =>
    obtain ⟨pre, h1, h2, h3, h4⟩ := h
    exact ⟨pre, h1, by rw [map_err_stable hst _ h3]; exact h2, final_stable hst _ h3, notIdle_stable hst _ h4⟩
  | enter2 res =>
    cases res with
    | none => trivial
    | some hs => exact ⟨by rw [map_err_stable hst _ h.2]; exact h.1, final_stable hst _ h.2⟩
  | evalRest res =>
    cases res with
    | none => trivial
    | some hs => exact ⟨by rw [map_err_stable hst _ h.2]; exact h.1, final_stable hst _ h.2⟩
  | finish st e => exact OutcomeSpec.stable hst hc h
  | exit2 =>
    have := (hst x).1 (hx rfl)
    simp only [DataOk]; rw [this.1, this.2]; exact OutcomeSpec.stable hst hc h
  | wgDone =>
    have := (hst x).1 (hx rfl)
    simp only [DataOk]; rw [this.1, this.2]; exact OutcomeSpec.stable hst hc h
  | done =>
    have := (hst x).1 (hx rfl)
    simp only [DataOk]; rw [this.1, this.2]; exact OutcomeSpec.stable hst hc h
  | _ => trivial

theorem Stable.refl (s : State) : Stable s s := fun _ => ⟨fun _ => ⟨rfl, rfl⟩, fun h => h⟩

theorem stable_startTarget (s : State) (d : Label) : Stable s (startTarget s d) := by
  intro x
  unfold startTarget
  split
  next hidle =>
    constructor
    · intro hx
      have : x ≠ d := by intro c; subst c; rw [hidle] at hx; cases hx
      simp [this]
    · intro hx
      have : x ≠ d := by intro c; subst c; exact hx hidle
      simpa [this] using hx
  · exact ⟨fun _ => ⟨rfl, rfl⟩, fun h => h⟩

theorem startTarget_notIdle (s : State) (d : Label) : (startTarget s d).status d ≠ .idle := by
  unfold startTarget
  split
  · simp
  · assumption

/-- steps that change only `pc l` (and possibly ghost or gate variables): every other thread keeps `DataOk` -/
theorem inv2_local {P : Params} {s s' : State} (inv : Inv P s) (inv2 : Inv2 P s) (l : Label) (p' : PC)
    (hpc : s'.pc = upd s.pc l (some p'))
    (hst : Stable s s') (hcyc : ∀ x, x ≠ l → s'.cyc x = s.cyc x)
    (hl : DataOk P s' l p') : Inv2 P s' := by
  intro x q hq
  rw [hpc] at hq
  by_cases e : x = l
  · subst e; simp at hq; subst hq; exact hl
  · simp [e] at hq
    exact DataOk.stable hst (hcyc x e) (fun hf => inv.final_of hq hf) (inv2 x q hq)

theorem inv2_startTarget {P : Params} {s : State} (inv : Inv P s) (inv2 : Inv2 P s) (d : Label) :
    Inv2 P (startTarget s d) := by
  intro x q hq
  have hst := stable_startTarget s d
  unfold startTarget at hq
  split at hq
  next hidle =>
    by_cases e : x = d
    · subst e; simp at hq; subst hq; trivial
    · simp [e] at hq
      refine DataOk.stable hst ?_ (fun hf => inv.final_of hq hf) (inv2 x q hq)
      unfold startTarget; split <;> rfl
  next hn =>
    refine DataOk.stable hst ?_ (fun hf => inv.final_of hq hf) (inv2 x q hq)
    unfold startTarget; split <;> rfl

theorem inv2_tstep {P : Params} {s s' : State} {l : Label} {p : PC} (inv : Inv P s) (inv2 : Inv2 P s)
    (hp : s.pc l = some p) (h : TStep P s l p s') : Inv2 P s' := by
  have hd := inv2 l p hp
  have hcy := inv.cyc l
  rw [hp] at hcy
  cases h with
  | enter1 hc => exact inv2_local inv inv2 l _ rfl (Stable.refl s) (fun _ _ => rfl) trivial
  | load =>
    refine inv2_local inv inv2 l _ rfl (Stable.refl s) (fun _ _ => rfl) ?_
    cases hk : P.known l
    · exact Or.inl ⟨hk, rfl, rfl⟩
    · trivial
  | evalStart => exact inv2_local inv inv2 l _ rfl (Stable.refl s) (fun _ _ => rfl) trivial
  | exit1 => exact inv2_local inv inv2 l _ rfl (Stable.refl s) (fun _ _ => rfl) ⟨[], by simp, by simp⟩
  | start d rest =>
    have i1 := inv_startTarget inv d s.main
      (by intro hm; have := inv.mainS hm l; rw [hp] at this; cases this) (Or.inl rfl)
      (by intro e he; have := inv.mainL e he; have := inv.live_pos hp (by simp); omega)
    have e1 : ({ startTarget s d with main := s.main } : State) = startTarget s d := by
      unfold startTarget; split <;> rfl
    rw [e1] at i1
    refine inv2_local i1 (inv2_startTarget inv inv2 d) l _ rfl (Stable.refl _) (fun _ _ => rfl) ?_
    obtain ⟨pre, h1, h2⟩ := hd
    refine ⟨pre ++ [d], by simp [h1], ?_⟩
    intro x hx
    rcases List.mem_append.mp hx with hx | hx
    · exact (stable_startTarget s d x).2 (h2 x hx)
    · simp at hx; subst hx; exact startTarget_notIdle s x
  | publish =>
    refine inv2_local inv inv2 l _ rfl (Stable.refl s) (fun _ _ => rfl) ?_
    obtain ⟨pre, h1, h2⟩ := hd
    simp at h1; subst h1; exact h2
  | found rest => exact inv2_local inv inv2 l _ rfl (Stable.refl s) (fun _ _ => rfl) trivial
  | readPub d rest ds hdl hw => exact inv2_local inv inv2 l _ rfl (Stable.refl s) (fun _ _ => rfl) hd
  | readNil d rest hdl hw => exact inv2_local inv inv2 l _ rfl (Stable.refl s) (fun _ _ => rfl) hd
  | walked =>
    exact inv2_local inv inv2 l _ rfl (Stable.refl s) (fun _ _ => rfl) ⟨[], by simp, by simp, by simp, hd⟩
  | waited d rest hs hr =>
    refine inv2_local inv inv2 l _ rfl (Stable.refl s) (fun _ _ => rfl) ?_
    obtain ⟨pre, h1, h2, h3, h4⟩ := hd
    refine ⟨pre ++ [d], by simp [h1], by simp [h2], ?_, h4⟩
    intro x hx
    rcases List.mem_append.mp hx with hx | hx
    · exact h3 x hx
    · simp at hx; subst hx
      have hni : s.status x ≠ .idle := h4 x (by rw [h1]; simp)
      cases hs' : s.status x <;> simp_all [Status.final]
  | unpub hs =>
    refine inv2_local inv inv2 l _ rfl (Stable.refl s) (fun _ _ => rfl) ?_
    obtain ⟨pre, h1, h2, h3, _⟩ := hd
    simp at h1
    subst h1
    exact ⟨h2, h3⟩
  | unpubCyc => exact inv2_local inv inv2 l _ rfl (Stable.refl s) (fun _ _ => rfl) trivial
  | enter2 res hc =>
    refine inv2_local inv inv2 l _ rfl (Stable.refl s) (fun _ _ => rfl) ?_
    cases res with
    | none => trivial
    | some hs => exact hd
  | evalRest res =>
    have hk : P.known l = true := inv.known l _ hp rfl
    have hc0 : s.cyc l = false := by
      cases hc : s.cyc l with
      | false => rfl
      | true => obtain ⟨q, h1, h2⟩ := hcy hc; cases h1; cases h2
    refine inv2_local inv inv2 l _ rfl (Stable.refl s) (fun x hx => by simp [upd, hx]) ?_
    cases res with
    | none => exact Or.inr (Or.inl ⟨hk, by simp, rfl, rfl⟩)
    | some hs =>
      refine Or.inr (Or.inr ⟨hk, by simp [hc0], hd.2, ?_⟩)
      show _ = localOutcome (some (List.map s.err (P.deps l))) (P.bodyOk l)
      rw [← hd.1]
  | finish st e =>
    have hrun := inv.running_of hp rfl
    have hst : Stable s { s with status := upd s.status l st, err := upd s.err l e,
                                 ftime := upd s.ftime l s.fclock, fclock := s.fclock + 1,
                                 pc := upd s.pc l (some .exit2) } := by
      intro x
      constructor
      · intro hx
        have : x ≠ l := by intro c; subst c; rw [hrun] at hx; cases hx
        simp [this]
      · intro hx
        by_cases c : x = l
        · subst c; simp; intro hi; have := inv.fin x st e hp; rw [hi] at this; cases this
        · simpa [c] using hx
    refine inv2_local inv inv2 l _ rfl hst (fun _ _ => rfl) ?_
    have := OutcomeSpec.stable hst (x := l) rfl hd
    simpa [DataOk] using this
  | exit2 => exact inv2_local inv inv2 l _ rfl (Stable.refl s) (fun _ _ => rfl) hd
  | wgDone => exact inv2_local inv inv2 l _ rfl (Stable.refl s) (fun _ _ => rfl) hd

theorem inv2_mstep {P : Params} {s s' : State} (inv : Inv P s) (inv2 : Inv2 P s) (h : MStep P s s') :
    Inv2 P s' := by
  cases h with
  | start hm => exact fun x q hq => inv2_startTarget inv inv2 P.root x q hq
  | wait hm hr => exact fun x q hq => inv2 x q hq
  | waitAll e hm hl => exact fun x q hq => inv2 x q hq

theorem inv2_init (P : Params) : Inv2 P (init P) := by
  intro x p h; simp [init] at h

theorem Reachable.inv2 {P : Params} {s : State} (h : Reachable P s) : Inv2 P s := by
  induction h with
  | init => exact inv2_init P
  | step t hr hs ih =>
    rcases step_cases hs with ⟨_, hm⟩ | ⟨l, p, _, hp, ht⟩
    · exact inv2_mstep hr.inv ih hm
    · exact inv2_tstep hr.inv ih hp ht

end Dawn.Runner

import Dawn.Proofs.DiffPasses
import Dawn.Proofs.DiffVal
/-!
C16: `DiffDepth` on Starlark values — totality below the depth limit, mapping diffs.
-/
namespace Dawn.Diff

/-- what `starlark.EqualDepth(x, y, 1000)` answers (`false` where it fails) -/
def eqbV (x y : Val) : Bool :=
  match equalDepth snakeDepth x y with
  | .ok r => r
  | .error _ => false

theorem eqOnV (xs ys : List Val) (h : ∀ x ∈ xs, x.height ≤ snakeDepth) :
    EqOn (equalDepth snakeDepth) eqbV xs ys := by
  intro x hx y _
  obtain ⟨r, hr⟩ := equalDepth_total snakeDepth x y (h x hx)
  simp [eqbV, hr]

/-- the edit reported for key `k` -/
def editFor (k : Val) (es : List (Val × Edit Val VDiff)) : Option (Val × Edit Val VDiff) :=
  es.find? fun e => k.beq e.1

/-- no key occurs twice (a Starlark dict) -/
def KeysDistinct (kvs : List (Val × Val)) : Prop := kvs.Pairwise fun e1 e2 => e1.1 ≠ e2.1

theorem mappingEdits_first_total (f : Val → Val → Except Err (Option VDiff)) (new : List (Val × Val)) :
    ∀ old : List (Val × Val),
      (∀ e ∈ old, ∀ nv, lookup e.1 new = some nv → ∃ r, f e.2 nv = .ok r) →
      ∃ es, mappingEdits.first f new old = .ok es := by
  intro old
  induction old with
  | nil => intro _; exact ⟨[], rfl⟩
  | cons e rest ih =>
    intro h
    obtain ⟨k, ov⟩ := e
    obtain ⟨es, hes⟩ := ih (fun e' he' => h e' (by simp [he']))
    simp only [mappingEdits.first]
    cases hl : lookup k new with
    | none => exact ⟨(k, .delete [ov]) :: es, by simp [hes, bind, Except.bind, pure, Except.pure]⟩
    | some nv =>
      obtain ⟨r, hr⟩ := h (k, ov) (by simp) nv hl
      simp only [] at hr
      cases r with
      | none => exact ⟨es, by simp [hr, hes, bind, Except.bind, pure, Except.pure]⟩
      | some d => exact ⟨(k, .replace [some d]) :: es, by simp [hr, hes, bind, Except.bind, pure, Except.pure]⟩

theorem beq_false_of_ne {a b : Val} (h : a ≠ b) : a.beq b = false := by
  cases hb : a.beq b with
  | false => rfl
  | true => exact absurd ((Val.beq_iff_eq a b).mp hb) h

/-- first loop of `diffMapping`: exactly the keys of the old mapping that were removed or whose value changed -/
theorem mappingEdits_first_spec (f : Val → Val → Except Err (Option VDiff)) (new : List (Val × Val)) :
    ∀ (old : List (Val × Val)) (es : List (Val × Edit Val VDiff)), KeysDistinct old →
      mappingEdits.first f new old = .ok es → ∀ k : Val,
      match lookup k old with
      | none => editFor k es = none
      | some ov =>
        match lookup k new with
        | none => editFor k es = some (k, .delete [ov])
        | some nv => (f ov nv = .ok none ∧ editFor k es = none) ∨
                     (∃ d, f ov nv = .ok (some d) ∧ editFor k es = some (k, .replace [some d])) := by
  intro old
  induction old with
  | nil => intro es _ h k; simp only [mappingEdits.first] at h; cases h; simp [lookup, editFor]
  | cons e rest ih =>
    intro es hd h k
    obtain ⟨k0, v0⟩ := e
    have hd' : KeysDistinct rest := (List.pairwise_cons.mp hd).2
    have hk0 : lookup k0 rest = none :=
      (lookup_eq_none_iff k0 rest).mpr (fun e he => ((List.pairwise_cons.mp hd).1 e he).symm)
    simp only [mappingEdits.first] at h
    by_cases hkk : k = k0
    · subst hkk
      simp only [lookup, Val.beq_refl, ↓reduceIte]
      cases hl : lookup k new with
      | none =>
        simp only [hl, bind, Except.bind] at h
        split at h
        · cases h
        · simp only [pure, Except.pure, Except.ok.injEq] at h
          subst h
          simp [editFor, Val.beq_refl]
      | some nv =>
        simp only [hl, bind, Except.bind] at h
        split at h
        · cases h
        · rename_i d hd1
          split at h
          · cases h
          · rename_i es' hes'
            have ih' := ih es' hd' hes' k
            simp only [hk0] at ih'
            cases d with
            | none =>
              simp only [pure, Except.pure, Except.ok.injEq] at h
              subst h
              exact Or.inl ⟨hd1, ih'⟩
            | some d =>
              simp only [pure, Except.pure, Except.ok.injEq] at h
              subst h
              exact Or.inr ⟨d, hd1, by simp [editFor, Val.beq_refl]⟩
    · have hb : k.beq k0 = false := beq_false_of_ne hkk
      simp only [lookup, hb, Bool.false_eq_true, ↓reduceIte]
      -- the entry for k0, if any, is skipped by the search for k
      have hskip : ∀ (x : Edit Val VDiff) (es' : List (Val × Edit Val VDiff)), editFor k ((k0, x) :: es') = editFor k es' := by
        intro x es'; simp [editFor, hb]
      cases hl0 : lookup k0 new with
      | none =>
        simp only [hl0, bind, Except.bind] at h
        split at h
        · cases h
        · rename_i es' hes'
          simp only [pure, Except.pure, Except.ok.injEq] at h
          subst h
          rw [hskip]
          exact ih es' hd' hes' k
      | some nv0 =>
        simp only [hl0, bind, Except.bind] at h
        split at h
        · cases h
        · rename_i d hd1
          split at h
          · cases h
          · rename_i es' hes'
            cases d with
            | none =>
              simp only [pure, Except.pure, Except.ok.injEq] at h
              subst h
              exact ih es' hd' hes' k
            | some d =>
              simp only [pure, Except.pure, Except.ok.injEq] at h
              subst h
              rw [hskip]
              exact ih es' hd' hes' k

/-- second loop of `diffMapping`: exactly the keys of the new mapping that the old one does not have -/
theorem mappingEdits_second_spec (old : List (Val × Val)) :
    ∀ (new : List (Val × Val)), KeysDistinct new → ∀ k : Val,
      editFor k (mappingEdits.second old new) =
        match lookup k old, lookup k new with
        | none, some nv => some (k, .add [nv])
        | _, _ => none := by
  intro new
  induction new with
  | nil => intro _ k; simp only [mappingEdits.second, lookup, editFor, List.find?_nil]; split <;> simp_all
  | cons e rest ih =>
    intro hd k
    obtain ⟨k0, v0⟩ := e
    have hd' : KeysDistinct rest := (List.pairwise_cons.mp hd).2
    have hk0 : lookup k0 rest = none :=
      (lookup_eq_none_iff k0 rest).mpr (fun e he => ((List.pairwise_cons.mp hd).1 e he).symm)
    have ih' := ih hd' k
    simp only [mappingEdits.second]
    by_cases hkk : k = k0
    · subst hkk
      simp only [lookup, Val.beq_refl, ↓reduceIte]
      cases hlo : lookup k old with
      | none => simp [editFor, Val.beq_refl]
      | some ov =>
        simp only []
        rw [ih']
        simp [hlo]
    · have hb : k.beq k0 = false := beq_false_of_ne hkk
      simp only [lookup, hb, Bool.false_eq_true, ↓reduceIte]
      cases hlo0 : lookup k0 old with
      | none =>
        simp only []
        have : editFor k ((k0, Edit.add [v0]) :: mappingEdits.second old rest) = editFor k (mappingEdits.second old rest) := by
          simp [editFor, hb]
        rw [this]; exact ih'
      | some _ => simp only []; exact ih'

/-- `diffMapping`: the edit for a key, by what the two mappings say about the key -/
theorem mappingEdits_spec (f : Val → Val → Except Err (Option VDiff)) (old new : List (Val × Val))
    (es : List (Val × Edit Val VDiff)) (ho : KeysDistinct old) (hn : KeysDistinct new)
    (h : mappingEdits f old new = .ok es) (k : Val) :
    match lookup k old, lookup k new with
    | none, none => editFor k es = none
    | some ov, none => editFor k es = some (k, .delete [ov])
    | none, some nv => editFor k es = some (k, .add [nv])
    | some ov, some nv => (f ov nv = .ok none ∧ editFor k es = none) ∨
                          (∃ d, f ov nv = .ok (some d) ∧ editFor k es = some (k, .replace [some d])) := by
  simp only [mappingEdits, bind, Except.bind] at h
  split at h
  · cases h
  · rename_i es1 hes1
    simp only [pure, Except.pure, Except.ok.injEq] at h
    subst h
    have h1 := mappingEdits_first_spec f new old es1 ho hes1 k
    have h2 := mappingEdits_second_spec old new hn k
    have happ : editFor k (es1 ++ mappingEdits.second old new) =
        (editFor k es1).or (editFor k (mappingEdits.second old new)) := by
      simp [editFor, List.find?_append]
    rw [happ, h2]
    cases hlo : lookup k old with
    | none =>
      simp only [hlo] at h1
      cases hln : lookup k new <;> simp [h1]
    | some ov =>
      simp only [hlo] at h1
      cases hln : lookup k new with
      | none => simp only [hln] at h1; simp [h1]
      | some nv =>
        simp only [hln] at h1
        rcases h1 with ⟨e1, e2⟩ | ⟨d, e1, e2⟩
        · exact Or.inl ⟨e1, by simp [e2]⟩
        · exact Or.inr ⟨d, e1, by simp [e2]⟩

theorem hasEdit_eq (k : Val) (es : List (Val × Edit Val VDiff)) : hasEdit k es = (editFor k es).isSome := by
  unfold hasEdit editFor
  induction es with
  | nil => rfl
  | cons e es ih =>
    simp only [List.any_cons, List.find?_cons]
    cases k.beq e.1 <;> simp [ih]

/-- the literal diff `diffReplacements` builds for two pieces of strings or bytes, when both sequences are such -/
def litOf (old new : Val) : Option (List Val → List Val → VDiff) :=
  if old.indexReturnsSlice && new.indexReturnsSlice then
    some fun o n => .lit (old.reslice o) (new.reslice n)
  else none

theorem snakeDepth_pos : 1 ≤ snakeDepth := by decide

/-- the sequence case of `DiffDepth`, given that the element diffs one level down do not fail -/
theorem slice_case (rs : Nat) (hrs : 1 ≤ rs) (f : Val → Val → Except Err (Option VDiff)) (d : Nat)
    (IH : ∀ x y : Val, x.height ≤ d → y.height ≤ d → ∃ r, f x y = .ok r)
    (a b : Val) (xs ys : List Val) (ha : a.elems? = some xs) (hb : b.elems? = some ys)
    (hha : a.height ≤ d + 1) (hhb : b.height ≤ d + 1) (hd : d ≤ snakeDepth) :
    ∃ edits, diffSliceEdits (equalDepth snakeDepth) f (litOf a b) rs xs ys = .ok edits ∧
      Recon eqbV f (litOf a b) edits xs ys := by
  have hx : ∀ x ∈ xs, x.height ≤ snakeDepth := by
    intro x hx
    have := snakeDepth_pos
    rcases elems_height ha hx with ⟨_, h⟩ | ⟨_, h⟩ <;> omega
  have hy : ∀ y ∈ ys, y.height ≤ snakeDepth := by
    intro y hy
    have := snakeDepth_pos
    rcases elems_height hb hy with ⟨_, h⟩ | ⟨_, h⟩ <;> omega
  refine diffSliceEdits_spec (equalDepth snakeDepth) eqbV f (litOf a b) rs hrs xs ys
    (eqOnV xs ys hx) (eqOnV ys xs hy) ?_
  intro x hxm y hym hlit
  have hnl : ¬ (a.indexReturnsSlice = true ∧ b.indexReturnsSlice = true) := by
    intro h
    simp [litOf, h.1, h.2] at hlit
  have h1 := elems_height ha hxm
  have h2 := elems_height hb hym
  have px := x.height_pos
  have py := y.height_pos
  apply IH x y
  · rcases h1 with ⟨ea, hx1⟩ | ⟨_, h⟩
    · rcases h2 with ⟨eb, _⟩ | ⟨_, h⟩
      · exact absurd ⟨ea, eb⟩ hnl
      · omega
    · omega
  · rcases h2 with ⟨eb, hy1⟩ | ⟨_, h⟩
    · rcases h1 with ⟨ea, _⟩ | ⟨_, h⟩
      · exact absurd ⟨ea, eb⟩ hnl
      · omega
    · omega

/-- `DiffDepth` does not fail (no depth error, no panic, no fuel shortage) on values no deeper than its depth -/
theorem diffDepthWith_total (rs : Nat) (hrs : 1 ≤ rs) (sw : Bool) (d : Nat) :
    ∀ a b : Val, a.height ≤ d → b.height ≤ d → d ≤ snakeDepth + 1 → ∃ r, diffDepthWith rs sw d a b = .ok r := by
  induction d with
  | zero => intro a _ h; have := a.height_pos; omega
  | succ d ih =>
    intro a b hha hhb hd
    have IH : ∀ x y : Val, x.height ≤ d → y.height ≤ d → ∃ r, diffDepthWith rs sw d x y = .ok r :=
      fun x y h1 h2 => ih x y h1 h2 (by omega)
    obtain ⟨r, hr⟩ := equalDepth_total (d + 1) a b hha
    simp only [diffDepthWith, hr]
    cases r with
    | true => exact ⟨_, rfl⟩
    | false =>
      simp only []
      cases hea : a.elems? with
      | some xs =>
        cases heb : b.elems? with
        | some ys =>
          obtain ⟨edits, he, _⟩ := slice_case rs hrs (diffDepthWith rs sw d) d IH a b xs ys hea heb hha hhb (by omega)
          simp only [litOf] at he
          simp only [he]
          exact ⟨_, rfl⟩
        | none =>
          simp only []
          cases a <;> cases b <;> simp_all [Val.elems?]
      | none =>
        simp only []
        cases a with
        | str _ => simp [Val.elems?] at hea
        | bytes _ => simp [Val.elems?] at hea
        | tuple _ => simp [Val.elems?] at hea
        | list _ => simp [Val.elems?] at hea
        | none => exact ⟨_, rfl⟩
        | bool _ => exact ⟨_, rfl⟩
        | int _ => exact ⟨_, rfl⟩
        | dict okv =>
          cases b <;> try exact ⟨_, rfl⟩
          rename_i nkv
          simp only []
          obtain ⟨es, hes⟩ := mappingEdits_first_total (diffDepthWith rs sw d) nkv okv (fun e he nv hl => by
            obtain ⟨k', hk'⟩ := lookup_mem hl
            have h1 := mem_heightPairs (k := e.1) (v := e.2) (by simpa using he)
            have h2 := mem_heightPairs hk'
            simp only [Val.height] at hha hhb
            exact IH e.2 nv (by omega) (by omega))
          simp only [mappingEdits, hes, bind, Except.bind, pure, Except.pure]
          exact ⟨_, rfl⟩

end Dawn.Diff

import Dawn.Proofs.LoaderInv2
/-!
Third invariant of the fixed loader model: the `loading` fields mirror the stacks. Within a stack every frame
points to the frame above it, the top frame points to the module it is waiting for / loading (exactly while the
pointer is published), nothing else has a pointer, and publication times increase up a stack.
-/
namespace Dawn.Loader

/-- what the top frame's `loading` field holds at this program counter -/
def topPtr (p : PC) (f : Frame) : Option Mod :=
  match p with
  | .load d | .enter d | .walk d _ | .wlock d | .sleep d | .check d => some d
  | .unset _ => f.todo.head?
  | _ => none

/-- the frames of one stack, top first: the first frame's `loading` is `p`, every other frame's is the frame above -/
def chainOK (L : Mod → Option Mod) : Option Mod → List Frame → Prop
  | _, [] => True
  | p, f :: rest => L f.mod = p ∧ chainOK L (some f.mod) rest

theorem chainOK_congr {L L' : Mod → Option Mod} {stk : List Frame} (h : ∀ f ∈ stk, L' f.mod = L f.mod) (p : Option Mod) :
    chainOK L' p stk ↔ chainOK L p stk := by
  induction stk generalizing p with
  | nil => simp [chainOK]
  | cons f rest ih =>
    simp only [chainOK]
    rw [h f (by simp), ih (fun g hg => h g (by simp [hg]))]

/-- every frame of a chain other than the first has a pointer -/
theorem chainOK_ptr {L : Mod → Option Mod} {stk : List Frame} {p : Option Mod} (h : chainOK L p stk) :
    ∀ f ∈ stk.tail, L f.mod ≠ none := by
  induction stk generalizing p with
  | nil => simp
  | cons f rest ih =>
    intro g hg
    simp only [List.tail_cons] at hg
    cases rest with
    | nil => simp at hg
    | cons f2 rest2 =>
      simp only [chainOK] at h
      simp only [List.mem_cons] at hg
      rcases hg with rfl | hg
      · rw [h.2.1]; simp
      · exact ih h.2 g (by simp [hg])

structure Inv3 (s : State) : Prop where
  chain : ∀ t f rest, s.stack t = f :: rest → chainOK s.loading (topPtr (s.pc t) f) (f :: rest)
  free_none : ∀ m, (∀ t f, f ∈ s.stack t → f.mod ≠ m) → s.loading m = none
  ptime_lt : ∀ m, s.loading m ≠ none → s.ptime m < s.clock
  ptime_inj : ∀ a b, s.loading a ≠ none → s.loading b ≠ none → s.ptime a = s.ptime b → a = b
  order : ∀ t, (s.stack t).Pairwise (fun u l => s.loading u.mod ≠ none → s.ptime l.mod < s.ptime u.mod)

theorem inv3_init (P : Project) : Inv3 (init P) := by
  constructor <;> simp [init]



/-- a step that changes neither stacks nor pointers nor clocks and keeps what the top frames point to -/
theorem inv3_of_eq {s s' : State} (inv : Inv3 s) (hst : s'.stack = s.stack) (hl : s'.loading = s.loading)
    (hp : s'.ptime = s.ptime) (hc : s'.clock = s.clock)
    (hpc : ∀ t f rest, s.stack t = f :: rest → topPtr (s'.pc t) f = topPtr (s.pc t) f) : Inv3 s' := by
  constructor
  · intro t f rest h
    rw [hst] at h
    rw [hl, hpc t f rest h]
    exact inv.chain t f rest h
  · intro m h; rw [hl]; exact inv.free_none m (by rw [hst] at h; exact h)
  · intro m h; rw [hp, hc]; rw [hl] at h; exact inv.ptime_lt m h
  · intro a b ha hb h; rw [hl] at ha hb; rw [hp] at h; exact inv.ptime_inj a b ha hb h
  · intro t; rw [hst, hl, hp]; exact inv.order t

/-- for a step of thread `t` that only moves its program counter -/
theorem inv3_setPc {s : State} {t : Tid} {p : PC} (inv : Inv3 s)
    (h : ∀ f rest, s.stack t = f :: rest → topPtr p f = topPtr (s.pc t) f) : Inv3 (setPc s t p) := by
  refine inv3_of_eq inv rfl rfl rfl rfl ?_
  intro t1 f rest hs
  simp only [setPc, upd]
  split
  · rename_i ht; subst ht; exact h f rest hs
  · rfl


theorem mem_stack_ne_of_nodup {s : State} (inv2 : Inv2 s) {t : Tid} {f : Frame} {rest : List Frame}
    (hst : s.stack t = f :: rest) : ∀ g ∈ rest, g.mod ≠ f.mod := by
  intro g hg h
  have := inv2.nodup t
  rw [hst] at this
  simp only [List.map_cons, List.nodup_cons, List.mem_map, not_exists, not_and] at this
  exact this.1 g hg h

theorem inv3_publish {s : State} {t : Tid} {p : PC} {f : Frame} {rest : List Frame} {d : Mod}
    (inv2 : Inv2 s) (inv : Inv3 s) (hst : s.stack t = f :: rest) (hnew : topPtr p f = some d) :
    Inv3 (setPc (publish s f.mod d) t p) := by
  have hrest := mem_stack_ne_of_nodup inv2 hst
  have hother : ∀ t1, t1 ≠ t → ∀ g ∈ s.stack t1, g.mod ≠ f.mod :=
    fun t1 h1 g hg => inv2.disjoint t1 t g f h1 hg (by simp [hst])
  constructor
  · intro t1 g rest1 h
    simp only [setPc, publish] at h ⊢
    by_cases ht : t1 = t
    · subst ht
      rw [hst] at h; cases h
      simp only [upd_same, hnew, chainOK, true_and]
      have hc := (inv.chain t1 f rest hst)
      simp only [chainOK] at hc
      exact (chainOK_congr (fun g hg => by simp [upd, hrest g hg]) _).2 hc.2
    · simp only [upd_other _ _ _ _ ht]
      have hc := inv.chain t1 g rest1 h
      refine (chainOK_congr (fun g' hg' => ?_) _).2 hc
      have := hother t1 ht g' (by rw [h]; exact hg')
      simp [upd, this]
  · intro m h
    simp only [setPc, publish] at h ⊢
    have hm : m ≠ f.mod := fun e => h t f (by simp [hst]) e.symm
    simp only [upd, hm, ↓reduceIte]
    exact inv.free_none m h
  · intro m h
    simp only [setPc, publish, goSleep, upd] at h ⊢
    split
    · omega
    · rename_i hm; simp only [hm, ↓reduceIte] at h; have := inv.ptime_lt m h; omega
  · intro a b ha hb h
    simp only [setPc, publish, goSleep, upd] at ha hb h
    by_cases h1 : a = f.mod <;> by_cases h2 : b = f.mod <;> simp only [h1, h2, ↓reduceIte] at ha hb h
    · rw [h1, h2]
    · have := inv.ptime_lt b hb; omega
    · have := inv.ptime_lt a ha; omega
    · exact inv.ptime_inj a b ha hb h
  · intro t1
    simp only [setPc, publish]
    by_cases ht : t1 = t
    · subst ht
      rw [hst]
      have ho := inv.order t1
      rw [hst] at ho
      rw [List.pairwise_cons] at ho ⊢
      refine ⟨fun l hl _ => ?_, ho.2.imp_of_mem ?_⟩
      · have hc := chainOK_ptr (inv.chain t1 f rest hst) l (by simpa using hl)
        have := inv.ptime_lt l.mod hc
        simp [upd, hrest l hl]; exact this
      · intro u l hu hl hR
        simp only [upd, hrest u hu, hrest l hl, ↓reduceIte]
        exact hR
    · refine (inv.order t1).imp_of_mem ?_
      intro u l hu hl hR
      simp only [upd, hother t1 ht u hu, hother t1 ht l hl, ↓reduceIte]
      exact hR


theorem inv3_push {P : Project} {s : State} {t : Tid} {d : Mod} (inv2 : Inv2 s) (inv : Inv3 s) (hpc : s.pc t = .load d) :
    Inv3 { s with stack := upd s.stack t (⟨d, P.loads d⟩ :: s.stack t), execs := upd s.execs d (s.execs d + 1),
                  pc := upd s.pc t .run } := by
  have hfresh := (inv2.new_fresh t d (Or.inr hpc)).2.2
  have hd : s.loading d = none := inv.free_none d hfresh
  constructor
  · intro t1 g rest1 h
    simp only at h ⊢
    by_cases ht : t1 = t
    · subst ht
      simp only [upd_same] at h ⊢
      cases h
      simp only [topPtr, chainOK, hd, true_and]
      cases hs : s.stack t1 with
      | nil => simp [chainOK]
      | cons f rest =>
        have := inv.chain t1 f rest hs
        simpa [hpc, topPtr] using this
    · simp only [upd_other _ _ _ _ ht] at h ⊢
      exact inv.chain t1 g rest1 h
  · intro m h
    refine inv.free_none m (fun t1 f hf => h t1 f ?_)
    simp only [upd]
    split
    · rename_i ht; subst ht; simp [hf]
    · exact hf
  · exact inv.ptime_lt
  · exact inv.ptime_inj
  · intro t1
    simp only [upd]
    split
    · rename_i ht; subst ht
      rw [List.pairwise_cons]
      exact ⟨fun l _ h => absurd hd h, inv.order t1⟩
    · exact inv.order t1

theorem inv3_unset {s : State} {t : Tid} {f : Frame} {rest : List Frame} {p : PC} {td : List Mod}
    (inv2 : Inv2 s) (inv : Inv3 s) (hst : s.stack t = f :: rest) (hp : topPtr p ⟨f.mod, td⟩ = none) :
    Inv3 { s with loading := upd s.loading f.mod none, stack := upd s.stack t (⟨f.mod, td⟩ :: rest),
                  pc := upd s.pc t p } := by
  have hrest := mem_stack_ne_of_nodup inv2 hst
  have hother : ∀ t1, t1 ≠ t → ∀ g ∈ s.stack t1, g.mod ≠ f.mod :=
    fun t1 h1 g hg => inv2.disjoint t1 t g f h1 hg (by simp [hst])
  constructor
  · intro t1 g rest1 h
    simp only at h ⊢
    by_cases ht : t1 = t
    · subst ht
      simp only [upd_same] at h ⊢
      cases h
      simp only [hp, chainOK, upd_same, true_and]
      have hc := inv.chain t1 f rest hst
      simp only [chainOK] at hc
      exact (chainOK_congr (fun g hg => by simp [upd, hrest g hg]) _).2 hc.2
    · simp only [upd_other _ _ _ _ ht] at h ⊢
      refine (chainOK_congr (fun g' hg' => ?_) _).2 (inv.chain t1 g rest1 h)
      have := hother t1 ht g' (by rw [h]; exact hg')
      simp [upd, this]
  · intro m h
    simp only [upd] at h ⊢
    split
    · rfl
    · refine inv.free_none m (fun t1 g hg => ?_)
      by_cases ht : t1 = t
      · subst ht
        rw [hst] at hg
        simp only [List.mem_cons] at hg
        rcases hg with rfl | hg
        · have := h t1 ⟨g.mod, td⟩ (by simp)
          simpa using this
        · exact h t1 g (by simp [hg])
      · exact h t1 g (by simp [ht, hg])
  · intro m h
    simp only [upd] at h
    split at h
    · exact absurd rfl h
    · exact inv.ptime_lt m h
  · intro a b ha hb h
    simp only [upd] at ha hb
    split at ha
    · exact absurd rfl ha
    · split at hb
      · exact absurd rfl hb
      · exact inv.ptime_inj a b ha hb h
  · intro t1
    simp only [upd]
    split
    · rename_i ht; subst ht
      have ho := inv.order t1
      rw [hst] at ho
      rw [List.pairwise_cons] at ho ⊢
      refine ⟨fun l _ h => ?_, ho.2.imp_of_mem ?_⟩
      · simp at h
      · intro u l hu hl hR h
        simp only [hrest u hu, ↓reduceIte] at h
        exact hR h
    · rename_i ht
      refine (inv.order t1).imp_of_mem ?_
      intro u l hu hl hR h
      simp only [hother t1 ht u hu, ↓reduceIte] at h
      exact hR h

theorem inv3_pop {P : Project} {s : State} {t : Tid} {f : Frame} {rest : List Frame} {r : Res} {ld : Mod → Bool} {fl : Mod → Res} {ft : Mod → Nat} {asl : Mod → List Tid}
    (inv1 : Inv1 P s) (inv2 : Inv2 s) (inv : Inv3 s) (hpc : s.pc t = .fin r) (hst : s.stack t = f :: rest) :
    Inv3 { s with loaded := ld, result := fl, asleep := asl, ftime := ft, clock := s.clock + 1,
                  stack := upd s.stack t rest, pc := upd s.pc t (.unset r) } := by
  have hrest := mem_stack_ne_of_nodup inv2 hst
  have hother : ∀ t1, t1 ≠ t → ∀ g ∈ s.stack t1, g.mod ≠ f.mod :=
    fun t1 h1 g hg => inv2.disjoint t1 t g f h1 hg (by simp [hst])
  have hc := inv.chain t f rest hst
  simp only [hpc, topPtr, chainOK] at hc
  constructor
  · intro t1 g rest1 h
    simp only at h ⊢
    by_cases ht : t1 = t
    · subst ht
      simp only [upd_same] at h ⊢
      subst h
      have hb := inv1.lower_busy t1 f g rest1 [] (by simp [hst])
      simp only [topPtr, hb]
      exact hc.2
    · simp only [upd_other _ _ _ _ ht] at h ⊢
      exact inv.chain t1 g rest1 h
  · intro m h
    simp only at h ⊢
    by_cases hm : m = f.mod
    · rw [hm]; exact hc.1
    · refine inv.free_none m (fun t1 g hg => ?_)
      by_cases ht : t1 = t
      · subst ht
        rw [hst] at hg
        simp only [List.mem_cons] at hg
        rcases hg with rfl | hg
        · exact fun e => hm e.symm
        · exact h t1 g (by simp [hg])
      · exact h t1 g (by simp [ht, hg])
  · intro m h
    have := inv.ptime_lt m h
    simp only; omega
  · exact inv.ptime_inj
  · intro t1
    simp only [upd]
    split
    · rename_i ht; subst ht
      have ho := inv.order t1
      rw [hst, List.pairwise_cons] at ho
      exact ho.2
    · exact inv.order t1


theorem inv3_fstep {P : Project} {s s' : State} {t : Tid} (inv1 : Inv1 P s) (inv2 : Inv2 s) (inv : Inv3 s)
    (st : FStep P s t s') : Inv3 s' := by
  cases st
  case runBroken f rest hpc hst hb => exact inv3_setPc inv (fun _ _ _ => by simp [topPtr, hpc])
  case runFin f rest hpc hst hb htd => exact inv3_setPc inv (fun _ _ _ => by simp [topPtr, hpc])
  case runCall f rest d ds hpc hst hb htd => exact inv3_setPc inv (fun _ _ _ => by simp [topPtr, hpc])
  case callFound d hpc hr => exact inv3_setPc inv (fun _ _ _ => by simp [topPtr, hpc])
  case callNew d hpc hr =>
    refine inv3_of_eq inv rfl rfl rfl rfl (fun t1 f rest _ => ?_)
    simp only [upd]; split
    · rename_i h; subst h; simp [topPtr, hpc]
    · rfl
  case setNewRoot d hpc hst => exact inv3_setPc inv (fun f rest h => by simp [hst] at h)
  case setNewPub d f rest hpc hst => exact inv3_publish inv2 inv hst (by simp [topPtr])
  case load d hpc => exact inv3_push inv2 inv hpc
  case setFoundRoot d hpc hst => exact inv3_setPc inv (fun f rest h => by simp [hst] at h)
  case setFoundPub d f rest hpc hst => exact inv3_publish inv2 inv hst (by simp [topPtr])
  case enterRoot d hpc hst => exact inv3_setPc inv (fun f rest h => by simp [hst] at h)
  case enterWalk d f rest hpc hst => exact inv3_setPc inv (fun _ _ _ => by simp [topPtr, hpc])
  case walkNone d hpc => exact inv3_setPc inv (fun _ _ _ => by simp [topPtr, hpc])
  case walkCyc d c hpc htop =>
    refine inv3_setPc inv (fun f rest h => ?_)
    simp [topPtr, hpc, inv1.tgt_frame t f rest d h (by simp [hpc, target])]
  case walkNext d c hpc htop => exact inv3_setPc inv (fun _ _ _ => by simp [topPtr, hpc])
  case wlockRet d hpc hl =>
    refine inv3_setPc inv (fun f rest h => ?_)
    simp [topPtr, hpc, inv1.tgt_frame t f rest d h (by simp [hpc, target])]
  case wlockSleep d hpc hl =>
    refine inv3_of_eq inv rfl rfl rfl rfl (fun t1 f rest _ => ?_)
    simp only [goSleep, upd]; split
    · rename_i h; subst h; simp [topPtr, hpc]
    · rfl
  case wakeAgain d hpc hna hl =>
    refine inv3_of_eq inv rfl rfl rfl rfl (fun t1 f rest _ => ?_)
    simp only [goSleep, upd]; split
    · rename_i h; subst h; simp [topPtr, hpc]
    · rfl
  case wake d hpc hna hl =>
    refine inv3_setPc inv (fun f rest h => ?_)
    simp [topPtr, hpc, inv1.tgt_frame t f rest d h (by simp [hpc, target])]
  case unsetRoot r hpc hst => exact inv3_setPc inv (fun f rest h => by simp [hst] at h)
  case unsetOk f rest hpc hst => exact inv3_unset (p := .run) (td := f.todo.tail) inv2 inv hst rfl
  case unsetFail r f rest hpc hr hst =>
    have e : upd s.stack t (⟨f.mod, f.todo⟩ :: rest) = s.stack := by
      funext x; simp only [upd]; split
      · rename_i h; subst h; simp [hst]
      · rfl
    have := inv3_unset (p := .fin r) (td := f.todo) inv2 inv hst rfl
    rw [e] at this
    exact this
  case fin r f rest hpc hst => exact inv3_pop inv1 inv2 inv hpc hst

theorem inv3_reachable {P : Project} {s : State} (h : Reachable .fixed P s) : Inv3 s :=
  reachable_induction (I := Inv3) (inv3_init P)
    (fun _ _ _ hr ih st => inv3_fstep (inv1_reachable hr) (inv2_reachable hr) ih st) h

end Dawn.Loader

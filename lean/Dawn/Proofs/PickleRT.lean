import Dawn.Proofs.PickleDec
/-! Op-level round trip for C07: running the decoder's stack machine over the ops the encoder emits for a canonical
graph rebuilds exactly that graph. Grown from `design-probes/pickle-roundtrip`. -/
namespace Dawn.Pickle

/-! ### running a list of ops that all continue -/

def steps (cfg : DecCfg) : DecSt → List Op → Option DecSt
  | ds, [] => some ds
  | ds, op :: ops =>
    match stepOp cfg ds op with
    | .cont ds' => steps cfg ds' ops
    | _ => Option.none

theorem steps_append (cfg : DecCfg) (ds : DecSt) (xs ys : List Op) :
    steps cfg ds (xs ++ ys) = (steps cfg ds xs).bind (fun d => steps cfg d ys) := by
  induction xs generalizing ds with
  | nil => simp [steps]
  | cons x xs ih =>
    simp only [List.cons_append, steps]
    cases h : stepOp cfg ds x <;> simp [ih]

theorem steps_closed (cfg : DecCfg) : ∀ (ops : List Op) (ds ds' : DecSt), Closed ds → steps cfg ds ops = some ds' → Closed ds' := by
  intro ops
  induction ops with
  | nil => intro ds ds' hc h; simp only [steps, Option.some.injEq] at h; exact h ▸ hc
  | cons op ops ih =>
    intro ds ds' hc h
    simp only [steps] at h
    have hg := stepOp_good cfg ds hc op
    split at h
    · rename_i d1 hs; rw [hs] at hg; exact ih d1 ds' hg h
    · cases h

theorem steps_one {cfg : DecCfg} {ds ds' : DecSt} {op : Op} (h : stepOp cfg ds op = .cont ds') :
    steps cfg ds [op] = some ds' := by simp [steps, h]

/-! ### the simulation invariant -/

/-- immutable objects are final when allocated; containers only agree in kind while being filled -/
def SameShape : Obj → Obj → Prop
  | .tuple xs, .tuple ys => xs = ys
  | .host m n a, .host m' n' a' => m = m' ∧ n = n' ∧ a = a'
  | .list _, .list _ => True
  | .dict _, .dict _ => True
  | .set _, .set _ => True
  | _, _ => False

theorem SameShape.refl (o : Obj) : SameShape o o := by cases o <;> simp [SameShape]

def Agree (g h : Heap) : Prop := ∀ (a : Nat) (o : Obj), h[a]? = some o → ∃ o', g[a]? = some o' ∧ SameShape o o'

structure Sim (g : Heap) (st : EncSt) (ds : DecSt) : Prop where
  hlen : ds.heap.length = st.next
  mlen : ds.memo.length = st.memo.length
  mem : ∀ a id, lookup st.memo a = some id → ds.memo[id]? = some (.ref a)
  closed : Closed ds
  agree : Agree g ds.heap
  memoLe : st.memo.length ≤ st.next
  nextLe : st.next ≤ g.length

structure Post (g : Heap) (st st' : EncSt) (ds ds' : DecSt) : Prop where
  sim : Sim g st' ds'
  mono : st.next ≤ st'.next
  frame : ∀ a, a < st.next → ds'.heap[a]? = ds.heap[a]?
  fresh : ∀ a, st.next ≤ a → a < st'.next → ds'.heap[a]? = g[a]?

theorem Post.refl (g : Heap) {st : EncSt} {ds : DecSt} (h : Sim g st ds) : Post g st st ds ds :=
  ⟨h, Nat.le_refl _, fun _ _ => rfl, fun a h1 h2 => by omega⟩

theorem Post.trans {g : Heap} {s1 s2 s3 : EncSt} {d1 d2 d3 : DecSt}
    (p : Post g s1 s2 d1 d2) (q : Post g s2 s3 d2 d3) : Post g s1 s3 d1 d3 := by
  refine ⟨q.sim, Nat.le_trans p.mono q.mono, ?_, ?_⟩
  · intro a ha
    rw [q.frame a (Nat.lt_of_lt_of_le ha p.mono), p.frame a ha]
  · intro a h1 h2
    by_cases h : a < s2.next
    · rw [q.frame a h, p.fresh a h1 h]
    · exact q.fresh a (by omega) h2

/-- the stack does not matter to `Sim` beyond closedness -/
theorem Sim.restack {g : Heap} {st : EncSt} {ds : DecSt} (h : Sim g st ds) (stk : List Val)
    (hs : ∀ v ∈ stk, v.closed ds.heap.length) : Sim g st { ds with stack := stk } :=
  ⟨h.hlen, h.mlen, h.mem, ⟨hs, h.closed.memo, h.closed.heap⟩, h.agree, h.memoLe, h.nextLe⟩

theorem lookup_cons_self (m : List (Nat × Nat)) (a id : Nat) : lookup ((a, id) :: m) a = some id := by
  simp [lookup, List.find?]

theorem lookup_cons_ne (m : List (Nat × Nat)) (a b id : Nat) (h : b ≠ a) :
    lookup ((a, id) :: m) b = lookup m b := by
  have : (a == b) = false := by simpa using (Ne.symm h)
  simp [lookup, List.find?, this]

/-- what an encoder for values promises (`encVal g fuel` for every fuel) -/
def ValSpec (cfg : DecCfg) (g : Heap) (f : EncSt → Val → Option (EncSt × List Op)) : Prop :=
  ∀ st v st' ops ds, f st v = some (st', ops) → Sim g st ds → v.sizeOK = true →
    ∃ ds', steps cfg ds ops = some ds' ∧ ds'.stack = v :: ds.stack ∧ Post g st st' ds ds' ∧ v ≠ .mark ∧
      ∀ op ∈ ops, op.wf

/-- tuple / batch elements pile up on the stack in reverse -/
theorem encSeq_spec {cfg : DecCfg} {g : Heap} {f} (hf : ValSpec cfg g f) :
    ∀ (xs : List Val) st st' ops ds, encSeq f st xs = some (st', ops) → Sim g st ds → (∀ x ∈ xs, x.sizeOK = true) →
      ∃ ds', steps cfg ds ops = some ds' ∧ ds'.stack = xs.reverse ++ ds.stack ∧ Post g st st' ds ds' ∧
        (∀ x ∈ xs, x ≠ .mark) ∧ ∀ op ∈ ops, op.wf := by
  intro xs
  induction xs with
  | nil =>
    intro st st' ops ds h hs _
    simp only [encSeq, Option.some.injEq, Prod.mk.injEq] at h
    obtain ⟨rfl, rfl⟩ := h
    exact ⟨ds, by simp [steps], by simp, Post.refl g hs, by simp, by simp⟩
  | cons x xs ih =>
    intro st st' ops ds h hs hsz
    simp only [encSeq] at h
    split at h
    · cases h
    · rename_i st1 ops1 h1
      split at h
      · cases h
      · rename_i st2 ops2 h2
        simp only [Option.some.injEq, Prod.mk.injEq] at h
        obtain ⟨rfl, rfl⟩ := h
        obtain ⟨d1, r1, s1, p1, nm1, w1⟩ := hf st x st1 ops1 ds h1 hs (hsz x (by simp))
        obtain ⟨d2, r2, s2, p2, nm2, w2⟩ := ih st1 st2 ops2 d1 h2 p1.sim (fun y hy => hsz y (by simp [hy]))
        refine ⟨d2, ?_, ?_, p1.trans p2, ?_, ?_⟩
        · simp [steps_append, r1, r2]
        · simp [s2, s1]
        · intro y hy
          simp only [List.mem_cons] at hy
          rcases hy with rfl | hy
          · exact nm1
          · exact nm2 y hy
        · intro op hop
          simp only [List.mem_append] at hop
          rcases hop with hop | hop
          · exact w1 op hop
          · exact w2 op hop

theorem splitMark_append (xs below : List Val) (h : ∀ x ∈ xs, x ≠ .mark) :
    splitMark (xs ++ .mark :: below) = some (xs, below) := by
  induction xs with
  | nil => simp [splitMark]
  | cons x xs ih =>
    have hx : x ≠ .mark := h x (by simp)
    have ih' := ih (fun y hy => h y (by simp [hy]))
    simp only [List.cons_append]
    cases x with
    | mark => exact absurd rfl hx
    | atom a => simp [splitMark, ih']
    | ref a => simp [splitMark, ih']
    | global i m n => simp [splitMark, ih']

/-! ### key comparison and hashing see only the immutable part of the heap -/

theorem cmpAll_congr (f f' : Val → Val → Option Bool) : ∀ (xs ys : List Val),
    (∀ x ∈ xs, ∀ y ∈ ys, f x y = f' x y) → cmpAll f xs ys = cmpAll f' xs ys := by
  intro xs
  induction xs with
  | nil => intro ys _; cases ys <;> simp [cmpAll]
  | cons x xs ih =>
    intro ys h
    cases ys with
    | nil => simp [cmpAll]
    | cons y ys =>
      simp only [cmpAll]
      rw [h x (by simp) y (by simp), ih ys (fun a ha b hb => h a (by simp [ha]) b (by simp [hb]))]

theorem agree_get {g h : Heap} (ha : Agree g h) {a : Nat} (hlt : a < h.length) :
    ∃ o o', h[a]? = some o ∧ g[a]? = some o' ∧ SameShape o o' := by
  have h1 : h[a]? = some h[a] := List.getElem?_eq_getElem hlt
  obtain ⟨o', h2, h3⟩ := ha a _ h1
  exact ⟨_, o', h1, h2, h3⟩

theorem keyCmp_agree {g h : Heap} (ha : Agree g h) (hcl : ∀ o ∈ h, o.closed h.length) :
    ∀ (d : Nat) (x y : Val), x.closed h.length → y.closed h.length → keyCmp h d x y = keyCmp g d x y := by
  intro d
  induction d with
  | zero => intro x y _ _; simp [keyCmp]
  | succ d ih =>
    intro x y hx hy
    cases x <;> cases y <;> try (simp [keyCmp]; done)
    rename_i a b
    simp only [Val.closed] at hx hy
    obtain ⟨oa, oa', h1, h2, h3⟩ := agree_get ha hx
    obtain ⟨ob, ob', h4, h5, h6⟩ := agree_get ha hy
    have ca := hcl oa (List.mem_of_getElem? h1)
    have cb := hcl ob (List.mem_of_getElem? h4)
    cases oa <;> cases oa' <;> simp only [SameShape] at h3 <;> cases ob <;> cases ob' <;>
      simp only [SameShape] at h6 <;> (try subst h3) <;> (try subst h6) <;>
      simp only [keyCmp, h1, h2, h4, h5]
    -- tuple / tuple is what is left
    split
    · rfl
    · exact cmpAll_congr _ _ _ _ (fun u hu v hv => ih u v (ca u hu) (cb v hv))

theorem all_congr_mem (f f' : Val → Bool) : ∀ (xs : List Val), (∀ x ∈ xs, f x = f' x) → xs.all f = xs.all f' := by
  intro xs
  induction xs with
  | nil => intro _; rfl
  | cons x xs ih =>
    intro h
    simp only [List.all_cons]
    rw [h x (by simp), ih (fun y hy => h y (by simp [hy]))]

theorem hashable_agree {g h : Heap} (ha : Agree g h) (hcl : ∀ o ∈ h, o.closed h.length) :
    ∀ (f : Nat) (x : Val), x.closed h.length → hashable h f x = hashable g f x := by
  intro f
  induction f with
  | zero => intro x _; simp [hashable]
  | succ f ih =>
    intro x hx
    cases x <;> try (simp [hashable]; done)
    rename_i a
    simp only [Val.closed] at hx
    obtain ⟨oa, oa', h1, h2, h3⟩ := agree_get ha hx
    have ca := hcl oa (List.mem_of_getElem? h1)
    simp only [hashable, h1, h2]
    cases oa <;> cases oa' <;> simp only [SameShape] at h3 <;> try rfl
    subst h3
    rename_i xs
    exact all_congr_mem _ _ _ (fun u hu => ih u (ca u hu))

theorem hashable_mono (h : Heap) : ∀ (f f' : Nat) (x : Val), f ≤ f' → hashable h f x = true → hashable h f' x = true := by
  intro f
  induction f with
  | zero => intro f' x _ hx; simp [hashable] at hx
  | succ f ih =>
    intro f' x hle hx
    cases f' with
    | zero => omega
    | succ f' =>
      cases x <;> try (simp [hashable]; done)
      rename_i a
      simp only [hashable] at hx ⊢
      split <;> rename_i heq <;> simp only [heq] at hx
      · rename_i xs
        simp only [List.all_eq_true] at hx ⊢
        exact fun u hu => ih f' u (by omega) (hx u hu)
      · rfl
      · exact hx

/-! ### inserting fresh keys appends -/

theorem insertEntry_fresh {α : Type} (h : Heap) (key : α → Val) (setVal : α → α) (e : α) :
    ∀ (l : List α), (∀ x ∈ l, keyCmp h 10 (key e) (key x) = some false) →
      insertEntry h key setVal e l = some (l ++ [e]) := by
  intro l
  induction l with
  | nil => intro _; rfl
  | cons x rest ih =>
    intro hl
    have hx := hl x (by simp)
    simp only [insertEntry, keyEq, hx, List.cons_append]
    rw [ih (fun y hy => hl y (by simp [hy]))]
    rfl

theorem dictInsert_fresh (h : Heap) (acc : List (Val × Val)) (k v : Val) (hh : hashable h (h.length + 1) k = true)
    (hf : ∀ p ∈ acc, keyCmp h 10 k p.1 = some false) : dictInsert h acc k v = acc ++ [(k, v)] := by
  simp only [dictInsert, hh, if_true]
  rw [insertEntry_fresh h (·.1) (fun x => (x.1, v)) (k, v) acc hf]
  rfl

theorem setInsert_fresh (h : Heap) (acc : List Val) (k : Val) (hh : hashable h (h.length + 1) k = true)
    (hf : ∀ x ∈ acc, keyCmp h 10 k x = some false) : setInsert h acc k = acc ++ [k] := by
  simp only [setInsert, hh, if_true]
  rw [insertEntry_fresh h id id k acc hf]
  rfl

/-- later keys differ from earlier ones -/
def Distinct (h : Heap) (ks : List Val) : Prop := ks.Pairwise (fun k0 k => keyCmp h 10 k k0 = some false)

theorem distinctKeys_iff (g : Heap) : ∀ (ks : List Val), distinctKeys g ks = true ↔ Distinct g ks := by
  intro ks
  induction ks with
  | nil => simp [distinctKeys, Distinct]
  | cons k rest ih =>
    simp only [distinctKeys, Bool.and_eq_true, List.all_eq_true, beq_iff_eq, Distinct, List.pairwise_cons]
    rw [ih]
    rfl

theorem dictInsertAll_flatten (h : Heap) : ∀ (kb acc : List (Val × Val)),
    dictInsertAll h acc (flattenPairs kb) = kb.foldl (fun a p => dictInsert h a p.1 p.2) acc := by
  intro kb
  induction kb with
  | nil => intro acc; simp [flattenPairs, dictInsertAll]
  | cons p kb ih =>
    intro acc
    have : flattenPairs (p :: kb) = p.1 :: p.2 :: flattenPairs kb := by simp [flattenPairs]
    rw [this]
    simp only [dictInsertAll, List.foldl_cons]
    exact ih _

/-- inserting entries whose keys are hashable and new, one after the other, appends them -/
theorem foldl_insert_fresh {α : Type} (h : Heap) (ins : List α → α → List α) (key : α → Val)
    (hins : ∀ acc e, hashable h (h.length + 1) (key e) = true →
      (∀ x ∈ acc, keyCmp h 10 (key e) (key x) = some false) → ins acc e = acc ++ [e]) :
    ∀ (es acc : List α), Distinct h ((acc ++ es).map key) → (∀ e ∈ es, hashable h (h.length + 1) (key e) = true) →
      es.foldl ins acc = acc ++ es := by
  intro es
  induction es with
  | nil => intro acc _ _; simp
  | cons e es ih =>
    intro acc hd hh
    simp only [List.foldl_cons]
    have hfresh : ∀ x ∈ acc, keyCmp h 10 (key e) (key x) = some false := by
      intro x hx
      simp only [Distinct, List.map_append, List.map_cons, List.pairwise_append] at hd
      exact hd.2.2 (key x) (List.mem_map_of_mem hx) (key e) (by simp)
    rw [hins acc e (hh e (by simp)) hfresh]
    rw [ih (acc ++ [e]) (by simpa using hd) (fun x hx => hh x (by simp [hx]))]
    simp

/-! ### the batch loop, generically in the container kind -/

/-- what APPENDS / SETITEMS / ADDITEMS do to the object under the mark -/
def applyClose (close : Op) (h : Heap) (o : Obj) (items : List Val) : Option Obj :=
  match close, o with
  | .appends, .list xs => some (.list (xs ++ items))
  | .setitems, .dict kvs => if items.length % 2 ≠ 0 then Option.none else some (.dict (dictInsertAll h kvs items))
  | .additems, .set xs => some (.set (setInsertAll h xs items))
  | _, _ => Option.none

theorem stepOp_close (cfg : DecCfg) (ds : DecSt) (close : Op) (its : List Val) (a : Nat) (below : List Val) (o o' : Obj)
    (hsp : splitMark ds.stack = some (its, .ref a :: below)) (hget : ds.heap[a]? = some o)
    (happ : applyClose close ds.heap o its.reverse = some o') :
    stepOp cfg ds close = .cont { ds with stack := .ref a :: below, heap := ds.heap.set a o' } := by
  unfold applyClose at happ
  split at happ
  · simp only [Option.some.injEq] at happ; subst happ
    simp [stepOp, hsp, hget]
  · split at happ
    · cases happ
    · rename_i hev
      simp only [Option.some.injEq] at happ; subst happ
      simp only [List.length_reverse] at hev
      simp [stepOp, hsp, hget, hev]
  · simp only [Option.some.injEq] at happ; subst happ
    simp [stepOp, hsp, hget]
  · cases happ

theorem encBatches_spec {cfg : DecCfg} {g : Heap} {f} (hf : ValSpec cfg g f) {α : Type} (flat : List α → List Val)
    (close self : Op) (hcw : close.wf) (objAfter : List α → Obj) (a : Nat) (rest : List Val) (all : List α)
    (hshape : ∀ es, ∃ o', g[a]? = some o' ∧ SameShape (objAfter es) o')
    (hstep : ∀ (h : Heap) (done b : List α), Agree g h → (∀ o ∈ h, o.closed h.length) →
      (∀ x ∈ flat b, x.closed h.length) → (objAfter done).closed h.length → (∃ tail, done ++ b ++ tail = all) →
      applyClose close h (objAfter done) (flat b) = some (objAfter (done ++ b))) :
    ∀ (chunks : List (List α)) (done : List α) (first : Bool) st st' ops ds,
      encBatches f false self close first st (chunks.map flat) = some (st', ops) → Sim g st ds → a < st.next →
      ds.stack = .ref a :: rest → ds.heap[a]? = some (objAfter done) → done ++ chunks.flatten = all →
      (∀ c ∈ chunks, ∀ x ∈ flat c, x.sizeOK = true) →
      ∃ ds', steps cfg ds ops = some ds' ∧ ds'.stack = .ref a :: rest ∧ Sim g st' ds' ∧ st.next ≤ st'.next ∧
        ds'.heap[a]? = some (objAfter all) ∧
        (∀ b, b < st.next → b ≠ a → ds'.heap[b]? = ds.heap[b]?) ∧
        (∀ b, st.next ≤ b → b < st'.next → ds'.heap[b]? = g[b]?) ∧ ∀ op ∈ ops, op.wf := by
  intro chunks
  induction chunks with
  | nil =>
    intro done first st st' ops ds h hs ha hst hh hall _
    simp only [List.map_nil, encBatches, Option.some.injEq, Prod.mk.injEq] at h
    obtain ⟨rfl, rfl⟩ := h
    simp only [List.flatten_nil, List.append_nil] at hall
    subst hall
    exact ⟨ds, by simp [steps], hst, hs, Nat.le_refl _, hh, fun _ _ _ => rfl, fun b h1 h2 => by omega, by simp⟩
  | cons b chunks ih =>
    intro done first st st' ops ds h hs ha hst hh hall hsz
    simp only [List.map_cons, encBatches] at h
    split at h
    · cases h
    · rename_i st1 ops1 h1
      split at h
      · cases h
      · rename_i st2 ops2 h2
        simp only [Option.some.injEq, Prod.mk.injEq, Bool.and_false, Bool.false_eq_true, if_false, List.nil_append] at h
        obtain ⟨rfl, rfl⟩ := h
        -- MARK
        let d0 : DecSt := { ds with stack := .mark :: .ref a :: rest }
        have r0 : steps cfg ds [.mark] = some d0 := by
          apply steps_one; simp [stepOp, push, d0, hst]
        have hs0 : Sim g st d0 := by
          have := hs.restack (.mark :: .ref a :: rest) (by
            intro v hv
            simp only [List.mem_cons] at hv
            rcases hv with rfl | hv
            · trivial
            · exact hs.closed.stack v (by rw [hst]; simpa using hv))
          exact this
        -- the elements
        obtain ⟨d1, r1, s1, p1, nm1, w1⟩ := encSeq_spec hf (flat b) st st1 ops1 d0 h1 hs0 (hsz b (by simp))
        -- the closing op
        have hsp : splitMark d1.stack = some ((flat b).reverse, .ref a :: rest) := by
          rw [s1]; exact splitMark_append _ _ (by intro x hx; exact nm1 x (by simpa using hx))
        have hget : d1.heap[a]? = some (objAfter done) := by rw [p1.frame a ha]; exact hh
        have happ : applyClose close d1.heap (objAfter done) (flat b).reverse.reverse = some (objAfter (done ++ b)) := by
          rw [List.reverse_reverse]
          apply hstep d1.heap done b p1.sim.agree p1.sim.closed.heap
          · intro x hx
            exact p1.sim.closed.stack x (by rw [s1]; simp [hx])
          · exact p1.sim.closed.heap _ (List.mem_of_getElem? hget)
          · exact ⟨chunks.flatten, by simpa [List.append_assoc] using hall⟩
        have hstepc := stepOp_close cfg d1 close _ a rest _ _ hsp hget happ
        let d2 : DecSt := { d1 with stack := .ref a :: rest, heap := d1.heap.set a (objAfter (done ++ b)) }
        have r2 : steps cfg d1 [close] = some d2 := steps_one hstepc
        have hc2 : Closed d2 := by
          have := stepOp_good cfg d1 p1.sim.closed close
          rw [hstepc] at this; exact this
        have halt : a < d1.heap.length := by rw [p1.sim.hlen]; exact Nat.lt_of_lt_of_le ha p1.mono
        have hs2 : Sim g st1 d2 := by
          refine ⟨by simp [d2, p1.sim.hlen], p1.sim.mlen, p1.sim.mem, hc2, ?_, p1.sim.memoLe, p1.sim.nextLe⟩
          intro c o hc
          simp only [d2] at hc
          by_cases hca : c = a
          · subst hca
            rw [List.getElem?_set_self halt] at hc
            cases hc
            exact hshape _
          · rw [List.getElem?_set_ne (Ne.symm hca)] at hc
            exact p1.sim.agree c o hc
        have ha1 : a < st1.next := Nat.lt_of_lt_of_le ha p1.mono
        have hh2 : d2.heap[a]? = some (objAfter (done ++ b)) := by simp [d2, halt]
        obtain ⟨d3, r3, s3, sim3, mono3, ha3, fr3, fresh3, w3⟩ :=
          ih (done ++ b) false st1 st2 ops2 d2 h2 hs2 ha1 rfl hh2 (by simpa [List.append_assoc] using hall)
            (fun c hc => hsz c (by simp [hc]))
        refine ⟨d3, ?_, s3, sim3, Nat.le_trans p1.mono mono3, ha3, ?_, ?_, ?_⟩
        · simp only [List.append_assoc, List.cons_append, List.nil_append]
          have : (Op.mark :: (ops1 ++ close :: ops2)) = [Op.mark] ++ (ops1 ++ ([close] ++ ops2)) := by simp
          rw [this, steps_append, r0]
          simp only [Option.bind_some]
          rw [steps_append, r1]
          simp only [Option.bind_some]
          rw [steps_append, r2]
          simpa using r3
        · intro c hc hne
          rw [fr3 c (Nat.lt_of_lt_of_le hc p1.mono) hne]
          simp only [d2]
          rw [List.getElem?_set_ne (Ne.symm hne), p1.frame c hc]
        · intro c h1c h2c
          by_cases hc : c < st1.next
          · have hne : c ≠ a := by omega
            rw [fr3 c hc hne]
            simp only [d2]
            rw [List.getElem?_set_ne (Ne.symm hne), p1.fresh c h1c hc]
          · exact fresh3 c (by omega) h2c
        · intro op hop
          simp only [List.mem_append, List.mem_cons, List.not_mem_nil, or_false] at hop
          rcases hop with ((rfl | hop) | rfl) | hop
          · trivial
          · exact w1 op hop
          · exact hcw
          · exact w3 op hop

/-! ### atoms -/

theorem digitsAux_lt : ∀ (fuel n : Nat), ∀ d ∈ digitsAux fuel n, d < 10 := by
  intro fuel
  induction fuel with
  | zero => intro n d hd; simp [digitsAux] at hd
  | succ fuel ih =>
    intro n d hd
    simp only [digitsAux] at hd
    split at hd
    · simp only [List.mem_singleton] at hd; omega
    · simp only [List.mem_append, List.mem_singleton] at hd
      rcases hd with hd | rfl
      · exact ih _ d hd
      · omega

theorem natText_ne_newline (n : Nat) : ∀ c ∈ natText n, c ≠ newline := by
  intro c hc
  simp only [natText, digits, List.mem_map] at hc
  obtain ⟨d, hd, rfl⟩ := hc
  have := digitsAux_lt _ _ d hd
  have h : d = 0 ∨ d = 1 ∨ d = 2 ∨ d = 3 ∨ d = 4 ∨ d = 5 ∨ d = 6 ∨ d = 7 ∨ d = 8 ∨ d = 9 := by omega
  rcases h with rfl | rfl | rfl | rfl | rfl | rfl | rfl | rfl | rfl | rfl <;> decide

theorem intText_wf (i : Int) : newline ∉ intText i := by
  intro h
  cases i with
  | ofNat n => exact natText_ne_newline n _ h rfl
  | negSucc n =>
    simp only [intText, List.mem_cons] at h
    rcases h with h | h
    · exact absurd h (by decide)
    · exact natText_ne_newline _ _ h rfl

/-- what the decoder needs to undo the encoder's atoms -/
structure DecOK (cfg : DecCfg) : Prop where
  binint2 : cfg.oldBinint2 = false
  parseInt : ∀ i, cfg.parseInt (intText i) = some i

theorem atom_step {cfg : DecCfg} (hd : DecOK cfg) (ds : DecSt) (a : Atom) (hsz : a.sizeOK = true) :
    stepOp cfg ds (encAtom a) = push ds (.atom a) ∧ (encAtom a).wf := by
  cases a with
  | none => exact ⟨rfl, trivial⟩
  | bool b => cases b <;> exact ⟨rfl, trivial⟩
  | int i =>
    simp only [encAtom, encInt]
    split
    · exact ⟨by simp [stepOp, hd.parseInt], intText_wf i⟩
    · split
      · rename_i h1 h2
        refine ⟨?_, by simp only [Op.wf]; omega⟩
        simp only [stepOp]
        congr 3
        omega
      · split
        · rename_i h1 h2 h3
          refine ⟨?_, by simp only [Op.wf]; omega⟩
          simp only [stepOp, hd.binint2, Bool.false_eq_true, if_false]
          congr 3
          simp only [Int.ofNat_eq_natCast]
          omega
        · rename_i h1 h2 h3
          refine ⟨?_, by simp only [Op.wf]; omega⟩
          simp only [stepOp]
          congr 3
          simp only [Int.ofNat_eq_natCast]
          split <;> omega
  | float bits =>
    refine ⟨?_, by simp only [encAtom, Op.wf]; exact UInt64.toNat_lt bits⟩
    simp [encAtom, stepOp]
  | str s =>
    simp only [Atom.sizeOK, decide_eq_true_eq] at hsz
    simp only [encAtom, encStr]
    split
    · rename_i h; exact ⟨rfl, h⟩
    · exact ⟨rfl, hsz⟩
  | bytes s =>
    simp only [Atom.sizeOK, decide_eq_true_eq] at hsz
    simp only [encAtom, encBytes]
    split
    · rename_i h; exact ⟨rfl, h⟩
    · exact ⟨rfl, hsz⟩

/-! ### chunks -/

theorem chunks_flatten {α : Type} (n : Nat) (hn : 0 < n) : ∀ (fuel : Nat) (xs : List α), xs.length ≤ fuel →
    (chunks n fuel xs).flatten = xs := by
  intro fuel
  induction fuel with
  | zero => intro xs h; cases xs <;> simp_all [chunks]
  | succ fuel ih =>
    intro xs h
    cases xs with
    | nil => simp [chunks]
    | cons x xs =>
      simp only [chunks, List.flatten_cons]
      rw [ih _ (by simp only [List.length_drop, List.length_cons] at h ⊢; omega)]
      exact List.take_append_drop n (x :: xs)

theorem chunks_mem {α : Type} (n : Nat) : ∀ (fuel : Nat) (xs : List α), ∀ c ∈ chunks n fuel xs, ∀ x ∈ c, x ∈ xs := by
  intro fuel
  induction fuel with
  | zero => intro xs c hc; simp [chunks] at hc
  | succ fuel ih =>
    intro xs c hc x hx
    cases xs with
    | nil => simp [chunks] at hc
    | cons y ys =>
      simp only [chunks, List.mem_cons] at hc
      rcases hc with rfl | hc
      · exact List.mem_of_mem_take hx
      · exact List.mem_of_mem_drop (ih _ c hc x hx)

/-! ### building blocks for the cases of `encVal` -/

theorem Post.extend {g : Heap} {st st1 st2 : EncSt} {ds d1 d2 : DecSt} (p1 : Post g st st1 ds d1)
    (hs2 : Sim g st2 d2) (hn : st2.next = st1.next + 1)
    (hold : ∀ b, b < st1.next → d2.heap[b]? = d1.heap[b]?) (hnew : d2.heap[st1.next]? = g[st1.next]?) :
    Post g st st2 ds d2 := by
  refine ⟨hs2, by have := p1.mono; omega, ?_, ?_⟩
  · intro b hb
    rw [hold b (Nat.lt_of_lt_of_le hb p1.mono), p1.frame b hb]
  · intro b h1 h2
    by_cases hb : b < st1.next
    · rw [hold b hb, p1.fresh b h1 hb]
    · have : b = st1.next := by omega
      subst this; exact hnew

/-- a step that only pushes a value -/
theorem spec_push {cfg : DecCfg} {g : Heap} {st : EncSt} {ds : DecSt} (hs : Sim g st ds) (op : Op) (v : Val)
    (hstep : stepOp cfg ds op = push ds v) (hw : op.wf) (hv : v ≠ .mark) :
    ∃ ds', steps cfg ds [op] = some ds' ∧ ds'.stack = v :: ds.stack ∧ Post g st st ds ds' ∧ v ≠ .mark ∧
      ∀ o ∈ [op], o.wf := by
  have hc : Closed { ds with stack := v :: ds.stack } := by
    have := stepOp_good cfg ds hs.closed op
    rw [hstep] at this; exact this
  refine ⟨{ ds with stack := v :: ds.stack }, steps_one hstep, rfl,
    ⟨⟨hs.hlen, hs.mlen, hs.mem, hc, hs.agree, hs.memoLe, hs.nextLe⟩, Nat.le_refl _, fun _ _ => rfl,
      fun a h1 h2 => by omega⟩, hv, ?_⟩
  intro o ho; simp only [List.mem_singleton] at ho; subst ho; exact hw

/-- `Sim` after allocating the object that `g` has at the next address (stack and globals counter arbitrary) -/
theorem Sim.alloc {g : Heap} {st : EncSt} {ds : DecSt} (hs : Sim g st ds) (o o' : Obj) (hg : g[st.next]? = some o')
    (hsh : SameShape o o') (stk : List Val) (k : Nat)
    (hc : Closed { ds with stack := stk, heap := ds.heap ++ [o], nglobals := k }) :
    Sim g { st with next := st.next + 1 } { ds with stack := stk, heap := ds.heap ++ [o], nglobals := k } := by
  have hlt : st.next < g.length := by
    rcases Nat.lt_or_ge st.next g.length with h | h
    · exact h
    · simp [List.getElem?_eq_none h] at hg
  refine ⟨by simp [hs.hlen], hs.mlen, hs.mem, hc, ?_, by have := hs.memoLe; simp; omega, hlt⟩
  intro b ob hb
  simp only at hb
  by_cases hbl : b < ds.heap.length
  · rw [List.getElem?_append_left hbl] at hb
    exact hs.agree b ob hb
  · by_cases hbe : b = ds.heap.length
    · subst hbe
      simp only [List.getElem?_concat_length, Option.some.injEq] at hb
      subst hb
      exact ⟨o', by rw [hs.hlen]; exact hg, hsh⟩
    · have : (ds.heap ++ [o]).length ≤ b := by simp; omega
      rw [List.getElem?_eq_none this] at hb; cases hb

/-- `Sim` after allocating the object at the next address and memoising it -/
theorem Sim.allocMemo {g : Heap} {st : EncSt} {ds : DecSt} (hs : Sim g st ds) (o o' : Obj) (hg : g[st.next]? = some o')
    (hsh : SameShape o o') (stk : List Val) (k : Nat)
    (hc : Closed { stack := stk, memo := ds.memo ++ [.ref st.next], heap := ds.heap ++ [o], nglobals := k }) :
    Sim g { memo := (st.next, st.memo.length) :: st.memo, next := st.next + 1 }
      { stack := stk, memo := ds.memo ++ [.ref st.next], heap := ds.heap ++ [o], nglobals := k } := by
  have hc' : Closed { ds with stack := stk, heap := ds.heap ++ [o], nglobals := k } := ⟨hc.stack, fun v hv => hc.memo v (by simp [hv]), hc.heap⟩
  have h1 := hs.alloc o o' hg hsh stk k hc'
  refine ⟨h1.hlen, by simp [hs.mlen], ?_, hc, h1.agree, by have := hs.memoLe; simp; omega, h1.nextLe⟩
  intro b id hb
  by_cases hba : b = st.next
  · subst hba
    rw [lookup_cons_self] at hb
    cases hb
    simp [← hs.mlen]
  · rw [lookup_cons_ne _ _ _ _ hba] at hb
    have := hs.mem b id hb
    have hlt : id < ds.memo.length := by
      rcases Nat.lt_or_ge id ds.memo.length with h | h
      · exact h
      · simp [List.getElem?_eq_none h] at this
    simp [List.getElem?_append_left hlt, this]

/-! ### tuples -/

theorem Post.reheap {g : Heap} {st st1 : EncSt} {ds ds0 d1 : DecSt} (p : Post g st st1 ds0 d1) (h : ds0.heap = ds.heap) :
    Post g st st1 ds d1 := ⟨p.sim, p.mono, by rw [← h]; exact p.frame, p.fresh⟩

/-- after the elements are on the stack, allocating the tuple `g` has at the next address -/
theorem tuple_finish {cfg : DecCfg} {g : Heap} {st st1 : EncSt} {ds d1 : DecSt} (p1 : Post g st st1 ds d1) (xs : List Val)
    (hga : g[st1.next]? = some (.tuple xs)) (op : Op) (below : List Val)
    (hstep : stepOp cfg d1 op = alloc d1 (.tuple xs) below) :
    ∃ d2, steps cfg d1 [op] = some d2 ∧ d2.stack = .ref st1.next :: below ∧
      Post g st { st1 with next := st1.next + 1 } ds d2 := by
  have hc : Closed { d1 with stack := .ref d1.heap.length :: below, heap := d1.heap ++ [.tuple xs] } := by
    have := stepOp_good cfg d1 p1.sim.closed op
    rw [hstep] at this; exact this
  have hl := p1.sim.hlen
  refine ⟨_, steps_one hstep, by simp [hl], ?_⟩
  have hs2 := p1.sim.alloc (.tuple xs) (.tuple xs) hga (SameShape.refl _) (.ref d1.heap.length :: below) d1.nglobals hc
  refine p1.extend hs2 rfl ?_ ?_
  · intro b hb
    have : b < d1.heap.length := by omega
    simp [List.getElem?_append_left this]
  · simp [← hl, hl ▸ hga]

theorem encVal_tuple {cfg : DecCfg} {g : Heap} {f} (hf : ValSpec cfg g f) (xs : List Val)
    (hsz : ∀ x ∈ xs, x.sizeOK = true) (st st1 : EncSt) (ops1 : List Op) (ds : DecSt)
    (h1 : encSeq f st xs = some (st1, ops1)) (hga : g[st1.next]? = some (.tuple xs)) (hs : Sim g st ds) :
    ∃ ds', steps cfg ds (match xs.length with
        | 0 => [.emptyTuple] | 1 => ops1 ++ [.tuple1] | 2 => ops1 ++ [.tuple2] | 3 => ops1 ++ [.tuple3]
        | _ => [.mark] ++ ops1 ++ [.tuple]) = some ds' ∧
      ds'.stack = .ref st1.next :: ds.stack ∧ Post g st { st1 with next := st1.next + 1 } ds ds' ∧
      ∀ op ∈ (match xs.length with
        | 0 => [Op.emptyTuple] | 1 => ops1 ++ [Op.tuple1] | 2 => ops1 ++ [Op.tuple2] | 3 => ops1 ++ [Op.tuple3]
        | _ => [Op.mark] ++ ops1 ++ [Op.tuple]), op.wf := by
  have wfall : ∀ (l : List Op) (o1 o2 : Op), (∀ o ∈ l, o.wf) → o1.wf → o2.wf → ∀ o ∈ [o1] ++ l ++ [o2], o.wf := by
    intro l o1 o2 hl h1 h2 o ho
    simp only [List.mem_append, List.mem_singleton] at ho
    rcases ho with (rfl | ho) | rfl
    · exact h1
    · exact hl o ho
    · exact h2
  rcases xs with _ | ⟨x, _ | ⟨y, _ | ⟨z, _ | ⟨w, t⟩⟩⟩⟩
  · -- ()
    simp only [encSeq, Option.some.injEq, Prod.mk.injEq] at h1
    obtain ⟨rfl, rfl⟩ := h1
    obtain ⟨d2, r2, s2, p2⟩ := tuple_finish (cfg := cfg) (Post.refl g hs) [] hga .emptyTuple ds.stack (by simp [stepOp])
    exact ⟨d2, by simpa using r2, s2, p2, by simp [Op.wf]⟩
  · obtain ⟨d1, r1, s1, p1, _, w1⟩ := encSeq_spec hf _ st st1 ops1 ds h1 hs hsz
    obtain ⟨d2, r2, s2, p2⟩ := tuple_finish (cfg := cfg) p1 [x] hga .tuple1 ds.stack (by simp [stepOp, s1])
    refine ⟨d2, by simp [steps_append, r1, r2], s2, p2, ?_⟩
    exact fun op hop => wfall ops1 .tuple1 .tuple1 w1 trivial trivial op (by simp only [List.length_cons, List.length_nil] at hop; simp only [List.mem_append, List.mem_singleton] at hop ⊢; rcases hop with h | h; exact Or.inl (Or.inr h); exact Or.inr h)
  · obtain ⟨d1, r1, s1, p1, _, w1⟩ := encSeq_spec hf _ st st1 ops1 ds h1 hs hsz
    obtain ⟨d2, r2, s2, p2⟩ := tuple_finish (cfg := cfg) p1 [x, y] hga .tuple2 ds.stack (by simp [stepOp, s1])
    refine ⟨d2, by simp [steps_append, r1, r2], s2, p2, ?_⟩
    exact fun op hop => wfall ops1 .tuple2 .tuple2 w1 trivial trivial op (by simp only [List.length_cons, List.length_nil] at hop; simp only [List.mem_append, List.mem_singleton] at hop ⊢; rcases hop with h | h; exact Or.inl (Or.inr h); exact Or.inr h)
  · obtain ⟨d1, r1, s1, p1, _, w1⟩ := encSeq_spec hf _ st st1 ops1 ds h1 hs hsz
    obtain ⟨d2, r2, s2, p2⟩ := tuple_finish (cfg := cfg) p1 [x, y, z] hga .tuple3 ds.stack (by simp [stepOp, s1])
    refine ⟨d2, by simp [steps_append, r1, r2], s2, p2, ?_⟩
    exact fun op hop => wfall ops1 .tuple3 .tuple3 w1 trivial trivial op (by simp only [List.length_cons, List.length_nil] at hop; simp only [List.mem_append, List.mem_singleton] at hop ⊢; rcases hop with h | h; exact Or.inl (Or.inr h); exact Or.inr h)
  · -- 4 or more: MARK … TUPLE
    let d0 : DecSt := { ds with stack := .mark :: ds.stack }
    have r0 : steps cfg ds [.mark] = some d0 := steps_one (by simp [stepOp, push, d0])
    have hs0 : Sim g st d0 := hs.restack _ (by
      intro v hv
      simp only [List.mem_cons] at hv
      rcases hv with rfl | hv
      · trivial
      · exact hs.closed.stack v hv)
    obtain ⟨d1, r1, s1, p1, nm1, w1⟩ := encSeq_spec hf _ st st1 ops1 d0 h1 hs0 hsz
    have hsp : splitMark d1.stack = some ((x :: y :: z :: w :: t).reverse, ds.stack) := by
      rw [s1]; exact splitMark_append _ _ (fun v hv => nm1 v (List.mem_reverse.mp hv))
    obtain ⟨d2, r2, s2, p2⟩ := tuple_finish (cfg := cfg) (p1.reheap (ds := ds) rfl) (x :: y :: z :: w :: t) hga .tuple ds.stack
      (by simp only [stepOp, hsp, List.reverse_reverse])
    refine ⟨d2, ?_, s2, p2, ?_⟩
    · simp only [List.length_cons]
      rw [steps_append, steps_append, r0]
      simp only [Option.bind_some]
      rw [r1]
      simpa using r2
    · simpa using wfall ops1 .mark .tuple w1 trivial trivial

/-! ### containers: EMPTY_x MEMOIZE … -/

theorem container_open {cfg : DecCfg} {g : Heap} {st : EncSt} {ds : DecSt} (hs : Sim g st ds) (o0 o' : Obj)
    (hg : g[st.next]? = some o') (hsh : SameShape o0 o') (op : Op) (hstep : stepOp cfg ds op = alloc ds o0 ds.stack) :
    steps cfg ds [op, .memoize] =
        some { stack := .ref st.next :: ds.stack, memo := ds.memo ++ [.ref st.next], heap := ds.heap ++ [o0], nglobals := ds.nglobals } ∧
      Sim g { memo := (st.next, st.memo.length) :: st.memo, next := st.next + 1 }
        { stack := .ref st.next :: ds.stack, memo := ds.memo ++ [.ref st.next], heap := ds.heap ++ [o0], nglobals := ds.nglobals } := by
  have r : steps cfg ds [op, .memoize] =
      some { stack := .ref st.next :: ds.stack, memo := ds.memo ++ [.ref st.next], heap := ds.heap ++ [o0], nglobals := ds.nglobals } := by
    simp only [steps]
    rw [hstep]
    simp [alloc, stepOp, hs.hlen]
  exact ⟨r, hs.allocMemo o0 o' hg hsh _ _ (steps_closed cfg _ _ _ hs.closed r)⟩

/-- from the facts the batch loop gives about the filled container to `Post` -/
theorem container_post {g : Heap} {st st' : EncSt} {ds d0 d' : DecSt} (hs' : Sim g st' d') (o0 : Obj)
    (hd0 : d0.heap = ds.heap ++ [o0]) (hlen : ds.heap.length = st.next) (hmono : st.next + 1 ≤ st'.next)
    (hself : d'.heap[st.next]? = g[st.next]?)
    (hframe : ∀ b, b < st.next + 1 → b ≠ st.next → d'.heap[b]? = d0.heap[b]?)
    (hfresh : ∀ b, st.next + 1 ≤ b → b < st'.next → d'.heap[b]? = g[b]?) : Post g st st' ds d' := by
  refine ⟨hs', by omega, ?_, ?_⟩
  · intro b hb
    rw [hframe b (by omega) (by omega), hd0, List.getElem?_append_left (by omega)]
  · intro b h1 h2
    by_cases hb : b = st.next
    · subst hb; exact hself
    · exact hfresh b (by omega) h2

theorem Sim.setObj {g : Heap} {st : EncSt} {ds : DecSt} (hs : Sim g st ds) (a : Nat) (o2 : Obj) (stk : List Val)
    (hsh : ∃ o', g[a]? = some o' ∧ SameShape o2 o') (halt : a < ds.heap.length)
    (hc : Closed { ds with stack := stk, heap := ds.heap.set a o2 }) :
    Sim g st { ds with stack := stk, heap := ds.heap.set a o2 } := by
  refine ⟨by simp [hs.hlen], hs.mlen, hs.mem, hc, ?_, hs.memoLe, hs.nextLe⟩
  intro c o hco
  simp only at hco
  by_cases hca : c = a
  · subst hca
    rw [List.getElem?_set_self halt] at hco
    cases hco
    exact hsh
  · rw [List.getElem?_set_ne (Ne.symm hca)] at hco
    exact hs.agree c o hco

/-! ### lists -/

section
variable {cfg : DecCfg} {g : Heap} {f : EncSt → Val → Option (EncSt × List Op)}

/-- the conclusion of `ValSpec` for the reference `a` -/
def RefSpec (cfg : DecCfg) (g : Heap) (st st' : EncSt) (ops : List Op) (ds : DecSt) (a : Nat) : Prop :=
  ∃ ds', steps cfg ds ops = some ds' ∧ ds'.stack = .ref a :: ds.stack ∧ Post g st st' ds ds' ∧ ∀ op ∈ ops, op.wf

theorem wf_two (o1 o2 : Op) (h1 : o1.wf) (h2 : o2.wf) (l : List Op) (hl : ∀ o ∈ l, o.wf) : ∀ o ∈ [o1, o2] ++ l, o.wf := by
  intro o ho
  simp only [List.cons_append, List.nil_append, List.mem_cons] at ho
  rcases ho with rfl | rfl | ho
  · exact h1
  · exact h2
  · exact hl o ho

theorem list_empty {st : EncSt} {ds : DecSt} (hs : Sim g st ds) (hga : g[st.next]? = some (.list [])) :
    RefSpec cfg g st { memo := (st.next, st.memo.length) :: st.memo, next := st.next + 1 } [.emptyList, .memoize] ds st.next := by
  obtain ⟨r0, sim0⟩ := container_open (cfg := cfg) hs (.list []) _ hga trivial .emptyList (by simp [stepOp])
  refine ⟨_, r0, rfl, ?_, by simpa using wf_two .emptyList .memoize trivial trivial [] (by simp)⟩
  refine container_post sim0 (.list []) (d0 := { stack := .ref st.next :: ds.stack, memo := ds.memo ++ [.ref st.next], heap := ds.heap ++ [.list []], nglobals := ds.nglobals }) rfl hs.hlen (Nat.le_refl _) ?_ (fun _ _ _ => rfl) (fun b h1 h2 => by simp at h2; omega)
  simp [← hs.hlen, hs.hlen ▸ hga]

theorem list_one (hf : ValSpec cfg g f) {st st' : EncSt} {ds : DecSt} (hs : Sim g st ds) (x : Val) (hx : x.sizeOK = true)
    (hga : g[st.next]? = some (.list [x])) (ops1 : List Op)
    (h1 : f { memo := (st.next, st.memo.length) :: st.memo, next := st.next + 1 } x = some (st', ops1)) :
    RefSpec cfg g st st' ([.emptyList, .memoize] ++ ops1 ++ [.append]) ds st.next := by
  obtain ⟨r0, sim0⟩ := container_open (cfg := cfg) hs (.list []) _ hga trivial .emptyList (by simp [stepOp])
  obtain ⟨d1, r1, s1, p1, _, w1⟩ := hf _ x st' ops1 _ h1 sim0 hx
  have ha0 : st.next < st.next + 1 := Nat.lt_succ_self _
  have hget : d1.heap[st.next]? = some (.list []) := by
    rw [p1.frame st.next ha0]; simp [← hs.hlen]
  have halt : st.next < d1.heap.length := by rw [p1.sim.hlen]; have := p1.mono; simp at this; omega
  have hstep : stepOp cfg d1 .append = .cont { d1 with stack := .ref st.next :: ds.stack, heap := d1.heap.set st.next (.list ([] ++ [x])) } := by
    simp [stepOp, s1, hget]
  have hc2 := stepOp_good cfg d1 p1.sim.closed .append
  rw [hstep] at hc2
  have sim2 := p1.sim.setObj st.next (.list ([] ++ [x])) (.ref st.next :: ds.stack) ⟨_, hga, trivial⟩ halt hc2
  refine ⟨{ d1 with stack := .ref st.next :: ds.stack, heap := d1.heap.set st.next (.list ([] ++ [x])) }, ?_, rfl, ?_, ?_⟩
  · rw [List.append_assoc, steps_append, r0]
    simp only [Option.bind_some]
    rw [steps_append, r1]
    simp only [Option.bind_some]
    exact steps_one hstep
  · refine container_post sim2 (.list []) (d0 := { stack := .ref st.next :: ds.stack, memo := ds.memo ++ [.ref st.next], heap := ds.heap ++ [.list []], nglobals := ds.nglobals }) rfl hs.hlen (by have := p1.mono; simpa using this) ?_ ?_ ?_
    · simp [halt, hga]
    · intro b hb hne
      simp only
      rw [List.getElem?_set_ne (Ne.symm hne), p1.frame b hb]
    · intro b h1b h2b
      simp only
      rw [List.getElem?_set_ne (by omega), p1.fresh b h1b h2b]
  · intro o ho
    simp only [List.mem_append, List.mem_cons, List.not_mem_nil, or_false] at ho
    rcases ho with ((rfl | rfl) | ho) | rfl
    · trivial
    · trivial
    · exact w1 o ho
    · trivial

/-- EMPTY_x MEMOIZE followed by the batch loop rebuilds the container `g` has at the next address -/
theorem container_many (hf : ValSpec cfg g f) {α : Type} (flat : List α → List Val) (close self emptyOp : Op)
    (hcw : close.wf) (hew : emptyOp.wf) (objAfter : List α → Obj) (all : List α)
    {st st' : EncSt} {ds : DecSt} (hs : Sim g st ds) (hga : g[st.next]? = some (objAfter all))
    (hshape : ∀ es, SameShape (objAfter es) (objAfter all))
    (hopen : ∀ ds, stepOp cfg ds emptyOp = alloc ds (objAfter []) ds.stack)
    (hstep : ∀ (h : Heap) (done b : List α), Agree g h → (∀ o ∈ h, o.closed h.length) →
      (∀ x ∈ flat b, x.closed h.length) → (objAfter done).closed h.length → (∃ tail, done ++ b ++ tail = all) →
      applyClose close h (objAfter done) (flat b) = some (objAfter (done ++ b)))
    (chunks : List (List α)) (hch : chunks.flatten = all) (hsz : ∀ c ∈ chunks, ∀ x ∈ flat c, x.sizeOK = true)
    (ops1 : List Op)
    (h : encBatches f false self close true { memo := (st.next, st.memo.length) :: st.memo, next := st.next + 1 }
      (chunks.map flat) = some (st', ops1)) :
    RefSpec cfg g st st' ([emptyOp, .memoize] ++ ops1) ds st.next := by
  obtain ⟨r0, sim0⟩ := container_open (cfg := cfg) hs (objAfter []) _ hga (hshape []) emptyOp (hopen ds)
  obtain ⟨d', r1, s1, sim1, mono1, hself, fr1, fresh1, w1⟩ :=
    encBatches_spec hf flat close self hcw objAfter st.next ds.stack all (fun es => ⟨_, hga, hshape es⟩) hstep
      chunks [] true _ st' ops1 _ h sim0 (Nat.lt_succ_self _) rfl (by simp [← hs.hlen]) (by simpa using hch) hsz
  refine ⟨d', ?_, s1, ?_, wf_two emptyOp .memoize hew trivial ops1 w1⟩
  · rw [steps_append, r0]; exact r1
  · exact container_post sim1 (objAfter []) (d0 := { stack := .ref st.next :: ds.stack, memo := ds.memo ++ [.ref st.next], heap := ds.heap ++ [objAfter []], nglobals := ds.nglobals }) rfl hs.hlen mono1 (by rw [hself, hga]) fr1 fresh1

/-! ### what the closing op does, per container kind -/

theorem flattenPairs_length (kb : List (Val × Val)) : (flattenPairs kb).length = 2 * kb.length := by
  induction kb with
  | nil => rfl
  | cons p kb ih => simp only [flattenPairs, List.flatMap_cons, List.length_append, List.length_cons, List.length_nil] at ih ⊢; omega

theorem mem_flattenPairs_fst (kb : List (Val × Val)) : ∀ p ∈ kb, p.1 ∈ flattenPairs kb ∧ p.2 ∈ flattenPairs kb := by
  intro p hp
  simp only [flattenPairs, List.mem_flatMap]
  exact ⟨⟨p, hp, by simp⟩, ⟨p, hp, by simp⟩⟩

theorem keyFuel_le {h : Heap} {k : Val} (hk : k.closed h.length) : keyFuel k ≤ h.length + 1 := by
  cases k <;> simp only [keyFuel, Val.closed] at * <;> omega

/-- the keys of a prefix of a well-keyed container are hashable and pairwise different in any heap that agrees with `g` -/
theorem keys_transport {h : Heap} (ha : Agree g h) (hcl : ∀ o ∈ h, o.closed h.length) (allKeys ks tail : List Val)
    (hok : keysOK g allKeys = true) (hpre : ks ++ tail = allKeys) (hc : ∀ k ∈ ks, k.closed h.length) :
    Distinct h ks ∧ ∀ k ∈ ks, hashable h (h.length + 1) k = true := by
  simp only [keysOK, Bool.and_eq_true, List.all_eq_true] at hok
  obtain ⟨hhash, hdist⟩ := hok
  rw [distinctKeys_iff] at hdist
  subst hpre
  constructor
  · have hd : Distinct g ks := (List.pairwise_append.mp hdist).1
    refine List.Pairwise.imp_of_mem ?_ hd
    intro k0 k hk0 hk hr
    rw [keyCmp_agree ha hcl 10 k k0 (hc k hk) (hc k0 hk0)]; exact hr
  · intro k hk
    have h1 := hhash k (by simp [hk])
    rw [← hashable_agree ha hcl _ k (hc k hk)] at h1
    exact hashable_mono h _ _ k (keyFuel_le (hc k hk)) h1

theorem close_list (h : Heap) (done b : List Val) : applyClose .appends h (.list done) (id b) = some (.list (done ++ b)) := rfl

theorem close_dict {h : Heap} (ha : Agree g h) (hcl : ∀ o ∈ h, o.closed h.length) (all done b : List (Val × Val))
    (hok : keysOK g (all.map (·.1)) = true) (hb : ∀ x ∈ flattenPairs b, x.closed h.length)
    (hdone : (Obj.dict done).closed h.length) (hpre : ∃ tail, done ++ b ++ tail = all) :
    applyClose .setitems h (.dict done) (flattenPairs b) = some (.dict (done ++ b)) := by
  obtain ⟨tail, hpre⟩ := hpre
  have hc : ∀ k ∈ (done ++ b).map (·.1), k.closed h.length := by
    intro k hk
    simp only [List.map_append, List.mem_append, List.mem_map] at hk
    rcases hk with ⟨p, hp, rfl⟩ | ⟨p, hp, rfl⟩
    · exact (hdone p hp).1
    · exact hb _ (mem_flattenPairs_fst b p hp).1
  obtain ⟨hd, hh⟩ := keys_transport ha hcl (all.map (·.1)) ((done ++ b).map (·.1)) (tail.map (·.1)) hok
    (by rw [← hpre]; simp) hc
  simp only [applyClose, flattenPairs_length, Nat.mul_mod_right, ne_eq, not_true_eq_false, if_false]
  rw [dictInsertAll_flatten]
  rw [foldl_insert_fresh h (fun a p => dictInsert h a p.1 p.2) (·.1)
    (fun acc e hh hf => dictInsert_fresh h acc e.1 e.2 hh (fun p hp => hf p hp)) b done hd
    (fun e he => hh e.1 (by simp only [List.map_append, List.mem_append, List.mem_map]; exact Or.inr ⟨e, he, rfl⟩))]

theorem close_set {h : Heap} (ha : Agree g h) (hcl : ∀ o ∈ h, o.closed h.length) (all done b : List Val)
    (hok : keysOK g all = true) (hb : ∀ x ∈ b, x.closed h.length)
    (hdone : (Obj.set done).closed h.length) (hpre : ∃ tail, done ++ b ++ tail = all) :
    applyClose .additems h (.set done) (id b) = some (.set (done ++ b)) := by
  obtain ⟨tail, hpre⟩ := hpre
  have hc : ∀ k ∈ done ++ b, k.closed h.length := by
    intro k hk
    simp only [List.mem_append] at hk
    rcases hk with hk | hk
    · exact hdone k hk
    · exact hb k hk
  obtain ⟨hd, hh⟩ := keys_transport ha hcl all (done ++ b) tail hok hpre hc
  simp only [applyClose, setInsertAll, id]
  rw [foldl_insert_fresh h (setInsert h) id (fun acc e hh hf => setInsert_fresh h acc e hh hf) b done
    (by simpa using hd) (fun e he => hh e (by simp [he]))]

/-! ### host objects: module name STACK_GLOBAL args NEWOBJ MEMOIZE -/

theorem encStr_step (ds : DecSt) (m : Bytes) (hm : m.length < 4294967296) :
    stepOp cfg ds (encStr m) = push ds (.atom (.str m)) ∧ (encStr m).wf := by
  simp only [encStr]
  split
  · rename_i h; exact ⟨rfl, h⟩
  · exact ⟨rfl, hm⟩

theorem host_case (hf : ValSpec cfg g f) {st st1 : EncSt} {ds : DecSt} (hs : Sim g st ds) (m n : Bytes) (t : Nat)
    (xs : List Val) (hgt : g[t]? = some (.tuple xs)) (ops1 : List Op) (h1 : f st (.ref t) = some (st1, ops1))
    (hga : g[st1.next]? = some (.host m n (.ref t)))
    (hhost : ∃ fh, cfg.host = some fh ∧ ∀ h b ys, fh h b m n ys = .construct)
    (hm : m.length < 4294967296) (hn : n.length < 4294967296) :
    RefSpec cfg g st { memo := (st1.next, st1.memo.length) :: st1.memo, next := st1.next + 1 }
      ([encStr m, encStr n, .stackGlobal] ++ ops1 ++ [.newobj, .memoize]) ds st1.next := by
  obtain ⟨fh, hfh, hacc⟩ := hhost
  obtain ⟨em, wm⟩ := encStr_step (cfg := cfg) ds m hm
  obtain ⟨en, wn⟩ := encStr_step (cfg := cfg) { ds with stack := .atom (.str m) :: ds.stack } n hn
  let d0 : DecSt := { ds with stack := .global ds.nglobals m n :: ds.stack, nglobals := ds.nglobals + 1 }
  have r0 : steps cfg ds [encStr m, encStr n, .stackGlobal] = some d0 := by
    simp only [steps]
    rw [em]; simp only [push]
    rw [en]; simp only [push]
    simp [stepOp, d0]
  have hc0 : Closed d0 := steps_closed cfg _ _ _ hs.closed r0
  have sim0 : Sim g st d0 := ⟨hs.hlen, hs.mlen, hs.mem, hc0, hs.agree, hs.memoLe, hs.nextLe⟩
  obtain ⟨d1, r1, s1, p1, _, w1⟩ := hf st (.ref t) st1 ops1 d0 h1 sim0 rfl
  -- the args tuple is there
  have htl : t < d1.heap.length := p1.sim.closed.stack (.ref t) (by rw [s1]; simp)
  obtain ⟨o, o', ho, ho', hsh⟩ := agree_get p1.sim.agree htl
  rw [hgt] at ho'; cases ho'
  have hot : o = .tuple xs := by cases o <;> simp only [SameShape] at hsh; subst hsh; rfl
  subst hot
  have hstep : stepOp cfg d1 .newobj = alloc d1 (.host m n (.ref t)) ds.stack := by
    simp [stepOp, s1, d0, ho, hfh, hacc]
  have r2 : steps cfg d1 [.newobj, .memoize] =
      some { stack := .ref st1.next :: ds.stack, memo := d1.memo ++ [.ref st1.next], heap := d1.heap ++ [.host m n (.ref t)], nglobals := d1.nglobals } := by
    simp only [steps]
    rw [hstep]
    simp [alloc, stepOp, p1.sim.hlen]
  have hc2 := steps_closed cfg _ _ _ p1.sim.closed r2
  have sim2 := p1.sim.allocMemo (.host m n (.ref t)) _ hga (SameShape.refl _) (.ref st1.next :: ds.stack) d1.nglobals hc2
  refine ⟨{ stack := .ref st1.next :: ds.stack, memo := d1.memo ++ [.ref st1.next], heap := d1.heap ++ [.host m n (.ref t)], nglobals := d1.nglobals }, ?_, rfl, ?_, ?_⟩
  · rw [steps_append, steps_append, r0]
    simp only [Option.bind_some]
    rw [r1]
    exact r2
  · refine (p1.reheap (ds := ds) rfl).extend sim2 rfl ?_ ?_
    · intro b hb
      have : b < d1.heap.length := by rw [p1.sim.hlen]; exact hb
      simp [List.getElem?_append_left this]
    · simp [← p1.sim.hlen, p1.sim.hlen ▸ hga]
  · intro o ho
    simp only [List.mem_append, List.mem_cons, List.not_mem_nil, or_false] at ho
    rcases ho with ((rfl | rfl | rfl) | ho) | rfl | rfl
    · exact wm
    · exact wn
    · trivial
    · exact w1 o ho
    · trivial
    · trivial

end

/-! ### the value encoder meets its specification -/

structure GraphOK (cfg : DecCfg) (g : Heap) : Prop where
  dec : DecOK cfg
  host : ∀ (a : Nat) m n args, g[a]? = some (.host m n args) → ∃ fh, cfg.host = some fh ∧ ∀ h b ys, fh h b m n ys = .construct
  keys : g.keysOK = true
  sizes : ∀ o ∈ g, o.sizeOK = true
  small : g.length < 4294967296

theorem RefSpec.toSpec {cfg : DecCfg} {g : Heap} {st st' : EncSt} {ops : List Op} {ds : DecSt} {a : Nat}
    (h : RefSpec cfg g st st' ops ds a) :
    ∃ ds', steps cfg ds ops = some ds' ∧ ds'.stack = .ref a :: ds.stack ∧ Post g st st' ds ds' ∧ Val.ref a ≠ .mark ∧
      ∀ op ∈ ops, op.wf := by
  obtain ⟨d, r, s, p, w⟩ := h
  exact ⟨d, r, s, p, by simp, w⟩

theorem encGet_step {cfg : DecCfg} (ds : DecSt) (id : Nat) (v : Val) (h : ds.memo[id]? = some v) (hid : id < 4294967296) :
    stepOp cfg ds (encGet id) = push ds v ∧ (encGet id).wf := by
  simp only [encGet]
  split
  · rename_i hlt; exact ⟨by simp [stepOp, h], hlt⟩
  · exact ⟨by simp [stepOp, h], hid⟩

theorem encVal_ref {cfg : DecCfg} {g : Heap} (cfgE : EncCfg) (hre : cfgE.rebatch = false) (hG : GraphOK cfg g) (fuel : Nat)
    (ih : ValSpec cfg g (encVal cfgE g fuel)) (a : Nat) (st st' : EncSt) (ops : List Op) (ds : DecSt)
    (h : encVal cfgE g (fuel + 1) st (.ref a) = some (st', ops)) (hs : Sim g st ds) :
    RefSpec cfg g st st' ops ds a := by
  simp only [encVal] at h
  split at h
  · -- memo hit
    rename_i id hid
    simp only [Option.some.injEq, Prod.mk.injEq] at h; obtain ⟨rfl, rfl⟩ := h
    have hm := hs.mem a id hid
    have hlt : id < ds.memo.length := by
      rcases Nat.lt_or_ge id ds.memo.length with h | h
      · exact h
      · simp [List.getElem?_eq_none h] at hm
    have hid32 : id < 4294967296 := by
      have := hs.mlen; have := hs.memoLe; have := hs.nextLe; have := hG.small; omega
    obtain ⟨hstep, hw⟩ := encGet_step (cfg := cfg) ds id _ hm hid32
    obtain ⟨d, r, s, p, _, w⟩ := spec_push (g := g) hs (encGet id) (.ref a) hstep hw (by simp)
    exact ⟨d, r, s, p, w⟩
  · split at h
    · cases h
    · -- tuple
      rename_i xs hga
      have hsz : ∀ x ∈ xs, x.sizeOK = true := by
        have := hG.sizes _ (List.mem_of_getElem? hga)
        simpa [Obj.sizeOK] using this
      split at h
      · cases h
      · rename_i st1 ops1 h1
        split at h
        · rename_i haeq
          simp only [Option.some.injEq, Prod.mk.injEq] at h; obtain ⟨rfl, rfl⟩ := h
          subst haeq
          obtain ⟨d, r, s, p, w⟩ := encVal_tuple ih xs hsz st st1 ops1 ds h1 hga hs
          exact ⟨d, r, s, p, w⟩
        · cases h
    · -- list
      rename_i xs hga
      have hsz : ∀ x ∈ xs, x.sizeOK = true := by
        have := hG.sizes _ (List.mem_of_getElem? hga)
        simpa [Obj.sizeOK] using this
      split at h
      · rename_i haeq
        subst haeq
        simp only [hre] at h
        split at h
        · simp only [Option.some.injEq, Prod.mk.injEq] at h; obtain ⟨rfl, rfl⟩ := h
          exact list_empty hs hga
        · rename_i x
          split at h
          · cases h
          · rename_i st1 ops1 h1
            simp only [Option.some.injEq, Prod.mk.injEq] at h; obtain ⟨rfl, rfl⟩ := h
            exact list_one ih hs x (hsz x (by simp)) hga ops1 h1
        · split at h
          · cases h
          · rename_i st1 ops1 h1
            simp only [Option.some.injEq, Prod.mk.injEq] at h; obtain ⟨rfl, rfl⟩ := h
            refine container_many ih id .appends (encGet st.memo.length) .emptyList trivial trivial .list xs hs hga
              (fun _ => trivial) (fun ds => by simp [stepOp])
              (fun h done b _ _ _ _ _ => close_list h done b)
              (chunks batchSize xs.length xs) (chunks_flatten batchSize (by decide) _ _ (Nat.le_refl _))
              (fun c hc x hx => hsz x (chunks_mem _ _ _ c hc x hx)) ops1 (by simpa using h1)
      · cases h
    · -- dict
      rename_i kvs hga
      have hmem := List.mem_of_getElem? hga
      have hsz : ∀ p ∈ kvs, p.1.sizeOK = true ∧ p.2.sizeOK = true := by
        have := hG.sizes _ hmem
        simpa [Obj.sizeOK] using this
      have hok : keysOK g (kvs.map (·.1)) = true := by
        have := hG.keys
        simp only [Heap.keysOK, List.all_eq_true] at this
        exact this _ hmem
      split at h
      · rename_i haeq
        subst haeq
        simp only [hre] at h
        split at h
        · cases h
        · rename_i st1 ops1 h1
          simp only [Option.some.injEq, Prod.mk.injEq] at h; obtain ⟨rfl, rfl⟩ := h
          refine container_many ih flattenPairs .setitems (encGet st.memo.length) .emptyDict trivial trivial .dict kvs hs hga
            (fun _ => trivial) (fun ds => by simp [stepOp])
            (fun h done b ha hcl hb hd hpre => close_dict ha hcl kvs done b hok hb hd hpre)
            (chunks batchSize kvs.length kvs) (chunks_flatten batchSize (by decide) _ _ (Nat.le_refl _))
            ?_ ops1 h1
          intro c hc x hx
          simp only [flattenPairs, List.mem_flatMap] at hx
          obtain ⟨p, hp, hx⟩ := hx
          have := hsz p (chunks_mem _ _ _ c hc p hp)
          simp only [List.mem_cons, List.not_mem_nil, or_false] at hx
          rcases hx with rfl | rfl
          · exact this.1
          · exact this.2
      · cases h
    · -- set
      rename_i xs hga
      have hmem := List.mem_of_getElem? hga
      have hsz : ∀ x ∈ xs, x.sizeOK = true := by
        have := hG.sizes _ hmem
        simpa [Obj.sizeOK] using this
      have hok : keysOK g xs = true := by
        have := hG.keys
        simp only [Heap.keysOK, List.all_eq_true] at this
        exact this _ hmem
      split at h
      · rename_i haeq
        subst haeq
        simp only [hre] at h
        split at h
        · cases h
        · rename_i st1 ops1 h1
          simp only [Option.some.injEq, Prod.mk.injEq] at h; obtain ⟨rfl, rfl⟩ := h
          exact container_many ih id .additems (encGet st.memo.length) .emptySet trivial trivial .set xs hs hga
            (fun _ => trivial) (fun ds => by simp [stepOp])
            (fun h done b ha hcl hb hd hpre => close_set ha hcl xs done b hok hb hd hpre)
            (chunks batchSize xs.length xs) (chunks_flatten batchSize (by decide) _ _ (Nat.le_refl _))
            (fun c hc x hx => hsz x (chunks_mem _ _ _ c hc x hx)) ops1 (by simpa using h1)
      · cases h
    · -- host object
      rename_i m n args hga
      have hmem := List.mem_of_getElem? hga
      have hszo := hG.sizes _ hmem
      simp only [Obj.sizeOK, Bool.and_eq_true, decide_eq_true_eq] at hszo
      split at h
      · cases h
      · split at h
        · rename_i t
          split at h
          · rename_i xs hgt
            split at h
            · cases h
            · rename_i st1 ops1 h1
              split at h
              · rename_i haeq
                simp only [Option.some.injEq, Prod.mk.injEq] at h; obtain ⟨rfl, rfl⟩ := h
                subst haeq
                exact host_case ih hs m n t xs hgt ops1 h1 hga (hG.host _ m n _ hga) hszo.1.1 hszo.1.2
              · cases h
          · cases h
        · cases h

theorem encVal_spec {cfg : DecCfg} {g : Heap} (cfgE : EncCfg) (hre : cfgE.rebatch = false) (hG : GraphOK cfg g) :
    ∀ fuel, ValSpec cfg g (encVal cfgE g fuel) := by
  have hatom : ∀ fuel st a st' ops ds, encVal cfgE g fuel st (.atom a) = some (st', ops) → Sim g st ds → (Val.atom a).sizeOK = true →
      ∃ ds', steps cfg ds ops = some ds' ∧ ds'.stack = .atom a :: ds.stack ∧ Post g st st' ds ds' ∧ Val.atom a ≠ .mark ∧
        ∀ op ∈ ops, op.wf := by
    intro fuel st a st' ops ds h hs hsz
    have : st' = st ∧ ops = [encAtom a] := by
      cases fuel <;> simp only [encVal, Option.some.injEq, Prod.mk.injEq] at h <;> exact ⟨h.1.symm, h.2.symm⟩
    obtain ⟨rfl, rfl⟩ := this
    obtain ⟨hstep, hw⟩ := atom_step hG.dec ds a hsz
    exact spec_push hs (encAtom a) (.atom a) hstep hw (by simp)
  intro fuel
  induction fuel with
  | zero =>
    intro st v st' ops ds h hs hsz
    cases v with
    | atom a => exact hatom 0 st a st' ops ds h hs hsz
    | mark => simp [encVal] at h
    | global i m n => simp [encVal] at h
    | ref a => simp [encVal] at h
  | succ fuel ih =>
    intro st v st' ops ds h hs hsz
    cases v with
    | atom a => exact hatom _ st a st' ops ds h hs hsz
    | mark => simp [encVal] at h
    | global i m n => simp [encVal] at h
    | ref a => exact (encVal_ref cfgE hre hG fuel ih a st st' ops ds h hs).toSpec

end Dawn.Pickle

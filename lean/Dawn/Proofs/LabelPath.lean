import Dawn.Proofs.Label
/-! Helper lemmas about the model of `path.Clean` (component stack), used by C12 (`repoSourcePath`) and C19
(`CleanPath`). -/
namespace Dawn.Label

/-- an element `path.Clean` keeps as it is -/
def Normal (e : Bytes) : Prop := e ≠ [] ∧ e ≠ [dot] ∧ e ≠ dotdot

/-- the shape of the stack of `path.Clean`: kept elements on top of the `..` elements that could not be resolved
(none in a rooted path) -/
def StackOK (rooted : Bool) (st : List Bytes) : Prop :=
  ∃ ns k, st = ns ++ List.replicate k dotdot ∧ (∀ e ∈ ns, Normal e) ∧ (rooted = true → k = 0)

theorem nil_normal : ∀ e ∈ ([] : List Bytes), Normal e := fun _ h => absurd h List.not_mem_nil

theorem pstep_skip (rooted : Bool) (st : List Bytes) (e : Bytes) (h : e = [] ∨ e = [dot]) : pstep rooted st e = st := by
  simp [pstep, h]

theorem pstep_normal (rooted : Bool) (st : List Bytes) (e : Bytes) (h : Normal e) : pstep rooted st e = e :: st := by
  obtain ⟨h1, h2, h3⟩ := h
  have h3' : ¬ e = [dot, dot] := h3
  simp [pstep, h1, h2, h3']

theorem dotdot_not_normal : ¬ Normal dotdot := fun h => h.2.2 rfl

theorem elem_cases (e : Bytes) : (e = [] ∨ e = [dot]) ∨ e = dotdot ∨ Normal e := by
  by_cases h1 : e = []
  · exact Or.inl (Or.inl h1)
  by_cases h2 : e = [dot]
  · exact Or.inl (Or.inr h2)
  by_cases h3 : e = dotdot
  · exact Or.inr (Or.inl h3)
  · exact Or.inr (Or.inr ⟨h1, h2, h3⟩)

/-- `..` against a well-shaped stack -/
theorem pstep_dotdot (rooted : Bool) (ns : List Bytes) (k : Nat) (hns : ∀ e ∈ ns, Normal e) :
    pstep rooted (ns ++ List.replicate k dotdot) dotdot =
      match ns with
      | [] => if rooted = true ∧ k = 0 then [] else List.replicate (k + 1) dotdot
      | _ :: ns' => ns' ++ List.replicate k dotdot := by
  have hd : ¬ (dotdot = [] ∨ dotdot = [dot]) := by decide
  cases ns with
  | nil =>
    cases k with
    | zero => cases rooted <;> simp [pstep, dotdot]
    | succ k => simp [pstep, dotdot, List.replicate_succ]
  | cons t ns' =>
    have ht : t ≠ dotdot := fun h => dotdot_not_normal (h ▸ hns t List.mem_cons_self)
    have ht' : ¬ t = [dot, dot] := ht
    simp [pstep, dotdot, ht']

theorem stackOK_step (rooted : Bool) (st : List Bytes) (e : Bytes) (h : StackOK rooted st) : StackOK rooted (pstep rooted st e) := by
  obtain ⟨ns, k, rfl, hns, hk⟩ := h
  rcases elem_cases e with hs | rfl | hn
  · rw [pstep_skip _ _ _ hs]; exact ⟨ns, k, rfl, hns, hk⟩
  · rw [pstep_dotdot rooted ns k hns]
    cases ns with
    | nil =>
      simp only
      split
      · exact ⟨[], 0, rfl, nil_normal, fun _ => rfl⟩
      · rename_i hc
        refine ⟨[], k + 1, rfl, nil_normal, fun hr => ?_⟩
        exact absurd ⟨hr, hk hr⟩ hc
    | cons t ns' => exact ⟨ns', k, rfl, fun e he => hns e (List.mem_cons_of_mem _ he), hk⟩
  · rw [pstep_normal _ _ _ hn]
    exact ⟨e :: ns, k, rfl, fun x hx => by
      rcases List.mem_cons.mp hx with rfl | hx'
      · exact hn
      · exact hns x hx', hk⟩

theorem stackOK_fold (rooted : Bool) (es : List Bytes) : ∀ st, StackOK rooted st → StackOK rooted (es.foldl (pstep rooted) st) := by
  induction es with
  | nil => intro st h; exact h
  | cons e es ih => intro st h; exact ih _ (stackOK_step rooted st e h)

theorem stackOK_nil (rooted : Bool) : StackOK rooted [] := ⟨[], 0, rfl, nil_normal, fun _ => rfl⟩

/-- elements of the stack are elements of the input -/
theorem mem_pstep (rooted : Bool) (st : List Bytes) (e x : Bytes) (h : x ∈ pstep rooted st e) : x ∈ st ∨ x = e := by
  unfold pstep at h
  split at h
  · exact Or.inl h
  · split at h
    · split at h
      · split at h
        · cases h
        · simp only [List.mem_singleton] at h; exact Or.inr h
      · split at h
        · rcases List.mem_cons.mp h with h | h
          · exact Or.inr h
          · exact Or.inl h
        · exact Or.inl (List.mem_cons_of_mem _ h)
    · rcases List.mem_cons.mp h with h | h
      · exact Or.inr h
      · exact Or.inl h

theorem mem_fold (rooted : Bool) (es : List Bytes) : ∀ st x, x ∈ es.foldl (pstep rooted) st → x ∈ st ∨ x ∈ es := by
  induction es with
  | nil => intro st x h; exact Or.inl h
  | cons e es ih =>
    intro st x h
    rcases ih _ x h with h' | h'
    · rcases mem_pstep rooted st e x h' with h'' | h''
      · exact Or.inl h''
      · exact Or.inr (h'' ▸ List.mem_cons_self)
    · exact Or.inr (List.mem_cons_of_mem _ h')

/-- pushing elements that are kept or skipped -/
theorem fold_plain (rooted : Bool) (es : List Bytes) (h : ∀ e ∈ es, (e = [] ∨ e = [dot]) ∨ Normal e) :
    ∀ st, es.foldl (pstep rooted) st = (es.filter fun e => e ≠ [] ∧ e ≠ [dot]).reverse ++ st := by
  induction es with
  | nil => intro st; rfl
  | cons e es ih =>
    intro st
    have ih' := ih (fun x hx => h x (List.mem_cons_of_mem _ hx))
    rcases h e List.mem_cons_self with hs | hn
    · simp only [List.foldl_cons, pstep_skip _ _ _ hs, ih']
      have : ¬ (e ≠ [] ∧ e ≠ [dot]) := by rcases hs with rfl | rfl <;> simp
      simp [List.filter_cons, this]
    · simp only [List.foldl_cons, pstep_normal _ _ _ hn, ih']
      have : (e ≠ [] ∧ e ≠ [dot]) := ⟨hn.1, hn.2.1⟩
      simp [List.filter_cons, this]


/-- `path.Clean`'s result for a stack of kept elements -/
def render (rooted : Bool) (st : List Bytes) : Bytes :=
  let body := join slash st.reverse
  if rooted then slash :: body else if body = [] then [dot] else body

/-- the stack `path.Clean` ends with -/
def pathStack (p : Bytes) : List Bytes := (split slash p).foldl (pstep (p.head? = some slash)) []

theorem pathClean_eq (p : Bytes) : pathClean p = render (p.head? = some slash) (pathStack p) := by
  unfold pathClean render pathStack
  by_cases hp : p = []
  · subst hp; decide
  · simp only [hp, ↓reduceIte, decide_eq_true_eq]

theorem pathStack_ok (p : Bytes) : StackOK (p.head? = some slash) (pathStack p) ∧ ∀ e ∈ pathStack p, slash ∉ e := by
  refine ⟨stackOK_fold _ _ _ (stackOK_nil _), ?_⟩
  intro e he
  rcases mem_fold _ _ _ _ he with h | h
  · cases h
  · exact mem_split_no_sep slash p e h

theorem split_append_general (sep : UInt8) (a b : Bytes) : split sep (a ++ sep :: b) = split sep a ++ split sep b := by
  induction a with
  | nil => simp [split]
  | cons c a ih =>
    obtain ⟨h, t, hs⟩ := split_ne_nil sep a
    by_cases hc : c = sep
    · subst hc
      simp only [List.cons_append, split_cons_sep, ih]
    · have hs' : split sep (a ++ sep :: b) = h :: (t ++ split sep b) := by rw [ih, hs]; rfl
      rw [List.cons_append, split_cons_ne hc hs', split_cons_ne hc hs]
      rfl

theorem fold_dds (k : Nat) : ∀ j, (List.replicate k dotdot).foldl (pstep false) (List.replicate j dotdot) =
    List.replicate (j + k) dotdot := by
  induction k with
  | zero => intro j; rfl
  | succ k ih =>
    intro j
    have := pstep_dotdot false [] j nil_normal
    simp only [List.nil_append, Bool.false_eq_true, false_and, ↓reduceIte] at this
    rw [List.replicate_succ, List.foldl_cons, this, ih (j + 1)]
    congr 1; omega

theorem join_first (sep : UInt8) (a : Bytes) (cs : List Bytes) :
    ∃ t, join sep (a :: cs) = a ++ t ∧ (t = [] ∨ t.head? = some sep) := by
  cases cs with
  | nil => exact ⟨[], by simp [join], Or.inl rfl⟩
  | cons b cs => exact ⟨sep :: join sep (b :: cs), by simp [join], Or.inr rfl⟩

/-- a non-empty list of non-empty, slash-free elements joins to a non-empty text that does not start with a slash -/
theorem join_head_of (cs : List Bytes) (hne : cs ≠ []) (h : ∀ e ∈ cs, e ≠ [] ∧ slash ∉ e) :
    join slash cs ≠ [] ∧ (join slash cs).head? ≠ some slash := by
  cases cs with
  | nil => exact absurd rfl hne
  | cons a cs =>
    obtain ⟨t, ht, _⟩ := join_first slash a cs
    have ha := h a List.mem_cons_self
    rw [ht]
    cases a with
    | nil => exact absurd rfl ha.1
    | cons x a =>
      have hx : x ≠ slash := fun h' => ha.2 (h' ▸ List.mem_cons_self)
      simp [hx]

theorem normal_of_stack {ns : List Bytes} {k : Nat} (hns : ∀ e ∈ ns, Normal e) :
    ∀ e ∈ ns ++ List.replicate k dotdot, e ≠ [] := by
  intro e he
  rcases List.mem_append.mp he with h | h
  · exact (hns e h).1
  · rw [List.eq_of_mem_replicate h]; decide

/-- what `path.Clean` returns is a fixed point of `path.Clean` -/
theorem pathClean_render (rooted : Bool) (st : List Bytes) (hok : StackOK rooted st) (hsl : ∀ e ∈ st, slash ∉ e) :
    pathClean (render rooted st) = render rooted st ∧ pathStack (render rooted st) = st ∧
      ((render rooted st).head? = some slash) = (rooted = true) := by
  obtain ⟨ns, k, rfl, hns, hk⟩ := hok
  have hne : ∀ e ∈ (ns ++ List.replicate k dotdot).reverse, e ≠ [] ∧ slash ∉ e := by
    intro e he
    have he' := List.mem_reverse.mp he
    exact ⟨normal_of_stack hns e he', hsl e he'⟩
  cases rooted with
  | true =>
    have hk0 := hk rfl
    subst hk0
    simp only [List.replicate_zero, List.append_nil] at hne hsl ⊢
    have hstack : pathStack (render true ns) = ns := by
      unfold pathStack render
      simp only [↓reduceIte, List.head?_cons, split_cons_sep, List.foldl_cons, decide_true,
        pstep_skip _ _ _ (Or.inl rfl : ([] : Bytes) = [] ∨ ([] : Bytes) = [dot])]
      by_cases hnil : ns = []
      · subst hnil; simp [join, split, pstep]
      · rw [split_join ns.reverse (fun e he => (hne e he).2) (by intro h; exact hnil (List.reverse_eq_nil_iff.mp h))]
        rw [fold_plain true ns.reverse (fun e he => Or.inr (hns e (List.mem_reverse.mp he)))]
        simp only [List.append_nil]
        rw [List.filter_eq_self.mpr]
        · simp
        · intro e he
          have := hns e (List.mem_reverse.mp he)
          simp [this.1, this.2.1]
    refine ⟨?_, hstack, ?_⟩
    · rw [pathClean_eq, hstack]
      simp [render]
    · simp [render]
  | false =>
    by_cases hnil : ns ++ List.replicate k dotdot = []
    · rw [hnil]
      refine ⟨by decide, by decide, by decide⟩
    · have hrne : (ns ++ List.replicate k dotdot).reverse ≠ [] := by
        intro h; exact hnil (List.reverse_eq_nil_iff.mp h)
      have hj := join_head_of _ hrne hne
      have hrender : render false (ns ++ List.replicate k dotdot) = join slash (ns ++ List.replicate k dotdot).reverse := by
        simp only [render, Bool.false_eq_true, ↓reduceIte, hj.1]
      have hhead : ((join slash (ns ++ List.replicate k dotdot).reverse).head? = some slash) = False := by
        exact eq_false hj.2
      have hstack : pathStack (render false (ns ++ List.replicate k dotdot)) = ns ++ List.replicate k dotdot := by
        rw [hrender]
        unfold pathStack
        simp only [hhead, decide_false]
        rw [split_join _ (fun e he => (hne e he).2) hrne]
        simp only [List.reverse_append, List.reverse_replicate, List.foldl_append]
        have := fold_dds k 0
        simp only [List.replicate_zero, Nat.zero_add] at this
        rw [this, fold_plain false ns.reverse (fun e he => Or.inr (hns e (List.mem_reverse.mp he)))]
        rw [List.filter_eq_self.mpr]
        · simp
        · intro e he
          have := hns e (List.mem_reverse.mp he)
          simp [this.1, this.2.1]
      refine ⟨?_, hstack, ?_⟩
      · rw [pathClean_eq, hstack, hrender]
        simp only [hhead, decide_false]
        rw [← hrender]
      · rw [hrender, hhead]; simp

theorem pathClean_idem (p : Bytes) : pathClean (pathClean p) = pathClean p := by
  rw [pathClean_eq p]
  exact (pathClean_render _ _ (pathStack_ok p).1 (pathStack_ok p).2).1


/-! ## `repoSourcePath` -/

/-- does walking the elements from depth `d` ever step above the starting directory's `d`-th ancestor?
(independent of the stack model: a counter) -/
def escapesFrom : Nat → List Bytes → Bool
  | _, [] => false
  | d, e :: rest =>
    if e = [] ∨ e = [dot] then escapesFrom d rest
    else if e = dotdot then
      match d with
      | 0 => true
      | d' + 1 => escapesFrom d' rest
    else escapesFrom (d + 1) rest

theorem dotdot_mem_stack (ns : List Bytes) (k : Nat) (hns : ∀ e ∈ ns, Normal e) :
    dotdot ∈ ns ++ List.replicate k dotdot ↔ k > 0 := by
  constructor
  · intro h
    rcases List.mem_append.mp h with h | h
    · exact absurd (hns _ h) dotdot_not_normal
    · cases k with
      | zero => simp at h
      | succ k => omega
  · intro h
    apply List.mem_append_right
    cases k with
    | zero => omega
    | succ k => simp [List.replicate_succ]

theorem esc_fold (es : List Bytes) : ∀ (ns : List Bytes) (k : Nat), (∀ e ∈ ns, Normal e) →
    (dotdot ∈ es.foldl (pstep false) (ns ++ List.replicate k dotdot) ↔ (k > 0 ∨ escapesFrom ns.length es = true)) := by
  induction es with
  | nil =>
    intro ns k hns
    simp only [List.foldl_nil, escapesFrom, Bool.false_eq_true, or_false]
    exact dotdot_mem_stack ns k hns
  | cons e es ih =>
    intro ns k hns
    rcases elem_cases e with hs | rfl | hn
    · simp only [List.foldl_cons, pstep_skip _ _ _ hs, escapesFrom, hs, ↓reduceIte]
      exact ih ns k hns
    · have hd : ¬ (dotdot = [] ∨ dotdot = [dot]) := by decide
      rw [List.foldl_cons, pstep_dotdot false ns k hns]
      cases ns with
      | nil =>
        simp only [Bool.false_eq_true, false_and, ↓reduceIte, List.length_nil, escapesFrom, hd, or_true, iff_true]
        have := ih [] (k + 1) nil_normal
        simp only [List.nil_append] at this
        exact this.mpr (Or.inl (by omega))
      | cons t ns' =>
        simp only [List.length_cons, escapesFrom, hd, ↓reduceIte]
        exact ih ns' k (fun x hx => hns x (List.mem_cons_of_mem _ hx))
    · have h1 : ¬ (e = [] ∨ e = [dot]) := by
        rintro (h | h)
        · exact hn.1 h
        · exact hn.2.1 h
      rw [List.foldl_cons, pstep_normal _ _ _ hn]
      simp only [escapesFrom, h1, ↓reduceIte, hn.2.2]
      have := ih (e :: ns) k (fun x hx => by
        rcases List.mem_cons.mp hx with rfl | hx'
        · exact hn
        · exact hns x hx')
      simpa using this

/-- `repoSourcePath` rejects exactly the results that start with a `..` element -/
theorem rejected_iff (ns : List Bytes) (k : Nat) (hns : ∀ e ∈ ns, Normal e)
    (hsl : ∀ e ∈ ns ++ List.replicate k dotdot, slash ∉ e) :
    (render false (ns ++ List.replicate k dotdot) = dotdot ∨
      dotdotSlash.isPrefixOf (render false (ns ++ List.replicate k dotdot)) = true) ↔ k > 0 := by
  constructor
  · intro h
    cases k with
    | succ k => omega
    | zero =>
      exfalso
      simp only [List.replicate_zero, List.append_nil] at h hsl
      by_cases hnil : ns = []
      · subst hnil; revert h; decide
      · have hrne : ns.reverse ≠ [] := fun h' => hnil (List.reverse_eq_nil_iff.mp h')
        have hne : ∀ e ∈ ns.reverse, e ≠ [] ∧ slash ∉ e := fun e he =>
          ⟨(hns e (List.mem_reverse.mp he)).1, hsl e (List.mem_reverse.mp he)⟩
        have hj := join_head_of _ hrne hne
        have hrender : render false ns = join slash ns.reverse := by
          simp only [render, Bool.false_eq_true, ↓reduceIte, hj.1]
        rw [hrender] at h
        cases hr : ns.reverse with
        | nil => exact hrne hr
        | cons a cs =>
          rw [hr] at h
          have ha : Normal a := hns a (List.mem_reverse.mp (hr ▸ List.mem_cons_self))
          have has : slash ∉ a := hsl a (List.mem_reverse.mp (hr ▸ List.mem_cons_self))
          obtain ⟨t, ht, htl⟩ := join_first slash a cs
          rw [ht] at h
          have hds : slash ∉ dotdot := by decide
          match a, ha, has with
          | [], ha, _ => exact ha.1 rfl
          | [x], ha, has =>
            rcases htl with rfl | htl
            · rcases h with h | h
              · cases h
              · simp [dotdotSlash, List.isPrefixOf] at h
            · cases t with
              | nil => cases htl
              | cons y t =>
                simp only [List.head?_cons, Option.some.injEq] at htl
                subst htl
                rcases h with h | h
                · simp [dotdot] at h
                  exact absurd h.2.1 (by decide)
                · simp [dotdotSlash, List.isPrefixOf] at h
                  exact absurd h.2.1 (by decide)
          | [x, y], ha, has =>
            rcases htl with rfl | htl
            · rcases h with h | h
              · exact ha.2.2 (by simpa using h)
              · simp [dotdotSlash, List.isPrefixOf] at h
            · cases t with
              | nil => cases htl
              | cons z t =>
                rcases h with h | h
                · simp [dotdot] at h
                · simp only [dotdotSlash, List.cons_append, List.nil_append, List.isPrefixOf, Bool.and_eq_true,
                    beq_iff_eq] at h
                  exact ha.2.2 (by rw [← h.1, ← h.2.1]; rfl)
          | x :: y :: z :: a', ha, has =>
            rcases h with h | h
            · simp [dotdot] at h
            · simp only [dotdotSlash, List.cons_append, List.isPrefixOf, Bool.and_eq_true, beq_iff_eq] at h
              exact has (by rw [h.2.2.1]; simp)
  · intro hk
    cases k with
    | zero => omega
    | succ k =>
      have hrev : (ns ++ List.replicate (k + 1) dotdot).reverse = dotdot :: (List.replicate k dotdot ++ ns.reverse) := by
        simp only [List.reverse_append, List.reverse_replicate]
        rw [List.replicate_succ]; rfl
      have hne : ∀ e ∈ (ns ++ List.replicate (k + 1) dotdot).reverse, e ≠ [] ∧ slash ∉ e := fun e he =>
        ⟨normal_of_stack hns e (List.mem_reverse.mp he), hsl e (List.mem_reverse.mp he)⟩
      have hj := join_head_of _ (by rw [hrev]; simp) hne
      rw [hrev] at hj
      have hrender : render false (ns ++ List.replicate (k + 1) dotdot) =
          join slash (dotdot :: (List.replicate k dotdot ++ ns.reverse)) := by
        simp only [render, Bool.false_eq_true, ↓reduceIte, hrev, hj.1]
      rw [hrender]
      obtain ⟨t, ht, htl⟩ := join_first slash dotdot (List.replicate k dotdot ++ ns.reverse)
      rw [ht]
      rcases htl with rfl | htl
      · left; simp
      · right
        cases t with
        | nil => cases htl
        | cons y t =>
          simp only [List.head?_cons, Option.some.injEq] at htl
          subst htl
          simp [dotdot, dotdotSlash, List.isPrefixOf]


/-- the elements of `path.Clean(p)`, in order -/
def pathComps (p : Bytes) : List Bytes := (pathStack p).reverse

theorem split_render_plain (r : Bool) (ns : List Bytes) (hns : ∀ e ∈ ns, Normal e) (hsl : ∀ e ∈ ns, slash ∉ e) :
    ∀ e ∈ split slash (render r ns), (e = [] ∨ e = [dot]) ∨ Normal e := by
  have hsplit : ns ≠ [] → split slash (join slash ns.reverse) = ns.reverse := fun hnil =>
    split_join ns.reverse (fun e he => hsl e (List.mem_reverse.mp he)) (fun h => hnil (List.reverse_eq_nil_iff.mp h))
  intro e he
  by_cases hnil : ns = []
  · subst hnil
    cases r
    · simp only [render, List.reverse_nil, join, Bool.false_eq_true, ↓reduceIte, split, show ¬ (dot = slash) by decide,
        List.mem_singleton] at he
      exact Or.inl (Or.inr he)
    · simp only [render, List.reverse_nil, join, ↓reduceIte, split_cons_sep, split, List.mem_cons, List.not_mem_nil,
        or_false, or_self] at he
      exact Or.inl (Or.inl he)
  · have hj := join_head_of ns.reverse (fun h => hnil (List.reverse_eq_nil_iff.mp h))
      (fun e he => ⟨(hns e (List.mem_reverse.mp he)).1, hsl e (List.mem_reverse.mp he)⟩)
    cases r
    · simp only [render, Bool.false_eq_true, ↓reduceIte, hj.1, hsplit hnil] at he
      exact Or.inr (hns e (List.mem_reverse.mp he))
    · simp only [render, ↓reduceIte, split_cons_sep, hsplit hnil, List.mem_cons] at he
      rcases he with rfl | he
      · exact Or.inl (Or.inl rfl)
      · exact Or.inr (hns e (List.mem_reverse.mp he))

/-- a cleaned path that `repoSourcePath` does not reject has only kept elements, and joining it below any
absolute root stays below that root -/
theorem accepted_confined (x : Bytes)
    (hacc : ¬ (pathClean x = dotdot ∨ dotdotSlash.isPrefixOf (pathClean x) = true)) :
    dotdot ∉ split slash (pathClean x) ∧
    ∀ root, pathIsAbs root = true → pathComps root <+: pathComps (root ++ slash :: pathClean x) := by
  obtain ⟨hok, hsl⟩ := pathStack_ok x
  obtain ⟨ns, k, hst, hns, hk⟩ := hok
  rw [pathClean_eq] at hacc ⊢
  rw [hst] at hacc hsl ⊢
  have hk0 : k = 0 := by
    cases hr : decide (x.head? = some slash) with
    | true => exact hk hr
    | false =>
      rw [hr] at hacc
      have : ¬ k > 0 := fun h => hacc ((rejected_iff ns k hns hsl).mpr h)
      omega
  subst hk0
  simp only [List.replicate_zero, List.append_nil] at hacc hsl ⊢
  have hplain := split_render_plain (decide (x.head? = some slash)) ns hns hsl
  constructor
  · intro hm
    rcases hplain dotdot hm with (h | h) | h
    · revert h; decide
    · revert h; decide
    · exact dotdot_not_normal h
  · intro root hroot
    have hne : root ≠ [] := by intro h; subst h; simp [pathIsAbs] at hroot
    have hhead : (root ++ slash :: render (decide (x.head? = some slash)) ns).head? = root.head? := by
      cases root with
      | nil => exact absurd rfl hne
      | cons b t => rfl
    unfold pathComps pathStack
    rw [hhead, split_append_general, List.foldl_append, fold_plain _ _ hplain]
    simp only [List.reverse_append, List.reverse_reverse]
    exact List.prefix_append _ _

theorem slice_drop2 (pkg : Bytes) (h : 2 ≤ pkg.length) : slice pkg 2 pkg.length = .ok (pkg.drop 2) := by
  rw [slice_ok h (Nat.le_refl _), List.take_length]

theorem pathJoin_two (a b : Bytes) (hb : b ≠ []) : pathJoin [a, b] = pathClean (joinBuf [] [a, b]) := by
  unfold pathJoin
  have : ¬ ((List.map List.length [a, b]).sum = 0) := by
    cases b with
    | nil => exact absurd rfl hb
    | cons x b => simp
  simp only [this, ↓reduceIte]

/-- `repoSourcePath` for a relative source path and a package of at least two bytes -/
theorem rsp_rel (pkg sp : Bytes) (hsp : sp ≠ []) (hrel : pathIsAbs sp = false) (hlen : 2 ≤ pkg.length) :
    repoSourcePathGo pkg sp =
      if pathClean (joinBuf [] [pkg.drop 2, sp]) = dotdot ∨ dotdotSlash.isPrefixOf (pathClean (joinBuf [] [pkg.drop 2, sp])) = true
      then .err .outsideRoot else .ok (pathClean (joinBuf [] [pkg.drop 2, sp])) := by
  unfold repoSourcePathGo
  simp only [hsp, ↓reduceIte, hrel, Bool.not_false, slice_drop2 pkg hlen, Out.ok_bind, pathJoin_two _ _ hsp,
    pathClean_idem]

theorem rsp_abs (pkg sp : Bytes) (habs : pathIsAbs sp = true) :
    repoSourcePathGo pkg sp =
      if pathClean sp = dotdot ∨ dotdotSlash.isPrefixOf (pathClean sp) = true
      then .err .outsideRoot else .ok (pathClean sp) := by
  have hsp : sp ≠ [] := by intro h; subst h; simp [pathIsAbs] at habs
  unfold repoSourcePathGo
  simp only [hsp, ↓reduceIte, habs, Bool.not_true, Bool.false_eq_true, Out.ok_bind]

theorem rsp_short (pkg sp : Bytes) (hsp : sp ≠ []) (hrel : pathIsAbs sp = false) (hlen : pkg.length < 2) :
    repoSourcePathGo pkg sp = .panic := by
  unfold repoSourcePathGo
  have : slice pkg 2 pkg.length = .panic := by
    unfold slice
    have : ¬ (2 ≤ pkg.length ∧ pkg.length ≤ pkg.length) := by omega
    simp only [this, ↓reduceIte]
  simp only [hsp, ↓reduceIte, hrel, Bool.not_false, this, Out.panic_bind]


theorem joinBuf_two (a b : Bytes) (hb : b ≠ []) :
    joinBuf [] [a, b] = if a = [] then b else a ++ slash :: b := by
  by_cases ha : a = []
  · subst ha; simp [joinBuf, hb]
  · simp [joinBuf, ha]

/-- an absolute source path is never rejected (and never panics, whatever the package) -/
theorem rsp_abs_ok (pkg sp : Bytes) (habs : pathIsAbs sp = true) : repoSourcePathGo pkg sp = .ok (pathClean sp) := by
  rw [rsp_abs pkg sp habs, if_neg]
  have hh : decide (sp.head? = some slash) = true := by
    apply decide_eq_true
    simpa [pathIsAbs] using habs
  rw [pathClean_eq, hh]
  simp only [render, ↓reduceIte]
  intro h
  rcases h with h | h
  · simp [dotdot] at h
    exact absurd h.1 (by decide)
  · simp [dotdotSlash, List.isPrefixOf] at h
    exact absurd h.1 (by decide)


theorem mem_split_sub (sep : UInt8) (l : Bytes) : ∀ e ∈ split sep l, ∀ b ∈ e, b ∈ l := by
  induction l with
  | nil => intro e he b hb; simp [split] at he; subst he; cases hb
  | cons c rest ih =>
    obtain ⟨h, t, hs⟩ := split_ne_nil sep rest
    intro e he b hb
    by_cases hc : c = sep
    · subst hc
      rw [split_cons_sep] at he
      rcases List.mem_cons.mp he with rfl | he'
      · cases hb
      · exact List.mem_cons_of_mem _ (ih e he' b hb)
    · rw [split_cons_ne hc hs] at he
      rcases List.mem_cons.mp he with rfl | he'
      · rcases List.mem_cons.mp hb with rfl | hb'
        · exact List.mem_cons_self
        · exact List.mem_cons_of_mem _ (ih h (by rw [hs]; exact List.mem_cons_self) b hb')
      · exact List.mem_cons_of_mem _ (ih e (by rw [hs]; exact List.mem_cons_of_mem _ he') b hb)

/-- `path.Clean` invents no bytes other than `.` and `/` -/
theorem mem_pathClean (p : Bytes) (b : UInt8) (hb : b ∈ pathClean p) : b ∈ p ∨ b = dot ∨ b = slash := by
  rw [pathClean_eq] at hb
  have hstack : ∀ e ∈ pathStack p, ∀ x ∈ e, x ∈ p ∨ x = dot := by
    intro e he x hx
    -- an element of the stack is an element of the input or `..`
    have : e ∈ split slash p ∨ e = dotdot := by
      obtain ⟨ns, k, hst, _, _⟩ := (pathStack_ok p).1
      rcases mem_fold _ _ _ _ he with h | h
      · cases h
      · exact Or.inl h
    rcases this with h | h
    · exact Or.inl (mem_split_sub slash p e h x hx)
    · subst h
      simp only [dotdot, List.mem_cons, List.not_mem_nil, or_false, or_self] at hx
      exact Or.inr hx
  have hjoin : ∀ x ∈ join slash (pathStack p).reverse, x ∈ p ∨ x = dot ∨ x = slash := by
    intro x hx
    rcases mem_join slash _ x hx with h | ⟨e, he, hxe⟩
    · exact Or.inr (Or.inr h)
    · rcases hstack e (List.mem_reverse.mp he) x hxe with h | h
      · exact Or.inl h
      · exact Or.inr (Or.inl h)
  unfold render at hb
  simp only at hb
  split at hb
  · rcases List.mem_cons.mp hb with h | h
    · exact Or.inr (Or.inr h)
    · exact hjoin b h
  · split at hb
    · simp only [List.mem_singleton] at hb; exact Or.inr (Or.inl hb)
    · exact hjoin b hb


theorem sourceLabel_cases (pkg sp : Bytes) (l : Label) (h : sourceLabelGo pkg sp = .ok l) :
    ∃ g n, newGo sourceKind [] g n = .ok l := by
  unfold sourceLabelGo at h
  cases hq : repoSourcePathGo pkg sp with
  | ok q =>
    rw [hq] at h
    simp only [Out.ok_bind] at h
    cases hl : lastIndexByte slash q with
    | none => rw [hl] at h; exact ⟨_, _, h⟩
    | some ls =>
      rw [hl] at h
      simp only at h
      have hlt := (lastIndexByte_some hl).1
      rw [slice_zero (Nat.le_of_lt hlt), slice_to_end (Nat.succ_le_of_lt hlt)] at h
      simp only [Out.ok_bind] at h
      exact ⟨_, _, h⟩
  | err e => rw [hq] at h; cases h
  | panic => rw [hq] at h; cases h
  | fuel => rw [hq] at h; cases h


end Dawn.Label

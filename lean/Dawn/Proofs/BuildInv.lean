import Dawn.Proofs.Build
/-!
# The persisted-state invariant of the incremental engine (C01, C03)

`DInv` speaks about the records on disk and the generated files only — never about the tree — so edits and fresh
loads preserve it trivially; every visit of every build preserves it (whatever is requested, whichever bodies
fail), and so does every *prefix* of a visit's effects (a crash). `MInv` is the per-build invariant: a target
a build visited successfully holds exactly what its body computes from the present files of what it reads.

Ghost state (`Ghost`): the content the `k`-th successful run of a target wrote, and what that run observed.
-/
namespace Dawn.Build

/-- What a label is, for all time: labels spell their kind and (for sources) their path; a function's
fingerprint determines what its body writes (the paths are literals of its code) and, together with the lists it is
handed through `self` (`self.dependencies`, `self.sources`, `self.generates`: `Attrs`), what it reads — a body may
read `self.sources` in order, or every other entry of `self.dependencies`; every generated path belongs to one label. -/
structure Shape where
  kindOf : Label → Kind
  pathOf : Label → Path
  gensOf : Label → Env → List Path
  readsOf : Label → Env → Attrs → List Label
  owner : Path → Option Label
  owned : ∀ l e g, g ∈ gensOf l e → owner g = some l
  gensNodup : ∀ l e, (gensOf l e).Nodup

/-- the tree a load sees agrees with the shape -/
structure Conforms (S : Shape) (t : Tree) : Prop where
  kind : ∀ l d, t.defs l = some d → d.kind = S.kindOf l
  path : ∀ l d, t.defs l = some d → d.kind = .src → d.path = S.pathOf l
  gens : ∀ l d, t.defs l = some d → d.kind = .fn → d.gens = S.gensOf l d.env
  reads : ∀ l d, t.defs l = some d → d.kind = .fn → d.reads = S.readsOf l d.env (attrsOf d)
  readsDeps : ∀ l d, t.defs l = some d → d.kind = .fn → ∀ x ∈ d.reads, x ∈ depsOf t l d
  /-- `link`: a source whose file a live target generates depends on that target -/
  link : ∀ y dy, t.defs y = some dy → dy.kind = .src → ∀ l, S.owner dy.path = some l → (t.defs l).isSome → l ∈ depsOf t y dy

/-- `sha256` is injective on canonical listings, and only a missing file has the empty sum -/
def SumInj (P : Params) : Prop := ∀ v v', srcData P v = srcData P v' → canon v = canon v'

structure Ghost where
  /-- the content the `k`-th successful run of `l` wrote to `g` -/
  hist : Label → Nat → Path → Nat
  /-- what that run observed of dependency `x` -/
  obs : Label → Nat → Label → List (Path × SrcVal)
  /-- labels whose record a garbage collection removed: they are never defined again (C14's exclusion) -/
  retired : Label → Prop

def runsOf (r : Option Rec) : Nat := match r with | some r => r.runs | none => 0

/-- the stamp a record lists for `x` stands for exactly this observation -/
def SeenOK (P : Params) (S : Shape) (G : Ghost) (r : Rec) (x : Label) (obs : List (Path × SrcVal)) : Prop :=
  match S.kindOf x with
  | .src => ∃ v, r.deps.lookup x = some ⟨srcData P v, 0⟩ ∧ obs = [(S.pathOf x, canon v)]
  | .fn => ∃ ex kx, r.deps.lookup x = some ⟨.env ex, kx⟩ ∧ obs = (S.gensOf x ex).map fun g => (g, .file (G.hist x kx g))

/-- the invariant of the persisted state -/
structure DInv (P : Params) (S : Shape) (w : World) (G : Ghost) : Prop where
  /-- a generated file of a success record is missing or is what that record's run wrote -/
  rec_out : ∀ l r e, w.recs l = some r → r.rerun = false → r.data = .env e →
    ∀ g ∈ S.gensOf l e, w.files g = .missing ∨ w.files g = .file (G.hist l r.runs g)
  /-- a success record of a function target remembers the lists its run was handed (D32 repair) -/
  rec_attrs : ∀ l r e, w.recs l = some r → r.rerun = false → r.data = .env e → ∃ a, r.attrs = some a
  /-- what it wrote is the body applied to the recorded fingerprint, the recorded lists and what it observed -/
  rec_hist : ∀ l r e a, w.recs l = some r → r.rerun = false → r.data = .env e → r.attrs = some a →
    ∀ g ∈ S.gensOf l e, G.hist l r.runs g = P.out l e a ((S.readsOf l e a).map fun x => (x, G.obs l r.runs x)) g
  /-- what it observed is what the stamps it lists stand for -/
  rec_seen : ∀ l r e a, w.recs l = some r → r.rerun = false → r.data = .env e → r.attrs = some a →
    ∀ x ∈ S.readsOf l e a, SeenOK P S G r x (G.obs l r.runs x)
  /-- listed run counters never exceed the dependency's present counter (unless the dependency was collected for good) -/
  runs_le : ∀ l r, w.recs l = some r → ∀ x st, r.deps.lookup x = some st → st.runs ≤ runsOf (w.recs x) ∨ G.retired x
  /-- sources are never counted -/
  src_runs : ∀ l r, w.recs l = some r → S.kindOf l = .src → r.runs = 0

/-- `l` holds what its body computes from the present files of what it reads -/
def Consistent (P : Params) (t : Tree) (w : World) (l : Label) (d : Def) : Prop :=
  ∀ g ∈ d.gens, w.files g = .file (P.out l d.env (attrsOf d) (d.reads.map fun x => (x, observe t w x)) g)

/-- the invariant of one build -/
def MOk (P : Params) (S : Shape) (t : Tree) (w : World) (G : Ghost) (x : Label) (m : Res) : Prop :=
  ∃ d, t.defs x = some d ∧
    match d.kind with
    | .fn => ∃ r, w.recs x = some r ∧ r.rerun = false ∧ r.data = .env d.env ∧ m.data = ⟨r.data, r.runs⟩ ∧
        (∀ g ∈ d.gens, w.files g = .file (G.hist x r.runs g)) ∧ Consistent P t w x d
    | .src => m.data = ⟨srcData P (w.files d.path), 0⟩

structure MInv (P : Params) (S : Shape) (t : Tree) (s : BSt) (G : Ghost) : Prop where
  mok : ∀ x m, s.memo x = some m → m.ok = true → MOk P S t s.w G x m
  /-- the dependencies of a successfully visited target were visited successfully -/
  closed : ∀ x m d, s.memo x = some m → m.ok = true → t.defs x = some d →
    ∀ y ∈ depsOf t x d, ∃ my, s.memo y = some my ∧ my.ok = true

/-- what the runner guarantees when it hands `l` to `Evaluate` (C04): `l` has not been evaluated in this build
and nothing evaluated so far depends on it -/
structure Order (t : Tree) (s : BSt) (l : Label) : Prop where
  fresh : s.memo l = none
  above : ∀ x m d, s.memo x = some m → m.ok = true → t.defs x = some d → l ∉ depsOf t x d

def Ordered (P : Params) (t : Tree) (o : Opts) : BSt → List Label → Prop
  | _, [] => True
  | s, l :: rest => Order t s l ∧ Ordered P t o (visit P t o s l) rest

end Dawn.Build

namespace Dawn.Build

/-! ## what a plan tells -/

theorem deps_ok_of_find_none {s : BSt} {deps : List Label}
    (h : deps.find? (fun x => match s.memo x with | some m => !m.ok | none => true) = none) :
    ∀ x ∈ deps, ∃ m, s.memo x = some m ∧ m.ok = true := by
  intro x hx
  have := List.find?_eq_none.mp h x hx
  cases hm : s.memo x with
  | none => simp [hm] at this
  | some m => exact ⟨m, rfl, by simpa [hm] using this⟩


theorem plan_skip {P : Params} {t : Tree} {o : Opts} {s : BSt} {l : Label} {d : Def} {info : Rec}
    (h : plan P t o s l d = .skip info) :
    info = loadedInfo s.w l d ∧ o.always = false ∧ info.rerun = false ∧ upToDate P s.w d info = true ∧
    ∀ x ∈ depsOf t l d, ∃ m, s.memo x = some m ∧ m.ok = true ∧ m.changed = false ∧ info.deps.lookup x = some m.data := by
  unfold plan at h
  simp only at h
  split at h
  · cases h
  · rename_i hfind
    split at h
    · rename_i hc
      cases h
      simp only [Bool.and_eq_true, Bool.not_eq_eq_eq_not, Bool.not_true] at hc
      obtain ⟨⟨⟨h1, ⟨h2, _⟩, _⟩, h3⟩, h4⟩ := hc
      refine ⟨rfl, h1, h4, h3, ?_⟩
      intro x hx
      obtain ⟨m, hm, hok⟩ := deps_ok_of_find_none hfind x hx
      have := List.all_eq_true.mp h2 x hx
      rw [hm] at this
      split at this
      · rename_i st m' hl hm'
        cases hm'
        simp only [Bool.and_eq_true, Bool.not_eq_eq_eq_not, Bool.not_true, beq_iff_eq] at this
        exact ⟨m, hm, hok, this.1, by rw [hl, this.2]⟩
      · cases this
    · split at h <;> cases h

/-- A skipped target's record lists exactly as many dependencies as the target has now (D29 repair). -/
theorem plan_skip_length {P : Params} {t : Tree} {o : Opts} {s : BSt} {l : Label} {d : Def} {info : Rec}
    (h : plan P t o s l d = .skip info) : (!P.depCount || info.deps.length == (depsOf t l d).length) = true := by
  unfold plan at h
  simp only at h
  split at h
  · cases h
  · split at h
    · rename_i hc
      cases h
      simp only [Bool.and_eq_true] at hc
      exact hc.1.1.2.1.2
    · split at h <;> cases h

/-- A skipped function target's record remembers the lists the target has now, or none (D32 repair). -/
theorem plan_skip_attrs {P : Params} {t : Tree} {o : Opts} {s : BSt} {l : Label} {d : Def} {info : Rec}
    (h : plan P t o s l d = .skip info) : attrsOK P d info = true := by
  unfold plan at h
  simp only at h
  split at h
  · cases h
  · split at h
    · rename_i hc
      cases h
      simp only [Bool.and_eq_true] at hc
      exact hc.1.1.2.2
    · split at h <;> cases h

theorem plan_run {P : Params} {t : Tree} {o : Opts} {s : BSt} {l : Label} {d : Def} {info : Rec}
    {dd : List (Label × Stamp)} (h : plan P t o s l d = .run info dd) :
    info = loadedInfo s.w l d ∧ dd = (depsOf t l d).map (fun x => (x, memoData s x)) ∧ o.dry = false ∧
    ∀ x ∈ depsOf t l d, ∃ m, s.memo x = some m ∧ m.ok = true := by
  unfold plan at h
  simp only at h
  split at h
  · cases h
  · rename_i hfind
    split at h
    · cases h
    · split at h
      · cases h
      · rename_i hd
        cases h
        exact ⟨rfl, rfl, by simpa using hd, deps_ok_of_find_none hfind⟩

theorem lookup_map_self {β} (xs : List Label) (f : Label → β) (x : Label) (hx : x ∈ xs) :
    (xs.map fun y => (y, f y)).lookup x = some (f x) := by
  induction xs with
  | nil => cases hx
  | cons y ys ih =>
    simp only [List.map_cons, List.lookup_cons]
    by_cases e : x = y
    · subst e; simp
    · have : (x == y) = false := by simpa using e
      simp only [this]
      exact ih (by rcases List.mem_cons.mp hx with h | h; exact absurd h e; exact h)

theorem lookup_map_mem {β} (xs : List Label) (f : Label → β) (x : Label) (v : β)
    (h : (xs.map fun y => (y, f y)).lookup x = some v) : x ∈ xs ∧ v = f x := by
  induction xs with
  | nil => cases h
  | cons y ys ih =>
    simp only [List.map_cons, List.lookup_cons] at h
    by_cases e : x = y
    · subst e; simp at h; exact ⟨List.mem_cons_self, h.symm⟩
    · have : (x == y) = false := by simpa using e
      simp only [this] at h
      obtain ⟨h1, h2⟩ := ih h
      exact ⟨List.mem_cons_of_mem _ h1, h2⟩

end Dawn.Build

namespace Dawn.Build

@[simp] theorem canon_file (c : Nat) : canon (.file c) = .file c := rfl

/-! ## stamps and observations -/

/-- a successfully visited dependency, listed with its present stamp, stands for its present files -/
theorem seen_of_mok {P : Params} {S : Shape} {t : Tree} {w : World} {G : Ghost} (hc : Conforms S t)
    {x : Label} {m : Res} (hm : MOk P S t w G x m) (r : Rec) (hl : r.deps.lookup x = some m.data) :
    SeenOK P S G r x (observe t w x) := by
  obtain ⟨dx, hdx, hk⟩ := hm
  unfold SeenOK
  have hkind := hc.kind x dx hdx
  cases hkd : dx.kind with
  | src =>
    rw [← hkind, hkd]
    simp only [hkd] at hk
    refine ⟨w.files dx.path, by rw [hl, hk], ?_⟩
    simp [observe, hdx, hkd, hc.path x dx hdx hkd]
  | fn =>
    rw [← hkind, hkd]
    simp only [hkd] at hk
    obtain ⟨rx, _, _, hdata, hmd, hfiles, _⟩ := hk
    refine ⟨dx.env, rx.runs, by rw [hl, hmd, hdata], ?_⟩
    simp only [observe, hdx, hkd]
    rw [← hc.gens x dx hdx hkd]
    apply List.map_congr_left
    intro g hg
    rw [hfiles g hg]; rfl

/-- conversely: what a record's run observed of `x` is what is there now, when the listed stamp is `x`'s present one -/
theorem obs_eq_of_seen {P : Params} {S : Shape} {t : Tree} {w : World} {G : Ghost} (hc : Conforms S t) (hinj : SumInj P)
    {x : Label} {m : Res} (hm : MOk P S t w G x m) (r : Rec) (hl : r.deps.lookup x = some m.data)
    (obs : List (Path × SrcVal)) (hs : SeenOK P S G r x obs) : obs = observe t w x := by
  obtain ⟨dx, hdx, hk⟩ := hm
  unfold SeenOK at hs
  have hkind := hc.kind x dx hdx
  cases hkd : dx.kind with
  | src =>
    rw [← hkind, hkd] at hs
    simp only [hkd] at hk
    obtain ⟨v, hv, hobs⟩ := hs
    rw [hl, hk] at hv
    have : srcData P (w.files dx.path) = srcData P v := by
      have := Option.some.inj hv
      exact congrArg Stamp.data this
    have hcan := hinj _ _ this
    have hp := hc.path x dx hdx hkd
    simp [observe, hdx, hkd, hobs, ← hp, hcan]
  | fn =>
    rw [← hkind, hkd] at hs
    simp only [hkd] at hk
    obtain ⟨ex, kx, hv, hobs⟩ := hs
    obtain ⟨rx, _, _, hdata, hmd, hfiles, _⟩ := hk
    rw [hl, hmd, hdata] at hv
    have h2 := Option.some.inj hv
    have he : dx.env = ex := by
      have := congrArg Stamp.data h2
      simpa using this
    have hk' : rx.runs = kx := congrArg Stamp.runs h2
    subst he; subst hk'
    simp only [observe, hdx, hkd, hobs]
    rw [← hc.gens x dx hdx hkd]
    apply List.map_congr_left
    intro g hg
    rw [hfiles g hg]; rfl

theorem loadedInfo_rerun_false {w : World} {l : Label} {d : Def} (h : (loadedInfo w l d).rerun = false) :
    loadedInfo w l d = (w.recs l).getD emptyRec := by
  unfold loadedInfo at *
  split at h
  · simp at h
  · simp_all

/-- the skip decision is sound -/
theorem skip_sound {P : Params} {S : Shape} {t : Tree} {o : Opts} {s : BSt} {G : Ghost} {l : Label} {d : Def} {info : Rec}
    (hc : Conforms S t) (hinj : SumInj P) (hsr : P.stampRuns = true) (hlc : P.listCheck = true)
    (di : DInv P S s.w G) (mi : MInv P S t s G)
    (hd : t.defs l = some d) (hp : plan P t o s l d = .skip info) :
    MOk P S t s.w G l ⟨true, false, stampOf P info, false⟩ := by
  obtain ⟨hinfo, _, hrr, hup, hdeps⟩ := plan_skip hp
  have hattrs := plan_skip_attrs hp
  have hinfo' : info = (s.w.recs l).getD emptyRec := by
    rw [hinfo]; exact loadedInfo_rerun_false (hinfo ▸ hrr)
  refine ⟨d, hd, ?_⟩
  cases hkd : d.kind with
  | src =>
    simp only
    unfold upToDate at hup
    simp only [hkd, beq_iff_eq] at hup
    have hruns : info.runs = 0 := by
      rw [hinfo']
      cases hr : s.w.recs l with
      | none => rfl
      | some r => exact di.src_runs l r hr (by rw [← hc.kind l d hd, hkd])
    simp [stampOf, hsr, hup, hruns]
  | fn =>
    simp only
    unfold upToDate at hup
    simp only [hkd] at hup
    have hna : d.always = false := by
      cases ha : d.always with
      | false => rfl
      | true =>
        have : (loadedInfo s.w l d).rerun = true := by simp [loadedInfo, hkd, ha]
        rw [← hinfo, hrr] at this; cases this
    simp only [hna, Bool.false_eq_true, if_false, Bool.and_eq_true, beq_iff_eq] at hup
    obtain ⟨hdata, hpresent⟩ := hup
    -- the record exists
    cases hr : s.w.recs l with
    | none => rw [hinfo', hr] at hdata; cases hdata
    | some r =>
      have hir : info = r := by rw [hinfo', hr]; rfl
      subst hir
      have hgens := hc.gens l d hd hkd
      have hfiles : ∀ g ∈ d.gens, s.w.files g = .file (G.hist l info.runs g) := by
        intro g hg
        have hpres := List.all_eq_true.mp hpresent g hg
        rcases di.rec_out l info d.env hr hrr hdata g (hgens ▸ hg) with hmiss | hfile
        · simp [hmiss] at hpres
        · exact hfile
      -- the record remembers the lists the target has now
      have hat : info.attrs = some (attrsOf d) := by
        obtain ⟨a, ha⟩ := di.rec_attrs l info d.env hr hrr hdata
        unfold attrsOK at hattrs
        simp only [hlc, Bool.not_true, hkd, Bool.false_or, ha] at hattrs
        have : a = attrsOf d := by simpa using hattrs
        rw [ha, this]
      refine ⟨info, rfl, hrr, hdata, by simp [stampOf, hsr], hfiles, ?_⟩
      intro g hg
      rw [hfiles g hg, di.rec_hist l info d.env _ hr hrr hdata hat g (hgens ▸ hg), hc.reads l d hd hkd]
      congr 2
      apply List.map_congr_left
      intro x hx
      have hxr : x ∈ d.reads := by rw [hc.reads l d hd hkd]; exact hx
      obtain ⟨m, hm, hok, _, hl⟩ := hdeps x (hc.readsDeps l d hd hkd x hxr)
      have hseen := di.rec_seen l info d.env _ hr hrr hdata hat x hx
      rw [obs_eq_of_seen hc hinj (mi.mok x m hm hok) info hl _ hseen]

end Dawn.Build

namespace Dawn.Build

/-! ## frame: visiting `T` does not disturb what was visited before -/

theorem observe_frame {S : Shape} {t : Tree} (hc : Conforms S t) {w w' : World} {T y : Label}
    (hfiles : ∀ p, S.owner p ≠ some T → w'.files p = w.files p) (hT : (t.defs T).isSome) (hy : y ≠ T)
    (habove : ∀ dy, t.defs y = some dy → T ∉ depsOf t y dy) : observe t w' y = observe t w y := by
  unfold observe
  cases hdy : t.defs y with
  | none => rfl
  | some dy =>
    simp only
    cases hk : dy.kind with
    | src =>
      simp only
      rw [hfiles dy.path]
      intro ho
      exact habove dy hdy (hc.link y dy hdy hk T ho hT)
    | fn =>
      simp only
      apply List.map_congr_left
      intro g hg
      rw [hfiles g]
      rw [hc.gens y dy hdy hk] at hg
      rw [S.owned y dy.env g hg]
      intro e; exact hy (Option.some.inj e)

theorem mok_frame {P : Params} {S : Shape} {t : Tree} (hc : Conforms S t) {w w' : World} {G G' : Ghost} {T x : Label} {m : Res}
    (hx : x ≠ T)
    (hfiles : ∀ p, S.owner p ≠ some T → w'.files p = w.files p)
    (hrecs : ∀ y, y ≠ T → w'.recs y = w.recs y)
    (hhist : ∀ y k g, y ≠ T → G'.hist y k g = G.hist y k g)
    (hT : (t.defs T).isSome)
    (hxabove : ∀ dx, t.defs x = some dx → T ∉ depsOf t x dx)
    (hyabove : ∀ dx, t.defs x = some dx → dx.kind = .fn → ∀ y ∈ dx.reads, ∀ dy, t.defs y = some dy → T ∉ depsOf t y dy)
    (hm : MOk P S t w G x m) : MOk P S t w' G' x m := by
  obtain ⟨dx, hdx, hk⟩ := hm
  refine ⟨dx, hdx, ?_⟩
  cases hkd : dx.kind with
  | src =>
    simp only [hkd] at hk ⊢
    rw [hfiles dx.path]
    · exact hk
    · intro ho
      exact hxabove dx hdx (hc.link x dx hdx hkd T ho hT)
  | fn =>
    simp only [hkd] at hk ⊢
    obtain ⟨rx, h1, h2, h3, h4, h5, h6⟩ := hk
    have hown : ∀ g ∈ dx.gens, w'.files g = w.files g := by
      intro g hg
      apply hfiles
      rw [hc.gens x dx hdx hkd] at hg
      rw [S.owned x dx.env g hg]
      intro e; exact hx (Option.some.inj e)
    refine ⟨rx, by rw [hrecs x hx, h1], h2, h3, h4, ?_, ?_⟩
    · intro g hg
      rw [hown g hg, hhist x _ _ hx]; exact h5 g hg
    · intro g hg
      rw [hown g hg, h6 g hg]
      congr 2
      apply List.map_congr_left
      intro y hy
      have hyT : y ≠ T := by
        intro e; subst e
        exact hxabove dx hdx (hc.readsDeps x dx hdx hkd y hy)
      rw [observe_frame hc hfiles hT hyT (hyabove dx hdx hkd y hy)]

end Dawn.Build

namespace Dawn.Build

/-! ## one record replaced, only its owner's files touched: the persisted invariant survives -/

theorem seenOK_mono {P : Params} {S : Shape} {G G' : Ghost} {w : World} (di : DInv P S w G) {y : Label} {r : Rec}
    (hr : w.recs y = some r) {T : Label} (hTr : ¬ G.retired T)
    (hhist : ∀ z k g, (z ≠ T ∨ k ≤ runsOf (w.recs T)) → G'.hist z k g = G.hist z k g)
    {x : Label} {obs : List (Path × SrcVal)} (h : SeenOK P S G r x obs) : SeenOK P S G' r x obs := by
  unfold SeenOK at *
  split
  · rename_i hk; simp only [hk] at h; exact h
  · rename_i hk
    simp only [hk] at h
    obtain ⟨ex, kx, hl, ho⟩ := h
    refine ⟨ex, kx, hl, ?_⟩
    rw [ho]
    apply List.map_congr_left
    intro g _
    have : G'.hist x kx g = G.hist x kx g := by
      apply hhist
      by_cases e : x = T
      · right; subst e
        rcases di.runs_le y r hr x _ hl with h | h
        · exact h
        · exact absurd h hTr
      · left; exact e
    rw [this]

theorem dinv_step {P : Params} {S : Shape} {w w' : World} {G G' : Ghost} {T : Label} {r' : Rec}
    (di : DInv P S w G) (hTr : ¬ G.retired T) (hret : ∀ x, G.retired x → G'.retired x)
    (hrecs : ∀ y, y ≠ T → w'.recs y = w.recs y) (hT : w'.recs T = some r')
    (hfiles : ∀ p, S.owner p ≠ some T → w'.files p = w.files p)
    (hhist : ∀ z k g, (z ≠ T ∨ k ≤ runsOf (w.recs T)) → G'.hist z k g = G.hist z k g)
    (hobs : ∀ z k x, (z ≠ T ∨ k ≤ runsOf (w.recs T)) → G'.obs z k x = G.obs z k x)
    (hruns : runsOf (w.recs T) ≤ r'.runs)
    (hdeps : ∀ x st, r'.deps.lookup x = some st → st.runs ≤ runsOf (w'.recs x) ∨ G'.retired x)
    (hsrc : S.kindOf T = .src → r'.runs = 0)
    (hnew : r'.rerun = false → ∀ e, r'.data = .env e →
      (∀ g ∈ S.gensOf T e, w'.files g = .missing ∨ w'.files g = .file (G'.hist T r'.runs g)) ∧
      ∃ a, r'.attrs = some a ∧
      (∀ g ∈ S.gensOf T e, G'.hist T r'.runs g = P.out T e a ((S.readsOf T e a).map fun x => (x, G'.obs T r'.runs x)) g) ∧
      (∀ x ∈ S.readsOf T e a, SeenOK P S G' r' x (G'.obs T r'.runs x))) :
    DInv P S w' G' := by
  have hmono : ∀ x, runsOf (w.recs x) ≤ runsOf (w'.recs x) := by
    intro x
    by_cases e : x = T
    · subst e; rw [hT]; exact hruns
    · rw [hrecs x e]; exact Nat.le_refl _
  have hown : ∀ y e g, y ≠ T → g ∈ S.gensOf y e → w'.files g = w.files g := by
    intro y e g hy hg
    apply hfiles
    rw [S.owned y e g hg]
    intro h; exact hy (Option.some.inj h)
  constructor
  · intro l r e hr hrr hd g hg
    by_cases hl : l = T
    · subst hl
      rw [hT] at hr; cases hr
      exact (hnew hrr e hd).1 g hg
    · rw [hrecs l hl] at hr
      rw [hown l e g hl hg, hhist l _ _ (Or.inl hl)]
      exact di.rec_out l r e hr hrr hd g hg
  · intro l r e hr hrr hd
    by_cases hl : l = T
    · subst hl
      rw [hT] at hr; cases hr
      obtain ⟨a, ha, _⟩ := (hnew hrr e hd).2
      exact ⟨a, ha⟩
    · rw [hrecs l hl] at hr
      exact di.rec_attrs l r e hr hrr hd
  · intro l r e a hr hrr hd hat g hg
    by_cases hl : l = T
    · subst hl
      rw [hT] at hr; cases hr
      obtain ⟨a', ha', h1, _⟩ := (hnew hrr e hd).2
      rw [hat] at ha'; cases ha'
      exact h1 g hg
    · rw [hrecs l hl] at hr
      rw [hhist l _ _ (Or.inl hl), di.rec_hist l r e a hr hrr hd hat g hg]
      congr 3
      funext x
      rw [hobs l _ _ (Or.inl hl)]
  · intro l r e a hr hrr hd hat x hx
    by_cases hl : l = T
    · subst hl
      rw [hT] at hr; cases hr
      obtain ⟨a', ha', _, h2⟩ := (hnew hrr e hd).2
      rw [hat] at ha'; cases ha'
      exact h2 x hx
    · rw [hrecs l hl] at hr
      rw [hobs l _ _ (Or.inl hl)]
      exact seenOK_mono di hr hTr hhist (di.rec_seen l r e a hr hrr hd hat x hx)
  · intro l r hr x st hst
    by_cases hl : l = T
    · subst hl
      rw [hT] at hr; cases hr
      exact hdeps x st hst
    · rw [hrecs l hl] at hr
      rcases di.runs_le l r hr x st hst with h | h
      · exact Or.inl (Nat.le_trans h (hmono x))
      · exact Or.inr (hret x h)
  · intro l r hr hk
    by_cases hl : l = T
    · subst hl
      rw [hT] at hr; cases hr
      exact hsrc hk
    · rw [hrecs l hl] at hr
      exact di.src_runs l r hr hk

end Dawn.Build

namespace Dawn.Build

/-! ## every visit preserves both invariants -/

theorem memo_fresh_mono {memo : Label → Option Res} {l : Label} {res : Res} (hf : memo l = none) {y : Label} {my : Res}
    (h : memo y = some my) : upd memo l (some res) y = some my := by
  by_cases e : y = l
  · subst e; rw [hf] at h; cases h
  · rw [upd_other _ _ _ _ e, h]

theorem minv_extend {P : Params} {S : Shape} {t : Tree} {s s' : BSt} {G G' : Ghost} {l : Label} {res : Res}
    (mi : MInv P S t s G) (hf : s.memo l = none)
    (hold : ∀ x m, s.memo x = some m → m.ok = true → MOk P S t s'.w G' x m)
    (hnew : res.ok = true → MOk P S t s'.w G' l res ∧
      ∀ d, t.defs l = some d → ∀ y ∈ depsOf t l d, ∃ my, s.memo y = some my ∧ my.ok = true)
    (hm : s'.memo = upd s.memo l (some res)) : MInv P S t s' G' := by
  constructor
  · intro x m hx hok
    rw [hm] at hx
    by_cases e : x = l
    · subst e
      simp only [upd_same, Option.some.injEq] at hx
      subst hx
      exact (hnew hok).1
    · rw [upd_other _ _ _ _ e] at hx
      exact hold x m hx hok
  · intro x m d hx hok hd y hy
    rw [hm] at hx ⊢
    by_cases e : x = l
    · subst e
      simp only [upd_same, Option.some.injEq] at hx
      subst hx
      obtain ⟨my, h1, h2⟩ := (hnew hok).2 d hd y hy
      exact ⟨my, memo_fresh_mono hf h1, h2⟩
    · rw [upd_other _ _ _ _ e] at hx
      obtain ⟨my, h1, h2⟩ := mi.closed x m d hx hok hd y hy
      exact ⟨my, memo_fresh_mono hf h1, h2⟩

theorem plan_not_dry {P : Params} {t : Tree} {o : Opts} {s : BSt} {l : Label} {d : Def} (hd : o.dry = false) (info : Rec) :
    plan P t o s l d ≠ .dry info := by
  unfold plan
  simp only [hd]
  split
  · simp
  · split <;> simp

theorem visit_run_eq {P : Params} {t : Tree} {o : Opts} {s : BSt} {l : Label} {d : Def} {info : Rec}
    {dd : List (Label × Stamp)} (hd : t.defs l = some d) (hp : plan P t o s l d = .run info dd) :
    (visit P t o s l).w = applySteps s.w (execSteps P t o s.w l d info dd).1 ∧
    (visit P t o s l).memo = upd s.memo l (some (if (execSteps P t o s.w l d info dd).2.2
        then ⟨true, true, stampOf P (execSteps P t o s.w l d info dd).2.1, false⟩ else failedRes false)) := by
  unfold visit
  simp only [hd, hp]
  trivial

/-- the stamps a new record lists are the present stamps of the dependencies: their counters are the present ones -/
theorem depData_runs_le {P : Params} {S : Shape} {t : Tree} {s : BSt} {G : Ghost}
    (mi : MInv P S t s G) {deps : List Label} (hok : ∀ x ∈ deps, ∃ m, s.memo x = some m ∧ m.ok = true)
    (x : Label) (st : Stamp) (h : (deps.map fun y => (y, memoData s y)).lookup x = some st) :
    st.runs ≤ runsOf (s.w.recs x) := by
  obtain ⟨hx, hst⟩ := lookup_map_mem deps (memoData s) x st h
  obtain ⟨m, hm, hmok⟩ := hok x hx
  obtain ⟨dx, _, hk⟩ := mi.mok x m hm hmok
  have hmd : st = m.data := by rw [hst]; simp [memoData, hm]
  cases hkd : dx.kind with
  | src => simp only [hkd] at hk; rw [hmd, hk]; exact Nat.zero_le _
  | fn =>
    simp only [hkd] at hk
    obtain ⟨rx, hrx, _, _, h4, _, _⟩ := hk
    rw [hmd, h4, hrx]; exact Nat.le_refl _

end Dawn.Build

namespace Dawn.Build

theorem loadedInfo_runs (w : World) (l : Label) (d : Def) : (loadedInfo w l d).runs = runsOf (w.recs l) := by
  unfold loadedInfo runsOf
  cases w.recs l <;> (simp only [Option.getD]; split <;> rfl)

theorem seenOK_congr {P : Params} {S : Shape} {G G' : Ghost} {r : Rec} {x : Label} {obs : List (Path × SrcVal)}
    (h : ∀ k g, G'.hist x k g = G.hist x k g) (hs : SeenOK P S G r x obs) : SeenOK P S G' r x obs := by
  unfold SeenOK at *
  split
  · rename_i hk; simp only [hk] at hs; exact hs
  · rename_i hk
    simp only [hk] at hs
    obtain ⟨ex, kx, hl, ho⟩ := hs
    refine ⟨ex, kx, hl, ?_⟩
    rw [ho]
    apply List.map_congr_left
    intro g _
    rw [h]

theorem srcData_ne_env (P : Params) (v : SrcVal) (e : Env) : srcData P v ≠ .env e := by
  unfold srcData; split <;> simp

theorem bodyWrites_fst (P : Params) (t : Tree) (w : World) (l : Label) (d : Def) :
    (bodyWrites P t w l d).map (·.1) = d.gens := by
  simp [bodyWrites, List.map_map, Function.comp_def]

theorem mem_bodyWrites (P : Params) (t : Tree) (w : World) (l : Label) (d : Def) (g : Path) (hg : g ∈ d.gens) :
    (g, P.out l d.env (attrsOf d) (d.reads.map fun x => (x, observe t w x)) g) ∈ bodyWrites P t w l d := by
  simp only [bodyWrites, List.mem_map]
  exact ⟨g, hg, rfl⟩

/-- a body's writes stay inside the paths its label owns -/
theorem writes_owned {S : Shape} {t : Tree} (hc : Conforms S t) {l : Label} {d : Def} (hd : t.defs l = some d) (hk : d.kind = .fn)
    (files : Path → SrcVal) (ws : List (Path × Nat)) (hws : ∀ gc ∈ ws, gc.1 ∈ d.gens) (p : Path) (hp : S.owner p ≠ some l) :
    writeAll files ws p = files p := by
  apply writeAll_not_mem
  intro gc hgc e
  apply hp
  rw [← e]
  apply S.owned l d.env
  rw [← hc.gens l d hd hk]
  exact hws gc hgc

end Dawn.Build

namespace Dawn.Build

/-- what `Order` gives about an earlier target and about what it reads -/
theorem above_reads {P : Params} {S : Shape} {t : Tree} {s : BSt} {G : Ghost} (hc : Conforms S t) (mi : MInv P S t s G)
    {l : Label} (ord : Order t s l) {x : Label} {m : Res} (hx : s.memo x = some m) (hok : m.ok = true) :
    (∀ dx, t.defs x = some dx → l ∉ depsOf t x dx) ∧
    (∀ dx, t.defs x = some dx → dx.kind = .fn → ∀ y ∈ dx.reads, ∀ dy, t.defs y = some dy → l ∉ depsOf t y dy) := by
  refine ⟨fun dx hdx => ord.above x m dx hx hok hdx, ?_⟩
  intro dx hdx hk y hy dy hdy
  have hyd := hc.readsDeps x dx hdx hk y hy
  obtain ⟨my, h1, h2⟩ := mi.closed x m dx hx hok hdx y hyd
  exact ord.above y my dy h1 h2 hdy

end Dawn.Build

namespace Dawn.Build

/-- the frame step shared by all executing cases: entries of earlier targets survive a visit of `l` that touches only
`l`'s record and files `l` owns -/
theorem hold_frame {P : Params} {S : Shape} {t : Tree} {s : BSt} {G G' : Ghost} {l : Label} {d : Def} {w' : World}
    (hc : Conforms S t) (mi : MInv P S t s G) (ord : Order t s l) (hd : t.defs l = some d)
    (hfiles : ∀ p, S.owner p ≠ some l → w'.files p = s.w.files p)
    (hrecs : ∀ y, y ≠ l → w'.recs y = s.w.recs y)
    (hhist : ∀ y k g, y ≠ l → G'.hist y k g = G.hist y k g) :
    ∀ x m, s.memo x = some m → m.ok = true → MOk P S t w' G' x m := by
  intro x m hx hok
  have hxl : x ≠ l := by intro e; subst e; rw [ord.fresh] at hx; cases hx
  obtain ⟨a1, a2⟩ := above_reads hc mi ord hx hok
  exact mok_frame hc hxl hfiles hrecs hhist (by simp [hd]) a1 a2 (mi.mok x m hx hok)

theorem visit_inv {P : Params} {S : Shape} {t : Tree} {o : Opts} {s : BSt} {G : Ghost} {l : Label}
    (hc : Conforms S t) (hinj : SumInj P) (hsr : P.stampRuns = true) (hlc : P.listCheck = true) (hdry : o.dry = false)
    (di : DInv P S s.w G) (mi : MInv P S t s G) (ord : Order t s l) (hret : ∀ x, G.retired x → t.defs x = none) :
    ∃ G', DInv P S (visit P t o s l).w G' ∧ MInv P S t (visit P t o s l) G' ∧ G'.retired = G.retired := by
  cases hd : t.defs l with
  | none =>
    refine ⟨G, ?_, ?_, rfl⟩
    · simpa [visit, hd] using di
    · apply minv_extend (res := failedRes true) mi ord.fresh
      · intro x m hx hok; simpa [visit, hd] using mi.mok x m hx hok
      · intro h; cases h
      · simp [visit, hd]
  | some d =>
    have hlr : ¬ G.retired l := by
      intro h; have := hret l h; rw [hd] at this; cases this
    cases hp : plan P t o s l d with
    | depFailed report =>
      refine ⟨G, ?_, ?_, rfl⟩
      · simpa [visit, hd, hp] using di
      · apply minv_extend (res := failedRes false) mi ord.fresh
        · intro x m hx hok; simpa [visit, hd, hp] using mi.mok x m hx hok
        · intro h; cases h
        · simp [visit, hd, hp]
    | skip info =>
      refine ⟨G, ?_, ?_, rfl⟩
      · simpa [visit, hd, hp] using di
      · apply minv_extend (res := ⟨true, false, stampOf P info, false⟩) mi ord.fresh
        · intro x m hx hok; simpa [visit, hd, hp] using mi.mok x m hx hok
        · intro _
          refine ⟨by simpa [visit, hd, hp] using skip_sound hc hinj hsr hlc di mi hd hp, ?_⟩
          intro d' hd' y hy
          rw [hd] at hd'; cases hd'
          obtain ⟨m, h1, h2, _, _⟩ := (plan_skip hp).2.2.2.2 y hy
          exact ⟨m, h1, h2⟩
        · simp [visit, hd, hp]
    | dry info => exact absurd hp (plan_not_dry hdry info)
    | run info dd =>
      obtain ⟨hinfo, hdd, _, hdepsok⟩ := plan_run hp
      obtain ⟨hw, hmemo⟩ := visit_run_eq hd hp
      have hiruns : info.runs = runsOf (s.w.recs l) := by rw [hinfo]; exact loadedInfo_runs _ _ _
      have hkind := hc.kind l d hd
      have hddle : ∀ x st, dd.lookup x = some st → st.runs ≤ runsOf (s.w.recs x) := by
        intro x st h; rw [hdd] at h; exact depData_runs_le mi hdepsok x st h
      cases hk : d.kind with
      | src =>
        obtain ⟨he, hwa⟩ := applySteps_exec_src P t o s.w l d info dd hk
        rw [hwa] at hw
        have hzero : info.runs = 0 := by
          rw [hiruns]
          cases hr : s.w.recs l with
          | none => rfl
          | some r => exact di.src_runs l r hr (by rw [← hkind, hk])
        refine ⟨G, ?_, ?_, rfl⟩
        · rw [hw]
          apply dinv_step (T := l) di (r' := ⟨dd, srcData P (s.w.files d.path), false, info.runs, none⟩)
          · exact hlr
          · intro x h; exact h
          · intro y hy; simp [upd, hy]
          · simp
          · intro p _; rfl
          · intro _ _ _ _; rfl
          · intro _ _ _ _; rfl
          · simp [hiruns]
          · intro x st h
            left
            refine Nat.le_trans (hddle x st h) ?_
            by_cases e : x = l
            · subst e; simp [runsOf, hiruns]
            · simp [upd, e]
          · intro _; exact hzero
          · intro _ e h; exact absurd h (srcData_ne_env P _ e)
        · apply minv_extend (res := ⟨true, true, stampOf P ⟨dd, srcData P (s.w.files d.path), false, info.runs, none⟩, false⟩) mi ord.fresh
          · rw [hw]
            exact hold_frame hc mi ord hd (fun p _ => rfl) (fun y hy => by simp [upd, hy]) (fun _ _ _ _ => rfl)
          · intro _
            refine ⟨⟨d, hd, ?_⟩, ?_⟩
            · simp only [hk]
              rw [hw]
              simp [stampOf, hsr, hzero]
            · intro d' hd' y hy
              rw [hd] at hd'; cases hd'
              exact hdepsok y hy
          · rw [hmemo, he]; simp
      | fn =>
        have hgens := hc.gens l d hd hk
        have hnotsrc : S.kindOf l = .src → False := by intro h; rw [← hkind, hk] at h; cases h
        cases hf : o.fails l with
        | true =>
          obtain ⟨he, hwa⟩ := applySteps_exec_fn_fail P t o s.w l d info dd hk hf
          rw [hwa] at hw
          have hfiles : ∀ p, S.owner p ≠ some l → (visit P t o s l).w.files p = s.w.files p := by
            intro p hp
            rw [hw]
            apply writes_owned hc hd hk
            · intro gc hgc
              unfold garbageWrites at hgc
              split at hgc
              · rename_i g rest hg
                simp only [List.mem_singleton] at hgc
                subst hgc; rw [hg]; exact List.mem_cons_self
              · cases hgc
            · exact hp
          refine ⟨G, ?_, ?_, rfl⟩
          · apply dinv_step (T := l) di (r' := ⟨dd, .empty, true, info.runs, none⟩)
            · exact hlr
            · intro x h; exact h
            · intro y hy; rw [hw]; simp [upd, hy]
            · rw [hw]; simp
            · exact hfiles
            · intro _ _ _ _; rfl
            · intro _ _ _ _; rfl
            · simp [hiruns]
            · intro x st h
              left
              refine Nat.le_trans (hddle x st h) ?_
              rw [hw]
              by_cases e : x = l
              · subst e; simp [runsOf, hiruns]
              · simp [upd, e]
            · intro h; exact absurd h hnotsrc
            · intro h; cases h
          · apply minv_extend (res := failedRes false) mi ord.fresh
            · exact hold_frame hc mi ord hd hfiles (fun y hy => by rw [hw]; simp [upd, hy]) (fun _ _ _ _ => rfl)
            · intro h; cases h
            · rw [hmemo, he]; rfl
        | false =>
          obtain ⟨he, hwa⟩ := applySteps_exec_fn_ok P t o s.w l d info dd hk hf
          rw [hwa] at hw
          let k := info.runs + 1
          let content : Path → Nat := fun g => P.out l d.env (attrsOf d) (d.reads.map fun x => (x, observe t s.w x)) g
          let G' : Ghost :=
            { hist := fun y k' g => if y = l ∧ k' = k then content g else G.hist y k' g
              obs := fun y k' x => if y = l ∧ k' = k then observe t s.w x else G.obs y k' x
              retired := G.retired }
          have hhist : ∀ z k' g, (z ≠ l ∨ k' ≤ runsOf (s.w.recs l)) → G'.hist z k' g = G.hist z k' g := by
            intro z k' g h
            have : ¬ (z = l ∧ k' = k) := by
              rintro ⟨e1, e2⟩
              rcases h with h | h
              · exact h e1
              · rw [e2, ← hiruns] at h; exact Nat.not_succ_le_self _ h
            simp [G', this]
          have hobs : ∀ z k' x, (z ≠ l ∨ k' ≤ runsOf (s.w.recs l)) → G'.obs z k' x = G.obs z k' x := by
            intro z k' x h
            have : ¬ (z = l ∧ k' = k) := by
              rintro ⟨e1, e2⟩
              rcases h with h | h
              · exact h e1
              · rw [e2, ← hiruns] at h; exact Nat.not_succ_le_self _ h
            simp [G', this]
          have hfiles : ∀ p, S.owner p ≠ some l → (visit P t o s l).w.files p = s.w.files p := by
            intro p hp
            rw [hw]
            apply writes_owned hc hd hk
            · intro gc hgc
              have := List.mem_map_of_mem (f := (·.1)) hgc
              rwa [bodyWrites_fst] at this
            · exact hp
          have hwritten : ∀ g ∈ d.gens, (visit P t o s l).w.files g = .file (G'.hist l k g) := by
            intro g hg
            rw [hw]
            have hnd : ((bodyWrites P t s.w l d).map (·.1)).Nodup := by
              rw [bodyWrites_fst, hgens]; exact S.gensNodup l d.env
            simp only
            rw [writeAll_mem _ _ g _ hnd (mem_bodyWrites P t s.w l d g hg)]
            simp [G', content]
          have hlfresh : ∀ x ∈ depsOf t l d, x ≠ l := by
            intro x hx e; subst e
            obtain ⟨m, hm, _⟩ := hdepsok x hx
            rw [ord.fresh] at hm; cases hm
          have hobserve : ∀ x ∈ d.reads, observe t (visit P t o s l).w x = observe t s.w x := by
            intro x hx
            have hxd := hc.readsDeps l d hd hk x hx
            obtain ⟨m, hm, hok⟩ := hdepsok x hxd
            exact observe_frame hc hfiles (by simp [hd]) (hlfresh x hxd)
              (fun dy hdy => ord.above x m dy hm hok hdy)
          refine ⟨G', ?_, ?_, rfl⟩
          · apply dinv_step (T := l) di (r' := ⟨dd, .env d.env, false, k, some (attrsOf d)⟩)
            · exact hlr
            · intro x h; exact h
            · intro y hy; rw [hw]; simp [upd, hy]
            · rw [hw]; simp only [upd_same]; rfl
            · exact hfiles
            · exact hhist
            · exact hobs
            · simp [k, hiruns]
            · intro x st h
              left
              refine Nat.le_trans (hddle x st h) ?_
              rw [hw]
              by_cases e : x = l
              · subst e; simp [runsOf, hiruns]
              · simp [upd, e]
            · intro h; exact absurd h hnotsrc
            · intro _ e hde
              simp only [Data.env.injEq] at hde
              subst hde
              refine ⟨?_, attrsOf d, rfl, ?_, ?_⟩
              · intro g hg
                right
                exact hwritten g (hgens ▸ hg)
              · intro g _
                simp only [G', and_self, if_true, content]
                rw [hc.reads l d hd hk]
              · intro x hx
                have hxr : x ∈ d.reads := by rw [hc.reads l d hd hk]; exact hx
                have hxd := hc.readsDeps l d hd hk x hxr
                obtain ⟨m, hm, hok⟩ := hdepsok x hxd
                have hl : (⟨dd, .env d.env, false, k, some (attrsOf d)⟩ : Rec).deps.lookup x = some m.data := by
                  simp only
                  rw [hdd, lookup_map_self _ _ _ hxd]
                  simp [memoData, hm]
                have := seen_of_mok hc (mi.mok x m hm hok) ⟨dd, .env d.env, false, k, some (attrsOf d)⟩ hl
                have hG : G'.obs l k x = observe t s.w x := by simp [G']
                rw [hG]
                exact seenOK_congr (fun k' g => hhist x k' g (Or.inl (hlfresh x hxd))) this
          · apply minv_extend (res := ⟨true, true, stampOf P ⟨dd, .env d.env, false, k, some (attrsOf d)⟩, false⟩) mi ord.fresh
            · exact hold_frame hc mi ord hd hfiles (fun y hy => by rw [hw]; simp [upd, hy])
                (fun y k' g hy => hhist y k' g (Or.inl hy))
            · intro _
              refine ⟨⟨d, hd, ?_⟩, ?_⟩
              · simp only [hk]
                refine ⟨⟨dd, .env d.env, false, k, some (attrsOf d)⟩, by rw [hw]; simp only [upd_same]; rfl, rfl, rfl, by simp [stampOf, hsr], hwritten, ?_⟩
                intro g hg
                rw [hwritten g hg]
                simp only [G', and_self, if_true, content]
                congr 2
                apply List.map_congr_left
                intro x hx
                rw [hobserve x hx]
              · intro d' hd' y hy
                rw [hd] at hd'; cases hd'
                exact hdepsok y hy
            · rw [hmemo, he]; simp [k]

end Dawn.Build

namespace Dawn.Build

/-! ## builds, loads, edits -/

theorem build_inv {P : Params} {S : Shape} {t : Tree} {o : Opts} (hc : Conforms S t) (hinj : SumInj P)
    (hsr : P.stampRuns = true) (hlc : P.listCheck = true) (hdry : o.dry = false) :
    ∀ (ord : List Label) (s : BSt) (G : Ghost), DInv P S s.w G → MInv P S t s G → Ordered P t o s ord →
      (∀ x, G.retired x → t.defs x = none) →
      ∃ G', DInv P S (build P t o s ord).w G' ∧ MInv P S t (build P t o s ord) G' ∧ G'.retired = G.retired := by
  intro ord
  induction ord with
  | nil => intro s G di mi _ _; exact ⟨G, di, mi, rfl⟩
  | cons l rest ih =>
    intro s G di mi ho hret
    obtain ⟨G1, di1, mi1, hr1⟩ := visit_inv hc hinj hsr hlc hdry di mi ho.1 hret
    obtain ⟨G2, di2, mi2, hr2⟩ := ih _ G1 di1 mi1 ho.2 (by rw [hr1]; exact hret)
    exact ⟨G2, di2, mi2, by rw [hr2, hr1]⟩

theorem runsOf_sem (r : Option Rec) : runsOf r = (semRec r).runs := by
  cases r <;> rfl

/-- worlds with the same files and semantically the same records (a missing record ≡ an empty one) -/
theorem dinv_of_sem {P : Params} {S : Shape} {w w' : World} {G : Ghost} (di : DInv P S w G)
    (hr : ∀ l, semRec (w'.recs l) = semRec (w.recs l)) (hf : w'.files = w.files) : DInv P S w' G := by
  have hcase : ∀ l r, w'.recs l = some r → w.recs l = some r ∨ (w.recs l = none ∧ r = emptyRec) := by
    intro l r h
    have := hr l
    rw [h] at this
    cases hw : w.recs l with
    | none => right; rw [hw] at this; exact ⟨rfl, this⟩
    | some r0 => left; rw [hw] at this; simp [semRec] at this; rw [this]
  have hruns : ∀ x, runsOf (w'.recs x) = runsOf (w.recs x) := by
    intro x; rw [runsOf_sem, runsOf_sem, hr x]
  constructor
  · intro l r e h hrr hd g hg
    rw [hf]
    rcases hcase l r h with h0 | ⟨_, h0⟩
    · exact di.rec_out l r e h0 hrr hd g hg
    · subst h0; cases hd
  · intro l r e h hrr hd
    rcases hcase l r h with h0 | ⟨_, h0⟩
    · exact di.rec_attrs l r e h0 hrr hd
    · subst h0; cases hd
  · intro l r e a h hrr hd hat g hg
    rcases hcase l r h with h0 | ⟨_, h0⟩
    · exact di.rec_hist l r e a h0 hrr hd hat g hg
    · subst h0; cases hd
  · intro l r e a h hrr hd hat x hx
    rcases hcase l r h with h0 | ⟨_, h0⟩
    · exact di.rec_seen l r e a h0 hrr hd hat x hx
    · subst h0; cases hd
  · intro l r h x st hst
    rw [hruns]
    rcases hcase l r h with h0 | ⟨_, h0⟩
    · exact di.runs_le l r h0 x st hst
    · subst h0; simp [emptyRec] at hst
  · intro l r h hk
    rcases hcase l r h with h0 | ⟨_, h0⟩
    · exact di.src_runs l r h0 hk
    · subst h0; rfl

/-- the load that precedes every build -/
theorem dinv_load {P : Params} {S : Shape} {w : World} {G : Ghost} (t : Tree) (di : DInv P S w G) : DInv P S (load t w) G :=
  dinv_of_sem di (fun l => (load_sem t w l).1) (load_sem t w 0).2.1

theorem minv_init {P : Params} {S : Shape} (t : Tree) (w : World) (G : Ghost) : MInv P S t (BSt.init w) G :=
  ⟨by intro x m h; simp [BSt.init] at h, by intro x m d h; simp [BSt.init] at h⟩

/-- an edit of the tree by the user: records untouched; a generated path is at most deleted -/
structure EditOK (S : Shape) (w w' : World) : Prop where
  recs : w'.recs = w.recs
  files : ∀ p, w'.files p = w.files p ∨ w'.files p = .missing ∨ S.owner p = none

theorem dinv_edit {P : Params} {S : Shape} {w w' : World} {G : Ghost} (di : DInv P S w G) (he : EditOK S w w') : DInv P S w' G := by
  constructor
  · intro l r e h hrr hd g hg
    rw [he.recs] at h
    rcases he.files g with h1 | h1 | h1
    · rw [h1]; exact di.rec_out l r e h hrr hd g hg
    · left; exact h1
    · rw [S.owned l e g hg] at h1; cases h1
  · intro l r e h; rw [he.recs] at h; exact di.rec_attrs l r e h
  · intro l r e a h; rw [he.recs] at h; exact di.rec_hist l r e a h
  · intro l r e a h; rw [he.recs] at h; exact di.rec_seen l r e a h
  · intro l r h; rw [he.recs] at h ⊢; exact di.runs_le l r h
  · intro l r h; rw [he.recs] at h; exact di.src_runs l r h

theorem dinv_empty (P : Params) (S : Shape) (w : World) (G : Ghost) (h : ∀ l, w.recs l = none) : DInv P S w G := by
  constructor
  · intro l r e hr; rw [h l] at hr; cases hr
  · intro l r e hr; rw [h l] at hr; cases hr
  · intro l r e a hr; rw [h l] at hr; cases hr
  · intro l r e a hr; rw [h l] at hr; cases hr
  · intro l r hr; rw [h l] at hr; cases hr
  · intro l r hr; rw [h l] at hr; cases hr

/-- C01, from-scratch form, for one real build after ANY earlier history that kept `DInv`: every target the build
visited successfully holds exactly what its body computes from the present files of what it reads, and every
generated file it declares is present. -/
theorem build_consistent {P : Params} {S : Shape} {t : Tree} {o : Opts} (hc : Conforms S t) (hinj : SumInj P)
    (hsr : P.stampRuns = true) (hlc : P.listCheck = true) (hdry : o.dry = false) (ord : List Label) (w : World) (G : Ghost)
    (di : DInv P S w G) (ho : Ordered P t o (BSt.init (load t w)) ord) (hret : ∀ x, G.retired x → t.defs x = none) :
    ∃ G', DInv P S (runBuild P t o ord w).w G' ∧ G'.retired = G.retired ∧
      ∀ l m d, (runBuild P t o ord w).memo l = some m → m.ok = true → t.defs l = some d → d.kind = .fn →
        Consistent P t (runBuild P t o ord w).w l d := by
  obtain ⟨G', di', mi', hr'⟩ := build_inv hc hinj hsr hlc hdry ord (BSt.init (load t w)) G (dinv_load t di) (minv_init t _ G) ho hret
  refine ⟨G', di', hr', ?_⟩
  intro l m d hm hok hd hk
  obtain ⟨d', hd', h⟩ := mi'.mok l m hm hok
  rw [hd] at hd'; cases hd'
  simp only [hk] at h
  obtain ⟨_, _, _, _, _, _, hcons⟩ := h
  exact hcons

end Dawn.Build

import Dawn.Proofs.EnvTerms
/-!
The traversal as a term: `toTerm` follows `encVal` call by call and returns the tree of what is written instead of
the flat opcode list; `encVal_toTerm`: `encVal` writes exactly `serT` of that tree (when the batch loops do not
re-encode the container, i.e. after the repair of D2). Second quarter of C08_sensitive.
-/
namespace Dawn.Env

abbrev TRes := Except Err (EncSt × Term)

/-- the values of a list one after the other, threading the state; the terms in order -/
def tSeq (f : EncSt → Val → TRes) : EncSt → List Val → Except Err (EncSt × List Term)
  | st, [] => .ok (st, [])
  | st, x :: xs =>
    match f st x with
    | .error e => .error e
    | .ok (st1, t) =>
      match tSeq f st1 xs with
      | .error e => .error e
      | .ok (st2, ts) => .ok (st2, t :: ts)

def tupleOf (ts : List Term) : Term := .tuple (Terms.ofList ts)

def markerTerm (name : Bytes) (idx : Nat) : Term :=
  .host nameRecursive (tupleOf [.atom (.str name), .atom (.int idx)])

def toTerm (cfg : Cfg) (g : Heap) : Nat → EncSt → Val → TRes
  | _, st, .atom a => .ok (st, .atom a)
  | 0, _, .ref _ => .error .outOfFuel
  | fuel+1, st, .ref a =>
    match lookup st.memo a with
    | some id => .ok (st, .bg id)
    | none =>
      match g[a]? with
      | none => .error .badRef
      | some (.tuple xs) =>
        match tSeq (toTerm cfg g fuel) st xs with
        | .error e => .error e
        | .ok (st', ts) => .ok (st', tupleOf ts)
      | some (.set xs) =>
        match tSeq (toTerm cfg g fuel) (st.memoize cfg a) xs with
        | .error e => .error e
        | .ok (st', ts) => .ok (st', .set (Terms.ofList ts))
      | some (.dict kvs) =>
        match tSeq (toTerm cfg g fuel) (st.memoize cfg a) (flattenKvs kvs) with
        | .error e => .error e
        | .ok (st', ts) => .ok (st', .dict (Terms.ofList ts))
      | some (.list xs) =>
        match tSeq (toTerm cfg g fuel) (st.memoize cfg a) xs with
        | .error e => .error e
        | .ok (st', ts) => .ok (st', .list (Terms.ofList ts))
      | some (.target label) => .ok (st.memoize cfg a, .host nameTarget (tupleOf [.atom (.str label)]))
      | some (.builtin name recv) =>
        if cfg.builtinIdentity then
          match (if cfg.fixed then indexOf st.seen a else none) with
          | some idx => .ok (st.memoize cfg a, markerTerm name idx)
          | none =>
            let st0 := if cfg.fixed then { st with seen := st.seen ++ [a] } else st
            match toTerm cfg g fuel st0 recv with
            | .error e => .error e
            | .ok (st', t) => .ok (st'.memoize cfg a, .host nameBuiltin (tupleOf [.atom (.str name), t]))
        else .ok (st.memoize cfg a, .host nameBuiltin (tupleOf []))
      | some .mandatory =>
        if cfg.mandatory then .ok (st.memoize cfg a, .host nameMandatory (tupleOf [])) else .error .cannotPickle
      | some .other => .error .cannotPickle
      | some (.code name m gl bc sig) =>
        match (if cfg.fixed then indexOf st.seen a else none) with
        | some idx => .ok (st.memoize cfg a, markerTerm name idx)
        | none =>
          let st0 := if cfg.fixed then { st with seen := st.seen ++ [a] } else st
          match tSeq (toTerm cfg g fuel) st0 [m, gl] with
          | .error e => .error e
          | .ok (st1, ts1) =>
            if cfg.signature then
              match toTerm cfg g fuel st1 sig with
              | .error e => .error e
              | .ok (st', t2) => .ok (st'.memoize cfg a, .host nameCode (tupleOf (ts1 ++ [.atom (.bytes bc), t2])))
            else .ok (st1.memoize cfg a, .host nameCode (tupleOf (ts1 ++ [.atom (.bytes bc)])))
      | some (.func name d fv c) =>
        match (if cfg.fixed then indexOf st.seen a else none) with
        | some idx => .ok (st.memoize cfg a, markerTerm name idx)
        | none =>
          let st0 := if cfg.fixed then { st with seen := st.seen ++ [a] } else st
          match tSeq (toTerm cfg g fuel) st0 [d, fv, c] with
          | .error e => .error e
          | .ok (st', ts) => .ok (st'.memoize cfg a, .host nameFunc (tupleOf ts))

/-- what `encVal` returns when the traversal, seen as a term, returns `r` -/
def written (n : Nat) : TRes → Res
  | .error e => .error e
  | .ok (st, t) => .ok (st, serT n t)

def writtenSeq (n : Nat) : Except Err (EncSt × List Term) → Res
  | .error e => .error e
  | .ok (st, ts) => .ok (st, (ts.map (serT n)).flatten)

theorem encSeq_tSeq (n : Nat) (f : EncSt → Val → Res) (f' : EncSt → Val → TRes)
    (hf : ∀ st x, f st x = written n (f' st x)) :
    ∀ xs st, encSeq f st xs = writtenSeq n (tSeq f' st xs) := by
  intro xs
  induction xs with
  | nil => intro st; rfl
  | cons x xs ih =>
    intro st
    simp only [encSeq, tSeq, hf]
    cases f' st x with
    | error e => rfl
    | ok p =>
      obtain ⟨st1, t⟩ := p
      simp only [written, ih]
      cases tSeq f' st1 xs with
      | error e => rfl
      | ok q => obtain ⟨st2, ts⟩ := q; simp [writtenSeq]

theorem tSeq_append (f : EncSt → Val → TRes) (a b : List Val) (st : EncSt) :
    tSeq f st (a ++ b) =
      match tSeq f st a with
      | .error e => .error e
      | .ok (st1, ta) =>
        match tSeq f st1 b with
        | .error e => .error e
        | .ok (st2, tb) => .ok (st2, ta ++ tb) := by
  induction a generalizing st with
  | nil =>
    simp only [List.nil_append, tSeq]
    cases tSeq f st b with
    | error e => rfl
    | ok p => rfl
  | cons x a ih =>
    simp only [List.cons_append, tSeq]
    cases f st x with
    | error e => rfl
    | ok p =>
      obtain ⟨st1, t⟩ := p
      simp only [ih]
      cases tSeq f st1 a with
      | error e => rfl
      | ok q =>
        obtain ⟨st2, ta⟩ := q
        simp only []
        cases tSeq f st2 b with
        | error e => rfl
        | ok r => rfl

theorem tSeq_length (f : EncSt → Val → TRes) (xs : List Val) (st st' : EncSt) (ts : List Term)
    (h : tSeq f st xs = .ok (st', ts)) : ts.length = xs.length := by
  induction xs generalizing st st' ts with
  | nil => simp [tSeq] at h; simp [h.2.symm]
  | cons x xs ih =>
    simp only [tSeq] at h
    cases hx : f st x with
    | error e => rw [hx] at h; simp at h
    | ok p =>
      obtain ⟨st1, t⟩ := p
      rw [hx] at h; simp only [] at h
      cases hr : tSeq f st1 xs with
      | error e => rw [hr] at h; simp at h
      | ok q =>
        obtain ⟨st2, ts'⟩ := q
        rw [hr] at h; simp at h
        rw [← h.2]; simp [ih st1 st2 ts' hr]

/-- the batch loop without re-encoding: the state threads through all elements one after the other and the
opcodes are the batches of the per-element opcodes -/
theorem encBatches_tSeq (cfg : Cfg) (hre : cfg.reencode = false) (m n : Nat) (hm : m ≠ 0)
    (f : EncSt → Val → Res) (f' : EncSt → Val → TRes)
    (hf : ∀ st x, f st x = written n (f' st x)) (self : Nat) (close : Op) :
    ∀ (xs : List Val) (first : Bool) (st : EncSt),
      encBatches cfg f self close first st (chunks m xs) =
        (match tSeq f' st xs with
         | .error e => .error e
         | .ok (st', ts) => .ok (st', serBatches m close (ts.map (serT n)))) := by
  intro xs
  induction h : xs.length using Nat.strongRecOn generalizing xs with
  | _ len ih =>
    intro first st
    by_cases hx : xs = []
    · subst hx
      rw [chunks_stop _ _ (Or.inr rfl)]
      simp [encBatches, tSeq, serBatches, chunks_stop]
    · rw [chunks_step _ _ hm hx]
      have hpos : 0 < xs.length := List.length_pos_iff.mpr hx
      have hlt : (xs.drop m).length < len := by simp [List.length_drop]; omega
      have hsplit : xs = xs.take m ++ xs.drop m := (List.take_append_drop m xs).symm
      simp only [encBatches, hre, Bool.not_false, Bool.or_true, ↓reduceIte, List.nil_append,
        encSeq_tSeq n f f' hf, ih _ hlt (xs.drop m) rfl]
      conv => rhs; rw [hsplit, tSeq_append]
      cases ha : tSeq f' st (xs.take m) with
      | error e => rfl
      | ok p =>
        obtain ⟨st1, ta⟩ := p
        simp only [writtenSeq]
        cases hb : tSeq f' st1 (xs.drop m) with
        | error e => rfl
        | ok q =>
          obtain ⟨st2, tb⟩ := q
          simp only []
          have hla : ta.length = min m xs.length := by rw [tSeq_length f' _ _ _ _ ha, List.length_take]
          have hlb : tb.length = xs.length - m := by rw [tSeq_length f' _ _ _ _ hb, List.length_drop]
          have hne : ta ++ tb ≠ [] := by
            intro e
            have : (ta ++ tb).length = 0 := by rw [e]; rfl
            simp only [List.length_append] at this
            omega
          have hne' : (ta ++ tb).map (serT n) ≠ [] := by simpa using hne
          have hboth : ((ta ++ tb).map (serT n)).take m = ta.map (serT n) ∧
              ((ta ++ tb).map (serT n)).drop m = tb.map (serT n) := by
            by_cases hfull : m ≤ xs.length
            · have hm' : ta.length = m := by omega
              rw [List.map_append]
              constructor
              · rw [List.take_append_of_le_length (by simp only [List.length_map]; omega)]
                rw [List.take_of_length_le (by simp only [List.length_map]; omega)]
              · rw [List.drop_append_of_le_length (by simp only [List.length_map]; omega)]
                rw [List.drop_of_length_le (by simp only [List.length_map]; omega)]
                rfl
            · have htb : tb = [] := by
                have : tb.length = 0 := by omega
                exact List.length_eq_zero_iff.mp this
              subst htb
              rw [List.append_nil]
              constructor
              · rw [List.take_of_length_le (by simp only [List.length_map]; omega)]
              · rw [List.drop_of_length_le (by simp only [List.length_map]; omega)]
                rfl
          obtain ⟨htake, hdrop⟩ := hboth
          simp only [serBatches]
          rw [chunks_step _ _ hm hne', htake, hdrop]
          simp [List.flatMap_cons]

theorem chunks_flattenKvs (m : Nat) (kvs : List (Val × Val)) :
    (chunks m kvs).map flattenKvs = chunks (2 * m) (flattenKvs kvs) := by
  induction h : kvs.length using Nat.strongRecOn generalizing kvs with
  | _ len ih =>
    by_cases hm : m = 0
    · subst hm; rw [chunks_stop _ _ (Or.inl rfl), chunks_stop _ _ (Or.inl rfl)]; rfl
    · by_cases hx : kvs = []
      · subst hx; rw [chunks_stop _ _ (Or.inr rfl)]; simp [flattenKvs, chunks_stop]
      · have hfl : ∀ l : List (Val × Val), (flattenKvs l).length = 2 * l.length := by
          intro l; induction l with
          | nil => rfl
          | cons p r ihr => obtain ⟨k, v⟩ := p; simp [flattenKvs, ihr]; omega
        have htake : ∀ (k : Nat) (l : List (Val × Val)), flattenKvs (l.take k) = (flattenKvs l).take (2 * k) := by
          intro k
          induction k with
          | zero => intro l; simp [flattenKvs]
          | succ k ihk =>
            intro l
            cases l with
            | nil => simp [flattenKvs]
            | cons p r =>
              obtain ⟨a, b⟩ := p
              have : 2 * (k + 1) = (2 * k + 1) + 1 := by omega
              simp [flattenKvs, this, ihk r]
        have hdrop : ∀ (k : Nat) (l : List (Val × Val)), flattenKvs (l.drop k) = (flattenKvs l).drop (2 * k) := by
          intro k
          induction k with
          | zero => intro l; simp
          | succ k ihk =>
            intro l
            cases l with
            | nil => simp [flattenKvs]
            | cons p r =>
              obtain ⟨a, b⟩ := p
              have : 2 * (k + 1) = (2 * k + 1) + 1 := by omega
              simp [flattenKvs, this, ihk r]
        have hne : flattenKvs kvs ≠ [] := by
          cases kvs with
          | nil => exact absurd rfl hx
          | cons p r => obtain ⟨a, b⟩ := p; simp [flattenKvs]
        rw [chunks_step _ _ hm hx, chunks_step _ _ (by omega) hne]
        have hpos : 0 < kvs.length := List.length_pos_iff.mpr hx
        have hlt : (kvs.drop m).length < len := by simp [List.length_drop]; omega
        simp only [List.map_cons, htake, ih _ hlt (kvs.drop m) rfl, hdrop]

end Dawn.Env

namespace Dawn.Env

theorem serT_tupleOf (n : Nat) (ts : List Term) :
    serT n (tupleOf ts) =
      (match ts.length with
       | 0 => [.emptyTuple]
       | 1 => (ts.map (serT n)).flatten ++ [.tuple1]
       | 2 => (ts.map (serT n)).flatten ++ [.tuple2]
       | 3 => (ts.map (serT n)).flatten ++ [.tuple3]
       | _ => [.mark] ++ (ts.map (serT n)).flatten ++ [.tuple]) := by
  match ts with
  | [] => simp [tupleOf, serT, serTs, Terms.ofList]
  | [a] => simp [tupleOf, serT, serTs, Terms.ofList]
  | [a, b] => simp [tupleOf, serT, serTs, Terms.ofList]
  | [a, b, c] => simp [tupleOf, serT, serTs, Terms.ofList]
  | a :: b :: c :: d :: r => simp [tupleOf, serT, serTs, Terms.ofList, serTs_eq, Terms.toList_ofList]

/-- `encVal` writes the serialisation of the term `toTerm` returns -/
theorem encVal_toTerm (cfg : Cfg) (hre : cfg.reencode = false) (hb : cfg.batch ≠ 0) (g : Heap) :
    ∀ fuel st v, encVal cfg g fuel st v = written cfg.batch (toTerm cfg g fuel st v) := by
  intro fuel
  induction fuel with
  | zero =>
    intro st v
    cases v with
    | atom a => simp [encVal, toTerm, written, serT]
    | ref a => rfl
  | succ fuel ih =>
    intro st v
    cases v with
    | atom a => simp [encVal, toTerm, written, serT]
    | ref a =>
      simp only [encVal, toTerm]
      cases hl : lookup st.memo a with
      | some id => simp [written, serT]
      | none =>
        simp only []
        cases hg : g[a]? with
        | none => rfl
        | some o =>
          cases o with
          | tuple xs =>
            simp only [encSeq_tSeq cfg.batch _ _ ih]
            cases hs : tSeq (toTerm cfg g fuel) st xs with
            | error e => rfl
            | ok p =>
              obtain ⟨st', ts⟩ := p
              have hlen := tSeq_length _ _ _ _ _ hs
              simp only [writtenSeq, written, serT_tupleOf, hlen]
              generalize xs.length = k
              match k with
              | 0 | 1 | 2 | 3 => rfl
              | k + 4 => rfl
          | set xs =>
            simp only [encBatches_tSeq cfg hre cfg.batch cfg.batch hb _ _ ih]
            cases tSeq (toTerm cfg g fuel) (st.memoize cfg a) xs with
            | error e => rfl
            | ok p => obtain ⟨st', ts⟩ := p; simp [written, serT, serTs_eq, Terms.toList_ofList]
          | dict kvs =>
            simp only [chunks_flattenKvs, encBatches_tSeq cfg hre (2 * cfg.batch) cfg.batch (by omega) _ _ ih]
            cases tSeq (toTerm cfg g fuel) (st.memoize cfg a) (flattenKvs kvs) with
            | error e => rfl
            | ok p => obtain ⟨st', ts⟩ := p; simp [written, serT, serTs_eq, Terms.toList_ofList]
          | list xs =>
            cases xs with
            | nil => simp [tSeq, written, serT, serTs, Terms.ofList]
            | cons x rest =>
              cases rest with
              | nil =>
                simp only [ih, tSeq]
                cases toTerm cfg g fuel (st.memoize cfg a) x with
                | error e => rfl
                | ok p => obtain ⟨st', t⟩ := p; simp [written, serT, serTs, Terms.ofList]
              | cons y rest =>
                simp only [encBatches_tSeq cfg hre cfg.batch cfg.batch hb _ _ ih]
                cases hs : tSeq (toTerm cfg g fuel) (st.memoize cfg a) (x :: y :: rest) with
                | error e => rfl
                | ok p =>
                  obtain ⟨st', ts⟩ := p
                  have hlen := tSeq_length _ _ _ _ _ hs
                  match ts, hlen with
                  | t1 :: t2 :: ts', _ => simp [written, serT, serTs_eq, Terms.toList_ofList]
          | target label => simp [written, serT, serTs, tupleOf, Terms.ofList, hostHeader, encAtom]
          | mandatory =>
            simp only []
            split
            · simp [written, serT, serTs, tupleOf, Terms.ofList, hostHeader]
            · rfl
          | other => rfl
          | builtin name recv =>
            simp only []
            split
            · cases hi : (if cfg.fixed = true then indexOf st.seen a else none) with
              | some idx => simp [written, serT, serTs, markerTerm, tupleOf, Terms.ofList, hostHeader, encAtom]
              | none =>
                simp only [ih]
                cases toTerm cfg g fuel (if cfg.fixed = true then { st with seen := st.seen ++ [a] } else st) recv with
                | error e => rfl
                | ok p => obtain ⟨st', t⟩ := p; simp [written, serT, serTs, tupleOf, Terms.ofList, hostHeader, encAtom]
            · simp [written, serT, serTs, tupleOf, Terms.ofList, hostHeader]
          | code name m gl bc sig =>
            simp only []
            cases hi : (if cfg.fixed = true then indexOf st.seen a else none) with
            | some idx => simp [written, serT, serTs, markerTerm, tupleOf, Terms.ofList, hostHeader, encAtom]
            | none =>
              simp only [encSeq_tSeq cfg.batch _ _ ih]
              cases hs : tSeq (toTerm cfg g fuel) (if cfg.fixed = true then { st with seen := st.seen ++ [a] } else st) [m, gl] with
              | error e => rfl
              | ok p =>
                obtain ⟨st1, ts1⟩ := p
                have hlen := tSeq_length _ _ _ _ _ hs
                match ts1, hlen with
                | [t1, t2], _ =>
                  simp only [writtenSeq]
                  split
                  · simp only [ih]
                    cases toTerm cfg g fuel st1 sig with
                    | error e => rfl
                    | ok q =>
                      obtain ⟨st', t3⟩ := q
                      simp [written, serT, serTs, tupleOf, Terms.ofList, hostHeader, encAtom]
                  · simp [written, serT, serTs, tupleOf, Terms.ofList, hostHeader, encAtom]
          | func name d fv c =>
            simp only []
            cases hi : (if cfg.fixed = true then indexOf st.seen a else none) with
            | some idx => simp [written, serT, serTs, markerTerm, tupleOf, Terms.ofList, hostHeader, encAtom]
            | none =>
              simp only [encSeq_tSeq cfg.batch _ _ ih]
              cases hs : tSeq (toTerm cfg g fuel) (if cfg.fixed = true then { st with seen := st.seen ++ [a] } else st) [d, fv, c] with
              | error e => rfl
              | ok p =>
                obtain ⟨st', ts⟩ := p
                have hlen := tSeq_length _ _ _ _ _ hs
                match ts, hlen with
                | [t1, t2, t3], _ => simp [writtenSeq, written, serT, serTs, tupleOf, Terms.ofList, hostHeader]

end Dawn.Env

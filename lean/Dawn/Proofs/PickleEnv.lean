import Dawn.Proofs.PickleDec
/-! dawn's `envUnpickler` (model `envHost`) is a well-behaved host: it never panics with a non-error value, and what it
returns — an argument, the argument tuple, a string, a new dict, the updated function-code dict — only extends the
heap and keeps every reference in range. -/
namespace Dawn.Pickle

def HeapClosed (h : Heap) : Prop := ∀ o ∈ h, o.closed h.length

theorem HeapClosed.append {h : Heap} (hc : HeapClosed h) (o : Obj) (ho : o.closed h.length) : HeapClosed (h ++ [o]) := by
  intro x hx
  have hle : h.length ≤ (h ++ [o]).length := by simp
  simp only [List.mem_append, List.mem_singleton] at hx
  rcases hx with hx | rfl
  · exact Obj.closed_mono hle (hc x hx)
  · exact Obj.closed_mono hle ho

theorem HeapClosed.get {h : Heap} (hc : HeapClosed h) {a : Nat} {o : Obj} (hg : h[a]? = some o) : o.closed h.length :=
  hc o (List.mem_of_getElem? hg)

theorem envPairs_closed {h : Heap} (hc : HeapClosed h) : ∀ (ps : List Val) (acc kvs : List (Val × Val)),
    (∀ p ∈ acc, p.1.closed h.length ∧ p.2.closed h.length) → envPairs h ps acc = some kvs →
    ∀ p ∈ kvs, p.1.closed h.length ∧ p.2.closed h.length := by
  intro ps
  induction ps with
  | nil => intro acc kvs ha he; simp only [envPairs, Option.some.injEq] at he; subst he; exact ha
  | cons pv rest ih =>
    intro acc kvs ha he
    cases pv with
    | ref p =>
      simp only [envPairs] at he
      split at he
      · rename_i k v tl hp
        have hcl := hc.get hp
        refine ih _ kvs ?_ he
        exact dictInsert_all h (Val.closed h.length) acc _ v ha trivial (hcl v (by simp))
      · cases he
    | atom _ => simp [envPairs] at he
    | mark => simp [envPairs] at he
    | global _ _ _ => simp [envPairs] at he

/-- `makeDictFromAssociationList` extends the heap by at most one closed dict and returns a value in range -/
theorem envMakeDict_ok {h h' : Heap} {al d : Val} (hc : HeapClosed h) (hm : envMakeDict h al = some (h', d)) :
    h.length ≤ h'.length ∧ HeapClosed h' ∧ d.closed h'.length ∧ (∀ (a : Nat) (o : Obj), h[a]? = some o → h'[a]? = some o) := by
  unfold envMakeDict at hm
  have same : (some (h, Val.atom Atom.none) = some (h', d)) →
      h.length ≤ h'.length ∧ HeapClosed h' ∧ d.closed h'.length ∧ (∀ (a : Nat) (o : Obj), h[a]? = some o → h'[a]? = some o) := by
    intro e
    simp only [Option.some.injEq, Prod.mk.injEq] at e
    obtain ⟨rfl, rfl⟩ := e
    exact ⟨Nat.le_refl _, hc, trivial, fun _ _ x => x⟩
  split at hm
  · rename_i a
    split at hm
    · rename_i pairs hp
      split at hm
      · rename_i kvs hk
        simp only [Option.some.injEq, Prod.mk.injEq] at hm
        obtain ⟨rfl, rfl⟩ := hm
        have hk' := envPairs_closed hc pairs [] kvs (by simp) hk
        refine ⟨by simp, hc.append _ hk', by simp [Val.closed], ?_⟩
        intro b o hb
        have : b < h.length := by
          rcases Nat.lt_or_ge b h.length with x | x
          · exact x
          · simp [List.getElem?_eq_none x] at hb
        rw [List.getElem?_append_left this]; exact hb
      · cases hm
    · exact same hm
  · exact same hm

theorem envFunctionCode_ok {h : Heap} (hc : HeapClosed h) (m globals bytecode : Val) (params : List (Val × Val))
    (hm : m.closed h.length) (hg : globals.closed h.length) (hb : bytecode.closed h.length)
    (hp : ∀ p ∈ params, p.1.closed h.length ∧ p.2.closed h.length) :
    envFunctionCode h m globals bytecode params ≠ .otherPanic ∧
    ∀ h' v, envFunctionCode h m globals bytecode params = .result h' v → hostResultOK h h' v = true := by
  unfold envFunctionCode
  split
  · rename_i ma
    split
    · rename_i names constants predeclared universals functions tl hma
      have hcl := hc.get hma
      split
      · exact ⟨fun e => HostVerdict.noConfusion e, fun _ _ e => HostVerdict.noConfusion e⟩
      · rename_i h1 dp e1
        obtain ⟨l1, c1, d1, _⟩ := envMakeDict_ok hc e1
        split
        · exact ⟨fun e => HostVerdict.noConfusion e, fun _ _ e => HostVerdict.noConfusion e⟩
        · rename_i h2 du e2
          obtain ⟨l2, c2, d2, _⟩ := envMakeDict_ok c1 e2
          split
          · exact ⟨fun e => HostVerdict.noConfusion e, fun _ _ e => HostVerdict.noConfusion e⟩
          · rename_i h3 dg e3
            obtain ⟨l3, c3, d3, _⟩ := envMakeDict_ok c2 e3
            refine ⟨fun e => HostVerdict.noConfusion e, fun h' v e => ?_⟩
            simp only [HostVerdict.result.injEq] at e
            obtain ⟨rfl, rfl⟩ := e
            have up : ∀ {x : Val}, x.closed h.length → x.closed h3.length :=
              fun hx => Val.closed_mono (by omega) hx
            rw [hostResultOK_iff]
            refine ⟨by simp; omega, by simp [Val.closed], c3.append _ ?_⟩
            intro p hp'
            simp only [List.cons_append, List.nil_append, List.mem_cons] at hp'
            rcases hp' with rfl | rfl | rfl | rfl | rfl | rfl | rfl | hp'
            · exact ⟨trivial, up (hcl names (by simp))⟩
            · exact ⟨trivial, up (hcl constants (by simp))⟩
            · exact ⟨trivial, Val.closed_mono (by omega) d1⟩
            · exact ⟨trivial, Val.closed_mono (by omega) d2⟩
            · exact ⟨trivial, up (hcl functions (by simp))⟩
            · exact ⟨trivial, d3⟩
            · exact ⟨trivial, up hb⟩
            · exact ⟨up (hp p hp').1, up (hp p hp').2⟩
    · exact ⟨fun e => HostVerdict.noConfusion e, fun _ _ e => HostVerdict.noConfusion e⟩
  · exact ⟨fun e => HostVerdict.noConfusion e, fun _ _ e => HostVerdict.noConfusion e⟩

def VerdictOK (h : Heap) (r : HostVerdict) : Prop :=
  r ≠ .otherPanic ∧ ∀ h' v, r = .result h' v → hostResultOK h h' v = true

theorem VerdictOK.error (h : Heap) : VerdictOK h .error := ⟨fun e => HostVerdict.noConfusion e, fun _ _ e => HostVerdict.noConfusion e⟩
theorem VerdictOK.rt (h : Heap) : VerdictOK h .runtimePanic := ⟨fun e => HostVerdict.noConfusion e, fun _ _ e => HostVerdict.noConfusion e⟩

theorem VerdictOK.same {h : Heap} (hc : HeapClosed h) {v : Val} (hv : v.closed h.length) : VerdictOK h (.result h v) := by
  refine ⟨fun e => HostVerdict.noConfusion e, fun h' v' e => ?_⟩
  simp only [HostVerdict.result.injEq] at e
  obtain ⟨rfl, rfl⟩ := e
  rw [hostResultOK_iff]
  exact ⟨Nat.le_refl _, hv, hc⟩

/-- `envUnpickler`, on a well-formed heap and an argument tuple in it, never panics with a non-error value and returns
only well-formed results -/
theorem envHost_ok (h : Heap) (a : Nat) (m n : Bytes) (xs : List Val) (hc : HeapClosed h) (hg : h[a]? = some (.tuple xs)) :
    VerdictOK h (envHost h a m n xs) := by
  have hx : ∀ x ∈ xs, x.closed h.length := hc.get hg
  have ha : a < h.length := by
    rcases Nat.lt_or_ge a h.length with x | x
    · exact x
    · simp [List.getElem?_eq_none x] at hg
  unfold envHost
  split
  · exact VerdictOK.error h
  split
  · split
    · rename_i x; exact VerdictOK.same hc (hx x (by simp))
    · exact VerdictOK.error h
  split
  · split
    · exact VerdictOK.same hc ha
    · exact VerdictOK.error h
  split
  · split
    · exact VerdictOK.same hc ha
    · exact VerdictOK.error h
  split
  · split
    · exact VerdictOK.same hc trivial
    · exact VerdictOK.error h
  split
  · split
    · rename_i mo gl bc
      exact envFunctionCode_ok hc mo gl bc [] (hx mo (by simp)) (hx gl (by simp)) (hx bc (by simp)) (by simp)
    · rename_i mo gl bc pa
      refine envFunctionCode_ok hc mo gl bc _ (hx mo (by simp)) (hx gl (by simp)) (hx bc (by simp)) ?_
      intro p hp
      simp only [List.mem_singleton] at hp
      subst hp
      exact ⟨trivial, hx pa (by simp)⟩
    · exact VerdictOK.error h
  split
  · split
    · rename_i defaults freeVars fc
      split
      · rename_i kvs hfc
        have hkvs := hc.get hfc
        split
        · exact VerdictOK.rt h
        · rename_i h1 d1 e1
          obtain ⟨l1, c1, dc1, k1⟩ := envMakeDict_ok hc e1
          split
          · exact VerdictOK.rt h
          · rename_i h2 d2 e2
            obtain ⟨l2, c2, dc2, k2⟩ := envMakeDict_ok c1 e2
            refine ⟨fun e => HostVerdict.noConfusion e, fun h' v e => ?_⟩
            simp only [HostVerdict.result.injEq] at e
            obtain ⟨rfl, rfl⟩ := e
            have hfc2 : fc < h2.length := by
              have := k2 fc _ (k1 fc _ hfc)
              rcases Nat.lt_or_ge fc h2.length with x | x
              · exact x
              · simp [List.getElem?_eq_none x] at this
            rw [hostResultOK_iff]
            refine ⟨by simp; omega, by simp [Val.closed, hfc2], ?_⟩
            intro o ho
            simp only [List.length_set]
            rcases List.mem_or_eq_of_mem_set ho with ho | rfl
            · exact c2 o ho
            · have up : ∀ p ∈ kvs, p.1.closed h2.length ∧ p.2.closed h2.length :=
                fun p hp => ⟨Val.closed_mono (by omega) (hkvs p hp).1, Val.closed_mono (by omega) (hkvs p hp).2⟩
              exact dictInsert_all h2 (Val.closed h2.length) _ _ _
                (dictInsert_all h2 (Val.closed h2.length) kvs _ _ up trivial (Val.closed_mono l2 dc1)) trivial dc2
      · exact VerdictOK.rt h
    · exact VerdictOK.rt h
    · exact VerdictOK.error h
  · exact VerdictOK.error h

end Dawn.Pickle

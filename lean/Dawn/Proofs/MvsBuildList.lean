import Dawn.Proofs.MvsOrder
/-!
# `buildList` computes "reachable, at the greatest version" (C10)

The exploration is the worklist of `design-probes/mvs-buildlist` (closure invariant "every requirement of a visited
node is visited or pending"), now over the model's `explore`, which also keeps `Graph.required`; the selection is
`Graph`'s incremental maximum, shown to be the maximum of the order `cmpVersion` over everything reachable.
-/
namespace Dawn.Mvs

/-- the edges `buildList` follows out of a module: its requirements (none for version `"none"` or when they cannot
be loaded), preceded by its upgrade when there is an upgrade function and it moves the module -/
def edges (rq : Reqs) (up : Option (Mod → Option Mod)) (m : Mod) : List Mod := (workItem rq up m).1

/-- reachable from the target through `edges` -/
inductive Reach (rq : Reqs) (up : Option (Mod → Option Mod)) (target : Mod) : Mod → Prop where
  | root : Reach rq up target target
  | step (n m : Mod) : Reach rq up target n → m ∈ edges rq up n → Reach rq up target m

theorem any_fst_iff (log : List (Mod × List Mod)) (m : Mod) :
    (log.any (·.1 = m)) = true ↔ ∃ e ∈ log, e.1 = m := by
  simp [List.any_eq_true]

/-- invariant of the exploration -/
structure XInv (rq : Reqs) (up : Option (Mod → Option Mod)) (target : Mod) (todo : List Mod)
    (log : List (Mod × List Mod)) : Prop where
  entries : ∀ e ∈ log, e.2 = edges rq up e.1
  sound : ∀ e ∈ log, Reach rq up target e.1
  tsound : ∀ n ∈ todo, Reach rq up target n
  root : (∃ e ∈ log, e.1 = target) ∨ target ∈ todo
  closed : ∀ e ∈ log, ∀ m ∈ e.2, (∃ e' ∈ log, e'.1 = m) ∨ m ∈ todo

theorem explore_inv (rq : Reqs) (up : Option (Mod → Option Mod)) (target : Mod) :
    ∀ fuel todo log err out, XInv rq up target todo log → explore rq up fuel todo log err = some out →
      XInv rq up target [] out.1 := by
  intro fuel
  induction fuel with
  | zero =>
    intro todo log err out inv h
    cases todo with
    | nil => simp [explore] at h; subst h; exact inv
    | cons n t => simp [explore] at h
  | succ fuel ih =>
    intro todo log err out inv h
    cases todo with
    | nil => simp [explore] at h; subst h; exact inv
    | cons n t =>
      simp only [explore] at h
      split at h
      · rename_i hn
        have hn' := (any_fst_iff log n).mp hn
        apply ih t log err out _ h
        refine ⟨inv.entries, inv.sound, fun m hm => inv.tsound m (List.mem_cons_of_mem _ hm), ?_, ?_⟩
        · rcases inv.root with h1 | h1
          · exact Or.inl h1
          · rcases List.mem_cons.mp h1 with rfl | h2
            · exact Or.inl hn'
            · exact Or.inr h2
        · intro a ha m hm
          rcases inv.closed a ha m hm with h1 | h1
          · exact Or.inl h1
          · rcases List.mem_cons.mp h1 with rfl | h2
            · exact Or.inl hn'
            · exact Or.inr h2
      · rename_i hn
        apply ih _ _ _ out _ h
        have hrn : Reach rq up target n := inv.tsound n List.mem_cons_self
        refine ⟨?_, ?_, ?_, ?_, ?_⟩
        · intro e he
          rcases List.mem_cons.mp he with rfl | h1
          · rfl
          · exact inv.entries e h1
        · intro e he
          rcases List.mem_cons.mp he with rfl | h1
          · exact hrn
          · exact inv.sound e h1
        · intro a ha
          rcases List.mem_append.mp ha with h1 | h1
          · exact Reach.step n a hrn h1
          · exact inv.tsound a (List.mem_cons_of_mem _ h1)
        · rcases inv.root with ⟨e, he, h1⟩ | h1
          · exact Or.inl ⟨e, List.mem_cons_of_mem _ he, h1⟩
          · rcases List.mem_cons.mp h1 with rfl | h2
            · exact Or.inl ⟨_, List.mem_cons_self, rfl⟩
            · exact Or.inr (List.mem_append_right _ h2)
        · intro a ha m hm
          rcases List.mem_cons.mp ha with rfl | h1
          · exact Or.inr (List.mem_append_left _ hm)
          · rcases inv.closed a h1 m hm with ⟨e', he', h2⟩ | h2
            · exact Or.inl ⟨e', List.mem_cons_of_mem _ he', h2⟩
            · rcases List.mem_cons.mp h2 with rfl | h3
              · exact Or.inl ⟨_, List.mem_cons_self, rfl⟩
              · exact Or.inr (List.mem_append_right _ h3)

theorem xinv_init (rq : Reqs) (up : Option (Mod → Option Mod)) (target : Mod) : XInv rq up target [target] [] :=
  { entries := fun _ h => nomatch h
    sound := fun _ h => nomatch h
    tsound := fun n hn => by rw [List.mem_singleton.mp hn]; exact Reach.root
    root := Or.inr List.mem_cons_self
    closed := fun _ h => nomatch h }

/-- the explored set is exactly the reachable set -/
theorem explore_exact {rq : Reqs} {up : Option (Mod → Option Mod)} {target : Mod} {fuel : Nat}
    {log : List (Mod × List Mod)} {err : Bool}
    (h : explore rq up fuel [target] [] false = some (log, err)) (m : Mod) :
    (∃ e ∈ log, e.1 = m) ↔ Reach rq up target m := by
  have inv := explore_inv rq up target fuel [target] [] false (log, err) (xinv_init rq up target) h
  constructor
  · rintro ⟨e, he, rfl⟩; exact inv.sound e he
  · intro hr
    induction hr with
    | root =>
      rcases inv.root with h1 | h1
      · exact h1
      · cases h1
    | step a m _ hm ih =>
      obtain ⟨e, he, rfl⟩ := ih
      rw [← inv.entries e he] at hm
      rcases inv.closed e he m hm with h1 | h1
      · exact h1
      · cases h1

/-- everything handed to `Graph.Require`, together with the target, is exactly the reachable set -/
theorem deps_exact {rq : Reqs} {up : Option (Mod → Option Mod)} {target : Mod} {fuel : Nat}
    {log : List (Mod × List Mod)} {err : Bool}
    (h : explore rq up fuel [target] [] false = some (log, err)) (m : Mod) :
    m ∈ target :: log.reverse.flatMap (·.2) ↔ Reach rq up target m := by
  have inv := explore_inv rq up target fuel [target] [] false (log, err) (xinv_init rq up target) h
  have hx := explore_exact h
  constructor
  · intro hm
    rcases List.mem_cons.mp hm with rfl | h1
    · exact Reach.root
    · obtain ⟨e, he, hme⟩ := List.mem_flatMap.mp h1
      have he' := List.mem_reverse.mp he
      rw [inv.entries e he'] at hme
      exact Reach.step e.1 m (inv.sound e he') hme
  · intro hr
    cases hr with
    | root => exact List.mem_cons_self
    | step a _ ha hm =>
      obtain ⟨e, he, rfl⟩ := (hx a).mpr ha
      apply List.mem_cons_of_mem
      apply List.mem_flatMap.mpr
      exact ⟨e, List.mem_reverse.mpr he, by rw [inv.entries e he]; exact hm⟩

/-! ### the incremental maximum of `Graph` -/

theorem lookup_setSel (sel : Sel) (p q : String) (v : Ver) :
    (setSel sel p v).lookup q = if q = p then some v else sel.lookup q := by
  induction sel with
  | nil =>
    simp only [setSel, List.lookup]
    by_cases h : q = p
    · subst h; simp
    · have : (q == p) = false := by simpa using h
      simp [h, this]
  | cons e r ih =>
    obtain ⟨k, w⟩ := e
    simp only [setSel]
    by_cases hk : k = p
    · subst hk
      simp only [↓reduceIte, List.lookup]
      by_cases h : q = k
      · subst h; simp
      · have : (q == k) = false := by simpa using h
        simp [h, this]
    · simp only [hk, ↓reduceIte, List.lookup]
      by_cases h : q = k
      · subst h
        have : q ≠ p := hk
        simp [this]
      · have : (q == k) = false := by simpa using h
        simp only [this]
        exact ih

theorem selected_setSel (sel : Sel) (p q : String) (v : Ver) :
    selected (setSel sel p v) q = if q = p then v else selected sel q := by
  simp only [selected, lookup_setSel]
  split <;> simp

theorem selected_selStep (sel : Sel) (m : Mod) (q : String) :
    selected (selStep sel m) q = if q = m.path then vmax (selected sel m.path) m.ver else selected sel q := by
  simp only [selStep, cmpMax_eq, vmax_eq]
  by_cases hc : cmpVersion (selected sel m.path) m.ver = .lt
  · simp only [hc, ↓reduceIte, selected_setSel]
  · simp only [hc, ↓reduceIte]
    split
    · rename_i h; rw [h]
    · rfl

/-- the greatest of `acc` and the versions of the modules of path `p` in a list -/
def maxOver (p : String) (ms : List Mod) (acc : Ver) : Ver :=
  ms.foldl (fun a m => if m.path = p then vmax a m.ver else a) acc

theorem selected_foldl (ms : List Mod) : ∀ (sel : Sel) (p : String),
    selected (ms.foldl selStep sel) p = maxOver p ms (selected sel p) := by
  induction ms with
  | nil => intro sel p; rfl
  | cons m ms ih =>
    intro sel p
    simp only [List.foldl, maxOver]
    rw [ih, selected_selStep]
    by_cases h : m.path = p
    · subst h; simp [maxOver]
    · have : p ≠ m.path := fun e => h e.symm
      simp [h, this, maxOver]

theorem maxOver_ge (p : String) : ∀ (ms : List Mod) (acc : Ver), Ver.le acc (maxOver p ms acc) := by
  intro ms
  induction ms with
  | nil => intro acc; exact Ver.le_refl _
  | cons m ms ih =>
    intro acc
    simp only [maxOver, List.foldl]
    split
    · exact Ver.le_trans (le_vmax_left _ _) (ih _)
    · exact ih _

theorem maxOver_upper (p : String) : ∀ (ms : List Mod) (acc : Ver), ∀ m ∈ ms, m.path = p → Ver.le m.ver (maxOver p ms acc) := by
  intro ms
  induction ms with
  | nil => intro _ m hm; cases hm
  | cons a ms ih =>
    intro acc m hm hp
    simp only [maxOver, List.foldl]
    rcases List.mem_cons.mp hm with rfl | h1
    · simp only [hp, ↓reduceIte]
      exact Ver.le_trans (le_vmax_right _ _) (maxOver_ge p ms _)
    · exact ih _ m h1 hp

theorem maxOver_attained (p : String) : ∀ (ms : List Mod) (acc : Ver),
    maxOver p ms acc = acc ∨ ∃ m ∈ ms, m.path = p ∧ m.ver = maxOver p ms acc := by
  intro ms
  induction ms with
  | nil => intro acc; exact Or.inl rfl
  | cons a ms ih =>
    intro acc
    simp only [maxOver, List.foldl]
    split
    · rename_i hp
      rcases ih (vmax acc a.ver) with h | ⟨n, hn, h1, h2⟩
      · simp only [maxOver] at h
        rw [h]
        rcases vmax_cases acc a.ver with e | e
        · exact Or.inl e
        · exact Or.inr ⟨a, List.mem_cons_self, hp, e.symm⟩
      · exact Or.inr ⟨n, List.mem_cons_of_mem _ hn, h1, h2⟩
    · rcases ih acc with h | ⟨n, hn, h1, h2⟩
      · exact Or.inl h
      · exact Or.inr ⟨n, List.mem_cons_of_mem _ hn, h1, h2⟩

/-- keys pairwise different, no entry at `"none"` -/
structure SelOK (sel : Sel) : Prop where
  nodup : (sel.map (·.1)).Nodup
  notNone : ∀ e ∈ sel, e.2 ≠ Ver.none

theorem keys_setSel (sel : Sel) (p : String) (v : Ver) :
    ∀ k, k ∈ (setSel sel p v).map (·.1) ↔ k = p ∨ k ∈ sel.map (·.1) := by
  induction sel with
  | nil => intro k; simp [setSel]
  | cons e r ih =>
    intro k
    obtain ⟨q, w⟩ := e
    simp only [setSel]
    split
    · rename_i h; subst h; simp
    · simp only [List.map_cons, List.mem_cons, ih]
      constructor
      · rintro (h | h | h) <;> simp [h]
      · rintro (h | h | h) <;> simp [h]

theorem setSel_ok (sel : Sel) (p : String) (v : Ver) (h : SelOK sel) (hv : v ≠ .none) : SelOK (setSel sel p v) := by
  induction sel with
  | nil => exact ⟨by simp [setSel], by simp [setSel, hv]⟩
  | cons e r ih =>
    obtain ⟨q, w⟩ := e
    have hr : SelOK r := ⟨(List.nodup_cons.mp h.nodup).2, fun e he => h.notNone e (List.mem_cons_of_mem _ he)⟩
    simp only [setSel]
    split
    · rename_i hq; subst hq
      refine ⟨h.nodup, ?_⟩
      intro e he
      rcases List.mem_cons.mp he with rfl | h1
      · exact hv
      · exact h.notNone e (List.mem_cons_of_mem _ h1)
    · rename_i hq
      have ih' := ih hr
      refine ⟨?_, ?_⟩
      · simp only [List.map_cons, List.nodup_cons]
        refine ⟨?_, ih'.nodup⟩
        intro hm
        rcases (keys_setSel r p v q).mp hm with h1 | h1
        · exact hq h1
        · exact (List.nodup_cons.mp h.nodup).1 h1
      · intro e he
        rcases List.mem_cons.mp he with rfl | h1
        · exact h.notNone _ List.mem_cons_self
        · exact ih'.notNone e h1

theorem selStep_ok (sel : Sel) (m : Mod) (h : SelOK sel) : SelOK (selStep sel m) := by
  simp only [selStep]
  split
  · rename_i hc
    apply setSel_ok sel _ _ h
    intro e
    rw [cmpMax_eq, e] at hc
    exact Ver.not_le_of_lt hc (Ver.none_le _)
  · exact h

theorem foldl_selStep_ok (ms : List Mod) : ∀ sel, SelOK sel → SelOK (ms.foldl selStep sel) := by
  induction ms with
  | nil => intro sel h; exact h
  | cons m ms ih => intro sel h; exact ih _ (selStep_ok sel m h)

theorem selOK_nil : SelOK [] := ⟨by simp, fun _ h => nomatch h⟩

theorem mem_sel_iff (sel : Sel) (h : SelOK sel) (p : String) (v : Ver) :
    (p, v) ∈ sel ↔ selected sel p = v ∧ v ≠ .none := by
  induction sel with
  | nil => simp [selected]; intro e; exact e.symm
  | cons e r ih =>
    obtain ⟨q, w⟩ := e
    have hr : SelOK r := ⟨(List.nodup_cons.mp h.nodup).2, fun e he => h.notNone e (List.mem_cons_of_mem _ he)⟩
    have hq : q ∉ r.map (·.1) := (List.nodup_cons.mp h.nodup).1
    simp only [List.mem_cons, Prod.mk.injEq, selected, List.lookup]
    by_cases hpq : p = q
    · subst hpq
      simp only [true_and, beq_self_eq_true, Option.getD_some]
      constructor
      · rintro (rfl | h1)
        · exact ⟨rfl, h.notNone _ List.mem_cons_self⟩
        · exact absurd (List.mem_map.mpr ⟨_, h1, rfl⟩) hq
      · rintro ⟨rfl, _⟩; exact Or.inl rfl
    · have hb : (p == q) = false := by simpa using hpq
      simp only [hpq, false_and, false_or, hb]
      exact ih hr

/-! ### insertion sort is a permutation -/

theorem insertByPath_perm (m : Mod) (l : List Mod) : (insertByPath m l).Perm (m :: l) := by
  induction l with
  | nil => exact List.Perm.refl _
  | cons x xs ih =>
    simp only [insertByPath]
    split
    · exact List.Perm.refl _
    · exact (List.Perm.cons x ih).trans (List.Perm.swap m x xs)

theorem sortByPath_perm (l : List Mod) : (sortByPath l).Perm l := by
  induction l with
  | nil => exact List.Perm.refl _
  | cons x xs ih =>
    simp only [sortByPath, List.foldr] at ih ⊢
    exact (insertByPath_perm x _).trans (List.Perm.cons x ih)

theorem mem_sortByPath (l : List Mod) (m : Mod) : m ∈ sortByPath l ↔ m ∈ l := (sortByPath_perm l).mem_iff

/-- membership in `Graph.BuildList` -/
theorem mem_graphBuildList (target : Mod) (sel : Sel) (h : SelOK sel) (p : String) (v : Ver) :
    (⟨p, v⟩ : Mod) ∈ graphBuildList target sel ↔ selected sel p = v ∧ v ≠ .none := by
  simp only [graphBuildList, List.mem_append, mem_sortByPath, List.mem_map, List.mem_filter]
  constructor
  · rintro (h1 | ⟨⟨q, w⟩, ⟨hm, _⟩, he⟩)
    · split at h1
      · rename_i hne
        simp only [List.mem_singleton, Mod.mk.injEq] at h1
        obtain ⟨rfl, rfl⟩ := h1
        exact ⟨rfl, hne⟩
      · cases h1
    · simp only [Mod.mk.injEq] at he
      obtain ⟨rfl, rfl⟩ := he
      exact (mem_sel_iff sel h _ _).mp hm
  · rintro ⟨hs, hv⟩
    by_cases hp : p = target.path
    · left
      subst hp
      rw [hs]
      simp [hv]
    · right
      exact ⟨(p, v), ⟨(mem_sel_iff sel h p v).mpr ⟨hs, hv⟩, by simpa using hp⟩, rfl⟩

theorem nodup_graphBuildList (target : Mod) (sel : Sel) (h : SelOK sel) :
    ((graphBuildList target sel).map (·.path)).Nodup := by
  simp only [graphBuildList, List.map_append]
  have hperm : ((sortByPath ((sel.filter (·.1 ≠ target.path)).map fun pv => (⟨pv.1, pv.2⟩ : Mod))).map (·.path)).Perm
      ((sel.filter (·.1 ≠ target.path)).map (·.1)) := by
    have := (sortByPath_perm ((sel.filter (·.1 ≠ target.path)).map fun pv => (⟨pv.1, pv.2⟩ : Mod))).map (·.path)
    simpa [List.map_map, Function.comp_def] using this
  have hnd : ((sel.filter (·.1 ≠ target.path)).map (·.1)).Nodup :=
    (List.Sublist.map _ List.filter_sublist).nodup h.nodup
  apply List.nodup_append.mpr
  refine ⟨?_, hperm.nodup_iff.mpr hnd, ?_⟩
  · split <;> simp
  · intro a ha b hb
    have hb' := hperm.mem_iff.mp hb
    obtain ⟨e, he, rfl⟩ := List.mem_map.mp hb'
    have := (List.mem_filter.mp he).2
    split at ha
    · simp only [List.map_cons, List.map_nil, List.mem_singleton] at ha
      subst ha
      intro heq; exact (by simpa using this : ¬ e.1 = target.path) heq.symm
    · cases ha

/-! ### the theorem -/

/-- what a successful `buildList` did -/
theorem buildListWith_ok {fuel : Nat} {rq : Reqs} {up : Option (Mod → Option Mod)} {target : Mod} {bl : List Mod}
    (h : buildListWith fuel rq up target = .ok bl) :
    ∃ log, explore rq up fuel [target] [] false = some (log, false) ∧
      bl = graphBuildList target (graphSelected target log) ∧ bl.take 1 = [target] := by
  unfold buildListWith at h
  split at h
  · cases h
  · rename_i log err hx
    split at h
    · cases h
    · rename_i herr
      dsimp only at h
      split at h
      · cases h
      · rename_i hne
        cases h
        have : err = false := by simpa using herr
        subst this
        exact ⟨log, hx, rfl, by simpa using hne⟩

/-- C10 for `mvs.buildList` (with or without an upgrade function): a module is in the returned list iff it is
reachable and its version is the greatest reachable version of its path (versions `"none"` never count) -/
theorem buildListWith_exact {fuel : Nat} {rq : Reqs} {up : Option (Mod → Option Mod)} {target : Mod} {bl : List Mod}
    (h : buildListWith fuel rq up target = .ok bl) (p : String) (v : Ver) :
    (⟨p, v⟩ : Mod) ∈ bl ↔
      v ≠ .none ∧ Reach rq up target ⟨p, v⟩ ∧ ∀ w, Reach rq up target ⟨p, w⟩ → Ver.le w v := by
  obtain ⟨log, hx, rfl, _⟩ := buildListWith_ok h
  have hd := deps_exact hx
  have hok : SelOK (graphSelected target log) := by
    unfold graphSelected
    exact foldl_selStep_ok _ _ (selStep_ok _ _ selOK_nil)
  -- the selected version of `p` is the maximum over target :: deps
  have hsel : ∀ q, selected (graphSelected target log) q =
      maxOver q (target :: log.reverse.flatMap (·.2)) .none := by
    intro q
    unfold graphSelected
    rw [selected_foldl]
    simp only [maxOver, List.foldl]
    congr 1
    rw [selected_selStep]
    simp only [selected, List.lookup, Option.getD_none]
    split
    · rename_i e; rw [e]; simp
    · rename_i e
      have : ¬ target.path = q := fun e' => e e'.symm
      simp [this]
  rw [mem_graphBuildList target _ hok, hsel]
  constructor
  · rintro ⟨hs, hv⟩
    refine ⟨hv, ?_, ?_⟩
    · rcases maxOver_attained p (target :: log.reverse.flatMap (·.2)) .none with h0 | ⟨m, hm, hp, hmv⟩
      · rw [hs] at h0; exact absurd h0 hv
      · have := (hd m).mp hm
        obtain ⟨mp, mv⟩ := m
        simp only at hp hmv
        subst hp
        rw [hs] at hmv; subst hmv
        exact this
    · intro w hw
      rw [← hs]
      exact maxOver_upper p _ _ ⟨p, w⟩ ((hd _).mpr hw) rfl
  · rintro ⟨hv, hr, hub⟩
    refine ⟨?_, hv⟩
    have h1 : Ver.le v (maxOver p (target :: log.reverse.flatMap (·.2)) .none) :=
      maxOver_upper p _ _ ⟨p, v⟩ ((hd _).mpr hr) rfl
    rcases maxOver_attained p (target :: log.reverse.flatMap (·.2)) .none with h0 | ⟨m, hm, hp, hmv⟩
    · rw [h0] at h1
      exact absurd (Ver.le_antisymm h1 (Ver.none_le v)) hv
    · have hrm := (hd m).mp hm
      obtain ⟨mp, mv⟩ := m
      simp only at hp hmv
      subst hp
      rw [← hmv] at h1 ⊢
      exact Ver.le_antisymm (hub mv hrm) h1

/-- every reachable path is listed (at some version at least as high) -/
theorem buildListWith_covers {fuel : Nat} {rq : Reqs} {up : Option (Mod → Option Mod)} {target : Mod} {bl : List Mod}
    (h : buildListWith fuel rq up target = .ok bl) (p : String) (v : Ver)
    (hr : Reach rq up target ⟨p, v⟩) (hv : v ≠ .none) : ∃ v', (⟨p, v'⟩ : Mod) ∈ bl ∧ Ver.le v v' := by
  obtain ⟨log, hx, rfl, _⟩ := buildListWith_ok h
  have hd := deps_exact hx
  have hok : SelOK (graphSelected target log) := by
    unfold graphSelected
    exact foldl_selStep_ok _ _ (selStep_ok _ _ selOK_nil)
  have hsel : selected (graphSelected target log) p = maxOver p (target :: log.reverse.flatMap (·.2)) .none := by
    unfold graphSelected
    rw [selected_foldl]
    simp only [maxOver, List.foldl]
    congr 1
    rw [selected_selStep]
    simp only [selected, List.lookup, Option.getD_none]
    split
    · rename_i e; rw [e]; simp
    · rename_i e
      have : ¬ target.path = p := fun e' => e e'.symm
      simp [this]
  have h1 : Ver.le v (maxOver p (target :: log.reverse.flatMap (·.2)) .none) :=
    maxOver_upper p _ _ ⟨p, v⟩ ((hd _).mpr hr) rfl
  refine ⟨_, (mem_graphBuildList target _ hok p _).mpr ⟨rfl, ?_⟩, by rw [hsel]; exact h1⟩
  intro hn
  rw [hsel] at hn
  rw [hn] at h1
  exact hv (Ver.le_antisymm h1 (Ver.none_le v))

/-- no path twice -/
theorem buildListWith_nodup {fuel : Nat} {rq : Reqs} {up : Option (Mod → Option Mod)} {target : Mod} {bl : List Mod}
    (h : buildListWith fuel rq up target = .ok bl) : (bl.map (·.path)).Nodup := by
  obtain ⟨log, hx, rfl, _⟩ := buildListWith_ok h
  apply nodup_graphBuildList
  unfold graphSelected
  exact foldl_selStep_ok _ _ (selStep_ok _ _ selOK_nil)

/-- the result starts with the target itself -/
theorem buildListWith_head {fuel : Nat} {rq : Reqs} {up : Option (Mod → Option Mod)} {target : Mod} {bl : List Mod}
    (h : buildListWith fuel rq up target = .ok bl) : bl.take 1 = [target] := by
  obtain ⟨log, hx, rfl, ht⟩ := buildListWith_ok h
  exact ht

end Dawn.Mvs

namespace Dawn.Mvs

/-! ### the list itself is determined by its members (sorted by path, each path once) -/

def pathLE (a b : Mod) : Prop := a.path ≤ b.path

theorem insertByPath_sorted (m : Mod) (l : List Mod) (h : l.Pairwise pathLE) : (insertByPath m l).Pairwise pathLE := by
  induction l with
  | nil => simp [insertByPath]
  | cons x xs ih =>
    have hx := List.pairwise_cons.mp h
    simp only [insertByPath]
    split
    · rename_i hlt
      apply List.pairwise_cons.mpr
      refine ⟨?_, h⟩
      intro b hb
      have hmx : m.path ≤ x.path := String.not_lt.mp (String.lt_asymm hlt)
      rcases List.mem_cons.mp hb with rfl | hb'
      · exact hmx
      · exact String.le_trans hmx (hx.1 b hb')
    · rename_i hnlt
      apply List.pairwise_cons.mpr
      refine ⟨?_, ih hx.2⟩
      intro b hb
      rcases List.mem_cons.mp ((insertByPath_perm m xs).mem_iff.mp hb) with rfl | hb'
      · exact String.not_lt.mp hnlt
      · exact hx.1 b hb'

theorem sortByPath_sorted (l : List Mod) : (sortByPath l).Pairwise pathLE := by
  induction l with
  | nil => simp [sortByPath]
  | cons x xs ih =>
    simp only [sortByPath, List.foldr] at ih ⊢
    exact insertByPath_sorted x _ ih

theorem nodup_of_nodup_map {α β : Type} (f : α → β) : ∀ {l : List α}, (l.map f).Nodup → l.Nodup
  | [], _ => List.nodup_nil
  | a :: l, h => by
    simp only [List.map_cons, List.nodup_cons] at h ⊢
    exact ⟨fun ha => h.1 (List.mem_map.mpr ⟨a, ha, rfl⟩), nodup_of_nodup_map f h.2⟩

theorem inj_of_nodup_map {α β : Type} (f : α → β) : ∀ {l : List α}, (l.map f).Nodup →
    ∀ {a b : α}, a ∈ l → b ∈ l → f a = f b → a = b
  | [], _, _, _, ha, _, _ => nomatch ha
  | x :: l, h, a, b, ha, hb, hf => by
    simp only [List.map_cons, List.nodup_cons] at h
    rcases List.mem_cons.mp ha with rfl | ha'
    · rcases List.mem_cons.mp hb with rfl | hb'
      · rfl
      · exact absurd (List.mem_map.mpr ⟨b, hb', hf.symm⟩) h.1
    · rcases List.mem_cons.mp hb with rfl | hb'
      · exact absurd (List.mem_map.mpr ⟨a, ha', hf⟩) h.1
      · exact inj_of_nodup_map f h.2 ha' hb' hf

theorem nodup_of_nodup_paths {l : List Mod} (h : (l.map (·.path)).Nodup) : l.Nodup :=
  nodup_of_nodup_map _ h

/-- two sorted lists with pairwise different paths and the same members are the same list -/
theorem sorted_ext {l1 l2 : List Mod} (s1 : l1.Pairwise pathLE) (s2 : l2.Pairwise pathLE)
    (n1 : (l1.map (·.path)).Nodup) (n2 : (l2.map (·.path)).Nodup) (hm : ∀ m, m ∈ l1 ↔ m ∈ l2) : l1 = l2 := by
  have hperm : l1.Perm l2 := (List.perm_ext_iff_of_nodup (nodup_of_nodup_paths n1) (nodup_of_nodup_paths n2)).mpr hm
  apply List.Perm.eq_of_pairwise (le := pathLE) _ s1 s2 hperm
  intro a b ha hb hab hba
  have hp : a.path = b.path := String.le_antisymm hab hba
  have hb1 : b ∈ l1 := (hm b).mpr hb
  exact inj_of_nodup_map (·.path) n1 ha hb1 hp

/-- `Graph.BuildList` is determined by its members -/
theorem graphBuildList_ext (target : Mod) (s1 s2 : Sel) (h1 : SelOK s1) (h2 : SelOK s2)
    (hm : ∀ m, m ∈ graphBuildList target s1 ↔ m ∈ graphBuildList target s2) :
    graphBuildList target s1 = graphBuildList target s2 := by
  have hsel : ∀ p v, (selected s1 p = v ∧ v ≠ .none) ↔ (selected s2 p = v ∧ v ≠ .none) := by
    intro p v
    rw [← mem_graphBuildList target s1 h1, ← mem_graphBuildList target s2 h2]
    exact hm _
  have hsame : ∀ p, selected s1 p = selected s2 p := by
    intro p
    by_cases hn : selected s1 p = .none
    · by_cases hn2 : selected s2 p = .none
      · rw [hn, hn2]
      · exact ((hsel p _).mpr ⟨rfl, hn2⟩).1
    · exact ((hsel p _).mp ⟨rfl, hn⟩).1.symm
  unfold graphBuildList
  rw [hsame target.path]
  congr 1
  apply sorted_ext (sortByPath_sorted _) (sortByPath_sorted _)
  · have := nodup_graphBuildList target s1 h1
    simp only [graphBuildList, List.map_append] at this
    exact (List.nodup_append.mp this).2.1
  · have := nodup_graphBuildList target s2 h2
    simp only [graphBuildList, List.map_append] at this
    exact (List.nodup_append.mp this).2.1
  · intro m
    obtain ⟨p, v⟩ := m
    simp only [mem_sortByPath, List.mem_map, List.mem_filter]
    constructor
    · rintro ⟨⟨q, w⟩, ⟨hmem, hne⟩, he⟩
      simp only [Mod.mk.injEq] at he
      obtain ⟨rfl, rfl⟩ := he
      exact ⟨(q, w), ⟨(mem_sel_iff s2 h2 q w).mpr ((hsel q w).mp ((mem_sel_iff s1 h1 q w).mp hmem)), hne⟩, rfl⟩
    · rintro ⟨⟨q, w⟩, ⟨hmem, hne⟩, he⟩
      simp only [Mod.mk.injEq] at he
      obtain ⟨rfl, rfl⟩ := he
      exact ⟨(q, w), ⟨(mem_sel_iff s1 h1 q w).mpr ((hsel q w).mpr ((mem_sel_iff s2 h2 q w).mp hmem)), hne⟩, rfl⟩

/-- two successful `buildList`s with the same members returned the same list -/
theorem buildListWith_ext {f1 f2 : Nat} {rq1 rq2 : Reqs} {up1 up2 : Option (Mod → Option Mod)} {target : Mod}
    {bl1 bl2 : List Mod} (h1 : buildListWith f1 rq1 up1 target = .ok bl1) (h2 : buildListWith f2 rq2 up2 target = .ok bl2)
    (hm : ∀ m, m ∈ bl1 ↔ m ∈ bl2) : bl1 = bl2 := by
  obtain ⟨log1, _, rfl, _⟩ := buildListWith_ok h1
  obtain ⟨log2, _, rfl, _⟩ := buildListWith_ok h2
  apply graphBuildList_ext target _ _ _ _ hm
  · unfold graphSelected; exact foldl_selStep_ok _ _ (selStep_ok _ _ selOK_nil)
  · unfold graphSelected; exact foldl_selStep_ok _ _ (selStep_ok _ _ selOK_nil)

/-- reachability only depends on which modules each requirement list contains -/
theorem reach_congr {rq1 rq2 : Reqs} {up1 up2 : Option (Mod → Option Mod)} {target : Mod}
    (he : ∀ n m, m ∈ edges rq1 up1 n → m ∈ edges rq2 up2 n) {m : Mod} (h : Reach rq1 up1 target m) :
    Reach rq2 up2 target m := by
  induction h with
  | root => exact Reach.root
  | step a b _ hb ih => exact Reach.step a b ih (he a b hb)

/-! ### fuel sufficiency of the exploration: in a finite universe `U` closed under `edges`, `explore` finishes within
`|todo| + Σ_{n ∈ U not yet visited} (1 + deg n)` steps -/

def visited (log : List (Mod × List Mod)) (n : Mod) : Bool := log.any (·.1 = n)

/-- the work still ahead: one step per pending item, and for every module of the universe not yet visited one step to
visit it plus one to pop each of the items it will push -/
def workLeft (rq : Reqs) (up : Option (Mod → Option Mod)) (U : List Mod) (log : List (Mod × List Mod)) : Nat :=
  ((U.filter fun n => ! visited log n).map fun n => 1 + (edges rq up n).length).sum

theorem workLeft_visit (rq : Reqs) (up : Option (Mod → Option Mod)) (n : Mod) (req : List Mod) (log : List (Mod × List Mod))
    (hn : visited log n = false) : ∀ (U : List Mod), n ∈ U →
    workLeft rq up U ((n, req) :: log) + (1 + (edges rq up n).length) ≤ workLeft rq up U log := by
  intro U
  induction U with
  | nil => intro h; cases h
  | cons x xs ih =>
    intro hmem
    have hmono : workLeft rq up xs ((n, req) :: log) ≤ workLeft rq up xs log := by
      clear ih hmem
      induction xs with
      | nil => simp [workLeft]
      | cons y ys ih2 =>
        simp only [workLeft, List.filter_cons] at ih2 ⊢
        by_cases hy : visited log y = true
        · have : visited ((n, req) :: log) y = true := by simp [visited, List.any_cons] at hy ⊢; exact Or.inr hy
          simp only [hy, this, Bool.not_true, Bool.false_eq_true, ↓reduceIte]; exact ih2
        · have hy' : visited log y = false := by simpa using hy
          by_cases hyn : visited ((n, req) :: log) y = true
          · simp only [hy', hyn, Bool.not_true, Bool.not_false, Bool.false_eq_true, ↓reduceIte, List.map_cons, List.sum_cons]
            omega
          · have hyn' : visited ((n, req) :: log) y = false := by simpa using hyn
            simp only [hy', hyn', Bool.not_false, ↓reduceIte, List.map_cons, List.sum_cons]
            omega
    simp only [workLeft, List.filter_cons] at ih hmono ⊢
    by_cases hx : x = n
    · subst hx
      have h1 : visited ((x, req) :: log) x = true := by simp [visited, List.any_cons]
      simp only [h1, hn, Bool.not_true, Bool.not_false, Bool.false_eq_true, ↓reduceIte, List.map_cons, List.sum_cons]
      omega
    · have hxs : n ∈ xs := by
        rcases List.mem_cons.mp hmem with h | h
        · exact absurd h.symm hx
        · exact h
      have ih' := ih hxs
      have hvx : visited ((n, req) :: log) x = visited log x := by
        have : ¬ n = x := fun h => hx h.symm
        simp [visited, List.any_cons, this]
      rw [hvx]
      cases hv : visited log x
      · simp only [Bool.not_false, ↓reduceIte, List.map_cons, List.sum_cons]; omega
      · simp only [Bool.not_true, Bool.false_eq_true, ↓reduceIte]; exact ih'

/-- in a finite universe closed under the edges of the exploration, `explore` never runs out of fuel once the fuel covers
the work left -/
theorem explore_fuel (rq : Reqs) (up : Option (Mod → Option Mod)) (U : List Mod)
    (hU : ∀ n ∈ U, ∀ m ∈ edges rq up n, m ∈ U) :
    ∀ (fuel : Nat) (todo : List Mod) (log : List (Mod × List Mod)) (err : Bool), (∀ n ∈ todo, n ∈ U) →
      todo.length + workLeft rq up U log ≤ fuel → (explore rq up fuel todo log err).isSome := by
  intro fuel
  induction fuel with
  | zero =>
    intro todo log err _ hle
    cases todo with
    | nil => simp [explore]
    | cons n t => simp at hle
  | succ f ih =>
    intro todo log err hin hle
    cases todo with
    | nil => simp [explore]
    | cons n t =>
      simp only [explore]
      split
      · apply ih t log err (fun m hm => hin m (List.mem_cons_of_mem _ hm))
        simp only [List.length_cons] at hle; omega
      · rename_i hv
        have hv' : visited log n = false := by
          unfold visited
          cases h : log.any (·.1 = n)
          · rfl
          · exact absurd h hv
        have hnU := hin n List.mem_cons_self
        have hw := workLeft_visit rq up n (workItem rq up n).1 log hv' U hnU
        apply ih
        · intro m hm
          rcases List.mem_append.mp hm with h1 | h1
          · exact hU n hnU m h1
          · exact hin m (List.mem_cons_of_mem _ h1)
        · simp only [List.length_cons, List.length_append] at hle ⊢
          have : (workItem rq up n).1.length = (edges rq up n).length := rfl
          omega

/-- `buildList` answers (a list, a build-list error, or a panic) — never `Err.fuel` — as soon as the fuel exceeds
`1 + Σ_{n ∈ U} (1 + deg n)` for a finite universe `U` that contains the target and is closed under edges -/
theorem buildListWith_fuel (rq : Reqs) (up : Option (Mod → Option Mod)) (target : Mod) (U : List Mod)
    (ht : target ∈ U) (hU : ∀ n ∈ U, ∀ m ∈ edges rq up n, m ∈ U) (fuel : Nat)
    (hf : 1 + (U.map fun n => 1 + (edges rq up n).length).sum ≤ fuel) :
    buildListWith fuel rq up target ≠ .error .fuel := by
  have hsome := explore_fuel rq up U hU fuel [target] [] false
    (fun n hn => by rw [List.mem_singleton.mp hn]; exact ht)
    (by
      have : workLeft rq up U [] = (U.map fun n => 1 + (edges rq up n).length).sum := by
        simp [workLeft, visited, List.filter_eq_self.mpr]
      rw [this]; simpa using hf)
  unfold buildListWith
  cases hx : explore rq up fuel [target] [] false with
  | none => rw [hx] at hsome; simp at hsome
  | some r =>
    obtain ⟨log, err⟩ := r
    dsimp only
    split
    · simp
    · split <;> simp

end Dawn.Mvs

import Dawn.Proofs.DiffRecord
/-!
C16: what the raw edits mean in terms of the old and the new sequence, and the final pass of `compose` that
merges a delete followed by an add into a replace.
-/
namespace Dawn.Diff

section
variable {α δ : Type} (eqb : α → α → Bool)

/-- the two elements were found equal by the comparison (in one or the other argument order) -/
def E (o n : α) : Prop := eqb o n = true ∨ eqb n o = true

/-- what one raw edit contributes to the old and to the new sequence -/
inductive StepS : RawEdit α → List α → List α → Prop
  | delete (e : RawEdit α) : e.kind = .delete → StepS e e.values []
  | add (e : RawEdit α) : e.kind = .add → StepS e [] e.values
  | common (e : RawEdit α) (ws : List α) : e.kind = .common → All2 (E eqb) e.values ws → StepS e e.values ws

/-- raw edits, most recent first, account for the old sequence `o` and the new sequence `n` -/
inductive RawS : List (RawEdit α) → List α → List α → Prop
  | nil : RawS [] [] []
  | snoc (e : RawEdit α) (es : List (RawEdit α)) (o n dO dN : List α) :
      RawS es o n → StepS eqb e dO dN → RawS (e :: es) (o ++ dO) (n ++ dN)

/-- the same for a list in forward order -/
inductive RawF : List (RawEdit α) → List α → List α → Prop
  | nil : RawF [] [] []
  | cons (e : RawEdit α) (es : List (RawEdit α)) (o n dO dN : List α) :
      StepS eqb e dO dN → RawF es o n → RawF (e :: es) (dO ++ o) (dN ++ n)

theorem RawF.snoc {es : List (RawEdit α)} {o n : List α} (h : RawF eqb es o n) (e : RawEdit α) (dO dN : List α)
    (hs : StepS eqb e dO dN) : RawF eqb (es ++ [e]) (o ++ dO) (n ++ dN) := by
  induction h with
  | nil => simpa using RawF.cons e [] [] [] dO dN hs RawF.nil
  | cons e' es' o' n' dO' dN' hs' _ ih =>
    have := RawF.cons e' _ _ _ dO' dN' hs' ih
    simpa [List.append_assoc] using this

theorem RawS.toF {es : List (RawEdit α)} {o n : List α} (h : RawS eqb es o n) : RawF eqb es.reverse o n := by
  induction h with
  | nil => exact RawF.nil
  | snoc e es o n dO dN _ hs ih => simpa using ih.snoc eqb e dO dN hs

theorem forall2_of_cells (a b : List α) (len : Nat) : ∀ (x0 y0 : Nat),
    (∀ i : Nat, i < len → Cell eqb a b ((x0 : Int) + i) ((y0 : Int) + i)) →
    All2 (fun u v => eqb u v = true) ((a.drop x0).take len) ((b.drop y0).take len) := by
  induction len with
  | zero => intro _ _ _; simp only [List.take_zero]; exact All2.nil
  | succ len ih =>
    intro x0 y0 h
    obtain ⟨_, _, u, v, hu, hv, huv⟩ := h 0 (by omega)
    simp only [Int.natCast_zero, Int.add_zero, Int.toNat_natCast] at hu hv
    have hx : x0 < a.length := (List.getElem?_eq_some_iff.mp hu).1
    have hy : y0 < b.length := (List.getElem?_eq_some_iff.mp hv).1
    have ea : a.drop x0 = u :: a.drop (x0 + 1) := by
      rw [List.drop_eq_getElem_cons hx]; congr 1
      exact (List.getElem?_eq_some_iff.mp hu).2
    have eb : b.drop y0 = v :: b.drop (y0 + 1) := by
      rw [List.drop_eq_getElem_cons hy]; congr 1
      exact (List.getElem?_eq_some_iff.mp hv).2
    rw [ea, eb, List.take_succ_cons, List.take_succ_cons]
    refine All2.cons huv (ih (x0 + 1) (y0 + 1) ?_)
    intro i hi
    have := h (i + 1) (by omega)
    have e1 : (x0 : Int) + ((i + 1 : Nat) : Int) = ((x0 + 1 : Nat) : Int) + i := by omega
    have e2 : (y0 : Int) + ((i + 1 : Nat) : Int) = ((y0 + 1 : Nat) : Int) + i := by omega
    rw [e1, e2] at this; exact this

theorem take_add_drop (s : List α) (i len : Nat) : s.take i ++ (s.drop i).take len = s.take (i + len) := by
  rw [List.take_add]

/-- a walk recorded without exchanging the sequences: `a` is the old sequence, `b` the new one -/
theorem RawP.semF (a b : List α) {base es : List (RawEdit α)} {px py : Int} {o0 n0 : List α}
    (h : RawP eqb a b false base es px py) (hb : RawS eqb base o0 n0) :
    RawS eqb es (o0 ++ a.take px.toNat) (n0 ++ b.take py.toNat) := by
  induction h with
  | base => simpa using hb
  | xstep e es px py h' hk h0 hne hs hle hvals ih =>
    have := RawS.snoc e es _ _ _ _ ih (StepS.delete e (by simpa [xkind] using hk))
    have e1 : a.take px.toNat = a.take e.start.toNat ++ e.values := by
      have : px.toNat = e.start.toNat + e.values.length := by omega
      rw [this, ← take_add_drop, ← hvals]
    rw [e1, ← List.append_assoc]
    simpa using this
  | ystep e es px py h' hk h0 hne hs hle hvals ih =>
    have := RawS.snoc e es _ _ _ _ ih (StepS.add e (by simpa [ykind] using hk))
    have e1 : b.take py.toNat = b.take e.start.toNat ++ e.values := by
      have : py.toNat = e.start.toNat + e.values.length := by omega
      rw [this, ← take_add_drop, ← hvals]
    rw [e1, ← List.append_assoc]
    simpa using this
  | common e es px py h' hk hne hst h0 hvals hxle hyle hx0 hy0 hcells ih =>
    simp only [Bool.false_eq_true, ↓reduceIte] at hst hvals
    have hf := forall2_of_cells eqb a b e.values.length (px - e.values.length).toNat (py - e.values.length).toNat
      (fun i hi => by
        have := hcells i hi
        have e1 : (((px - e.values.length).toNat : Nat) : Int) = px - e.values.length := by omega
        have e2 : (((py - e.values.length).toNat : Nat) : Int) = py - e.values.length := by omega
        rw [e1, e2]; exact this)
    have hst' : e.start.toNat = (px - e.values.length).toNat := by rw [hst]
    rw [← hst', ← hvals] at hf
    have := RawS.snoc e es _ _ _ _ ih (StepS.common e _ hk (hf.imp fun _ _ h => Or.inl h))
    have e1 : a.take px.toNat = a.take (px - e.values.length).toNat ++ e.values := by
      have : px.toNat = (px - e.values.length).toNat + e.values.length := by omega
      rw [this, ← take_add_drop, ← hst', ← hvals]
    have e2 : b.take py.toNat = b.take (py - e.values.length).toNat ++ (b.drop (py - e.values.length).toNat).take e.values.length := by
      have : py.toNat = (py - e.values.length).toNat + e.values.length := by omega
      rw [this, ← take_add_drop]
    rw [e1, e2, ← List.append_assoc, ← List.append_assoc]
    exact this

/-- a walk recorded with the sequences exchanged: `b` is the old sequence, `a` the new one -/
theorem RawP.semT (a b : List α) {base es : List (RawEdit α)} {px py : Int} {o0 n0 : List α}
    (h : RawP eqb a b true base es px py) (hb : RawS eqb base o0 n0) :
    RawS eqb es (o0 ++ b.take py.toNat) (n0 ++ a.take px.toNat) := by
  induction h with
  | base => simpa using hb
  | xstep e es px py h' hk h0 hne hs hle hvals ih =>
    have := RawS.snoc e es _ _ _ _ ih (StepS.add e (by simpa [xkind] using hk))
    have e1 : a.take px.toNat = a.take e.start.toNat ++ e.values := by
      have : px.toNat = e.start.toNat + e.values.length := by omega
      rw [this, ← take_add_drop, ← hvals]
    rw [e1, ← List.append_assoc]
    simpa using this
  | ystep e es px py h' hk h0 hne hs hle hvals ih =>
    have := RawS.snoc e es _ _ _ _ ih (StepS.delete e (by simpa [ykind] using hk))
    have e1 : b.take py.toNat = b.take e.start.toNat ++ e.values := by
      have : py.toNat = e.start.toNat + e.values.length := by omega
      rw [this, ← take_add_drop, ← hvals]
    rw [e1, ← List.append_assoc]
    simpa using this
  | common e es px py h' hk hne hst h0 hvals hxle hyle hx0 hy0 hcells ih =>
    simp only [↓reduceIte] at hst hvals
    have hf := forall2_of_cells eqb a b e.values.length (px - e.values.length).toNat (py - e.values.length).toNat
      (fun i hi => by
        have := hcells i hi
        have e1 : (((px - e.values.length).toNat : Nat) : Int) = px - e.values.length := by omega
        have e2 : (((py - e.values.length).toNat : Nat) : Int) = py - e.values.length := by omega
        rw [e1, e2]; exact this)
    have hst' : e.start.toNat = (py - e.values.length).toNat := by rw [hst]
    rw [← hst', ← hvals] at hf
    have := RawS.snoc e es _ _ _ _ ih (StepS.common e _ hk (hf.flip.imp fun _ _ h => Or.inr h))
    have e1 : b.take py.toNat = b.take (py - e.values.length).toNat ++ e.values := by
      have : py.toNat = (py - e.values.length).toNat + e.values.length := by omega
      rw [this, ← take_add_drop, ← hst', ← hvals]
    have e2 : a.take px.toNat = a.take (px - e.values.length).toNat ++ (a.drop (px - e.values.length).toNat).take e.values.length := by
      have : px.toNat = (px - e.values.length).toNat + e.values.length := by omega
      rw [this, ← take_add_drop]
    rw [e1, e2, ← List.append_assoc, ← List.append_assoc]
    exact this

variable (elemDiff : α → α → Except Err (Option δ)) (lit : Option (List α → List α → δ))

/-- a replace of the old elements `os` by the new elements `ns`: same number of each, and the entries are what
`diffReplacements` computes for them: one literal diff of the two pieces for strings and bytes, else the diff
of each pair (`None` for a pair of equal elements) -/
def ReplOK (ds : List (Option δ)) (os ns : List α) : Prop :=
  os.length = ns.length ∧ diffReplacements elemDiff lit os ns = .ok ds

/-- what one edit says about the old and the new sequence -/
inductive EditOK : Edit α δ → List α → List α → Prop
  | delete (vs : List α) : EditOK (.delete vs) vs []
  | add (vs : List α) : EditOK (.add vs) [] vs
  | common (vs ws : List α) : All2 (E eqb) vs ws → EditOK (.common vs) vs ws
  | replace (ds : List (Option δ)) (os ns : List α) : ReplOK elemDiff lit ds os ns → EditOK (.replace ds) os ns

/-- The edit script reproduces both sequences: kept plus deleted elements (and the old sides of replacements) are
the old sequence, kept plus added elements (and the new sides) the new one. -/
inductive Recon : List (Edit α δ) → List α → List α → Prop
  | nil : Recon [] [] []
  | cons (e : Edit α δ) (es : List (Edit α δ)) (o n dO dN : List α) :
      EditOK eqb elemDiff lit e dO dN → Recon es o n → Recon (e :: es) (dO ++ o) (dN ++ n)

/-- the same with the most recent edit first -/
inductive ReconR : List (Edit α δ) → List α → List α → Prop
  | nil : ReconR [] [] []
  | snoc (e : Edit α δ) (es : List (Edit α δ)) (o n dO dN : List α) :
      ReconR es o n → EditOK eqb elemDiff lit e dO dN → ReconR (e :: es) (o ++ dO) (n ++ dN)

theorem Recon.snoc {es : List (Edit α δ)} {o n : List α} (h : Recon eqb elemDiff lit es o n) (e : Edit α δ)
    (dO dN : List α) (he : EditOK eqb elemDiff lit e dO dN) :
    Recon eqb elemDiff lit (es ++ [e]) (o ++ dO) (n ++ dN) := by
  induction h with
  | nil => simpa using Recon.cons e [] [] [] dO dN he Recon.nil
  | cons e' es' o' n' dO' dN' he' _ ih =>
    have := Recon.cons e' _ _ _ dO' dN' he' ih
    simpa [List.append_assoc] using this

theorem ReconR.toRecon {es : List (Edit α δ)} {o n : List α} (h : ReconR eqb elemDiff lit es o n) :
    Recon eqb elemDiff lit es.reverse o n := by
  induction h with
  | nil => exact Recon.nil
  | snoc e es o n dO dN _ he ih => simpa using ih.snoc eqb elemDiff lit e dO dN he

theorem diffReplacements_go_total (os : List α) : ∀ (ns : List α), os.length = ns.length →
    (∀ x ∈ os, ∀ y ∈ ns, ∃ d, elemDiff x y = .ok d) →
    ∃ ds, diffReplacements.go elemDiff os ns = .ok ds := by
  induction os with
  | nil => intro ns _ _; exact ⟨[], by simp [diffReplacements.go]⟩
  | cons o os ih =>
    intro ns hl hD
    cases ns with
    | nil => simp at hl
    | cons n ns =>
      obtain ⟨d, hd⟩ := hD o (by simp) n (by simp)
      obtain ⟨ds, hds⟩ := ih ns (by simpa using hl) (fun x hx y hy => hD x (by simp [hx]) y (by simp [hy]))
      exact ⟨d :: ds, by simp [diffReplacements.go, hd, hds, bind, Except.bind, pure, Except.pure]⟩

theorem diffReplacements_total (os ns : List α) (hl : os.length = ns.length)
    (hD : ∀ x ∈ os, ∀ y ∈ ns, lit = none → ∃ d, elemDiff x y = .ok d) :
    ∃ ds, diffReplacements elemDiff lit os ns = .ok ds := by
  unfold diffReplacements
  cases lit with
  | some f => exact ⟨_, rfl⟩
  | none => exact diffReplacements_go_total elemDiff os ns hl (fun x hx y hy => hD x hx y hy rfl)

/-- one iteration of the merge loop -/
theorem mergeStep_spec {out : List (Edit α δ)} {o n dO dN : List α} (e : RawEdit α)
    (h : ReconR eqb elemDiff lit out o n) (hs : StepS eqb e dO dN)
    (hD : ∀ x ∈ o ++ dO, ∀ y ∈ n ++ dN, lit = none → ∃ d, elemDiff x y = .ok d) :
    ∃ out', mergeStep elemDiff lit out e = .ok out' ∧ ReconR eqb elemDiff lit out' (o ++ dO) (n ++ dN) := by
  have hpush : ∃ out', (Except.ok (toEdit e :: out) : Except Err (List (Edit α δ))) = Except.ok out' ∧ ReconR eqb elemDiff lit out' (o ++ dO) (n ++ dN) := by
    refine ⟨_, rfl, ReconR.snoc _ out o n dO dN h ?_⟩
    cases hs with
    | delete hk => simp only [toEdit, hk]; exact EditOK.delete _
    | add hk => simp only [toEdit, hk]; exact EditOK.add _
    | common ws hk hf => simp only [toEdit, hk]; exact EditOK.common _ _ hf
  cases hs with
  | delete hk => simp only [mergeStep, hk]; exact hpush
  | common ws hk hf => simp only [mergeStep, hk]; exact hpush
  | add hk =>
    cases h with
    | nil => simp only [mergeStep, hk]; exact hpush
    | snoc tail rest o' n' tO tN hrest htail =>
      cases htail with
      | add vs => simp only [mergeStep, hk]; exact hpush
      | common vs ws hf => simp only [mergeStep, hk]; exact hpush
      | replace ds os ns hr => simp only [mergeStep, hk]; exact hpush
      | delete =>
        simp only [mergeStep, hk]
        simp only [List.append_nil] at hD ⊢
        by_cases h1 : tO.length < e.values.length
        · obtain ⟨ds, hds⟩ := diffReplacements_total elemDiff lit tO (e.values.take tO.length)
            (by simp; omega)
            (fun x hx y hy => hD x (by simp [hx]) y (by simp [List.mem_of_mem_take hy]))
          refine ⟨.add (e.values.drop tO.length) :: .replace ds :: rest,
            by simp [h1, hds, bind, Except.bind, pure, Except.pure], ?_⟩
          have r1 := ReconR.snoc (.replace ds) rest o' n' tO (e.values.take tO.length) hrest
            (EditOK.replace ds _ _ ⟨by simp; omega, hds⟩)
          have r2 := ReconR.snoc (.add (e.values.drop tO.length)) _ _ _ [] _ r1 (EditOK.add _)
          simpa [List.append_assoc] using r2
        · by_cases h2 : tO.length > e.values.length
          · obtain ⟨ds, hds⟩ := diffReplacements_total elemDiff lit (tO.take e.values.length) e.values
              (by simp; omega)
              (fun x hx y hy => hD x (by simp [List.mem_of_mem_take hx]) y (by simp [hy]))
            refine ⟨.delete (tO.drop e.values.length) :: .replace ds :: rest,
              by simp [h1, h2, hds, bind, Except.bind, pure, Except.pure], ?_⟩
            have r1 := ReconR.snoc (.replace ds) rest o' n' (tO.take e.values.length) e.values hrest
              (EditOK.replace ds _ _ ⟨by simp; omega, hds⟩)
            have r2 := ReconR.snoc (.delete (tO.drop e.values.length)) _ _ _ _ [] r1 (EditOK.delete _)
            simpa [List.append_assoc] using r2
          · obtain ⟨ds, hds⟩ := diffReplacements_total elemDiff lit tO e.values (by omega)
              (fun x hx y hy => hD x (by simp [hx]) y (by simp [hy]))
            refine ⟨.replace ds :: rest, by simp [h1, h2, hds, bind, Except.bind, pure, Except.pure], ?_⟩
            exact ReconR.snoc (.replace ds) rest o' n' tO e.values hrest (EditOK.replace ds _ _ ⟨by omega, hds⟩)

/-- the merge loop over the raw edits in forward order -/
theorem merge_spec (raw : List (RawEdit α)) : ∀ (out : List (Edit α δ)) (o1 n1 o2 n2 : List α),
    ReconR eqb elemDiff lit out o1 n1 → RawF eqb raw o2 n2 →
    (∀ x ∈ o1 ++ o2, ∀ y ∈ n1 ++ n2, lit = none → ∃ d, elemDiff x y = .ok d) →
    ∃ out', merge elemDiff lit out raw = .ok out' ∧ ReconR eqb elemDiff lit out' (o1 ++ o2) (n1 ++ n2) := by
  induction raw with
  | nil =>
    intro out o1 n1 o2 n2 h hr _
    cases hr
    exact ⟨out, by simp [merge], by simpa using h⟩
  | cons e es ih =>
    intro out o1 n1 o2 n2 h hr hD
    cases hr with
    | cons _ _ o n dO dN hs hrest =>
      obtain ⟨out1, e1, r1⟩ := mergeStep_spec eqb elemDiff lit e h hs
        (fun x hx y hy => hD x (by rw [← List.append_assoc]; exact List.mem_append_left _ hx)
          y (by rw [← List.append_assoc]; exact List.mem_append_left _ hy))
      obtain ⟨out2, e2, r2⟩ := ih out1 (o1 ++ dO) (n1 ++ dN) o n r1 hrest
        (fun x hx y hy => hD x (by simpa [List.append_assoc] using hx) y (by simpa [List.append_assoc] using hy))
      refine ⟨out2, by simp [merge, e1, e2, bind, Except.bind], ?_⟩
      simpa [List.append_assoc] using r2

end
end Dawn.Diff

import Dawn.Proofs.DiffArr
/-!
C16: the invariant of the O(NP) search (`compose`, `snake`).

Throughout, `a` is the shorter sequence (`m = a.length`), `b` the longer (`n = b.length`), `off = m + 1`,
`delta = n - m`, diagonal `k = y - x`. `fp[k + off]` is the furthest `y` reached on diagonal `k` (or `-1`),
`path[k + off]` the index in `pts` of the point that reached it.
-/
namespace Dawn.Diff

section
variable {α : Type} (eq : α → α → Except Err Bool) (eqb : α → α → Bool) (a b : List α)

/-- the cell `(x, y)` of the edit graph holds two equal elements -/
def Cell (x y : Int) : Prop :=
  0 ≤ x ∧ 0 ≤ y ∧ ∃ u v, a[x.toNat]? = some u ∧ b[y.toNat]? = some v ∧ eqb u v = true

/-- `Q` is reached from `P` by at most one horizontal or vertical step followed by a run of equal cells: the way
`recordSeq` walks from one route point to the next -/
def Seg (P Q : Int × Int) : Prop :=
  ∃ s : Nat, (∀ i : Nat, i < s → Cell eqb a b (Q.1 - s + i) (Q.2 - s + i)) ∧
    ((P.1 = Q.1 - s ∧ P.2 = Q.2 - s) ∨
     (P.1 + 1 = Q.1 - s ∧ P.2 = Q.2 - s ∧ 0 ≤ P.1 ∧ P.1 < a.length ∧ 0 ≤ P.2 ∧ P.2 ≤ b.length) ∨
     (P.1 = Q.1 - s ∧ P.2 + 1 = Q.2 - s ∧ 0 ≤ P.2 ∧ P.2 < b.length ∧ 0 ≤ P.1 ∧ P.1 ≤ a.length))

/-- every recorded point hangs on an earlier one (or on the origin) by a `Seg` -/
def PtsOK (pts : Array Pt) : Prop :=
  ∀ (i : Nat) (q : Pt), pts[i]? = some q →
    (q.r = -1 ∧ Seg eqb a b (0, 0) (q.x, q.y)) ∨
    (0 ≤ q.r ∧ q.r < i ∧ ∃ q', pts[q.r.toNat]? = some q' ∧ Seg eqb a b (q'.x, q'.y) (q.x, q.y))

/-- diagonal `k` is either unset, or `path` points at the in-grid point `(fp - k, fp)` -/
def DiagOK (st : St) (k : Int) : Prop :=
  let off : Int := a.length + 1
  (getI st.fp (k + off) = -1 ∧ getI st.path (k + off) = -1) ∨
  (∃ q, 0 ≤ getI st.path (k + off) ∧ st.pts[(getI st.path (k + off)).toNat]? = some q ∧
        q.y = getI st.fp (k + off) ∧ q.x = getI st.fp (k + off) - k ∧
        0 ≤ q.x ∧ q.x ≤ a.length ∧ 0 ≤ q.y ∧ q.y ≤ b.length)

structure Good (size : Nat) (st : St) : Prop where
  size_fp : st.fp.size = size
  size_path : st.path.size = size
  pts : PtsOK eqb a b st.pts
  diag : ∀ k : Int, -(a.length + 1 : Int) ≤ k → k ≤ b.length + 1 → DiagOK a b st k

/-- `fp` of diagonal `k` -/
def F (st : St) (k : Int) : Int := getI st.fp (k + (a.length + 1 : Int))

theorem lt_of_getElem?_some {β : Type} {xs : Array β} {i : Nat} {x : β} (h : xs[i]? = some x) : i < xs.size := by
  by_cases hc : i < xs.size
  · exact hc
  · simp [Array.getElem?_eq_none (Nat.le_of_not_lt hc)] at h

theorem getElem?_push_of_some {β : Type} {xs : Array β} {i : Nat} {x : β} (y : β) (h : xs[i]? = some x) :
    (xs.push y)[i]? = some x := by
  have hlt := lt_of_getElem?_some h
  rw [Array.getElem?_push]
  have : ¬ i = xs.size := by omega
  simp [this, h]

theorem PtsOK.push {pts : Array Pt} (h : PtsOK eqb a b pts) (q : Pt)
    (hq : (q.r = -1 ∧ Seg eqb a b (0, 0) (q.x, q.y)) ∨
      (0 ≤ q.r ∧ q.r < pts.size ∧ ∃ q', pts[q.r.toNat]? = some q' ∧ Seg eqb a b (q'.x, q'.y) (q.x, q.y))) :
    PtsOK eqb a b (pts.push q) := by
  intro i q0 hi
  rw [Array.getElem?_push] at hi
  split at hi
  · rename_i hsz
    cases hi
    rcases hq with hq | ⟨h0, h1, q', hq', hs⟩
    · exact Or.inl hq
    · exact Or.inr ⟨h0, by omega, q', getElem?_push_of_some _ hq', hs⟩
  · rcases h i q0 hi with h' | ⟨h0, h1, q', hq', hs⟩
    · exact Or.inl h'
    · exact Or.inr ⟨h0, h1, q', getElem?_push_of_some _ hq', hs⟩

theorem snake_eval (off k p pp y : Int) (st : St) (r : Int) (s : Nat)
    (hy : y = if p < pp then pp else p)
    (hr1 : p > pp → rd st.path (k - 1 + off) = .ok r)
    (hr2 : ¬ p > pp → rd st.path (k + 1 + off) = .ok r)
    (hrun1 : y - k < a.length ∧ y < b.length →
        0 ≤ y - k ∧ 0 ≤ y ∧ run eq (a.drop (y - k).toNat) (b.drop y.toNat) = .ok s)
    (hrun2 : ¬ (y - k < a.length ∧ y < b.length) → s = 0)
    (hw0 : 0 ≤ k + off) (hw1 : k + off < st.path.size) :
    snake eq a b k p pp off st = .ok (y + s,
      { st with path := st.path.setIfInBounds (k + off).toNat st.pts.size,
                pts := st.pts.push ⟨y - k + s, y + s, r⟩ }) := by
  unfold snake
  rw [← hy]
  by_cases hc : y - k < a.length ∧ y < b.length
  · obtain ⟨h0, h1, h2⟩ := hrun1 hc
    have : ¬ (y - k < 0 ∨ y < 0) := by omega
    by_cases h : p > pp
    · simp only [h, hr1 h, bind, Except.bind, pure, Except.pure, hc, and_self, ↓reduceIte, this, h2,
        wr_ok _ hw0 hw1]
    · simp only [h, hr2 h, bind, Except.bind, pure, Except.pure, hc, and_self, ↓reduceIte, this, h2,
        wr_ok _ hw0 hw1]
  · have := hrun2 hc
    subst this
    by_cases h : p > pp
    · simp only [h, hr1 h, bind, Except.bind, pure, Except.pure, hc, ↓reduceIte, wr_ok _ hw0 hw1]
    · simp only [h, hr2 h, bind, Except.bind, pure, Except.pure, hc, ↓reduceIte, wr_ok _ hw0 hw1]

theorem F_ge (size : Nat) (st : St) (hg : Good eqb a b size st) (k : Int)
    (h0 : -(a.length + 1 : Int) ≤ k) (h1 : k ≤ b.length + 1) : -1 ≤ F a st k := by
  rcases hg.diag k h0 h1 with ⟨h, _⟩ | ⟨q, _, _, hy, _, _, _, hy0, _⟩
  · unfold F; omega
  · unfold F; omega


/-- one `snake` call and the store into `fp`, under the invariant -/
theorem stepK_spec (size : Nat) (hmn : a.length ≤ b.length) (hsize : a.length + b.length + 3 ≤ size)
    (heq : EqOn eq eqb a b) (st : St) (k : Int)
    (hg : Good eqb a b size st)
    (hk0 : -(a.length : Int) ≤ k) (hk1 : k ≤ b.length)
    (hroot : F a st (k - 1) = -1 → F a st (k + 1) = -1 → k = 0)
    (hy : (b.length : Int) - a.length < k → F a st (k - 1) < b.length)
    (hx : k < (b.length : Int) - a.length → F a st (k + 1) = -1 ∨ F a st (k + 1) - (k + 1) < a.length) :
    ∃ st' v, stepK eq a b (a.length + 1) k st = .ok st' ∧ Good eqb a b size st' ∧
      (∀ j : Int, -(a.length + 1 : Int) ≤ j → F a st' j = if j = k then v else F a st j) ∧
      F a st (k - 1) + 1 ≤ v ∧ F a st (k + 1) ≤ v ∧ 0 ≤ v ∧ st'.pts.size = st.pts.size + 1 := by
  have hsf := hg.size_fp
  have hsp := hg.size_path
  have d1 := hg.diag (k - 1) (by omega) (by omega)
  have d2 := hg.diag (k + 1) (by omega) (by omega)
  have g1 := F_ge eqb a b size st hg (k - 1) (by omega) (by omega)
  have g2 := F_ge eqb a b size st hg (k + 1) (by omega) (by omega)
  -- the two reads of fp
  have r1 : rd st.fp (k - 1 + (a.length + 1 : Int)) = .ok (F a st (k - 1)) := rd_ok (by omega) (by omega)
  have r2 : rd st.fp (k + 1 + (a.length + 1 : Int)) = .ok (F a st (k + 1)) := rd_ok (by omega) (by omega)
  -- abbreviations
  generalize hv1 : F a st (k - 1) = v1 at *
  generalize hv2 : F a st (k + 1) = v2 at *
  have hP1 : rd st.path (k - 1 + (a.length + 1 : Int)) = .ok (getI st.path (k - 1 + (a.length + 1 : Int))) :=
    rd_ok (by omega) (by omega)
  have hP2 : rd st.path (k + 1 + (a.length + 1 : Int)) = .ok (getI st.path (k + 1 + (a.length + 1 : Int))) :=
    rd_ok (by omega) (by omega)
  -- start of the snake
  obtain ⟨y0, hy0⟩ : ∃ y0 : Int, y0 = if v1 + 1 < v2 then v2 else v1 + 1 := ⟨_, rfl⟩
  obtain ⟨r, hr⟩ : ∃ r : Int, r = if v1 + 1 > v2 then getI st.path (k - 1 + (a.length + 1 : Int))
      else getI st.path (k + 1 + (a.length + 1 : Int)) := ⟨_, rfl⟩
  -- the start lies in the grid, and the predecessor (if any) is one step away
  have hstart : 0 ≤ y0 - k ∧ y0 - k ≤ a.length ∧ 0 ≤ y0 ∧ y0 ≤ b.length ∧
      ((r = -1 ∧ y0 - k = 0 ∧ y0 = 0) ∨
       (0 ≤ r ∧ ∃ q', st.pts[r.toNat]? = some q' ∧
         ((q'.x + 1 = y0 - k ∧ q'.y = y0 ∧ 0 ≤ q'.x ∧ q'.x < a.length ∧ 0 ≤ q'.y ∧ q'.y ≤ b.length) ∨
          (q'.x = y0 - k ∧ q'.y + 1 = y0 ∧ 0 ≤ q'.y ∧ q'.y < b.length ∧ 0 ≤ q'.x ∧ q'.x ≤ a.length)))) := by
    unfold DiagOK F at *
    simp only [] at d1 d2
    by_cases hc : v1 + 1 > v2
    · -- predecessor on diagonal k-1 (a step in y)
      have hy0' : y0 = v1 + 1 := by simp only [hy0]; split <;> omega
      have hr' : r = getI st.path (k - 1 + (a.length + 1 : Int)) := by simp only [hr, hc, ↓reduceIte]
      rcases d1 with ⟨e1, e2⟩ | ⟨q, hq0, hq, qy, qx, qx0, qx1, qy0, qy1⟩
      · -- unset: then both are unset and this is the root
        have hv2' : v2 = -1 := by omega
        have hk := hroot (by omega) hv2'
        refine ⟨by omega, by omega, by omega, by omega, Or.inl ⟨?_, by omega, by omega⟩⟩
        rw [hr']; rw [show k - 1 + (a.length + 1 : Int) = k - 1 + (↑a.length + 1) from rfl] ; exact e2
      · have hylt : v1 < b.length := by
          by_cases hkd : (b.length : Int) - a.length < k
          · exact hy hkd
          · omega
        refine ⟨by omega, by omega, by omega, by omega, Or.inr ⟨by rw [hr']; exact hq0, q, by rw [hr']; exact hq, Or.inr ?_⟩⟩
        omega
    · -- predecessor on diagonal k+1 (a step in x)
      have hy0' : y0 = v2 := by simp only [hy0]; split <;> omega
      have hr' : r = getI st.path (k + 1 + (a.length + 1 : Int)) := by simp only [hr, hc, ↓reduceIte]
      rcases d2 with ⟨e1, e2⟩ | ⟨q, hq0, hq, qy, qx, qx0, qx1, qy0, qy1⟩
      · omega
      · have hxlt : v2 - (k + 1) < a.length := by
          by_cases hkd : k < (b.length : Int) - a.length
          · rcases hx hkd with h | h
            · omega
            · exact h
          · omega
        refine ⟨by omega, by omega, by omega, by omega, Or.inr ⟨by rw [hr']; exact hq0, q, by rw [hr']; exact hq, Or.inl ?_⟩⟩
        omega
  obtain ⟨hx0, hx1, hy0a, hy1, hpred⟩ := hstart
  -- the run along the diagonal
  obtain ⟨s, hs, hs1, hs2, hs3⟩ := run_ok eq eqb (a.drop (y0 - k).toNat) (b.drop y0.toNat) (heq.drop eq eqb _ _)
  simp only [List.length_drop] at hs1 hs2
  obtain ⟨s', hs'⟩ : ∃ s' : Nat, s' = if y0 - k < a.length ∧ y0 < b.length then s else 0 := ⟨_, rfl⟩
  have hs'1 : (s' : Int) ≤ a.length - (y0 - k) := by rw [hs']; split <;> omega
  have hs'2 : (s' : Int) ≤ b.length - y0 := by rw [hs']; split <;> omega
  have hs'3 : EqRun eqb (a.drop (y0 - k).toNat) (b.drop y0.toNat) s' := by
    rw [hs']; split
    · exact hs3
    · intro i hi; omega
  have hsn := snake_eval eq a b (a.length + 1) k (v1 + 1) v2 y0 st r s' hy0
    (fun h => by simp only [hr, h, ↓reduceIte]; exact hP1)
    (fun h => by simp only [hr, h, ↓reduceIte]; exact hP2)
    (fun h => ⟨hx0, hy0a, by simp only [hs', h, and_self, ↓reduceIte]; exact hs⟩)
    (fun h => by simp only [hs', h, ↓reduceIte])
    (by omega) (by omega)
  have hb1 : v1 + 1 ≤ y0 + s' := by rw [hy0]; split <;> omega
  have hb2 : v2 ≤ y0 + s' := by rw [hy0]; split <;> omega
  have hb3 : 0 ≤ y0 + (s' : Int) := by omega
  refine ⟨{ fp := st.fp.setIfInBounds (k + (a.length + 1 : Int)).toNat (y0 + s'),
            path := st.path.setIfInBounds (k + (a.length + 1 : Int)).toNat st.pts.size,
            pts := st.pts.push ⟨y0 - k + s', y0 + s', r⟩ }, y0 + s', ?_, ?_, ?_, hb1, hb2, hb3, ?_⟩
  · -- the computation
    unfold stepK
    simp only [r1, r2, bind, Except.bind, hsn, pure, Except.pure]
    rw [wr_ok _ (by omega) (by omega)]
  · -- the invariant
    have hcells : ∀ i : Nat, i < s' → Cell eqb a b (y0 - k + s' - s' + i) (y0 + s' - s' + i) := by
      intro i hi
      obtain ⟨u, v, hu, hv, huv⟩ := hs'3 i hi
      refine ⟨by omega, by omega, u, v, ?_, ?_, huv⟩
      · rw [List.getElem?_drop] at hu
        rw [← hu]; congr 1; omega
      · rw [List.getElem?_drop] at hv
        rw [← hv]; congr 1; omega
    have hnewpt : (st.pts.push ⟨y0 - k + s', y0 + s', r⟩)[st.pts.size]? = some ⟨y0 - k + s', y0 + s', r⟩ := by
      simp
    refine ⟨by simp [hsf], by simp [hsp], ?_, ?_⟩
    · apply PtsOK.push eqb a b hg.pts
      rcases hpred with ⟨hr, hxz, hyz⟩ | ⟨hr0, q', hq', hstep⟩
      · exact Or.inl ⟨hr, s', hcells, Or.inl ⟨by simp; omega, by simp; omega⟩⟩
      · refine Or.inr ⟨hr0, ?_, q', hq', s', hcells, ?_⟩
        · have := lt_of_getElem?_some hq'; simp only []; omega
        · rcases hstep with h | h
          · exact Or.inr (Or.inl ⟨by simp; omega, by simp; omega, h.2.2.1, h.2.2.2.1, h.2.2.2.2.1, h.2.2.2.2.2⟩)
          · exact Or.inr (Or.inr ⟨by simp; omega, by simp; omega, h.2.2.1, h.2.2.2.1, h.2.2.2.2.1, h.2.2.2.2.2⟩)
    · intro j hj0 hj1
      unfold DiagOK
      simp only []
      rw [getI_set _ (by omega) (by omega) (by omega), getI_set _ (by omega) (by omega) (by omega)]
      by_cases hjk : j = k
      · subst hjk
        simp only [↓reduceIte]
        refine Or.inr ⟨⟨y0 - j + s', y0 + s', r⟩, by omega, ?_, rfl, by simp; omega, by simp; omega, by simp; omega, by simp; omega, by simp; omega⟩
        simp
      · have : ¬ (j + (a.length + 1 : Int) = k + (a.length + 1 : Int)) := by omega
        simp only [this, ↓reduceIte]
        rcases hg.diag j hj0 hj1 with h | ⟨q, hq0, hq, rest⟩
        · exact Or.inl h
        · exact Or.inr ⟨q, hq0, getElem?_push_of_some _ hq, rest⟩
  · -- the frame
    intro j hj
    unfold F
    simp only []
    rw [getI_set _ (by omega) (by omega) (by omega)]
    by_cases hjk : j = k
    · simp [hjk]
    · have : ¬ (j + (a.length + 1 : Int) = k + (a.length + 1 : Int)) := by omega
      simp [this, hjk]
  · simp

/-- the ascending sweep `for k := -p; k <= delta-1; k++` -/
theorem sweepUp_spec (size : Nat) (hmn : a.length ≤ b.length) (hsize : a.length + b.length + 3 ≤ size)
    (heq : EqOn eq eqb a b) (cnt : Nat) : ∀ (st : St) (k0 : Int),
    Good eqb a b size st →
    -(a.length : Int) ≤ k0 → k0 + cnt ≤ (b.length : Int) - a.length →
    (F a st (k0 - 1) = -1 → F a st (k0 + 1) = -1 → k0 = 0 ∨ cnt = 0) →
    (∀ j : Int, k0 < j → j ≤ k0 + cnt → F a st j = -1 ∨ F a st j - j < a.length) →
    ∃ st', sweepUp eq a b (a.length + 1) k0 cnt st = .ok st' ∧ Good eqb a b size st' ∧
      (∀ j : Int, -(a.length + 1 : Int) ≤ j → (j < k0 ∨ k0 + cnt ≤ j) → F a st' j = F a st j) ∧
      (∀ j : Int, k0 ≤ j → j < k0 + cnt →
          0 ≤ F a st' j ∧ F a st' (j - 1) + 1 ≤ F a st' j ∧ F a st (j + 1) ≤ F a st' j) ∧
      st'.pts.size = st.pts.size + cnt := by
  induction cnt with
  | zero =>
    intro st k0 hg _ _ _ _
    exact ⟨st, by simp [sweepUp, pure, Except.pure], hg, fun _ _ _ => rfl, fun j h1 h2 => by omega, by simp⟩
  | succ cnt ih =>
    intro st k0 hg hk0 hk1 hroot hx
    obtain ⟨st1, v, e1, g1, fr1, b1, b2, b3, sz1⟩ := stepK_spec eq eqb a b size hmn hsize heq st k0 hg hk0 (by omega)
      (fun h1 h2 => by rcases hroot h1 h2 with h | h <;> omega)
      (fun h => by omega)
      (fun _ => by have := hx (k0 + 1) (by omega) (by omega); simpa using this)
    have fk0 : F a st1 k0 = v := by rw [fr1 k0 (by omega)]; simp
    obtain ⟨st2, e2, g2, fr2, in2, sz2⟩ := ih st1 (k0 + 1) g1 (by omega) (by omega)
      (fun h1 _ => by simp only [Int.add_sub_cancel] at h1; omega)
      (fun j hj0 hj1 => by
        rw [fr1 j (by omega)]
        have : ¬ j = k0 := by omega
        simp only [this, ↓reduceIte]
        exact hx j (by omega) (by omega))
    refine ⟨st2, ?_, g2, ?_, ?_, by omega⟩
    · simp only [sweepUp, bind, Except.bind, e1, e2]
    · intro j hj hjr
      rw [fr2 j hj (by omega), fr1 j hj]
      have : ¬ j = k0 := by omega
      simp [this]
    · intro j hj0 hj1
      by_cases hjk : j = k0
      · subst hjk
        have e : F a st2 j = v := by rw [fr2 j (by omega) (by omega)]; exact fk0
        have e' : F a st2 (j - 1) = F a st (j - 1) := by
          rw [fr2 (j - 1) (by omega) (by omega), fr1 (j - 1) (by omega)]
          have : ¬ j - 1 = j := by omega
          simp [this]
        rw [e, e']
        exact ⟨b3, b1, b2⟩
      · obtain ⟨h1, h2, h3⟩ := in2 j (by omega) (by omega)
        refine ⟨h1, h2, ?_⟩
        rw [fr1 (j + 1) (by omega)] at h3
        have : ¬ j + 1 = k0 := by omega
        simpa [this] using h3

/-- the descending sweep `for k := delta + p; k >= delta+1; k--` -/
theorem sweepDown_spec (size : Nat) (hmn : a.length ≤ b.length) (hsize : a.length + b.length + 3 ≤ size)
    (heq : EqOn eq eqb a b) (cnt : Nat) : ∀ (st : St) (k0 : Int),
    Good eqb a b size st →
    k0 ≤ (b.length : Int) → (b.length : Int) - a.length ≤ k0 - cnt →
    (F a st (k0 - 1) = -1 → F a st (k0 + 1) = -1 → cnt = 0) →
    (∀ j : Int, k0 - cnt ≤ j → j < k0 → F a st j < b.length) →
    ∃ st', sweepDown eq a b (a.length + 1) k0 cnt st = .ok st' ∧ Good eqb a b size st' ∧
      (∀ j : Int, -(a.length + 1 : Int) ≤ j → (j ≤ k0 - cnt ∨ k0 < j) → F a st' j = F a st j) ∧
      (∀ j : Int, k0 - cnt < j → j ≤ k0 →
          0 ≤ F a st' j ∧ F a st' (j + 1) ≤ F a st' j ∧ F a st (j - 1) + 1 ≤ F a st' j) ∧
      st'.pts.size = st.pts.size + cnt := by
  induction cnt with
  | zero =>
    intro st k0 hg _ _ _ _
    exact ⟨st, by simp [sweepDown, pure, Except.pure], hg, fun _ _ _ => rfl, fun j h1 h2 => by omega, by simp⟩
  | succ cnt ih =>
    intro st k0 hg hk0 hk1 hroot hy
    obtain ⟨st1, v, e1, g1, fr1, b1, b2, b3, sz1⟩ := stepK_spec eq eqb a b size hmn hsize heq st k0 hg (by omega) hk0
      (fun h1 h2 => by have := hroot h1 h2; omega)
      (fun _ => hy (k0 - 1) (by omega) (by omega))
      (fun h => by omega)
    have fk0 : F a st1 k0 = v := by rw [fr1 k0 (by omega)]; simp
    obtain ⟨st2, e2, g2, fr2, in2, sz2⟩ := ih st1 (k0 - 1) g1 (by omega) (by omega)
      (fun _ h2 => by simp only [Int.sub_add_cancel] at h2; omega)
      (fun j hj0 hj1 => by
        rw [fr1 j (by omega)]
        have : ¬ j = k0 := by omega
        simp only [this, ↓reduceIte]
        exact hy j (by omega) (by omega))
    refine ⟨st2, ?_, g2, ?_, ?_, by omega⟩
    · simp only [sweepDown, bind, Except.bind, e1, e2]
    · intro j hj hjr
      rw [fr2 j hj (by omega), fr1 j hj]
      have : ¬ j = k0 := by omega
      simp [this]
    · intro j hj0 hj1
      by_cases hjk : j = k0
      · subst hjk
        have e : F a st2 j = v := by rw [fr2 j (by omega) (by omega)]; exact fk0
        have e' : F a st2 (j + 1) = F a st (j + 1) := by
          rw [fr2 (j + 1) (by omega) (by omega), fr1 (j + 1) (by omega)]
          have : ¬ j + 1 = j := by omega
          simp [this]
        rw [e, e']
        exact ⟨b3, b2, b1⟩
      · obtain ⟨h1, h2, h3⟩ := in2 j (by omega) (by omega)
        refine ⟨h1, h2, ?_⟩
        rw [fr1 (j - 1) (by omega)] at h3
        have : ¬ j - 1 = k0 := by omega
        simpa [this] using h3

/-- the state after round `p` of the `for p := 0; ; p++` loop -/
structure Rd (size : Nat) (p : Nat) (st : St) : Prop where
  good : Good eqb a b size st
  unset : ∀ j : Int, -(a.length + 1 : Int) ≤ j → j ≤ b.length + 1 →
    (j < -(p : Int) ∨ (b.length : Int) - a.length + p < j) → F a st j = -1
  set : ∀ j : Int, -(p : Int) ≤ j → j ≤ (b.length : Int) - a.length + p → 0 ≤ F a st j
  chl : ∀ j : Int, -(p : Int) ≤ j → j < (b.length : Int) - a.length → F a st j + 1 ≤ F a st (j + 1)
  chu : ∀ j : Int, (b.length : Int) - a.length ≤ j → j < (b.length : Int) - a.length + p → F a st (j + 1) ≤ F a st j

/-- what round `p` needs to find -/
structure PreRound (size : Nat) (p : Nat) (st : St) : Prop where
  good : Good eqb a b size st
  pm : p ≤ a.length
  unset : ∀ j : Int, -(a.length + 1 : Int) ≤ j → j ≤ b.length + 1 →
    (j < -(p : Int) + 1 ∨ (b.length : Int) - a.length + p - 1 < j) → F a st j = -1
  ends : 1 ≤ p → 0 ≤ F a st (-(p : Int) + 1) ∧ 0 ≤ F a st ((b.length : Int) - a.length + p - 1)
  xlt : ∀ j : Int, -(p : Int) < j → j ≤ (b.length : Int) - a.length → F a st j = -1 ∨ F a st j - j < a.length
  ylt : ∀ j : Int, (b.length : Int) - a.length ≤ j → j ≤ (b.length : Int) - a.length + p - 1 → F a st j < b.length

theorem round_spec (size : Nat) (hmn : a.length ≤ b.length) (hsize : a.length + b.length + 3 ≤ size)
    (heq : EqOn eq eqb a b) (p : Nat) (st : St) (pre : PreRound eqb a b size p st) :
    ∃ st', round eq a b p st = .ok st' ∧ Rd eqb a b size p st' ∧
      st'.pts.size = st.pts.size + (b.length - a.length + 2 * p + 1) := by
  have hpm := pre.pm
  have hcnt : ((b.length : Int) - a.length + p).toNat = b.length - a.length + p := by omega
  -- ascending sweep
  obtain ⟨st1, e1, g1, fr1, in1, sz1⟩ := sweepUp_spec eq eqb a b size hmn hsize heq (b.length - a.length + p) st (-(p : Int))
    pre.good (by omega) (by omega)
    (fun _ h2 => by
      by_cases hp : p = 0
      · left; omega
      · have := (pre.ends (by omega)).1
        rw [show -(p : Int) + 1 = -(p : Int) + 1 from rfl] at this
        omega)
    (fun j hj0 hj1 => pre.xlt j hj0 (by omega))
  -- descending sweep
  obtain ⟨st2, e2, g2, fr2, in2, sz2⟩ := sweepDown_spec eq eqb a b size hmn hsize heq p st1 ((b.length : Int) - a.length + p)
    g1 (by omega) (by omega)
    (fun h1 _ => by
      by_cases hp : p = 0
      · exact hp
      · have h := (pre.ends (by omega)).2
        rw [fr1 _ (by omega) (by omega)] at h1
        omega)
    (fun j hj0 hj1 => by
      rw [fr1 j (by omega) (by omega)]
      exact pre.ylt j (by omega) (by omega))
  -- diagonal delta
  obtain ⟨st3, v, e3, g3, fr3, b1, b2, b3, sz3⟩ := stepK_spec eq eqb a b size hmn hsize heq st2
    ((b.length : Int) - a.length) g2 (by omega) (by omega)
    (fun h1 _ => by
      by_cases hd : (b.length : Int) - a.length = 0
      · exact hd
      · have h := (in1 ((b.length : Int) - a.length - 1) (by omega) (by omega)).1
        rw [fr2 _ (by omega) (by omega)] at h1
        omega)
    (fun h => by omega) (fun h => by omega)
  refine ⟨st3, ?_, ⟨g3, ?_, ?_, ?_, ?_⟩, by omega⟩
  · unfold round
    simp only [bind, Except.bind, hcnt]
    rw [show ((a.length : Int) + 1) = (a.length + 1 : Int) from rfl] at *
    simp only [e1, e2, e3]
  · intro j hj0 hj1 hr
    rw [fr3 j hj0]
    have : ¬ j = (b.length : Int) - a.length := by omega
    simp only [this, ↓reduceIte]
    rw [fr2 j hj0 (by omega), fr1 j hj0 (by omega)]
    exact pre.unset j hj0 hj1 (by omega)
  · intro j hj0 hj1
    rw [fr3 j (by omega)]
    by_cases hjd : j = (b.length : Int) - a.length
    · simp only [hjd, ↓reduceIte]; exact b3
    · simp only [hjd, ↓reduceIte]
      by_cases hlt : j < (b.length : Int) - a.length
      · rw [fr2 j (by omega) (by omega)]
        exact (in1 j (by omega) (by omega)).1
      · exact (in2 j (by omega) (by omega)).1
  · intro j hj0 hj1
    rw [fr3 j (by omega), fr3 (j + 1) (by omega)]
    have hne : ¬ j = (b.length : Int) - a.length := by omega
    simp only [hne, ↓reduceIte]
    by_cases hjd : j + 1 = (b.length : Int) - a.length
    · simp only [hjd, ↓reduceIte]
      have : j = (b.length : Int) - a.length - 1 := by omega
      rw [this]; exact b1
    · simp only [hjd, ↓reduceIte]
      rw [fr2 j (by omega) (by omega), fr2 (j + 1) (by omega) (by omega)]
      have := (in1 (j + 1) (by omega) (by omega)).2.1
      simpa using this
  · intro j hj0 hj1
    rw [fr3 j (by omega), fr3 (j + 1) (by omega)]
    have hne : ¬ j + 1 = (b.length : Int) - a.length := by omega
    simp only [hne, ↓reduceIte]
    by_cases hjd : j = (b.length : Int) - a.length
    · simp only [hjd, ↓reduceIte]; exact b2
    · simp only [hjd, ↓reduceIte]
      exact (in2 j (by omega) (by omega)).2.1

theorem Rd.chainL {size p : Nat} {st : St} (h : Rd eqb a b size p st) (d : Nat) :
    ∀ j : Int, -(p : Int) ≤ j → j + d = (b.length : Int) - a.length →
      F a st j + d ≤ F a st ((b.length : Int) - a.length) := by
  induction d with
  | zero => intro j _ hj; have : j = (b.length : Int) - a.length := by omega
            subst this; simp
  | succ d ih =>
    intro j hj0 hj1
    have h1 := h.chl j hj0 (by omega)
    have h2 := ih (j + 1) (by omega) (by omega)
    omega

theorem Rd.chainU {size p : Nat} {st : St} (h : Rd eqb a b size p st) (d : Nat) :
    ∀ j : Int, j = (b.length : Int) - a.length + d → d ≤ p →
      F a st j ≤ F a st ((b.length : Int) - a.length) := by
  induction d with
  | zero => intro j hj _; have : j = (b.length : Int) - a.length := by omega
            subst this; simp
  | succ d ih =>
    intro j hj0 hj1
    have h1 := h.chu (j - 1) (by omega) (by omega)
    have h2 := ih (j - 1) (by omega) (by omega)
    simp only [Int.sub_add_cancel] at h1
    omega

/-- the furthest point on diagonal `delta` after round `p` is at least `p` steps beyond the start: the loop ends by round `m` -/
theorem Rd.low {size p : Nat} {st : St} (h : Rd eqb a b size p st) (hmn : a.length ≤ b.length) :
    (b.length : Int) - a.length + p ≤ F a st ((b.length : Int) - a.length) := by
  have h1 := h.chainL eqb a b (b.length - a.length + p) (-(p : Int)) (by omega) (by omega)
  have h2 := h.set (-(p : Int)) (by omega) (by omega)
  omega

theorem Rd.next {size p : Nat} {st : St} (h : Rd eqb a b size p st) (hmn : a.length ≤ b.length)
    (hnd : F a st ((b.length : Int) - a.length) < b.length) : PreRound eqb a b size (p + 1) st := by
  have hlow := h.low eqb a b hmn
  refine ⟨h.good, by omega, ?_, ?_, ?_, ?_⟩
  · intro j hj0 hj1 hr
    exact h.unset j hj0 hj1 (by omega)
  · intro _
    exact ⟨h.set _ (by omega) (by omega), h.set _ (by omega) (by omega)⟩
  · intro j hj0 hj1
    right
    have := h.chainL eqb a b ((b.length : Int) - a.length - j).toNat j (by omega) (by omega)
    omega
  · intro j hj0 hj1
    have := h.chainU eqb a b (j - ((b.length : Int) - a.length)).toNat j (by omega) (by omega)
    omega

/-- the state `compose` starts each pass with: both arrays filled with `-1`, no points -/
theorem init_pre (size : Nat) (hsize : a.length + b.length + 3 ≤ size) :
    PreRound eqb a b size 0
      { fp := Array.replicate size (-1), path := Array.replicate size (-1), pts := #[] } := by
  refine ⟨⟨by simp, by simp, ?_, ?_⟩, by omega, ?_, by omega, ?_, ?_⟩
  · intro i q hi; simp at hi
  · intro k _ _; left; simp [getI_replicate]
  · intro j _ _ _; simp [F, getI_replicate]
  · intro j _ _; left; simp [F, getI_replicate]
  · intro j _ _; simp only [F, getI_replicate]; omega

/-- The `for p` loop: it ends, within `m + 1` rounds, in a state that satisfies the invariant; either the end
`(m, n)` has been reached or the route list outgrew `routeSize`. -/
theorem rounds_spec (size : Nat) (hmn : a.length ≤ b.length) (hsize : a.length + b.length + 3 ≤ size)
    (heq : EqOn eq eqb a b) (routeSize : Nat) (fuel : Nat) : ∀ (p : Nat) (st : St),
    PreRound eqb a b size p st → a.length + 1 ≤ fuel + p →
    ∃ st' p', rounds eq a b routeSize fuel p st = .ok st' ∧ Rd eqb a b size p' st' ∧ p ≤ p' ∧
      ((b.length : Int) ≤ F a st' ((b.length : Int) - a.length) ∨ st'.pts.size > routeSize) ∧
      (p' = p → st'.pts.size = st.pts.size + (b.length - a.length + 2 * p + 1)) := by
  induction fuel with
  | zero =>
    intro p st pre hf
    have := pre.pm; omega
  | succ fuel ih =>
    intro p st pre hf
    obtain ⟨st1, e1, rd1, sz1⟩ := round_spec eq eqb a b size hmn hsize heq p st pre
    have hrd : rd st1.fp ((b.length : Int) - a.length + ((a.length : Int) + 1)) = .ok (F a st1 ((b.length : Int) - a.length)) :=
      rd_ok (by omega) (by have := rd1.good.size_fp; omega)
    by_cases hex : F a st1 ((b.length : Int) - a.length) ≥ b.length ∨ st1.pts.size > routeSize
    · refine ⟨st1, p, ?_, rd1, Nat.le_refl _, hex, fun _ => sz1⟩
      simp only [rounds, bind, Except.bind, e1, hrd, hex, ↓reduceIte, pure, Except.pure]
    · have hnd : F a st1 ((b.length : Int) - a.length) < b.length := by omega
      obtain ⟨st2, p2, e2, rd2, hp2, hfin, _⟩ := ih (p + 1) st1 (rd1.next eqb a b hmn hnd) (by omega)
      refine ⟨st2, p2, ?_, rd2, by omega, hfin, fun h => by omega⟩
      simp only [rounds, bind, Except.bind, e1, hrd, hex, ↓reduceIte]
      exact e2

end
end Dawn.Diff

import Dawn.Proofs.BuildSettle
/-!
# A dry run predicts the real build (C13)

The dry run and the real build of the same tree from the same state are folded over the same order. As long as a
target's dependencies all succeeded in the real build, both runs take the same skip decision for it: the records of
targets not yet visited are untouched, `changed` is set in both runs exactly for evaluated targets, and a file the
decision reads can only differ when the target that owns it was evaluated — which already forces the decision.
-/
namespace Dawn.Build

def evalIn (l : Label) (evs : List Ev) : Prop := Ev.evaluating l ∈ evs

/-- the relation between the real build (`r`) and the dry run (`d`) after the same prefix of the order -/
structure DryRel (P : Params) (S : Shape) (t : Tree) (w0 : World) (r d : BSt) : Prop where
  dworld : d.w = w0
  dom : ∀ x, r.memo x = none ↔ d.memo x = none
  ok : ∀ x mr md, r.memo x = some mr → d.memo x = some md → mr.ok = true →
    md.ok = true ∧ md.changed = mr.changed ∧ (mr.changed = false → md.data = mr.data) ∧ (evalIn x r.evs ↔ evalIn x d.evs)
  sub : ∀ x, evalIn x r.evs → evalIn x d.evs
  /-- an extra target of the dry run has a dependency that failed in the real build -/
  extra : ∀ x, evalIn x d.evs → ¬ evalIn x r.evs → ∃ mr, r.memo x = some mr ∧ mr.ok = false
  visited : ∀ x, (evalIn x r.evs ∨ evalIn x d.evs) → r.memo x ≠ none
  recs : ∀ y, r.memo y = none → r.w.recs y = w0.recs y
  files : ∀ p, r.w.files p = w0.files p ∨
    ∃ g mg, S.owner p = some g ∧ (t.defs g).isSome ∧ r.memo g = some mg ∧ (mg.changed = true ∨ mg.ok = false)

theorem loadedInfo_eq_of_recs {w w' : World} {l : Label} (d : Def) (h : w'.recs l = w.recs l) : loadedInfo w' l d = loadedInfo w l d := by
  unfold loadedInfo; rw [h]

/-- what any visit does to the memo and the events -/
theorem visit_summary (P : Params) (t : Tree) (o : Opts) (s : BSt) (l : Label) :
    ∃ m, (visit P t o s l).memo = upd s.memo l (some m) ∧
      (∀ x, evalIn x (visit P t o s l).evs ↔ (evalIn x s.evs ∨ (x = l ∧ evalIn l (visit P t o s l).evs))) := by
  unfold visit evalIn
  cases t.defs l with
  | none => exact ⟨_, rfl, fun x => by simp; intro e h; exact e ▸ h⟩
  | some d =>
    simp only
    cases plan P t o s l d with
    | depFailed r =>
      refine ⟨_, rfl, fun x => ?_⟩
      simp only
      split <;> (simp; intro e h; exact e ▸ h)
    | skip info => exact ⟨_, rfl, fun x => by simp; intro e h; exact e ▸ h⟩
    | dry info =>
      refine ⟨_, rfl, fun x => ?_⟩
      simp only [List.mem_cons, reduceCtorEq, false_or, Ev.evaluating.injEq]
      constructor
      · rintro (h | h)
        · exact Or.inr ⟨h, Or.inl trivial⟩
        · exact Or.inl h
      · rintro (h | ⟨h, _⟩)
        · exact Or.inr h
        · exact Or.inl h
    | run info dd =>
      refine ⟨_, rfl, fun x => ?_⟩
      simp only [List.mem_cons, Ev.evaluating.injEq]
      constructor
      · rintro (h | h | h)
        · split at h <;> cases h
        · exact Or.inr ⟨h, Or.inr (Or.inl trivial)⟩
        · exact Or.inl h
      · rintro (h | ⟨h, _⟩)
        · exact Or.inr (Or.inr h)
        · exact Or.inr (Or.inl h)

end Dawn.Build

namespace Dawn.Build

/-- the skip condition of `plan`, as a function -/
def skipCond (P : Params) (t : Tree) (o : Opts) (s : BSt) (l : Label) (d : Def) : Bool :=
  let info := loadedInfo s.w l d
  !o.always && (((depsOf t l d).all fun x =>
      match info.deps.lookup x, s.memo x with
      | some st, some m => !m.changed && st == m.data
      | _, _ => false) && (!P.depCount || info.deps.length == (depsOf t l d).length) && attrsOK P d info) && upToDate P s.w d info && !info.rerun

theorem plan_of_depsok {P : Params} {t : Tree} {o : Opts} {s : BSt} {l : Label} {d : Def}
    (hok : ∀ y ∈ depsOf t l d, ∃ m, s.memo y = some m ∧ m.ok = true) :
    plan P t o s l d =
      if skipCond P t o s l d then .skip (loadedInfo s.w l d)
      else if o.dry then .dry (loadedInfo s.w l d)
      else .run (loadedInfo s.w l d) ((depsOf t l d).map fun x => (x, memoData s x)) := by
  unfold plan skipCond
  simp only
  split
  · rename_i x hx
    have hmem := List.mem_of_find?_eq_some hx
    have hpred := List.find?_some hx
    obtain ⟨m, hm, hmok⟩ := hok x hmem
    simp [hm, hmok] at hpred
  · rfl

/-- with all dependencies successful in the real build, both runs evaluate the same skip condition -/
theorem skipCond_rel {P : Params} {S : Shape} {t : Tree} {o : Opts} {w0 : World} {r d : BSt} {l : Label} {df : Def}
    (hc : Conforms S t) (rel : DryRel P S t w0 r d) (hd : t.defs l = some df) (hfresh : r.memo l = none)
    (hok : ∀ y ∈ depsOf t l df, ∃ m, r.memo y = some m ∧ m.ok = true) :
    loadedInfo d.w l df = loadedInfo r.w l df ∧
    skipCond P t { o with dry := true } d l df = skipCond P t o r l df := by
  have hinfo : loadedInfo d.w l df = loadedInfo r.w l df := by
    apply loadedInfo_eq_of_recs
    rw [rel.dworld, rel.recs l hfresh]
  refine ⟨hinfo, ?_⟩
  unfold skipCond
  simp only [hinfo]
  -- the dependency test
  have hall : ((depsOf t l df).all fun x =>
      match (loadedInfo r.w l df).deps.lookup x, d.memo x with
      | some st, some m => !m.changed && st == m.data
      | _, _ => false) =
    ((depsOf t l df).all fun x =>
      match (loadedInfo r.w l df).deps.lookup x, r.memo x with
      | some st, some m => !m.changed && st == m.data
      | _, _ => false) := by
    apply all_congr_mem
    intro y hy
    obtain ⟨mr, hmr, hmrok⟩ := hok y hy
    cases hmd : d.memo y with
    | none => exact absurd ((rel.dom y).mpr hmd) (by rw [hmr]; simp)
    | some md =>
      obtain ⟨_, hch, hdata, _⟩ := rel.ok y mr md hmr hmd hmrok
      rw [hmr]
      cases hl : (loadedInfo r.w l df).deps.lookup y with
      | none => rfl
      | some st =>
        simp only [hch]
        cases hc' : mr.changed with
        | true => simp
        | false => simp [hdata hc']
  rw [hall]
  -- when the dependency test passes, the files the target's own test reads are untouched
  cases hdeps : ((depsOf t l df).all fun x =>
      match (loadedInfo r.w l df).deps.lookup x, r.memo x with
      | some st, some m => !m.changed && st == m.data
      | _, _ => false) with
  | false => simp
  | true =>
    have hunchanged : ∀ y ∈ depsOf t l df, ∃ m, r.memo y = some m ∧ m.ok = true ∧ m.changed = false := by
      intro y hy
      obtain ⟨m, hm, hmok⟩ := hok y hy
      have := List.all_eq_true.mp hdeps y hy
      rw [hm] at this
      split at this
      · rename_i st m' _ hm'
        cases hm'
        simp only [Bool.and_eq_true, Bool.not_eq_eq_eq_not, Bool.not_true] at this
        exact ⟨m, hm, hmok, this.1⟩
      · cases this
    have hup : upToDate P d.w df (loadedInfo r.w l df) = upToDate P r.w df (loadedInfo r.w l df) := by
      rw [rel.dworld]
      unfold upToDate
      cases hk : df.kind with
      | src =>
        simp only
        rcases rel.files df.path with h | ⟨g, mg, hown, hgdef, hmg, hbad⟩
        · rw [h]
        · -- the owner of the file was evaluated: it is a dependency, and it is unchanged — impossible
          have hdep := hc.link l df hd hk g hown hgdef
          obtain ⟨m, hm, hmok, hch⟩ := hunchanged g hdep
          rw [hmg] at hm; cases hm
          rcases hbad with h | h
          · rw [hch] at h; cases h
          · rw [hmok] at h; cases h
      | fn =>
        simp only
        have : (df.gens.all fun g => w0.files g != .missing) = (df.gens.all fun g => r.w.files g != .missing) := by
          apply all_congr_mem
          intro g hg
          rcases rel.files g with h | ⟨g', mg, hown, _, hmg, _⟩
          · rw [h]
          · rw [hc.gens l df hd hk] at hg
            rw [S.owned l df.env g hg] at hown
            cases hown
            rw [hfresh] at hmg; cases hmg
        rw [this]
    rw [hup]

end Dawn.Build

namespace Dawn.Build

theorem dryrel_extend {P : Params} {S : Shape} {t : Tree} {w0 : World} {r d r' d' : BSt} {l : Label} {mr md : Res} {eR eD : Prop}
    (rel : DryRel P S t w0 r d) (hfresh : r.memo l = none)
    (hmR : r'.memo = upd r.memo l (some mr)) (hmD : d'.memo = upd d.memo l (some md))
    (hevR : ∀ x, evalIn x r'.evs ↔ (evalIn x r.evs ∨ (x = l ∧ eR)))
    (hevD : ∀ x, evalIn x d'.evs ↔ (evalIn x d.evs ∨ (x = l ∧ eD)))
    (hdw : d'.w = w0)
    (hrecs : ∀ y, y ≠ l → r'.w.recs y = r.w.recs y)
    (hfiles : ∀ p, r'.w.files p = r.w.files p ∨ (S.owner p = some l ∧ (t.defs l).isSome ∧ (mr.changed = true ∨ mr.ok = false)))
    (hlocal : mr.ok = true → md.ok = true ∧ md.changed = mr.changed ∧ (mr.changed = false → md.data = mr.data) ∧ (eR ↔ eD))
    (hsub : eR → eD) (hextra : eD → ¬ eR → mr.ok = false) :
    DryRel P S t w0 r' d' := by
  have hfreshD : d.memo l = none := (rel.dom l).mp hfresh
  have hnoR : ¬ evalIn l r.evs := fun h => rel.visited l (Or.inl h) hfresh
  have hnoD : ¬ evalIn l d.evs := fun h => rel.visited l (Or.inr h) hfresh
  constructor
  · exact hdw
  · intro x
    rw [hmR, hmD]
    by_cases e : x = l
    · subst e; simp
    · rw [upd_other _ _ _ _ e, upd_other _ _ _ _ e]; exact rel.dom x
  · intro x mr' md' h1 h2 hok
    rw [hmR] at h1; rw [hmD] at h2
    by_cases e : x = l
    · subst e
      simp only [upd_same, Option.some.injEq] at h1 h2
      subst h1; subst h2
      obtain ⟨a, b, c, dd⟩ := hlocal hok
      refine ⟨a, b, c, ?_⟩
      rw [hevR, hevD]
      constructor
      · rintro (h | ⟨_, h⟩)
        · exact absurd h hnoR
        · exact Or.inr ⟨rfl, dd.mp h⟩
      · rintro (h | ⟨_, h⟩)
        · exact absurd h hnoD
        · exact Or.inr ⟨rfl, dd.mpr h⟩
    · rw [upd_other _ _ _ _ e] at h1 h2
      obtain ⟨a, b, c, dd⟩ := rel.ok x mr' md' h1 h2 hok
      refine ⟨a, b, c, ?_⟩
      rw [hevR, hevD]
      constructor
      · rintro (h | ⟨h, _⟩)
        · exact Or.inl (dd.mp h)
        · exact absurd h e
      · rintro (h | ⟨h, _⟩)
        · exact Or.inl (dd.mpr h)
        · exact absurd h e
  · intro x hx
    rw [hevR] at hx; rw [hevD]
    rcases hx with h | ⟨h1, h2⟩
    · exact Or.inl (rel.sub x h)
    · exact Or.inr ⟨h1, hsub h2⟩
  · intro x hx hnx
    rw [hevD] at hx; rw [hevR] at hnx
    rcases hx with h | ⟨h1, h2⟩
    · obtain ⟨m, hm, hmok⟩ := rel.extra x h (fun h' => hnx (Or.inl h'))
      exact ⟨m, by rw [hmR]; exact memo_fresh_mono hfresh hm, hmok⟩
    · subst h1
      refine ⟨mr, by rw [hmR]; simp, hextra h2 (fun h' => hnx (Or.inr ⟨rfl, h'⟩))⟩
  · intro x hx
    rw [hmR]
    by_cases e : x = l
    · subst e; simp
    · rw [upd_other _ _ _ _ e]
      apply rel.visited x
      rw [hevR, hevD] at hx
      rcases hx with (h | ⟨h, _⟩) | (h | ⟨h, _⟩)
      · exact Or.inl h
      · exact absurd h e
      · exact Or.inr h
      · exact absurd h e
  · intro y hy
    rw [hmR] at hy
    have hyl : y ≠ l := by intro e; subst e; simp at hy
    rw [upd_other _ _ _ _ hyl] at hy
    rw [hrecs y hyl]; exact rel.recs y hy
  · intro p
    rcases hfiles p with h | ⟨h1, h2, h3⟩
    · rw [h]
      rcases rel.files p with h' | ⟨g, mg, a, b, c, dd⟩
      · exact Or.inl h'
      · exact Or.inr ⟨g, mg, a, b, by rw [hmR]; exact memo_fresh_mono hfresh c, dd⟩
    · exact Or.inr ⟨l, mr, h1, h2, by rw [hmR]; simp, h3⟩

end Dawn.Build

namespace Dawn.Build

theorem plan_depFailed_of {P : Params} {t : Tree} {o : Opts} {s : BSt} {l : Label} {d : Def}
    (h : ¬ ∀ y ∈ depsOf t l d, ∃ m, s.memo y = some m ∧ m.ok = true) : ∃ rep, plan P t o s l d = .depFailed rep := by
  unfold plan
  simp only
  split
  · exact ⟨_, rfl⟩
  · rename_i hnone
    exact absurd (deps_ok_of_find_none hnone) h

theorem dry_step {P : Params} {S : Shape} {t : Tree} {o : Opts} {w0 : World} {r d : BSt} {l : Label}
    (hc : Conforms S t) (hdry : o.dry = false) (rel : DryRel P S t w0 r d) (hfresh : r.memo l = none) :
    DryRel P S t w0 (visit P t o r l) (visit P t { o with dry := true } d l) := by
  obtain ⟨mR, hmR, hevR⟩ := visit_summary P t o r l
  obtain ⟨mD, hmD, hevD⟩ := visit_summary P t { o with dry := true } d l
  have hdw : (visit P t { o with dry := true } d l).w = w0 := by
    rw [(visit_dry P t { o with dry := true } d l rfl).1]; exact rel.dworld
  obtain ⟨f1, f2⟩ := visit_frame hc P o r l
  cases hd : t.defs l with
  | none =>
    have hwR : (visit P t o r l).w = r.w := by simp [visit, hd]
    apply dryrel_extend rel hfresh hmR hmD hevR hevD hdw (fun y _ => by rw [hwR]) (fun p => Or.inl (by rw [hwR]))
    · intro hok
      have : mR = failedRes true := by
        have := congrFun hmR l
        simp [visit, hd] at this
        exact this.symm
      rw [this] at hok; cases hok
    · intro h; simp [visit, hd, evalIn] at h; exact absurd h (fun h' => rel.visited l (Or.inl h') hfresh)
    · intro h; simp [visit, hd, evalIn] at h; exact absurd h (fun h' => rel.visited l (Or.inr h') hfresh)
  | some df =>
    have hsome : (t.defs l).isSome := by simp [hd]
    have hfiles : ∀ p, (visit P t o r l).w.files p = r.w.files p ∨
        (S.owner p = some l ∧ (t.defs l).isSome ∧ (mR.changed = true ∨ mR.ok = false)) → True := fun _ _ => trivial
    by_cases hall : ∀ y ∈ depsOf t l df, ∃ m, r.memo y = some m ∧ m.ok = true
    · -- same decision in both runs
      have hallD : ∀ y ∈ depsOf t l df, ∃ m, d.memo y = some m ∧ m.ok = true := by
        intro y hy
        obtain ⟨mr, hmr, hmrok⟩ := hall y hy
        cases hmd : d.memo y with
        | none => exact absurd ((rel.dom y).mpr hmd) (by rw [hmr]; simp)
        | some md => exact ⟨md, rfl, (rel.ok y mr md hmr hmd hmrok).1⟩
      obtain ⟨hinfo, hcond⟩ := skipCond_rel (o := o) hc rel hd hfresh hall
      have hpR := plan_of_depsok (P := P) (o := o) hall
      have hpD := plan_of_depsok (P := P) (o := { o with dry := true }) hallD
      rw [hcond, hinfo] at hpD
      cases hcnd : skipCond P t o r l df with
      | true =>
        simp only [hcnd, if_true] at hpR hpD
        have hwR : (visit P t o r l).w = r.w := by simp [visit, hd, hpR]
        have hmR' : mR = ⟨true, false, stampOf P (loadedInfo r.w l df), false⟩ := by
          have := congrFun hmR l; simp [visit, hd, hpR] at this; exact this.symm
        have hmD' : mD = ⟨true, false, stampOf P (loadedInfo r.w l df), false⟩ := by
          have := congrFun hmD l; simp [visit, hd, hpD] at this; exact this.symm
        have heR : ¬ evalIn l (visit P t o r l).evs := by
          simp [visit, hd, hpR, evalIn]; exact fun h' => rel.visited l (Or.inl h') hfresh
        have heD : ¬ evalIn l (visit P t { o with dry := true } d l).evs := by
          simp [visit, hd, hpD, evalIn]; exact fun h' => rel.visited l (Or.inr h') hfresh
        apply dryrel_extend rel hfresh hmR hmD hevR hevD hdw (fun y _ => by rw [hwR]) (fun p => Or.inl (by rw [hwR]))
        · intro _
          rw [hmR', hmD']
          exact ⟨rfl, rfl, fun _ => rfl, ⟨fun h => absurd h heR, fun h => absurd h heD⟩⟩
        · intro h; exact absurd h heR
        · intro h; exact absurd h heD
      | false =>
        simp only [hcnd, Bool.false_eq_true, if_false, hdry, if_true] at hpR hpD
        obtain ⟨_, hmemoR⟩ := visit_run_eq hd hpR
        have hmR' : mR = (if (execSteps P t o r.w l df (loadedInfo r.w l df) ((depsOf t l df).map fun x => (x, memoData r x))).2.2
            then ⟨true, true, stampOf P (execSteps P t o r.w l df (loadedInfo r.w l df) ((depsOf t l df).map fun x => (x, memoData r x))).2.1, false⟩
            else failedRes false) := by
          have h1 := congrFun hmR l
          have h2 := congrFun hmemoR l
          simp only [upd_same] at h1 h2
          rw [h1] at h2
          exact Option.some.inj h2
        have hmD' : mD = ⟨true, true, stampOf P (loadedInfo r.w l df), false⟩ := by
          have := congrFun hmD l; simp [visit, hd, hpD] at this; exact this.symm
        have heR : evalIn l (visit P t o r l).evs := by simp [visit, hd, hpR, evalIn]
        have heD : evalIn l (visit P t { o with dry := true } d l).evs := by simp [visit, hd, hpD, evalIn]
        have hbad : mR.changed = true ∨ mR.ok = false := by
          rw [hmR']; split
          · left; rfl
          · right; rfl
        apply dryrel_extend rel hfresh hmR hmD hevR hevD hdw f1
        · intro p
          by_cases ho : S.owner p = some l
          · exact Or.inr ⟨ho, hsome, hbad⟩
          · exact Or.inl (f2 p ho)
        · intro hok
          have hch : mR.changed = true := by
            rcases hbad with h | h
            · exact h
            · rw [hok] at h; cases h
          rw [hmD']
          refine ⟨rfl, hch.symm, ?_, ⟨fun _ => heD, fun _ => heR⟩⟩
          intro h; rw [hch] at h; cases h
        · intro _; exact heD
        · intro _ h; exact absurd heR h
    · -- a dependency failed in the real build: it reports nothing; whatever the dry run does is "extra"
      obtain ⟨rep, hpR⟩ := plan_depFailed_of (P := P) (o := o) hall
      have hwR : (visit P t o r l).w = r.w := by simp [visit, hd, hpR]
      have hmR' : mR = failedRes false := by
        have := congrFun hmR l; simp [visit, hd, hpR] at this; exact this.symm
      have heR : ¬ evalIn l (visit P t o r l).evs := by
        simp only [visit, hd, hpR, evalIn]
        split
        · simp; exact fun h' => rel.visited l (Or.inl h') hfresh
        · exact fun h' => rel.visited l (Or.inl h') hfresh
      apply dryrel_extend rel hfresh hmR hmD hevR hevD hdw (fun y _ => by rw [hwR]) (fun p => Or.inl (by rw [hwR]))
      · intro hok; rw [hmR'] at hok; cases hok
      · intro h; exact absurd h heR
      · intro _ _; rw [hmR']; rfl

/-- the real build and the dry run, folded over the same order -/
theorem dry_build {P : Params} {S : Shape} {t : Tree} {o : Opts} {w0 : World} (hc : Conforms S t) (hdry : o.dry = false) :
    ∀ (ord : List Label) (r d : BSt), DryRel P S t w0 r d → Ordered P t o r ord →
      DryRel P S t w0 (build P t o r ord) (build P t { o with dry := true } d ord) := by
  intro ord
  induction ord with
  | nil => intro r d rel _; exact rel
  | cons l rest ih =>
    intro r d rel ho
    exact ih _ _ (dry_step hc hdry rel ho.1.fresh) ho.2

theorem dryrel_init (P : Params) (S : Shape) (t : Tree) (w0 : World) : DryRel P S t w0 (BSt.init w0) (BSt.init w0) := by
  constructor
  · rfl
  · intro x; simp [BSt.init]
  · intro x mr md h; simp [BSt.init] at h
  · intro x h; simp [BSt.init, evalIn] at h
  · intro x h; simp [BSt.init, evalIn] at h
  · intro x h; simp [BSt.init, evalIn] at h
  · intro y _; rfl
  · intro p; exact Or.inl rfl

end Dawn.Build

namespace Dawn.Build

theorem build_memo_dom (P : Params) (t : Tree) (o : Opts) (ord : List Label) (s : BSt) (x : Label)
    (h : (build P t o s ord).memo x ≠ none) : s.memo x ≠ none ∨ x ∈ ord := by
  induction ord generalizing s with
  | nil => exact Or.inl h
  | cons l rest ih =>
    rcases ih (visit P t o s l) h with h1 | h1
    · obtain ⟨res, hres⟩ := visit_memo P t o s l
      rw [hres] at h1
      by_cases e : x = l
      · exact Or.inr (e ▸ List.mem_cons_self)
      · rw [upd_other _ _ _ _ e] at h1; exact Or.inl h1
    · exact Or.inr (List.mem_cons_of_mem _ h1)

/-- the evaluating set of a build -/
def evaluating (s : BSt) : List Label := s.evs.filterMap fun | .evaluating l => some l | _ => none

theorem mem_evaluating (s : BSt) (l : Label) : l ∈ evaluating s ↔ evalIn l s.evs := by
  unfold evaluating evalIn
  simp only [List.mem_filterMap]
  constructor
  · rintro ⟨e, he, h⟩
    cases e <;> simp at h
    subst h; exact he
  · intro h; exact ⟨_, h, rfl⟩

end Dawn.Build

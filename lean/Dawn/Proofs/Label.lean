import Dawn.Model.Label
/-! Helper lemmas for C12 (labels). Property theorems are in `Dawn/Props/Label.lean`. -/
namespace Dawn.Label

/-! ## the outcome monad -/

@[simp] theorem Out.ok_bind {α β : Type} (a : α) (f : α → Out β) : (Out.ok a).bind f = f a := rfl
@[simp] theorem Out.err_bind {α β : Type} (e : Err) (f : α → Out β) : (Out.err e : Out α).bind f = .err e := rfl
@[simp] theorem Out.panic_bind {α β : Type} (f : α → Out β) : (Out.panic : Out α).bind f = .panic := rfl
@[simp] theorem Out.fuel_bind {α β : Type} (f : α → Out β) : (Out.fuel : Out α).bind f = .fuel := rfl

/-- a value or an error, as an outcome -/
def ofExcept {α : Type} : Except Err α → Out α
  | .ok a => .ok a
  | .error e => .err e

@[simp] theorem ofExcept_ok {α : Type} (a : α) : ofExcept (.ok a : Except Err α) = .ok a := rfl
@[simp] theorem ofExcept_error {α : Type} (e : Err) : ofExcept (.error e : Except Err α) = .err e := rfl

theorem returns_ofExcept {α : Type} (x : Except Err α) : (ofExcept x).returns = true := by
  cases x <;> rfl

/-! ## indexing and slicing -/

theorem idx_eq_head_drop (s : Bytes) (i : Nat) :
    idx s i = match s.drop i with | c :: _ => .ok c | [] => .panic := by
  unfold idx
  rw [← List.head?_drop]
  cases s.drop i <;> rfl

theorem idx_of_drop {s : Bytes} {i : Nat} {c : UInt8} {rest : Bytes} (h : s.drop i = c :: rest) : idx s i = .ok c := by
  rw [idx_eq_head_drop, h]

theorem slice_ok {s : Bytes} {lo hi : Nat} (h1 : lo ≤ hi) (h2 : hi ≤ s.length) :
    slice s lo hi = .ok ((s.take hi).drop lo) := by
  simp [slice, h1, h2]

theorem drop_succ_of_drop {s : Bytes} {i : Nat} {c : UInt8} {rest : Bytes} (h : s.drop i = c :: rest) :
    s.drop (i + 1) = rest := by
  have : s.drop (i + 1) = (s.drop i).drop 1 := by rw [List.drop_drop]
  rw [this, h]; rfl

theorem lt_length_of_drop {s : Bytes} {i : Nat} {c : UInt8} {rest : Bytes} (h : s.drop i = c :: rest) :
    i < s.length := by
  apply Nat.lt_of_not_le
  intro hle
  rw [List.drop_of_length_le hle] at h
  cases h

theorem length_of_drop {s : Bytes} {i : Nat} {rest : Bytes} (h : s.drop i = rest) (hi : i ≤ s.length) :
    s.length = i + rest.length := by
  rw [← h, List.length_drop]; omega

/-! ## `lazybuf` -/

/-- what the buffer holds -/
def LazyBuf.val (b : LazyBuf) : Bytes := ((b.buf.getD b.s).take b.w)

/-- representation invariant of a `lazybuf` -/
def LazyBuf.WF (b : LazyBuf) : Prop := b.w ≤ b.s.length ∧ ∀ buf, b.buf = some buf → buf.length = b.s.length

theorem LazyBuf.string_ok {b : LazyBuf} (h : b.WF) : b.string = .ok b.val := by
  obtain ⟨h1, h2⟩ := h
  unfold LazyBuf.string LazyBuf.val
  cases hb : b.buf with
  | none => simp [slice_ok (Nat.zero_le _) h1]
  | some buf =>
    have := h2 buf hb
    simp [slice_ok (Nat.zero_le _) (this ▸ h1)]

theorem LazyBuf.append_ok {b : LazyBuf} (c : UInt8) (h : b.WF) (hw : b.w < b.s.length) :
    ∃ b', b.append c = .ok b' ∧ b'.val = b.val ++ [c] ∧ b'.w = b.w + 1 ∧ b'.s = b.s ∧ b'.WF := by
  obtain ⟨h1, h2⟩ := h
  unfold LazyBuf.append
  cases hb : b.buf with
  | none =>
    simp only [hw, ↓reduceIte]
    have hidx : idx b.s b.w = .ok b.s[b.w] := by simp [idx, hw]
    simp only [hidx, Out.ok_bind]
    by_cases hc : b.s[b.w] = c
    · simp only [hc, decide_true, ↓reduceIte]
      refine ⟨_, rfl, ?_, rfl, rfl, ?_⟩
      · simp only [LazyBuf.val, hb, Option.getD_none]
        rw [List.take_add_one, List.getElem?_eq_getElem hw, hc]; rfl
      · exact ⟨hw, by simp⟩
    · simp only [hc, decide_false, Bool.false_eq_true, ↓reduceIte]
      rw [slice_ok (Nat.zero_le _) h1]
      simp only [Out.ok_bind, List.drop_zero, List.length_take, List.length_append, List.length_replicate]
      have hlen : min b.w b.s.length + (b.s.length - min b.w b.s.length) = b.s.length := by omega
      simp only [hlen, hw, ↓reduceIte]
      refine ⟨_, rfl, ?_, rfl, rfl, ?_⟩
      · simp only [LazyBuf.val, hb, Option.getD_some, Option.getD_none]
        have hmin : min b.w b.s.length = b.w := by omega
        rw [List.take_add_one]
        have hl : (List.take b.w b.s).length = b.w := by simp [hmin]
        rw [List.take_set_of_le (Nat.le_refl _)]
        rw [List.take_left' hl]
        congr 1
        rw [List.getElem?_set_self (by simp; omega)]
        rfl
      · refine ⟨hw, ?_⟩
        intro buf hbuf
        simp only [Option.some.injEq] at hbuf
        subst hbuf
        simp; omega
  | some buf =>
    have hl := h2 buf hb
    simp only [hl, hw, ↓reduceIte]
    refine ⟨_, rfl, ?_, rfl, rfl, ?_⟩
    · simp only [LazyBuf.val, hb, Option.getD_some]
      rw [List.take_add_one, List.take_set_of_le (Nat.le_refl _)]
      congr 1
      rw [List.getElem?_set_self (by omega)]
      rfl
    · refine ⟨hw, ?_⟩
      intro buf' hbuf
      simp only [Option.some.injEq] at hbuf
      subst hbuf
      simp [hl]

/-! ## the loops of `Clean` -/

/-- bytes the inner copy loop of `Clean` consumes -/
def elemByte (c : UInt8) : Bool := c ≠ slash ∧ c ≠ colon

theorem copyElem_ok (pkg : Bytes) :
    ∀ (fuel r : Nat) (out : LazyBuf), out.WF →
      fuel > ((pkg.drop r).takeWhile elemByte).length →
      out.w + ((pkg.drop r).takeWhile elemByte).length ≤ out.s.length →
      ∃ out', copyElem pkg pkg.length fuel r out = .ok (r + ((pkg.drop r).takeWhile elemByte).length, out') ∧
        out'.val = out.val ++ (pkg.drop r).takeWhile elemByte ∧
        out'.w = out.w + ((pkg.drop r).takeWhile elemByte).length ∧ out'.s = out.s ∧ out'.WF := by
  intro fuel
  induction fuel with
  | zero => intro r out _ h; omega
  | succ fuel ih =>
    intro r out hwf hfuel hroom
    unfold copyElem
    cases hd : pkg.drop r with
    | nil =>
      have : ¬ r < pkg.length := by
        intro hlt
        have := List.length_drop (i := r) (l := pkg)
        rw [hd] at this; simp at this; omega
      simp only [this, ↓reduceIte, Out.ok_bind, Bool.false_eq_true, List.takeWhile_nil, List.length_nil, Nat.add_zero, List.append_nil]
      exact ⟨out, rfl, rfl, rfl, rfl, hwf⟩
    | cons c rest =>
      have hlt := lt_length_of_drop hd
      rw [hd] at hfuel hroom
      simp only [hlt, ↓reduceIte, idx_of_drop hd, Out.ok_bind]
      by_cases hc : elemByte c = true
      · have hc' : (c ≠ slash ∧ c ≠ colon) := by simpa [elemByte] using hc
        simp only [List.takeWhile_cons, hc, ↓reduceIte, List.length_cons] at hfuel hroom ⊢
        rw [show decide (c ≠ slash ∧ c ≠ colon) = true from hc]
        simp only [↓reduceIte]
        obtain ⟨o1, ho1, hv1, hw1, hs1, hwf1⟩ := LazyBuf.append_ok c hwf (by omega)
        simp only [ho1, Out.ok_bind]
        have hd' := drop_succ_of_drop hd
        obtain ⟨o2, ho2, hv2, hw2, hs2, hwf2⟩ := ih (r + 1) o1 hwf1 (by rw [hd']; omega) (by rw [hd', hw1, hs1]; omega)
        rw [hd'] at ho2 hv2 hw2
        refine ⟨o2, ?_, ?_, ?_, ?_, hwf2⟩
        · rw [ho2]; congr 2; omega
        · rw [hv2, hv1]; simp
        · rw [hw2, hw1]; omega
        · rw [hs2, hs1]
      · have hc' : ¬ (c ≠ slash ∧ c ≠ colon) := by simpa [elemByte] using hc
        simp only [List.takeWhile_cons, hc, ↓reduceIte, Bool.false_eq_true, List.length_nil, Nat.add_zero, List.append_nil]
        rw [show decide (c ≠ slash ∧ c ≠ colon) = false from (by simpa [elemByte] using hc)]
        simp only [Bool.false_eq_true, ↓reduceIte]
        exact ⟨out, rfl, rfl, rfl, rfl, hwf⟩

theorem scan_elem (st : Bool) (e rest : Bytes) (he : ∀ c ∈ e, elemByte c = true) :
    scan st true (e ++ rest) = (scan st true rest).map (e ++ ·) := by
  induction e with
  | nil => simp only [List.nil_append]; cases h : scan st true rest <;> simp [Except.map]
  | cons c e ih =>
    have hc : c ≠ slash ∧ c ≠ colon := by simpa [elemByte] using he c List.mem_cons_self
    have ih' := ih (fun d hd => he d (List.mem_cons_of_mem _ hd))
    simp only [List.cons_append, scan, hc.1, hc.2, ↓reduceIte, ih']
    cases h : scan st true rest <;> simp [Except.map]

theorem scan_mode (st : Bool) (rest : Bytes) (h : ∀ c t, rest = c :: t → elemByte c = false) :
    scan st true rest = scan st false rest := by
  cases rest with
  | nil => rfl
  | cons c t =>
    have := h c t rfl
    have hc : c = slash ∨ c = colon := by
      simp [elemByte] at this
      by_cases h1 : c = slash
      · exact Or.inl h1
      · exact Or.inr (this h1)
    rcases hc with rfl | rfl <;> simp [scan]

theorem dropWhile_head (p : UInt8 → Bool) (l : Bytes) : ∀ c t, l.dropWhile p = c :: t → p c = false := by
  induction l with
  | nil => intro c t h; cases h
  | cons x l ih =>
    intro c t h
    simp only [List.dropWhile_cons] at h
    split at h
    · exact ih c t h
    · cases h; simpa using ‹¬ p x = true›

def base (rooted : Bool) : Nat := if rooted then 2 else 0

theorem cond_base (rooted : Bool) (w : Nat) :
    ((rooted && w != 2) || (!rooted && w != 0)) = (w != base rooted) := by
  cases rooted <;> simp [base]


/-- the two guarded look-aheads of the `switch` in `Clean` never read out of range and decide `dotElem` -/
theorem dot_checks (pkg : Bytes) (r : Nat) (c : UInt8) (rest1 : Bytes) (hd : pkg.drop r = c :: rest1) :
    ∃ b1 b2 : Bool,
      (if c = dot then (if r + 1 = pkg.length then Out.ok true else (idx pkg (r + 1)).bind fun d => .ok (decide (d = slash)))
         else .ok false) = .ok b1 ∧
      (b1 = false →
        (if c = dot then (idx pkg (r + 1)).bind fun d =>
            if d = dot then (if r + 2 = pkg.length then Out.ok true else (idx pkg (r + 2)).bind fun e => .ok (decide (e = slash)))
            else .ok false
         else .ok false) = .ok b2) ∧
      ((b1 || b2) = decide (c = dot ∧ dotElem rest1 = true)) := by
  have hlen := length_of_drop hd (Nat.le_of_lt (lt_length_of_drop hd))
  by_cases hc : c = dot
  · cases rest1 with
    | nil =>
      simp only [List.length_cons, List.length_nil] at hlen
      refine ⟨true, false, ?_, ?_, ?_⟩
      · simp [hc, hlen]
      · intro h; cases h
      · simp [hc, dotElem]
    | cons d rest2 =>
      have hd1 := drop_succ_of_drop hd
      have hi1 := idx_of_drop hd1
      simp only [List.length_cons] at hlen
      have hne : r + 1 ≠ pkg.length := by omega
      by_cases hds : d = slash
      · refine ⟨true, false, ?_, ?_, ?_⟩
        · simp [hc, hne, hi1, hds]
        · intro h; cases h
        · simp [hc, dotElem, hds]
      · by_cases hdd : d = dot
        · cases rest2 with
          | nil =>
            simp only [List.length_nil] at hlen
            refine ⟨false, true, ?_, ?_, ?_⟩
            · simp [hc, hne, hi1, hds]
            · intro _; simp [hc, hi1, hdd]; omega
            · simp [hc, dotElem, hdd]
          | cons e rest3 =>
            have hd2 := drop_succ_of_drop hd1
            have hi2 := idx_of_drop hd2
            simp only [List.length_cons] at hlen
            have hne2 : r + 2 ≠ pkg.length := by omega
            refine ⟨false, decide (e = slash), ?_, ?_, ?_⟩
            · simp [hc, hne, hi1, hds]
            · intro _; simp [hc, hi1, hdd, hne2, hi2]
            · subst hdd; simp [hc, dotElem, show ¬ (dot = slash) by decide]
        · refine ⟨false, false, ?_, ?_, ?_⟩
          · simp [hc, hne, hi1, hds]
          · intro _; simp [hc, hi1, hdd]
          · simp [hc, dotElem, hdd, hds]
  · refine ⟨false, false, ?_, ?_, ?_⟩ <;> simp [hc]


theorem takeWhile_length_le (p : UInt8 → Bool) (l : Bytes) : (l.takeWhile p).length ≤ l.length := by
  induction l with
  | nil => simp
  | cons x l ih => simp only [List.takeWhile_cons]; split <;> simp <;> omega

theorem dropWhile_length_le (p : UInt8 → Bool) (l : Bytes) : (l.dropWhile p).length ≤ l.length := by
  induction l with
  | nil => simp
  | cons x l ih => simp only [List.dropWhile_cons]; split <;> simp <;> omega

theorem drop_takeWhile_length (p : UInt8 → Bool) (l : Bytes) : l.drop (l.takeWhile p).length = l.dropWhile p := by
  induction l with
  | nil => simp
  | cons x l ih =>
    simp only [List.takeWhile_cons, List.dropWhile_cons]
    split <;> simp [ih]

theorem mem_takeWhile_imp (p : UInt8 → Bool) (l : Bytes) : ∀ d ∈ l.takeWhile p, p d = true := by
  induction l with
  | nil => intro d h; cases h
  | cons x l ih =>
    intro d h
    simp only [List.takeWhile_cons] at h
    split at h
    · rcases List.mem_cons.mp h with rfl | h'
      · assumption
      · exact ih d h'
    · cases h

theorem cleanLoop_ok (pkg : Bytes) (rooted : Bool) :
    ∀ (fuel r : Nat) (out : LazyBuf), out.WF → out.s = pkg →
      fuel > (pkg.drop r).length →
      base rooted ≤ out.w → out.w ≤ r → (out.w = r → out.w = base rooted ∨ ∀ c t, pkg.drop r = c :: t → elemByte c = false) →
      (∀ e, scan (out.w != base rooted) false (pkg.drop r) = .error e →
          cleanLoop pkg pkg.length rooted fuel r out = .err e) ∧
      (∀ t, scan (out.w != base rooted) false (pkg.drop r) = .ok t →
          ∃ out', cleanLoop pkg pkg.length rooted fuel r out = .ok out' ∧ out'.val = out.val ++ t ∧ out'.WF) := by
  intro fuel
  induction fuel with
  | zero => intro r out _ _ h; omega
  | succ fuel ih =>
    intro r out hwf hs hfuel hbw hwr hinv
    unfold cleanLoop
    cases hd : pkg.drop r with
    | nil =>
      have : ¬ r < pkg.length := by
        intro hlt
        have := List.length_drop (i := r) (l := pkg)
        rw [hd] at this; simp at this; omega
      simp only [this, ↓reduceIte, scan]
      exact ⟨fun e h => (by cases h), fun t h => (by cases h; exact ⟨out, rfl, by simp, hwf⟩)⟩
    | cons c rest1 =>
      have hlt := lt_length_of_drop hd
      have hd1 := drop_succ_of_drop hd
      rw [hd] at hfuel
      simp only [List.length_cons] at hfuel
      simp only [hlt, ↓reduceIte, idx_of_drop hd, Out.ok_bind]
      by_cases hcc : c = colon
      · simp only [hcc, ↓reduceIte, scan]
        exact ⟨fun e h => (by cases h; rfl), fun t h => (by cases h)⟩
      by_cases hcs : c = slash
      · have hsc : ¬ (slash = colon) := by decide
        subst hcs
        simp only [hsc, ↓reduceIte, scan]
        have := ih (r + 1) out hwf hs (by rw [hd1]; omega) hbw (by omega) (by intro h; omega)
        rw [hd1] at this
        exact this
      -- an element starts here
      simp only [hcc, hcs, ↓reduceIte]
      obtain ⟨b1, b2, h1, h2, h12⟩ := dot_checks pkg r c rest1 hd
      rw [h1]
      simp only [Out.ok_bind]
      have hscan : scan (out.w != base rooted) false (c :: rest1) =
          if c = dot ∧ dotElem rest1 = true then .error .pkgDot
          else (scan true true rest1).map fun t => if (out.w != base rooted) = true then slash :: c :: t else c :: t := by
        simp [scan, hcc, hcs]
      rw [hscan]
      cases hb1 : b1 with
      | true =>
        have : c = dot ∧ dotElem rest1 = true := by simpa [hb1] using h12.symm
        simp only [↓reduceIte, this, and_self]
        exact ⟨fun e h => (by cases h; rfl), fun t h => (by cases h)⟩
      | false =>
        rw [h2 hb1]
        simp only [Bool.false_eq_true, ↓reduceIte, Out.ok_bind]
        cases hb2 : b2 with
        | true =>
          have : c = dot ∧ dotElem rest1 = true := by simpa [hb1, hb2] using h12.symm
          simp only [↓reduceIte, this, and_self]
          exact ⟨fun e h => (by cases h; rfl), fun t h => (by cases h)⟩
        | false =>
          have hnd : ¬ (c = dot ∧ dotElem rest1 = true) := by simpa [hb1, hb2] using h12.symm
          simp only [Bool.false_eq_true, ↓reduceIte, hnd]
          have hce : elemByte c = true := by simp [elemByte, hcc, hcs]
          rw [cond_base]
          -- the separator
          have hsep : ∃ o1, (if (out.w != base rooted) = true then out.append slash else Out.ok out) = .ok o1 ∧
              o1.val = out.val ++ (if (out.w != base rooted) = true then [slash] else []) ∧
              o1.w = out.w + (if (out.w != base rooted) = true then 1 else 0) ∧ o1.s = out.s ∧ o1.WF ∧ o1.w ≤ r ∧ out.w ≤ o1.w := by
            by_cases hst : (out.w != base rooted) = true
            · have hne : out.w ≠ base rooted := by simpa using hst
              have hwlt : out.w < r := by
                rcases Nat.lt_or_ge out.w r with h | h
                · exact h
                · have heq : out.w = r := by omega
                  rcases hinv heq with h' | h'
                  · exact absurd h' hne
                  · have := h' c rest1 hd; rw [hce] at this; cases this
              obtain ⟨o1, ho1, hv1, hw1, hs1, hwf1⟩ := LazyBuf.append_ok slash hwf (by rw [hs]; omega)
              exact ⟨o1, by simp [hst, ho1], by simp [hst, hv1], by simp [hst, hw1], hs1, hwf1, by omega, by omega⟩
            · exact ⟨out, by simp [hst], by simp [hst], by simp [hst], rfl, hwf, hwr, Nat.le_refl _⟩
          obtain ⟨o1, ho1, hv1, hw1, hs1, hwf1, hw1r, hw1o⟩ := hsep
          rw [ho1]
          simp only [Out.ok_bind]
          -- the element
          have htl := takeWhile_length_le elemByte (pkg.drop r)
          have hdl := List.length_drop (i := r) (l := pkg)
          obtain ⟨o2, ho2, hv2, hw2, hs2, hwf2⟩ := copyElem_ok pkg (pkg.length + 1) r o1 hwf1 (by omega)
            (by rw [hs1, hs]; omega)
          rw [ho2]
          simp only [Out.ok_bind]
          -- after the element
          have hsplit : pkg.drop r = (pkg.drop r).takeWhile elemByte ++ (pkg.drop r).dropWhile elemByte :=
            (List.takeWhile_append_dropWhile).symm
          have hdrop : pkg.drop (r + ((pkg.drop r).takeWhile elemByte).length) = (pkg.drop r).dropWhile elemByte := by
            rw [← drop_takeWhile_length, List.drop_drop]
          have htw : (pkg.drop r).takeWhile elemByte = c :: rest1.takeWhile elemByte := by
            rw [hd, List.takeWhile_cons, hce]; rfl
          have hdw : (pkg.drop r).dropWhile elemByte = rest1.dropWhile elemByte := by
            rw [hd, List.dropWhile_cons, hce]; rfl
          have hhead := dropWhile_head elemByte rest1
          have hrec := ih (r + ((pkg.drop r).takeWhile elemByte).length) o2 hwf2 (by rw [hs2, hs1, hs])
            (by
              rw [hdrop, hdw]
              have := dropWhile_length_le elemByte rest1
              omega)
            (by rw [hw2]; omega)
            (by rw [hw2]; omega)
            (by intro _; right; rw [hdrop, hdw]; exact hhead)
          rw [hdrop, hdw] at hrec
          have ho2w : (o2.w != base rooted) = true := by
            have : base rooted < o2.w := by
              rw [hw2, htw]; simp only [List.length_cons]; omega
            simp only [bne_iff_ne, ne_eq]
            omega
          rw [ho2w] at hrec
          -- the model's view of the same step
          have hrest1 : rest1 = rest1.takeWhile elemByte ++ rest1.dropWhile elemByte :=
            (List.takeWhile_append_dropWhile).symm
          have hsc1 : scan true true rest1 = (scan true false (rest1.dropWhile elemByte)).map (rest1.takeWhile elemByte ++ ·) := by
            conv => lhs; rw [hrest1]
            rw [scan_elem true _ _ (mem_takeWhile_imp elemByte rest1), scan_mode true _ hhead]
          rw [hsc1]
          constructor
          · intro e he
            cases hsc : scan true false (rest1.dropWhile elemByte) with
            | error e' =>
              rw [hsc] at he
              simp only [Except.map] at he
              cases he
              exact hrec.1 e hsc
            | ok t' => rw [hsc] at he; simp [Except.map] at he
          · intro t ht
            cases hsc : scan true false (rest1.dropWhile elemByte) with
            | error e' => rw [hsc] at ht; simp [Except.map] at ht
            | ok t' =>
              rw [hsc] at ht
              simp only [Except.map, Except.ok.injEq] at ht
              obtain ⟨o3, ho3, hv3, hwf3⟩ := hrec.2 t' hsc
              refine ⟨o3, ho3, ?_, hwf3⟩
              rw [hv3, hv2, hv1, htw, ← ht]
              by_cases hst : (out.w != base rooted) = true <;> simp [hst]


theorem cleanLoop_string (pkg : Bytes) (rooted : Bool) (r : Nat) (out : LazyBuf) (hwf : out.WF) (hs : out.s = pkg)
    (hbw : base rooted = out.w) (hwr : out.w = r) :
    (cleanLoop pkg pkg.length rooted (pkg.length + 1) r out).bind LazyBuf.string =
      ofExcept ((scan false false (pkg.drop r)).map (out.val ++ ·)) := by
  have hl := List.length_drop (i := r) (l := pkg)
  have h := cleanLoop_ok pkg rooted (pkg.length + 1) r out hwf hs (by omega) (by omega) (by omega)
    (fun _ => Or.inl hbw.symm)
  have hst : (out.w != base rooted) = false := by simp [hbw]
  rw [hst] at h
  cases hsc : scan false false (pkg.drop r) with
  | error e => rw [h.1 e hsc]; rfl
  | ok t =>
    obtain ⟨o, ho, hv, hwf'⟩ := h.2 t hsc
    rw [ho]
    simp only [Out.ok_bind, LazyBuf.string_ok hwf', hv, Except.map, ofExcept_ok]

/-- `Clean`, as written in Go with every index guarded explicitly, computes the structural `clean`: it never
panics and never runs out of fuel -/
theorem cleanGo_eq (pkg : Bytes) : cleanGo pkg = ofExcept (clean pkg) := by
  unfold cleanGo clean
  match pkg with
  | [] => rfl
  | [x] =>
    simp only [List.cons_ne_nil, ↓reduceIte, List.length_cons, List.length_nil, Nat.zero_add, ge_iff_le,
      Nat.reduceLeDiff, Out.ok_bind, Bool.false_eq_true, Bool.not_false, hasPrefixSS]
    have hi : idx [x] 0 = .ok x := rfl
    simp only [hi, Out.ok_bind]
    by_cases hx : x = slash
    · simp [hx]
    · simp only [hx, decide_false, Bool.false_eq_true, ↓reduceIte]
      have := cleanLoop_string [x] false 0 ⟨[x], none, 0⟩ ⟨Nat.zero_le _, fun _ h => by cases h⟩ rfl rfl rfl
      simp only [List.length_cons, List.length_nil, Nat.zero_add, List.drop_zero] at this
      rw [this]
      simp only [LazyBuf.val, Option.getD_none, List.take_zero, List.nil_append]
      cases scan false false [x] <;> rfl
  | x :: y :: rest =>
    have hn : (x :: y :: rest).length ≥ 2 := by simp
    have hi0 : idx (x :: y :: rest) 0 = .ok x := rfl
    have hi1 : idx (x :: y :: rest) 1 = .ok y := rfl
    simp only [List.cons_ne_nil, ↓reduceIte, hn, hi0, hi1, Out.ok_bind]
    by_cases hr : x = slash ∧ y = slash
    · obtain ⟨rfl, rfl⟩ := hr
      simp only [↓reduceIte, Out.ok_bind, decide_true, hasPrefixSS, and_self]
      let o0 : LazyBuf := ⟨slash :: slash :: rest, none, 0⟩
      have hwf0 : o0.WF := ⟨Nat.zero_le _, fun _ h => by cases h⟩
      obtain ⟨o1, ho1, hv1, hw1, hs1, hwf1⟩ := LazyBuf.append_ok slash hwf0 (by simp [o0])
      obtain ⟨o2, ho2, hv2, hw2, hs2, hwf2⟩ := LazyBuf.append_ok slash hwf1 (by rw [hs1, hw1]; simp [o0])
      simp only [o0] at ho1
      simp only [ho1, ho2, Out.ok_bind, Bool.not_true, Bool.false_eq_true, ↓reduceIte]
      have := cleanLoop_string (slash :: slash :: rest) true 2 o2 hwf2 (by rw [hs2, hs1]) (by rw [hw2, hw1]; rfl)
        (by rw [hw2, hw1])
      rw [this, hv2, hv1]
      simp only [LazyBuf.val, o0, Option.getD_none, List.take_zero, List.nil_append, List.drop_succ_cons, List.drop_zero]
      cases scan false false rest <;> rfl
    · have hrooted : (if x = slash then Out.ok (decide (y = slash)) else Out.ok false) = Out.ok false := by
        by_cases hx : x = slash
        · have hy : ¬ y = slash := fun h => hr ⟨hx, h⟩
          simp [hx, hy]
        · simp [hx]
      have hpre : hasPrefixSS (x :: y :: rest) = false := by
        simp only [hasPrefixSS]; simpa using hr
      simp only [hrooted, Out.ok_bind, Bool.false_eq_true, ↓reduceIte, Bool.not_false, hi0, hpre]
      by_cases hx : x = slash
      · simp [hx]
      · simp only [hx, decide_false, Bool.false_eq_true, ↓reduceIte]
        have := cleanLoop_string (x :: y :: rest) false 0 ⟨x :: y :: rest, none, 0⟩
          ⟨Nat.zero_le _, fun _ h => by cases h⟩ rfl rfl rfl
        simp only [List.drop_zero] at this
        rw [this]
        simp only [LazyBuf.val, Option.getD_none, List.take_zero, List.nil_append]
        cases scan false false (x :: y :: rest) <;> rfl


/-! ## `clean` is the component-level statement -/

theorem split_ne_nil (sep : UInt8) (l : Bytes) : ∃ h t, split sep l = h :: t := by
  induction l with
  | nil => exact ⟨[], [], rfl⟩
  | cons c rest ih =>
    obtain ⟨h, t, ht⟩ := ih
    by_cases hc : c = sep
    · exact ⟨[], h :: t, by simp [split, hc, ht]⟩
    · exact ⟨c :: h, t, by simp [split, hc, ht]⟩

theorem split_cons_sep (sep : UInt8) (rest : Bytes) : split sep (sep :: rest) = [] :: split sep rest := by
  simp [split]

theorem split_cons_ne {sep c : UInt8} {rest h : Bytes} {t : List Bytes} (hc : c ≠ sep) (hs : split sep rest = h :: t) :
    split sep (c :: rest) = (c :: h) :: t := by
  simp [split, hc, hs]

/-- non-empty pieces -/
def comps (l : Bytes) : List Bytes := (split slash l).filter (· ≠ [])

/-- what the loop writes for a list of kept elements: a separator first when something was written before -/
def joinSt (st : Bool) (cs : List Bytes) : Bytes :=
  if cs = [] then [] else (if st then [slash] else []) ++ join slash cs

theorem join_cons (a : Bytes) (l : List Bytes) : join slash (a :: l) = a ++ joinSt true l := by
  cases l <;> simp [join, joinSt]

theorem joinSt_false (cs : List Bytes) : joinSt false cs = join slash cs := by
  cases cs <;> simp [joinSt, join]

theorem dotElem_iff (rest h : Bytes) (t : List Bytes) (hs : split slash rest = h :: t) :
    dotElem rest = true ↔ (h = [] ∨ h = [dot]) := by
  cases rest with
  | nil => simp [split] at hs; simp [dotElem, hs.1]
  | cons d rest' =>
    obtain ⟨h', t', ht'⟩ := split_ne_nil slash rest'
    by_cases hd : d = slash
    · subst hd
      rw [split_cons_sep] at hs
      simp only [List.cons.injEq] at hs
      simp [dotElem, ← hs.1]
    · rw [split_cons_ne hd ht'] at hs
      simp only [List.cons.injEq] at hs
      obtain ⟨rfl, rfl⟩ := hs
      simp only [dotElem, hd, ↓reduceIte, List.cons_ne_nil, List.cons.injEq, false_or]
      by_cases hdd : d = dot
      · subst hdd
        simp only [↓reduceIte, true_and]
        cases rest' with
        | nil => simp [split] at ht'; simp [ht'.1]
        | cons e rest'' =>
          obtain ⟨h'', t'', ht''⟩ := split_ne_nil slash rest''
          by_cases he : e = slash
          · subst he
            rw [split_cons_sep] at ht'
            simp only [List.cons.injEq] at ht'
            simp [← ht'.1]
          · rw [split_cons_ne he ht''] at ht'
            simp only [List.cons.injEq] at ht'
            simp [← ht'.1, he]
      · simp [hdd]

theorem scan_spec (rest : Bytes) :
    (∀ st, scan st false rest = match firstBad (comps rest) with
        | some e => .error e
        | none => .ok (joinSt st (comps rest))) ∧
    (∀ p0 ps, split slash rest = p0 :: ps →
      scan true true rest = if colon ∈ p0 then .error .pkgColon else
        match firstBad (ps.filter (· ≠ [])) with
        | some e => .error e
        | none => .ok (p0 ++ joinSt true (ps.filter (· ≠ [])))) := by
  induction rest with
  | nil =>
    constructor
    · intro st; simp [scan, comps, split, firstBad, joinSt]
    · intro p0 ps h
      simp only [split, List.cons.injEq] at h
      obtain ⟨rfl, rfl⟩ := h
      simp [scan, firstBad, joinSt]
  | cons c rest ih =>
    obtain ⟨ihA, ihB⟩ := ih
    obtain ⟨h, t, hs⟩ := split_ne_nil slash rest
    by_cases hcc : c = colon
    · subst hcc
      have hne : colon ≠ slash := by decide
      have hsp := split_cons_ne hne hs
      constructor
      · intro st
        simp [scan, comps, hsp, firstBad]
      · intro p0 ps h'
        rw [hsp] at h'
        simp only [List.cons.injEq] at h'
        obtain ⟨rfl, rfl⟩ := h'
        simp [scan]
    by_cases hcs : c = slash
    · subst hcs
      have hsp := split_cons_sep slash rest
      have hcomps : comps (slash :: rest) = comps rest := by simp [comps, hsp]
      constructor
      · intro st
        simp only [scan, hcc, ↓reduceIte, hcomps]
        exact ihA st
      · intro p0 ps h'
        rw [hsp] at h'
        simp only [List.cons.injEq] at h'
        obtain ⟨rfl, rfl⟩ := h'
        simp only [scan, hcc, ↓reduceIte, List.not_mem_nil, List.nil_append]
        exact ihA true
    · have hsp := split_cons_ne hcs hs
      have hB := ihB h t hs
      have hmem : colon ∈ c :: h ↔ colon ∈ h := by
        simp only [List.mem_cons]
        constructor
        · rintro (h' | h')
          · exact absurd h'.symm hcc
          · exact h'
        · exact Or.inr
      constructor
      · intro st
        have hcomps : comps (c :: rest) = (c :: h) :: t.filter (· ≠ []) := by simp [comps, hsp]
        have hde := dotElem_iff rest h t hs
        simp only [scan, hcc, hcs, ↓reduceIte, Bool.false_eq_true, hcomps, firstBad, hmem]
        by_cases hdot : c = dot ∧ dotElem rest = true
        · have hh := hde.mp hdot.2
          have hnc : colon ∉ h := by
            rcases hh with rfl | rfl
            · simp
            · simp; decide
          simp only [hdot, and_self, ↓reduceIte, hnc]
          rcases hh with rfl | rfl <;> simp [hdot.1]
        · simp only [hdot, ↓reduceIte, hB]
          by_cases hch : colon ∈ h
          · simp [hch, Except.map]
          · simp only [hch, ↓reduceIte]
            have hnd : ¬ (c :: h = [dot] ∨ c :: h = [dot, dot]) := by
              intro hor
              apply hdot
              rcases hor with h1 | h1
              · simp only [List.cons.injEq] at h1
                exact ⟨h1.1, hde.mpr (Or.inl h1.2)⟩
              · simp only [List.cons.injEq] at h1
                exact ⟨h1.1, hde.mpr (Or.inr h1.2)⟩
            simp only [hnd, ↓reduceIte]
            cases firstBad (t.filter (· ≠ [])) with
            | some e => simp [Except.map]
            | none =>
              simp only [Except.map, joinSt, List.cons_ne_nil, ↓reduceIte, join_cons]
              cases st <;> simp [joinSt]
      · intro p0 ps h'
        rw [hsp] at h'
        simp only [List.cons.injEq] at h'
        obtain ⟨rfl, rfl⟩ := h'
        simp only [scan, hcc, hcs, ↓reduceIte, hB, hmem]
        by_cases hch : colon ∈ h
        · simp [hch, Except.map]
        · simp only [hch, ↓reduceIte]
          cases firstBad (t.filter (· ≠ [])) <;> simp [Except.map]

theorem clean_eq_spec (pkg : Bytes) : clean pkg = cleanSpec pkg := by
  unfold clean cleanSpec
  cases pkg with
  | nil => rfl
  | cons x rest =>
    simp only [List.cons_ne_nil, ↓reduceIte, List.head?_cons, Option.some.injEq]
    by_cases hp : hasPrefixSS (x :: rest) = true
    · simp only [hp, ↓reduceIte, Bool.not_true, Bool.false_eq_true, false_and]
      rw [(scan_spec _).1 false]
      simp only [comps]
      cases firstBad (List.filter (fun x => decide (x ≠ [])) (split slash (List.drop 2 (x :: rest)))) with
      | some e => rfl
      | none =>
        simp only [Except.map, joinSt_false]
    · simp only [hp, Bool.false_eq_true, ↓reduceIte, Bool.not_false, true_and]
      by_cases hx : x = slash
      · simp [hx]
      · simp only [hx, ↓reduceIte]
        rw [(scan_spec _).1 false]
        simp only [comps]
        cases firstBad (List.filter (fun x => decide (x ≠ [])) (split slash (x :: rest))) with
        | some e => rfl
        | none =>
          simp only [joinSt_false, List.nil_append]


/-! ## the shape of what `Clean` returns -/

/-- elements of a cleaned package path -/
def GoodComps (cs : List Bytes) : Prop :=
  ∀ e ∈ cs, e ≠ [] ∧ slash ∉ e ∧ colon ∉ e ∧ e ≠ [dot] ∧ e ≠ [dot, dot]

theorem mem_split_no_sep (sep : UInt8) (l : Bytes) : ∀ e ∈ split sep l, sep ∉ e := by
  induction l with
  | nil => intro e he; simp [split] at he; simp [he]
  | cons c rest ih =>
    obtain ⟨h, t, hs⟩ := split_ne_nil sep rest
    intro e he
    by_cases hc : c = sep
    · subst hc
      rw [split_cons_sep] at he
      rcases List.mem_cons.mp he with rfl | he'
      · simp
      · exact ih e he'
    · rw [split_cons_ne hc hs] at he
      rcases List.mem_cons.mp he with rfl | he'
      · have := ih h (by rw [hs]; exact List.mem_cons_self)
        simp only [List.mem_cons, not_or]
        exact ⟨fun h' => hc h'.symm, this⟩
      · exact ih e (by rw [hs]; exact List.mem_cons_of_mem _ he')

theorem firstBad_none (cs : List Bytes) :
    firstBad cs = none ↔ ∀ e ∈ cs, colon ∉ e ∧ e ≠ [dot] ∧ e ≠ [dot, dot] := by
  induction cs with
  | nil => simp [firstBad]
  | cons e cs ih =>
    simp only [firstBad, List.mem_cons, forall_eq_or_imp]
    by_cases h1 : colon ∈ e
    · simp [h1]
    · by_cases h2 : e = [dot] ∨ e = [dot, dot]
      · simp only [h1, ↓reduceIte, h2, reduceCtorEq, not_false_eq_true, ne_eq, true_and, false_iff, not_and]
        intro h3
        rcases h2 with h2 | h2
        · exact absurd h2 h3.1
        · exact absurd h2 h3.2
      · simp only [h1, ↓reduceIte, h2, not_false_eq_true, ne_eq, true_and, ih]
        have : ¬ e = [dot] ∧ ¬ e = [dot, dot] := by
          constructor
          · exact fun h => h2 (Or.inl h)
          · exact fun h => h2 (Or.inr h)
        simp [this]

theorem split_no_sep (sep : UInt8) (a : Bytes) (h : sep ∉ a) : split sep a = [a] := by
  induction a with
  | nil => rfl
  | cons c a ih =>
    simp only [List.mem_cons, not_or] at h
    exact split_cons_ne (fun h' => h.1 h'.symm) (ih h.2)

theorem split_append_sep (sep : UInt8) (a t : Bytes) (h : sep ∉ a) :
    split sep (a ++ sep :: t) = a :: split sep t := by
  induction a with
  | nil => exact split_cons_sep sep t
  | cons c a ih =>
    simp only [List.mem_cons, not_or] at h
    exact split_cons_ne (fun h' => h.1 h'.symm) (ih h.2)

theorem split_join (cs : List Bytes) (h : ∀ e ∈ cs, slash ∉ e) (hne : cs ≠ []) :
    split slash (join slash cs) = cs := by
  induction cs with
  | nil => exact absurd rfl hne
  | cons a cs ih =>
    cases cs with
    | nil => exact split_no_sep slash a (h a List.mem_cons_self)
    | cons b cs =>
      have := ih (fun e he => h e (List.mem_cons_of_mem _ he)) (by simp)
      simp only [join]
      rw [split_append_sep slash a _ (h a List.mem_cons_self), this]

theorem filter_nonempty (cs : List Bytes) (h : ∀ e ∈ cs, e ≠ []) : cs.filter (· ≠ []) = cs := by
  apply List.filter_eq_self.mpr
  intro e he
  simpa using h e he

theorem comps_join (cs : List Bytes) (h : GoodComps cs) : comps (join slash cs) = cs := by
  unfold comps
  by_cases hne : cs = []
  · subst hne; simp [join, split]
  · rw [split_join cs (fun e he => (h e he).2.1) hne]
    exact filter_nonempty cs (fun e he => (h e he).1)

theorem mem_join (sep : UInt8) (cs : List Bytes) (x : UInt8) (hx : x ∈ join sep cs) : x = sep ∨ ∃ e ∈ cs, x ∈ e := by
  induction cs with
  | nil => simp [join] at hx
  | cons a cs ih =>
    cases cs with
    | nil => exact Or.inr ⟨a, List.mem_cons_self, by simpa [join] using hx⟩
    | cons b cs =>
      simp only [join, List.mem_append, List.mem_cons] at hx
      rcases hx with hx | hx | hx
      · exact Or.inr ⟨a, List.mem_cons_self, hx⟩
      · exact Or.inl hx
      · rcases ih (by simpa [join] using hx) with h | ⟨e, he, hxe⟩
        · exact Or.inl h
        · exact Or.inr ⟨e, List.mem_cons_of_mem _ he, hxe⟩

theorem colon_not_mem_join (cs : List Bytes) (h : GoodComps cs) : colon ∉ join slash cs := by
  intro hx
  rcases mem_join slash cs colon hx with h' | ⟨e, he, hxe⟩
  · exact absurd h' (by decide)
  · exact (h e he).2.2.1 hxe

/-- a cleaned relative path does not start with a slash -/
theorem join_head (cs : List Bytes) (h : GoodComps cs) : (join slash cs).head? ≠ some slash := by
  cases cs with
  | nil => simp [join]
  | cons a cs =>
    have ha := h a List.mem_cons_self
    cases a with
    | nil => exact absurd rfl ha.1
    | cons x a =>
      have hx : x ≠ slash := fun h' => ha.2.1 (by rw [h']; exact List.mem_cons_self)
      cases cs <;> simp [join, hx]

theorem hasPrefixSS_head {s : Bytes} (h : hasPrefixSS s = true) : s.head? = some slash := by
  match s with
  | [] => cases h
  | [_] => cases h
  | x :: y :: _ => simp [hasPrefixSS] at h; simp [h.1]

theorem indexSS_cons_cons (x y : UInt8) (rest : Bytes) :
    indexSS (x :: y :: rest) = if x = slash ∧ y = slash then some 0 else (indexSS (y :: rest)).map (· + 1) := by
  simp [indexSS]

/-- no two adjacent slashes after an element and a separator -/
theorem indexSS_elem_sep (a t : Bytes) (ha : slash ∉ a) (hne : a ≠ []) (ht : t.head? ≠ some slash) (hn : indexSS t = none) :
    indexSS (a ++ slash :: t) = none := by
  induction a with
  | nil => exact absurd rfl hne
  | cons x a ih =>
    simp only [List.mem_cons, not_or] at ha
    have hx : x ≠ slash := fun h' => ha.1 h'.symm
    cases a with
    | nil =>
      simp only [List.cons_append, List.nil_append, indexSS_cons_cons, hx, false_and, ↓reduceIte]
      cases t with
      | nil => simp [indexSS]
      | cons y t =>
        have hy : y ≠ slash := by simpa using ht
        simp [indexSS_cons_cons, hy, hn]
    | cons z a =>
      have := ih ha.2 (by simp)
      simp only [List.cons_append] at this ⊢
      rw [indexSS_cons_cons]
      simp [hx, this]

theorem indexSS_no_slash (a : Bytes) (ha : slash ∉ a) : indexSS a = none := by
  induction a with
  | nil => rfl
  | cons x a ih =>
    simp only [List.mem_cons, not_or] at ha
    cases a with
    | nil => rfl
    | cons y a =>
      rw [indexSS_cons_cons]
      have hx : x ≠ slash := fun h' => ha.1 h'.symm
      simp [hx, ih ha.2]

theorem indexSS_join (cs : List Bytes) (h : GoodComps cs) : indexSS (join slash cs) = none := by
  induction cs with
  | nil => rfl
  | cons a cs ih =>
    have ha := h a List.mem_cons_self
    have hcs : GoodComps cs := fun e he => h e (List.mem_cons_of_mem _ he)
    cases cs with
    | nil => exact indexSS_no_slash a ha.2.1
    | cons b cs =>
      simp only [join]
      exact indexSS_elem_sep a _ ha.2.1 ha.1 (join_head _ hcs) (ih hcs)

theorem cleanSpec_shape {s t : Bytes} (h : cleanSpec s = .ok t) :
    ∃ cs, GoodComps cs ∧ t = (if hasPrefixSS s then [slash, slash] else []) ++ join slash cs := by
  unfold cleanSpec at h
  by_cases hs : s = []
  · subst hs
    simp at h
    exact ⟨[], (fun e he => by cases he), (by simp [← h, join, hasPrefixSS])⟩
  · simp only [hs, ↓reduceIte] at h
    split at h
    · cases h
    · split at h
      · cases h
      · rename_i hfb
        simp only [Except.ok.injEq] at h
        refine ⟨_, ?_, h.symm⟩
        intro e he
        have h1 := (firstBad_none _).mp hfb e he
        have h2 := List.mem_filter.mp he
        exact ⟨by simpa using h2.2, mem_split_no_sep slash _ e h2.1, h1.1, h1.2.1, h1.2.2⟩

theorem hasPrefixSS_join (cs : List Bytes) (h : GoodComps cs) : hasPrefixSS (join slash cs) = false := by
  cases hp : hasPrefixSS (join slash cs) with
  | false => rfl
  | true => exact absurd (hasPrefixSS_head hp) (join_head cs h)

theorem cleanSpec_fix_rel (cs : List Bytes) (h : GoodComps cs) : cleanSpec (join slash cs) = .ok (join slash cs) := by
  unfold cleanSpec
  by_cases hs : join slash cs = []
  · simp [hs]
  · have hfb : firstBad cs = none := (firstBad_none cs).mpr (fun e he => ⟨(h e he).2.2.1, (h e he).2.2.2.1, (h e he).2.2.2.2⟩)
    have hc := comps_join cs h
    unfold comps at hc
    simp only [hs, ↓reduceIte, hasPrefixSS_join cs h, Bool.not_false, true_and, join_head cs h, Bool.false_eq_true, hc, hfb,
      List.nil_append]

theorem cleanSpec_fix_abs (cs : List Bytes) (h : GoodComps cs) :
    cleanSpec ([slash, slash] ++ join slash cs) = .ok ([slash, slash] ++ join slash cs) := by
  unfold cleanSpec
  have hfb : firstBad cs = none := (firstBad_none cs).mpr (fun e he => ⟨(h e he).2.2.1, (h e he).2.2.2.1, (h e he).2.2.2.2⟩)
  have hc := comps_join cs h
  unfold comps at hc
  have hp : hasPrefixSS ([slash, slash] ++ join slash cs) = true := by simp [hasPrefixSS]
  have hd : List.drop 2 ([slash, slash] ++ join slash cs) = join slash cs := by simp
  have hne : ([slash, slash] ++ join slash cs) ≠ [] := by simp
  simp only [hne, ↓reduceIte, hp, hd, Bool.not_true, Bool.false_eq_true, false_and, hc, hfb]


/-! ## `strings.IndexByte`, `LastIndexByte`, `Index(…, "//")` -/

theorem indexByte_none {c : UInt8} {s : Bytes} : indexByte c s = none ↔ c ∉ s := by
  induction s with
  | nil => simp [indexByte]
  | cons x s ih =>
    simp only [indexByte, List.mem_cons, not_or]
    by_cases hx : x = c
    · simp [hx]
    · simp only [hx, ↓reduceIte, Option.map_eq_none_iff, ih]
      exact ⟨fun h => ⟨fun h' => hx h'.symm, h⟩, fun h => h.2⟩

theorem indexByte_some {c : UInt8} {s : Bytes} {i : Nat} (h : indexByte c s = some i) :
    i < s.length ∧ c ∉ s.take i := by
  induction s generalizing i with
  | nil => cases h
  | cons x s ih =>
    simp only [indexByte] at h
    by_cases hx : x = c
    · simp only [hx, ↓reduceIte, Option.some.injEq] at h
      subst h; simp
    · simp only [hx, ↓reduceIte, Option.map_eq_some_iff] at h
      obtain ⟨j, hj, rfl⟩ := h
      have := ih hj
      simp only [List.length_cons, List.take_succ_cons, List.mem_cons, not_or]
      exact ⟨by omega, fun h' => hx h'.symm, this.2⟩

theorem indexByte_append {c : UInt8} (a b : Bytes) (h : c ∉ a) : indexByte c (a ++ c :: b) = some a.length := by
  induction a with
  | nil => simp [indexByte]
  | cons x a ih =>
    simp only [List.mem_cons, not_or] at h
    have hx : x ≠ c := fun h' => h.1 h'.symm
    simp [indexByte, hx, ih h.2]

theorem lastIndexByte_none {c : UInt8} {s : Bytes} (h : c ∉ s) : lastIndexByte c s = none := by
  induction s with
  | nil => rfl
  | cons x s ih =>
    simp only [List.mem_cons, not_or] at h
    have hx : x ≠ c := fun h' => h.1 h'.symm
    simp [lastIndexByte, ih h.2, hx]

theorem lastIndexByte_some {c : UInt8} {s : Bytes} {i : Nat} (h : lastIndexByte c s = some i) :
    i < s.length ∧ c ∉ s.drop (i + 1) := by
  induction s generalizing i with
  | nil => cases h
  | cons x s ih =>
    simp only [lastIndexByte] at h
    cases hl : lastIndexByte c s with
    | some j =>
      simp only [hl, Option.some.injEq] at h
      subst h
      have := ih hl
      simp only [List.length_cons, List.drop_succ_cons]
      exact ⟨by omega, this.2⟩
    | none =>
      simp only [hl] at h
      by_cases hx : x = c
      · simp only [hx, ↓reduceIte, Option.some.injEq] at h
        subst h
        simp only [List.length_cons, Nat.zero_add, List.drop_succ_cons, List.drop_zero]
        refine ⟨by omega, ?_⟩
        intro hm
        have hn : lastIndexByte c s ≠ none := by
          clear ih hl
          induction s with
          | nil => cases hm
          | cons y s ih2 =>
            simp only [lastIndexByte]
            cases hl2 : lastIndexByte c s with
            | some j => simp
            | none =>
              rcases List.mem_cons.mp hm with rfl | hm'
              · simp
              · exact absurd hl2 (ih2 hm')
        exact hn hl
      · simp [hx] at h

theorem lastIndexByte_append {c : UInt8} (a b : Bytes) (h : c ∉ b) : lastIndexByte c (a ++ c :: b) = some a.length := by
  induction a with
  | nil => simp [lastIndexByte, lastIndexByte_none h]
  | cons x a ih => simp [lastIndexByte, ih]

theorem indexSS_some {s : Bytes} {i : Nat} (h : indexSS s = some i) :
    i + 2 ≤ s.length ∧ indexSS (s.take i) = none ∧ (s.take i).getLast? ≠ some slash ∧ hasPrefixSS (s.drop i) = true := by
  induction s generalizing i with
  | nil => cases h
  | cons x s ih =>
    cases s with
    | nil => cases h
    | cons y s =>
      rw [indexSS_cons_cons] at h
      by_cases hxy : x = slash ∧ y = slash
      · simp only [hxy, and_self, ↓reduceIte, Option.some.injEq] at h
        subst h
        simp [indexSS, hasPrefixSS, hxy]
      · simp only [hxy, ↓reduceIte, Option.map_eq_some_iff] at h
        obtain ⟨j, hj, rfl⟩ := h
        obtain ⟨h1, h2, h3, h4⟩ := ih hj
        refine ⟨by simp only [List.length_cons] at h1 ⊢; omega, ?_, ?_, ?_⟩
        · cases j with
          | zero => simp [indexSS]
          | succ j =>
            simp only [List.take_succ_cons] at h2 ⊢
            rw [indexSS_cons_cons]
            simp [hxy, h2]
        · cases j with
          | zero =>
            simp only [List.drop_zero, hasPrefixSS] at h4
            cases s with
            | nil => simp [hasPrefixSS] at h4
            | cons z s =>
              simp only [hasPrefixSS, decide_eq_true_eq] at h4
              simp only [Nat.zero_add, List.take_succ_cons, List.take_zero, List.getLast?_singleton, ne_eq,
                Option.some.injEq]
              exact fun hx => hxy ⟨hx, h4.1⟩
          | succ j =>
            simp only [List.take_succ_cons] at h3 ⊢
            rw [List.getLast?_cons_cons]
            exact h3
        · simpa using h4

theorem indexSS_append (a b : Bytes) (h1 : indexSS a = none) (h2 : a.getLast? ≠ some slash) (h3 : hasPrefixSS b = true) :
    indexSS (a ++ b) = some a.length := by
  induction a with
  | nil =>
    match b with
    | [] => cases h3
    | [_] => cases h3
    | x :: y :: _ => simp [hasPrefixSS] at h3; simp [indexSS, h3]
  | cons x a ih =>
    cases a with
    | nil =>
      have hx : x ≠ slash := by simpa using h2
      match b with
      | [] => cases h3
      | y :: b' =>
        have := ih rfl (by simp)
        simp only [List.nil_append] at this
        simp [indexSS_cons_cons, hx, this]
    | cons y a =>
      rw [indexSS_cons_cons] at h1
      by_cases hxy : x = slash ∧ y = slash
      · simp [hxy] at h1
      · simp only [hxy, ↓reduceIte, Option.map_eq_none_iff] at h1
        have := ih h1 (by rw [List.getLast?_cons_cons] at h2; exact h2)
        simp only [List.cons_append] at this ⊢
        rw [indexSS_cons_cons]
        simp [hxy, this]


/-! ## `Parse` -/

def splitKind (kpp : Bytes) : Bytes × Bytes :=
  match indexByte colon kpp with
  | some kc => (kpp.take kc, kpp.drop (kc + 1))
  | none => ([], kpp)

def splitProject (pp : Bytes) : Bytes × Bytes :=
  match indexSS pp with
  | some i => (pp.take i, pp.drop i)
  | none => ([], pp)

/-- `Parse` without the run-time checks of Go's indexing (which `parseGo_eq` shows never fire) -/
def parse (raw : Bytes) : Except Err Label :=
  let nameColon := (lastIndexByte colon raw).getD raw.length
  let kp := splitKind (raw.take nameColon)
  let pp := splitProject kp.2
  if colon ∈ pp.1 then .error .projectColon else
  match cleanSpec pp.2 with
  | .error e => .error e
  | .ok pkg =>
    let name := if nameColon < raw.length then raw.drop (nameColon + 1) else []
    if slash ∈ name then .error .nameSlash else
    let l : Label := ⟨kp.1, pp.1, pkg, name⟩
    if pp.1 ≠ [] ∧ !l.isAbs then .error .projectRel else .ok l

theorem slice_zero {s : Bytes} {hi : Nat} (h : hi ≤ s.length) : slice s 0 hi = .ok (s.take hi) := by
  rw [slice_ok (Nat.zero_le _) h]; rfl

theorem slice_to_end {s : Bytes} {lo : Nat} (h : lo ≤ s.length) : slice s lo s.length = .ok (s.drop lo) := by
  rw [slice_ok h (Nat.le_refl _), List.take_length]

theorem splitKindGo_eq (kpp : Bytes) : splitKindGo kpp = .ok (splitKind kpp) := by
  unfold splitKindGo splitKind
  cases h : indexByte colon kpp with
  | none => rfl
  | some kc =>
    have := (indexByte_some h).1
    simp only [slice_zero (Nat.le_of_lt this), slice_to_end (Nat.succ_le_of_lt this), Out.ok_bind]

theorem splitProjectGo_eq (pp : Bytes) : splitProjectGo pp = .ok (splitProject pp) := by
  unfold splitProjectGo splitProject
  cases h : indexSS pp with
  | none => rfl
  | some i =>
    have := (indexSS_some h).1
    simp only [slice_zero (show i ≤ pp.length by omega), slice_to_end (show i ≤ pp.length by omega), Out.ok_bind]

theorem nameColon_le (raw : Bytes) : (lastIndexByte colon raw).getD raw.length ≤ raw.length := by
  cases h : lastIndexByte colon raw with
  | none => simp
  | some i => simp; exact Nat.le_of_lt (lastIndexByte_some h).1

theorem parseGo_eq (raw : Bytes) : parseGo raw = ofExcept (parse raw) := by
  unfold parseGo parse
  have hnc := nameColon_le raw
  generalize (lastIndexByte colon raw).getD raw.length = nameColon at hnc
  simp only [slice_zero hnc, Out.ok_bind, splitKindGo_eq, splitProjectGo_eq]
  generalize splitKind (raw.take nameColon) = kp
  generalize splitProject kp.2 = pp
  by_cases hpc : colon ∈ pp.1
  · simp [hpc]
  · simp only [hpc, ↓reduceIte, cleanGo_eq, clean_eq_spec]
    cases hcl : cleanSpec pp.2 with
    | error e => rfl
    | ok pkg =>
      simp only [ofExcept_ok, Out.ok_bind]
      by_cases hn : nameColon < raw.length
      · simp only [hn, ↓reduceIte, slice_to_end (Nat.succ_le_of_lt hn), Out.ok_bind]
        by_cases hsl : slash ∈ raw.drop (nameColon + 1)
        · simp [hsl]
        · simp only [hsl, ↓reduceIte, Out.ok_bind]
          split <;> rfl
      · simp only [hn, ↓reduceIte, Out.ok_bind, List.not_mem_nil]
        split <;> rfl


/-- what every label accepted by `Parse` (and every label `RelativeTo` makes of one) looks like -/
structure Label.WF (l : Label) : Prop where
  kind : colon ∉ l.kind
  projColon : colon ∉ l.project
  projSS : indexSS l.project = none
  projLast : l.project.getLast? ≠ some slash
  pkg : ∃ cs, GoodComps cs ∧ ((l.project = [] ∧ l.pkg = join slash cs) ∨ l.pkg = [slash, slash] ++ join slash cs)
  nameColon : colon ∉ l.name
  nameSlash : slash ∉ l.name

theorem splitKind_fst (kpp : Bytes) : colon ∉ (splitKind kpp).1 := by
  unfold splitKind
  cases h : indexByte colon kpp with
  | none => simp
  | some kc => exact (indexByte_some h).2

theorem splitProject_spec (pp : Bytes) :
    indexSS (splitProject pp).1 = none ∧ (splitProject pp).1.getLast? ≠ some slash ∧
    ((splitProject pp).1 ≠ [] → hasPrefixSS (splitProject pp).2 = true) := by
  unfold splitProject
  cases h : indexSS pp with
  | none => simp [indexSS]
  | some i =>
    obtain ⟨_, h2, h3, h4⟩ := indexSS_some h
    exact ⟨h2, h3, fun _ => h4⟩

theorem parse_wf {raw : Bytes} {l : Label} (h : parse raw = .ok l) : l.WF := by
  unfold parse at h
  simp only at h
  have hk := splitKind_fst (raw.take ((lastIndexByte colon raw).getD raw.length))
  generalize splitKind (raw.take ((lastIndexByte colon raw).getD raw.length)) = kp at h hk
  obtain ⟨hp1, hp2, hp3⟩ := splitProject_spec kp.2
  generalize splitProject kp.2 = pp at h hp1 hp2 hp3
  by_cases hpc : colon ∈ pp.1
  · simp [hpc] at h
  simp only [hpc, ↓reduceIte] at h
  cases hcl : cleanSpec pp.2 with
  | error e => simp [hcl] at h
  | ok pkg =>
    simp only [hcl] at h
    generalize hname : (if (lastIndexByte colon raw).getD raw.length < raw.length
      then raw.drop ((lastIndexByte colon raw).getD raw.length + 1) else []) = name at h
    by_cases hsl : slash ∈ name
    · simp [hsl] at h
    simp only [hsl, ↓reduceIte] at h
    split at h
    · cases h
    simp only [Except.ok.injEq] at h
    subst h
    obtain ⟨cs, hcs, hshape⟩ := cleanSpec_shape hcl
    refine ⟨hk, hpc, hp1, hp2, ⟨cs, hcs, ?_⟩, ?_, hsl⟩
    · by_cases hpre : hasPrefixSS pp.2 = true
      · right; simpa [hpre] using hshape
      · left
        simp only [hpre, Bool.false_eq_true, ↓reduceIte, List.nil_append] at hshape
        refine ⟨?_, hshape⟩
        by_cases hne : pp.1 = []
        · exact hne
        · exact absurd (hp3 hne) hpre
    · simp only
      subst hname
      cases hl : lastIndexByte colon raw with
      | none => simp
      | some i =>
        simp only [Option.getD_some]
        split
        · exact (lastIndexByte_some hl).2
        · simp

theorem take_append_length (a b : Bytes) : (a ++ b).take a.length = a := by simp

theorem drop_append_cons_length (a b : Bytes) (c : UInt8) : (a ++ c :: b).drop (a.length + 1) = b := by
  rw [← List.drop_drop]; simp

theorem parse_print {l : Label} (hwf : l.WF) (hside : l.name ≠ [] ∨ l.kind = []) : parse (print l) = .ok l := by
  obtain ⟨k, p, g, n⟩ := l
  obtain ⟨hk, hpc, hpss, hpl, ⟨cs, hcs, hpkg⟩, hnc, hns⟩ := hwf
  simp only at hk hpc hpss hpl hpkg hnc hns hside
  -- facts about project ++ pkg
  have hgc : colon ∉ g := by
    rcases hpkg with ⟨_, rfl⟩ | rfl
    · exact colon_not_mem_join cs hcs
    · simp only [List.cons_append, List.nil_append, List.mem_cons, not_or]
      exact ⟨by decide, by decide, colon_not_mem_join cs hcs⟩
  have hpgc : colon ∉ p ++ g := by simp [hpc, hgc]
  have hsp : splitProject (p ++ g) = (p, g) := by
    unfold splitProject
    rcases hpkg with ⟨rfl, rfl⟩ | rfl
    · simp [indexSS_join cs hcs]
    · rw [indexSS_append p _ hpss hpl (by simp [hasPrefixSS])]
      simp
  have hcl : cleanSpec g = .ok g := by
    rcases hpkg with ⟨_, rfl⟩ | rfl
    · exact cleanSpec_fix_rel cs hcs
    · exact cleanSpec_fix_abs cs hcs
  have habs : ¬ (p ≠ [] ∧ (!hasPrefixSS g) = true) := by
    rintro ⟨h1, h2⟩
    rcases hpkg with ⟨rfl, _⟩ | rfl
    · exact h1 rfl
    · simp [hasPrefixSS] at h2
  have hfin : ∀ (k n : Bytes), slash ∉ n →
      (if colon ∈ (p, g).1 then (Except.error Err.projectColon : Except Err Label) else
        match cleanSpec (p, g).2 with
        | .error e => .error e
        | .ok pkg =>
          if slash ∈ n then .error .nameSlash else
          if (p, g).1 ≠ [] ∧ (!(Label.mk k (p, g).1 pkg n).isAbs) = true then .error .projectRel
          else .ok ⟨k, (p, g).1, pkg, n⟩) = .ok ⟨k, p, g, n⟩ := by
    intro k n hn
    simp only [hpc, ↓reduceIte, hcl, hn, Label.isAbs, habs]
  unfold parse print
  simp only
  by_cases hn : n = []
  · have hk' : k = [] := by
      rcases hside with h | h
      · exact absurd hn h
      · exact h
    subst hn hk'
    simp only [ne_eq, not_true_eq_false, ↓reduceIte, List.nil_append, List.append_nil]
    rw [lastIndexByte_none hpgc]
    simp only [Option.getD_none, List.take_length, Nat.lt_irrefl, ↓reduceIte]
    have : splitKind (p ++ g) = ([], p ++ g) := by
      unfold splitKind; rw [indexByte_none.mpr hpgc]
    rw [this]
    simp only [hsp]
    exact hfin [] [] (by simp)
  · simp only [ne_eq, hn, not_false_eq_true, ↓reduceIte]
    generalize hA : (if ¬k = [] then k ++ [colon] else []) ++ p ++ g = A
    rw [lastIndexByte_append A n hnc]
    have hlen : A.length < (A ++ colon :: n).length := by simp
    simp only [Option.getD_some, take_append_length, hlen, ↓reduceIte, drop_append_cons_length]
    have : splitKind A = (k, p ++ g) := by
      unfold splitKind
      by_cases hk0 : k = []
      · subst hk0
        simp only [not_true_eq_false, ↓reduceIte, List.nil_append] at hA
        subst hA
        rw [indexByte_none.mpr hpgc]
      · simp only [hk0, not_false_eq_true, ↓reduceIte] at hA
        have hA' : A = k ++ colon :: (p ++ g) := by rw [← hA]; simp
        rw [hA', indexByte_append k _ hk]
        simp only [take_append_length, drop_append_cons_length]
    rw [this]
    simp only [hsp]
    exact hfin k n hns


/-! ## `Join`, `RelativeTo`, `New` -/

theorem joinGo_eq (elems : List Bytes) :
    joinGo elems = if (elems.map List.length).sum = 0 then .ok [] else ofExcept (cleanSpec (joinBuf [] elems)) := by
  unfold joinGo
  split
  · rfl
  · rw [cleanGo_eq, clean_eq_spec]

theorem ok_of_ofExcept {α : Type} {x : Except Err α} {a : α} (h : ofExcept x = .ok a) : x = .ok a := by
  cases x with
  | ok b => simp only [ofExcept_ok, Out.ok.injEq] at h; rw [h]
  | error e => cases h

theorem parseGo_ok {raw : Bytes} {l : Label} : parseGo raw = .ok l ↔ parse raw = .ok l := by
  rw [parseGo_eq]
  constructor
  · exact ok_of_ofExcept
  · intro h; rw [h]; rfl

theorem wf_nil_project_of_not_abs {l : Label} (h : l.WF) (hna : l.isAbs = false) : l.project = [] := by
  obtain ⟨cs, _, hp⟩ := h.pkg
  rcases hp with ⟨h1, _⟩ | h2
  · exact h1
  · simp [Label.isAbs, h2, hasPrefixSS] at hna

theorem wf_set_pkg {l : Label} (h : l.WF) (hp : l.project = []) {b p : Bytes} (hc : cleanSpec b = .ok p) :
    ({ l with pkg := p } : Label).WF := by
  obtain ⟨cs, hcs, hshape⟩ := cleanSpec_shape hc
  refine ⟨h.kind, h.projColon, h.projSS, h.projLast, ⟨cs, hcs, ?_⟩, h.nameColon, h.nameSlash⟩
  by_cases hpre : hasPrefixSS b = true
  · right; simpa [hpre] using hshape
  · left; exact ⟨hp, by simpa [hpre] using hshape⟩

theorem relativeTo_wf {l l' : Label} {pkg : Bytes} (h : l.WF) (hr : relativeToGo l pkg = .ok l') :
    l'.WF ∧ l'.kind = l.kind ∧ l'.name = l.name := by
  unfold relativeToGo at hr
  by_cases habs : l.isAbs = true
  · simp only [habs, ↓reduceIte, Out.ok.injEq] at hr
    subst hr; exact ⟨h, rfl, rfl⟩
  · simp only [habs, Bool.false_eq_true, ↓reduceIte] at hr
    have hp := wf_nil_project_of_not_abs h (by simpa using habs)
    rw [joinGo_eq] at hr
    split at hr
    · simp only [Out.ok_bind, Out.ok.injEq] at hr
      subst hr
      refine ⟨?_, rfl, rfl⟩
      exact wf_set_pkg h hp (b := []) (by simp [cleanSpec])
    · cases hc : cleanSpec (joinBuf [] [pkg, l.pkg]) with
      | error e => rw [hc] at hr; cases hr
      | ok p =>
        rw [hc] at hr
        simp only [ofExcept_ok, Out.ok_bind, Out.ok.injEq] at hr
        subst hr
        exact ⟨wf_set_pkg h hp hc, rfl, rfl⟩

theorem new_wf {k g n : Bytes} {l : Label} (h : newGo k [] g n = .ok l) :
    l.WF ∧ l.kind = k ∧ l.name = n := by
  unfold newGo at h
  split at h
  · cases h
  rename_i hk
  simp only [List.not_mem_nil, ↓reduceIte, cleanGo_eq, clean_eq_spec] at h
  cases hc : cleanSpec g with
  | error e => rw [hc] at h; cases h
  | ok p =>
    rw [hc] at h
    simp only [ofExcept_ok, Out.ok_bind, ne_eq, not_true_eq_false, false_and, ↓reduceIte] at h
    split at h
    · cases h
    rename_i hn
    simp only [Out.ok.injEq] at h
    subst h
    simp only [not_or] at hk hn
    have hbase : (⟨k, [], [], n⟩ : Label).WF :=
      ⟨hk.1, by simp, rfl, by simp, ⟨[], (fun _ he => by cases he), Or.inl ⟨rfl, rfl⟩⟩, hn.1, hn.2⟩
    exact ⟨wf_set_pkg hbase rfl hc, rfl, rfl⟩


end Dawn.Label

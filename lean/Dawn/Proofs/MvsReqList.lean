import Dawn.Proofs.MvsSpec
/-!
# `mvs.ReqList` returns requirements that reach the whole build list

`reqList` (the stack machine for Go's two `walk`s) returns a sub-list `min` of the build list such that every entry
of the build list is reachable from `min` through requirement edges that never leave through the main module.
This is what makes `Tidy`, and the `ReqList` step after `Upgrade` / `UpgradeAll` / `Downgrade`, preserve the
build list (Dawn/Proofs/MvsEdit.lean).
-/
namespace Dawn.Mvs

theorem lookup_mem {α β : Type} [BEq α] [LawfulBEq α] : ∀ (l : List (α × β)) (k : α) (v : β),
    l.lookup k = some v → (k, v) ∈ l
  | [], _, _, h => by simp [List.lookup] at h
  | (a, b) :: r, k, v, h => by
    simp only [List.lookup] at h
    split at h
    · rename_i he
      have : k = a := by simpa using he
      subst this
      cases h
      exact List.mem_cons_self
    · exact List.mem_cons_of_mem _ (lookup_mem r k v h)

/-! ### the first walk -/

structure PostSpec (rq : Reqs) (stk : List Frame) (cache : List (Mod × List Mod)) (post : List Mod)
    (cache' : List (Mod × List Mod)) (post' : List Mod) : Prop where
  cache_mono : ∀ x ∈ cache, x ∈ cache'
  cache_sound : ∀ x ∈ cache', x ∈ cache ∨ rq.required x.1 = some x.2
  keys_new : ∀ x ∈ cache', x ∈ cache ∨ ¬ ∃ y ∈ cache, y.1 = x.1
  rest_cached : ∀ fr ∈ stk, ∀ c ∈ fr.rest, ∃ x ∈ cache', x.1 = c
  stk_in_post : ∀ fr ∈ stk, fr.node ∈ post'
  new_in_post : ∀ x ∈ cache', x ∈ cache ∨ x.1 ∈ post'
  post_mono : ∀ m ∈ post, m ∈ post'
  /-- every listed node satisfies whatever holds of the starting stack and is preserved along requirement edges -/
  prov : ∀ P : Mod → Prop, (∀ fr ∈ stk, P fr.node ∧ ∀ c ∈ fr.rest, P c) → (∀ m ∈ post, P m) →
    (∀ a r b, P a → (¬ ∃ y ∈ cache, y.1 = a) → rq.required a = some r → b ∈ r → P b) → ∀ m ∈ post', P m

theorem postorder_spec (rq : Reqs) : ∀ (f : Nat) (stk : List Frame) (cache : List (Mod × List Mod)) (post : List Mod)
    (cache' : List (Mod × List Mod)) (post' : List Mod),
    postorder rq f stk cache post = .ok (cache', post') → PostSpec rq stk cache post cache' post' := by
  intro f
  induction f with
  | zero =>
    intro stk cache post cache' post' h
    cases stk with
    | nil =>
      simp only [postorder, Except.ok.injEq, Prod.mk.injEq] at h
      obtain ⟨rfl, rfl⟩ := h
      exact ⟨fun _ h => h, fun _ h => Or.inl h, fun _ h => Or.inl h, (fun _ h => nomatch h), (fun _ h => nomatch h),
        fun _ h => Or.inl h, fun _ h => h, fun _ _ hp _ m hm => hp m hm⟩
    | cons fr stk => simp [postorder] at h
  | succ f ih =>
    intro stk cache post cache' post' h
    cases stk with
    | nil =>
      simp only [postorder, Except.ok.injEq, Prod.mk.injEq] at h
      obtain ⟨rfl, rfl⟩ := h
      exact ⟨fun _ h => h, fun _ h => Or.inl h, fun _ h => Or.inl h, (fun _ h => nomatch h), (fun _ h => nomatch h),
        fun _ h => Or.inl h, fun _ h => h, fun _ _ hp _ m hm => hp m hm⟩
    | cons fr stk =>
      obtain ⟨m, rest⟩ := fr
      cases rest with
      | nil =>
        simp only [postorder] at h
        have s := ih stk cache (m :: post) cache' post' h
        refine ⟨s.cache_mono, s.cache_sound, s.keys_new, ?_, ?_, s.new_in_post, fun x hx => s.post_mono x (List.mem_cons_of_mem _ hx), ?_⟩
        · intro fr hfr c hc
          rcases List.mem_cons.mp hfr with rfl | h1
          · cases hc
          · exact s.rest_cached fr h1 c hc
        · intro fr hfr
          rcases List.mem_cons.mp hfr with rfl | h1
          · exact s.post_mono m List.mem_cons_self
          · exact s.stk_in_post fr h1
        · intro P hstk hpost hcl
          apply s.prov P (fun fr hfr => hstk fr (List.mem_cons_of_mem _ hfr)) _ hcl
          intro x hx
          rcases List.mem_cons.mp hx with rfl | h1
          · exact (hstk ⟨x, []⟩ List.mem_cons_self).1
          · exact hpost x h1
      | cons c cs =>
        simp only [postorder] at h
        split at h
        · rename_i hc
          have hc' := (any_fst_iff cache c).mp hc
          have s := ih (⟨m, cs⟩ :: stk) cache post cache' post' h
          refine ⟨s.cache_mono, s.cache_sound, s.keys_new, ?_, ?_, s.new_in_post, s.post_mono, ?_⟩
          · intro fr hfr x hx
            rcases List.mem_cons.mp hfr with rfl | h1
            · rcases List.mem_cons.mp hx with rfl | h2
              · obtain ⟨y, hy, hy1⟩ := hc'
                exact ⟨y, s.cache_mono y hy, hy1⟩
              · exact s.rest_cached ⟨m, cs⟩ List.mem_cons_self x h2
            · exact s.rest_cached fr (List.mem_cons_of_mem _ h1) x hx
          · intro fr hfr
            rcases List.mem_cons.mp hfr with rfl | h1
            · exact s.stk_in_post ⟨m, cs⟩ List.mem_cons_self
            · exact s.stk_in_post fr (List.mem_cons_of_mem _ h1)
          · intro P hstk hpost hcl
            apply s.prov P _ hpost hcl
            intro fr hfr
            rcases List.mem_cons.mp hfr with rfl | h1
            · have := hstk ⟨m, c :: cs⟩ List.mem_cons_self
              exact ⟨this.1, fun x hx => this.2 x (List.mem_cons_of_mem _ hx)⟩
            · exact hstk fr (List.mem_cons_of_mem _ h1)
        · rename_i hc
          have hc' : ¬ ∃ y ∈ cache, y.1 = c := fun hex => hc ((any_fst_iff cache c).mpr hex)
          split at h
          · cases h
          · rename_i req hreq
            have s := ih (⟨c, req⟩ :: ⟨m, cs⟩ :: stk) ((c, req) :: cache) post cache' post' h
            refine ⟨fun x hx => s.cache_mono x (List.mem_cons_of_mem _ hx), ?_, ?_, ?_, ?_, ?_, s.post_mono, ?_⟩
            rotate_right
            · intro P hstk hpost hcl
              have htop := hstk ⟨m, c :: cs⟩ List.mem_cons_self
              have hPc : P c := htop.2 c List.mem_cons_self
              apply s.prov P _ hpost (fun a r b ha hna => hcl a r b ha (fun ⟨y, hy, hy1⟩ => hna ⟨y, List.mem_cons_of_mem _ hy, hy1⟩))
              intro fr hfr
              rcases List.mem_cons.mp hfr with rfl | h1
              · exact ⟨hPc, fun x hx => hcl c req x hPc hc' hreq hx⟩
              · rcases List.mem_cons.mp h1 with rfl | h2
                · exact ⟨htop.1, fun x hx => htop.2 x (List.mem_cons_of_mem _ hx)⟩
                · exact hstk fr (List.mem_cons_of_mem _ h2)
            · intro x hx
              rcases s.cache_sound x hx with h1 | h1
              · rcases List.mem_cons.mp h1 with rfl | h2
                · exact Or.inr hreq
                · exact Or.inl h2
              · exact Or.inr h1
            · intro x hx
              rcases s.keys_new x hx with h1 | h1
              · rcases List.mem_cons.mp h1 with rfl | h2
                · exact Or.inr hc'
                · exact Or.inl h2
              · right
                rintro ⟨y, hy, hy1⟩
                exact h1 ⟨y, List.mem_cons_of_mem _ hy, hy1⟩
            · intro fr hfr x hx
              rcases List.mem_cons.mp hfr with rfl | h1
              · rcases List.mem_cons.mp hx with rfl | h2
                · exact ⟨(x, req), s.cache_mono _ List.mem_cons_self, rfl⟩
                · exact s.rest_cached ⟨m, cs⟩ (List.mem_cons_of_mem _ List.mem_cons_self) x h2
              · exact s.rest_cached fr (List.mem_cons_of_mem _ (List.mem_cons_of_mem _ h1)) x hx
            · intro fr hfr
              rcases List.mem_cons.mp hfr with rfl | h1
              · exact s.stk_in_post ⟨m, cs⟩ (List.mem_cons_of_mem _ List.mem_cons_self)
              · exact s.stk_in_post fr (List.mem_cons_of_mem _ (List.mem_cons_of_mem _ h1))
            · intro x hx
              rcases s.new_in_post x hx with h1 | h1
              · rcases List.mem_cons.mp h1 with rfl | h2
                · exact Or.inr (s.stk_in_post ⟨c, req⟩ List.mem_cons_self)
                · exact Or.inl h2
              · exact Or.inr h1

/-! ### the second walk -/

/-- reachable from `s` through cached requirement lists -/
inductive CReach (cache : List (Mod × List Mod)) (s : Mod) : Mod → Prop where
  | refl : CReach cache s s
  | step (a b : Mod) : CReach cache s a → b ∈ cached cache a → CReach cache s b

theorem markHave_spec (cache : List (Mod × List Mod)) : ∀ (f : Nat) (todo hv hv' : List Mod),
    markHave cache f todo hv = some hv' →
      (∀ x ∈ hv, x ∈ hv') ∧ (∀ x ∈ todo, x ∈ hv') ∧
      ∀ S : Mod → Prop, (∀ x ∈ todo, S x) → (∀ a b, S a → b ∈ cached cache a → S b) → ∀ x ∈ hv', x ∈ hv ∨ S x := by
  intro f
  induction f with
  | zero =>
    intro todo hv hv' h
    cases todo with
    | nil =>
      simp only [markHave, Option.some.injEq] at h; subst h
      exact ⟨fun _ h => h, (fun _ h => nomatch h), fun _ _ _ _ hx => Or.inl hx⟩
    | cons m t => simp [markHave] at h
  | succ f ih =>
    intro todo hv hv' h
    cases todo with
    | nil =>
      simp only [markHave, Option.some.injEq] at h; subst h
      exact ⟨fun _ h => h, (fun _ h => nomatch h), fun _ _ _ _ hx => Or.inl hx⟩
    | cons m t =>
      simp only [markHave] at h
      split at h
      · rename_i hm
        obtain ⟨a, b, c⟩ := ih t hv hv' h
        refine ⟨a, ?_, ?_⟩
        · intro x hx
          rcases List.mem_cons.mp hx with rfl | h1
          · exact a x hm
          · exact b x h1
        · intro S hS hcl x hx
          exact c S (fun y hy => hS y (List.mem_cons_of_mem _ hy)) hcl x hx
      · obtain ⟨a, b, c⟩ := ih (cached cache m ++ t) (m :: hv) hv' h
        refine ⟨fun x hx => a x (List.mem_cons_of_mem _ hx), ?_, ?_⟩
        · intro x hx
          rcases List.mem_cons.mp hx with rfl | h1
          · exact a x List.mem_cons_self
          · exact b x (List.mem_append_right _ h1)
        · intro S hS hcl x hx
          have hSm : S m := hS m List.mem_cons_self
          rcases c S (fun y hy => by
              rcases List.mem_append.mp hy with h1 | h1
              · exact hcl m y hSm h1
              · exact hS y (List.mem_cons_of_mem _ h1)) hcl x hx with h1 | h1
          · rcases List.mem_cons.mp h1 with rfl | h2
            · exact Or.inr hSm
            · exact Or.inl h2
          · exact Or.inr h1

theorem selectMin_spec (fuel : Nat) (cache : List (Mod × List Mod)) (maxv : Sel) : ∀ (l hv min min' : List Mod),
    selectMin fuel cache maxv l hv min = some min' →
      ∃ hv' : List Mod, (∀ x ∈ hv, x ∈ hv') ∧ (∀ x ∈ min, x ∈ min') ∧
        (∀ x ∈ min', x ∈ min ∨ (x ∈ l ∧ (maxv.lookup x.path).getD .root = x.ver)) ∧
        (∀ m ∈ l, (maxv.lookup m.path).getD .root = m.ver → m ∈ hv') ∧
        (∀ x ∈ hv', x ∈ hv ∨ ∃ s ∈ min', CReach cache s x) := by
  intro l
  induction l with
  | nil =>
    intro hv min min' h
    simp only [selectMin, Option.some.injEq] at h; subst h
    exact ⟨hv, fun _ h => h, fun _ h => h, fun _ h => Or.inl h, (fun _ h => nomatch h), fun _ h => Or.inl h⟩
  | cons m rest ih =>
    intro hv min min' h
    simp only [selectMin] at h
    split at h
    · rename_i hne
      obtain ⟨hv', a, b, c, d, e⟩ := ih hv min min' h
      refine ⟨hv', a, b, ?_, ?_, e⟩
      · intro x hx
        rcases c x hx with h1 | ⟨h1, h2⟩
        · exact Or.inl h1
        · exact Or.inr ⟨List.mem_cons_of_mem _ h1, h2⟩
      · intro x hx hv
        rcases List.mem_cons.mp hx with rfl | h1
        · exact absurd hv hne
        · exact d x h1 hv
    · rename_i heq
      have heq' : (maxv.lookup m.path).getD .root = m.ver := by
        by_cases hh : (maxv.lookup m.path).getD .root = m.ver
        · exact hh
        · exact absurd hh (by simpa using heq)
      split at h
      · rename_i hin
        obtain ⟨hv', a, b, c, d, e⟩ := ih hv min min' h
        refine ⟨hv', a, b, ?_, ?_, e⟩
        · intro x hx
          rcases c x hx with h1 | ⟨h1, h2⟩
          · exact Or.inl h1
          · exact Or.inr ⟨List.mem_cons_of_mem _ h1, h2⟩
        · intro x hx hv
          rcases List.mem_cons.mp hx with rfl | h1
          · exact a x hin
          · exact d x h1 hv
      · split at h
        · cases h
        · rename_i hv1 hmark
          obtain ⟨m1, m2, m3⟩ := markHave_spec cache fuel [m] hv hv1 hmark
          obtain ⟨hv', a, b, c, d, e⟩ := ih hv1 (min ++ [m]) min' h
          refine ⟨hv', fun x hx => a x (m1 x hx), fun x hx => b x (List.mem_append_left _ hx), ?_, ?_, ?_⟩
          · intro x hx
            rcases c x hx with h1 | ⟨h1, h2⟩
            · rcases List.mem_append.mp h1 with h3 | h3
              · exact Or.inl h3
              · rw [List.mem_singleton.mp h3]
                exact Or.inr ⟨List.mem_cons_self, heq'⟩
            · exact Or.inr ⟨List.mem_cons_of_mem _ h1, h2⟩
          · intro x hx hv
            rcases List.mem_cons.mp hx with rfl | h1
            · exact a x (m2 x List.mem_cons_self)
            · exact d x h1 hv
          · intro x hx
            rcases e x hx with h1 | h1
            · rcases m3 (CReach cache m) (fun y hy => by rw [List.mem_singleton.mp hy]; exact CReach.refl)
                (fun a b ha hb => CReach.step a b ha hb) x h1 with h2 | h2
              · exact Or.inl h2
              · exact Or.inr ⟨m, b m (List.mem_append_right _ List.mem_cons_self), h2⟩
            · exact Or.inr h1

/-! ### the build list as a map -/

theorem lookup_foldl_setSel_not_mem (p : String) : ∀ (list : List Mod) (s : Sel), p ∉ list.map (·.path) →
    (list.foldl (fun s m => setSel s m.path m.ver) s).lookup p = s.lookup p := by
  intro list
  induction list with
  | nil => intro s _; rfl
  | cons m rest ih =>
    intro s hp
    simp only [List.map_cons, List.mem_cons, not_or] at hp
    simp only [List.foldl]
    rw [ih _ hp.2, lookup_setSel]
    simp [hp.1]

theorem lookup_foldl_setSel_mem (p : String) (v : Ver) : ∀ (list : List Mod) (s : Sel), (list.map (·.path)).Nodup →
    (⟨p, v⟩ : Mod) ∈ list → (list.foldl (fun s m => setSel s m.path m.ver) s).lookup p = some v := by
  intro list
  induction list with
  | nil => intro s _ h; cases h
  | cons m rest ih =>
    intro s hnd hm
    simp only [List.map_cons, List.nodup_cons] at hnd
    simp only [List.foldl]
    rcases List.mem_cons.mp hm with rfl | h1
    · rw [lookup_foldl_setSel_not_mem _ rest _ hnd.1, lookup_setSel]
      simp
    · exact ih _ hnd.2 h1

theorem lookup_listMap (list : List Mod) (hnd : (list.map (·.path)).Nodup) (m : Mod) (hm : m ∈ list) :
    ((listMap list).lookup m.path).getD .root = m.ver := by
  unfold listMap
  rw [lookup_foldl_setSel_mem m.path m.ver list [] hnd hm]
  rfl

theorem lookup_listMap_some (list : List Mod) (hnd : (list.map (·.path)).Nodup) (p : String) (v : Ver) :
    (listMap list).lookup p = some v ↔ (⟨p, v⟩ : Mod) ∈ list := by
  constructor
  · intro h
    by_cases hp : p ∈ list.map (·.path)
    · obtain ⟨m, hm, rfl⟩ := List.mem_map.mp hp
      have := lookup_foldl_setSel_mem m.path m.ver list [] hnd hm
      unfold listMap at h
      rw [this] at h
      cases h
      exact hm
    · unfold listMap at h
      rw [lookup_foldl_setSel_not_mem p list [] hp] at h
      simp [List.lookup] at h
  · intro h
    exact lookup_foldl_setSel_mem p v list [] hnd h

/-! ### `reqList` -/

/-- reachable from `s` through requirements, never leaving through the main module -/
inductive RReach (rq : Reqs) (main : Mod) (s : Mod) : Mod → Prop where
  | refl : RReach rq main s s
  | step (a b : Mod) (r : List Mod) : RReach rq main s a → a ≠ main → rq.required a = some r → b ∈ r → RReach rq main s b

/-- what `ReqList` returns: entries whose version is the one the list gives their path (never the main module),
from which every other entry of the list is reachable through requirements; and every returned entry satisfies
whatever holds of the list and is preserved along requirement edges -/
theorem reqList_sound {fuel : Nat} {rq : Reqs} {main : Mod} {list out : List Mod}
    (hnd : (list.map (·.path)).Nodup) (h : reqList fuel rq main list = .ok out) :
    (∀ x ∈ out, x ≠ main ∧ ((listMap list).lookup x.path).getD .root = x.ver) ∧
    (∀ m ∈ list, m ≠ main → ∃ s ∈ out, RReach rq main s m) ∧
    (∀ P : Mod → Prop, P main → (∀ m ∈ list, P m) →
      (∀ a r b, P a → a ≠ main → rq.required a = some r → b ∈ r → P b) → ∀ x ∈ out, P x) := by
  unfold reqList at h
  split at h
  · cases h
  · rename_i cache post hpost
    split at h
    · cases h
    · rename_i min hmin
      cases h
      have ps := postorder_spec rq fuel [⟨main, list⟩] [(main, [])] [] cache post hpost
      obtain ⟨hv', _, _, c, d, e⟩ := selectMin_spec fuel cache (listMap list) _ [] [] min hmin
      have hpostmem : ∀ m ∈ list, m ≠ main → m ∈ post.filter (· ≠ main) := by
        intro m hm hne
        obtain ⟨x, hx, hx1⟩ := ps.rest_cached ⟨main, list⟩ List.mem_cons_self m hm
        rcases ps.new_in_post x hx with h1 | h1
        · rw [List.mem_singleton.mp h1] at hx1
          exact absurd hx1.symm hne
        · rw [hx1] at h1
          exact List.mem_filter.mpr ⟨h1, by simpa using hne⟩
      -- cache edges are requirement edges that do not start at the main module
      have hedge : ∀ a b, b ∈ cached cache a → a ≠ main ∧ ∃ r, rq.required a = some r ∧ b ∈ r := by
        intro a b hb
        unfold cached at hb
        cases hl : cache.lookup a with
        | none => simp [hl] at hb
        | some r =>
          simp only [hl, Option.getD_some] at hb
          have hmem := lookup_mem cache a r hl
          have hne : a ≠ main := by
            rintro rfl
            rcases ps.keys_new _ hmem with h1 | h1
            · simp only [List.mem_singleton, Prod.mk.injEq, true_and] at h1
              subst h1; cases hb
            · exact h1 ⟨(a, []), List.mem_cons_self, rfl⟩
          rcases ps.cache_sound _ hmem with h1 | h1
          · simp only [List.mem_singleton, Prod.mk.injEq] at h1
            exact absurd h1.1 hne
          · exact ⟨hne, r, h1, hb⟩
      have hreach : ∀ s x, CReach cache s x → RReach rq main s x := by
        intro s x hc
        induction hc with
        | refl => exact RReach.refl
        | step a b _ hb ih =>
          obtain ⟨hne, r, hr, hbr⟩ := hedge a b hb
          exact RReach.step a b r ih hne hr hbr
      refine ⟨?_, ?_, ?_⟩
      · intro x hx
        rcases c x ((mem_sortByPath min x).mp hx) with h1 | ⟨h1, h2⟩
        · cases h1
        · exact ⟨by simpa using (List.mem_filter.mp h1).2, h2⟩
      · intro m hm hne
        have hin := d m (hpostmem m hm hne) (lookup_listMap list hnd m hm)
        rcases e m hin with h1 | ⟨s, hs, hsr⟩
        · cases h1
        · exact ⟨s, (mem_sortByPath min s).mpr hs, hreach s m hsr⟩
      · intro P hmain hlist hcl x hx
        rcases c x ((mem_sortByPath min x).mp hx) with h1 | ⟨h1, _⟩
        · cases h1
        · apply ps.prov P _ ((fun _ h => nomatch h))
            (fun a r b ha hna => hcl a r b ha (fun e => hna ⟨(main, []), List.mem_cons_self, e.symm⟩))
            x (List.mem_filter.mp h1).1
          intro fr hfr
          rw [List.mem_singleton.mp hfr]
          exact ⟨hmain, hlist⟩

/-- no two different entries for one path -/
def PathFunctional (l : List Mod) : Prop := ∀ x ∈ l, ∀ y ∈ l, x.path = y.path → x = y

/-- the returned requirements name every path at one version only -/
theorem reqList_functional {fuel : Nat} {rq : Reqs} {main : Mod} {list out : List Mod}
    (hnd : (list.map (·.path)).Nodup) (h : reqList fuel rq main list = .ok out) : PathFunctional out := by
  intro x hx y hy hp
  have h1 := ((reqList_sound hnd h).1 x hx).2
  have h2 := ((reqList_sound hnd h).1 y hy).2
  obtain ⟨xp, xv⟩ := x
  obtain ⟨yp, yv⟩ := y
  simp only at hp h1 h2
  subst hp
  rw [h1] at h2
  rw [h2]

/-! ### the result of `ReqList` does not depend on the fuel, nor on requirements it never asks for -/

theorem postorder_congr {rq1 rq2 : Reqs} (Q : Mod → Prop) :
    ∀ (f1 f2 : Nat) (stk : List Frame) (cache : List (Mod × List Mod)) (post : List Mod) r1 r2,
      (∀ a r b, Q a → (¬ ∃ y ∈ cache, y.1 = a) → rq1.required a = some r → b ∈ r → Q b) →
      (∀ a, Q a → (¬ ∃ y ∈ cache, y.1 = a) → rq1.required a = rq2.required a) →
      (∀ fr ∈ stk, ∀ c ∈ fr.rest, Q c) →
      postorder rq1 f1 stk cache post = .ok r1 → postorder rq2 f2 stk cache post = .ok r2 → r1 = r2 := by
  intro f1
  induction f1 with
  | zero =>
    intro f2 stk cache post r1 r2 _ _ _ h1 h2
    cases stk with
    | nil => cases f2 <;> simp [postorder] at h1 h2 <;> rw [← h1, ← h2]
    | cons fr stk => simp [postorder] at h1
  | succ f1 ih =>
    intro f2 stk cache post r1 r2 hcl hag hq h1 h2
    cases stk with
    | nil => cases f2 <;> simp [postorder] at h1 h2 <;> rw [← h1, ← h2]
    | cons fr stk =>
      cases f2 with
      | zero => simp [postorder] at h2
      | succ f2 =>
        obtain ⟨m, rest⟩ := fr
        cases rest with
        | nil =>
          simp only [postorder] at h1 h2
          exact ih f2 stk cache (m :: post) r1 r2 hcl hag (fun fr hfr => hq fr (List.mem_cons_of_mem _ hfr)) h1 h2
        | cons c cs =>
          simp only [postorder] at h1 h2
          have hqc : Q c := hq ⟨m, c :: cs⟩ List.mem_cons_self c List.mem_cons_self
          have hqs : ∀ fr ∈ (⟨m, cs⟩ : Frame) :: stk, ∀ x ∈ fr.rest, Q x := by
            intro fr hfr x hx
            rcases List.mem_cons.mp hfr with rfl | h3
            · exact hq ⟨m, c :: cs⟩ List.mem_cons_self x (List.mem_cons_of_mem _ hx)
            · exact hq fr (List.mem_cons_of_mem _ h3) x hx
          split at h1
          · rename_i hc
            rw [if_pos hc] at h2
            exact ih f2 _ cache post r1 r2 hcl hag hqs h1 h2
          · rename_i hc
            rw [if_neg hc] at h2
            have hnc : ¬ ∃ y ∈ cache, y.1 = c := fun hex => hc ((any_fst_iff cache c).mpr hex)
            rw [← hag c hqc hnc] at h2
            split at h1
            · cases h1
            · rename_i req hreq
              simp only [hreq] at h2
              apply ih f2 _ ((c, req) :: cache) post r1 r2 _ _ _ h1 h2
              · intro a r b ha hna
                exact hcl a r b ha (fun ⟨y, hy, hy1⟩ => hna ⟨y, List.mem_cons_of_mem _ hy, hy1⟩)
              · intro a ha hna
                exact hag a ha (fun ⟨y, hy, hy1⟩ => hna ⟨y, List.mem_cons_of_mem _ hy, hy1⟩)
              · intro fr hfr x hx
                rcases List.mem_cons.mp hfr with rfl | h3
                · exact hcl c req x hqc hnc hreq hx
                · exact hqs fr h3 x hx

theorem markHave_fuel (cache : List (Mod × List Mod)) : ∀ (f1 f2 : Nat) (todo hv r1 r2 : List Mod),
    markHave cache f1 todo hv = some r1 → markHave cache f2 todo hv = some r2 → r1 = r2 := by
  intro f1
  induction f1 with
  | zero =>
    intro f2 todo hv r1 r2 h1 h2
    cases todo with
    | nil => cases f2 <;> simp [markHave] at h1 h2 <;> rw [← h1, ← h2]
    | cons m t => simp [markHave] at h1
  | succ f1 ih =>
    intro f2 todo hv r1 r2 h1 h2
    cases todo with
    | nil => cases f2 <;> simp [markHave] at h1 h2 <;> rw [← h1, ← h2]
    | cons m t =>
      cases f2 with
      | zero => simp [markHave] at h2
      | succ f2 =>
        simp only [markHave] at h1 h2
        split at h1
        · rename_i hm; rw [if_pos hm] at h2; exact ih f2 _ _ r1 r2 h1 h2
        · rename_i hm; rw [if_neg hm] at h2; exact ih f2 _ _ r1 r2 h1 h2

theorem selectMin_fuel (cache : List (Mod × List Mod)) (maxv : Sel) (f1 f2 : Nat) : ∀ (l hv min r1 r2 : List Mod),
    selectMin f1 cache maxv l hv min = some r1 → selectMin f2 cache maxv l hv min = some r2 → r1 = r2 := by
  intro l
  induction l with
  | nil => intro hv min r1 r2 h1 h2; simp [selectMin] at h1 h2; rw [← h1, ← h2]
  | cons m rest ih =>
    intro hv min r1 r2 h1 h2
    simp only [selectMin] at h1 h2
    split at h1
    · rename_i hc; rw [if_pos hc] at h2; exact ih _ _ r1 r2 h1 h2
    · rename_i hc
      rw [if_neg hc] at h2
      split at h1
      · rename_i hin; rw [if_pos hin] at h2; exact ih _ _ r1 r2 h1 h2
      · rename_i hin
        rw [if_neg hin] at h2
        split at h1
        · cases h1
        · rename_i hv1 hm1
          split at h2
          · cases h2
          · rename_i hv2 hm2
            have := markHave_fuel cache f1 f2 [m] hv hv1 hv2 hm1 hm2
            subst this
            exact ih _ _ r1 r2 h1 h2

/-- `ReqList` gives the same answer for every fuel that suffices and for any two requirement graphs that agree away
from the main module on a set of modules that contains the list and is closed under requirements -/
theorem reqList_congr {rq1 rq2 : Reqs} {main : Mod} {list r1 r2 : List Mod} {f1 f2 : Nat} (Q : Mod → Prop)
    (hcl : ∀ a r b, Q a → a ≠ main → rq1.required a = some r → b ∈ r → Q b)
    (hag : ∀ a, Q a → a ≠ main → rq1.required a = rq2.required a)
    (hq : ∀ c ∈ list, Q c)
    (h1 : reqList f1 rq1 main list = .ok r1) (h2 : reqList f2 rq2 main list = .ok r2) : r1 = r2 := by
  unfold reqList at h1 h2
  split at h1
  · cases h1
  · rename_i cache1 post1 hp1
    split at h2
    · cases h2
    · rename_i cache2 post2 hp2
      have := postorder_congr Q f1 f2 [⟨main, list⟩] [(main, [])] [] _ _
        (fun a r b ha hna => hcl a r b ha (fun e => hna ⟨(main, []), List.mem_cons_self, e.symm⟩))
        (fun a ha hna => hag a ha (fun e => hna ⟨(main, []), List.mem_cons_self, e.symm⟩))
        (fun fr hfr => by rw [List.mem_singleton.mp hfr]; exact hq) hp1 hp2
      simp only [Prod.mk.injEq] at this
      obtain ⟨rfl, rfl⟩ := this
      split at h1
      · cases h1
      · rename_i m1 hm1
        split at h2
        · cases h2
        · rename_i m2 hm2
          cases h1; cases h2
          rw [selectMin_fuel _ _ f1 f2 _ _ _ m1 m2 hm1 hm2]

end Dawn.Mvs

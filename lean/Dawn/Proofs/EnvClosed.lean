import Dawn.Proofs.EnvTerm
/-!
On a closed heap without unpicklable values the traversal can only fail by running out of fuel — with
`encVal_good` this gives: the repaired traversal returns `ok` (C08_terminates).
-/
namespace Dawn.Env

def ValClosed (g : Heap) : Val → Prop
  | .atom _ => True
  | .ref a => a < g.length

/-- the values an object refers to -/
def objVals : Obj → List Val
  | .tuple xs => xs
  | .list xs => xs
  | .dict kvs => flattenKvs kvs
  | .set xs => xs
  | .target _ => []
  | .builtin _ recv => [recv]
  | .code _ m gl _ sig => [m, gl, sig]
  | .func _ d fv c => [d, fv, c]
  | .mandatory => []
  | .other => []

/-- every address stored in the heap is an address of the heap -/
def Closed (g : Heap) : Prop := ∀ o ∈ g, ∀ v ∈ objVals o, ValClosed g v

/-- no value that neither the encoder nor the pickler has a case for -/
def Picklable (g : Heap) : Prop := Obj.other ∉ g

def OnlyFuel (r : Res) : Prop := ∀ e, r = .error e → e = .outOfFuel

theorem encSeq_onlyFuel (f : EncSt → Val → Res) (xs : List Val) (hf : ∀ x ∈ xs, ∀ st, OnlyFuel (f st x)) :
    ∀ st, OnlyFuel (encSeq f st xs) := by
  induction xs with
  | nil => intro st e h; simp [encSeq] at h
  | cons x xs ih =>
    intro st e h
    simp only [encSeq] at h
    cases hx : f st x with
    | error e' =>
      rw [hx] at h; simp at h; subst h
      exact hf x (List.mem_cons_self ..) st _ hx
    | ok p =>
      obtain ⟨st1, ops1⟩ := p
      rw [hx] at h; simp only [] at h
      cases hr : encSeq f st1 xs with
      | error e' =>
        rw [hr] at h; simp at h; subst h
        exact ih (fun y hy => hf y (List.mem_cons_of_mem _ hy)) st1 _ hr
      | ok q => rw [hr] at h; simp at h

theorem encBatches_onlyFuel (cfg : Cfg) (f : EncSt → Val → Res) (self : Nat) (close : Op) (bs : List (List Val))
    (hf : ∀ b ∈ bs, ∀ x ∈ b, ∀ st, OnlyFuel (f st x)) :
    ∀ first st, OnlyFuel (encBatches cfg f self close first st bs) := by
  induction bs with
  | nil => intro first st e h; simp [encBatches] at h
  | cons b bs ih =>
    intro first st e h
    simp only [encBatches] at h
    cases hx : encSeq f st b with
    | error e' =>
      rw [hx] at h; simp at h; subst h
      exact encSeq_onlyFuel f b (hf b (List.mem_cons_self ..)) st _ hx
    | ok p =>
      obtain ⟨st1, ops1⟩ := p
      rw [hx] at h; simp only [] at h
      cases hr : encBatches cfg f self close false st1 bs with
      | error e' =>
        rw [hr] at h; simp at h; subst h
        exact ih (fun b' hb' => hf b' (List.mem_cons_of_mem _ hb')) false st1 _ hr
      | ok q => rw [hr] at h; simp at h

theorem mem_flattenKvs_all (kvs : List (Val × Val)) (b : List Val) (hb : b ∈ (chunks n kvs).map flattenKvs)
    (x : Val) (hx : x ∈ b) : x ∈ flattenKvs kvs := by
  obtain ⟨c, hc, rfl⟩ := List.mem_map.mp hb
  obtain ⟨p, hp, hxp⟩ := mem_flattenKvs c x hx
  have hpk : p ∈ kvs := mem_chunks n kvs c hc p hp
  clear hx hp hc hb
  induction kvs with
  | nil => cases hpk
  | cons q rest ih =>
    obtain ⟨k, v⟩ := q
    simp only [flattenKvs, List.mem_cons]
    rcases List.mem_cons.mp hpk with rfl | hin
    · rcases hxp with rfl | rfl <;> simp
    · exact Or.inr (Or.inr (ih hin))

theorem encVal_onlyFuel (cfg : Cfg) (hm : cfg.mandatory = true) (g : Heap) (hc : Closed g) (hp : Picklable g) :
    ∀ fuel st v, ValClosed g v → OnlyFuel (encVal cfg g fuel st v) := by
  intro fuel
  induction fuel with
  | zero =>
    intro st v _ e h
    cases v with
    | atom a => simp [encVal] at h
    | ref a => simp [encVal] at h; exact h.symm
  | succ fuel ih =>
    intro st v hv e h
    cases v with
    | atom a => simp [encVal] at h
    | ref a =>
      simp only [encVal] at h
      cases hl : lookup st.memo a with
      | some id => rw [hl] at h; simp at h
      | none =>
        rw [hl] at h; simp only [] at h
        have halt : a < g.length := hv
        have hg : g[a]? = some g[a] := List.getElem?_eq_getElem halt
        have hmem : g[a] ∈ g := List.getElem_mem halt
        have hvals := hc _ hmem
        rw [hg] at h
        cases ho : g[a] with
        | tuple xs =>
          rw [ho] at h hvals; try simp only [] at h
          have := encSeq_onlyFuel (encVal cfg g fuel) xs (fun x hx st => ih st x (hvals x hx)) st
          split at h
          · next e' heq => simp at h; subst h; exact this _ heq
          · simp at h
        | set xs =>
          rw [ho] at h hvals; try simp only [] at h
          have := encBatches_onlyFuel cfg (encVal cfg g fuel) a .additems (chunks cfg.batch xs)
            (fun b hb x hx st => ih st x (hvals x (mem_chunks _ _ b hb x hx))) true (st.memoize cfg a)
          split at h
          · next e' heq => simp at h; subst h; exact this _ heq
          · simp at h
        | dict kvs =>
          rw [ho] at h hvals; try simp only [] at h
          have := encBatches_onlyFuel cfg (encVal cfg g fuel) a .setitems ((chunks cfg.batch kvs).map flattenKvs)
            (fun b hb x hx st => ih st x (hvals x (mem_flattenKvs_all kvs b hb x hx))) true (st.memoize cfg a)
          split at h
          · next e' heq => simp at h; subst h; exact this _ heq
          · simp at h
        | list xs =>
          rw [ho] at h hvals; try simp only [] at h
          cases xs with
          | nil => simp at h
          | cons x rest =>
            cases rest with
            | nil =>
              simp only [] at h
              have := ih (st.memoize cfg a) x (hvals x (List.mem_cons_self ..))
              split at h
              · next e' heq => simp at h; subst h; exact this _ heq
              · simp at h
            | cons y rest =>
              simp only [] at h
              have := encBatches_onlyFuel cfg (encVal cfg g fuel) a .appends (chunks cfg.batch (x :: y :: rest))
                (fun b hb z hz st => ih st z (hvals z (mem_chunks _ _ b hb z hz))) true (st.memoize cfg a)
              split at h
              · next e' heq => simp at h; subst h; exact this _ heq
              · simp at h
        | target label => rw [ho] at h; simp at h
        | mandatory => rw [ho] at h; simp [hm] at h
        | other => rw [ho] at hmem; exact absurd hmem hp
        | builtin name recv =>
          rw [ho] at h hvals; simp only [] at h
          split at h
          · split at h
            · simp at h
            · have := ih (if cfg.fixed = true then { st with seen := st.seen ++ [a] } else st) recv (hvals recv (List.mem_cons_self ..))
              split at h
              · next e' heq => simp at h; subst h; exact this _ heq
              · simp at h
          · simp at h
        | code name m gl bc sig =>
          rw [ho] at h hvals; simp only [] at h
          split at h
          · simp at h
          · have h1 := encSeq_onlyFuel (encVal cfg g fuel) [m, gl]
              (fun x hx st => ih st x (hvals x (by
                rcases List.mem_cons.mp hx with rfl | hx
                · exact List.mem_cons_self ..
                · rcases List.mem_cons.mp hx with rfl | hx
                  · exact List.mem_cons_of_mem _ (List.mem_cons_self ..)
                  · cases hx)))
            split at h
            · next e' heq => simp at h; subst h; exact h1 _ _ heq
            · next s1 o1 heq =>
              split at h
              · have h2 := ih s1 sig (hvals sig (List.mem_cons_of_mem _ (List.mem_cons_of_mem _ (List.mem_cons_self ..))))
                split at h
                · next e' heq2 => simp at h; subst h; exact h2 _ heq2
                · simp at h
              · simp at h
        | func name d fv c =>
          rw [ho] at h hvals; try simp only [] at h
          split at h
          · simp at h
          · have := encSeq_onlyFuel (encVal cfg g fuel) [d, fv, c] (fun x hx st => ih st x (hvals x hx))
            split at h
            · next e' heq => simp at h; subst h; exact this _ _ heq
            · simp at h

end Dawn.Env

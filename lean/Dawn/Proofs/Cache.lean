import Dawn.Model.Cache
/-!
Invariant of the `cache.once` model and its preservation by every step of every thread (helper lemmas for
`Dawn/Props/Cache.lean`).
-/
namespace Dawn.Cache

/-- the thread is inside the writer's critical section of `once` -/
def inW : PC → Bool
  | .wheld | .miss | .callok _ | .holding _ => true
  | _ => false

/-- the thread is inside the reader's critical section of `get` -/
def inR : PC → Bool
  | .rheld | .rdone _ => true
  | _ => false

/-- the value the thread has seen in / put into the cache and is going to return -/
def valOf : PC → Option Val
  | .rdone r | .holding r | .retv r => r
  | _ => none

/-- the thread is going to return its callable's error -/
def failing : PC → Bool
  | .holding none | .retv none => true
  | _ => false

structure Inv (s : State) : Prop where
  wflag : ∀ t, inW (s.pc t) = true → s.writer = true
  wuniq : ∀ t t', inW (s.pc t) = true → inW (s.pc t') = true → t = t'
  wsome : s.writer = true → ∃ t, inW (s.pc t) = true
  active : ∀ t, s.pc t ≠ .start → s.prog t ≠ []
  rmem : ∀ t, inR (s.pc t) = true ↔ t ∈ s.rset
  rnodup : s.rset.Nodup
  rcount : s.readers = s.rset.length
  excl : s.writer = true → s.rset = []
  ent_calls : ∀ k v, s.entries k = some v → s.okCalls k = [v]
  calls_ent : ∀ k v l, s.okCalls k = v :: l → l = [] ∧
      (s.entries k = some v ∨ ∃ t op rest, s.prog t = op :: rest ∧ op.key = k ∧ s.pc t = .callok v)
  miss_none : ∀ t op rest, s.prog t = op :: rest → s.pc t = .miss → s.entries op.key = none
  callok_none : ∀ t op rest v, s.prog t = op :: rest → s.pc t = .callok v →
      s.entries op.key = none ∧ s.okCalls op.key = [v]
  val_ent : ∀ t op rest v, s.prog t = op :: rest → valOf (s.pc t) = some v → s.entries op.key = some v
  rets_ent : ∀ t k v, (t, k, some v) ∈ s.rets → s.entries k = some v
  fail_cnt : ∀ t op rest, s.prog t = op :: rest → failing (s.pc t) = true → 1 ≤ s.failCalls op.key
  rets_fail : ∀ t k, (t, k, none) ∈ s.rets → 1 ≤ s.failCalls k

theorem inv_init (prog : Tid → List Op) : Inv (init prog) := by
  constructor <;> simp [init, inW, inR, valOf, failing]


/-- a thread that missed on the re-check under the writer lock is the only one that can be calling for its key -/
theorem miss_no_calls {s : State} (inv : Inv s) {t : Tid} {op : Op} {rest : List Op}
    (hp : s.prog t = op :: rest) (hpc : s.pc t = .miss) : s.okCalls op.key = [] := by
  cases hc : s.okCalls op.key with
  | nil => rfl
  | cons v l =>
    have ⟨_, h2⟩ := inv.calls_ent _ _ _ hc
    have hn := inv.miss_none t op rest hp hpc
    rcases h2 with h2 | ⟨t', op', rest', _, _, hpc'⟩
    · rw [hn] at h2; cases h2
    · have : t = t' := inv.wuniq t t' (by simp [hpc, inW]) (by simp [hpc', inW])
      subst this; rw [hpc] at hpc'; cases hpc'

theorem inv_rlock {s : State} {t : Tid} (inv : Inv s) (op : Op) (rest : List Op)
    (hp : s.prog t = op :: rest) (hpc : s.pc t = .start) (hw : s.writer = false) :
    Inv { s with readers := s.readers + 1, rset := t :: s.rset, pc := upd s.pc t .rheld } := by
  have ⟨i1,i2,i3,i4,i5,i6,i7,i8,i9,i10,i11,i12,i13,i14,i15,i16⟩ := inv
  constructor <;> simp only [upd] <;> grind [inW, inR, valOf, failing]

theorem inv_rread {s : State} {t : Tid} (inv : Inv s) (op : Op) (rest : List Op)
    (hp : s.prog t = op :: rest) (hpc : s.pc t = .rheld) :
    Inv { s with pc := upd s.pc t (.rdone (s.entries op.key)) } := by
  have ⟨i1,i2,i3,i4,i5,i6,i7,i8,i9,i10,i11,i12,i13,i14,i15,i16⟩ := inv
  constructor <;> simp only [upd] <;> grind [inW, inR, valOf, failing]

theorem inv_runlock {s : State} {t : Tid} (inv : Inv s) (op : Op) (rest : List Op)
    (hp : s.prog t = op :: rest) (r : Option Val) (hpc : s.pc t = .rdone r) :
    Inv { s with readers := s.readers - 1, rset := s.rset.erase t, pc := upd s.pc t (afterGet r) } := by
  have ⟨i1,i2,i3,i4,i5,i6,i7,i8,i9,i10,i11,i12,i13,i14,i15,i16⟩ := inv
  cases r <;> simp only [afterGet] <;> constructor <;> simp only [upd] <;>
    grind [inW, inR, valOf, failing, List.Nodup.erase, List.length_erase_of_mem, List.Nodup.mem_erase_iff]

theorem inv_lock {s : State} {t : Tid} (inv : Inv s) (op : Op) (rest : List Op)
    (hp : s.prog t = op :: rest) (_hpc : s.pc t = .wlock) (hw : s.writer = false) (hr : s.readers = 0) :
    Inv { s with writer := true, pc := upd s.pc t .wheld } := by
  have ⟨i1,i2,i3,i4,i5,i6,i7,i8,i9,i10,i11,i12,i13,i14,i15,i16⟩ := inv
  constructor <;> simp only [upd] <;> grind [inW, inR, valOf, failing]

theorem inv_recheck {s : State} {t : Tid} (inv : Inv s) (op : Op) (rest : List Op)
    (hp : s.prog t = op :: rest) (hpc : s.pc t = .wheld) :
    Inv { s with pc := upd s.pc t (afterRecheck (s.entries op.key)) } := by
  have ⟨i1,i2,i3,i4,i5,i6,i7,i8,i9,i10,i11,i12,i13,i14,i15,i16⟩ := inv
  cases he : s.entries op.key <;> simp only [afterRecheck] <;>
    constructor <;> simp only [upd] <;> grind [inW, inR, valOf, failing]

theorem inv_call_ok {s : State} {t : Tid} (inv : Inv s) (op : Op) (rest : List Op)
    (hp : s.prog t = op :: rest) (hpc : s.pc t = .miss) (a : Val) :
    Inv { s with pc := upd s.pc t (.callok a), okCalls := upd s.okCalls op.key (a :: s.okCalls op.key) } := by
  have h0 := miss_no_calls inv hp hpc
  have ⟨i1,i2,i3,i4,i5,i6,i7,i8,i9,i10,i11,i12,i13,i14,i15,i16⟩ := inv
  constructor <;> simp only [upd] <;> grind [inW, inR, valOf, failing]

theorem inv_call_fail {s : State} {t : Tid} (inv : Inv s) (op : Op) (rest : List Op)
    (hp : s.prog t = op :: rest) (hpc : s.pc t = .miss) :
    Inv { s with pc := upd s.pc t (.holding none), failCalls := upd s.failCalls op.key (s.failCalls op.key + 1) } := by
  have ⟨i1,i2,i3,i4,i5,i6,i7,i8,i9,i10,i11,i12,i13,i14,i15,i16⟩ := inv
  constructor <;> simp only [upd] <;> grind [inW, inR, valOf, failing]

theorem inv_store {s : State} {t : Tid} (inv : Inv s) (op : Op) (rest : List Op)
    (hp : s.prog t = op :: rest) (v : Val) (hpc : s.pc t = .callok v) :
    Inv { s with entries := upd s.entries op.key (some v), pc := upd s.pc t (.holding (some v)) } := by
  have ⟨i1,i2,i3,i4,i5,i6,i7,i8,i9,i10,i11,i12,i13,i14,i15,i16⟩ := inv
  constructor <;> simp only [upd] <;> grind [inW, inR, valOf, failing]

theorem inv_unlock {s : State} {t : Tid} (inv : Inv s) (op : Op) (rest : List Op)
    (hp : s.prog t = op :: rest) (r : Option Val) (hpc : s.pc t = .holding r) :
    Inv { s with writer := false, pc := upd s.pc t (.retv r) } := by
  have ⟨i1,i2,i3,i4,i5,i6,i7,i8,i9,i10,i11,i12,i13,i14,i15,i16⟩ := inv
  constructor <;> simp only [upd] <;> grind [inW, inR, valOf, failing]

theorem inv_ret {s : State} {t : Tid} (inv : Inv s) (op : Op) (rest : List Op)
    (hp : s.prog t = op :: rest) (r : Option Val) (hpc : s.pc t = .retv r) :
    Inv { s with rets := (t, op.key, r) :: s.rets, prog := upd s.prog t rest, pc := upd s.pc t .start } := by
  have ⟨i1,i2,i3,i4,i5,i6,i7,i8,i9,i10,i11,i12,i13,i14,i15,i16⟩ := inv
  constructor <;> simp only [upd] <;> grind [inW, inR, valOf, failing]

/-- every step of every thread preserves the invariant -/
theorem inv_next {s s' : State} {t : Tid} (inv : Inv s) (h : next s t = some s') : Inv s' := by
  unfold next at h
  split at h
  · cases h
  · rename_i op rest hp
    split at h
    · rename_i hpc
      split at h
      · cases h
      · rename_i hw
        cases h
        exact inv_rlock inv op rest hp hpc (by simpa using hw)
    · rename_i hpc; cases h; exact inv_rread inv op rest hp hpc
    · rename_i r hpc; cases h; exact inv_runlock inv op rest hp r hpc
    · rename_i hpc
      split at h
      · cases h
      · rename_i hw
        cases h
        simp only [Bool.or_eq_true, bne_iff_ne, ne_eq, not_or, Bool.not_eq_true, Decidable.not_not] at hw
        exact inv_lock inv op rest hp hpc hw.1 hw.2
    · rename_i hpc; cases h; exact inv_recheck inv op rest hp hpc
    · rename_i hpc
      split at h
      · cases h; exact inv_call_ok inv op rest hp hpc _
      · cases h; exact inv_call_fail inv op rest hp hpc
    · rename_i v hpc; cases h; exact inv_store inv op rest hp v hpc
    · rename_i r hpc; cases h; exact inv_unlock inv op rest hp r hpc
    · rename_i r hpc; cases h; exact inv_ret inv op rest hp r hpc

theorem inv_steps {s s' : State} (inv : Inv s) (h : Steps s s') : Inv s' := by
  induction h with
  | refl => exact inv
  | tail _ st ih => obtain ⟨t, ht⟩ := st; exact inv_next ih ht

theorem inv_reachable {s : State} (h : Reachable s) : Inv s := by
  obtain ⟨prog, hs⟩ := h
  exact inv_steps (inv_init prog) hs

end Dawn.Cache

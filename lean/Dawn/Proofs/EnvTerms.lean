import Dawn.Proofs.EnvRename
/-!
Unique readability of the encoder's opcode streams — first half of C08_sensitive.

`Term` is the shape of one `Encoder.encode` call: what is written for a value, as a tree. `serT` writes a term the way
the encoder does (arity rules for tuples, APPEND for one element, MARK … batches otherwise, STACK_GLOBAL / NEWOBJ /
MEMOIZE around host objects). `run` is the pickle decoder's stack machine reduced to what it needs to rebuild terms.
`run_ser`: running the machine over `serT t` pushes `t`; hence `serT` is injective (`serT_injective`).

Opcode streams are NOT prefix free (`[]` is written as a prefix of `[x]`), so this cannot be shown by comparing two
streams front to back; the stack machine is what makes the reading unambiguous.
-/
namespace Dawn.Env

mutual
inductive Term where
  | atom (a : Atom)
  | bg (id : Nat)                       -- BINGET: a value the encoder has memoised
  | tuple (ts : Terms)
  | list (ts : Terms)
  | dict (ts : Terms)                   -- keys and values alternating
  | set (ts : Terms)
  | host (name : Bytes) (args : Term)   -- STACK_GLOBAL "dawn" name, args, NEWOBJ, MEMOIZE
inductive Terms where
  | nil
  | cons (t : Term) (ts : Terms)
end

def Terms.toList : Terms → List Term
  | .nil => []
  | .cons t ts => t :: ts.toList

def Terms.ofList : List Term → Terms
  | [] => .nil
  | t :: ts => .cons t (Terms.ofList ts)

theorem Terms.toList_ofList (l : List Term) : (Terms.ofList l).toList = l := by
  induction l with
  | nil => rfl
  | cons t ts ih => simp [Terms.ofList, Terms.toList, ih]

theorem Terms.ofList_toList : ∀ ts : Terms, Terms.ofList ts.toList = ts
  | .nil => rfl
  | .cons t ts => by simp [Terms.ofList, Terms.toList, Terms.ofList_toList ts]

/-- `MARK elems… close` for every batch (no re-encoding of the container: `Cfg.reencode = false`) -/
def serBatches (n : Nat) (close : Op) (es : List (List Op)) : List Op :=
  (chunks n es).flatMap fun b => [.mark] ++ b.flatten ++ [close]

mutual
def serT (n : Nat) : Term → List Op
  | .atom a => encAtom a
  | .bg id => [.binget id]
  | .tuple ts =>
    let es := serTs n ts
    match es.length with
    | 0 => [.emptyTuple]
    | 1 => es.flatten ++ [.tuple1]
    | 2 => es.flatten ++ [.tuple2]
    | 3 => es.flatten ++ [.tuple3]
    | _ => [.mark] ++ es.flatten ++ [.tuple]
  | .list ts =>
    let es := serTs n ts
    match es with
    | [] => [.emptyList, .memoize]
    | [e] => [.emptyList, .memoize] ++ e ++ [.append]
    | _ => [.emptyList, .memoize] ++ serBatches n .appends es
  | .dict ts => [.emptyDict, .memoize] ++ serBatches (2 * n) .setitems (serTs n ts)
  | .set ts => [.emptySet, .memoize] ++ serBatches n .additems (serTs n ts)
  | .host name args => hostHeader name ++ serT n args ++ [.newobj, .memoize]
def serTs (n : Nat) : Terms → List (List Op)
  | .nil => []
  | .cons t ts => serT n t :: serTs n ts
end

theorem serTs_eq (n : Nat) : ∀ ts : Terms, serTs n ts = ts.toList.map (serT n)
  | .nil => by simp [serTs, Terms.toList]
  | .cons t ts => by simp [serTs, Terms.toList, serTs_eq n ts]

/-! ### the stack machine -/

inductive Item where
  | tm (t : Term)
  | mark
  | global (name : Bytes)

/-- pop the items above the topmost MARK (returned in push order) and the MARK itself -/
def popToMark : List Item → List Term → Option (List Term × List Item)
  | [], _ => none
  | .mark :: rest, acc => some (acc, rest)
  | .tm t :: rest, acc => popToMark rest (t :: acc)
  | .global _ :: _, _ => none

def snocAll (ts : Terms) (vs : List Term) : Terms := Terms.ofList (ts.toList ++ vs)

def stepOp (op : Op) (stack : List Item) : Option (List Item) :=
  match op with
  | .mark => some (.mark :: stack)
  | .memoize => some stack
  | .stop => some stack
  | .binget id => some (.tm (.bg id) :: stack)
  | .none => some (.tm (.atom .none) :: stack)
  | .newtrue => some (.tm (.atom (.bool true)) :: stack)
  | .newfalse => some (.tm (.atom (.bool false)) :: stack)
  | .int i => some (.tm (.atom (.int i)) :: stack)
  | .float b => some (.tm (.atom (.float b)) :: stack)
  | .str s => some (.tm (.atom (.str s)) :: stack)
  | .bytes b => some (.tm (.atom (.bytes b)) :: stack)
  | .emptyList => some (.tm (.list .nil) :: stack)
  | .emptyDict => some (.tm (.dict .nil) :: stack)
  | .emptySet => some (.tm (.set .nil) :: stack)
  | .emptyTuple => some (.tm (.tuple .nil) :: stack)
  | .append =>
    match stack with
    | .tm v :: .tm (.list ts) :: rest => some (.tm (.list (snocAll ts [v])) :: rest)
    | _ => none
  | .appends =>
    match popToMark stack [] with
    | some (vs, .tm (.list ts) :: rest) => some (.tm (.list (snocAll ts vs)) :: rest)
    | _ => none
  | .setitems =>
    match popToMark stack [] with
    | some (vs, .tm (.dict ts) :: rest) => some (.tm (.dict (snocAll ts vs)) :: rest)
    | _ => none
  | .additems =>
    match popToMark stack [] with
    | some (vs, .tm (.set ts) :: rest) => some (.tm (.set (snocAll ts vs)) :: rest)
    | _ => none
  | .tuple1 =>
    match stack with
    | .tm a :: rest => some (.tm (.tuple (Terms.ofList [a])) :: rest)
    | _ => none
  | .tuple2 =>
    match stack with
    | .tm b :: .tm a :: rest => some (.tm (.tuple (Terms.ofList [a, b])) :: rest)
    | _ => none
  | .tuple3 =>
    match stack with
    | .tm c :: .tm b :: .tm a :: rest => some (.tm (.tuple (Terms.ofList [a, b, c])) :: rest)
    | _ => none
  | .tuple =>
    match popToMark stack [] with
    | some (vs, rest) => some (.tm (.tuple (Terms.ofList vs)) :: rest)
    | none => none
  | .stackGlobal =>
    match stack with
    | .tm (.atom (.str name)) :: .tm (.atom (.str _)) :: rest => some (.global name :: rest)
    | _ => none
  | .newobj =>
    match stack with
    | .tm args :: .global name :: rest => some (.tm (.host name args) :: rest)
    | _ => none

def run : List Op → List Item → Option (List Item)
  | [], stack => some stack
  | op :: ops, stack =>
    match stepOp op stack with
    | none => none
    | some stack' => run ops stack'

theorem run_append (a b : List Op) (stack : List Item) :
    run (a ++ b) stack = (run a stack).bind (run b) := by
  induction a generalizing stack with
  | nil => simp [run]
  | cons op ops ih =>
    simp only [List.cons_append, run]
    cases stepOp op stack with
    | none => simp
    | some s => simp [ih]

end Dawn.Env

namespace Dawn.Env

/-- running the machine over the serialisation of `t` pushes `t` -/
def Reads (n : Nat) (t : Term) : Prop :=
  ∀ rest stack, run (serT n t ++ rest) stack = run rest (.tm t :: stack)

def pushAll (l : List Term) (stack : List Item) : List Item := l.reverse.map Item.tm ++ stack

theorem pushAll_cons (t : Term) (l : List Term) (stack : List Item) :
    pushAll (t :: l) stack = pushAll l (.tm t :: stack) := by
  simp [pushAll]

theorem run_elems (n : Nat) (l : List Term) (hl : ∀ t ∈ l, Reads n t) (rest : List Op) (stack : List Item) :
    run ((l.map (serT n)).flatten ++ rest) stack = run rest (pushAll l stack) := by
  induction l generalizing stack with
  | nil => simp [pushAll]
  | cons t l ih =>
    simp only [List.map_cons, List.flatten_cons, List.append_assoc]
    rw [hl t (List.mem_cons_self ..), ih (fun u hu => hl u (List.mem_cons_of_mem _ hu)), pushAll_cons]

theorem popToMark_map (r : List Term) (rest : List Item) (acc : List Term) :
    popToMark (r.map Item.tm ++ .mark :: rest) acc = some (r.reverse ++ acc, rest) := by
  induction r generalizing acc with
  | nil => simp [popToMark]
  | cons t r ih => simp [popToMark, ih]

theorem popToMark_pushAll (l : List Term) (rest : List Item) :
    popToMark (pushAll l (.mark :: rest)) [] = some (l, rest) := by
  unfold pushAll
  rw [popToMark_map]
  simp

theorem chunks_flatten {α} (n : Nat) (hn : n ≠ 0) (xs : List α) : (chunks n xs).flatten = xs := by
  induction h : xs.length using Nat.strongRecOn generalizing xs with
  | _ len ih =>
    by_cases hx : xs = []
    · subst hx; rw [chunks_stop _ _ (Or.inr rfl)]; rfl
    · rw [chunks_step _ _ hn hx]
      have hpos : 0 < xs.length := List.length_pos_iff.mpr hx
      have hlt : (xs.drop n).length < len := by simp [List.length_drop]; omega
      simp [ih _ hlt (xs.drop n) rfl]

theorem snocAll_snocAll (ts : Terms) (a b : List Term) : snocAll (snocAll ts a) b = snocAll ts (a ++ b) := by
  simp [snocAll, Terms.toList_ofList]

theorem snocAll_nil (l : List Term) : snocAll .nil l = Terms.ofList l := by
  simp [snocAll, Terms.toList]

/-- one batch of terms: `MARK elems… close` -/
def serChunk (n : Nat) (close : Op) (c : List Term) : List Op := [Op.mark] ++ (c.map (serT n)).flatten ++ [close]

/-- the batch loop for a container under construction; `mk` is the container's constructor, `close` its batch opcode -/
theorem run_batches (n : Nat) (mk : Terms → Term) (close : Op)
    (hstep : ∀ vs ts rest, stepOp close (pushAll vs (.mark :: .tm (mk ts) :: rest)) = some (.tm (mk (snocAll ts vs)) :: rest))
    (cs : List (List Term)) (hl : ∀ c ∈ cs, ∀ t ∈ c, Reads n t) (ts0 : Terms) (rest : List Op) (stack : List Item) :
    run ((cs.flatMap (serChunk n close)) ++ rest) (.tm (mk ts0) :: stack)
      = run rest (.tm (mk (snocAll ts0 cs.flatten)) :: stack) := by
  induction cs generalizing ts0 with
  | nil => simp [snocAll, Terms.ofList_toList]
  | cons c cs ih =>
    have e : (List.flatMap (serChunk n close) (c :: cs)) ++ rest
        = Op.mark :: ((c.map (serT n)).flatten ++ (close :: (List.flatMap (serChunk n close) cs ++ rest))) := by
      simp [serChunk]
    rw [e]
    simp only [run, stepOp]
    rw [run_elems n c (hl c (List.mem_cons_self ..))]
    simp only [run, hstep]
    rw [ih (fun d hd => hl d (List.mem_cons_of_mem _ hd)), snocAll_snocAll, List.flatten_cons]

theorem serBatches_map (m n : Nat) (close : Op) (l : List Term) :
    serBatches m close (l.map (serT n)) = (chunks m l).flatMap (serChunk n close) := by
  simp only [serBatches, chunks_map, List.flatMap_map]
  rfl

theorem hstep_appends (vs : List Term) (ts : Terms) (rest : List Item) :
    stepOp .appends (pushAll vs (.mark :: .tm (.list ts) :: rest)) = some (.tm (.list (snocAll ts vs)) :: rest) := by
  simp [stepOp, popToMark_pushAll]
theorem hstep_setitems (vs : List Term) (ts : Terms) (rest : List Item) :
    stepOp .setitems (pushAll vs (.mark :: .tm (.dict ts) :: rest)) = some (.tm (.dict (snocAll ts vs)) :: rest) := by
  simp [stepOp, popToMark_pushAll]
theorem hstep_additems (vs : List Term) (ts : Terms) (rest : List Item) :
    stepOp .additems (pushAll vs (.mark :: .tm (.set ts) :: rest)) = some (.tm (.set (snocAll ts vs)) :: rest) := by
  simp [stepOp, popToMark_pushAll]

theorem mem_chunks' {α} (n : Nat) (xs : List α) : ∀ b ∈ chunks n xs, ∀ x ∈ b, x ∈ xs := by
  induction h : xs.length using Nat.strongRecOn generalizing xs with
  | _ len ih =>
    intro b hb x hx
    by_cases hs : n = 0 ∨ xs = []
    · rw [chunks_stop _ _ hs] at hb; cases hb
    · have h1 : n ≠ 0 := fun e => hs (Or.inl e)
      have h2 : xs ≠ [] := fun e => hs (Or.inr e)
      rw [chunks_step _ _ h1 h2] at hb
      rcases List.mem_cons.mp hb with rfl | hb'
      · exact List.mem_of_mem_take hx
      · have hpos : 0 < xs.length := List.length_pos_iff.mpr h2
        have hlt : (xs.drop n).length < len := by simp [List.length_drop]; omega
        exact List.mem_of_mem_drop (ih _ hlt (xs.drop n) rfl b hb' x hx)

end Dawn.Env

namespace Dawn.Env

theorem reads_tuple (n : Nat) (l : List Term) (hl : ∀ t ∈ l, Reads n t) : Reads n (.tuple (Terms.ofList l)) := by
  intro rest stack
  simp only [serT, serTs_eq, Terms.toList_ofList, List.length_map]
  match l, hl with
  | [], _ => simp [run, stepOp, Terms.ofList]
  | [a], hl =>
    have := run_elems n [a] hl (Op.tuple1 :: rest) stack
    simp only [List.append_assoc, List.cons_append, List.nil_append, List.length_cons, List.length_nil] at this ⊢
    rw [this]; simp [pushAll, run, stepOp]
  | [a, b], hl =>
    have := run_elems n [a, b] hl (Op.tuple2 :: rest) stack
    simp only [List.append_assoc, List.cons_append, List.nil_append, List.length_cons, List.length_nil] at this ⊢
    rw [this]; simp [pushAll, run, stepOp]
  | [a, b, c], hl =>
    have := run_elems n [a, b, c] hl (Op.tuple3 :: rest) stack
    simp only [List.append_assoc, List.cons_append, List.nil_append, List.length_cons, List.length_nil] at this ⊢
    rw [this]; simp [pushAll, run, stepOp]
  | a :: b :: c :: d :: l', hl =>
    have := run_elems n (a :: b :: c :: d :: l') hl (Op.tuple :: rest) (.mark :: stack)
    simp only [List.append_assoc, List.cons_append, List.nil_append, List.length_cons] at this ⊢
    simp only [run, stepOp]
    rw [this]
    simp [run, stepOp, popToMark_pushAll]

theorem reads_container (m n : Nat) (hm0 : m ≠ 0) (mk : Terms → Term) (open_ close : Op)
    (hopen : ∀ stack, stepOp open_ stack = some (.tm (mk .nil) :: stack))
    (hstep : ∀ vs ts rest, stepOp close (pushAll vs (.mark :: .tm (mk ts) :: rest)) = some (.tm (mk (snocAll ts vs)) :: rest))
    (l : List Term) (hl : ∀ t ∈ l, Reads n t) (rest : List Op) (stack : List Item) :
    run ([open_, .memoize] ++ serBatches m close (l.map (serT n)) ++ rest) stack = run rest (.tm (mk (Terms.ofList l)) :: stack) := by
  have e : [open_, Op.memoize] ++ serBatches m close (l.map (serT n)) ++ rest
      = open_ :: Op.memoize :: (serBatches m close (l.map (serT n)) ++ rest) := by simp
  rw [e, run, hopen]
  simp only []
  rw [run]
  have hm : stepOp Op.memoize (Item.tm (mk Terms.nil) :: stack) = some (Item.tm (mk Terms.nil) :: stack) := rfl
  rw [hm]
  simp only []
  rw [serBatches_map, run_batches n mk close hstep (chunks m l)
    (fun c hc t ht => hl t (mem_chunks' m l c hc t ht)), chunks_flatten m hm0, snocAll_nil]

theorem reads_list (n : Nat) (hn : n ≠ 0) (l : List Term) (hl : ∀ t ∈ l, Reads n t) : Reads n (.list (Terms.ofList l)) := by
  intro rest stack
  simp only [serT, serTs_eq, Terms.toList_ofList]
  match l, hl with
  | [], _ => simp [run, stepOp, Terms.ofList]
  | [a], hl =>
    simp only [List.map_cons, List.map_nil, List.append_assoc, List.cons_append, List.nil_append, run, stepOp]
    rw [hl a (List.mem_cons_self ..)]
    simp [run, stepOp, snocAll, Terms.toList]
  | a :: b :: l', hl =>
    exact reads_container n n hn .list .emptyList .appends (fun _ => rfl) hstep_appends (a :: b :: l') hl rest stack

mutual
theorem reads (n : Nat) (hn : n ≠ 0) : ∀ t : Term, Reads n t
  | .atom a => by
    intro rest stack
    cases a with
    | bool b => cases b <;> simp [serT, encAtom, run, stepOp]
    | _ => simp [serT, encAtom, run, stepOp]
  | .bg id => by intro rest stack; simp [serT, run, stepOp]
  | .tuple ts => by
    have h := reads_tuple n ts.toList (readsAll n hn ts)
    rwa [Terms.ofList_toList] at h
  | .list ts => by
    have h := reads_list n hn ts.toList (readsAll n hn ts)
    rwa [Terms.ofList_toList] at h
  | .dict ts => by
    intro rest stack
    have h := reads_container (2 * n) n (by omega) .dict .emptyDict .setitems (fun _ => rfl) hstep_setitems ts.toList (readsAll n hn ts) rest stack
    rw [Terms.ofList_toList] at h
    simpa only [serT, serTs_eq] using h
  | .set ts => by
    intro rest stack
    have h := reads_container n n hn .set .emptySet .additems (fun _ => rfl) hstep_additems ts.toList (readsAll n hn ts) rest stack
    rw [Terms.ofList_toList] at h
    simpa only [serT, serTs_eq] using h
  | .host name args => by
    intro rest stack
    have h := reads n hn args
    simp only [serT, hostHeader, List.append_assoc, List.cons_append, List.nil_append, run, stepOp]
    rw [h]
    simp [run, stepOp]
theorem readsAll (n : Nat) (hn : n ≠ 0) : ∀ ts : Terms, ∀ t ∈ ts.toList, Reads n t
  | .nil => by intro t ht; simp [Terms.toList] at ht
  | .cons u ts => fun t ht => by
    simp only [Terms.toList, List.mem_cons] at ht
    cases ht with
    | inl h => exact h ▸ reads n hn u
    | inr h => exact readsAll n hn ts t h
end

/-- the opcode stream of a term determines the term -/
theorem serT_injective (n : Nat) (hn : n ≠ 0) (t₁ t₂ : Term) (h : serT n t₁ = serT n t₂) : t₁ = t₂ := by
  have h1 := reads n hn t₁ [] []
  have h2 := reads n hn t₂ [] []
  simp only [List.append_nil] at h1 h2
  rw [h, h2] at h1
  simp [run] at h1
  exact h1.symm

end Dawn.Env

import Dawn.Model.Runner
/-!
# Runner: the structural invariant (group A)

Every shared or ghost variable of a label is a function of that label's program counter; the registry has
no duplicates; slots are conserved. From these follow C04 "at most once", C09 "conserved" and "limit".
-/
namespace Dawn.Runner

def PC.published : PC → Bool
  | .walk _ | .waitDeps _ _ | .unpubCyc => true
  | _ => false

def PC.final : PC → Bool
  | .exit2 | .wgDone | .done => true
  | _ => false

def PC.preLoad : PC → Bool
  | .enter1 | .load => true
  | _ => false

def PC.preEval : PC → Bool
  | .enter1 | .load | .evalStart => true
  | _ => false

/-- program counters that are only reached after `LoadTarget` succeeded -/
def PC.inEval : PC → Bool
  | .evalStart | .exit1 | .startDeps _ | .walk _ | .waitDeps _ _ | .unpubCyc | .enter2 _ | .evalRest _ => true
  | _ => false

def PC.afterRest : PC → Bool
  | .finish _ _ | .exit2 | .wgDone | .done => true
  | _ => false

theorem localOutcome_final (res : Results) (b : Bool) : (localOutcome res b).1.final = true := by
  unfold localOutcome
  cases res with
  | none => rfl
  | some hs =>
    simp only
    split
    · split <;> rfl
    · rfl

def expHolds : Option PC → Bool
  | some p => p.executing
  | none => false

def expWaiting (P : Params) (x : Label) : Option PC → Option (List Label)
  | some p => if p.published then some (P.deps x) else none
  | none => none

def expLoads : Option PC → Nat
  | some p => if p.preLoad then 0 else 1
  | none => 0

def statusOk : Option PC → Status → Prop
  | none, st => st = .idle
  | some p, st => if p.final then st.final = true else st = .running

/-- the goroutine of `x` has not yet called `running.Done()` -/
def alive (s : State) (x : Label) : Bool := decide (s.pc x ≠ some .done)

structure Inv (P : Params) (s : State) : Prop where
  nodup    : s.registry.Nodup
  reg      : ∀ x, x ∈ s.registry ↔ s.pc x ≠ none
  status   : ∀ x, statusOk (s.pc x) (s.status x)
  holds    : ∀ x, s.holds x = expHolds (s.pc x)
  waiting  : ∀ x, s.waiting x = expWaiting P x (s.pc x)
  loads    : ∀ x, s.loads x = expLoads (s.pc x)
  evals    : ∀ x, s.evals x ≤ 1
  evals0   : ∀ x, (∀ p, s.pc x = some p → p.preEval = true) → s.evals x = 0
  known    : ∀ x p, s.pc x = some p → p.inEval = true → P.known x = true
  cyc      : ∀ x, s.cyc x = true → ∃ p, s.pc x = some p ∧ p.afterRest = true
  fin      : ∀ x st e, s.pc x = some (.finish st e) → st.final = true
  slots    : s.capacity + (holders s).length = P.cap
  mainS    : s.main = .start → ∀ x, s.pc x = none
  mainW    : s.main ≠ .start → s.pc P.root ≠ none
  mainD    : ∀ e, s.main = .waitAll e ∨ s.main = .done e → e = s.err P.root ∧ (s.status P.root).final = true
  live     : s.live = (s.registry.filter (alive s)).length
  mainL    : ∀ e, s.main = .done e → s.live = 0

/-! ## counting slot holders -/

theorem filter_upd_true (reg : List Label) (h : Label → Bool) (l : Label)
    (hn : reg.Nodup) (hl : l ∈ reg) (hf : h l = false) :
    (reg.filter (upd h l true)).length = (reg.filter h).length + 1 := by
  induction reg with
  | nil => cases hl
  | cons a t ih =>
    have hn' := List.nodup_cons.mp hn
    by_cases e : a = l
    · subst e
      have : t.filter (upd h a true) = t.filter h := by
        apply List.filter_congr
        intro x hx
        have : x ≠ a := fun c => hn'.1 (c ▸ hx)
        simp [upd, this]
      simp [hf, this]
    · have hl' : l ∈ t := by
        cases hl with
        | head => exact absurd rfl e
        | tail _ h => exact h
      have ih' := ih hn'.2 hl'
      simp only [List.filter_cons, upd, e, if_false]
      split <;> simp_all

theorem filter_upd_false (reg : List Label) (h : Label → Bool) (l : Label)
    (hn : reg.Nodup) (hl : l ∈ reg) (hf : h l = true) :
    (reg.filter (upd h l false)).length + 1 = (reg.filter h).length := by
  induction reg with
  | nil => cases hl
  | cons a t ih =>
    have hn' := List.nodup_cons.mp hn
    by_cases e : a = l
    · subst e
      have : t.filter (upd h a false) = t.filter h := by
        apply List.filter_congr
        intro x hx
        have : x ≠ a := fun c => hn'.1 (c ▸ hx)
        simp [upd, this]
      simp [hf, this]
    · have hl' : l ∈ t := by
        cases hl with
        | head => exact absurd rfl e
        | tail _ h => exact h
      have ih' := ih hn'.2 hl'
      simp only [List.filter_cons, upd, e, if_false]
      split <;> simp_all

theorem filter_holds_cons (reg : List Label) (h : Label → Bool) (d : Label) (hf : h d = false) :
    ((d :: reg).filter h).length = (reg.filter h).length := by
  simp [hf]

/-! ## facts about one label read off the invariant -/

theorem Inv.mem_reg {P : Params} {s : State} (inv : Inv P s) {l : Label} {p : PC} (h : s.pc l = some p) :
    l ∈ s.registry := (inv.reg l).mpr (by rw [h]; simp)

theorem Inv.holds_of {P : Params} {s : State} (inv : Inv P s) {l : Label} {p : PC} (h : s.pc l = some p) :
    s.holds l = p.executing := by have := inv.holds l; rwa [h] at this

theorem Inv.waiting_of {P : Params} {s : State} (inv : Inv P s) {l : Label} {p : PC} (h : s.pc l = some p) :
    s.waiting l = if p.published then some (P.deps l) else none := by have := inv.waiting l; rwa [h] at this

theorem Inv.running_of {P : Params} {s : State} (inv : Inv P s) {l : Label} {p : PC} (h : s.pc l = some p)
    (hf : p.final = false) : s.status l = .running := by
  have := inv.status l; rw [h] at this; simpa [statusOk, hf] using this

theorem Inv.final_of {P : Params} {s : State} (inv : Inv P s) {l : Label} {p : PC} (h : s.pc l = some p)
    (hf : p.final = true) : (s.status l).final = true := by
  have := inv.status l; rw [h] at this; simpa [statusOk, hf] using this

theorem Inv.idle_of {P : Params} {s : State} (inv : Inv P s) {l : Label} (h : s.pc l = none) :
    s.status l = .idle := by have := inv.status l; rwa [h] at this

/-- a label whose status is not idle has a thread -/
theorem Inv.pc_of_not_idle {P : Params} {s : State} (inv : Inv P s) {l : Label} (h : s.status l ≠ .idle) :
    ∃ p, s.pc l = some p := by
  cases hp : s.pc l with
  | none => exact absurd (inv.idle_of hp) h
  | some p => exact ⟨p, rfl⟩

theorem Inv.nonfinal_of_running {P : Params} {s : State} (inv : Inv P s) {l : Label} {p : PC}
    (h : s.pc l = some p) (hr : s.status l = .running) : p.final = false := by
  cases hf : p.final with
  | false => rfl
  | true => have := inv.final_of h hf; rw [hr] at this; cases this

theorem Inv.live_pos {P : Params} {s : State} (inv : Inv P s) {l : Label} {p : PC} (h : s.pc l = some p)
    (hnd : p ≠ .done) : 0 < s.live := by
  rw [inv.live]
  apply List.length_pos_of_mem (a := l)
  simp only [List.mem_filter, alive, decide_eq_true_eq]
  exact ⟨inv.mem_reg h, by rw [h]; simpa using hnd⟩

/-- changing the program counter of a live thread to another live value does not change the count -/
theorem alive_count_frame {s : State} (reg : List Label) (l : Label) (p p' : PC) (hp : s.pc l = some p)
    (hnd : p ≠ .done) (hnd' : p' ≠ .done) :
    (reg.filter fun x => decide (upd s.pc l (some p') x ≠ some .done)).length = (reg.filter (alive s)).length := by
  congr 1
  apply List.filter_congr
  intro x _
  by_cases e : x = l
  · subst e; simp [alive, hp, hnd, hnd']
  · simp [alive, e]

/-! ## preservation: steps that change only thread `l`'s own variables -/

theorem inv_local {P : Params} {s s' : State} (inv : Inv P s) (l : Label) (p p' : PC)
    (hp : s.pc l = some p)
    (hpc : s'.pc = upd s.pc l (some p'))
    (hreg : s'.registry = s.registry)
    (hmain : s'.main = s.main)
    (hstatus : ∀ x, x ≠ l → s'.status x = s.status x) (hstatus_l : statusOk (some p') (s'.status l))
    (hholds : ∀ x, x ≠ l → s'.holds x = s.holds x) (hholds_l : s'.holds l = p'.executing)
    (hwaiting : ∀ x, x ≠ l → s'.waiting x = s.waiting x)
    (hwaiting_l : s'.waiting l = if p'.published then some (P.deps l) else none)
    (hloads : ∀ x, x ≠ l → s'.loads x = s.loads x) (hloads_l : s'.loads l = if p'.preLoad then 0 else 1)
    (hevals : ∀ x, x ≠ l → s'.evals x = s.evals x) (hevals_l : s'.evals l ≤ 1)
    (hevals0 : p'.preEval = true → s'.evals l = 0)
    (hknown : p'.inEval = true → P.known l = true)
    (hcyc : ∀ x, x ≠ l → s'.cyc x = s.cyc x) (hcyc_l : s'.cyc l = true → p'.afterRest = true)
    (hfin : ∀ st e, p' = .finish st e → st.final = true)
    (hslots : s'.capacity + (holders s').length = P.cap)
    (herr : ∀ e, s.main = .waitAll e ∨ s.main = .done e → e = s'.err P.root ∧ (s'.status P.root).final = true)
    (hpnd : p ≠ .done)
    (hlive : s'.live = (s'.registry.filter (alive s')).length) :
    Inv P s' where
  nodup := by rw [hreg]; exact inv.nodup
  reg := by
    intro x
    rw [hreg, hpc]
    by_cases e : x = l
    · subst e; simp [inv.mem_reg hp]
    · simp [e]; exact inv.reg x
  status := by
    intro x
    rw [hpc]
    by_cases e : x = l
    · subst e; simpa using hstatus_l
    · simp [e, hstatus x e]; exact inv.status x
  holds := by
    intro x
    rw [hpc]
    by_cases e : x = l
    · subst e; simpa [expHolds] using hholds_l
    · simp [e, hholds x e]; exact inv.holds x
  waiting := by
    intro x
    rw [hpc]
    by_cases e : x = l
    · subst e; simpa [expWaiting] using hwaiting_l
    · simp [e, hwaiting x e]; exact inv.waiting x
  loads := by
    intro x
    rw [hpc]
    by_cases e : x = l
    · subst e; simpa [expLoads] using hloads_l
    · simp [e, hloads x e]; exact inv.loads x
  evals := by
    intro x
    by_cases e : x = l
    · subst e; exact hevals_l
    · rw [hevals x e]; exact inv.evals x
  evals0 := by
    intro x hx
    rw [hpc] at hx
    by_cases e : x = l
    · subst e; exact hevals0 (hx p' (by simp))
    · rw [hevals x e]; apply inv.evals0 x; intro q hq; exact hx q (by simp [e, hq])
  known := by
    intro x q hq hin
    rw [hpc] at hq
    by_cases e : x = l
    · subst e; simp at hq; subst hq; exact hknown hin
    · simp [e] at hq; exact inv.known x q hq hin
  cyc := by
    intro x hx
    rw [hpc]
    by_cases e : x = l
    · subst e; exact ⟨p', by simp, hcyc_l hx⟩
    · rw [hcyc x e] at hx; simpa [e] using inv.cyc x hx
  fin := by
    intro x st e hq
    rw [hpc] at hq
    by_cases ex : x = l
    · subst ex; simp at hq; exact hfin st e hq
    · simp [ex] at hq; exact inv.fin x st e hq
  slots := hslots
  mainS := by
    intro hm
    rw [hmain] at hm
    have := inv.mainS hm l
    rw [hp] at this; cases this
  mainW := by
    intro hm
    rw [hmain] at hm
    rw [hpc]
    by_cases e : P.root = l
    · simp [e]
    · simp [e]; exact inv.mainW hm
  mainD := by
    intro e he
    rw [hmain] at he
    exact herr e he
  live := hlive
  mainL := by
    intro e he
    rw [hmain] at he
    have h0 := inv.mainL e he
    have := inv.live_pos hp hpnd
    omega

theorem holders_upd_true {P : Params} {s : State} (inv : Inv P s) {l : Label} {p : PC} (hp : s.pc l = some p)
    (hx : p.executing = false) :
    (s.registry.filter (upd s.holds l true)).length = (holders s).length + 1 :=
  filter_upd_true _ _ _ inv.nodup (inv.mem_reg hp) (by rw [inv.holds_of hp, hx])

theorem holders_upd_false {P : Params} {s : State} (inv : Inv P s) {l : Label} {p : PC} (hp : s.pc l = some p)
    (hx : p.executing = true) :
    (s.registry.filter (upd s.holds l false)).length + 1 = (holders s).length :=
  filter_upd_false _ _ _ inv.nodup (inv.mem_reg hp) (by rw [inv.holds_of hp, hx])

/-- `getTarget(d).start(r)` keeps the invariant: called by a target thread (`m = s.main`) or by `Run`
    (`m = .wait`, `d = root`) -/
theorem inv_startTarget {P : Params} {s : State} (inv : Inv P s) (d : Label) (m : MainPC)
    (hm : m ≠ .start) (hcase : s.main = m ∨ (s.main = .start ∧ m = .wait ∧ d = P.root))
    (hmnd : ∀ e, m ≠ .done e) :
    Inv P { startTarget s d with main := m } := by
  have hD : ∀ e, m = .waitAll e ∨ m = .done e → s.main = .waitAll e ∨ s.main = .done e := by
    intro e he
    rcases hcase with h | ⟨_, h, _⟩
    · rw [h]; exact he
    · rw [h] at he; rcases he with he | he <;> cases he
  have hL : ∀ e, m = .done e → s.main = .done e := by
    intro e he
    rcases hcase with h | ⟨_, h, _⟩
    · rw [h]; exact he
    · rw [h] at he; cases he
  unfold startTarget
  split
  next hidle =>
    have hpcd : s.pc d = none := by
      cases h : s.pc d with
      | none => rfl
      | some q =>
        have := inv.status d; rw [h] at this
        simp only [statusOk] at this
        split at this <;> simp_all [Status.final]
    have hnotin : d ∉ s.registry := fun c => (inv.reg d).mp c hpcd
    have hhd : s.holds d = false := by have := inv.holds d; rwa [hpcd] at this
    exact {
      nodup := List.nodup_cons.mpr ⟨hnotin, inv.nodup⟩
      reg := by
        intro x
        by_cases e : x = d
        · subst e; simp
        · simp [e]; exact inv.reg x
      status := by
        intro x
        by_cases e : x = d
        · subst e; simp [statusOk, PC.final]
        · simp [e]; exact inv.status x
      holds := by
        intro x
        by_cases e : x = d
        · subst e; simp [expHolds, PC.executing, hhd]
        · simp [e]; exact inv.holds x
      waiting := by
        intro x
        by_cases e : x = d
        · subst e; have := inv.waiting x; rw [hpcd] at this; simp [expWaiting, PC.published] at this ⊢; exact this
        · simp [e]; exact inv.waiting x
      loads := by
        intro x
        by_cases e : x = d
        · subst e; have := inv.loads x; rw [hpcd] at this; simp [expLoads, PC.preLoad] at this ⊢; exact this
        · simp [e]; exact inv.loads x
      evals := inv.evals
      evals0 := by
        intro x hx
        by_cases e : x = d
        · subst e; apply inv.evals0 x; intro q hq; rw [hpcd] at hq; cases hq
        · apply inv.evals0 x; intro q hq; exact hx q (by simp [e, hq])
      known := by
        intro x q hq hin
        by_cases e : x = d
        · subst e; simp at hq; subst hq; cases hin
        · simp [e] at hq; exact inv.known x q hq hin
      cyc := by
        intro x hx
        by_cases e : x = d
        · subst e; have := inv.cyc x hx; rw [hpcd] at this; obtain ⟨_, h, _⟩ := this; cases h
        · simpa [e] using inv.cyc x hx
      fin := by
        intro x st e hq
        by_cases ex : x = d
        · subst ex; simp at hq
        · simp [ex] at hq; exact inv.fin x st e hq
      slots := by
        show s.capacity + ((d :: s.registry).filter fun l => s.holds l).length = P.cap
        rw [filter_holds_cons _ _ _ hhd]; exact inv.slots
      mainS := fun h => absurd h hm
      mainW := by
        intro _
        by_cases e : P.root = d
        · simp [e]
        · simp [e]
          rcases hcase with h | ⟨_, _, h⟩
          · exact inv.mainW (h ▸ hm)
          · exact absurd h.symm e
      mainD := by
        intro e he
        have := inv.mainD e (hD e he)
        by_cases er : P.root = d
        · rw [er] at this; rw [hidle] at this; simp [Status.final] at this
        · simp [er]; exact this
      live := by
        show s.live + 1 = ((d :: s.registry).filter (fun x => decide (upd s.pc d (some .enter1) x ≠ some .done))).length
        have : (s.registry.filter (fun x => decide (upd s.pc d (some .enter1) x ≠ some .done))) = s.registry.filter (alive s) := by
          apply List.filter_congr
          intro x hx
          have : x ≠ d := fun c => hnotin (c ▸ hx)
          simp [alive, this]
        rw [List.filter_cons]
        simp only [upd_same, ne_eq, reduceCtorEq, not_false_eq_true, decide_true, ↓reduceIte, Option.some.injEq,
          List.length_cons, this, inv.live]
      mainL := by
        intro e he
        exact absurd he (hmnd e) }
  next hnidle =>
    exact {
      nodup := inv.nodup, reg := inv.reg, status := inv.status, holds := inv.holds, waiting := inv.waiting,
      loads := inv.loads, evals := inv.evals, evals0 := inv.evals0, known := inv.known, cyc := inv.cyc, fin := inv.fin,
      slots := inv.slots
      mainS := fun h => absurd h hm
      mainW := by
        intro _
        rcases hcase with h | ⟨h, _, hd⟩
        · exact inv.mainW (h ▸ hm)
        · intro hn
          apply hnidle
          rw [hd]; exact inv.idle_of hn
      mainD := fun e he => inv.mainD e (hD e he)
      live := inv.live
      mainL := fun e he => inv.mainL e (hL e he) }

/-- frame conditions of `inv_local` that hold by unfolding -/
macro "frame" : tactic => `(tactic| first
  | rfl
  | (intro x hx; rfl)
  | (intro x hx; simp [upd, hx]; done)
  | (simp [statusOk, PC.final, PC.executing, PC.published, PC.preLoad, PC.preEval, PC.inEval, PC.afterRest]; done))

/-- set up the facts about thread `l` at its current program counter, apply `inv_local`, close what unfolds -/
syntax "local_step" ident ident ident : tactic
macro_rules
  | `(tactic| local_step $inv $l $hp) => `(tactic|
    (have hknown := Inv.known $inv $l _ $hp
     have hev := Inv.evals $inv $l
     have hev0 := Inv.evals0 $inv $l
     have hld := Inv.loads $inv $l
     have hcy := Inv.cyc $inv $l
     have hwt := Inv.waiting_of $inv $hp
     have hho := Inv.holds_of $inv $hp
     have hmd := Inv.mainD $inv
     have hst := Inv.status $inv $l
     have hfi := Inv.fin $inv $l
     rw [$hp:ident] at hld hev0 hcy hst
     simp [statusOk, PC.final, PC.executing, PC.published, expLoads, PC.preLoad, PC.preEval, PC.afterRest, PC.inEval]
       at hknown hev0 hld hcy hwt hho hst
     apply inv_local $inv $l _ _ $hp (hpc := rfl) <;> try frame
     all_goals try (first
       | exact hmd
       | (show _ = (List.filter (fun x => decide (upd _ _ (some _) x ≠ some PC.done)) _).length
          rw [alive_count_frame _ $l _ _ $hp (by simp) (by first | (simp; done) | (split <;> simp))]
          exact Inv.live $inv)
       | (try dsimp only
          simp [*, statusOk, PC.final, PC.executing, PC.published, PC.preLoad, PC.preEval, PC.inEval,
            PC.afterRest]; done))))

theorem inv_step {P : Params} {s s' : State} (inv : Inv P s) (t : Tid) (h : step P s t = some s') : Inv P s' := by
  cases t with
  | main =>
    simp only [step] at h
    cases hm : s.main with
    | start =>
      rw [hm] at h; simp only [stepMain, Option.some.injEq] at h; subst h
      exact inv_startTarget inv P.root .wait (by simp) (Or.inr ⟨hm, rfl, rfl⟩) (by simp)
    | wait =>
      rw [hm] at h; simp only [stepMain] at h
      split at h
      · cases h
      next hnr =>
        injection h with h; subst h
        have hroot : s.pc P.root ≠ none := inv.mainW (by rw [hm]; simp)
        exact {
          nodup := inv.nodup, reg := inv.reg, status := inv.status, holds := inv.holds, waiting := inv.waiting,
          loads := inv.loads, evals := inv.evals, evals0 := inv.evals0, known := inv.known, cyc := inv.cyc, fin := inv.fin,
          slots := inv.slots, live := inv.live
          mainL := by intro e he; cases he
          mainS := by intro h; cases h
          mainW := fun _ => hroot
          mainD := by
            intro e he
            have he : MainPC.waitAll (s.err P.root) = .waitAll e := by
              rcases he with he | he
              · exact he
              · cases he
            injection he with he; subst he
            refine ⟨rfl, ?_⟩
            cases hq : s.pc P.root with
            | none => exact absurd hq hroot
            | some q =>
              cases hf : q.final with
              | true => exact inv.final_of hq hf
              | false => exact absurd (inv.running_of hq hf) hnr }
    | waitAll e =>
      rw [hm] at h; simp only [stepMain] at h
      split at h
      next hl =>
        injection h with h; subst h
        exact {
          nodup := inv.nodup, reg := inv.reg, status := inv.status, holds := inv.holds, waiting := inv.waiting,
          loads := inv.loads, evals := inv.evals, evals0 := inv.evals0, known := inv.known, cyc := inv.cyc,
          fin := inv.fin, slots := inv.slots, live := inv.live
          mainL := fun _ _ => hl
          mainS := by intro h; cases h
          mainW := fun _ => inv.mainW (by rw [hm]; simp)
          mainD := by
            intro e' he
            have he : e = e' := by
              rcases he with he | he
              · cases he
              · injection he
            subst he
            exact inv.mainD e (Or.inl hm) }
      · cases h
    | done e => rw [hm] at h; simp [stepMain] at h
  | tgt l =>
    simp only [step] at h
    cases hp : s.pc l with
    | none => rw [hp] at h; cases h
    | some p =>
      rw [hp] at h; simp only at h
      cases p with
      | enter1 =>
        simp only [stepTgt] at h
        split at h
        · cases h
        next hc =>
          injection h with h; subst h
          local_step inv l hp
          case hslots =>
            show s.capacity - 1 + (s.registry.filter (upd s.holds l true)).length = P.cap
            rw [holders_upd_true inv hp rfl]; have := inv.slots; omega
      | load =>
        simp only [stepTgt, Option.some.injEq] at h; subst h
        local_step inv l hp
        all_goals try (cases hk : P.known l <;> simp_all [statusOk, PC.final, PC.executing, PC.published, PC.preLoad, PC.inEval]; done)
        case hfin =>
          intro st e hq
          cases hk : P.known l <;> simp [hk] at hq
          rw [← hq.1]; rfl
        case hslots => exact inv.slots
      | evalStart =>
        simp only [stepTgt, Option.some.injEq] at h; subst h
        local_step inv l hp
        case hslots => exact inv.slots
      | exit1 =>
        simp only [stepTgt, Option.some.injEq] at h; subst h
        local_step inv l hp
        case hslots =>
          show s.capacity + 1 + (s.registry.filter (upd s.holds l false)).length = P.cap
          have := holders_upd_false inv hp rfl; have := inv.slots; omega
      | startDeps todo =>
        cases todo with
        | nil =>
          simp only [stepTgt, Option.some.injEq] at h; subst h
          local_step inv l hp
          case hslots => exact inv.slots
        | cons d rest =>
          simp only [stepTgt, Option.some.injEq] at h; subst h
          have inv1 := inv_startTarget inv d s.main
            (by intro hm; have := inv.mainS hm l; rw [hp] at this; cases this) (Or.inl rfl)
            (by intro e he; have := inv.mainL e he; have := inv.live_pos hp (by simp); omega)
          have hp1 : (startTarget s d).pc l = some (.startDeps (d :: rest)) := by
            unfold startTarget; split
            · have : l ≠ d := by
                intro c; subst c
                have := inv.running_of hp rfl
                simp_all
              simp [this, hp]
            · exact hp
          have e1 : ({ startTarget s d with main := s.main } : State) = startTarget s d := by
            unfold startTarget; split <;> rfl
          rw [e1] at inv1
          local_step inv1 l hp1
          case hslots => exact inv1.slots
      | walk todo =>
        cases todo with
        | nil =>
          simp only [stepTgt, Option.some.injEq] at h; subst h
          local_step inv l hp
          case hslots => exact inv.slots
        | cons d rest =>
          simp only [stepTgt] at h
          split at h
          · injection h with h; subst h
            local_step inv l hp
            case hslots => exact inv.slots
          · split at h
            · injection h with h; subst h
              local_step inv l hp
              case hslots => exact inv.slots
            · injection h with h; subst h
              local_step inv l hp
              case hslots => exact inv.slots
      | waitDeps todo hs =>
        cases todo with
        | nil =>
          simp only [stepTgt, Option.some.injEq] at h; subst h
          local_step inv l hp
          case hslots => exact inv.slots
        | cons d rest =>
          simp only [stepTgt] at h
          split at h
          · cases h
          · injection h with h; subst h
            local_step inv l hp
            case hslots => exact inv.slots
      | unpubCyc =>
        simp only [stepTgt, Option.some.injEq] at h; subst h
        local_step inv l hp
        case hslots => exact inv.slots
      | enter2 res =>
        simp only [stepTgt] at h
        split at h
        · cases h
        next hc =>
          injection h with h; subst h
          local_step inv l hp
          case hslots =>
            show s.capacity - 1 + (s.registry.filter (upd s.holds l true)).length = P.cap
            rw [holders_upd_true inv hp rfl]; have := inv.slots; omega
      | evalRest res =>
        simp only [stepTgt, Option.some.injEq] at h; subst h
        local_step inv l hp
        case hfin =>
          intro st e hq
          simp at hq
          rw [← hq.1]; exact localOutcome_final _ _
        case hslots => exact inv.slots
      | finish st e =>
        simp only [stepTgt, Option.some.injEq] at h; subst h
        have hrun := inv.running_of hp rfl
        local_step inv l hp
        case herr =>
          intro e' he'
          have := inv.mainD e' he'
          have hne : P.root ≠ l := by intro c; rw [c, hrun] at this; simp [Status.final] at this
          simpa [hne] using this
        case hslots => exact inv.slots
      | exit2 =>
        simp only [stepTgt, Option.some.injEq] at h; subst h
        local_step inv l hp
        case hslots =>
          show s.capacity + 1 + (s.registry.filter (upd s.holds l false)).length = P.cap
          have := holders_upd_false inv hp rfl; have := inv.slots; omega
      | wgDone =>
        simp only [stepTgt, Option.some.injEq] at h; subst h
        local_step inv l hp
        case hslots => exact inv.slots
        case hlive =>
          show s.live - 1 = (s.registry.filter (fun x => decide (upd s.pc l (some PC.done) x ≠ some PC.done))).length
          have e1 : (fun x => decide (upd s.pc l (some PC.done) x ≠ some PC.done)) = upd (alive s) l false := by
            funext x
            by_cases e : x = l
            · subst e; simp
            · simp [alive, e]
          rw [e1]
          have := filter_upd_false s.registry (alive s) l inv.nodup (inv.mem_reg hp) (by simp [alive, hp])
          have := inv.live
          omega
      | done => simp [stepTgt] at h

theorem inv_init (P : Params) : Inv P (init P) where
  nodup := List.nodup_nil
  reg := by intro x; simp [init]
  status := by intro x; simp [init, statusOk]
  holds := by intro x; simp [init, expHolds]
  waiting := by intro x; simp [init, expWaiting]
  loads := by intro x; simp [init, expLoads]
  evals := by intro x; simp [init]
  evals0 := by intro x _; simp [init]
  known := by intro x p h; simp [init] at h
  cyc := by intro x h; simp [init] at h
  fin := by intro x st e h; simp [init] at h
  slots := by simp [init, holders]
  mainS := by intro _ x; simp [init]
  mainW := by intro h; simp [init] at h
  mainD := by intro e h; simp [init] at h
  live := by simp [init]
  mainL := by intro e h; simp [init] at h

theorem Reachable.inv {P : Params} {s : State} (h : Reachable P s) : Inv P s := by
  induction h with
  | init => exact inv_init P
  | step t _ hs ih => exact inv_step ih t hs

end Dawn.Runner

import Dawn.Proofs.RunnerData
/-!
# Runner: the evaluation order (group G)

The ghost list `State.order` records the labels in the order in which their outcome was computed: the failed
`LoadTarget` of an unknown target, the rest of `Evaluate` of a known one. Each label occurs at most once, and a
known target that was not handed the cyclic-dependency error occurs after all of its dependencies — the guarantee
the incremental engine's theorems take as a hypothesis.
-/
namespace Dawn.Runner

/-- `rest` lists labels dependencies-first, given that the labels in `seen` came before: every known label that
    is not exempted by `c` (handed the cycle error) has all its dependencies earlier in the list -/
def DepsFirst (P : Params) (c : Label → Bool) : List Label → List Label → Prop
  | _, [] => True
  | seen, x :: rest =>
    (P.known x = true → c x = false → ∀ y ∈ P.deps x, y ∈ seen) ∧ DepsFirst P c (seen ++ [x]) rest

theorem DepsFirst.snoc {P : Params} {c : Label → Bool} {x : Label} :
    ∀ (ord seen : List Label), DepsFirst P c seen ord →
      (P.known x = true → c x = false → ∀ y ∈ P.deps x, y ∈ seen ++ ord) → DepsFirst P c seen (ord ++ [x]) := by
  intro ord
  induction ord with
  | nil => intro seen _ hx; exact ⟨by simpa using hx, trivial⟩
  | cons a t ih =>
    intro seen h hx
    refine ⟨h.1, ih (seen ++ [a]) h.2 ?_⟩
    intro hk hc y hy
    have := hx hk hc y hy
    simpa [List.append_assoc] using this

/-- `DepsFirst` looks at the exemption only on the members of the list -/
theorem DepsFirst.congr {P : Params} {c c' : Label → Bool} :
    ∀ (ord seen : List Label), (∀ x ∈ ord, c' x = c x) → DepsFirst P c seen ord → DepsFirst P c' seen ord := by
  intro ord
  induction ord with
  | nil => intro _ _ _; trivial
  | cons a t ih =>
    intro seen hc h
    refine ⟨?_, ih (seen ++ [a]) (fun x hx => hc x (List.mem_cons_of_mem _ hx)) h.2⟩
    rw [hc a (by simp)]
    exact h.1

structure InvO (P : Params) (s : State) : Prop where
  nodup : s.order.Nodup
  mem   : ∀ l, l ∈ s.order ↔ ∃ p, s.pc l = some p ∧ p.afterRest = true
  first : DepsFirst P s.cyc [] s.order

/-- steps that leave `order` and `cyc` alone and do not move a thread into or out of the `afterRest` counters -/
theorem invO_frame {P : Params} {s s' : State} (io : InvO P s) (ho : s'.order = s.order) (hc : s'.cyc = s.cyc)
    (hpc : ∀ l, (∃ p, s'.pc l = some p ∧ p.afterRest = true) ↔ (∃ p, s.pc l = some p ∧ p.afterRest = true)) :
    InvO P s' where
  nodup := by rw [ho]; exact io.nodup
  mem := by intro l; rw [ho, hpc l]; exact io.mem l
  first := by rw [ho, hc]; exact io.first

theorem afterRest_upd {s : State} {l : Label} {p p' : PC} (hp : s.pc l = some p) (h : p'.afterRest = p.afterRest) :
    ∀ x, (∃ q, upd s.pc l (some p') x = some q ∧ q.afterRest = true) ↔ (∃ q, s.pc x = some q ∧ q.afterRest = true) := by
  intro x
  by_cases e : x = l
  · subst e
    simp only [upd_same, hp, Option.some.injEq, exists_eq_left']
    rw [h]
  · simp [e]

theorem afterRest_startTarget (s : State) (d : Label) (hidle : s.status d = .idle → s.pc d = none) :
    ∀ x, (∃ q, (startTarget s d).pc x = some q ∧ q.afterRest = true) ↔ (∃ q, s.pc x = some q ∧ q.afterRest = true) := by
  intro x
  unfold startTarget
  split
  next hi =>
    by_cases e : x = d
    · subst e
      simp [hidle hi, PC.afterRest]
    · simp [e]
  · exact Iff.rfl

/-- the step that computes `l`'s outcome: `l` is appended, its exemption flag is `c'l` -/
theorem invO_append {P : Params} {s s' : State} (io : InvO P s) (l : Label) (p p' : PC)
    (hp : s.pc l = some p) (hbefore : p.afterRest = false) (hafter : p'.afterRest = true)
    (ho : s'.order = s.order ++ [l]) (hpc : s'.pc = upd s.pc l (some p'))
    (hc : ∀ x, x ≠ l → s'.cyc x = s.cyc x)
    (hdeps : P.known l = true → s'.cyc l = false → ∀ y ∈ P.deps l, y ∈ s.order) : InvO P s' := by
  have hnot : l ∉ s.order := by
    intro h
    obtain ⟨q, hq, hqa⟩ := (io.mem l).mp h
    rw [hp] at hq; cases hq; rw [hbefore] at hqa; cases hqa
  exact {
    nodup := by
      rw [ho]
      exact List.nodup_append.mpr ⟨io.nodup, by simp, by
        intro a ha b hb
        simp at hb; subst hb
        intro e; subst e; exact hnot ha⟩
    mem := by
      intro x
      rw [ho, hpc]
      by_cases e : x = l
      · subst e; simp [hafter]
      · simp [e]; exact io.mem x
    first := by
      rw [ho]
      apply DepsFirst.snoc
      · apply DepsFirst.congr _ _ _ io.first
        intro x hx
        exact hc x (fun e => hnot (e ▸ hx))
      · simpa using hdeps }

theorem invO_tstep {P : Params} {s s' : State} {l : Label} {p : PC} (inv : Inv P s) (inv2 : Inv2 P s)
    (io : InvO P s) (hp : s.pc l = some p) (h : TStep P s l p s') : InvO P s' := by
  have simple : ∀ (p' : PC) (s'' : State), s''.pc = upd s.pc l (some p') → s''.order = s.order → s''.cyc = s.cyc →
      p'.afterRest = p.afterRest → InvO P s'' := by
    intro p' s'' hpc ho hc ha
    exact invO_frame io ho hc (by rw [hpc]; exact afterRest_upd hp ha)
  cases h with
  | load =>
    cases hk : P.known l with
    | true =>
      refine simple .evalStart _ ?_ ?_ rfl rfl
      · simp
      · simp
    | false =>
      refine invO_append io l _ (.finish .failed .unknown) hp rfl rfl ?_ ?_ (fun _ _ => rfl) ?_
      · simp
      · simp
      · intro h; rw [hk] at h; cases h
  | evalRest res =>
    have hk : P.known l = true := inv.known l _ hp rfl
    have hc0 : s.cyc l = false := by
      cases hc : s.cyc l with
      | false => rfl
      | true =>
        obtain ⟨q, h1, h2⟩ := inv.cyc l hc
        rw [hp] at h1; cases h1; cases h2
    refine invO_append io l _ _ hp rfl rfl rfl rfl (fun x hx => by simp [upd, hx]) ?_
    intro _ hcl y hy
    simp [hc0] at hcl
    cases res with
    | none => cases hcl
    | some hs =>
      -- every dependency has finished, so its outcome was computed earlier
      have hfin := (inv2 l _ hp).2 y hy
      obtain ⟨q, hq⟩ := inv.pc_of_not_idle (l := y) (by intro c; rw [c] at hfin; cases hfin)
      have hqf : q.final = true := by
        cases hf : q.final with
        | true => rfl
        | false => rw [inv.running_of hq hf] at hfin; cases hfin
      apply (io.mem y).mpr
      exact ⟨q, hq, by cases q <;> simp_all [PC.final, PC.afterRest]⟩
  | start d rest =>
    have hidle : s.status d = .idle → s.pc d = none := by
      intro hi
      cases hq : s.pc d with
      | none => rfl
      | some q =>
        have := inv.status d; rw [hq] at this
        simp only [statusOk] at this
        split at this <;> simp_all [Status.final]
    have hord : (startTarget s d).order = s.order := by unfold startTarget; split <;> rfl
    have hcyc : (startTarget s d).cyc = s.cyc := by unfold startTarget; split <;> rfl
    have io1 : InvO P (startTarget s d) := invO_frame io hord hcyc (afterRest_startTarget s d hidle)
    have hp1 : (startTarget s d).pc l = some (.startDeps (d :: rest)) := by
      unfold startTarget; split
      next hi =>
        have : l ≠ d := by intro c; subst c; rw [hidle hi] at hp; cases hp
        simp [this, hp]
      · exact hp
    exact invO_frame io1 rfl rfl (afterRest_upd hp1 rfl)
  | enter1 hc => exact simple _ _ rfl rfl rfl rfl
  | evalStart => exact simple _ _ rfl rfl rfl rfl
  | exit1 => exact simple _ _ rfl rfl rfl rfl
  | publish => exact simple _ _ rfl rfl rfl rfl
  | found rest => exact simple _ _ rfl rfl rfl rfl
  | readPub d rest ds hd hw => exact simple _ _ rfl rfl rfl rfl
  | readNil d rest hd hw => exact simple _ _ rfl rfl rfl rfl
  | walked => exact simple _ _ rfl rfl rfl rfl
  | waited d rest hs hr => exact simple _ _ rfl rfl rfl rfl
  | unpub hs => exact simple _ _ rfl rfl rfl rfl
  | unpubCyc => exact simple _ _ rfl rfl rfl rfl
  | enter2 res hc => exact simple _ _ rfl rfl rfl rfl
  | finish st e => exact simple _ _ rfl rfl rfl rfl
  | exit2 => exact simple _ _ rfl rfl rfl rfl
  | wgDone => exact simple _ _ rfl rfl rfl rfl

theorem invO_mstep {P : Params} {s s' : State} (inv : Inv P s) (io : InvO P s) (h : MStep P s s') : InvO P s' := by
  cases h with
  | start hm =>
    have hidle : s.status P.root = .idle → s.pc P.root = none := fun _ => inv.mainS hm P.root
    have hord : (startTarget s P.root).order = s.order := by unfold startTarget; split <;> rfl
    have hcyc : (startTarget s P.root).cyc = s.cyc := by unfold startTarget; split <;> rfl
    exact invO_frame io hord hcyc (afterRest_startTarget s P.root hidle)
  | wait hm hr => exact invO_frame io rfl rfl (fun _ => Iff.rfl)
  | waitAll e hm hl => exact invO_frame io rfl rfl (fun _ => Iff.rfl)

theorem invO_init (P : Params) : InvO P (init P) where
  nodup := by simp [init]
  mem := by intro l; simp [init]
  first := trivial

theorem Reachable.invO {P : Params} {s : State} (h : Reachable P s) : InvO P s := by
  induction h with
  | init => exact invO_init P
  | step t hr hs ih =>
    rcases step_cases hs with ⟨_, hm⟩ | ⟨l, p, _, hp, ht⟩
    · exact invO_mstep hr.inv ih hm
    · exact invO_tstep hr.inv hr.inv2 ih hp ht

end Dawn.Runner

import Dawn.Proofs.Build
/-!
# Builds read only files and the (semantic) records of the labels they visit

Two persisted states with the same project files that agree — up to "missing ≡ empty" — on the records of a set of
labels `L` are indistinguishable for any build whose defined labels lie in `L`: same decisions, same events, same
executions, and the resulting states agree again. Temporaries, the index and the records of other labels are never read.
This is what makes garbage collection transparent (C14), the torn index harmless (C03), and a dry run inconsequential (C13).
-/
namespace Dawn.Build

structure Agree (L : List Label) (w w' : World) : Prop where
  files : w'.files = w.files
  recs : ∀ l ∈ L, semRec (w'.recs l) = semRec (w.recs l)

structure Sim (L : List Label) (s s' : BSt) : Prop where
  memo : s'.memo = s.memo
  evs : s'.evs = s.evs
  execs : s'.execs = s.execs
  steps : s'.steps = s.steps
  agree : Agree L s.w s'.w

theorem agree_step {L : List Label} {w w' : World} (h : Agree L w w') (st : Step) : Agree L (st.apply w) (st.apply w') := by
  unfold Step.apply
  cases st.eff with
  | none => exact h
  | some e =>
    cases e with
    | tempCreate => exact ⟨h.files, h.recs⟩
    | tempWrite => exact h
    | tempRename l r =>
      refine ⟨h.files, ?_⟩
      intro x hx
      simp only [Eff.apply]
      by_cases e : x = l
      · subst e; simp
      · simp only [upd, e, if_false]; exact h.recs x hx
    | genWrite g c => exact ⟨by simp [Eff.apply, h.files], h.recs⟩
    | indexCreate => exact ⟨h.files, h.recs⟩
    | indexEncode ls => exact ⟨h.files, h.recs⟩

theorem agree_applySteps {L : List Label} {w w' : World} (h : Agree L w w') (ss : List Step) :
    Agree L (applySteps w ss) (applySteps w' ss) := by
  induction ss generalizing w w' with
  | nil => exact h
  | cons st rest ih => exact ih (agree_step h st)

theorem loadedInfo_congr {w w' : World} {l : Label} (d : Def) (h : semRec (w'.recs l) = semRec (w.recs l)) :
    loadedInfo w' l d = loadedInfo w l d := by
  unfold loadedInfo
  unfold semRec at h
  rw [h]

theorem upToDate_congr (P : Params) {w w' : World} (d : Def) (info : Rec) (h : w'.files = w.files) :
    upToDate P w' d info = upToDate P w d info := by
  unfold upToDate; rw [h]

theorem plan_congr (P : Params) (t : Tree) (o : Opts) {s s' : BSt} (l : Label) (d : Def)
    (hm : s'.memo = s.memo) (hf : s'.w.files = s.w.files) (hr : semRec (s'.w.recs l) = semRec (s.w.recs l)) :
    plan P t o s' l d = plan P t o s l d := by
  unfold plan memoData
  simp only [hm, loadedInfo_congr d hr, upToDate_congr P d _ hf]

theorem observe_congr (t : Tree) {w w' : World} (x : Label) (h : w'.files = w.files) : observe t w' x = observe t w x := by
  unfold observe; rw [h]

theorem execSteps_congr (P : Params) (t : Tree) (o : Opts) {w w' : World} (l : Label) (d : Def) (info : Rec)
    (dd : List (Label × Stamp)) (h : w'.files = w.files) :
    execSteps P t o w' l d info dd = execSteps P t o w l d info dd := by
  unfold execSteps bodyWrites
  simp only [h, observe_congr t _ h]

theorem visit_sim {P : Params} {t : Tree} {o : Opts} {L : List Label} {s s' : BSt} (l : Label)
    (hL : (t.defs l).isSome → l ∈ L) (h : Sim L s s') : Sim L (visit P t o s l) (visit P t o s' l) := by
  unfold visit
  cases hd : t.defs l with
  | none => exact ⟨by simp [h.memo], h.evs, h.execs, h.steps, h.agree⟩
  | some d =>
    have hl : l ∈ L := hL (by simp [hd])
    simp only
    rw [plan_congr P t o l d h.memo h.agree.files (h.agree.recs l hl)]
    cases hp : plan P t o s l d with
    | depFailed r => exact ⟨by simp [h.memo], by simp [h.evs], h.execs, h.steps, h.agree⟩
    | skip info => exact ⟨by simp [h.memo], by simp [h.evs], h.execs, h.steps, h.agree⟩
    | dry info => exact ⟨by simp [h.memo], by simp [h.evs], h.execs, h.steps, h.agree⟩
    | run info dd =>
      simp only
      rw [execSteps_congr P t o l d info dd h.agree.files]
      exact ⟨by simp [h.memo], by simp [h.evs], by simp [h.execs], by simp [h.steps], agree_applySteps h.agree _⟩

theorem build_sim {P : Params} {t : Tree} {o : Opts} {L : List Label} (ord : List Label)
    (hL : ∀ l ∈ ord, (t.defs l).isSome → l ∈ L) :
    ∀ {s s' : BSt}, Sim L s s' → Sim L (build P t o s ord) (build P t o s' ord) := by
  induction ord with
  | nil => intro s s' h; exact h
  | cons l rest ih =>
    intro s s' h
    exact ih (fun x hx => hL x (List.mem_cons_of_mem _ hx)) (visit_sim l (hL l List.mem_cons_self) h)

/-- the load keeps the agreement (it rewrites each record with what it read) -/
theorem agree_load {L : List Label} {w w' : World} (t : Tree) (h : Agree L w w') : Agree L (load t w) (load t w') := by
  refine ⟨by rw [(load_sem t w' 0).2.1, (load_sem t w 0).2.1, h.files], ?_⟩
  intro l hl
  rw [(load_sem t w' l).1, (load_sem t w l).1]
  exact h.recs l hl

/-- builds of the same tree from agreeing states: same events, same executions, same result, agreeing states -/
theorem runBuild_sim {P : Params} {t : Tree} {o : Opts} {L : List Label} (ord : List Label)
    (hL : ∀ l ∈ ord, (t.defs l).isSome → l ∈ L) {w w' : World} (h : Agree L w w') :
    Sim L (runBuild P t o ord w) (runBuild P t o ord w') := by
  unfold runBuild
  exact build_sim ord hL ⟨rfl, rfl, rfl, rfl, agree_load t h⟩

/-- collection leaves the live labels' records (semantically) and every project file as they were -/
theorem agree_gc (t : Tree) (pi : Bool) (w : World) : Agree (gcLive t pi w) w (gc t pi w) := by
  unfold gc gcLive
  refine ⟨by simp [sweep, (load_sem t w 0).2.1], ?_⟩
  intro l hl
  rw [sweep_recs_live _ _ l hl, (load_sem t w l).1]

theorem agree_mono {L L' : List Label} {w w' : World} (h : Agree L w w') (hs : ∀ l ∈ L', l ∈ L) : Agree L' w w' :=
  ⟨h.files, fun l hl => h.recs l (hs l hl)⟩

end Dawn.Build

import Dawn.Proofs.RunnerWalk
import Dawn.Proofs.RunnerInv
import Dawn.Proofs.RunnerStep
import Dawn.Proofs.RunnerData
/-!
# Runner: deadlock freedom (C05)

1. Refinement: `proj` maps a runner state onto the abstract publish-then-walk system of
   `Dawn/Proofs/RunnerWalk.lean`; every runner step is a stutter or an abstract step (`proj_step`), hence
   the abstract invariant holds in every reachable state (`Reachable.rinv`).
2. A state in which no thread can step: a slot holder can always step (`holder_can_step`), so slots are free
   and nobody is blocked at the gate; every thread that is not `done` waits for a running dependency, which is
   again such a thread. Following these dependencies inside the finite registry gives a cycle of waiting threads
   (pigeonhole), which `Walk.no_blocked_cycle_iter` excludes. So all threads are `done` and `Run` has returned
   (`stuck_all_done`), i.e. a state where `Run` has not returned has an enabled step (`deadlock_free`).
-/
namespace Dawn.Runner

/-! ## the refinement mapping -/

/-- phase of the publish-then-walk protocol a thread is in -/
def cls : Option PC → Walk.PC
  | some (.walk t) => .walking t
  | some (.waitDeps _ _) => .blocked
  | some .unpubCyc => .found
  | some (.enter2 _) => .past
  | some (.evalRest _) => .past
  | some (.finish _ _) => .past
  | some .exit2 => .past
  | some .wgDone => .past
  | some .done => .past
  | _ => .init

def proj (s : State) : Walk.St where
  pc := fun l => cls (s.pc l)
  pub := fun l => (s.waiting l).isSome
  ptime := s.ptime
  clock := s.clock
  seen := s.seen
  expd := s.expd

theorem cls_upd (pc : Label → Option PC) (l : Label) (q : Option PC) :
    (fun x => cls (upd pc l q x)) = upd (fun x => cls (pc x)) l (cls q) := by
  funext x; by_cases e : x = l <;> simp [upd, e]

theorem isSome_upd (w : Label → Option (List Label)) (l : Label) (v : Option (List Label)) :
    (fun x => (upd w l v x).isSome) = upd (fun x => (w x).isSome) l v.isSome := by
  funext x; by_cases e : x = l <;> simp [upd, e]

/-- a step is invisible when it changes neither a protocol phase nor a protocol variable -/
theorem proj_congr {s s' : State} (hpc : ∀ x, cls (s'.pc x) = cls (s.pc x))
    (hw : ∀ x, (s'.waiting x).isSome = (s.waiting x).isSome)
    (hpt : s'.ptime = s.ptime) (hc : s'.clock = s.clock) (hs : s'.seen = s.seen) (he : s'.expd = s.expd) :
    proj s' = proj s := by
  unfold proj
  rw [hpt, hc, hs, he, funext hpc, funext hw]

theorem cls_upd_same {s : State} {l : Label} {q : Option PC} (hc : cls q = cls (s.pc l)) :
    ∀ x, cls (upd s.pc l q x) = cls (s.pc x) := by
  intro x
  by_cases e : x = l
  · subst e; simp [hc]
  · simp [e]

/-- an idle target has no thread -/
theorem Inv.pc_none_of_idle {P : Params} {s : State} (inv : Inv P s) {d : Label} (hidle : s.status d = .idle) :
    s.pc d = none := by
  cases h : s.pc d with
  | none => rfl
  | some q =>
    have := inv.status d; rw [h] at this
    simp only [statusOk] at this
    split at this <;> simp_all [Status.final]

/-- the set a walker reads is the published one -/
theorem Inv.waiting_eq_deps {P : Params} {s : State} (inv : Inv P s) {d : Label} {ds : List Label}
    (hw : s.waiting d = some ds) : ds = P.deps d := by
  have := inv.waiting d
  rw [hw] at this
  cases hq : s.pc d with
  | none => rw [hq] at this; simp [expWaiting] at this
  | some q =>
    rw [hq] at this
    simp only [expWaiting] at this
    split at this
    · injection this
    · cases this

theorem proj_startTarget {P : Params} {s : State} (inv : Inv P s) (d : Label) :
    proj (startTarget s d) = proj s := by
  unfold startTarget
  split
  next hidle =>
    have hpcd : s.pc d = none := inv.pc_none_of_idle hidle
    exact proj_congr (cls_upd_same (by rw [hpcd]; rfl)) (fun _ => rfl) rfl rfl rfl rfl
  next => rfl

/-- stutter of thread `l` staying in the same protocol phase, changing only gate, status or counting variables -/
macro "stutter" hp:ident : tactic =>
  `(tactic| exact Or.inl (proj_congr (cls_upd_same (by rw [$hp:ident]; rfl)) (fun _ => rfl) rfl rfl rfl rfl))

/-- an abstract step: unfold the projection of the successor state -/
macro "abstract_step" st:term : tactic =>
  `(tactic| (right
             have this := $st
             simp only [proj, cls_upd, isSome_upd] at this ⊢
             exact this))

theorem proj_tstep {P : Params} {s s' : State} {l : Label} {p : PC} (inv : Inv P s)
    (hp : s.pc l = some p) (h : TStep P s l p s') :
    proj s' = proj s ∨ Walk.Step P.deps (proj s) (proj s') := by
  have hcl : (proj s).pc l = cls (some p) := by simp [proj, hp]
  cases h with
  | enter1 hc => stutter hp
  | load =>
    cases hk : P.known l with
    | true => simp only [if_true]; stutter hp
    | false =>
      simp only [Bool.false_eq_true, if_false]
      abstract_step (Walk.Step.skip (deps := P.deps) (proj s) l hcl)
  | evalStart => stutter hp
  | exit1 => stutter hp
  | start d rest =>
    left
    have h1 := proj_startTarget inv d
    have hl1 : cls ((startTarget s d).pc l) = cls (s.pc l) := congrFun (congrArg Walk.St.pc h1) l
    rw [← h1]
    exact proj_congr (cls_upd_same (by rw [hl1, hp]; rfl)) (fun _ => rfl) rfl rfl rfl rfl
  | publish => abstract_step (Walk.Step.publish (deps := P.deps) (proj s) l hcl)
  | found rest => abstract_step (Walk.Step.found (deps := P.deps) (proj s) l rest hcl)
  | readPub d rest ds hd hw =>
    have hds := inv.waiting_eq_deps hw
    subst hds
    abstract_step (Walk.Step.readPub (deps := P.deps) (proj s) l d rest hcl hd (by simp [proj, hw]))
  | readNil d rest hd hw =>
    abstract_step (Walk.Step.readUnpub (deps := P.deps) (proj s) l d rest hcl hd (by simp [proj, hw]))
  | walked => abstract_step (Walk.Step.walkDone (deps := P.deps) (proj s) l hcl)
  | waited d rest hs hr => stutter hp
  | unpub hs => abstract_step (Walk.Step.unpub (deps := P.deps) (proj s) l (Or.inl hcl))
  | unpubCyc => abstract_step (Walk.Step.unpub (deps := P.deps) (proj s) l (Or.inr hcl))
  | enter2 res hc => stutter hp
  | evalRest res => stutter hp
  | finish st e => stutter hp
  | exit2 => stutter hp
  | wgDone => stutter hp

theorem proj_mstep {P : Params} {s s' : State} (inv : Inv P s) (h : MStep P s s') : proj s' = proj s := by
  cases h with
  | start hm => exact proj_startTarget inv P.root
  | wait hm hr => rfl
  | waitAll e hm hl => rfl

/-- every step of the runner is invisible or a step of the publish-then-walk protocol -/
theorem proj_step {P : Params} {s s' : State} {t : Tid} (inv : Inv P s) (h : step P s t = some s') :
    proj s' = proj s ∨ Walk.Step P.deps (proj s) (proj s') := by
  rcases step_cases h with ⟨_, hm⟩ | ⟨l, p, _, hp, ht⟩
  · exact Or.inl (proj_mstep inv hm)
  · exact proj_tstep inv hp ht

/-- the invariant of the publish-then-walk protocol holds in every reachable state of the runner -/
theorem Reachable.rinv {P : Params} {s : State} (h : Reachable P s) : Walk.RInv P.deps (proj s) := by
  induction h with
  | init => exact Walk.inv_init _ (fun _ => rfl) (fun _ => rfl)
  | step t hr hs ih =>
    rcases proj_step hr.inv hs with e | st
    · rw [e]; exact ih
    · exact Walk.inv_step ih st

/-! ## which threads can step -/

/-- the only blocking points: the gate when no slot is free, `wait()` on a running target, and the end -/
theorem stepTgt_none {P : Params} {s : State} {l : Label} {p : PC} (h : stepTgt P s l p = none) :
    (s.capacity = 0 ∧ (p = .enter1 ∨ ∃ res, p = .enter2 res)) ∨
    (∃ d rest hs, p = .waitDeps (d :: rest) hs ∧ s.status d = .running) ∨ p = .done := by
  cases p with
  | enter1 =>
    simp only [stepTgt] at h
    split at h
    next hc => exact Or.inl ⟨hc, Or.inl rfl⟩
    · cases h
  | load => simp [stepTgt] at h
  | evalStart => simp [stepTgt] at h
  | exit1 => simp [stepTgt] at h
  | startDeps todo => cases todo <;> simp [stepTgt] at h
  | walk todo =>
    cases todo with
    | nil => simp [stepTgt] at h
    | cons d rest =>
      simp only [stepTgt] at h
      split at h
      · cases h
      · split at h <;> cases h
  | waitDeps todo hs =>
    cases todo with
    | nil => simp [stepTgt] at h
    | cons d rest =>
      simp only [stepTgt] at h
      split at h
      next hr => exact Or.inr (Or.inl ⟨d, rest, hs, rfl, hr⟩)
      · cases h
  | unpubCyc => simp [stepTgt] at h
  | enter2 res =>
    simp only [stepTgt] at h
    split at h
    next hc => exact Or.inl ⟨hc, Or.inr ⟨res, rfl⟩⟩
    · cases h
  | evalRest res => simp [stepTgt] at h
  | finish st e => simp [stepTgt] at h
  | exit2 => simp [stepTgt] at h
  | wgDone => simp [stepTgt] at h
  | done => exact Or.inr (Or.inr rfl)

theorem step_tgt_eq {P : Params} {s : State} {l : Label} {p : PC} (hp : s.pc l = some p) :
    step P s (.tgt l) = stepTgt P s l p := by
  simp only [step, hp]

/-- a thread between `gate.enter` and `gate.exit` is never blocked -/
theorem executing_can_step {P : Params} {s : State} {l : Label} {p : PC} (hp : s.pc l = some p)
    (hx : p.executing = true) : ∃ s', step P s (.tgt l) = some s' := by
  rw [step_tgt_eq hp]
  cases hs : stepTgt P s l p with
  | some s' => exact ⟨s', rfl⟩
  | none =>
    rcases stepTgt_none hs with ⟨_, h | ⟨res, h⟩⟩ | ⟨d, rest, hs', h, _⟩ | h <;> subst h <;> cases hx

/-- a slot holder is never blocked -/
theorem holder_can_step {P : Params} {s : State} (inv : Inv P s) {l : Label} (hh : s.holds l = true) :
    ∃ s', step P s (.tgt l) = some s' := by
  have := inv.holds l
  rw [hh] at this
  cases hp : s.pc l with
  | none => rw [hp] at this; cases this
  | some p => rw [hp] at this; exact executing_can_step hp this.symm

/-- when no slot is free somebody holds one -/
theorem exists_holder {P : Params} (hcap : 1 ≤ P.cap) {s : State} (inv : Inv P s) (hc : s.capacity = 0) :
    ∃ l, s.holds l = true := by
  have hs := inv.slots
  cases hh : holders s with
  | nil => rw [hh, hc] at hs; simp at hs; omega
  | cons l t =>
    have : l ∈ holders s := by rw [hh]; exact List.mem_cons_self
    unfold holders at this
    exact ⟨l, (List.mem_filter.mp this).2⟩

/-- if no thread can step, a slot is free -/
theorem capacity_ne_zero_of_stuck {P : Params} (hcap : 1 ≤ P.cap) {s : State} (inv : Inv P s)
    (hstuck : ∀ t, step P s t = none) : s.capacity ≠ 0 := by
  intro hc
  obtain ⟨l, hl⟩ := exists_holder hcap inv hc
  obtain ⟨s', hs'⟩ := holder_can_step inv hl
  rw [hstuck] at hs'; cases hs'

/-! ## the stuck-state argument -/

/-- `x` waits for a running dependency -/
def Stuck (s : State) (x : Label) : Prop :=
  ∃ d rest hs, s.pc x = some (.waitDeps (d :: rest) hs) ∧ s.status d = .running

/-- the dependency `x` waits for (`x` itself when it is not waiting) -/
def nxt (s : State) (x : Label) : Label :=
  match s.pc x with
  | some (.waitDeps (d :: _) _) => d
  | _ => x

theorem nxt_of {s : State} {x d : Label} {rest : List Label} {hs : List Err}
    (h : s.pc x = some (.waitDeps (d :: rest) hs)) : nxt s x = d := by
  simp [nxt, h]

theorem Stuck.blocked {s : State} {x : Label} (h : Stuck s x) : (proj s).pc x = .blocked := by
  obtain ⟨d, rest, hs, hp, _⟩ := h
  simp [proj, hp, cls]

/-- if no thread can step, every thread is at its end or waits for a running dependency -/
theorem done_or_stuck {P : Params} {s : State} (hstuck : ∀ t, step P s t = none) (hc : s.capacity ≠ 0)
    {x : Label} {p : PC} (hp : s.pc x = some p) : p = .done ∨ Stuck s x := by
  have := hstuck (.tgt x)
  rw [step_tgt_eq hp] at this
  rcases stepTgt_none this with ⟨h0, _⟩ | ⟨d, rest, hs, h, hr⟩ | h
  · exact absurd h0 hc
  · subst h; exact Or.inr ⟨d, rest, hs, hp, hr⟩
  · exact Or.inl h

/-- … and the dependency it waits for is such a thread again -/
theorem Stuck.next {P : Params} {s : State} (inv : Inv P s) (inv2 : Inv2 P s)
    (hstuck : ∀ t, step P s t = none) (hc : s.capacity ≠ 0) {x : Label} (hx : Stuck s x) :
    nxt s x ∈ P.deps x ∧ Stuck s (nxt s x) := by
  obtain ⟨d, rest, hs, hp, hr⟩ := hx
  rw [nxt_of hp]
  constructor
  · obtain ⟨pre, h1, _⟩ := inv2 x _ hp
    rw [h1]; simp
  · obtain ⟨q, hq⟩ := inv.pc_of_not_idle (l := d) (by rw [hr]; intro c; cases c)
    rcases done_or_stuck hstuck hc hq with h | h
    · subst h
      have := inv.nonfinal_of_running hq hr
      cases this
    · exact h

/-- `n + 1` pairwise different values in a list: the list has at least `n + 1` elements -/
theorem inj_le_length : ∀ (n : Nat) (g : Nat → Label) (ys : List Label),
    (∀ t, t ≤ n → g t ∈ ys) → (∀ i j, i < j → j ≤ n → g i ≠ g j) → n + 1 ≤ ys.length := by
  intro n
  induction n with
  | zero =>
    intro g ys hm _
    have := List.length_pos_of_mem (hm 0 (Nat.le_refl 0))
    omega
  | succ n ih =>
    intro g ys hm hinj
    have hlast : g (n + 1) ∈ ys := hm (n + 1) (Nat.le_refl _)
    have h1 := ih g (ys.erase (g (n + 1)))
      (fun t ht => (List.mem_erase_of_ne (hinj t (n + 1) (by omega) (Nat.le_refl _))).mpr (hm t (by omega)))
      (fun i j hij hj => hinj i j hij (by omega))
    rw [List.length_erase_of_mem hlast] at h1
    have := List.length_pos_of_mem hlast
    omega

/-- pigeonhole: a sequence inside a finite list repeats -/
theorem pigeonhole (g : Nat → Label) (ys : List Label) (h : ∀ t, g t ∈ ys) : ∃ i j, i < j ∧ g i = g j := by
  by_cases hex : ∃ i j, i < j ∧ g i = g j
  · exact hex
  · exfalso
    have := inj_le_length ys.length g ys (fun t _ => h t) (fun i j hij _ e => hex ⟨i, j, hij, e⟩)
    omega

theorem exists_max (g : Nat → Nat) (m : Nat) : ∃ k, k ≤ m ∧ ∀ t, t ≤ m → g t ≤ g k := by
  induction m with
  | zero =>
    refine ⟨0, Nat.le_refl 0, ?_⟩
    intro t ht
    have : t = 0 := by omega
    subst this; exact Nat.le_refl _
  | succ m ih =>
    obtain ⟨k, hk, hmax⟩ := ih
    by_cases hle : g k ≤ g (m + 1)
    · refine ⟨m + 1, Nat.le_refl _, ?_⟩
      intro t ht
      by_cases e : t = m + 1
      · subst e; exact Nat.le_refl _
      · exact Nat.le_trans (hmax t (by omega)) hle
    · refine ⟨k, by omega, ?_⟩
      intro t ht
      by_cases e : t = m + 1
      · subst e; omega
      · exact hmax t (by omega)

/-- on a cycle of length `m + 1` every iterate is one of the first `m + 1` -/
theorem orbit_small (f : Label → Label) (c : Label) (m : Nat) (hc : Walk.iter f (m + 1) c = c) :
    ∀ n, ∃ t, t ≤ m ∧ Walk.iter f n c = Walk.iter f t c := by
  intro n
  induction n with
  | zero => exact ⟨0, Nat.zero_le _, rfl⟩
  | succ n ih =>
    obtain ⟨t, ht, e⟩ := ih
    by_cases hlt : t < m
    · exact ⟨t + 1, hlt, by rw [Walk.iter_succ, Walk.iter_succ, e]⟩
    · have : t = m := by omega
      subst this
      refine ⟨0, Nat.zero_le _, ?_⟩
      show f (Walk.iter f n c) = c
      rw [e]; exact hc

/-- if no thread can step, no thread waits for a running dependency: its dependencies would lead to a cycle
    of waiting threads -/
theorem no_stuck {P : Params} (hcap : 1 ≤ P.cap) {s : State} (hr : Reachable P s)
    (hstuck : ∀ t, step P s t = none) (x : Label) : ¬ Stuck s x := by
  intro hx
  have inv := hr.inv
  have inv2 := hr.inv2
  have hc := capacity_ne_zero_of_stuck hcap inv hstuck
  let f := nxt s
  have hnext : ∀ y, Stuck s y → f y ∈ P.deps y ∧ Stuck s (f y) := fun y hy => hy.next inv inv2 hstuck hc
  -- the orbit of `x` stays inside the registry
  have hS : ∀ t, Stuck s (Walk.iter f t x) := by
    intro t
    induction t with
    | zero => exact hx
    | succ t ih => exact (hnext _ ih).2
  have hreg : ∀ t, Walk.iter f t x ∈ s.registry := by
    intro t
    obtain ⟨d, rest, hs, hp, _⟩ := hS t
    exact inv.mem_reg hp
  -- so it runs into a cycle, starting at `c`, of length `m + 1`
  obtain ⟨i, j, hij, heq⟩ := pigeonhole (fun t => Walk.iter f t x) s.registry hreg
  let c := Walk.iter f i x
  obtain ⟨m, hm⟩ : ∃ m, j = (m + 1) + i := ⟨j - i - 1, by omega⟩
  have hcyc : Walk.iter f (m + 1) c = c := by
    show Walk.iter f (m + 1) (Walk.iter f i x) = Walk.iter f i x
    rw [← Walk.iter_add, ← hm]; exact heq.symm
  have hSc : ∀ t, Stuck s (Walk.iter f t c) := by
    intro t
    show Stuck s (Walk.iter f t (Walk.iter f i x))
    rw [← Walk.iter_add]; exact hS _
  -- rotate the cycle to its latest publisher `r`
  obtain ⟨k, _, hmax⟩ := exists_max (fun t => s.ptime (Walk.iter f t c)) m
  let r := Walk.iter f k c
  have hrt : ∀ t, Walk.iter f t r = Walk.iter f (t + k) c := fun t => (Walk.iter_add f t k c).symm
  have hcycr : Walk.iter f (m + 1) r = r := by
    show Walk.iter f (m + 1) (Walk.iter f k c) = Walk.iter f k c
    rw [← Walk.iter_add, Nat.add_comm, Walk.iter_add, hcyc]
  have hSr : ∀ t, Stuck s (Walk.iter f t r) := by
    intro t; rw [hrt]; exact hSc _
  have hmaxr : ∀ t, s.ptime (Walk.iter f t r) ≤ s.ptime r := by
    intro t
    obtain ⟨t', ht', e⟩ := orbit_small f c m hcyc (t + k)
    rw [hrt, e]
    exact hmax t' ht'
  exact Walk.no_blocked_cycle_iter hr.rinv f r m
    (fun t => (hSr t).blocked)
    (fun t => (hnext _ (hSr t)).1)
    hmaxr hcycr

/-- A state in which no thread can step is a final state: `Run` has returned and every target thread has
    finished. -/
theorem stuck_all_done {P : Params} (hcap : 1 ≤ P.cap) {s : State} (hr : Reachable P s)
    (hstuck : ∀ t, step P s t = none) : s.isDone = true ∧ ∀ l p, s.pc l = some p → p = .done := by
  have inv := hr.inv
  have hc := capacity_ne_zero_of_stuck hcap inv hstuck
  have hall : ∀ l p, s.pc l = some p → p = .done := by
    intro l p hp
    rcases done_or_stuck hstuck hc hp with h | h
    · exact h
    · exact absurd h (no_stuck hcap hr hstuck l)
  refine ⟨?_, hall⟩
  have hmain := hstuck .main
  simp only [step] at hmain
  cases hm : s.main with
  | start => rw [hm] at hmain; simp [stepMain] at hmain
  | wait =>
    exfalso
    rw [hm] at hmain
    have hroot : s.pc P.root ≠ none := inv.mainW (by rw [hm]; intro c; cases c)
    cases hq : s.pc P.root with
    | none => exact hroot hq
    | some q =>
      have hqd := hall _ _ hq
      subst hqd
      have hfin := inv.final_of hq rfl
      have hnr : s.status P.root ≠ .running := by intro c; rw [c] at hfin; cases hfin
      simp [stepMain, hnr] at hmain
  | waitAll e =>
    exfalso
    rw [hm] at hmain
    have hlive : s.live = 0 := by
      rw [inv.live, List.length_eq_zero_iff, List.filter_eq_nil_iff]
      intro l hl
      have hne := (inv.reg l).mp hl
      cases hq : s.pc l with
      | none => exact absurd hq hne
      | some q => have := hall _ _ hq; subst this; simp [alive, hq]
    simp [stepMain, hlive] at hmain
  | done e => simp [State.isDone, hm]

/-- C05: as long as `Run` has not returned, some thread can take a step. -/
theorem deadlock_free {P : Params} (hcap : 1 ≤ P.cap) {s : State} (hr : Reachable P s)
    (hnd : s.isDone = false) : ∃ t s', step P s t = some s' := by
  by_cases h : ∃ t s', step P s t = some s'
  · exact h
  · exfalso
    have hstuck : ∀ t, step P s t = none := by
      intro t
      cases hs : step P s t with
      | none => rfl
      | some s' => exact absurd ⟨t, s', hs⟩ h
    have := (stuck_all_done hcap hr hstuck).1
    rw [hnd] at this; cases this

/-- Once `Run` has returned every target thread it started has ended (the `sync.WaitGroup`). -/
theorem run_waits_all {P : Params} {s : State} (hr : Reachable P s) (e : Err) (hd : s.main = .done e) :
    ∀ l p, s.pc l = some p → p = .done := by
  intro l p hp
  have inv := hr.inv
  have h0 := inv.mainL e hd
  by_cases hpd : p = .done
  · exact hpd
  · have := inv.live_pos hp hpd
    omega

end Dawn.Runner

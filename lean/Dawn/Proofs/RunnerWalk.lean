import Dawn.Model.Runner
/-!
# Runner: the publish-then-walk protocol in isolation (abstract model for C05)

A reduced transition system with only what the cycle check of `EvaluateTargets` needs: a thread publishes its
waiting set, walks the other threads' published sets with *non-atomic* reads, then either blocks on its
dependencies (`blocked`) or has found a cycle (`found`, still published), and finally un-publishes (`past`).
The runner model is mapped onto it in `Dawn/Proofs/RunnerDeadlock.lean`; the ghost fields
`ptime clock seen expd` have the same names and are updated in the same way there.

Ported from the design probe `design-probes/runner-walk` (`found` no longer un-publishes, un-publishing has no
guard, a thread may skip the protocol altogether, and the final contradiction is stated for an orbit of a
successor function instead of a list).

The invariant `RInv` says: while `l` walks with work list `t`, every node it has read is expanded or not
dangerous, every dependency of an expanded node is read or in `t`; `Danger l x` — `x` can still lead `l` back to
itself through sets published before `l`'s own — only shrinks under the steps of the other threads. When the work
list empties nothing read is dangerous, so a blocked thread has no dangerous dependency. On a cycle of blocked
threads the successor of the latest publisher is dangerous along the cycle: `no_blocked_cycle_iter`.
-/
namespace Dawn.Runner.Walk

inductive PC where
  | init                            -- has not published (yet)
  | walking (todo : List Label)     -- published, walking; head is the next read
  | blocked                         -- published, walk finished without a cycle, waiting for its dependencies
  | found                           -- published, walk found a cycle
  | past                            -- un-published again, or never took part
deriving DecidableEq, Repr

structure St where
  pc    : Label → PC
  pub   : Label → Bool
  ptime : Label → Nat
  clock : Nat
  seen  : Label → List Label     -- ghost: nodes this walker has read (published or not)
  expd  : Label → List Label     -- ghost: nodes read as published (their deps were pushed)

variable (deps : Label → List Label)

inductive Step : St → St → Prop where
  | publish (s : St) (l : Label) (h : s.pc l = .init) :
      Step s { s with pc := upd s.pc l (.walking (deps l)), pub := upd s.pub l true,
                      ptime := upd s.ptime l s.clock, clock := s.clock + 1,
                      seen := upd s.seen l [], expd := upd s.expd l [] }
  | skip (s : St) (l : Label) (h : s.pc l = .init) :
      Step s { s with pc := upd s.pc l .past }
  | found (s : St) (l : Label) (rest : List Label) (h : s.pc l = .walking (l :: rest)) :
      Step s { s with pc := upd s.pc l .found }
  | readPub (s : St) (l d : Label) (rest : List Label) (h : s.pc l = .walking (d :: rest))
      (hd : d ≠ l) (hp : s.pub d = true) :
      Step s { s with pc := upd s.pc l (.walking (deps d ++ rest)),
                      seen := upd s.seen l (d :: s.seen l), expd := upd s.expd l (d :: s.expd l) }
  | readUnpub (s : St) (l d : Label) (rest : List Label) (h : s.pc l = .walking (d :: rest))
      (hd : d ≠ l) (hp : s.pub d = false) :
      Step s { s with pc := upd s.pc l (.walking rest), seen := upd s.seen l (d :: s.seen l) }
  | walkDone (s : St) (l : Label) (h : s.pc l = .walking []) :
      Step s { s with pc := upd s.pc l .blocked }
  | unpub (s : St) (l : Label) (h : s.pc l = .blocked ∨ s.pc l = .found) :
      Step s { s with pc := upd s.pc l .past, pub := upd s.pub l false }

/-- `x` can still lead walker `l` back to itself through sets published before `l`'s own. -/
inductive Danger (s : St) (l : Label) : Label → Prop where
  | direct (x : Label) : x ≠ l → s.pub x = true → s.ptime x < s.ptime l → l ∈ deps x → Danger s l x
  | step (x y : Label) : x ≠ l → s.pub x = true → s.ptime x < s.ptime l → y ∈ deps x →
      Danger s l y → Danger s l x

def isWalking (p : PC) : Prop := ∃ t, p = .walking t
def active (p : PC) : Prop := isWalking p ∨ p = .blocked ∨ p = .found

structure RInv (s : St) : Prop where
  g1 : ∀ l, s.pc l = .init → s.pub l = false
  g2 : ∀ l, s.pub l = true → s.ptime l < s.clock
  g3 : ∀ l, s.pub l = true → active (s.pc l)
  g3' : ∀ l, active (s.pc l) → s.pub l = true
  g4 : ∀ a b, s.pub a = true → s.pub b = true → s.ptime a = s.ptime b → a = b
  -- walking
  w1 : ∀ l t, s.pc l = .walking t → ∀ x ∈ s.seen l, x ∈ s.expd l ∨ ¬ Danger deps s l x
  w2 : ∀ l t, s.pc l = .walking t → ∀ x ∈ s.expd l, ∀ y ∈ deps x, y ∈ s.seen l ∨ y ∈ t
  w3 : ∀ l t, s.pc l = .walking t → l ∉ s.seen l
  w4 : ∀ l t, s.pc l = .walking t → ∀ y ∈ deps l, y ∈ s.seen l ∨ y ∈ t
  w5 : ∀ l t, s.pc l = .walking t → ∀ x ∈ s.expd l, x ∈ s.seen l
  -- blocked
  b1 : ∀ l, s.pc l = .blocked → ∀ d ∈ deps l, ¬ Danger deps s l d
  b2 : ∀ l, s.pc l = .blocked → l ∉ deps l

variable {deps}

theorem Danger.mono {s s' : St} {l : Label}
    (hp : ∀ x, x ≠ l → s'.pub x = true → s'.ptime x < s'.ptime l → (s.pub x = true ∧ s.ptime x < s.ptime l)) :
    ∀ {x}, Danger deps s' l x → Danger deps s l x := by
  intro x h
  induction h with
  | direct x hx hpub hpt hy =>
    obtain ⟨h1, h2⟩ := hp x hx hpub hpt
    exact Danger.direct x hx h1 h2 hy
  | step x y hx hpub hpt hy _ ih =>
    obtain ⟨h1, h2⟩ := hp x hx hpub hpt
    exact Danger.step x y hx h1 h2 hy ih

theorem Danger.pub {s : St} {l x : Label} (h : Danger deps s l x) : s.pub x = true := by
  cases h with
  | direct _ _ hp _ _ => exact hp
  | step _ _ _ hp _ _ _ => exact hp

/-- End of a negative walk: nothing the walker has seen is dangerous. -/
theorem seen_not_danger {s : St} {l : Label} (inv : RInv deps s) (h : s.pc l = .walking []) :
    ∀ x, Danger deps s l x → x ∈ s.seen l → False := by
  intro x hd
  induction hd with
  | direct x hx hpub hpt hy =>
    intro hseen
    have hex : x ∈ s.expd l := by
      cases inv.w1 l [] h x hseen with
      | inl h => exact h
      | inr h => exact absurd (Danger.direct x hx hpub hpt hy) h
    cases inv.w2 l [] h x hex l hy with
    | inl h' => exact inv.w3 l [] h h'
    | inr h' => cases h'
  | step x y hx hpub hpt hy hrec ih =>
    intro hseen
    have hex : x ∈ s.expd l := by
      cases inv.w1 l [] h x hseen with
      | inl h => exact h
      | inr h => exact absurd (Danger.step x y hx hpub hpt hy hrec) h
    cases inv.w2 l [] h x hex y hy with
    | inl h' => exact ih h'
    | inr h' => cases h'

/-! ## iterating a successor function -/

/-- `n`-fold application -/
def iter (f : Label → Label) : Nat → Label → Label
  | 0, x => x
  | n + 1, x => f (iter f n x)

@[simp] theorem iter_zero (f : Label → Label) (x : Label) : iter f 0 x = x := rfl
theorem iter_succ (f : Label → Label) (n : Nat) (x : Label) : iter f (n + 1) x = f (iter f n x) := rfl

theorem iter_add (f : Label → Label) (a b : Nat) (x : Label) : iter f (a + b) x = iter f a (iter f b x) := by
  induction a with
  | zero => simp
  | succ a ih => rw [Nat.succ_add, iter_succ, iter_succ, ih]

theorem iter_succ' (f : Label → Label) (n : Nat) (x : Label) : iter f (n + 1) x = iter f n (f x) :=
  iter_add f n 1 x

/-- The contradiction used for deadlock freedom: no cycle of blocked threads. `r` is the latest publisher on the
    cycle `r → f r → f (f r) → … → r`; walking the cycle backwards from `r`, every node other than `r` is
    dangerous for `r`, in particular `r`'s own successor — which `r`'s walk excluded. -/
theorem no_blocked_cycle_iter {s : St} (inv : RInv deps s) (f : Label → Label) (r : Label) (m : Nat)
    (hB : ∀ t, s.pc (iter f t r) = .blocked)
    (hdep : ∀ t, f (iter f t r) ∈ deps (iter f t r))
    (hmax : ∀ t, s.ptime (iter f t r) ≤ s.ptime r)
    (hcyc : iter f (m + 1) r = r) : False := by
  have hr : s.pc r = .blocked := hB 0
  have hrpub : s.pub r = true := inv.g3' r (Or.inr (Or.inl hr))
  have key : ∀ j k, k + j = m + 1 → iter f k r = r ∨ Danger deps s r (iter f k r) := by
    intro j
    induction j with
    | zero => intro k hk; left; rw [Nat.add_zero] at hk; rw [hk]; exact hcyc
    | succ j ih =>
      intro k hk
      by_cases hxr : iter f k r = r
      · exact Or.inl hxr
      · right
        have hpub : s.pub (iter f k r) = true := inv.g3' _ (Or.inr (Or.inl (hB k)))
        have hlt : s.ptime (iter f k r) < s.ptime r := by
          rcases Nat.lt_or_ge (s.ptime (iter f k r)) (s.ptime r) with h | h
          · exact h
          · exact absurd (inv.g4 _ r hpub hrpub (Nat.le_antisymm (hmax k) h)) hxr
        have hab : iter f (k + 1) r ∈ deps (iter f k r) := hdep k
        rcases ih (k + 1) (by omega) with hn | hn
        · rw [hn] at hab; exact Danger.direct _ hxr hpub hlt hab
        · exact Danger.step _ _ hxr hpub hlt hab hn
  have h0 : f r ∈ deps r := hdep 0
  rcases key m 1 (by omega) with h | h
  · exact inv.b2 r hr (by rw [iter_succ, iter_zero] at h; rw [h] at h0; exact h0)
  · exact inv.b1 r hr (f r) h0 h

/-! ## preservation -/

theorem active_walking (t : List Label) : active (.walking t) := Or.inl ⟨t, rfl⟩
theorem active_blocked : active .blocked := Or.inr (Or.inl rfl)
theorem active_found : active .found := Or.inr (Or.inr rfl)
theorem not_active_init : ¬ active .init := by
  intro h; rcases h with ⟨t, h⟩ | h | h <;> cases h
theorem not_active_past : ¬ active .past := by
  intro h; rcases h with ⟨t, h⟩ | h | h <;> cases h

/-- Steps of another thread that leave `pub`/`ptime` alone keep every Danger fact. -/
theorem danger_same {s s' : St} {l x : Label} (h : Danger deps s' l x)
    (hp : s'.pub = s.pub) (ht : s'.ptime = s.ptime) : Danger deps s l x :=
  Danger.mono (by intro x _ h1 h2; rw [hp] at h1; rw [ht] at h2; exact ⟨h1, h2⟩) h

theorem inv_init (s : St) (h0 : ∀ l, s.pc l = .init) (hp : ∀ l, s.pub l = false) : RInv deps s where
  g1 := fun l _ => hp l
  g2 := by intro l h; rw [hp l] at h; cases h
  g3 := by intro l h; rw [hp l] at h; cases h
  g3' := by intro l h; rw [h0 l] at h; exact absurd h not_active_init
  g4 := by intro a _ h; rw [hp a] at h; cases h
  w1 := by intro l t h; rw [h0 l] at h; cases h
  w2 := by intro l t h; rw [h0 l] at h; cases h
  w3 := by intro l t h; rw [h0 l] at h; cases h
  w4 := by intro l t h; rw [h0 l] at h; cases h
  w5 := by intro l t h; rw [h0 l] at h; cases h
  b1 := by intro l h; rw [h0 l] at h; cases h
  b2 := by intro l h; rw [h0 l] at h; cases h

theorem publish_hp {s : St} (inv : RInv deps s) (a l : Label) (hl : l ≠ a) (hpl : s.pub l = true) :
    ∀ z, z ≠ l → (upd s.pub a true) z = true → (upd s.ptime a s.clock) z < (upd s.ptime a s.clock) l →
      s.pub z = true ∧ s.ptime z < s.ptime l := by
  intro z _ h1 h2
  have hlt := inv.g2 l hpl
  by_cases hz : z = a
  · subst hz
    simp [hl] at h2
    omega
  · simp [hz, hl] at h1 h2
    exact ⟨h1, h2⟩

theorem inv_publish {s : St} (inv : RInv deps s) (a : Label) (h : s.pc a = .init) :
    RInv deps { s with pc := upd s.pc a (.walking (deps a)), pub := upd s.pub a true,
                       ptime := upd s.ptime a s.clock, clock := s.clock + 1,
                       seen := upd s.seen a [], expd := upd s.expd a [] } where
  g1 := by
    intro l hl
    by_cases e : l = a
    · subst e; simp at hl
    · simp [e] at hl ⊢; exact inv.g1 l hl
  g2 := by
    intro l hl
    by_cases e : l = a
    · subst e; simp
    · simp [e] at hl ⊢; have := inv.g2 l hl; omega
  g3 := by
    intro l hl
    by_cases e : l = a
    · subst e; simp; exact active_walking _
    · simp [e] at hl ⊢; exact inv.g3 l hl
  g3' := by
    intro l hl
    by_cases e : l = a
    · subst e; simp
    · simp [e] at hl ⊢; exact inv.g3' l hl
  g4 := by
    intro x y hx hy hxy
    by_cases ex : x = a <;> by_cases ey : y = a
    · rw [ex, ey]
    · subst ex; simp [ey] at hy hxy; have := inv.g2 y hy; omega
    · subst ey; simp [ex] at hx hxy; have := inv.g2 x hx; omega
    · simp [ex, ey] at hx hy hxy; exact inv.g4 x y hx hy hxy
  w1 := by
    intro l t hl x hx
    by_cases e : l = a
    · subst e; simp at hx
    · simp [e] at hl hx ⊢
      cases inv.w1 l t hl x hx with
      | inl h' => exact Or.inl h'
      | inr h' =>
        right; intro hd; apply h'
        exact Danger.mono (publish_hp inv a l e (inv.g3' l (by rw [hl]; exact active_walking _))) hd
  w2 := by
    intro l t hl x hx y hy
    by_cases e : l = a
    · subst e; simp at hx
    · simp [e] at hl hx ⊢; exact inv.w2 l t hl x hx y hy
  w3 := by
    intro l t hl
    by_cases e : l = a
    · subst e; simp
    · simp [e] at hl ⊢; exact inv.w3 l t hl
  w4 := by
    intro l t hl y hy
    by_cases e : l = a
    · subst e; simp at hl ⊢; exact hl ▸ hy
    · simp [e] at hl ⊢; exact inv.w4 l t hl y hy
  w5 := by
    intro l t hl x hx
    by_cases e : l = a
    · subst e; simp at hx
    · simp [e] at hl hx ⊢; exact inv.w5 l t hl x hx
  b1 := by
    intro l hl d hd hdan
    by_cases e : l = a
    · subst e; simp at hl
    · simp [e] at hl
      exact inv.b1 l hl d hd
        (Danger.mono (publish_hp inv a l e (inv.g3' l (by rw [hl]; exact active_blocked))) hdan)
  b2 := by
    intro l hl
    by_cases e : l = a
    · subst e; simp at hl
    · simp [e] at hl; exact inv.b2 l hl

/-- a step that moves `a` between two program counters outside the walk and leaves everything else alone -/
theorem inv_pcOnly {s : St} (inv : RInv deps s) (a : Label) (p' : PC)
    (hact : active p' ↔ active (s.pc a)) (hni : p' ≠ .init)
    (hnw : ∀ t, p' ≠ .walking t) (hnb : p' ≠ .blocked) :
    RInv deps { s with pc := upd s.pc a p' } where
  g1 := by
    intro l hl
    by_cases e : l = a
    · subst e; simp at hl; exact absurd hl hni
    · simp [e] at hl; exact inv.g1 l hl
  g2 := inv.g2
  g3 := by
    intro l hl
    by_cases e : l = a
    · subst e; simp; exact hact.mpr (inv.g3 l hl)
    · simp [e]; exact inv.g3 l hl
  g3' := by
    intro l hl
    by_cases e : l = a
    · subst e; simp at hl; exact inv.g3' l (hact.mp hl)
    · simp [e] at hl; exact inv.g3' l hl
  g4 := inv.g4
  w1 := by
    intro l t hl x hx
    by_cases e : l = a
    · subst e; simp at hl; exact absurd hl (hnw t)
    · simp [e] at hl
      cases inv.w1 l t hl x hx with
      | inl h' => exact Or.inl h'
      | inr h' => exact Or.inr (fun hdan => h' (danger_same (s := s) hdan rfl rfl))
  w2 := by
    intro l t hl x hx y hy
    by_cases e : l = a
    · subst e; simp at hl; exact absurd hl (hnw t)
    · simp [e] at hl; exact inv.w2 l t hl x hx y hy
  w3 := by
    intro l t hl
    by_cases e : l = a
    · subst e; simp at hl; exact absurd hl (hnw t)
    · simp [e] at hl; exact inv.w3 l t hl
  w4 := by
    intro l t hl y hy
    by_cases e : l = a
    · subst e; simp at hl; exact absurd hl (hnw t)
    · simp [e] at hl; exact inv.w4 l t hl y hy
  w5 := by
    intro l t hl x hx
    by_cases e : l = a
    · subst e; simp at hl; exact absurd hl (hnw t)
    · simp [e] at hl; exact inv.w5 l t hl x hx
  b1 := by
    intro l hl d' hd' hdan
    by_cases e : l = a
    · subst e; simp at hl; exact absurd hl hnb
    · simp [e] at hl; exact inv.b1 l hl d' hd' (danger_same (s := s) hdan rfl rfl)
  b2 := by
    intro l hl
    by_cases e : l = a
    · subst e; simp at hl; exact absurd hl hnb
    · simp [e] at hl; exact inv.b2 l hl

theorem inv_skip {s : St} (inv : RInv deps s) (a : Label) (h : s.pc a = .init) :
    RInv deps { s with pc := upd s.pc a .past } :=
  inv_pcOnly inv a .past
    (by rw [h]; exact ⟨fun c => absurd c not_active_past, fun c => absurd c not_active_init⟩)
    (by intro c; cases c) (by intro t c; cases c) (by intro c; cases c)

theorem inv_found {s : St} (inv : RInv deps s) (a : Label) (rest : List Label)
    (h : s.pc a = .walking (a :: rest)) :
    RInv deps { s with pc := upd s.pc a .found } :=
  inv_pcOnly inv a .found
    (by rw [h]; exact ⟨fun _ => active_walking _, fun _ => active_found⟩)
    (by intro c; cases c) (by intro t c; cases c) (by intro c; cases c)

theorem inv_readPub {s : St} (inv : RInv deps s) (a d : Label) (rest : List Label)
    (h : s.pc a = .walking (d :: rest)) (hd : d ≠ a) (hp : s.pub d = true) :
    RInv deps { s with pc := upd s.pc a (.walking (deps d ++ rest)),
                       seen := upd s.seen a (d :: s.seen a), expd := upd s.expd a (d :: s.expd a) } where
  g1 := by
    intro l hl
    by_cases e : l = a
    · subst e; simp at hl
    · simp [e] at hl; exact inv.g1 l hl
  g2 := inv.g2
  g3 := by
    intro l hl
    by_cases e : l = a
    · subst e; simp; exact active_walking _
    · simp [e]; exact inv.g3 l hl
  g3' := by
    intro l hl
    by_cases e : l = a
    · subst e; exact inv.g3' l (by rw [h]; exact active_walking _)
    · simp [e] at hl; exact inv.g3' l hl
  g4 := inv.g4
  w1 := by
    intro l t hl x hx
    by_cases e : l = a
    · subst e
      simp at hx ⊢
      cases hx with
      | inl hx => exact Or.inl (Or.inl hx)
      | inr hx =>
        cases inv.w1 l _ h x hx with
        | inl h' => exact Or.inl (Or.inr h')
        | inr h' => exact Or.inr (fun hdan => h' (danger_same (s := s) hdan rfl rfl))
    · simp [e] at hl hx ⊢
      cases inv.w1 l t hl x hx with
      | inl h' => exact Or.inl h'
      | inr h' => exact Or.inr (fun hdan => h' (danger_same (s := s) hdan rfl rfl))
  w2 := by
    intro l t hl x hx y hy
    by_cases e : l = a
    · subst e
      simp at hl hx ⊢
      subst hl
      cases hx with
      | inl hx => subst hx; exact Or.inr (List.mem_append_left _ hy)
      | inr hx =>
        cases inv.w2 l _ h x hx y hy with
        | inl h' => exact Or.inl (Or.inr h')
        | inr h' =>
          cases h' with
          | head => exact Or.inl (Or.inl rfl)
          | tail _ h'' => exact Or.inr (List.mem_append_right _ h'')
    · simp [e] at hl hx ⊢; exact inv.w2 l t hl x hx y hy
  w3 := by
    intro l t hl
    by_cases e : l = a
    · subst e; simp; exact ⟨fun c => hd c.symm, inv.w3 l _ h⟩
    · simp [e] at hl ⊢; exact inv.w3 l t hl
  w4 := by
    intro l t hl y hy
    by_cases e : l = a
    · subst e
      simp at hl ⊢
      subst hl
      cases inv.w4 l _ h y hy with
      | inl h' => exact Or.inl (Or.inr h')
      | inr h' =>
        cases h' with
        | head => exact Or.inl (Or.inl rfl)
        | tail _ h'' => exact Or.inr (List.mem_append_right _ h'')
    · simp [e] at hl ⊢; exact inv.w4 l t hl y hy
  w5 := by
    intro l t hl x hx
    by_cases e : l = a
    · subst e
      simp at hx ⊢
      cases hx with
      | inl hx => exact Or.inl hx
      | inr hx => exact Or.inr (inv.w5 l _ h x hx)
    · simp [e] at hl hx ⊢; exact inv.w5 l t hl x hx
  b1 := by
    intro l hl d' hd' hdan
    by_cases e : l = a
    · subst e; simp at hl
    · simp [e] at hl; exact inv.b1 l hl d' hd' (danger_same (s := s) hdan rfl rfl)
  b2 := by
    intro l hl
    by_cases e : l = a
    · subst e; simp at hl
    · simp [e] at hl; exact inv.b2 l hl

theorem inv_readUnpub {s : St} (inv : RInv deps s) (a d : Label) (rest : List Label)
    (h : s.pc a = .walking (d :: rest)) (hd : d ≠ a) (hp : s.pub d = false) :
    RInv deps { s with pc := upd s.pc a (.walking rest), seen := upd s.seen a (d :: s.seen a) } where
  g1 := by
    intro l hl
    by_cases e : l = a
    · subst e; simp at hl
    · simp [e] at hl; exact inv.g1 l hl
  g2 := inv.g2
  g3 := by
    intro l hl
    by_cases e : l = a
    · subst e; simp; exact active_walking _
    · simp [e]; exact inv.g3 l hl
  g3' := by
    intro l hl
    by_cases e : l = a
    · subst e; exact inv.g3' l (by rw [h]; exact active_walking _)
    · simp [e] at hl; exact inv.g3' l hl
  g4 := inv.g4
  w1 := by
    intro l t hl x hx
    by_cases e : l = a
    · subst e
      simp at hx ⊢
      cases hx with
      | inl hx =>
        subst hx
        right; intro hdan
        have := Danger.pub hdan
        simp [hp] at this
      | inr hx =>
        cases inv.w1 l _ h x hx with
        | inl h' => exact Or.inl h'
        | inr h' => exact Or.inr (fun hdan => h' (danger_same (s := s) hdan rfl rfl))
    · simp [e] at hl hx ⊢
      cases inv.w1 l t hl x hx with
      | inl h' => exact Or.inl h'
      | inr h' => exact Or.inr (fun hdan => h' (danger_same (s := s) hdan rfl rfl))
  w2 := by
    intro l t hl x hx y hy
    by_cases e : l = a
    · subst e
      simp at hl hx ⊢
      subst hl
      cases inv.w2 l _ h x hx y hy with
      | inl h' => exact Or.inl (Or.inr h')
      | inr h' =>
        cases h' with
        | head => exact Or.inl (Or.inl rfl)
        | tail _ h'' => exact Or.inr h''
    · simp [e] at hl hx ⊢; exact inv.w2 l t hl x hx y hy
  w3 := by
    intro l t hl
    by_cases e : l = a
    · subst e; simp; exact ⟨fun c => hd c.symm, inv.w3 l _ h⟩
    · simp [e] at hl ⊢; exact inv.w3 l t hl
  w4 := by
    intro l t hl y hy
    by_cases e : l = a
    · subst e
      simp at hl ⊢
      subst hl
      cases inv.w4 l _ h y hy with
      | inl h' => exact Or.inl (Or.inr h')
      | inr h' =>
        cases h' with
        | head => exact Or.inl (Or.inl rfl)
        | tail _ h'' => exact Or.inr h''
    · simp [e] at hl ⊢; exact inv.w4 l t hl y hy
  w5 := by
    intro l t hl x hx
    by_cases e : l = a
    · subst e; simp at hx ⊢; exact Or.inr (inv.w5 l _ h x hx)
    · simp [e] at hl hx ⊢; exact inv.w5 l t hl x hx
  b1 := by
    intro l hl d' hd' hdan
    by_cases e : l = a
    · subst e; simp at hl
    · simp [e] at hl; exact inv.b1 l hl d' hd' (danger_same (s := s) hdan rfl rfl)
  b2 := by
    intro l hl
    by_cases e : l = a
    · subst e; simp at hl
    · simp [e] at hl; exact inv.b2 l hl

theorem inv_walkDone {s : St} (inv : RInv deps s) (a : Label) (h : s.pc a = .walking []) :
    RInv deps { s with pc := upd s.pc a .blocked } where
  g1 := by
    intro l hl
    by_cases e : l = a
    · subst e; simp at hl
    · simp [e] at hl; exact inv.g1 l hl
  g2 := inv.g2
  g3 := by
    intro l hl
    by_cases e : l = a
    · subst e; simp; exact active_blocked
    · simp [e]; exact inv.g3 l hl
  g3' := by
    intro l hl
    by_cases e : l = a
    · subst e; exact inv.g3' l (by rw [h]; exact active_walking _)
    · simp [e] at hl; exact inv.g3' l hl
  g4 := inv.g4
  w1 := by
    intro l t hl x hx
    by_cases e : l = a
    · subst e; simp at hl
    · simp [e] at hl
      cases inv.w1 l t hl x hx with
      | inl h' => exact Or.inl h'
      | inr h' => exact Or.inr (fun hdan => h' (danger_same (s := s) hdan rfl rfl))
  w2 := by
    intro l t hl x hx y hy
    by_cases e : l = a
    · subst e; simp at hl
    · simp [e] at hl; exact inv.w2 l t hl x hx y hy
  w3 := by
    intro l t hl
    by_cases e : l = a
    · subst e; simp at hl
    · simp [e] at hl; exact inv.w3 l t hl
  w4 := by
    intro l t hl y hy
    by_cases e : l = a
    · subst e; simp at hl
    · simp [e] at hl; exact inv.w4 l t hl y hy
  w5 := by
    intro l t hl x hx
    by_cases e : l = a
    · subst e; simp at hl
    · simp [e] at hl; exact inv.w5 l t hl x hx
  b1 := by
    intro l hl d' hd' hdan
    by_cases e : l = a
    · subst e
      have hseen : d' ∈ s.seen l := by
        cases inv.w4 l [] h d' hd' with
        | inl h' => exact h'
        | inr h' => cases h'
      exact seen_not_danger inv h d' (danger_same (s := s) hdan rfl rfl) hseen
    · simp [e] at hl; exact inv.b1 l hl d' hd' (danger_same (s := s) hdan rfl rfl)
  b2 := by
    intro l hl hself
    by_cases e : l = a
    · subst e
      cases inv.w4 l [] h l hself with
      | inl h' => exact inv.w3 l [] h h'
      | inr h' => cases h'
    · simp [e] at hl; exact inv.b2 l hl hself

/-- un-publishing: `pub` only shrinks, so Danger only shrinks. -/
theorem unpub_hp {s : St} (a l : Label) :
    ∀ z, z ≠ l → (upd s.pub a false) z = true → s.ptime z < s.ptime l → s.pub z = true ∧ s.ptime z < s.ptime l := by
  intro z _ h1 h2
  by_cases hz : z = a
  · subst hz; simp at h1
  · simp [hz] at h1; exact ⟨h1, h2⟩

theorem inv_unpub {s : St} (inv : RInv deps s) (a : Label) :
    RInv deps { s with pc := upd s.pc a .past, pub := upd s.pub a false } where
  g1 := by
    intro l hl
    by_cases e : l = a
    · subst e; simp
    · simp [e] at hl ⊢; exact inv.g1 l hl
  g2 := by
    intro l hl
    by_cases e : l = a
    · subst e; simp at hl
    · simp [e] at hl; exact inv.g2 l hl
  g3 := by
    intro l hl
    by_cases e : l = a
    · subst e; simp at hl
    · simp [e] at hl ⊢; exact inv.g3 l hl
  g3' := by
    intro l hl
    by_cases e : l = a
    · subst e; simp at hl; exact absurd hl not_active_past
    · simp [e] at hl ⊢; exact inv.g3' l hl
  g4 := by
    intro x y hx hy hxy
    by_cases ex : x = a
    · subst ex; simp at hx
    · by_cases ey : y = a
      · subst ey; simp at hy
      · simp [ex, ey] at hx hy; exact inv.g4 x y hx hy hxy
  w1 := by
    intro l t hl x hx
    by_cases e : l = a
    · subst e; simp at hl
    · simp [e] at hl
      cases inv.w1 l t hl x hx with
      | inl h' => exact Or.inl h'
      | inr h' => exact Or.inr (fun hdan => h' (Danger.mono (unpub_hp a l) hdan))
  w2 := by
    intro l t hl x hx y hy
    by_cases e : l = a
    · subst e; simp at hl
    · simp [e] at hl; exact inv.w2 l t hl x hx y hy
  w3 := by
    intro l t hl
    by_cases e : l = a
    · subst e; simp at hl
    · simp [e] at hl; exact inv.w3 l t hl
  w4 := by
    intro l t hl y hy
    by_cases e : l = a
    · subst e; simp at hl
    · simp [e] at hl; exact inv.w4 l t hl y hy
  w5 := by
    intro l t hl x hx
    by_cases e : l = a
    · subst e; simp at hl
    · simp [e] at hl; exact inv.w5 l t hl x hx
  b1 := by
    intro l hl d' hd' hdan
    by_cases e : l = a
    · subst e; simp at hl
    · simp [e] at hl; exact inv.b1 l hl d' hd' (Danger.mono (unpub_hp a l) hdan)
  b2 := by
    intro l hl
    by_cases e : l = a
    · subst e; simp at hl
    · simp [e] at hl; exact inv.b2 l hl

theorem inv_step {s s' : St} (inv : RInv deps s) (st : Step deps s s') : RInv deps s' := by
  cases st with
  | publish l h => exact inv_publish inv l h
  | skip l h => exact inv_skip inv l h
  | found l rest h => exact inv_found inv l rest h
  | readPub l d rest h hd hp => exact inv_readPub inv l d rest h hd hp
  | readUnpub l d rest h hd hp => exact inv_readUnpub inv l d rest h hd hp
  | walkDone l h => exact inv_walkDone inv l h
  | unpub l h => exact inv_unpub inv l

inductive Reach (deps : Label → List Label) (s0 : St) : St → Prop where
  | refl : Reach deps s0 s0
  | step {s s'} : Reach deps s0 s → Step deps s s' → Reach deps s0 s'

theorem inv_reach {s0 s : St} (h0 : ∀ l, s0.pc l = .init) (hp : ∀ l, s0.pub l = false)
    (hr : Reach deps s0 s) : RInv deps s := by
  induction hr with
  | refl => exact inv_init s0 h0 hp
  | step _ st ih => exact inv_step ih st

end Dawn.Runner.Walk

import Dawn.Proofs.BuildSim
/-!
# Edits outside the dependency closure are invisible (C02)

A generalisation of `BuildSim`: two *trees* and two states. If the trees agree on the definitions of the visited
labels and of what those read (and on their dependency lists — the generator link included), and the states agree on
the files in a set `F` that covers everything the visited labels read, write or test, and on the visited labels'
records, then the two builds take the same decisions, emit the same events and execute the same bodies. Everything
else — sources, build files of other packages, records, outputs of other targets — may differ arbitrarily.
-/
namespace Dawn.Build

structure Agree2 (L : List Label) (F : Path → Prop) (w w' : World) : Prop where
  files : ∀ p, F p → w'.files p = w.files p
  recs : ∀ l ∈ L, semRec (w'.recs l) = semRec (w.recs l)

/-- `F` covers what the labels of `L` test, write and read; and the two trees agree about them -/
structure Covers (t t' : Tree) (L : List Label) (F : Path → Prop) : Prop where
  defs : ∀ l ∈ L, t'.defs l = t.defs l
  deps : ∀ l ∈ L, ∀ d, t.defs l = some d → depsOf t' l d = depsOf t l d
  path : ∀ l ∈ L, ∀ d, t.defs l = some d → d.kind = .src → F d.path
  gens : ∀ l ∈ L, ∀ d, t.defs l = some d → d.kind = .fn → ∀ g ∈ d.gens, F g
  readDefs : ∀ l ∈ L, ∀ d, t.defs l = some d → ∀ x ∈ d.reads, t'.defs x = t.defs x
  readPaths : ∀ l ∈ L, ∀ d, t.defs l = some d → ∀ x ∈ d.reads, ∀ dx, t.defs x = some dx →
    (dx.kind = .src → F dx.path) ∧ (dx.kind = .fn → ∀ g ∈ dx.gens, F g)

structure Sim2 (L : List Label) (F : Path → Prop) (s s' : BSt) : Prop where
  memo : s'.memo = s.memo
  evs : s'.evs = s.evs
  execs : s'.execs = s.execs
  steps : s'.steps = s.steps
  agree : Agree2 L F s.w s'.w

theorem agree2_step {L : List Label} {F : Path → Prop} {w w' : World} (h : Agree2 L F w w') (st : Step) :
    Agree2 L F (st.apply w) (st.apply w') := by
  unfold Step.apply
  cases st.eff with
  | none => exact h
  | some e =>
    cases e with
    | tempCreate => exact ⟨h.files, h.recs⟩
    | tempWrite => exact h
    | tempRename l r =>
      refine ⟨h.files, ?_⟩
      intro x hx
      simp only [Eff.apply]
      by_cases e : x = l
      · subst e; simp
      · simp only [upd, e, if_false]; exact h.recs x hx
    | genWrite g c =>
      refine ⟨?_, h.recs⟩
      intro p hp
      simp only [Eff.apply]
      by_cases e : p = g
      · subst e; simp
      · simp only [upd, e, if_false]; exact h.files p hp
    | indexCreate => exact ⟨h.files, h.recs⟩
    | indexEncode ls => exact ⟨h.files, h.recs⟩

theorem agree2_applySteps {L : List Label} {F : Path → Prop} {w w' : World} (h : Agree2 L F w w') (ss : List Step) :
    Agree2 L F (applySteps w ss) (applySteps w' ss) := by
  induction ss generalizing w w' with
  | nil => exact h
  | cons st rest ih => exact ih (agree2_step h st)

theorem all_congr_mem2 {α} {l : List α} {p q : α → Bool} (h : ∀ x ∈ l, p x = q x) : l.all p = l.all q := by
  induction l with
  | nil => rfl
  | cons a rest ih =>
    simp only [List.all_cons]
    rw [h a List.mem_cons_self, ih (fun x hx => h x (List.mem_cons_of_mem _ hx))]

theorem upToDate_congr2 (P : Params) {w w' : World} {F : Path → Prop} (d : Def) (info : Rec)
    (hf : ∀ p, F p → w'.files p = w.files p) (hp : d.kind = .src → F d.path) (hg : d.kind = .fn → ∀ g ∈ d.gens, F g) :
    upToDate P w' d info = upToDate P w d info := by
  unfold upToDate
  cases hk : d.kind with
  | src => simp only; rw [hf _ (hp hk)]
  | fn =>
    simp only
    have : (d.gens.all fun g => w'.files g != .missing) = (d.gens.all fun g => w.files g != .missing) := by
      apply all_congr_mem2
      intro g hgm
      rw [hf g (hg hk g hgm)]
    rw [this]

theorem observe_congr2 {t t' : Tree} {w w' : World} {F : Path → Prop} (x : Label) (hdef : t'.defs x = t.defs x)
    (hf : ∀ p, F p → w'.files p = w.files p)
    (hp : ∀ dx, t.defs x = some dx → (dx.kind = .src → F dx.path) ∧ (dx.kind = .fn → ∀ g ∈ dx.gens, F g)) :
    observe t' w' x = observe t w x := by
  unfold observe
  rw [hdef]
  cases hd : t.defs x with
  | none => rfl
  | some dx =>
    simp only
    cases hk : dx.kind with
    | src => simp only; rw [hf _ ((hp dx hd).1 hk)]
    | fn =>
      simp only
      apply List.map_congr_left
      intro g hg
      rw [hf g ((hp dx hd).2 hk g hg)]

theorem visit_sim2 {P : Params} {t t' : Tree} {o : Opts} {L : List Label} {F : Path → Prop} {s s' : BSt} (l : Label)
    (hl : l ∈ L) (hcov : Covers t t' L F) (h : Sim2 L F s s') : Sim2 L F (visit P t o s l) (visit P t' o s' l) := by
  unfold visit
  rw [hcov.defs l hl]
  cases hd : t.defs l with
  | none => exact ⟨by simp [h.memo], h.evs, h.execs, h.steps, h.agree⟩
  | some d =>
    simp only
    have hplan : plan P t' o s' l d = plan P t o s l d := by
      unfold plan memoData
      simp only [h.memo, hcov.deps l hl d hd, loadedInfo_congr d (h.agree.recs l hl),
        upToDate_congr2 P d _ h.agree.files (hcov.path l hl d hd) (hcov.gens l hl d hd)]
    rw [hplan]
    cases hp : plan P t o s l d with
    | depFailed r => exact ⟨by simp [h.memo], by simp [h.evs], h.execs, h.steps, h.agree⟩
    | skip info => exact ⟨by simp [h.memo], by simp [h.evs], h.execs, h.steps, h.agree⟩
    | dry info => exact ⟨by simp [h.memo], by simp [h.evs], h.execs, h.steps, h.agree⟩
    | run info dd =>
      simp only
      have hexec : execSteps P t' o s'.w l d info dd = execSteps P t o s.w l d info dd := by
        unfold execSteps bodyWrites
        cases hk : d.kind with
        | src => simp only; rw [h.agree.files _ (hcov.path l hl d hd hk)]
        | fn =>
          simp only
          have hobs : (d.reads.map fun x => (x, observe t' s'.w x)) = (d.reads.map fun x => (x, observe t s.w x)) := by
            apply List.map_congr_left
            intro x hx
            rw [observe_congr2 x (hcov.readDefs l hl d hd x hx) h.agree.files (hcov.readPaths l hl d hd x hx)]
          rw [hobs]
      rw [hexec]
      exact ⟨by simp [h.memo], by simp [h.evs], by simp [h.execs], by simp [h.steps], agree2_applySteps h.agree _⟩

theorem build_sim2 {P : Params} {t t' : Tree} {o : Opts} {L : List Label} {F : Path → Prop} (hcov : Covers t t' L F)
    (ord : List Label) (hL : ∀ l ∈ ord, l ∈ L) :
    ∀ {s s' : BSt}, Sim2 L F s s' → Sim2 L F (build P t o s ord) (build P t' o s' ord) := by
  induction ord with
  | nil => intro s s' h; exact h
  | cons l rest ih =>
    intro s s' h
    exact ih (fun x hx => hL x (List.mem_cons_of_mem _ hx)) (visit_sim2 l (hL l List.mem_cons_self) hcov h)

/-- the loads of two trees keep the agreement -/
theorem agree2_load {L : List Label} {F : Path → Prop} {w w' : World} (t t' : Tree) (h : Agree2 L F w w') :
    Agree2 L F (load t w) (load t' w') := by
  refine ⟨?_, ?_⟩
  · intro p hp
    rw [congrFun (load_sem t' w' 0).2.1 p, congrFun (load_sem t w 0).2.1 p]; exact h.files p hp
  · intro l hl
    rw [(load_sem t' w' l).1, (load_sem t w l).1]; exact h.recs l hl

theorem runBuild_sim2 {P : Params} {t t' : Tree} {o : Opts} {L : List Label} {F : Path → Prop} (hcov : Covers t t' L F)
    (ord : List Label) (hL : ∀ l ∈ ord, l ∈ L) {w w' : World} (h : Agree2 L F w w') :
    Sim2 L F (runBuild P t o ord w) (runBuild P t' o ord w') := by
  unfold runBuild
  exact build_sim2 hcov ord hL ⟨rfl, rfl, rfl, rfl, agree2_load t t' h⟩

end Dawn.Build

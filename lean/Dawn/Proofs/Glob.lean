import Dawn.Model.Glob
/-! Helper lemmas for C17 (glob sets). Property theorems are in `Dawn/Props/Glob.lean`. -/
namespace Dawn.Glob

theorem mem_splits {l a b : List Char} : (a, b) ∈ splits l ↔ l = a ++ b := by
  induction l generalizing a b with
  | nil =>
    simp only [splits, List.mem_singleton, Prod.mk.injEq]
    constructor
    · rintro ⟨rfl, rfl⟩; rfl
    · intro h
      have := List.append_eq_nil_iff.mp h.symm
      exact this
  | cons c t ih =>
    simp only [splits, List.mem_cons, Prod.mk.injEq, List.mem_map, Prod.exists]
    constructor
    · rintro (⟨rfl, rfl⟩ | ⟨x, y, hxy, rfl, rfl⟩)
      · rfl
      · rw [ih.mp hxy]; rfl
    · intro h
      cases a with
      | nil => left; exact ⟨rfl, by simpa using h.symm⟩
      | cons d a' =>
        right
        simp only [List.cons_append, List.cons.injEq] at h
        exact ⟨a', b, ih.mpr h.2, by rw [h.1], rfl⟩

/-- the executable matcher computes exactly the positional semantics -/
theorem mem_run {r : RE} {pre rest mid post : List Char} :
    (mid, post) ∈ run r pre rest ↔ rest = mid ++ post ∧ M r pre mid post := by
  induction r generalizing pre rest mid post with
  | eps =>
    simp only [run, M, List.mem_singleton, Prod.mk.injEq]
    constructor
    · rintro ⟨rfl, rfl⟩; exact ⟨rfl, rfl⟩
    · rintro ⟨h, rfl⟩; exact ⟨rfl, by simpa using h.symm⟩
  | none => simp [run, M]
  | lit c =>
    cases rest with
    | nil =>
      simp only [run, M, List.not_mem_nil, false_iff, not_and]
      intro h hm; subst hm; simp at h
    | cons d t =>
      simp only [run, M]
      split
      · rename_i hdc; subst hdc
        simp only [List.mem_singleton, Prod.mk.injEq]
        constructor
        · rintro ⟨rfl, rfl⟩; exact ⟨rfl, rfl⟩
        · rintro ⟨h, rfl⟩; simp at h; exact ⟨rfl, h.symm⟩
      · rename_i hdc
        simp only [List.not_mem_nil, false_iff, not_and]
        intro h hm; subst hm; simp at h; exact hdc h.1
  | any =>
    cases rest with
    | nil =>
      simp only [run, M, List.not_mem_nil, false_iff, not_and, not_exists]
      intro h c hm; subst hm; simp at h
    | cons d t =>
      simp only [run, M, List.mem_singleton, Prod.mk.injEq]
      constructor
      · rintro ⟨rfl, rfl⟩; exact ⟨rfl, d, rfl⟩
      · rintro ⟨h, c, rfl⟩; simp at h; exact ⟨by rw [h.1], h.2.symm⟩
  | starAny => simp [run, M, mem_splits]
  | starNotSlash =>
    simp only [run, M, List.mem_filter, mem_splits, List.all_eq_true, decide_eq_true_eq]
  | seq a b iha ihb =>
    simp only [run, M, List.mem_flatMap, List.mem_map, Prod.exists, Prod.mk.injEq]
    constructor
    · rintro ⟨m₁, r₁, h1, m₂, r₂, h2, rfl, rfl⟩
      obtain ⟨e1, ha⟩ := iha.mp h1
      obtain ⟨e2, hb⟩ := ihb.mp h2
      subst e1 e2
      exact ⟨by simp, m₁, m₂, rfl, ha, hb⟩
    · rintro ⟨e, m₁, m₂, rfl, ha, hb⟩
      subst e
      exact ⟨m₁, m₂ ++ post, iha.mpr ⟨by simp, ha⟩, m₂, post, ihb.mpr ⟨rfl, hb⟩, rfl, rfl⟩
  | alt a b iha ihb =>
    simp only [run, M, List.mem_append, iha, ihb]
    constructor
    · rintro (⟨e, h⟩ | ⟨e, h⟩)
      · exact ⟨e, Or.inl h⟩
      · exact ⟨e, Or.inr h⟩
    · rintro ⟨e, h | h⟩
      · exact Or.inl ⟨e, h⟩
      · exact Or.inr ⟨e, h⟩
  | cap r ih => simp only [run, M, ih]
  | bol =>
    simp only [run, M]
    split
    · rename_i hp; subst hp
      simp only [List.mem_singleton, Prod.mk.injEq, true_and]
      constructor
      · rintro ⟨rfl, rfl⟩; exact ⟨rfl, rfl⟩
      · rintro ⟨h, rfl⟩; exact ⟨rfl, by simpa using h.symm⟩
    · rename_i hp
      simp only [List.not_mem_nil, false_iff, not_and]
      intro _ h; exact absurd h hp
  | eol =>
    simp only [run, M]
    split
    · rename_i hp; subst hp
      simp only [List.mem_singleton, Prod.mk.injEq]
      constructor
      · rintro ⟨rfl, rfl⟩; exact ⟨rfl, rfl, rfl⟩
      · rintro ⟨_, rfl, rfl⟩; exact ⟨rfl, rfl⟩
    · rename_i hp
      simp only [List.not_mem_nil, false_iff, not_and]
      rintro h rfl rfl; exact hp (by simpa using h)

theorem matchString_iff (r : RE) (s : List Char) : matchString r s = true ↔ Matches r s := by
  simp only [matchString, Matches, List.any_eq_true, Prod.exists, Bool.not_eq_true', List.isEmpty_eq_false_iff_exists_mem, mem_splits]
  constructor
  · rintro ⟨pre, rest, rfl, mid, post, h⟩
    obtain ⟨rfl, hm⟩ := mem_run.mp h
    exact ⟨pre, mid, post, by simp, hm⟩
  · rintro ⟨pre, mid, post, rfl, hm⟩
    exact ⟨pre, mid ++ post, by simp, mid, post, mem_run.mpr ⟨rfl, hm⟩⟩

/-- a token list's expression is context-independent and accepts exactly what the specification accepts -/
theorem M_compileToks (ts : List Tok) (pre mid post : List Char) :
    M (compileToks ts) pre mid post ↔ globMatch ts mid := by
  induction ts generalizing pre mid post with
  | nil => simp [compileToks, M, globMatch]
  | cons t ts ih =>
    cases t with
    | star =>
      simp only [compileToks, compileTok, M, globMatch, ih]
    | dstar =>
      simp only [compileToks, compileTok, M, globMatch, ih, true_and]
    | q =>
      simp only [compileToks, compileTok, M, globMatch, ih]
      constructor
      · rintro ⟨m₁, m₂, rfl, ⟨c, rfl⟩, h⟩; exact ⟨c, m₂, rfl, h⟩
      · rintro ⟨c, m₂, rfl, h⟩; exact ⟨[c], m₂, rfl, ⟨c, rfl⟩, h⟩
    | ch c =>
      simp only [compileToks, compileTok, M, globMatch, ih]
      constructor
      · rintro ⟨m₁, m₂, rfl, rfl, h⟩; exact ⟨m₂, rfl, h⟩
      · rintro ⟨m₂, rfl, h⟩; exact ⟨[c], m₂, rfl, rfl, h⟩

theorem M_altAll {rs : List RE} {pre mid post : List Char} :
    M (altAll rs) pre mid post ↔ ∃ r ∈ rs, M r pre mid post := by
  induction rs with
  | nil => simp [altAll, M]
  | cons r rs ih =>
    cases rs with
    | nil => simp [altAll]
    | cons r' rs' =>
      simp only [altAll, M, List.mem_cons, exists_eq_or_imp] at ih ⊢
      rw [ih]

/-- `^r$` under an unanchored search is a whole-string match of `r` -/
theorem Matches_anchored (r : RE) (s : List Char) :
    Matches (.seq .bol (.seq r .eol)) s ↔ M r [] s [] := by
  simp only [Matches, M]
  constructor
  · rintro ⟨pre, mid, post, rfl, m₁, m₂, rfl, ⟨rfl, rfl⟩, m₃, m₄, rfl, hr, rfl, rfl⟩
    simpa using hr
  · intro h
    exact ⟨[], s, [], by simp, [], s, rfl, ⟨rfl, rfl⟩, s, [], by simp, by simpa using h, rfl, rfl⟩

theorem globMatchB_iff (ts : List Tok) (s : List Char) : globMatchB ts s = true ↔ globMatch ts s := by
  induction ts generalizing s with
  | nil => simp [globMatchB, globMatch]
  | cons t ts ih =>
    cases t with
    | star =>
      simp only [globMatchB, globMatch, List.any_eq_true, List.mem_range, Bool.and_eq_true, List.all_eq_true,
        decide_eq_true_eq, ih]
      constructor
      · rintro ⟨n, _, h1, h2⟩
        exact ⟨s.take n, s.drop n, (List.take_append_drop n s).symm, fun c hc => by simpa using h1 c hc, h2⟩
      · rintro ⟨s₁, s₂, rfl, h1, h2⟩
        refine ⟨s₁.length, by simp; omega, ?_, ?_⟩
        · intro c hc; simp at hc; simpa using h1 c hc
        · simpa using h2
    | dstar =>
      simp only [globMatchB, globMatch, List.any_eq_true, List.mem_range, ih]
      constructor
      · rintro ⟨n, _, h2⟩
        exact ⟨s.take n, s.drop n, (List.take_append_drop n s).symm, h2⟩
      · rintro ⟨s₁, s₂, rfl, h2⟩
        exact ⟨s₁.length, by simp; omega, by simpa using h2⟩
    | q =>
      cases s with
      | nil => simp [globMatchB, globMatch]
      | cons d s₂ =>
        simp only [globMatchB, globMatch, ih, List.cons.injEq]
        constructor
        · intro h; exact ⟨d, s₂, ⟨rfl, rfl⟩, h⟩
        · rintro ⟨_, _, ⟨rfl, rfl⟩, h⟩; exact h
    | ch c =>
      cases s with
      | nil => simp [globMatchB, globMatch]
      | cons d s₂ =>
        simp only [globMatchB, globMatch, Bool.and_eq_true, beq_iff_eq, ih, List.cons.injEq]
        constructor
        · rintro ⟨rfl, h⟩; exact ⟨s₂, ⟨rfl, rfl⟩, h⟩
        · rintro ⟨_, ⟨rfl, rfl⟩, h⟩; exact ⟨rfl, h⟩

end Dawn.Glob

import Dawn.Model.Pickle
/-! More fuel never changes what the encoder model produces. -/
namespace Dawn.Pickle

abbrev EncF := EncSt → Val → Option (EncSt × List Op)

def Below (f f' : EncF) : Prop := ∀ st v r, f st v = some r → f' st v = some r

theorem encSeq_mono {f f' : EncF} (h : Below f f') : ∀ xs st r, encSeq f st xs = some r → encSeq f' st xs = some r := by
  intro xs
  induction xs with
  | nil => intro st r hr; simpa [encSeq] using hr
  | cons x xs ih =>
    intro st r hr
    simp only [encSeq] at hr ⊢
    cases h1 : f st x with
    | none => simp [h1] at hr
    | some p1 =>
      obtain ⟨st1, ops1⟩ := p1
      simp only [h1] at hr
      rw [h st x _ h1]
      cases h2 : encSeq f st1 xs with
      | none => simp [h2] at hr
      | some p2 =>
        simp only [h2] at hr
        simp only [ih st1 _ h2]
        exact hr

theorem encBatches_mono {f f' : EncF} (h : Below f f') (rb : Bool) (self close : Op) :
    ∀ bs first st r, encBatches f rb self close first st bs = some r → encBatches f' rb self close first st bs = some r := by
  intro bs
  induction bs with
  | nil => intro first st r hr; simpa [encBatches] using hr
  | cons b bs ih =>
    intro first st r hr
    simp only [encBatches] at hr ⊢
    cases h1 : encSeq f st b with
    | none => simp [h1] at hr
    | some p1 =>
      obtain ⟨st1, ops1⟩ := p1
      simp only [h1] at hr
      rw [encSeq_mono h b st _ h1]
      cases h2 : encBatches f rb self close false st1 bs with
      | none => simp [h2] at hr
      | some p2 =>
        simp only [h2] at hr
        simp only [ih false st1 _ h2]
        exact hr

theorem encVal_mono (cfg : EncCfg) (g : Heap) : ∀ fuel, Below (encVal cfg g fuel) (encVal cfg g (fuel + 1)) := by
  intro fuel
  induction fuel with
  | zero =>
    intro st v r h
    cases v <;> simp_all [encVal]
  | succ n ih =>
    intro st v r h
    cases v with
    | atom a => simpa [encVal] using h
    | mark => simp [encVal] at h
    | global i m k => simp [encVal] at h
    | ref a =>
      have hs := fun xs st r => encSeq_mono ih xs st r
      have hb := fun rb self close bs first st r => encBatches_mono ih rb self close bs first st r
      simp only [encVal] at h ⊢
      cases hl : lookup st.memo a with
      | some id => simpa [hl] using h
      | none =>
        simp only [hl] at h ⊢
        cases hg : g[a]? with
        | none => simp [hg] at h
        | some o =>
          simp only [hg] at h ⊢
          cases o with
          | tuple xs =>
            simp only at h ⊢
            cases h1 : encSeq (encVal cfg g n) st xs with
            | none => simp [h1] at h
            | some p => simp only [h1] at h; simp only [hs _ _ _ h1]; exact h
          | list xs =>
            rcases xs with _ | ⟨x, _ | ⟨y, t⟩⟩
            · exact h
            · simp only at h ⊢
              split at h
              · rename_i haeq
                simp only [if_pos haeq]
                cases h1 : encVal cfg g n { memo := (a, st.memo.length) :: st.memo, next := st.next + 1 } x with
                | none => simp [h1] at h
                | some p => simp only [h1] at h; simp only [ih _ _ _ h1]; exact h
              · cases h
            · simp only at h ⊢
              split at h
              · rename_i haeq
                simp only [if_pos haeq]
                generalize chunks batchSize _ (x :: y :: t) = ch at h ⊢
                cases h1 : encBatches (encVal cfg g n) cfg.rebatch (encGet st.memo.length) .appends true
                    { memo := (a, st.memo.length) :: st.memo, next := st.next + 1 } ch with
                | none => simp [h1] at h
                | some p => simp only [h1] at h; simp only [hb _ _ _ _ _ _ _ h1]; exact h
              · cases h
          | dict kvs =>
            simp only at h ⊢
            split at h
            · rename_i haeq
              simp only [if_pos haeq]
              cases h1 : encBatches (encVal cfg g n) cfg.rebatch (encGet st.memo.length) .setitems true
                  { memo := (a, st.memo.length) :: st.memo, next := st.next + 1 }
                  ((chunks batchSize kvs.length kvs).map flattenPairs) with
              | none => simp [h1] at h
              | some p => simp only [h1] at h; simp only [hb _ _ _ _ _ _ _ h1]; exact h
            · cases h
          | set xs =>
            simp only at h ⊢
            split at h
            · rename_i haeq
              simp only [if_pos haeq]
              cases h1 : encBatches (encVal cfg g n) cfg.rebatch (encGet st.memo.length) .additems true
                  { memo := (a, st.memo.length) :: st.memo, next := st.next + 1 } (chunks batchSize xs.length xs) with
              | none => simp [h1] at h
              | some p => simp only [h1] at h; simp only [hb _ _ _ _ _ _ _ h1]; exact h
            · cases h
          | host m k args =>
            simp only at h ⊢
            split at h
            · cases h
            · rename_i hp
              simp only [if_neg hp]
              cases args with
              | ref t =>
                simp only at h ⊢
                cases hgt : g[t]? with
                | none => simp [hgt] at h
                | some ot =>
                  cases ot <;> simp only [hgt] at h ⊢ <;> try (cases h; done)
                  cases h1 : encVal cfg g n st (.ref t) with
                  | none => simp [h1] at h
                  | some p => simp only [h1] at h; simp only [ih _ _ _ h1]; exact h
              | atom _ => simp at h
              | mark => simp at h
              | global _ _ _ => simp at h

/-- success with some fuel is success, with the same result, with any larger fuel -/
theorem encVal_fuel_mono (cfg : EncCfg) (g : Heap) (fuel extra : Nat) : Below (encVal cfg g fuel) (encVal cfg g (fuel + extra)) := by
  induction extra with
  | zero => intro st v r h; exact h
  | succ k ih => intro st v r h; exact encVal_mono cfg g (fuel + k) st v r (ih st v r h)

end Dawn.Pickle

import Dawn.Proofs.LoaderInv5
import Dawn.Proofs.LoaderCond
import Dawn.Proofs.LoaderDeadlock
/-!
Progress of the fixed loader: a measure on states of a project whose reachable modules are all below `N` that every step
other than a chain-walk read strictly decreases (a chain-walk read leaves it unchanged).

`μ = Σ_{m < N, m not yet registered} W m  +  Σ_{goroutines t} (rank (pc t) + Σ_{frames f of t} (9·|f.todo| + 2))`:
registering a module releases its budget `W m`, which pays for pushing its frame and executing its body; every completed
`load` statement shortens a `todo` list; within one `load` the program counter moves down the ranks.
-/
namespace Dawn.Loader

def sumTo : Nat → (Nat → Nat) → Nat
  | 0, _ => 0
  | n + 1, h => sumTo n h + h n

theorem sumTo_congr {n : Nat} {h h' : Nat → Nat} (e : ∀ i, i < n → h' i = h i) : sumTo n h' = sumTo n h := by
  induction n with
  | zero => rfl
  | succ n ih => simp only [sumTo]; rw [ih (fun i hi => e i (by omega)), e n (by omega)]

/-- changing the summand at one index -/
theorem sumTo_update {n : Nat} {h h' : Nat → Nat} {t : Nat} (ht : t < n) (hoth : ∀ i, i ≠ t → h' i = h i) :
    sumTo n h' + h t = sumTo n h + h' t := by
  induction n with
  | zero => omega
  | succ n ih =>
    simp only [sumTo]
    by_cases e : t = n
    · subst e
      rw [sumTo_congr (h := h) (h' := h') (fun i hi => hoth i (by omega))]
      omega
    · have := ih (by omega)
      rw [hoth n (Ne.symm e)]
      omega

/-- rank of a program counter: decreases along the statements of one `load` -/
def rank (P : Project) : PC → Nat
  | .finished => 0
  | .fin _ => 1
  | .unset _ => 2
  | .sleep _ => 3
  | .check _ => 4
  | .wlock _ => 5
  | .walk _ _ => 6
  | .enter _ => 7
  | .setFound _ => 8
  | .call _ => 9
  | .run => 10
  | .load d => 14 + 9 * (P.loads d).length
  | .setNew d => 15 + 9 * (P.loads d).length

def frameCost (f : Frame) : Nat := 9 * f.todo.length + 2

def stackCost : List Frame → Nat
  | [] => 0
  | f :: rest => frameCost f + stackCost rest

def threadCost (P : Project) (s : State) (t : Tid) : Nat := rank P (s.pc t) + stackCost (s.stack t)

/-- budget of a module that has not been registered yet -/
def regCost (P : Project) (s : State) (m : Mod) : Nat := if s.registry m then 0 else 16 + 9 * (P.loads m).length

/-- the termination measure of a project whose reachable modules are all `< N` -/
def mu (P : Project) (N : Nat) (s : State) : Nat :=
  sumTo N (regCost P s) + sumTo P.roots.length (threadCost P s)

/-- all modules the project can reach are below `N` -/
def Bounded (P : Project) (N : Nat) : Prop := ∀ m, Reach P m → m < N

/-- the step thread `t` is about to take is a chain-walk read (`loading = loading.getLoading()`) -/
def isWalkRead (s : State) (t : Tid) : Prop := ∃ d c, s.pc t = .walk d (some c) ∧ top s t ≠ some c

/-- a step of `t` that leaves the registry and the other goroutines alone changes `μ` by `t`'s own cost -/
theorem mu_thread {P : Project} {N : Nat} {s s' : State} {t : Tid} (ht : t < P.roots.length)
    (hreg : s'.registry = s.registry) (hst : ∀ t1, t1 ≠ t → s'.stack t1 = s.stack t1)
    (hpc : ∀ t1, t1 ≠ t → s'.pc t1 = s.pc t1) :
    mu P N s' + threadCost P s t = mu P N s + threadCost P s' t := by
  have h1 : sumTo N (regCost P s') = sumTo N (regCost P s) :=
    sumTo_congr (fun i _ => by simp [regCost, hreg])
  have h2 := sumTo_update (h := threadCost P s) (h' := threadCost P s') ht
    (fun i hi => by simp [threadCost, hst i hi, hpc i hi])
  simp only [mu, h1]
  omega

theorem mu_lt_of_thread {P : Project} {N : Nat} {s s' : State} {t : Tid} (ht : t < P.roots.length)
    (hreg : s'.registry = s.registry) (hst : ∀ t1, t1 ≠ t → s'.stack t1 = s.stack t1)
    (hpc : ∀ t1, t1 ≠ t → s'.pc t1 = s.pc t1) (h : threadCost P s' t < threadCost P s t) :
    mu P N s' < mu P N s := by
  have := mu_thread (N := N) ht hreg hst hpc
  omega

theorem mu_eq_of_thread {P : Project} {N : Nat} {s s' : State} {t : Tid} (ht : t < P.roots.length)
    (hreg : s'.registry = s.registry) (hst : ∀ t1, t1 ≠ t → s'.stack t1 = s.stack t1)
    (hpc : ∀ t1, t1 ≠ t → s'.pc t1 = s.pc t1) (h : threadCost P s' t = threadCost P s t) :
    mu P N s' = mu P N s := by
  have := mu_thread (N := N) ht hreg hst hpc
  omega

/-- a goroutine that can take a step is one of the project's loader goroutines -/
theorem fstep_tid {P : Project} {s s' : State} {t : Tid} (inv1 : Inv1 P s) (st : FStep P s t s') :
    t < P.roots.length := by
  apply Classical.byContradiction
  intro h
  have hf := inv1.idle t (Nat.le_of_not_lt h)
  cases st <;> simp_all

theorem progress_fstep {P : Project} {N : Nat} {s s' : State} {t : Tid} (hb : Bounded P N) (inv1 : Inv1 P s)
    (inv4 : Inv4 P s) (invA : InvA s) (st : FStep P s t s') (hw : ¬ isWalkRead s t) : mu P N s' < mu P N s := by
  have ht := fstep_tid inv1 st
  cases st
  case callNew d hpc hr =>
    -- registering `d` releases its budget
    have hd : d < N := hb d (inv4.tgt_reach t d (by simp [hpc, target]))
    have h1 := sumTo_update (n := N) (h := regCost P s)
      (h' := regCost P { s with registry := upd s.registry d true, pc := upd s.pc t (.setNew d) }) hd
      (fun i hi => by simp [regCost, upd, hi])
    have h2 := sumTo_update (n := P.roots.length) (h := threadCost P s)
      (h' := threadCost P { s with registry := upd s.registry d true, pc := upd s.pc t (.setNew d) }) ht
      (fun i hi => by simp [threadCost, upd, hi])
    simp only [mu]
    simp only [regCost, upd_same, hr, threadCost, hpc, rank, Bool.false_eq_true, ↓reduceIte] at h1 h2
    omega
  case wakeAgain d hpc hna hl =>
    -- a woken goroutine finds the module loaded
    rcases invA.woken t d hpc with h | h
    · simp [h] at hna
    · rw [hl] at h; cases h
  case walkNext d c hpc htop => exact absurd ⟨d, c, hpc, htop⟩ hw
  case unsetOk f rest hpc hst =>
    have hne := inv1.unset_frame t f rest .ok hst hpc
    refine mu_lt_of_thread ht rfl (fun t1 h => by simp [upd, h]) (fun t1 h => by simp [upd, h]) ?_
    cases htd : f.todo with
    | nil => exact absurd htd hne
    | cons a as => simp [threadCost, hpc, hst, rank, stackCost, frameCost, htd]; omega
  case load d hpc =>
    refine mu_lt_of_thread ht rfl (fun t1 h => by simp [upd, h]) (fun t1 h => by simp [upd, h]) ?_
    simp [threadCost, hpc, rank, stackCost, frameCost]; omega
  case fin r f rest hpc hst =>
    refine mu_lt_of_thread ht rfl (fun t1 h => by simp [upd, h]) (fun t1 h => by simp [upd, h]) ?_
    simp [threadCost, hpc, hst, rank, stackCost, frameCost]; omega
  all_goals
    refine mu_lt_of_thread ht rfl (fun t1 h => by simp [setPc, publish, goSleep, upd, h])
      (fun t1 h => by simp [setPc, publish, goSleep, upd, h]) ?_
    simp [threadCost, setPc, publish, goSleep, rank, *]

/-- a chain-walk read leaves the measure unchanged -/
theorem walk_read_mu {P : Project} {N : Nat} {s : State} {t : Tid} {d c : Mod} (ht : t < P.roots.length)
    (hpc : s.pc t = .walk d (some c)) : mu P N (setPc s t (.walk d (s.loading c))) = mu P N s :=
  mu_eq_of_thread ht rfl (fun t1 h => by simp [setPc]) (fun t1 h => by simp [setPc, upd, h])
    (by simp [threadCost, setPc, hpc, rank])

/-! ### a chain walk that nobody disturbs is short -/

/-- the module reached from `c` by exactly `j` hops along the `loading` fields -/
def ptrAt (s : State) (c : Mod) : Nat → Option Mod
  | 0 => some c
  | j + 1 => (ptrAt s c j).bind s.loading

/-- the `loading` fields contain a cycle -/
def PtrCycle (s : State) : Prop := ∃ y j, 0 < j ∧ ptrAt s y j = some y

theorem ptrAt_add (s : State) (c : Mod) (i k : Nat) : ptrAt s c (i + k) = (ptrAt s c i).bind (fun m => ptrAt s m k) := by
  induction k with
  | zero => simp [ptrAt]
  | succ k ih =>
    rw [← Nat.add_assoc, ptrAt, ih]
    cases ptrAt s c i <;> simp [ptrAt]

theorem ptrAt_succ' (s : State) (c : Mod) (j : Nat) : ptrAt s c (j + 1) = (s.loading c).bind (fun m => ptrAt s m j) := by
  have := ptrAt_add s c 1 j
  rw [Nat.add_comm] at this
  rw [this]
  simp [ptrAt]

theorem ptrAt_setPc (s : State) (t : Tid) (p : PC) (c : Mod) (j : Nat) : ptrAt (setPc s t p) c j = ptrAt s c j := by
  induction j with
  | zero => rfl
  | succ j ih => simp only [ptrAt, ih]; rfl

/-- `k` consecutive chain-walk reads of goroutine `t` with no step of any other goroutine in between -/
inductive SoloReads (t : Tid) : State → Nat → State → Prop where
  | zero (s : State) : SoloReads t s 0 s
  | succ {s s'' : State} {d c : Mod} {k : Nat} : s.pc t = .walk d (some c) → top s t ≠ some c →
      SoloReads t (setPc s t (.walk d (s.loading c))) k s'' → SoloReads t s (k + 1) s''

/-- during `k` solo reads starting at `c` the walk stands on `c`, `loading c`, `loading (loading c)`, … -/
theorem soloReads_positions {t : Tid} {s s' : State} {k : Nat} (h : SoloReads t s k s') :
    ∀ d c, s.pc t = .walk d (some c) → ∀ j, j < k → (ptrAt s c j).isSome := by
  induction h with
  | zero => intro d c _ j hj; omega
  | @succ s s'' d0 c0 k hpc htop hrest ih =>
    intro d c hpc' j hj
    rw [hpc] at hpc'
    cases hpc'
    cases j with
    | zero => simp [ptrAt]
    | succ j =>
      -- the next position is `loading c`, from which the remaining reads start
      cases hk : k with
      | zero => omega
      | succ k' =>
        subst hk
        cases hrest with
        | @succ _ _ d2 c2 _ hpc2 htop2 hrest2 =>
          simp only [setPc, upd_same, PC.walk.injEq] at hpc2
          obtain ⟨rfl, hl⟩ := hpc2
          have := ih d0 c2 (by simp [setPc, hl]) j (by omega)
          rw [ptrAt_setPc] at this
          rw [ptrAt_succ', hl]
          simpa using this

/-- every position of a walk is a module the project can reach -/
theorem ptrAt_reach {P : Project} {s : State} (inv1 : Inv1 P s) (inv3 : Inv3 s) {c : Mod}
    (hc : Reach P c) : ∀ j m, ptrAt s c j = some m → Reach P m := by
  intro j
  induction j with
  | zero => intro m h; simp [ptrAt] at h; subst h; exact hc
  | succ j ih =>
    intro m h
    simp only [ptrAt] at h
    cases hp : ptrAt s c j with
    | none => simp [hp] at h
    | some y =>
      simp only [hp, Option.bind_some] at h
      exact (ih y hp).step (loading_edge inv1 inv3 h).1

/-- a chain walk that no other goroutine disturbs makes at most `N` reads — unless the `loading` fields contain a cycle -/
theorem walk_bounded {P : Project} {N : Nat} {s s' : State} {t : Tid} {k : Nat} (hb : Bounded P N)
    (hr : Reachable .fixed P s) (h : SoloReads t s k s') : k ≤ N ∨ PtrCycle s := by
  apply Classical.byContradiction
  intro hno
  have hk : N < k := by
    apply Classical.byContradiction
    intro h'
    exact hno (Or.inl (Nat.le_of_not_lt h'))
  have inv1 := inv1_reachable hr
  have inv3 := inv3_reachable hr
  have inv4 := inv4_reachable hr
  cases h with
  | zero => omega
  | @succ _ _ d c k' hpc htop hrest =>
    have hpos := soloReads_positions (SoloReads.succ hpc htop hrest) d c hpc
    have hc : Reach P c := (inv4.tgt_reach t d (by simp [hpc, target])).path (inv4.walk_path t d c hpc)
    let g : Nat → Nat := fun j => (ptrAt s c (j % (N + 1))).getD 0
    have hg : ∀ j, g j < N := by
      intro j
      have hj : j % (N + 1) < k' + 1 := by
        have := Nat.mod_lt j (show 0 < N + 1 by omega)
        omega
      have hs := hpos _ hj
      cases hp : ptrAt s c (j % (N + 1)) with
      | none => simp [hp] at hs
      | some m =>
        show (ptrAt s c (j % (N + 1))).getD 0 < N
        rw [hp]
        exact hb m (ptrAt_reach inv1 inv3 hc _ m hp)
    obtain ⟨i, j, hij, hjN, e⟩ := pigeonhole g N hg
    have hi : i % (N + 1) = i := Nat.mod_eq_of_lt (by omega)
    have hj : j % (N + 1) = j := Nat.mod_eq_of_lt (by omega)
    have hsi := hpos i (by omega)
    have hsj := hpos j (by omega)
    cases hpi : ptrAt s c i with
    | none => simp [hpi] at hsi
    | some y =>
      cases hpj : ptrAt s c j with
      | none => simp [hpj] at hsj
      | some z =>
        have e' : y = z := by
          have : (ptrAt s c (i % (N + 1))).getD 0 = (ptrAt s c (j % (N + 1))).getD 0 := e
          rw [hi, hj, hpi, hpj] at this
          simpa using this
        subst e'
        refine hno (Or.inr ⟨y, j - i, by omega, ?_⟩)
        have := ptrAt_add s c i (j - i)
        rw [show i + (j - i) = j by omega, hpj, hpi] at this
        simpa using this.symm

/-! ### a cycle of `loading` fields is being detected -/

/-- from `a ≠ x`, `n + 1` hops lead to `x` through modules none of which published after `x`: an old path to `x` -/
theorem seg_of_ptr {s : State} (inv3 : Inv3 s) {x : Mod} (hx : s.loading x ≠ none) :
    ∀ n a, ptrAt s a (n + 1) = some x → (∀ i z, ptrAt s a i = some z → s.ptime z ≤ s.ptime x) → a ≠ x → Seg s x a x := by
  intro n
  induction n with
  | zero =>
    intro a h hle hne
    rw [ptrAt_succ'] at h
    cases hl : s.loading a with
    | none => simp [hl] at h
    | some b =>
      simp only [hl, Option.bind_some, ptrAt, Option.some.injEq] at h
      subst h
      have h1 := hle 0 a rfl
      have h2 : s.ptime a ≠ s.ptime b := fun e => hne (inv3.ptime_inj a b (by simp [hl]) hx e)
      exact .one hl (by omega)
  | succ n ih =>
    intro a h hle hne
    rw [ptrAt_succ'] at h
    cases hl : s.loading a with
    | none => simp [hl] at h
    | some b =>
      simp only [hl, Option.bind_some] at h
      have h1 := hle 0 a rfl
      have h2 : s.ptime a ≠ s.ptime x := fun e => hne (inv3.ptime_inj a x (by simp [hl]) hx e)
      have hlt : s.ptime a < s.ptime x := by omega
      by_cases hb : b = x
      · subst hb; exact .one hl hlt
      · refine .more hl hlt (ih b h (fun i z hz => hle (i + 1) z ?_) hb)
        rw [ptrAt_succ', hl]; simpa using hz

/-- A cycle of `loading` fields is never stable: the module on it that published last is the top frame of a goroutine
that is between publishing and un-publishing — entering `wait`, on its chain walk (which is on the path back to itself,
so it ends with the cyclic-dependency verdict), or about to clear its pointer — and that goroutine can take a step. -/
theorem cycle_detector {P : Project} {s : State} (hr : Reachable .fixed P s) (hc : PtrCycle s) :
    ∃ u f rest d, s.stack u = f :: rest ∧ s.loading f.mod = some d ∧
      (s.pc u = .enter d ∨ (∃ cur, s.pc u = .walk d cur) ∨ ∃ r, s.pc u = .unset r) ∧
      ∃ s', next .fixed P s u = some s' := by
  have lf := lockFree_reachable hr
  have inv1 := inv1_reachable hr
  have inv2 := inv2_reachable hr
  have inv3 := inv3_reachable hr
  have inv6 := inv6_reachable hr
  obtain ⟨y, j, hj, hy⟩ := hc
  -- every position on the cycle is defined, and the positions repeat with period j
  have hper : ∀ i, ptrAt s y (i + j) = ptrAt s y i := by
    intro i; rw [Nat.add_comm, ptrAt_add, hy]; rfl
  have hdef : ∀ i, (ptrAt s y i).isSome := by
    intro i
    induction i using Nat.strongRecOn with
    | _ i ih =>
      by_cases hi : i < j
      · cases hp : ptrAt s y i with
        | some z => rfl
        | none =>
          have := ptrAt_add s y i (j - i)
          rw [show i + (j - i) = j by omega, hy, hp] at this
          simp at this
      · have := ih (i - j) (by omega)
        rw [← hper (i - j), show i - j + j = i by omega] at this
        exact this
  let node : Nat → Mod := fun i => (ptrAt s y i).getD 0
  have hnode : ∀ i, ptrAt s y i = some (node i) := by
    intro i
    have := hdef i
    show ptrAt s y i = some ((ptrAt s y i).getD 0)
    cases hp : ptrAt s y i with
    | none => simp [hp] at this
    | some z => rfl
  have hnext : ∀ i, s.loading (node i) = some (node (i + 1)) := by
    intro i
    have := hnode (i + 1)
    simp only [ptrAt, hnode i, Option.bind_some] at this
    exact this
  have hnper : ∀ i, node (i + j) = node i := fun i => by show (ptrAt s y (i + j)).getD 0 = _; rw [hper]
  -- the position that published last
  obtain ⟨m, hm, hmax⟩ := exists_max (fun i => s.ptime (node i)) j hj
  have hmaxAll : ∀ i, s.ptime (node i) ≤ s.ptime (node m) := by
    intro i
    obtain ⟨k, hk, e⟩ := periodic_reduce node j hj hnper i
    rw [e]; exact hmax k hk
  let x := node m
  have hxl : s.loading x = some (node (m + 1)) := hnext m
  have hxptr : s.loading x ≠ none := by rw [hxl]; simp
  -- it sits in a frame; it is the top frame, because a frame above it would have published later
  obtain ⟨_, u, f, hf, hfx⟩ := loading_edge inv1 inv3 hxl
  cases hs : s.stack u with
  | nil => rw [hs] at hf; simp at hf
  | cons g rest =>
    have hc := inv3.chain u g rest hs
    have htop : g.mod = x := by
      apply Classical.byContradiction
      intro hne
      rw [hs] at hf
      simp only [List.mem_cons] at hf
      rcases hf with rfl | hf
      · exact hne hfx
      · -- f is a lower frame: the top g has a pointer? at least the frame directly above f does; use the order
        -- invariant with the module x points to, which is a frame above f and on the cycle
        have hchain : ∀ (stk : List Frame) (p : Option Mod), chainOK s.loading p stk →
            ∀ (a : Frame) (pre post : List Frame), stk = pre ++ a :: post → pre ≠ [] →
              ∃ b, b ∈ pre ∧ s.loading a.mod = some b.mod := by
          intro stk
          induction stk with
          | nil => intro p _ a pre post h; simp at h
          | cons h0 tl ih =>
            intro p hch a pre post he hpre
            simp only [chainOK] at hch
            cases pre with
            | nil => exact absurd rfl hpre
            | cons p0 pre' =>
              simp only [List.cons_append, List.cons.injEq] at he
              obtain ⟨rfl, he⟩ := he
              cases pre' with
              | nil =>
                simp only [List.nil_append] at he
                subst he
                simp only [chainOK] at hch
                exact ⟨h0, by simp, hch.2.1⟩
              | cons p1 pre'' =>
                obtain ⟨b, hb, hl⟩ := ih (some h0.mod) hch.2 a (p1 :: pre'') post he (by simp)
                exact ⟨b, by simp only [List.mem_cons] at hb ⊢; exact Or.inr hb, hl⟩
        obtain ⟨pre, post, hsplit⟩ := List.append_of_mem hf
        obtain ⟨b, hb, hlb⟩ := hchain (g :: rest) _ hc f (g :: pre) post (by simp [hsplit]) (by simp)
        -- b is above f in the stack and is node (m+1)
        rw [hfx, hxl] at hlb
        have hbn : b.mod = node (m + 1) := (Option.some.inj hlb).symm
        have hbptr : s.loading b.mod ≠ none := by rw [hbn, hnext (m + 1)]; simp
        have ho := inv3.order u
        rw [hs, hsplit, show g :: (pre ++ f :: post) = (g :: pre) ++ f :: post by simp, List.pairwise_append] at ho
        have := ho.2.2 b hb f (by simp) hbptr
        rw [hfx, hbn] at this
        have := hmaxAll (m + 1)
        have hx' : s.ptime x = s.ptime (node m) := rfl
        omega
    have hfg : g.mod = x := htop
    simp only [chainOK] at hc
    have hptr : topPtr (s.pc u) g = some (node (m + 1)) := by rw [← hc.1, hfg, hxl]
    let d := node (m + 1)
    -- the old path from d back to x, unless d = x
    have hseg : d = x ∨ Seg s x d x := by
      by_cases hd : d = x
      · exact Or.inl hd
      · right
        -- after j - 1 further hops from d we are back at x
        have hback : ptrAt s d (j - 1) = some x := by
          have h1 := ptrAt_add s y (m + 1) (j - 1)
          rw [hnode (m + 1)] at h1
          simp only [Option.bind_some] at h1
          rw [← h1, show m + 1 + (j - 1) = m + j by omega, hper, hnode m]
        cases hj1 : j - 1 with
        | zero => rw [hj1] at hback; simp [ptrAt] at hback; exact absurd hback hd
        | succ n =>
          rw [hj1] at hback
          refine seg_of_ptr inv3 hxptr n d hback (fun i z hz => ?_) hd
          have h1 := ptrAt_add s y (m + 1) i
          rw [hnode (m + 1)] at h1
          simp only [Option.bind_some] at h1
          rw [hz, hnode (m + 1 + i)] at h1
          cases h1
          exact hmaxAll (m + 1 + i)
    -- so the goroutine is not in the condition wait, and it has not just registered d
    have hsafe := inv6.wait_safe u g rest d hs
    rw [hfg] at hsafe
    have hnowait : ¬ (s.pc u = .wlock d ∨ s.pc u = .sleep d) := by
      intro hw
      have := hsafe hw
      rcases hseg with h | h
      · exact this.1 h
      · exact this.2 h
    refine ⟨u, g, rest, d, hs, by rw [hfg]; exact hxl, ?_⟩
    have hm0 := lf.1
    cases hpc : s.pc u <;> simp only [hpc, topPtr, reduceCtorEq, Option.some.injEq] at hptr
    case load d' =>
      -- d' = d is claimed but not yet in any frame, so it has no pointer — but it is on the cycle
      have hfresh := (inv2.new_fresh u d' (Or.inr hpc)).2.2
      have := inv3.free_none d' hfresh
      rw [hptr, hnext (m + 1)] at this
      cases this
    case enter d' =>
      subst hptr
      refine ⟨Or.inl rfl, ?_⟩
      simp [next, hpc, top, hs, hm0]
    case walk d' cur =>
      subst hptr
      refine ⟨Or.inr (Or.inl ⟨cur, rfl⟩), ?_⟩
      cases cur with
      | none => simp [next, hpc]
      | some c => by_cases hc' : top s u = some c <;> simp [next, hpc, hc', hm0]
    case check d' => exact absurd hpc (lf.2 u d')
    case wlock d' => subst hptr; exact absurd (Or.inl hpc) hnowait
    case sleep d' => subst hptr; exact absurd (Or.inr hpc) hnowait
    case unset r =>
      refine ⟨Or.inr (Or.inr ⟨r, rfl⟩), ?_⟩
      by_cases hr' : r = .ok <;> simp [next, hpc, hs, hm0, hr']

end Dawn.Loader

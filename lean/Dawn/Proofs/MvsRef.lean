import Dawn.Model.MvsRef
import Dawn.Proofs.MvsOrder
/-!
# What C11 needs from ref resolution

A ref query resolves to a version of the queried project; when the revision carries a matching tag, to that tag;
otherwise to a pseudo-version that sorts strictly ABOVE the closest tagged ancestor's version — so that asking for a
revision that descends from the selected tag is never a downgrade. (`resolveRefQueryD33`, the code before the fix,
based the pseudo-version on the oldest tagged ancestor: `C11_ref_counterexample` in Props.)
-/
namespace Dawn.Mvs

theorem cmpList_append_lt {α : Type} {c : α → α → Ordering} (h : LawfulCmp c) :
    ∀ (l : List α) (x : α) (r : List α), cmpList c l (l ++ x :: r) = .lt
  | [], _, _ => rfl
  | a :: l, x, r => by
    simp only [List.cons_append, cmpList, h.refl]
    exact cmpList_append_lt h l x r

/-- `module.PseudoVersion` on a tagged version sorts strictly above that version -/
theorem pseudoVersion_gt (major : String) (s : SemVer) (stamp pid : String) :
    cmpVersion (.sv s) (pseudoVersion major (some s) stamp pid) = .lt := by
  unfold pseudoVersion
  dsimp only
  split
  · rename_i hpre
    simp only [cmpVersion, reduceCtorEq, ↓reduceIte, semverCompare, SemVer.cmp, lawful_compare_nat.refl]
    have : compare s.patch (s.patch + 1) = .lt := Nat.compare_eq_lt.mpr (Nat.lt_succ_self _)
    rw [this]
  · rename_i hpre
    simp only [cmpVersion, reduceCtorEq, ↓reduceIte, semverCompare, SemVer.cmp, lawful_compare_nat.refl]
    cases hp : s.pre with
    | nil => exact absurd hp hpre
    | cons a as =>
      simp only [List.cons_append, cmpPre]
      exact cmpList_append_lt lawful_preId (a :: as) _ _

theorem tagAt_spec {h : History} {major path anc : String} {t : Mod × String} (ht : tagAt h major path anc = some t) :
    t.1.path = path ∧ t.2 = anc ∧ t ∈ h.tagRevs := by
  unfold tagAt at ht
  have hm := List.mem_of_find?_eq_some ht
  have hp := List.find?_some ht
  simp only [decide_eq_true_eq] at hp
  exact ⟨hp.1, hp.2.2, List.mem_reverse.mp hm⟩

theorem closestTag_spec {h : History} {major path : String} : ∀ {ancestors : List String} {t : Mod × String},
    closestTag h major path ancestors = some t → t.1.path = path ∧ t.2 ∈ ancestors ∧ t ∈ h.tagRevs
  | [], _, ht => by simp [closestTag] at ht
  | a :: rest, t, ht => by
    simp only [closestTag] at ht
    split at ht
    · rename_i t' hta
      cases ht
      obtain ⟨h1, h2, h3⟩ := tagAt_spec hta
      exact ⟨h1, by rw [h2]; exact List.mem_cons_self, h3⟩
    · obtain ⟨h1, h2, h3⟩ := closestTag_spec ht
      exact ⟨h1, List.mem_cons_of_mem _ h2, h3⟩

/-- C11's contract on ref resolution: the answer is a version of the queried project; if the closest tagged ancestor
is the revision itself the answer is that tag; otherwise it sorts strictly above the closest tagged ancestor's version -/
theorem resolveRefQuery_spec {h : History} {major path ref revId : String} {rev : Revision} {m : Mod}
    (href : h.refs ref = some revId) (hrev : h.revision revId = some rev)
    (hres : resolveRefQuery h major path ref = .ok m) :
    m.path = path ∧
    ∀ t tr, closestTag h major path (h.ancestors revId) = some (t, tr) →
      (tr = rev.id → m = t) ∧ (tr ≠ rev.id → ∀ s, t.ver = .sv s → cmpVersion t.ver m.ver = .lt) := by
  unfold resolveRefQuery resolveRefWith at hres
  simp only [href, hrev] at hres
  cases hc : closestTag h major path (h.ancestors revId) with
  | none =>
    simp only [hc, Except.ok.injEq] at hres
    subst hres
    exact ⟨rfl, fun t tr ht => nomatch ht⟩
  | some ttr =>
    obtain ⟨t, tr⟩ := ttr
    have hspec := closestTag_spec hc
    simp only [hc] at hres
    split at hres
    · rename_i heq
      simp only [Except.ok.injEq] at hres
      subst hres
      refine ⟨hspec.1, ?_⟩
      intro t' tr' ht'
      cases ht'
      exact ⟨fun _ => rfl, fun hne => absurd heq hne⟩
    · rename_i hne
      cases htv : t.ver with
      | sv s =>
        simp only [htv, Except.ok.injEq] at hres
        subst hres
        refine ⟨rfl, ?_⟩
        intro t' tr' ht'
        cases ht'
        refine ⟨fun e => absurd e hne, fun _ s' hs' => ?_⟩
        rw [htv] at hs'; cases hs'
        rw [htv]
        exact pseudoVersion_gt major s rev.stamp rev.pseudoId
      | root =>
        simp only [htv, Except.ok.injEq] at hres
        subst hres
        refine ⟨rfl, ?_⟩
        intro t' tr' ht'
        cases ht'
        exact ⟨fun e => absurd e hne, fun _ s' hs' => by rw [htv] at hs'; cases hs'⟩
      | none =>
        simp only [htv, Except.ok.injEq] at hres
        subst hres
        refine ⟨rfl, ?_⟩
        intro t' tr' ht'
        cases ht'
        exact ⟨fun e => absurd e hne, fun _ s' hs' => by rw [htv] at hs'; cases hs'⟩

/-- the tag picked at an ancestor is the LAST matching one in `repo.Versions()` order; that list is sorted by version
(ascending, stably), so it is the greatest version tagged there -/
theorem tagAt_greatest {h : History} {major path anc : String} {t : Mod × String}
    (hsorted : h.tagRevs.Pairwise fun a b => Ver.le a.1.ver b.1.ver)
    (ht : tagAt h major path anc = some t) :
    ∀ t' ∈ h.tagRevs, t'.1.path = path → majorVersionMatch major t'.1.ver = true → t'.2 = anc → Ver.le t'.1.ver t.1.ver := by
  unfold tagAt at ht
  obtain ⟨_, as, bs, hsplit, hnone⟩ := List.find?_eq_some_iff_append.mp ht
  have hl : h.tagRevs = bs.reverse ++ t :: as.reverse := by
    have := congrArg List.reverse hsplit
    simpa using this
  intro t' ht' hp hm ha
  rw [hl] at ht' hsorted
  rcases List.mem_append.mp ht' with h1 | h1
  · exact (List.pairwise_append.mp hsorted).2.2 t' h1 t List.mem_cons_self
  · rcases List.mem_cons.mp h1 with rfl | h2
    · exact Ver.le_refl _
    · exfalso
      have := hnone t' (List.mem_reverse.mp h2)
      simp [hp, hm, ha] at this

theorem closestTag_greatest {h : History} {major path : String}
    (hsorted : h.tagRevs.Pairwise fun a b => Ver.le a.1.ver b.1.ver) :
    ∀ {ancestors : List String} {t : Mod × String}, closestTag h major path ancestors = some t →
      ∀ t' ∈ h.tagRevs, t'.1.path = path → majorVersionMatch major t'.1.ver = true → t'.2 = t.2 → Ver.le t'.1.ver t.1.ver
  | [], _, ht => by simp [closestTag] at ht
  | a :: rest, t, ht => by
    simp only [closestTag] at ht
    split at ht
    · rename_i t0 hta
      cases ht
      have := (tagAt_spec hta).2.1
      intro t' h1 h2 h3 h4
      exact tagAt_greatest hsorted hta t' h1 h2 h3 (by rw [h4, this])
    · exact closestTag_greatest hsorted ht

end Dawn.Mvs

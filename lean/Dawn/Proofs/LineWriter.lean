import Dawn.Model.LineWriter
/-! helper lemmas for C18 (line writer part) -/
namespace Dawn.LineWriter

theorem cutNL_none {b : Bytes} (h : cutNL b = none) : nl ∉ b := by
  induction b with
  | nil => simp
  | cons c t ih =>
    simp only [cutNL] at h
    split at h
    · cases h
    · rename_i hc
      split at h
      · rename_i h'
        simp only [List.mem_cons, not_or]
        exact ⟨fun e => hc e.symm, ih h'⟩
      · cases h

theorem cutNL_some {b pre rest : Bytes} (h : cutNL b = some (pre, rest)) : b = pre ++ nl :: rest ∧ nl ∉ pre := by
  induction b generalizing pre rest with
  | nil => simp [cutNL] at h
  | cons c t ih =>
    simp only [cutNL] at h
    split at h
    · rename_i hc
      cases h
      simp [hc]
    · rename_i hc
      split at h
      · cases h
      · rename_i pre' rest' h'
        cases h
        obtain ⟨e, hn⟩ := ih h'
        refine ⟨by rw [e]; simp, ?_⟩
        simp only [List.mem_cons, not_or]
        exact ⟨fun e => hc e.symm, hn⟩

/-- text without a newline only extends the pending line -/
theorem linesFrom_append_noNL (cur b rest : Bytes) (h : nl ∉ b) :
    linesFrom cur (b ++ rest) = linesFrom (cur ++ b) rest := by
  induction b generalizing cur with
  | nil => simp
  | cons c t ih =>
    simp only [List.mem_cons, not_or] at h
    have hc : c ≠ nl := fun e => h.1 e.symm
    simp only [List.cons_append, linesFrom, hc, ↓reduceIte]
    rw [ih _ h.2]
    simp

/-- a newline ends the pending line -/
theorem linesFrom_append_NL (cur pre rest : Bytes) (h : nl ∉ pre) :
    linesFrom cur (pre ++ nl :: rest) = (cur ++ pre) :: linesFrom [] rest := by
  rw [linesFrom_append_noNL _ _ _ h]
  simp [linesFrom]

/-- The invariant of `Write`: the builder content is the pending partial line of everything written so far. -/
theorem write_spec (line b rest : Bytes) :
    linesFrom line (b ++ rest) = (write line b).2 ++ linesFrom (write line b).1 rest := by
  induction h : b.length using Nat.strongRecOn generalizing line b with
  | _ n ih =>
    subst h
    rw [write]
    split
    · split
      · rename_i hcut
        simp only [List.nil_append]
        exact linesFrom_append_noNL _ _ _ (cutNL_none hcut)
      · rename_i pre rest' hcut
        obtain ⟨e, hn⟩ := cutNL_some hcut
        have hl := cutNL_length hcut
        split
        · rename_i hz
          have : line = [] := List.eq_nil_of_length_eq_zero hz
          subst this
          conv => lhs; rw [e]
          simp only [List.append_assoc, List.cons_append]
          rw [linesFrom_append_NL _ _ _ hn, ih _ hl [] rest' rfl]
          simp
        · conv => lhs; rw [e]
          simp only [List.append_assoc, List.cons_append]
          rw [linesFrom_append_NL _ _ _ hn, ih _ hl [] rest' rfl]
    · rename_i hz
      have : b = [] := List.eq_nil_of_length_eq_zero (by omega)
      subst this
      simp

theorem flush_spec (line : Bytes) : linesFrom line [] = (flush line).2 ∧ (flush line).1 = [] := by
  unfold flush linesFrom
  by_cases h : line = []
  · subst h; simp
  · have : line.length ≠ 0 := fun e => h (List.eq_nil_of_length_eq_zero e)
    simp [h, this]

def opsText : List Op → Bytes
  | [] => []
  | .write b :: ops => b ++ opsText ops
  | .flush :: ops => opsText ops

/-- writes only (no flush in between): lines delivered plus the pending line are the lines of the text -/
theorem run_writes_spec (line : Bytes) (chunks : List Bytes) (rest : Bytes) :
    linesFrom line (chunks.flatten ++ rest) =
      (run line (chunks.map Op.write)).2 ++ linesFrom (run line (chunks.map Op.write)).1 rest := by
  induction chunks generalizing line with
  | nil => simp [run, runWith]
  | cons c cs ih =>
    simp only [List.flatten_cons, List.append_assoc, List.map_cons, run, runWith]
    rw [write_spec line c (cs.flatten ++ rest)]
    have := ih (write line c).1
    simp only [run] at this
    rw [this]

theorem runWith_append (fl) (line : Bytes) (a b : List Op) :
    runWith fl line (a ++ b) =
      ((runWith fl (runWith fl line a).1 b).1, (runWith fl line a).2 ++ (runWith fl (runWith fl line a).1 b).2) := by
  induction a generalizing line with
  | nil => simp [runWith]
  | cons o os ih =>
    cases o <;> simp [runWith, ih]

end Dawn.LineWriter

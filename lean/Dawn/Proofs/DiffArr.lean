import Dawn.Model.Diff
/-! helper lemmas for C16: Go-style array access, slices, the diagonal run of `snake` -/
namespace Dawn.Diff

/-- read of an `Int` array at an `Int` index, `-1` outside -/
def getI (a : Array Int) (i : Int) : Int := (a[i.toNat]?).getD (-1)

theorem rd_ok {a : Array Int} {i : Int} (h0 : 0 ≤ i) (h1 : i < a.size) : rd a i = .ok (getI a i) := by
  have h2 : i.toNat < a.size := by omega
  simp [rd, getI, show ¬ i < 0 by omega, Array.getElem?_eq_getElem h2]

theorem wr_ok {a : Array Int} {i : Int} (v : Int) (h0 : 0 ≤ i) (h1 : i < a.size) :
    wr a i v = .ok (a.setIfInBounds i.toNat v) := by
  have h2 : i.toNat < a.size := by omega
  simp [wr, show ¬ i < 0 by omega, h2]

theorem getI_set {a : Array Int} {i j : Int} (v : Int) (h0 : 0 ≤ i) (h1 : i < a.size) (hj : 0 ≤ j) :
    getI (a.setIfInBounds i.toNat v) j = if j = i then v else getI a j := by
  have h2 : i.toNat < a.size := by omega
  unfold getI
  by_cases h : j = i
  · subst h
    simp [h2]
  · have : i.toNat ≠ j.toNat := by omega
    simp [this, h]

theorem getI_replicate (n : Nat) (i : Int) : getI (Array.replicate n (-1)) i = -1 := by
  unfold getI
  by_cases h : i.toNat < n
  · simp [h]
  · simp [h]

theorem slice_ok {α : Type} (s : List α) (lo hi : Int) (h0 : 0 ≤ lo) (h1 : lo ≤ hi) (h2 : hi ≤ s.length) :
    slice s lo hi = .ok ((s.drop lo.toNat).take (hi - lo).toNat) := by
  simp [slice, h0, h1, h2]

/-- two lists of the same length whose elements are related pairwise (`List.Forall₂` is not in core) -/
inductive All2 {α β : Type} (R : α → β → Prop) : List α → List β → Prop
  | nil : All2 R [] []
  | cons {x : α} {y : β} {xs : List α} {ys : List β} : R x y → All2 R xs ys → All2 R (x :: xs) (y :: ys)

theorem All2.imp {α β : Type} {R S : α → β → Prop} {xs : List α} {ys : List β} (h : All2 R xs ys)
    (f : ∀ x y, R x y → S x y) : All2 S xs ys := by
  induction h with
  | nil => exact All2.nil
  | cons hr _ ih => exact All2.cons (f _ _ hr) ih

theorem All2.flip {α β : Type} {R : α → β → Prop} {xs : List α} {ys : List β} (h : All2 R xs ys) :
    All2 (fun y x => R x y) ys xs := by
  induction h with
  | nil => exact All2.nil
  | cons hr _ ih => exact All2.cons hr ih

theorem All2.length_eq {α β : Type} {R : α → β → Prop} {xs : List α} {ys : List β} (h : All2 R xs ys) :
    xs.length = ys.length := by
  induction h with
  | nil => rfl
  | cons _ _ ih => simp [ih]

section run
variable {α : Type} (eq : α → α → Except Err Bool) (eqb : α → α → Bool)

/-- the comparison never fails on these elements and `eqb` is what it answers -/
def EqOn (a b : List α) : Prop := ∀ x ∈ a, ∀ y ∈ b, eq x y = .ok (eqb x y)

theorem EqOn.drop {a b : List α} (h : EqOn eq eqb a b) (i j : Nat) : EqOn eq eqb (a.drop i) (b.drop j) :=
  fun x hx y hy => h x (List.mem_of_mem_drop hx) y (List.mem_of_mem_drop hy)

/-- the cells `(i, i)`, `i < s`, of two lists hold equal elements -/
def EqRun (xs ys : List α) (s : Nat) : Prop :=
  ∀ i, i < s → ∃ x y, xs[i]? = some x ∧ ys[i]? = some y ∧ eqb x y = true

theorem run_ok (xs ys : List α) (h : EqOn eq eqb xs ys) :
    ∃ s, run eq xs ys = .ok s ∧ s ≤ xs.length ∧ s ≤ ys.length ∧ EqRun eqb xs ys s := by
  induction xs generalizing ys with
  | nil => exact ⟨0, by simp [run], by simp, by simp, fun i hi => by omega⟩
  | cons x xs ih =>
    cases ys with
    | nil => exact ⟨0, by simp [run], by simp, by simp, fun i hi => by omega⟩
    | cons y ys =>
      have hxy := h x (by simp) y (by simp)
      simp only [run, hxy]
      cases hb : eqb x y with
      | false => exact ⟨0, by simp, by simp, by simp, fun i hi => by omega⟩
      | true =>
        obtain ⟨s, hs, h1, h2, h3⟩ := ih ys (fun x' hx' y' hy' => h x' (by simp [hx']) y' (by simp [hy']))
        refine ⟨s + 1, by simp [hs], by simp; omega, by simp; omega, ?_⟩
        intro i hi
        cases i with
        | zero => exact ⟨x, y, by simp, by simp, hb⟩
        | succ i =>
          obtain ⟨x', y', e1, e2, e3⟩ := h3 i (by omega)
          exact ⟨x', y', by simpa using e1, by simpa using e2, e3⟩

end run
end Dawn.Diff

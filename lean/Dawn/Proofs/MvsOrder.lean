import Dawn.Model.Mvs
/-!
# The version order is a total order

`cmpVersion` (the main project's `""` greatest, `"none"` least, canonical semantic versions by precedence) is
reflexive, antisymmetric, transitive and total; `vmax` is its maximum and the three-way comparison `buildList`
derives from `Reqs.Max` is `cmpVersion` itself. Everything C10 says about "the highest version" rests on this.
-/
namespace Dawn.Mvs

/-- a three-way comparison that describes a total order with `=` as its equivalence -/
structure LawfulCmp {α : Type} (c : α → α → Ordering) : Prop where
  eq_iff : ∀ a b, c a b = .eq ↔ a = b
  swap : ∀ a b, c b a = (c a b).swap
  trans : ∀ a b d, c a b = .lt → c b d = .lt → c a d = .lt

theorem LawfulCmp.refl {α : Type} {c : α → α → Ordering} (h : LawfulCmp c) (a : α) : c a a = .eq :=
  (h.eq_iff a a).mpr rfl

theorem LawfulCmp.gt_iff {α : Type} {c : α → α → Ordering} (h : LawfulCmp c) (a b : α) : c a b = .gt ↔ c b a = .lt := by
  rw [h.swap a b]; cases c a b <;> simp [Ordering.swap]

theorem lawful_compare_nat : LawfulCmp (fun a b : Nat => compare a b) where
  eq_iff a b := by simp
  swap a b := by
    rcases Nat.lt_trichotomy a b with h | h | h
    · rw [Nat.compare_eq_lt.mpr h, Nat.compare_eq_gt.mpr h]; rfl
    · subst h; simp
    · rw [Nat.compare_eq_gt.mpr h, Nat.compare_eq_lt.mpr h]; rfl
  trans a b d h1 h2 := by
    simp only [Nat.compare_eq_lt] at *; omega

theorem lawful_cmpChar : LawfulCmp cmpChar where
  eq_iff a b := by
    simp only [cmpChar, Nat.compare_eq_eq]
    constructor
    · intro h; exact Char.ext (UInt32.toNat_inj.mp h)
    · intro h; rw [h]
  swap a b := lawful_compare_nat.swap _ _
  trans a b d := lawful_compare_nat.trans _ _ _

theorem cmpList_lawful {α : Type} {c : α → α → Ordering} (h : LawfulCmp c) : LawfulCmp (cmpList c) where
  eq_iff a := by
    induction a with
    | nil => intro b; cases b <;> simp [cmpList]
    | cons x xs ih =>
      intro b
      cases b with
      | nil => simp [cmpList]
      | cons y ys =>
        simp only [cmpList]
        cases hxy : c x y with
        | eq =>
          have := (h.eq_iff x y).mp hxy
          subst this
          simp [ih ys]
        | lt =>
          simp only [List.cons.injEq, reduceCtorEq, false_iff, not_and]
          intro e; subst e; rw [h.refl] at hxy; cases hxy
        | gt =>
          simp only [List.cons.injEq, reduceCtorEq, false_iff, not_and]
          intro e; subst e; rw [h.refl] at hxy; cases hxy
  swap a := by
    induction a with
    | nil => intro b; cases b <;> simp [cmpList, Ordering.swap]
    | cons x xs ih =>
      intro b
      cases b with
      | nil => simp [cmpList, Ordering.swap]
      | cons y ys =>
        simp only [cmpList]
        rw [h.swap x y]
        cases c x y <;> simp [Ordering.swap, ih ys]
  trans a := by
    induction a with
    | nil =>
      intro b d h1 h2
      cases b with
      | nil => simp [cmpList] at h1
      | cons y ys => cases d <;> simp [cmpList] at h2 ⊢
    | cons x xs ih =>
      intro b d h1 h2
      cases b with
      | nil => simp [cmpList] at h1
      | cons y ys =>
        cases d with
        | nil => simp [cmpList] at h2
        | cons z zs =>
          simp only [cmpList] at h1 h2 ⊢
          cases hxy : c x y with
          | gt => simp [hxy] at h1
          | lt =>
            cases hyz : c y z with
            | gt => simp [hyz] at h2
            | lt => simp [h.trans x y z hxy hyz]
            | eq =>
              have := (h.eq_iff y z).mp hyz; subst this
              simp [hxy]
          | eq =>
            have := (h.eq_iff x y).mp hxy; subst this
            simp only [hxy] at h1
            cases hyz : c x z with
            | gt => simp [hyz] at h2
            | lt => simp
            | eq =>
              simp only [hyz] at h2
              simp [ih ys zs h1 h2]

theorem lawful_preId : LawfulCmp PreId.cmp where
  eq_iff a b := by
    cases a <;> cases b <;> simp [PreId.cmp, (cmpList_lawful lawful_cmpChar).eq_iff]
  swap a b := by
    cases a <;> cases b <;> simp [PreId.cmp, Ordering.swap]
    · exact lawful_compare_nat.swap _ _
    · exact (cmpList_lawful lawful_cmpChar).swap _ _
  trans a b d h1 h2 := by
    cases a <;> cases b <;> cases d <;> simp only [PreId.cmp, reduceCtorEq] at h1 h2 ⊢
    · exact lawful_compare_nat.trans _ _ _ h1 h2
    · exact (cmpList_lawful lawful_cmpChar).trans _ _ _ h1 h2

theorem lawful_cmpPre : LawfulCmp cmpPre where
  eq_iff a b := by
    cases a <;> cases b <;> simp [cmpPre]
    exact (cmpList_lawful lawful_preId).eq_iff _ _ |>.trans (by simp)
  swap a b := by
    cases a <;> cases b <;> simp [cmpPre, Ordering.swap]
    exact (cmpList_lawful lawful_preId).swap _ _
  trans a b d h1 h2 := by
    cases a <;> cases b <;> cases d <;> simp [cmpPre] at h1 h2 ⊢
    exact (cmpList_lawful lawful_preId).trans _ _ _ h1 h2

/-- lexicographic combination of two comparison results -/
def lexOrd (o1 o2 : Ordering) : Ordering := match o1 with | .eq => o2 | o => o

theorem lawful_lex {α β : Type} {c1 : α → α → Ordering} {c2 : β → β → Ordering} (h1 : LawfulCmp c1) (h2 : LawfulCmp c2) :
    LawfulCmp (fun (a b : α × β) => lexOrd (c1 a.1 b.1) (c2 a.2 b.2)) where
  eq_iff a b := by
    obtain ⟨a1, a2⟩ := a; obtain ⟨b1, b2⟩ := b
    simp only [lexOrd, Prod.mk.injEq]
    cases h : c1 a1 b1 with
    | eq => have := (h1.eq_iff _ _).mp h; subst this; simp [h2.eq_iff]
    | lt => simp only [reduceCtorEq, false_iff, not_and]; intro e; subst e; rw [h1.refl] at h; cases h
    | gt => simp only [reduceCtorEq, false_iff, not_and]; intro e; subst e; rw [h1.refl] at h; cases h
  swap a b := by
    simp only [lexOrd]
    rw [h1.swap a.1 b.1, h2.swap a.2 b.2]
    cases c1 a.1 b.1 <;> simp [Ordering.swap]
  trans a b d := by
    simp only [lexOrd]
    intro p q
    cases hab : c1 a.1 b.1 with
    | gt => simp [hab] at p
    | lt =>
      cases hbd : c1 b.1 d.1 with
      | gt => simp [hbd] at q
      | lt => simp [h1.trans _ _ _ hab hbd]
      | eq => have := (h1.eq_iff _ _).mp hbd; rw [← this]; simp [hab]
    | eq =>
      have := (h1.eq_iff _ _).mp hab; rw [this]
      simp only [hab] at p
      cases hbd : c1 b.1 d.1 with
      | gt => simp [hbd] at q
      | lt => simp
      | eq => simp only [hbd] at q; simp [h2.trans _ _ _ p q]

theorem lawful_comap {α β : Type} {c : β → β → Ordering} (f : α → β) (hf : ∀ a b, f a = f b → a = b) (h : LawfulCmp c) :
    LawfulCmp (fun a b => c (f a) (f b)) where
  eq_iff a b := by rw [h.eq_iff]; exact ⟨hf a b, fun e => by rw [e]⟩
  swap a b := h.swap _ _
  trans a b d := h.trans _ _ _

def SemVer.key (a : SemVer) : Nat × Nat × Nat × List PreId := (a.major, a.minor, a.patch, a.pre)

theorem SemVer.cmp_eq (a b : SemVer) : a.cmp b =
    lexOrd (compare a.key.1 b.key.1) (lexOrd (compare a.key.2.1 b.key.2.1)
      (lexOrd (compare a.key.2.2.1 b.key.2.2.1) (cmpPre a.key.2.2.2 b.key.2.2.2))) := by
  simp only [SemVer.cmp, lexOrd, SemVer.key]
  cases compare a.major b.major <;> cases compare a.minor b.minor <;> cases compare a.patch b.patch <;> rfl

theorem lawful_semver : LawfulCmp SemVer.cmp := by
  have h := lawful_comap SemVer.key (fun a b h => by cases a; cases b; simp_all [SemVer.key])
    (lawful_lex lawful_compare_nat (lawful_lex lawful_compare_nat (lawful_lex lawful_compare_nat lawful_cmpPre)))
  have e : SemVer.cmp = fun a b => lexOrd (compare a.key.1 b.key.1) (lexOrd (compare a.key.2.1 b.key.2.1)
      (lexOrd (compare a.key.2.2.1 b.key.2.2.1) (cmpPre a.key.2.2.2 b.key.2.2.2))) := by
    funext a b; exact SemVer.cmp_eq a b
  rw [e]; exact h

theorem lawful_cmpVersion : LawfulCmp cmpVersion where
  eq_iff a b := by
    cases a <;> cases b <;> simp [cmpVersion, semverCompare, lawful_semver.eq_iff]
  swap a b := by
    cases a <;> cases b <;> simp [cmpVersion, semverCompare, Ordering.swap]
    exact lawful_semver.swap _ _
  trans a b d h1 h2 := by
    cases a <;> cases b <;> cases d <;> simp [cmpVersion, semverCompare] at h1 h2 ⊢
    exact lawful_semver.trans _ _ _ h1 h2

/-! ### `≤` on versions -/

/-- `a ≤ b` in the order of `cmpVersion` -/
def Ver.le (a b : Ver) : Prop := cmpVersion a b ≠ .gt

instance (a b : Ver) : Decidable (Ver.le a b) := inferInstanceAs (Decidable (_ ≠ _))

theorem Ver.le_refl (a : Ver) : Ver.le a a := by simp [Ver.le, lawful_cmpVersion.refl]

theorem Ver.le_total (a b : Ver) : Ver.le a b ∨ Ver.le b a := by
  unfold Ver.le
  rw [lawful_cmpVersion.swap a b]
  cases cmpVersion a b <;> simp [Ordering.swap]

theorem Ver.le_antisymm {a b : Ver} (h1 : Ver.le a b) (h2 : Ver.le b a) : a = b := by
  unfold Ver.le at h1 h2
  rw [lawful_cmpVersion.swap a b] at h2
  apply (lawful_cmpVersion.eq_iff a b).mp
  cases h : cmpVersion a b <;> simp_all [Ordering.swap]

theorem Ver.lt_of_not_le {a b : Ver} (h : ¬ Ver.le a b) : cmpVersion b a = .lt := by
  unfold Ver.le at h
  rw [lawful_cmpVersion.swap a b]
  cases hc : cmpVersion a b <;> simp_all [Ordering.swap]

theorem Ver.le_iff_lt_or_eq (a b : Ver) : Ver.le a b ↔ cmpVersion a b = .lt ∨ a = b := by
  unfold Ver.le
  rw [← lawful_cmpVersion.eq_iff a b]
  cases cmpVersion a b <;> simp

theorem Ver.le_trans {a b c : Ver} (h1 : Ver.le a b) (h2 : Ver.le b c) : Ver.le a c := by
  rw [Ver.le_iff_lt_or_eq] at h1 h2 ⊢
  rcases h1 with h1 | rfl
  · rcases h2 with h2 | rfl
    · exact Or.inl (lawful_cmpVersion.trans _ _ _ h1 h2)
    · exact Or.inl h1
  · exact h2

theorem Ver.none_le (a : Ver) : Ver.le .none a := by
  cases a <;> simp [Ver.le, cmpVersion, semverCompare]

theorem Ver.le_root (a : Ver) : Ver.le a .root := by
  cases a <;> simp [Ver.le, cmpVersion]

theorem Ver.lt_irrefl (a : Ver) : cmpVersion a a ≠ .lt := by simp [lawful_cmpVersion.refl]

theorem Ver.not_le_of_lt {a b : Ver} (h : cmpVersion a b = .lt) : ¬ Ver.le b a := by
  unfold Ver.le
  rw [lawful_cmpVersion.swap a b, h]; simp [Ordering.swap]

theorem Ver.le_of_lt {a b : Ver} (h : cmpVersion a b = .lt) : Ver.le a b := by simp [Ver.le, h]

/-! ### `Reqs.Max` and the comparison derived from it -/

theorem vmax_eq (a b : Ver) : vmax a b = if cmpVersion a b = .lt then b else a := rfl

/-- the comparison `buildList` reconstructs from `Max` is the version order itself -/
theorem cmpMax_eq (a b : Ver) : cmpMax a b = cmpVersion a b := by
  unfold cmpMax vmax
  have hs := lawful_cmpVersion.swap a b
  cases h : cmpVersion a b with
  | lt =>
    have hne : a ≠ b := fun e => by subst e; rw [lawful_cmpVersion.refl] at h; cases h
    simp [hne.symm]
  | eq =>
    have := (lawful_cmpVersion.eq_iff a b).mp h; subst this
    simp [h]
  | gt =>
    have hne : a ≠ b := fun e => by subst e; rw [lawful_cmpVersion.refl] at h; cases h
    rw [h] at hs
    simp [hs, Ordering.swap, hne]

theorem le_vmax_left (a b : Ver) : Ver.le a (vmax a b) := by
  rw [vmax_eq]; split
  · exact Ver.le_of_lt ‹_›
  · exact Ver.le_refl a

theorem le_vmax_right (a b : Ver) : Ver.le b (vmax a b) := by
  rw [vmax_eq]; split
  · exact Ver.le_refl b
  · rename_i h
    rcases Ver.le_total a b with h1 | h1
    · rcases (Ver.le_iff_lt_or_eq a b).mp h1 with h2 | rfl
      · exact absurd h2 h
      · exact Ver.le_refl _
    · exact h1

theorem vmax_cases (a b : Ver) : vmax a b = a ∨ vmax a b = b := by
  rw [vmax_eq]; split <;> simp

end Dawn.Mvs

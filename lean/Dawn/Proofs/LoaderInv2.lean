import Dawn.Proofs.LoaderInv1
/-!
Second invariant of the fixed loader model: every registered, unfinished module is owned by exactly one goroutine
(it is in one frame of one stack, or about to be pushed), and is executed at most once.
-/
namespace Dawn.Loader

/-- the goroutine has inserted `d` into the registry and is about to execute it -/
def claims (s : State) (t : Tid) (d : Mod) : Prop := s.pc t = .setNew d ∨ s.pc t = .load d

structure Inv2 (s : State) : Prop where
  nodup : ∀ t, ((s.stack t).map Frame.mod).Nodup
  disjoint : ∀ t t' f f', t ≠ t' → f ∈ s.stack t → f' ∈ s.stack t' → f.mod ≠ f'.mod
  new_fresh : ∀ t d, claims s t d → s.loaded d = false ∧ s.execs d = 0 ∧ ∀ t' f, f ∈ s.stack t' → f.mod ≠ d
  new_uniq : ∀ t t' d, claims s t d → claims s t' d → t = t'
  frame_live : ∀ t f, f ∈ s.stack t → s.loaded f.mod = false ∧ s.execs f.mod = 1
  owner_exists : ∀ m, s.registry m = true → s.loaded m = false →
      (∃ t f, f ∈ s.stack t ∧ f.mod = m) ∨ ∃ t, claims s t m
  execs_le : ∀ m, s.execs m ≤ 1
  loaded_execs : ∀ m, s.loaded m = true → s.execs m = 1
  unreg : ∀ m, s.registry m = false → s.execs m = 0

theorem inv2_init (P : Project) : Inv2 (init P) := by
  constructor
  · intro t; simp [init]
  · intro t t' f f' _ h; simp [init] at h
  · intro t d h
    rcases init_pc P t with ⟨_, h2⟩ | ⟨r, _, h2⟩ <;> simp [claims, h2] at h
  · intro t t' d h
    rcases init_pc P t with ⟨_, h2⟩ | ⟨r, _, h2⟩ <;> simp [claims, h2] at h
  · intro t f h; simp [init] at h
  · intro m h; simp [init] at h
  · intro m; simp [init]
  · intro m h; simp [init] at h
  · intro m _; simp [init]

set_option maxHeartbeats 1000000 in
theorem inv2_fstep {P : Project} {s s' : State} {t : Tid} (inv1 : Inv1 P s) (inv : Inv2 s) (st : FStep P s t s') : Inv2 s' := by
  have ⟨i1,i2,i3,i4,i5,i6,i7,i8,i9,i10,i11,i12⟩ := inv1
  have ⟨j1,j2,j3,j4,j5,j6,j7,j8,j9⟩ := inv
  cases st <;> constructor <;> simp only [setPc, publish, goSleep, upd, claims] at * <;> first | grind [target, foundPc] | skip
  case load.owner_exists d hpc =>
    intro m hr hl
    rcases j6 m hr hl with ⟨t1, f, hf, hm⟩ | ⟨t1, hc⟩
    · refine Or.inl ⟨t1, f, ?_, hm⟩
      by_cases ht : t1 = t
      · subst ht; simp [hf]
      · simp [ht, hf]
    · by_cases ht : t1 = t
      · subst ht
        have : m = d := by
          rcases hc with h | h <;> rw [hpc] at h <;> cases h
          rfl
        subst this
        exact Or.inl ⟨t1, ⟨m, P.loads m⟩, by simp, rfl⟩
      · exact Or.inr ⟨t1, by simpa [ht] using hc⟩
  case unsetOk.owner_exists f rest hpc hst =>
    intro m hr hl
    rcases j6 m hr hl with ⟨t1, g, hg, hm⟩ | ⟨t1, hc⟩
    · by_cases ht : t1 = t
      · subst ht
        rw [hst] at hg
        simp only [List.mem_cons] at hg
        rcases hg with rfl | hg
        · exact Or.inl ⟨t1, ⟨g.mod, g.todo.tail⟩, by simp, hm⟩
        · exact Or.inl ⟨t1, g, by simp [hg], hm⟩
      · exact Or.inl ⟨t1, g, by simp [ht, hg], hm⟩
    · by_cases ht : t1 = t
      · subst ht; rw [hpc] at hc; simp at hc
      · exact Or.inr ⟨t1, by simpa [ht] using hc⟩

theorem inv2_reachable {P : Project} {s : State} (h : Reachable .fixed P s) : Inv2 s :=
  reachable_induction (I := Inv2) (inv2_init P) (fun _ _ _ hr ih st => inv2_fstep (inv1_reachable hr) ih st) h

end Dawn.Loader

/-!
# Model of `cache.get` / `cache.once` (/repo/cache.go) — property C20

An interleaving transition system. Any number of caller threads (`Tid`), each with a program: the list of
`once(key, callable)` calls it makes one after the other; the callable of a call either returns a value or
fails (`Outcome`). One `next` step is one statement of the Go code:

```
once:  if v, ok := c.get(key); ok { return v, nil }     start → rheld → rdone r → (retv (some v) | wlock)
       c.m.Lock(); defer c.m.Unlock()                    wlock → wheld            (blocked while a writer or readers hold)
       if v, ok := c.entries[key]; ok { return v, nil }  wheld → holding (some v) | miss
       v, err := starlark.Call(thread, function, …)      miss  → callok v | holding none
       if err != nil { return nil, err }
       c.entries[key] = v                                callok v → holding (some v)
       return v, nil                                     holding r → retv r  (deferred Unlock) → start (returned)
get:   c.m.RLock(); defer c.m.RUnlock()                  start → rheld            (blocked while a writer holds)
       v, ok := c.entries[key]; return v, ok             rheld → rdone r → …      (deferred RUnlock)
```

`sync.RWMutex` is a reader count and a writer flag (Go additionally makes new readers wait behind a *pending*
writer; that only removes interleavings, so every Go behaviour is a behaviour of this model).
Ghost state (not in the Go code, used to state the property): `okCalls k` — the values returned by the
successful invocations of callables for key `k`, `failCalls k`, and `rets` — every return of `once`.
Core Lean only.
-/
namespace Dawn.Cache

abbrev Key := Nat
abbrev Val := Nat
abbrev Tid := Nat

/-- what the callable handed to one `once` call does if it is invoked -/
inductive Outcome where
  | ok (v : Val)
  | fail
deriving DecidableEq, Repr

/-- one call `cache.once(key, callable)` -/
structure Op where
  key : Key
  out : Outcome
deriving DecidableEq, Repr

inductive PC where
  | start                      -- no statement of the current call executed yet: about to `c.m.RLock()` in `get`
  | rheld                      -- `get`: holds the read lock
  | rdone (r : Option Val)     -- `get`: has read `entries[key]`, still holds the read lock
  | wlock                      -- fast path missed: about to `c.m.Lock()`
  | wheld                      -- holds the writer lock: about to re-check `entries[key]`
  | miss                       -- re-check missed: about to `starlark.Call`
  | callok (v : Val)           -- the callable returned `v`: about to store
  | holding (r : Option Val)   -- about to run the deferred `Unlock`; will return `r` (`none` = the callable's error)
  | retv (r : Option Val)      -- lock released: about to return `r`
deriving DecidableEq, Repr

/-- The statements of `get` and `once` in source order, as the tags `extract/cache` gives them; the program counter
above follows exactly this order (`Dawn/Ties/Cache.lean` compares it with the source on every run):
`rlock`/`defer-runlock`/`read`/`return` are `start → rheld → rdone → (RUnlock)`; `if-get-hit-return` is `afterGet`;
`lock`, `defer-unlock` are `wlock → wheld` and the `holding → retv` step that every return path takes;
`if-entries-hit-return` is `afterRecheck`; `call`, `if-err-return` are `miss → callok | holding none`; `store`,
`return` are `callok → holding (some v) → retv`. -/
def getShape : List String := ["rlock", "defer-runlock", "read", "return"]
def onceShape : List String :=
  ["if-get-hit-return", "lock", "defer-unlock", "if-entries-hit-return", "call", "if-err-return", "store", "return"]

/-- `Freeze`: Starlark freezes a module-level `cache = Cache()` when its module has finished loading, so every target
body sees a frozen cache. The model has no "frozen" flag: freezing is the identity on the state, `(*cache).Freeze` has an
empty body and the struct has no field besides the mutex, the entries and the bound method that `once` could consult
(`Dawn/Ties/Cache.lean` compares both with the source on every run). -/
def freezeBody : String := "(block)"
def cacheFields : List String := ["m", "entries", "onceM"]

/-- The model's `entries` only ever grows (`C20_entries_monotone`) and is all the state there is: there is no capacity, no
eviction and no state outside the cache value (per thread, per package). In cache.go: no call of `clear`/`delete`, no
constant, and the only package-level variable is the `Cache` builtin itself. -/
def entryRemovals : List String := []
def packageVars : List String := ["builtin_cache"]
def packageConsts : List String := []

def upd {α : Type} (f : Nat → α) (i : Nat) (v : α) : Nat → α := fun x => if x = i then v else f x

@[simp] theorem upd_same {α} (f : Nat → α) (i v) : upd f i v i = v := by simp [upd]
@[simp] theorem upd_other {α} (f : Nat → α) (i v x) (h : x ≠ i) : upd f i v x = f x := by simp [upd, h]

structure State where
  readers : Nat                          -- RWMutex: number of read-lock holders
  writer : Bool                          -- RWMutex: write-locked
  entries : Key → Option Val             -- c.entries
  pc : Tid → PC
  prog : Tid → List Op                   -- remaining calls of each thread; the head is the call in progress
  -- ghost
  rset : List Tid                        -- who holds the read lock
  okCalls : Key → List Val               -- results of the successful callable invocations, newest first
  failCalls : Key → Nat
  rets : List (Tid × Key × Option Val)   -- every return of `once`, newest first (`none` = error)

def init (prog : Tid → List Op) : State :=
  { readers := 0, writer := false, entries := fun _ => none, pc := fun _ => .start, prog := prog,
    rset := [], okCalls := fun _ => [], failCalls := fun _ => 0, rets := [] }

/-- `if v, ok := c.get(key); ok { return v, nil }` -/
def afterGet : Option Val → PC
  | some v => .retv (some v)
  | none => .wlock

/-- `if v, ok := c.entries[key]; ok { return v, nil }` under the writer lock -/
def afterRecheck : Option Val → PC
  | some v => .holding (some v)
  | none => .miss

/-- the step of thread `t`, if it has one (`none`: finished, or blocked on the lock) -/
def next (s : State) (t : Tid) : Option State :=
  match s.prog t with
  | [] => none
  | op :: rest =>
    match s.pc t with
    | .start =>
      if s.writer then none
      else some { s with readers := s.readers + 1, rset := t :: s.rset, pc := upd s.pc t .rheld }
    | .rheld => some { s with pc := upd s.pc t (.rdone (s.entries op.key)) }
    | .rdone r =>
      some { s with readers := s.readers - 1, rset := s.rset.erase t,
                    pc := upd s.pc t (afterGet r) }
    | .wlock =>
      if s.writer || s.readers != 0 then none
      else some { s with writer := true, pc := upd s.pc t .wheld }
    | .wheld =>
      some { s with pc := upd s.pc t (afterRecheck (s.entries op.key)) }
    | .miss =>
      match op.out with
      | .ok v => some { s with pc := upd s.pc t (.callok v), okCalls := upd s.okCalls op.key (v :: s.okCalls op.key) }
      | .fail => some { s with pc := upd s.pc t (.holding none),
                               failCalls := upd s.failCalls op.key (s.failCalls op.key + 1) }
    | .callok v => some { s with entries := upd s.entries op.key (some v), pc := upd s.pc t (.holding (some v)) }
    | .holding r => some { s with writer := false, pc := upd s.pc t (.retv r) }
    | .retv r => some { s with rets := (t, op.key, r) :: s.rets, prog := upd s.prog t rest, pc := upd s.pc t .start }

def Step (s s' : State) : Prop := ∃ t, next s t = some s'

inductive Steps : State → State → Prop where
  | refl (s) : Steps s s
  | tail {s s' s''} : Steps s s' → Step s' s'' → Steps s s''

/-- every state some interleaving of some set of caller programs can reach -/
def Reachable (s : State) : Prop := ∃ prog, Steps (init prog) s

/-- run a schedule (list of thread ids); `none` when some scheduled thread has no step -/
def run (s : State) : List Tid → Option State
  | [] => some s
  | t :: ts => match next s t with
    | some s' => run s' ts
    | none => none

theorem steps_of_run {s s' : State} {sched : List Tid} (h : run s sched = some s') : Steps s s' := by
  induction sched generalizing s with
  | nil => simp [run] at h; subst h; exact .refl _
  | cons t ts ih =>
    simp only [run] at h
    cases hn : next s t with
    | none => simp [hn] at h
    | some s1 =>
      simp only [hn] at h
      have h1 := ih h
      have : Steps s s1 := .tail (.refl _) ⟨t, hn⟩
      clear ih h hn
      induction h1 with
      | refl => exact this
      | tail _ st ih2 => exact .tail ih2 st

/-- the effect of `Freeze()` on the cache: none -/
def freeze (s : State) : State := s

end Dawn.Cache

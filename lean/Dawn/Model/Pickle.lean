/-!
# Model of `pickle/{opcodes,encode,decode}.go` — properties C07 (round trip) and C15 (no crash)

Core Lean only (this file is linked into the driver executable `drv_pickle`).

Go values are abstracted to a flat object graph (`Val` / `Obj` / `Heap`): containers, tuples and host
objects live in a heap and are referred to by address, so sharing and cycles are representable and
equality of graphs is decidable. Two layers, both written as the Go code is written:

* **byte layer** — `Op` (one constructor per opcode the codec implements, with its decoded payload),
  `ser : Op → Bytes` (what `encode` writes for it) and `parseOp : Bytes → Parsed` (what the `switch op :=
  d.readByte()` arms of `decode` read), with the exact width rules (1/2/4-byte little-endian integers,
  1- vs 4-byte lengths, newline-terminated decimal text, 8-byte float bits).
* **op layer** — `encVal` follows `(*Encoder).encode` / `encodeComplex` case by case (memo lookup first,
  tuples by arity 0/1/2/3/4+, memoise-before-contents for containers, batches of `batchSize`, host objects
  memoised after their arguments); `stepOp` is one iteration of the decoder's stack machine with every
  `panic(failure(..))` an explicit `Step.fail`, and `recoverDecode` is the deferred
  `recover().(failure)` of `Decode`.

The two repaired defects are kept as switches so that the old behaviour stays available to the regression
theorems: `DecCfg.oldBinint2` (D1: `l | h<<16`) and `EncCfg.rebatch` (D2: `e.encode(x)` before every batch
after the first).

Integer lanes are written with `+ * / %` instead of Go's `| << >>`: on disjoint byte lanes they denote the
same number (`l | h<<8 = l + h*256` for `l < 256`), and `omega` can reason about them.
-/
namespace Dawn.Pickle

abbrev Bytes := List UInt8

/-! ## Values -/

inductive Atom where
  | none
  | bool (b : Bool)
  | int (i : Int)               -- starlark.Int, any magnitude
  | float (bits : UInt64)       -- starlark.Float by its IEEE-754 bits (`math.Float64bits`)
  | str (b : Bytes)             -- starlark.String: any bytes (Go strings are not validated)
  | bytes (b : Bytes)           -- starlark.Bytes
deriving DecidableEq, Repr

inductive Val where
  | atom (a : Atom)
  | ref (addr : Nat)                          -- a heap object
  | mark                                      -- the decoder's `mark` sentinel (`markT(0)`)
  | global (id : Nat) (module name : Bytes)   -- the decoder's `*global`; `id` is its pointer identity
deriving DecidableEq, Repr

inductive Obj where
  | tuple (xs : List Val)
  | list (xs : List Val)
  | dict (kvs : List (Val × Val))             -- insertion order, as starlark.Dict iterates
  | set (xs : List Val)                       -- insertion order
  | host (module name : Bytes) (args : Val)   -- a value handled by the host Pickler / Unpickler
deriving DecidableEq, Repr

abbrev Heap := List Obj

structure Graph where
  heap : Heap
  root : Val
deriving DecidableEq, Repr

/-! ## Opcodes (the subset `decode` implements; everything else is "unimplemented opcode") -/

inductive Op where
  | mark | stop | memoize
  | binget (id : Nat) | longBinget (id : Nat)
  | none | newtrue | newfalse
  | int (text : Bytes)                 -- INT: the bytes up to, not including, the newline
  | binint1 (n : Nat)
  | binint2 (l h : Nat)                -- the two payload bytes, low first
  | binint (w : Nat)                   -- the four payload bytes as an unsigned little-endian number
  | binfloat (w : Nat)                 -- eight payload bytes, little-endian
  | shortBinunicode (s : Bytes) | binunicode (s : Bytes)
  | shortBinbytes (s : Bytes) | binbytes (s : Bytes)
  | emptyList | append | appends
  | emptyTuple | tuple1 | tuple2 | tuple3 | tuple
  | emptyDict | setitems
  | emptySet | additems
  | stackGlobal | newobj
deriving DecidableEq, Repr

/-- opcode bytes, `pickle/opcodes.go` (compared with the extracted table in `Dawn/Ties/Pickle.lean`) -/
def opMARK : UInt8 := 0x28
def opSTOP : UInt8 := 0x2e
def opMEMOIZE : UInt8 := 0x94
def opBINGET : UInt8 := 0x68
def opLONG_BINGET : UInt8 := 0x6a
def opNONE : UInt8 := 0x4e
def opNEWTRUE : UInt8 := 0x88
def opNEWFALSE : UInt8 := 0x89
def opINT : UInt8 := 0x49
def opBININT1 : UInt8 := 0x4b
def opBININT2 : UInt8 := 0x4d
def opBININT : UInt8 := 0x4a
def opBINFLOAT : UInt8 := 0x47
def opSHORT_BINUNICODE : UInt8 := 0x8c
def opBINUNICODE : UInt8 := 0x58
def opSHORT_BINBYTES : UInt8 := 0x43
def opBINBYTES : UInt8 := 0x42
def opEMPTY_LIST : UInt8 := 0x5d
def opAPPEND : UInt8 := 0x61
def opAPPENDS : UInt8 := 0x65
def opEMPTY_TUPLE : UInt8 := 0x29
def opTUPLE1 : UInt8 := 0x85
def opTUPLE2 : UInt8 := 0x86
def opTUPLE3 : UInt8 := 0x87
def opTUPLE : UInt8 := 0x74
def opEMPTY_DICT : UInt8 := 0x7d
def opSETITEMS : UInt8 := 0x75
def opEMPTY_SET : UInt8 := 0x8f
def opADDITEMS : UInt8 := 0x90
def opSTACK_GLOBAL : UInt8 := 0x93
def opNEWOBJ : UInt8 := 0x81

/-- the opcodes `decode` has a `case` for, by their Go constant names, in source order -/
def decodedOpcodes : List (String × UInt8) :=
  [("opMARK", opMARK), ("opMEMOIZE", opMEMOIZE), ("opBINGET", opBINGET), ("opLONG_BINGET", opLONG_BINGET),
   ("opSTOP", opSTOP), ("opNONE", opNONE), ("opNEWTRUE", opNEWTRUE), ("opNEWFALSE", opNEWFALSE),
   ("opINT", opINT), ("opBININT1", opBININT1), ("opBININT2", opBININT2), ("opBININT", opBININT),
   ("opBINFLOAT", opBINFLOAT), ("opSHORT_BINUNICODE", opSHORT_BINUNICODE), ("opBINUNICODE", opBINUNICODE),
   ("opSHORT_BINBYTES", opSHORT_BINBYTES), ("opBINBYTES", opBINBYTES), ("opEMPTY_LIST", opEMPTY_LIST),
   ("opAPPEND", opAPPEND), ("opAPPENDS", opAPPENDS), ("opEMPTY_TUPLE", opEMPTY_TUPLE), ("opTUPLE1", opTUPLE1),
   ("opTUPLE2", opTUPLE2), ("opTUPLE3", opTUPLE3), ("opTUPLE", opTUPLE), ("opEMPTY_DICT", opEMPTY_DICT),
   ("opSETITEMS", opSETITEMS), ("opEMPTY_SET", opEMPTY_SET), ("opADDITEMS", opADDITEMS),
   ("opSTACK_GLOBAL", opSTACK_GLOBAL), ("opNEWOBJ", opNEWOBJ)]

/-- `len(batch) > 1000` in the encoder -/
def batchSize : Nat := 1000

def newline : UInt8 := 0x0a

/-! ## Byte layer -/

def byte (n : Nat) : UInt8 := UInt8.ofNat (n % 256)

/-- `byte(l), byte(l>>8)` -/
def le16 (n : Nat) : Bytes := [byte n, byte (n / 256)]
/-- `byte(l), byte(l>>8), byte(l>>16), byte(l>>24)` -/
def le32 (n : Nat) : Bytes := [byte n, byte (n / 256), byte (n / 65536), byte (n / 16777216)]
def le64 (n : Nat) : Bytes := le32 n ++ le32 (n / 4294967296)

/-- `uint32(b[0]) | uint32(b[1])<<8 | uint32(b[2])<<16 | uint32(b[3])<<24` -/
def rd32 (a b c d : UInt8) : Nat := a.toNat + b.toNat * 256 + c.toNat * 65536 + d.toNat * 16777216

/-- what the encoder writes for one op -/
def ser : Op → Bytes
  | .mark => [opMARK] | .stop => [opSTOP] | .memoize => [opMEMOIZE]
  | .binget id => [opBINGET, byte id]
  | .longBinget id => opLONG_BINGET :: le32 id
  | .none => [opNONE] | .newtrue => [opNEWTRUE] | .newfalse => [opNEWFALSE]
  | .int text => opINT :: (text ++ [newline])
  | .binint1 n => [opBININT1, byte n]
  | .binint2 l h => [opBININT2, byte l, byte h]
  | .binint w => opBININT :: le32 w
  | .binfloat w => opBINFLOAT :: le64 w
  | .shortBinunicode s => opSHORT_BINUNICODE :: byte s.length :: s
  | .binunicode s => opBINUNICODE :: (le32 s.length ++ s)
  | .shortBinbytes s => opSHORT_BINBYTES :: byte s.length :: s
  | .binbytes s => opBINBYTES :: (le32 s.length ++ s)
  | .emptyList => [opEMPTY_LIST] | .append => [opAPPEND] | .appends => [opAPPENDS]
  | .emptyTuple => [opEMPTY_TUPLE] | .tuple1 => [opTUPLE1] | .tuple2 => [opTUPLE2] | .tuple3 => [opTUPLE3]
  | .tuple => [opTUPLE]
  | .emptyDict => [opEMPTY_DICT] | .setitems => [opSETITEMS]
  | .emptySet => [opEMPTY_SET] | .additems => [opADDITEMS]
  | .stackGlobal => [opSTACK_GLOBAL] | .newobj => [opNEWOBJ]

def serAll (ops : List Op) : Bytes := ops.flatMap ser

/-- payloads are what fits in the bytes written for them -/
def Op.wf : Op → Prop
  | .binget id => id < 256
  | .longBinget id => id < 4294967296
  | .int text => newline ∉ text
  | .binint1 n => n < 256
  | .binint2 l h => l < 256 ∧ h < 256
  | .binint w => w < 4294967296
  | .binfloat w => w < 18446744073709551616
  | .shortBinunicode s => s.length < 256
  | .binunicode s => s.length < 4294967296
  | .shortBinbytes s => s.length < 256
  | .binbytes s => s.length < 4294967296
  | _ => True

instance (o : Op) : Decidable o.wf := by cases o <;> simp only [Op.wf] <;> infer_instance

inductive Parsed where
  | op (o : Op) (rest : Bytes)
  | eof                        -- `io.ReadFull` / `io.CopyN` hit the end of the input: `panic(failure(err))`
  | bad (b : UInt8)            -- `default: panic(failure("unimplemented opcode"))`
deriving DecidableEq, Repr

/-- the INT loop: `for c := d.readByte(); c != '\n'; c = d.readByte() { b.WriteByte(c) }` -/
def readLine : Bytes → Option (Bytes × Bytes)
  | [] => Option.none
  | c :: rest => if c = newline then some ([], rest) else
      match readLine rest with
      | some (l, r) => some (c :: l, r)
      | Option.none => Option.none

/-- `decodeString(n)`: exactly `n` bytes or a failure -/
def readN (n : Nat) (bs : Bytes) : Option (Bytes × Bytes) :=
  if n ≤ bs.length then some (bs.take n, bs.drop n) else Option.none

def parseStr (mk : Bytes → Op) (n : Nat) (bs : Bytes) : Parsed :=
  match readN n bs with
  | some (s, rest) => .op (mk s) rest
  | Option.none => .eof

/-- the `case` arm an opcode byte selects, as the op with an empty payload (`none`: the `default` arm) -/
def armTable : List (UInt8 × Op) :=
  [(opMARK, .mark), (opMEMOIZE, .memoize), (opBINGET, .binget 0), (opLONG_BINGET, .longBinget 0), (opSTOP, .stop),
   (opNONE, .none), (opNEWTRUE, .newtrue), (opNEWFALSE, .newfalse), (opINT, .int []), (opBININT1, .binint1 0),
   (opBININT2, .binint2 0 0), (opBININT, .binint 0), (opBINFLOAT, .binfloat 0),
   (opSHORT_BINUNICODE, .shortBinunicode []), (opBINUNICODE, .binunicode []),
   (opSHORT_BINBYTES, .shortBinbytes []), (opBINBYTES, .binbytes []),
   (opEMPTY_LIST, .emptyList), (opAPPEND, .append), (opAPPENDS, .appends), (opEMPTY_TUPLE, .emptyTuple),
   (opTUPLE1, .tuple1), (opTUPLE2, .tuple2), (opTUPLE3, .tuple3), (opTUPLE, .tuple), (opEMPTY_DICT, .emptyDict),
   (opSETITEMS, .setitems), (opEMPTY_SET, .emptySet), (opADDITEMS, .additems), (opSTACK_GLOBAL, .stackGlobal),
   (opNEWOBJ, .newobj)]

def armOf (b : UInt8) : Option Op := armTable.lookup b

/-- the reads of one arm of `switch op := d.readByte()` (the payload of the template is ignored) -/
def parseArm : Op → Bytes → Parsed
  | .binget _, x :: r => .op (.binget x.toNat) r
  | .binget _, _ => .eof
  | .longBinget _, x :: y :: z :: w :: r => .op (.longBinget (rd32 x y z w)) r
  | .longBinget _, _ => .eof
  | .int _, bs => match readLine bs with | some (l, r) => .op (.int l) r | Option.none => .eof
  | .binint1 _, x :: r => .op (.binint1 x.toNat) r
  | .binint1 _, _ => .eof
  | .binint2 _ _, x :: y :: r => .op (.binint2 x.toNat y.toNat) r
  | .binint2 _ _, _ => .eof
  | .binint _, x :: y :: z :: w :: r => .op (.binint (rd32 x y z w)) r
  | .binint _, _ => .eof
  | .binfloat _, x :: y :: z :: w :: x' :: y' :: z' :: w' :: r =>
    .op (.binfloat (rd32 x y z w + rd32 x' y' z' w' * 4294967296)) r
  | .binfloat _, _ => .eof
  | .shortBinunicode _, x :: r => parseStr .shortBinunicode x.toNat r
  | .shortBinunicode _, _ => .eof
  | .binunicode _, x :: y :: z :: w :: r => parseStr .binunicode (rd32 x y z w) r
  | .binunicode _, _ => .eof
  | .shortBinbytes _, x :: r => parseStr .shortBinbytes x.toNat r
  | .shortBinbytes _, _ => .eof
  | .binbytes _, x :: y :: z :: w :: r => parseStr .binbytes (rd32 x y z w) r
  | .binbytes _, _ => .eof
  | o, bs => .op o bs                      -- opcodes without payload

/-- one `switch op := d.readByte()` dispatch with the reads of its arm -/
def parseOp : Bytes → Parsed
  | [] => .eof
  | b :: bs =>
    match armOf b with
    | some arm => parseArm arm bs
    | Option.none => .bad b

/-! ## Decimal text of integers (`big.Int.MarshalText` / `UnmarshalText` on canonical decimal) -/

def digitsAux : Nat → Nat → List Nat
  | 0, _ => []
  | fuel + 1, n => if n < 10 then [n] else digitsAux fuel (n / 10) ++ [n % 10]

/-- decimal digits, most significant first; `n + 1` is more fuel than digits -/
def digits (n : Nat) : List Nat := digitsAux (n + 1) n

def minus : UInt8 := 0x2d

def natText (n : Nat) : Bytes := (digits n).map fun d => UInt8.ofNat (48 + d)

/-- `x.BigInt().MarshalText()` -/
def intText : Int → Bytes
  | .ofNat n => natText n
  | .negSucc n => minus :: natText (n + 1)

def isDigit (c : UInt8) : Bool := 48 ≤ c.toNat ∧ c.toNat ≤ 57

def parseNat (bs : Bytes) : Nat := bs.foldl (fun acc c => acc * 10 + (c.toNat - 48)) 0

/-- canonical decimal only: `-?(0|[1-9][0-9]*)`, and `-0` not accepted as canonical.
`UnmarshalText` accepts more (a `+` sign, base prefixes, `_` separators, leading zeros read as octal); on
such text this function answers `none` and the driver reports the case as outside the model (`either`). -/
def parseDecimal (bs : Bytes) : Option Int :=
  let canon (ds : Bytes) : Bool := !ds.isEmpty && ds.all isDigit && (ds.length = 1 || ds.head? != some 48)
  match bs with
  | c :: ds =>
    if c = minus then
      if canon ds && ds != [48] then some (- (Int.ofNat (parseNat ds))) else Option.none
    else if canon bs then some (Int.ofNat (parseNat bs)) else Option.none
  | [] => Option.none

/-! ## Starlark key equality and hashing (what `Dict.SetKey` / `Set.Insert` consult)

`hashtable.insert` hashes the key (error for list/dict/set, recursively through tuples), then compares it with
`Equal` (= `EqualDepth(…, CompareLimit = 10)`) against the entries whose hash is the same. The decoder ignores
the error either way, so an erroneous insert is a silent no-op. -/

def floatIsNaN (n : Nat) : Bool := n / 4503599627370496 % 2048 = 2047 ∧ n % 4503599627370496 ≠ 0

/-- `floatCmp(x, y) == 0` (`Float.CompareSameType`): `0.0 == -0.0`; two NaNs compare EQUAL whatever their payload
bits (`return 0 // both NaN`), a NaN and a number do not -/
def floatEq (x y : UInt64) : Bool :=
  let a := x.toNat
  let b := y.toNat
  if floatIsNaN a || floatIsNaN b then floatIsNaN a && floatIsNaN b
  else a = b || (a % 9223372036854775808 = 0 && b % 9223372036854775808 = 0)

/-- the integer a float is exactly equal to, if it is finite and integral (`x.rational().Cmp(y.rational()) == 0`) -/
def floatToInt? (x : UInt64) : Option Int :=
  let n := x.toNat
  let neg := n / 9223372036854775808 = 1
  let e := n / 4503599627370496 % 2048
  let m := n % 4503599627370496
  let sign (k : Nat) : Int := if neg then - (Int.ofNat k) else Int.ofNat k
  if e = 2047 then Option.none
  else if e = 0 then (if m = 0 then some 0 else Option.none)
  else
    let M := m + 4503599627370496
    if 1075 ≤ e then some (sign (M * 2 ^ (e - 1075)))
    else
      let d := 2 ^ (1075 - e)
      if M % d = 0 then some (sign (M / d)) else Option.none

def atomEq : Atom → Atom → Bool
  | .none, .none => true
  | .bool a, .bool b => a == b
  | .int a, .int b => a == b
  | .float a, .float b => floatEq a b
  | .int a, .float b => floatToInt? b == some a
  | .float a, .int b => floatToInt? a == some b
  | .str a, .str b => a == b
  | .bytes a, .bytes b => a == b
  | _, _ => false

/-- `sliceCompare` for `==`: first unequal pair decides; an error anywhere before it is the answer -/
def cmpAll (f : Val → Val → Option Bool) : List Val → List Val → Option Bool
  | x :: xs, y :: ys =>
    match f x y with
    | Option.none => Option.none
    | some false => some false
    | some true => cmpAll f xs ys
  | _, _ => some true

/-- `EqualDepth(x, y, depth)`; `none` is "comparison exceeded maximum recursion depth" -/
def keyCmp (h : Heap) : Nat → Val → Val → Option Bool
  | 0, _, _ => Option.none
  | d + 1, x, y =>
    match x, y with
    | .atom a, .atom b => some (atomEq a b)
    | .mark, .mark => some true
    | .global i _ _, .global j _ _ => some (i == j)
    | .ref a, .ref b =>
      match h[a]?, h[b]? with
      | some (.tuple xs), some (.tuple ys) =>
        if xs.length ≠ ys.length then some false else cmpAll (keyCmp h d) xs ys
      | some (.host _ _ _), some (.host _ _ _) => some (a == b)      -- identity
      | _, _ => some (a == b)                                        -- unhashable kinds: never consulted
    | _, _ => some false

/-- the outcome of comparing a new key with an existing one inside `insert`: `none` = `insert` returns an error.
When the depth limit is hit, the two keys are compared at all only if their hashes agree; structurally equal keys
have equal hashes, structurally different ones are taken to hash differently (trusted: no 32-bit collision). -/
def keyEq (h : Heap) (x y : Val) : Option Bool :=
  match keyCmp h 10 x y with
  | some b => some b
  | Option.none =>
    match keyCmp h (h.length + 2) x y with
    | some true => Option.none
    | _ => some false

/-- `k.Hash()` succeeds. Host objects hash by identity (the harness's host type does; `*global`, `mark` return 0). -/
def hashable (h : Heap) : Nat → Val → Bool
  | 0, _ => false
  | _ + 1, .atom _ => true
  | _ + 1, .mark => true
  | _ + 1, .global _ _ _ => true
  | f + 1, .ref a =>
    match h[a]? with
    | some (.tuple xs) => xs.all (hashable h f)
    | some (.host _ _ _) => true
    | _ => false

def insertEntry {α : Type} (h : Heap) (key : α → Val) (setVal : α → α) (e : α) : List α → Option (List α)
  | [] => some [e]
  | x :: rest =>
    match keyEq h (key e) (key x) with
    | Option.none => Option.none
    | some true => some (setVal x :: rest)
    | some false => (insertEntry h key setVal e rest).map (x :: ·)

/-- `dict.SetKey(k, v)` with the error dropped -/
def dictInsert (h : Heap) (kvs : List (Val × Val)) (k v : Val) : List (Val × Val) :=
  if hashable h (h.length + 1) k then (insertEntry h (·.1) (fun x => (x.1, v)) (k, v) kvs).getD kvs else kvs

/-- `set.Insert(k)` with the error dropped -/
def setInsert (h : Heap) (xs : List Val) (k : Val) : List Val :=
  if hashable h (h.length + 1) k then (insertEntry h id id k xs).getD xs else xs

/-- `for j := i + 1; j < len(d.stack); j += 2 { dict.SetKey(d.stack[j], d.stack[j+1]) }` -/
def dictInsertAll (h : Heap) : List (Val × Val) → List Val → List (Val × Val)
  | kvs, k :: v :: rest => dictInsertAll h (dictInsert h kvs k v) rest
  | kvs, _ => kvs

def setInsertAll (h : Heap) (xs : List Val) (ks : List Val) : List Val := ks.foldl (setInsert h) xs

/-! ## Decoder: the stack machine of `(*Decoder).decode` -/

/-- references in range, executable (the Prop versions and their agreement are in `Dawn/Proofs/PickleDec.lean`) -/
def Val.closedB (n : Nat) : Val → Bool
  | .ref a => a < n
  | _ => true

def Obj.closedB (n : Nat) : Obj → Bool
  | .tuple xs => xs.all (Val.closedB n)
  | .list xs => xs.all (Val.closedB n)
  | .set xs => xs.all (Val.closedB n)
  | .dict kvs => kvs.all fun p => p.1.closedB n && p.2.closedB n
  | .host _ _ a => a.closedB n

/-- what the host `Unpickler` does with `(module, name, args)` -/
inductive HostVerdict where
  | construct        -- returns a fresh opaque non-nil value (modelled as `Obj.host module name args`)
  | result (heap' : Heap) (v : Val)
                     -- returns the value `v` (an argument, or something it built), having left the heap as `heap'`
                     -- (objects it allocated appended, dicts it updated replaced)
  | error            -- returns a non-nil error: `panic(failure(err))`
  | runtimePanic     -- panics with a `runtime.Error` (unchecked type assertion, index out of range, …)
  | otherPanic       -- panics with a value that is not an `error`
deriving DecidableEq, Repr

/-- a host's `result` is usable: it only extended the heap and every reference it produced is in range. A model of a
host that answers otherwise is not a model of a well-behaved host; the decoder treats it like `otherPanic`. -/
def hostResultOK (h h' : Heap) (v : Val) : Bool :=
  h.length ≤ h'.length && v.closedB h'.length && h'.all (Obj.closedB h'.length)

structure DecCfg where
  /-- D1 (repaired): `int(l) | int(h)<<16` -/
  oldBinint2 : Bool := false
  /-- `big.Int.UnmarshalText` -/
  parseInt : Bytes → Option Int := parseDecimal
  /-- `d.unpickler`; `none` is a nil Unpickler -/
  host : Option (Heap → Nat → Bytes → Bytes → List Val → HostVerdict) := Option.none
  /-- tie 1: `type failure error` is an interface type, so `recover().(failure)` matches every `error` -/
  failureIsInterface : Bool := true

structure DecSt where
  stack : List Val := []        -- head = top of `d.stack`
  memo : List Val := []         -- `d.memo`, in order
  heap : Heap := []
  nglobals : Nat := 0

inductive ErrKind where
  | underflow | invalidId | eof | badOpcode | badInt | wrongType | oddItems | noUnpickler | hostError
  | runtimeError            -- a `runtime.Error` recovered by `Decode` because it implements `error`
deriving DecidableEq, Repr

inductive Step where
  | cont (ds : DecSt)
  | done (v : Val) (ds : DecSt)          -- `return d.pop()`
  | fail (k : ErrKind)                   -- `panic(failure(..))`
  | rtPanic                              -- a Go run-time panic
  | otherPanic                           -- `panic(x)` with `x` not an `error`

def push (ds : DecSt) (v : Val) : Step := .cont { ds with stack := v :: ds.stack }

/-- push a newly allocated object -/
def alloc (ds : DecSt) (o : Obj) (below : List Val) : Step :=
  .cont { ds with stack := .ref ds.heap.length :: below, heap := ds.heap ++ [o] }

/-- the values above the topmost `mark` (top first) and the stack below that mark -/
def splitMark : List Val → Option (List Val × List Val)
  | [] => Option.none
  | .mark :: below => some ([], below)
  | v :: rest =>
    match splitMark rest with
    | some (items, below) => some (v :: items, below)
    | Option.none => Option.none

def pairUp : List Val → List (Val × Val)
  | k :: v :: rest => (k, v) :: pairUp rest
  | _ => []

/-- One iteration of the `for { switch op := d.readByte(); op {…} }` loop, after the payload has been read. -/
def stepOp (cfg : DecCfg) (ds : DecSt) : Op → Step
  | .mark => push ds .mark
  | .memoize =>
    match ds.stack with
    | v :: _ => .cont { ds with memo := ds.memo ++ [v] }
    | [] => .fail .underflow
  | .binget id | .longBinget id =>
    match ds.memo[id]? with
    | some v => push ds v
    | Option.none => .fail .invalidId
  | .stop =>
    match ds.stack with
    | v :: rest => .done v { ds with stack := rest }
    | [] => .fail .underflow
  | .none => push ds (.atom .none)
  | .newtrue => push ds (.atom (.bool true))
  | .newfalse => push ds (.atom (.bool false))
  | .int text =>
    match cfg.parseInt text with
    | some i => push ds (.atom (.int i))
    | Option.none => .fail .badInt
  | .binint1 n => push ds (.atom (.int n))
  | .binint2 l h => push ds (.atom (.int (Int.ofNat (l + h * (if cfg.oldBinint2 then 65536 else 256)))))
  | .binint w => push ds (.atom (.int (if w < 2147483648 then Int.ofNat w else Int.ofNat w - 4294967296)))
  | .binfloat w => push ds (.atom (.float (UInt64.ofNat w)))
  | .shortBinunicode s | .binunicode s => push ds (.atom (.str s))
  | .shortBinbytes s | .binbytes s => push ds (.atom (.bytes s))
  | .emptyList => alloc ds (.list []) ds.stack
  | .append =>
    match ds.stack with
    | [] => .fail .underflow
    | [_] => .fail .underflow
    | v :: .ref a :: rest =>
      match ds.heap[a]? with
      | some (.list xs) => .cont { ds with stack := .ref a :: rest, heap := ds.heap.set a (.list (xs ++ [v])) }
      | _ => .fail .wrongType
    | _ :: _ :: _ => .fail .wrongType
  | .appends =>
    match splitMark ds.stack with
    | some (items, .ref a :: below) =>
      match ds.heap[a]? with
      | some (.list xs) =>
        .cont { ds with stack := .ref a :: below, heap := ds.heap.set a (.list (xs ++ items.reverse)) }
      | _ => .fail .wrongType
    | some (_, _ :: _) => .fail .wrongType
    | _ => .fail .underflow            -- empty stack, no mark above the bottom slot, or the mark is the bottom slot
  | .emptyTuple => alloc ds (.tuple []) ds.stack
  | .tuple1 =>
    match ds.stack with
    | a :: rest => alloc ds (.tuple [a]) rest
    | _ => .fail .underflow
  | .tuple2 =>
    match ds.stack with
    | b :: a :: rest => alloc ds (.tuple [a, b]) rest
    | _ => .fail .underflow
  | .tuple3 =>
    match ds.stack with
    | c :: b :: a :: rest => alloc ds (.tuple [a, b, c]) rest
    | _ => .fail .underflow
  | .tuple =>
    match splitMark ds.stack with
    | some (items, below) => alloc ds (.tuple items.reverse) below
    | Option.none => .fail .underflow
  | .emptyDict => alloc ds (.dict []) ds.stack
  | .setitems =>
    match splitMark ds.stack with
    | some (items, .ref a :: below) =>
      match ds.heap[a]? with
      | some (.dict kvs) =>
        if items.length % 2 ≠ 0 then .fail .oddItems else
        .cont { ds with stack := .ref a :: below,
                        heap := ds.heap.set a (.dict (dictInsertAll ds.heap kvs items.reverse)) }
      | _ => .fail .wrongType
    | some (_, _ :: _) => .fail .wrongType
    | _ => .fail .underflow
  | .emptySet => alloc ds (.set []) ds.stack
  | .additems =>
    match splitMark ds.stack with
    | some (items, .ref a :: below) =>
      match ds.heap[a]? with
      | some (.set xs) =>
        .cont { ds with stack := .ref a :: below,
                        heap := ds.heap.set a (.set (setInsertAll ds.heap xs items.reverse)) }
      | _ => .fail .wrongType
    | some (_, _ :: _) => .fail .wrongType
    | _ => .fail .underflow
  | .stackGlobal =>
    match ds.stack with
    | .atom (.str name) :: .atom (.str module) :: rest =>
      .cont { ds with stack := .global ds.nglobals module name :: rest, nglobals := ds.nglobals + 1 }
    | _ :: _ :: _ => .fail .wrongType
    | _ => .fail .underflow
  | .newobj =>
    match ds.stack with
    | .ref a :: .global _ module name :: rest =>
      match ds.heap[a]? with
      | some (.tuple xs) =>
        match cfg.host with
        | Option.none => .fail .noUnpickler
        | some f =>
          match f ds.heap a module name xs with       -- the heap, the address of the args tuple, (module, name, args)
          | .construct => alloc ds (.host module name (.ref a)) rest
          | .result h' v =>
            if hostResultOK ds.heap h' v then .cont { ds with stack := v :: rest, heap := h' } else .otherPanic
          | .error => .fail .hostError
          | .runtimePanic => .rtPanic
          | .otherPanic => .otherPanic
      | _ => .fail .wrongType
    | _ :: _ :: _ => .fail .wrongType
    | _ => .fail .underflow

/-- the result of the inner `d.decode()` -/
inductive Raw where
  | value (v : Val) (heap : Heap)
  | failure (k : ErrKind)
  | rtPanic
  | otherPanic
  | outOfFuel                 -- the loop did not finish (a hang); shown impossible in `C15_no_crash`

/-- what `Decode` returns -/
inductive Outcome where
  | ok (heap : Heap) (root : Val)     -- `(x, nil)` with `x` non-nil
  | err (k : ErrKind)                 -- `(nil, err)`
  | nilNoErr                          -- `(nil, nil)`
  | outOfFuel
deriving DecidableEq, Repr

/-- op-level run (used by the round-trip proof) -/
def run (cfg : DecCfg) : DecSt → List Op → Raw
  | _, [] => .failure .eof
  | ds, op :: ops =>
    match stepOp cfg ds op with
    | .cont ds' => run cfg ds' ops
    | .done v ds' => .value v ds'.heap
    | .fail k => .failure k
    | .rtPanic => .rtPanic
    | .otherPanic => .otherPanic

/-- the decoder loop over bytes -/
def decodeLoop (cfg : DecCfg) : Nat → DecSt → Bytes → Raw
  | 0, _, _ => .outOfFuel
  | fuel + 1, ds, bs =>
    match parseOp bs with
    | .eof => .failure .eof
    | .bad _ => .failure .badOpcode
    | .op o rest =>
      match stepOp cfg ds o with
      | .cont ds' => decodeLoop cfg fuel ds' rest
      | .done v ds' => .value v ds'.heap
      | .fail k => .failure k
      | .rtPanic => .rtPanic
      | .otherPanic => .otherPanic

/-- `defer func() { if f, ok := recover().(failure); ok { err = error(f) } }()`:
`recover()` is called unconditionally, so every panic stops here; the named results stay `(nil, nil)` unless the
panic value implements `failure`. With `type failure error` that is every `error`, including `runtime.Error`. -/
def recoverDecode (failureIsInterface : Bool) : Raw → Outcome
  | .value v h => .ok h v
  | .failure k => .err k
  | .rtPanic => if failureIsInterface then .err .runtimeError else .nilNoErr
  | .otherPanic => .nilNoErr
  | .outOfFuel => .outOfFuel

/-- `NewDecoder(bytes.NewReader(bs), unpickler).Decode()` -/
def decode (cfg : DecCfg) (bs : Bytes) : Outcome :=
  recoverDecode cfg.failureIsInterface (decodeLoop cfg (bs.length + 1) {} bs)

/-! ## Encoder: `(*Encoder).encode` / `encodeComplex`

The encoder works on a graph whose addresses are already in the order in which the decoder will allocate them
(containers when first met, tuples and host objects when complete; `a = st.next` checks it): the harness
canonicalises Go values that way. On such graphs the round trip is an *equality* of graphs. `none` means: not
canonical / dangling reference / a decoder sentinel in the graph / out of fuel / (the one real Go error) a host
object with no Pickler installed. -/

structure EncCfg where
  /-- D2 (repaired): `if !first { e.encode(x) }` before every batch after the first -/
  rebatch : Bool := false
  /-- a host `Pickler` is installed; with `nil` a host object is "cannot pickle value of type …" -/
  pickler : Bool := true

structure EncSt where
  memo : List (Nat × Nat)    -- address ↦ memo id, newest first (`e.memo`)
  next : Nat                 -- the address the decoder allocates next

def lookup (m : List (Nat × Nat)) (a : Nat) : Option Nat :=
  (m.find? (fun p => p.1 == a)).map (·.2)

/-- `if id < 256 { BINGET } else { LONG_BINGET }` -/
def encGet (id : Nat) : Op := if id < 256 then .binget id else .longBinget id

/-- `encodeString(opShort, opLong, x)` -/
def encStr (s : Bytes) : Op := if s.length < 256 then .shortBinunicode s else .binunicode s
def encBytes (s : Bytes) : Op := if s.length < 256 then .shortBinbytes s else .binbytes s

/-- `case starlark.Int:` -/
def encInt (i : Int) : Op :=
  if i < -2147483648 ∨ 2147483647 < i then .int (intText i)
  else if 0 ≤ i ∧ i < 256 then .binint1 i.toNat
  else if 0 ≤ i ∧ i < 65536 then .binint2 (i.toNat % 256) (i.toNat / 256 % 256)
  else .binint (i % 4294967296).toNat

def encAtom : Atom → Op
  | .none => .none
  | .bool true => .newtrue
  | .bool false => .newfalse
  | .int i => encInt i
  | .float bits => .binfloat bits.toNat
  | .str s => encStr s
  | .bytes s => encBytes s

/-- `for _, elem := range xs { e.encode(elem) }` -/
def encSeq (f : EncSt → Val → Option (EncSt × List Op)) : EncSt → List Val → Option (EncSt × List Op)
  | st, [] => some (st, [])
  | st, x :: xs =>
    match f st x with
    | Option.none => Option.none
    | some (st1, ops1) =>
      match encSeq f st1 xs with
      | Option.none => Option.none
      | some (st2, ops2) => some (st2, ops1 ++ ops2)

/-- `batch := elems[:1000]; elems = elems[len(batch):]` until empty (`fuel ≥ xs.length`) -/
def chunks {α : Type} (n : Nat) : Nat → List α → List (List α)
  | 0, _ => []
  | _ + 1, [] => []
  | f + 1, x :: xs => (x :: xs).take n :: chunks n f ((x :: xs).drop n)

/-- the batch loop: `[if !first { e.encode(x) }]  MARK  elems…  <close>` per batch -/
def encBatches (f : EncSt → Val → Option (EncSt × List Op)) (rebatch : Bool) (self : Op) (close : Op) :
    Bool → EncSt → List (List Val) → Option (EncSt × List Op)
  | _, st, [] => some (st, [])
  | first, st, b :: bs =>
    match encSeq f st b with
    | Option.none => Option.none
    | some (st1, ops1) =>
      match encBatches f rebatch self close false st1 bs with
      | Option.none => Option.none
      | some (st2, ops2) =>
        some (st2, (if !first && rebatch then [self] else []) ++ [Op.mark] ++ ops1 ++ [close] ++ ops2)

def flattenPairs (kvs : List (Val × Val)) : List Val := kvs.flatMap fun p => [p.1, p.2]

def encVal (cfg : EncCfg) (g : Heap) : Nat → EncSt → Val → Option (EncSt × List Op)
  | _, st, .atom a => some (st, [encAtom a])
  | _, _, .mark => Option.none
  | _, _, .global _ _ _ => Option.none
  | 0, _, .ref _ => Option.none
  | fuel + 1, st, .ref a =>
    match lookup st.memo a with
    | some id => some (st, [encGet id])                        -- `if id, ok := e.memoized(x); ok`
    | Option.none =>
      match g[a]? with
      | Option.none => Option.none
      | some (.tuple xs) =>
        match encSeq (encVal cfg g fuel) st xs with
        | Option.none => Option.none
        | some (st', ops) =>
          if a = st'.next then
            some ({ st' with next := st'.next + 1 },
              match xs.length with
              | 0 => [.emptyTuple]
              | 1 => ops ++ [.tuple1]
              | 2 => ops ++ [.tuple2]
              | 3 => ops ++ [.tuple3]
              | _ => [.mark] ++ ops ++ [.tuple])                -- `e.memoize(x)`: a Tuple is not comparable, no-op
          else Option.none
      | some (.list xs) =>
        if a = st.next then
          let id := st.memo.length
          let st0 : EncSt := { memo := (a, id) :: st.memo, next := st.next + 1 }
          match xs with
          | [] => some (st0, [.emptyList, .memoize])
          | [x] =>
            match encVal cfg g fuel st0 x with
            | Option.none => Option.none
            | some (st', ops) => some (st', [.emptyList, .memoize] ++ ops ++ [.append])
          | _ =>
            match encBatches (encVal cfg g fuel) cfg.rebatch (encGet id) .appends true st0
                (chunks batchSize xs.length xs) with
            | Option.none => Option.none
            | some (st', ops) => some (st', [.emptyList, .memoize] ++ ops)
        else Option.none
      | some (.dict kvs) =>
        if a = st.next then
          let id := st.memo.length
          let st0 : EncSt := { memo := (a, id) :: st.memo, next := st.next + 1 }
          match encBatches (encVal cfg g fuel) cfg.rebatch (encGet id) .setitems true st0
              ((chunks batchSize kvs.length kvs).map flattenPairs) with
          | Option.none => Option.none
          | some (st', ops) => some (st', [.emptyDict, .memoize] ++ ops)
        else Option.none
      | some (.set xs) =>
        if a = st.next then
          let id := st.memo.length
          let st0 : EncSt := { memo := (a, id) :: st.memo, next := st.next + 1 }
          match encBatches (encVal cfg g fuel) cfg.rebatch (encGet id) .additems true st0
              (chunks batchSize xs.length xs) with
          | Option.none => Option.none
          | some (st', ops) => some (st', [.emptySet, .memoize] ++ ops)
        else Option.none
      | some (.host module name args) =>
        if !cfg.pickler then Option.none else
        match args with
        | .ref t =>
          match g[t]? with
          | some (.tuple _) =>
            match encVal cfg g fuel st args with
            | Option.none => Option.none
            | some (st', ops) =>
              if a = st'.next then
                some ({ memo := (a, st'.memo.length) :: st'.memo, next := st'.next + 1 },
                  [encStr module, encStr name, .stackGlobal] ++ ops ++ [.newobj, .memoize])
              else Option.none
          | _ => Option.none
        | _ => Option.none

/-- the op list `Encode(x)` writes: `e.encode(x); e.w.WriteByte(opSTOP)`, for a graph all of whose objects are
reached -/
def encodeOps (cfg : EncCfg) (g : Graph) : Option (List Op) :=
  match encVal cfg g.heap (g.heap.length + 1) ⟨[], 0⟩ g.root with
  | some (st, ops) => if st.next = g.heap.length then some (ops ++ [.stop]) else Option.none
  | Option.none => Option.none

def encode (cfg : EncCfg) (g : Graph) : Option Bytes := (encodeOps cfg g).map serAll

/-! ## Hypotheses of the round-trip theorem, executable so that the driver checks them on every generated graph -/

/-- enough fuel to hash a key: in a canonical graph a tuple only reaches tuples at lower addresses -/
def keyFuel : Val → Nat
  | .ref a => a + 2
  | _ => 1

/-- every later key differs from every earlier one (`Equal`, within the comparison depth) -/
def distinctKeys (g : Heap) : List Val → Bool
  | [] => true
  | k :: rest => rest.all (fun k' => keyCmp g 10 k' k == some false) && distinctKeys g rest

/-- what every Starlark dict / set satisfies: keys hashable and pairwise different -/
def keysOK (g : Heap) (ks : List Val) : Bool :=
  ks.all (fun k => hashable g (keyFuel k) k) && distinctKeys g ks

def Obj.keysOK (g : Heap) : Obj → Bool
  | .dict kvs => Pickle.keysOK g (kvs.map (·.1))
  | .set xs => Pickle.keysOK g xs
  | _ => true

def Heap.keysOK (g : Heap) : Bool := g.all (Obj.keysOK g)

def Atom.sizeOK : Atom → Bool
  | .str s => s.length < 4294967296
  | .bytes s => s.length < 4294967296
  | _ => true

def Val.sizeOK : Val → Bool
  | .atom a => a.sizeOK
  | _ => true

def Obj.sizeOK : Obj → Bool
  | .tuple xs => xs.all Val.sizeOK
  | .list xs => xs.all Val.sizeOK
  | .set xs => xs.all Val.sizeOK
  | .dict kvs => kvs.all fun p => p.1.sizeOK && p.2.sizeOK
  | .host m n a => m.length < 4294967296 && n.length < 4294967296 && a.sizeOK

/-- the format's 4-byte fields suffice: strings shorter than 2^32 bytes, fewer than 2^32 objects -/
def Graph.sizesOK (g : Graph) : Bool :=
  g.heap.length < 4294967296 && g.root.sizeOK && g.heap.all Obj.sizeOK

/-! ## Canonical graphs, characterised independently of the encoder

A graph is *canonical* when its addresses are the order in which the decoder allocates: walk the value depth first,
children left to right (dict: key, value, key, value, …; host object: its argument tuple); a list, dict or set takes
the next free address when it is FIRST met (before its contents — so that a cycle back to it is a reference to an
address already taken) and is not entered again; a tuple takes the next free address when its elements are done,
every time it is met (tuples are not memoised: every occurrence is its own object); a host object takes the next free
address when its arguments are done, and is not entered again. The walk must end with every address of the heap taken
(so every object is reachable from the root). A host object that reaches itself without passing through a list, dict
or set has no finite walk (`hostAcyclic` fails): such graphs are not canonical, as are graphs with dangling
references or decoder sentinels. No opcodes, memo ids or bytes are involved. -/

structure WalkSt where
  seen : List Nat     -- lists, dicts, sets, host objects already numbered
  next : Nat          -- the next free address

def walkSeq (f : WalkSt → Val → Option WalkSt) : WalkSt → List Val → Option WalkSt
  | st, [] => some st
  | st, x :: xs =>
    match f st x with
    | Option.none => Option.none
    | some st1 => walkSeq f st1 xs

def walkVal (g : Heap) : Nat → WalkSt → Val → Option WalkSt
  | _, st, .atom _ => some st
  | _, _, .mark => Option.none
  | _, _, .global _ _ _ => Option.none
  | 0, _, .ref _ => Option.none
  | fuel + 1, st, .ref a =>
    if st.seen.contains a then some st else
    match g[a]? with
    | Option.none => Option.none
    | some (.tuple xs) =>
      match walkSeq (walkVal g fuel) st xs with
      | some st' => if a = st'.next then some { st' with next := st'.next + 1 } else Option.none
      | Option.none => Option.none
    | some (.list xs) =>
      if a = st.next then walkSeq (walkVal g fuel) { seen := a :: st.seen, next := st.next + 1 } xs else Option.none
    | some (.dict kvs) =>
      if a = st.next then walkSeq (walkVal g fuel) { seen := a :: st.seen, next := st.next + 1 } (flattenPairs kvs)
      else Option.none
    | some (.set xs) =>
      if a = st.next then walkSeq (walkVal g fuel) { seen := a :: st.seen, next := st.next + 1 } xs else Option.none
    | some (.host _ _ args) =>
      match args with
      | .ref t =>
        match g[t]? with
        | some (.tuple _) =>
          match walkVal g fuel st args with
          | some st' => if a = st'.next then some { seen := a :: st'.seen, next := st'.next + 1 } else Option.none
          | Option.none => Option.none
        | _ => Option.none
      | _ => Option.none

/-- executable: the walk from the root, with as much fuel as there are objects plus one (`C07_canonical_fuel`: that
is always enough), numbers the whole heap -/
def Graph.canonical (g : Graph) : Bool :=
  match walkVal g.heap (g.heap.length + 1) ⟨[], 0⟩ g.root with
  | some st => st.next == g.heap.length
  | Option.none => false

/-! ## dawn's host unpickler for function environments: `envUnpickler` (`function.go`)

Modelled with the values it really returns (an argument, the argument tuple, a string, a new dict, the updated
function-code dict), so that the rest of the decoder sees what the real decoder sees. Its unchecked type assertions and
indexing are `runtimePanic` (a `runtime.Error`, which `Decode` recovers into an error). -/

def bDawn : Bytes := [0x64, 0x61, 0x77, 0x6e]  -- "dawn"
def bTarget : Bytes := [0x54, 0x61, 0x72, 0x67, 0x65, 0x74]  -- "Target"
def bBuiltin : Bytes := [0x42, 0x75, 0x69, 0x6c, 0x74, 0x69, 0x6e]  -- "Builtin"
def bRecursive : Bytes := [0x52, 0x65, 0x63, 0x75, 0x72, 0x73, 0x69, 0x76, 0x65]  -- "Recursive"
def bMandatory : Bytes := [0x4d, 0x61, 0x6e, 0x64, 0x61, 0x74, 0x6f, 0x72, 0x79]  -- "Mandatory"
def bFunctionCode : Bytes := [0x46, 0x75, 0x6e, 0x63, 0x74, 0x69, 0x6f, 0x6e, 0x43, 0x6f, 0x64, 0x65]  -- "FunctionCode"
def bFunction : Bytes := [0x46, 0x75, 0x6e, 0x63, 0x74, 0x69, 0x6f, 0x6e]  -- "Function"
def bMandatoryText : Bytes := [0x6d, 0x61, 0x6e, 0x64, 0x61, 0x74, 0x6f, 0x72, 0x79, 0x20, 0x70, 0x61, 0x72, 0x61, 0x6d, 0x65, 0x74, 0x65, 0x72]  -- "mandatory parameter"
def kNames : Bytes := [0x6e, 0x61, 0x6d, 0x65, 0x73]  -- "names"
def kConstants : Bytes := [0x63, 0x6f, 0x6e, 0x73, 0x74, 0x61, 0x6e, 0x74, 0x20, 0x76, 0x61, 0x6c, 0x75, 0x65, 0x73]  -- "constant values"
def kPredeclared : Bytes := [0x70, 0x72, 0x65, 0x64, 0x65, 0x63, 0x6c, 0x61, 0x72, 0x65, 0x64, 0x20, 0x76, 0x61, 0x6c, 0x75, 0x65, 0x73]  -- "predeclared values"
def kUniversal : Bytes := [0x75, 0x6e, 0x69, 0x76, 0x65, 0x72, 0x73, 0x61, 0x6c, 0x20, 0x76, 0x61, 0x6c, 0x75, 0x65, 0x73]  -- "universal values"
def kFunctions : Bytes := [0x66, 0x75, 0x6e, 0x63, 0x74, 0x69, 0x6f, 0x6e, 0x20, 0x76, 0x61, 0x6c, 0x75, 0x65, 0x73]  -- "function values"
def kGlobals : Bytes := [0x67, 0x6c, 0x6f, 0x62, 0x61, 0x6c, 0x20, 0x76, 0x61, 0x6c, 0x75, 0x65, 0x73]  -- "global values"
def kCode : Bytes := [0x63, 0x6f, 0x64, 0x65]  -- "code"
def kParameters : Bytes := [0x70, 0x61, 0x72, 0x61, 0x6d, 0x65, 0x74, 0x65, 0x72, 0x73]  -- "parameters"
def kDefaults : Bytes := [0x64, 0x65, 0x66, 0x61, 0x75, 0x6c, 0x74, 0x20, 0x70, 0x61, 0x72, 0x61, 0x6d, 0x65, 0x74, 0x65, 0x72, 0x20, 0x76, 0x61, 0x6c, 0x75, 0x65, 0x73]  -- "default parameter values"
def kFreeVars : Bytes := [0x66, 0x72, 0x65, 0x65, 0x20, 0x76, 0x61, 0x72, 0x69, 0x61, 0x62, 0x6c, 0x65, 0x73]  -- "free variables"

def sv (b : Bytes) : Val := .atom (.str b)

/-- the loop of `makeDictFromAssociationList`: `pair := pv.(starlark.Tuple); dict.SetKey(pair[0].(starlark.String), pair[1])`;
`none` is a run-time panic (not a tuple, fewer than two elements, key not a string) -/
def envPairs (h : Heap) : List Val → List (Val × Val) → Option (List (Val × Val))
  | [], acc => some acc
  | .ref p :: rest, acc =>
    match h[p]? with
    | some (.tuple (.atom (.str k) :: v :: _)) => envPairs h rest (dictInsert h acc (.atom (.str k)) v)
    | _ => Option.none
  | _ :: _, _ => Option.none

/-- `makeDictFromAssociationList(al)`: `None` for a non-tuple, else a new dict; `none` is a run-time panic -/
def envMakeDict (h : Heap) (al : Val) : Option (Heap × Val) :=
  match al with
  | .ref a =>
    match h[a]? with
    | some (.tuple pairs) =>
      match envPairs h pairs [] with
      | some kvs => some (h ++ [.dict kvs], .ref h.length)
      | Option.none => Option.none
    | _ => some (h, .atom .none)
  | _ => some (h, .atom .none)

/-- `case "FunctionCode"` after the length check -/
def envFunctionCode (h : Heap) (m globals bytecode : Val) (params : List (Val × Val)) : HostVerdict :=
  match m with
  | .ref ma =>
    match h[ma]? with
    | some (.tuple (names :: constants :: predeclared :: universals :: functions :: _)) =>
      match envMakeDict h predeclared with
      | Option.none => .runtimePanic
      | some (h1, dp) =>
        match envMakeDict h1 universals with
        | Option.none => .runtimePanic
        | some (h2, du) =>
          match envMakeDict h2 globals with
          | Option.none => .runtimePanic
          | some (h3, dg) =>
            .result (h3 ++ [.dict ([(sv kNames, names), (sv kConstants, constants), (sv kPredeclared, dp),
                (sv kUniversal, du), (sv kFunctions, functions), (sv kGlobals, dg), (sv kCode, bytecode)] ++ params)])
              (.ref h3.length)
    | _ => .runtimePanic       -- `args[0].(starlark.Tuple)` / `module[4]`
  | _ => .runtimePanic

/-- `envUnpickler(module, name, args)`; `a` is the address of the `args` tuple -/
def envHost (h : Heap) (a : Nat) (module name : Bytes) (args : List Val) : HostVerdict :=
  if module ≠ bDawn then .error
  else if name = bTarget then
    match args with
    | [x] => .result h x
    | _ => .error
  else if name = bBuiltin then
    if args.length = 0 ∨ args.length = 2 then .result h (.ref a) else .error
  else if name = bRecursive then
    if args.length = 2 then .result h (.ref a) else .error
  else if name = bMandatory then
    if args.length = 0 then .result h (sv bMandatoryText) else .error
  else if name = bFunctionCode then
    match args with
    | [m, globals, bytecode] => envFunctionCode h m globals bytecode []
    | [m, globals, bytecode, params] => envFunctionCode h m globals bytecode [(sv kParameters, params)]
    | _ => .error
  else if name = bFunction then
    match args with
    | [defaults, freeVars, .ref fc] =>
      match h[fc]? with
      | some (.dict kvs) =>
        match envMakeDict h defaults with
        | Option.none => .runtimePanic
        | some (h1, d1) =>
          match envMakeDict h1 freeVars with
          | Option.none => .runtimePanic
          | some (h2, d2) =>
            .result (h2.set fc (.dict (dictInsert h2 (dictInsert h2 kvs (sv kDefaults) d1) (sv kFreeVars) d2))) (.ref fc)
      | _ => .runtimePanic     -- `args[2].(*starlark.Dict)`
    | [_, _, _] => .runtimePanic
    | _ => .error
  else .error

/-- the decoder configuration of `functionEnv` / `(*function).load`: `pickle.NewDecoder(r, pickle.UnpicklerFunc(envUnpickler))` -/
def envCfg : DecCfg := { host := some envHost }

/-- `decodeEnv`: decoding a persisted function environment -/
def decodeEnv (bs : Bytes) : Outcome := decode envCfg bs

/-! ## Several values through one Encoder / one Decoder

`Encoder.memo` (and its id counter) and `Decoder.memo`, `Decoder.stack` are fields that no `Encode` / `Decode` call
resets: a container memoised while writing one value is written as a BINGET when a later value of the same stream
contains it, and the Decoder resolves that id in the memo it has kept — so sharing ACROSS the values of a stream is
preserved, and an Encoder must be read back by a Decoder that has seen the same prefix. -/

structure MGraph where
  heap : Heap
  roots : List Val
deriving DecidableEq, Repr

/-- `for _, v := range vs { enc.Encode(v) }` on one Encoder: the encoder state is carried over -/
def encStream (cfg : EncCfg) (g : Heap) (fuel : Nat) : EncSt → List Val → Option (EncSt × List Op)
  | st, [] => some (st, [])
  | st, v :: vs =>
    match encVal cfg g fuel st v with
    | Option.none => Option.none
    | some (st1, ops1) =>
      match encStream cfg g fuel st1 vs with
      | Option.none => Option.none
      | some (st2, ops2) => some (st2, ops1 ++ [Op.stop] ++ ops2)

def encodeStream (cfg : EncCfg) (g : MGraph) : Option Bytes :=
  match encStream cfg g.heap (g.heap.length + 1) ⟨[], 0⟩ g.roots with
  | some (st, ops) => if st.next = g.heap.length then some (serAll ops) else Option.none
  | Option.none => Option.none

/-- one `Decode` call that also hands back the decoder's state and the unread input -/
inductive NextRaw where
  | value (v : Val) (ds : DecSt) (rest : Bytes)
  | failure (k : ErrKind)
  | rtPanic
  | otherPanic
  | outOfFuel

def decodeNext (cfg : DecCfg) : Nat → DecSt → Bytes → NextRaw
  | 0, _, _ => .outOfFuel
  | fuel + 1, ds, bs =>
    match parseOp bs with
    | .eof => .failure .eof
    | .bad _ => .failure .badOpcode
    | .op o rest =>
      match stepOp cfg ds o with
      | .cont ds' => decodeNext cfg fuel ds' rest
      | .done v ds' => .value v ds' rest
      | .fail k => .failure k
      | .rtPanic => .rtPanic
      | .otherPanic => .otherPanic

inductive StreamOutcome where
  | ok (vals : List Val) (heap : Heap)      -- every call returned a value
  | err (call : Nat) (k : ErrKind)          -- the call with this index (from 0) returned an error
  | nilNoErr (call : Nat)
  | outOfFuel
deriving DecidableEq, Repr

/-- `n` calls of `Decode` on one Decoder reading `bs` -/
def decodeStream (cfg : DecCfg) : Nat → DecSt → Bytes → List Val → StreamOutcome
  | 0, ds, _, acc => .ok acc ds.heap
  | n + 1, ds, bs, acc =>
    match decodeNext cfg (bs.length + 1) ds bs with
    | .value v ds' rest => decodeStream cfg n ds' rest (acc ++ [v])
    | .failure k => .err acc.length k
    | .rtPanic => if cfg.failureIsInterface then .err acc.length .runtimeError else .nilNoErr acc.length
    | .otherPanic => .nilNoErr acc.length
    | .outOfFuel => .outOfFuel

/-! ## A Decoder used again after a call that failed

Nothing in `Decode` resets the Decoder when a call fails: the next call goes on reading where the failed one stopped,
with the stack as the failing op left it (`d.pop()` happens before the check that fails). An op that fails on the end
of the input has consumed all of it (`io.ReadFull` / `io.CopyN` read what there is), so every later call fails at once. -/

/-- the decoder state after `op` failed in state `ds`: what it had popped before the failing check stays popped -/
def failState (ds : DecSt) : Op → DecSt
  | .append =>                                   -- `v := d.pop()` then `d.peek()` / the type test fails
    match ds.stack with
    | _ :: rest => { ds with stack := rest }
    | [] => ds
  | .tuple2 =>                                   -- `b, a := d.pop(), d.pop()`
    match ds.stack with
    | [_] => { ds with stack := [] }
    | _ => ds
  | .tuple3 =>
    match ds.stack with
    | [_] => { ds with stack := [] }
    | [_, _] => { ds with stack := [] }
    | _ => ds
  | .stackGlobal =>                              -- name popped, tested; module popped, tested
    match ds.stack with
    | .atom (.str _) :: _ :: rest => { ds with stack := rest }
    | [.atom (.str _)] => { ds with stack := [] }
    | _ :: rest => { ds with stack := rest }
    | [] => ds
  | .newobj =>                                   -- args popped, tested; global popped, tested; then the unpickler
    match ds.stack with
    | .ref a :: rest =>
      match ds.heap[a]? with
      | some (.tuple _) => { ds with stack := rest.tail }
      | _ => { ds with stack := rest }
    | _ :: rest => { ds with stack := rest }
    | [] => ds
  | _ => ds                                      -- every other op checks before it changes anything

/-- one `Decode` call: its outcome, the Decoder afterwards, the unread input -/
def decodeCall (cfg : DecCfg) : Nat → DecSt → Bytes → Outcome × DecSt × Bytes
  | 0, ds, bs => (.outOfFuel, ds, bs)
  | fuel + 1, ds, bs =>
    match parseOp bs with
    | .eof => (.err .eof, ds, [])
    | .bad _ => (.err .badOpcode, ds, bs.tail)
    | .op o rest =>
      match stepOp cfg ds o with
      | .cont ds' => decodeCall cfg fuel ds' rest
      | .done v ds' => (.ok ds'.heap v, ds', rest)
      | .fail k => (.err k, failState ds o, rest)
      | .rtPanic => (if cfg.failureIsInterface then .err .runtimeError else .nilNoErr, failState ds o, rest)
      | .otherPanic => (.nilNoErr, failState ds o, rest)

/-- `n` calls of `Decode` on one Decoder, whatever each of them answers -/
def decodeCalls (cfg : DecCfg) : Nat → DecSt → Bytes → List Outcome
  | 0, _, _ => []
  | n + 1, ds, bs =>
    match decodeCall cfg (bs.length + 1) ds bs with
    | (o, ds', rest) => o :: decodeCalls cfg n ds' rest

end Dawn.Pickle

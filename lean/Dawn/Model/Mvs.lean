/-!
# Model of dawn's minimal version selection (C10, C11)

What is modelled, and from where:

* `internal/mvs/reqs.go`      — `Reqs.Required`, `Reqs.Max`/`cmpVersion`, `Reqs.Upgrade`, `Reqs.Previous`
* `internal/mvs/get.go`       — `transformReqs`, `Get`/`get`, `UpgradeAll`, `BuildList`, `Tidy`
* `internal/mvs/query.go`     — `parseVersionQuery`, `resolveVersionQuery` and the query kinds
* `internal/project/version.go` — `SplitPathVersion`, `TrimPathVersion`, `JoinPathVersion`, `CleanPath`
* `github.com/pgavlin/mvs` (version fixed by go.sum; tie `mvs_module_ok`) — `BuildList`/`buildList`, `Graph`,
  `Req`/`ReqList`, `Upgrade`, `UpgradeAll`, `Downgrade`, `override`
* `golang.org/x/mod/semver`   — `parse`, `Canonical`, `Major`, `MajorMinor`, `Prerelease`, `Compare`

The third-party algorithms explore the requirement graph with a parallel work queue that picks the next item
at random (`internal/par.Work`); here they are *sequential worklists* (the queue is not modelled; `C10_order`
shows that the answer does not depend on the order in which items are taken). Recursive Go functions are
explicit stack machines with a fuel argument; running out of fuel is the outcome `Err.fuel` (the Go code would
not return), never a made-up answer. The resolver's I/O (dialing, fetching, caches) is the function
`Env.summary`; the state of the download cache is therefore not an input of the model.

Core Lean only (linked into `drv_mvs`).
-/
namespace Dawn.Mvs

/-! ## semantic versions (`golang.org/x/mod/semver`) -/

/-- one dot-separated identifier of a prerelease: all digits (no leading zero) or alphanumeric-with-hyphen -/
inductive PreId where
  | num (n : Nat)
  | str (s : List Char)
deriving DecidableEq, Repr

/-- a canonical semantic version `vMAJOR.MINOR.PATCH[-PRERELEASE]` (build metadata is not part of it) -/
structure SemVer where
  major : Nat
  minor : Nat
  patch : Nat
  pre : List PreId
deriving DecidableEq, Repr

/-- the version strings the algorithms meet: `""` (the main project), `"none"`, and canonical versions.
Anything else that is not a valid version behaves like `"none"` for `semver.Compare`. -/
inductive Ver where
  | root
  | none
  | sv (s : SemVer)
deriving DecidableEq, Repr

/-- lexicographic comparison, a proper prefix is smaller -/
def cmpList {α : Type} (c : α → α → Ordering) : List α → List α → Ordering
  | [], [] => .eq
  | [], _ :: _ => .lt
  | _ :: _, [] => .gt
  | a :: as, b :: bs => match c a b with
    | .eq => cmpList c as bs
    | o => o

def cmpChar (a b : Char) : Ordering := compare a.toNat b.toNat

/-- `comparePrerelease` on one identifier: numeric identifiers are smaller than alphanumeric ones, numeric
ones compare as numbers, the others as ASCII strings -/
def PreId.cmp : PreId → PreId → Ordering
  | .num a, .num b => compare a b
  | .num _, .str _ => .lt
  | .str _, .num _ => .gt
  | .str a, .str b => cmpList cmpChar a b

/-- `comparePrerelease`: no prerelease is greater than any prerelease -/
def cmpPre : List PreId → List PreId → Ordering
  | [], [] => .eq
  | [], _ :: _ => .gt
  | _ :: _, [] => .lt
  | a :: as, b :: bs => cmpList PreId.cmp (a :: as) (b :: bs)

def SemVer.cmp (a b : SemVer) : Ordering :=
  match compare a.major b.major with
  | .eq => match compare a.minor b.minor with
    | .eq => match compare a.patch b.patch with
      | .eq => cmpPre a.pre b.pre
      | o => o
    | o => o
  | o => o

/-- `semver.Compare`: an invalid version (`""`, `"none"`) is smaller than a valid one, two invalid ones are equal -/
def semverCompare : Ver → Ver → Ordering
  | .sv a, .sv b => a.cmp b
  | .sv _, _ => .gt
  | _, .sv _ => .lt
  | _, _ => .eq

/-- `cmpVersion` (reqs.go): the main project's `""` is greater than every other version -/
def cmpVersion (v1 v2 : Ver) : Ordering :=
  if v2 = .root then (if v1 = .root then .eq else .lt)
  else if v1 = .root then .gt
  else semverCompare v1 v2

/-- `Reqs.Max` -/
def vmax (v1 v2 : Ver) : Ver := if cmpVersion v1 v2 = .lt then v2 else v1

/-- the three-way comparison `buildList` derives from `reqs.Max` -/
def cmpMax (v1 v2 : Ver) : Ordering :=
  if vmax v1 v2 ≠ v1 then .lt else if vmax v2 v1 ≠ v2 then .gt else .eq

/-! ### parsing and printing -/

def isDigit (c : Char) : Bool := '0' ≤ c ∧ c ≤ '9'
def isIdentChar (c : Char) : Bool := ('A' ≤ c ∧ c ≤ 'Z') ∨ ('a' ≤ c ∧ c ≤ 'z') ∨ isDigit c ∨ c = '-'

def digitsVal (ds : List Char) : Nat := ds.foldl (fun acc c => acc * 10 + (c.toNat - '0'.toNat)) 0

def spanDigits : List Char → List Char × List Char
  | [] => ([], [])
  | c :: cs => if isDigit c then let (d, r) := spanDigits cs; (c :: d, r) else ([], c :: cs)

/-- `parseInt`: a non-empty run of digits without a leading zero (other than `0` itself) -/
def parseInt (v : List Char) : Option (Nat × List Char) :=
  match spanDigits v with
  | ([], _) => .none
  | (d :: ds, rest) => if d = '0' ∧ ds ≠ [] then .none else some (digitsVal (d :: ds), rest)

def splitOnChar (sep : Char) : List Char → List (List Char)
  | [] => [[]]
  | c :: cs =>
    match splitOnChar sep cs with
    | [] => [[c]]
    | h :: t => if c = sep then [] :: h :: t else (c :: h) :: t

def spanUntil (stop : Char) : List Char → List Char × List Char
  | [] => ([], [])
  | c :: cs => if c = stop then ([], c :: cs) else let (a, r) := spanUntil stop cs; (c :: a, r)

/-- `isBadNum`: all digits, longer than one, leading zero -/
def isBadNum (id : List Char) : Bool := id.all isDigit ∧ id.length > 1 ∧ id.head? = some '0'

def mkPreId (id : List Char) : PreId := if id.all isDigit then .num (digitsVal id) else .str id

/-- `parsePrerelease` on the text after the hyphen (up to, not including, a `+`) -/
def parsePre (body : List Char) : Option (List PreId) :=
  let ids := splitOnChar '.' body
  if body.all (fun c => isIdentChar c ∨ c = '.') ∧ ids.all (fun id => id ≠ [] ∧ ¬ isBadNum id) then some (ids.map mkPreId)
  else .none

/-- `parseBuild` on the text after the plus -/
def validBuild (body : List Char) : Bool :=
  body.all (fun c => isIdentChar c ∨ c = '.') ∧ (splitOnChar '.' body).all (· ≠ [])

structure Parsed where
  sv : SemVer
  /-- 0: `vM.m.p…`; 1: `vM.m` (short `.0`); 2: `vM` (short `.0.0`) -/
  short : Nat
  build : Bool
deriving Repr

/-- `semver.parse` -/
def parseSem (v : List Char) : Option Parsed :=
  match v with
  | 'v' :: r0 =>
    match parseInt r0 with
    | .none => .none
    | some (maj, []) => some ⟨⟨maj, 0, 0, []⟩, 2, false⟩
    | some (maj, '.' :: r1) =>
      match parseInt r1 with
      | .none => .none
      | some (mi, []) => some ⟨⟨maj, mi, 0, []⟩, 1, false⟩
      | some (mi, '.' :: r2) =>
        match parseInt r2 with
        | .none => .none
        | some (pa, r3) =>
          -- optional prerelease
          let preRes : Option (List PreId × List Char) :=
            match r3 with
            | '-' :: r4 => let (body, rest) := spanUntil '+' r4; (parsePre body).map (·, rest)
            | _ => some ([], r3)
          match preRes with
          | .none => .none
          | some (pre, r5) =>
            match r5 with
            | [] => some ⟨⟨maj, mi, pa, pre⟩, 0, false⟩
            | '+' :: b => if validBuild b then some ⟨⟨maj, mi, pa, pre⟩, 0, true⟩ else .none
            | _ => .none
      | some (_, _) => .none
    | some (_, _) => .none
  | _ => .none

def natDigits (n : Nat) : List Char := (toString n).toList

def PreId.render : PreId → List Char
  | .num n => natDigits n
  | .str s => s

def renderPre : List PreId → List Char
  | [] => []
  | [a] => a.render
  | a :: b :: r => a.render ++ '.' :: renderPre (b :: r)

def SemVer.render (s : SemVer) : List Char :=
  'v' :: natDigits s.major ++ '.' :: natDigits s.minor ++ '.' :: natDigits s.patch ++
    (if s.pre = [] then [] else '-' :: renderPre s.pre)

def Ver.render : Ver → String
  | .root => ""
  | .none => "none"
  | .sv s => String.ofList s.render

/-- a version string as the algorithms see it: canonical versions, `""`, and everything else like `"none"` -/
def Ver.ofString (s : String) : Ver :=
  if s = "" then .root else
  match parseSem s.toList with
  | some p => if p.short = 0 ∧ ¬ p.build then .sv p.sv else .none
  | .none => .none

/-- `semver.Major` as a string (`""` for an invalid version) -/
def Ver.majorStr : Ver → String
  | .sv s => String.ofList ('v' :: natDigits s.major)
  | _ => ""

/-- `semver.MajorMinor` (`""` for an invalid version) -/
def Ver.majorMinor : Ver → Option (Nat × Nat)
  | .sv s => some (s.major, s.minor)
  | _ => .none

def Ver.hasPre : Ver → Bool
  | .sv s => s.pre ≠ []
  | _ => false

/-! ## project paths (`internal/project/version.go`) -/

/-- `SplitPathVersion` on the reversed text: the part after the last `@` of the last path component -/
def splitRev : List Char → List Char → Option (List Char × List Char)
  | [], _ => .none
  | c :: cs, acc =>
    if c = '/' then .none
    else if c = '@' then some (cs.reverse, acc)
    else splitRev cs (c :: acc)

def splitPathVersion (p : String) : String × String :=
  match splitRev p.toList.reverse [] with
  | some (a, b) => (String.ofList a, String.ofList b)
  | .none => (p, "")

def trimPathVersion (p : String) : String := (splitPathVersion p).1

def joinPathVersion (p major : String) : String :=
  if major = "" ∨ major = "v0" ∨ major = "v1" then p else p ++ "@" ++ major

/-- `CleanPath`; `path.Clean` is the identity on the (already clean) paths the model is given -/
def cleanPath (p : String) : String :=
  let (q, v) := splitPathVersion p
  joinPathVersion q v

/-- `path.Base` of a clean, non-empty path -/
def baseName (p : String) : String :=
  match (splitOnChar '/' p.toList).getLast? with
  | some b => String.ofList b
  | .none => p

/-! ## the requirement universe -/

/-- `module.Version` -/
structure Mod where
  path : String
  ver : Ver
deriving DecidableEq, Repr

/-- what `Resolver.resolveProject` extracts from a fetched `dawn.toml` -/
structure Summary where
  name : String
  reqs : List Mod
deriving Repr

/-- the world outside the project file: one repository, what each tagged (or pseudo-) version declares, the
tag list in `repo.Versions()` order, and what a ref query resolves to (a parameter, see DESIGN.md §5) -/
/- `tags`: only tags that are canonical versions. `taggedVersions` (resolver.go) drops the valid-but-not-canonical ones
   (v1.3, v1.3.0+build) before any query, `Reqs.Upgrade` or `Reqs.Previous` sees them (D30; tie `raw_tag_readers_ok`);
   the revision lookup of a requirement reads the raw list but matches a canonical version exactly. -/
structure Env where
  repo : String
  summary : Mod → Option Summary
  tags : List Mod
  defaultRef : String
  refs : String → String → Option Mod

/-- the main project: `module.Version{}` -/
def rootMod : Mod := ⟨"", .root⟩

inductive Err where
  /-- `*mvs.BuildListError` -/
  | buildList
  /-- any other error value -/
  | other
  /-- a Go `panic` -/
  | panic
  /-- the computation does not return within the fuel (in Go: does not return) -/
  | fuel
deriving DecidableEq, Repr

/-- `Resolver.findProjectRepository` succeeds -/
def located (e : Env) (p : String) : Bool :=
  let comps := (splitOnChar '/' (trimPathVersion p).toList).map String.ofList
  match comps with
  | "github.com" :: org :: rp :: _ => "github.com/" ++ org ++ "/" ++ rp == e.repo
  | _ =>
    -- not a well-known host: every prefix of the path is dialled, longest first
    (List.range (comps.length + 1)).any fun n => n > 0 ∧ "/".intercalate (comps.take n) == e.repo

/-- `Resolver.listVersions` -/
def listVersions (e : Env) (p : Mod) : Option (List Mod) :=
  if located e p.path then some (e.tags.filter (·.path = p.path)) else .none

/-! ## `Reqs` (reqs.go) -/

/-- the requirement graph an algorithm runs on (`mvs.Reqs.Required`; `none` = error) -/
structure Reqs where
  required : Mod → Option (List Mod)

/-- `Reqs.Required`: the main project's requirements come from the project file, the others from the resolver -/
def dawnReqs (e : Env) (root : List Mod) : Reqs :=
  ⟨fun p => if p.path = "" then some root else (e.summary p).map (·.reqs)⟩

/-- `mvs.override` -/
def override (target : Mod) (list : List Mod) (r : Reqs) : Reqs :=
  ⟨fun m => if m = target then some list else r.required m⟩

/-- `Reqs.Upgrade`: the greatest tag of the same major version -/
def upgradeLatest (e : Env) (p : Mod) : Option Mod :=
  if p.path = "" then some p else
  match listVersions e p with
  | .none => .none
  | some versions =>
    some ⟨p.path, versions.foldl (fun selected v =>
      if v.ver.majorStr = p.ver.majorStr ∧ semverCompare v.ver selected = .gt then v.ver else selected) p.ver⟩

/-- the fold of `Reqs.Previous` from a given starting value of `selected` -/
def previousFrom (start : Ver) (e : Env) (p : Mod) : Option Mod :=
  if p.path = "" then some p else
  match listVersions e p with
  | .none => .none
  | some versions =>
    some ⟨p.path, versions.foldl (fun selected v =>
      if v.ver.majorStr = p.ver.majorStr ∧ semverCompare v.ver p.ver = .lt ∧ semverCompare v.ver selected = .gt
      then v.ver else selected) start⟩

/-- `Reqs.Previous`: the greatest tag of the same major version below `p`, `"none"` when there is none -/
def previous (e : Env) (p : Mod) : Option Mod := previousFrom .none e p

/-- `Reqs.Previous` before the fix of D13: started from `""`, so "no earlier version" was reported as the
version `""` instead of `"none"` -/
def previousD13 (e : Env) (p : Mod) : Option Mod := previousFrom .root e p

/-! ## `github.com/pgavlin/mvs`: `Graph`, `buildList` -/

abbrev Sel := List (String × Ver)

/-- `Graph.Selected` -/
def selected (sel : Sel) (p : String) : Ver := (sel.lookup p).getD .none

def setSel : Sel → String → Ver → Sel
  | [], p, v => [(p, v)]
  | (q, w) :: r, p, v => if q = p then (p, v) :: r else (q, w) :: setSel r p v

/-- the update `NewGraph` and `Graph.Require` apply for every root and every dependency -/
def selStep (sel : Sel) (m : Mod) : Sel :=
  if cmpMax (selected sel m.path) m.ver = .lt then setSel sel m.path m.ver else sel

def insertByPath (m : Mod) : List Mod → List Mod
  | [] => [m]
  | x :: xs => if m.path < x.path then m :: x :: xs else x :: insertByPath m xs

/-- `module.Sort` on a list whose paths are pairwise different -/
def sortByPath (l : List Mod) : List Mod := l.foldr insertByPath []

/-- `Graph.BuildList` for the single root `target` -/
def graphBuildList (target : Mod) (sel : Sel) : List Mod :=
  (if selected sel target.path ≠ .none then [⟨target.path, selected sel target.path⟩] else []) ++
    sortByPath ((sel.filter (·.1 ≠ target.path)).map fun pv => ⟨pv.1, pv.2⟩)

/-- one item of `buildList`'s work queue: the list handed to `g.Require` and whether an error was recorded -/
def workItem (rq : Reqs) (up : Option (Mod → Option Mod)) (m : Mod) : List Mod × Bool :=
  let (required, err) :=
    if m.ver ≠ .none then
      match rq.required m with
      | some l => (l, false)
      | .none => ([], true)
    else ([], false)
  match up with
  | .none => (required, err)
  | some f =>
    match f m with
    | some u => if u ≠ m then (u :: required, err) else (required, err)
    | .none => (required, true)

/-- the exploration of `buildList` as a sequential worklist: `log` is `Graph.required` (latest first), the
flag is `len(errs) > 0`. Every item is processed at most once (`par.Work.Add`). -/
def explore (rq : Reqs) (up : Option (Mod → Option Mod)) :
    Nat → List Mod → List (Mod × List Mod) → Bool → Option (List (Mod × List Mod) × Bool)
  | _, [], log, err => some (log, err)
  | 0, _ :: _, _, _ => .none
  | fuel + 1, m :: todo, log, err =>
    if log.any (·.1 = m) then explore rq up fuel todo log err
    else
      let w := workItem rq up m
      explore rq up fuel (w.1 ++ todo) ((m, w.1) :: log) (err || w.2)

/-- `Graph.selected` after `NewGraph(targets)` and one `Require` per log entry -/
def graphSelected (target : Mod) (log : List (Mod × List Mod)) : Sel :=
  (log.reverse.flatMap (·.2)).foldl selStep (selStep [] target)

/-- `mvs.buildList` with one target -/
def buildListWith (fuel : Nat) (rq : Reqs) (up : Option (Mod → Option Mod)) (target : Mod) : Except Err (List Mod) :=
  match explore rq up fuel [target] [] false with
  | .none => .error .fuel
  | some (log, err) =>
    if err then .error .buildList
    else
      let list := graphBuildList target (graphSelected target log)
      if list.take 1 ≠ [target] then .error .panic else .ok list

/-- `mvs.BuildList` -/
def buildList (fuel : Nat) (rq : Reqs) (target : Mod) : Except Err (List Mod) := buildListWith fuel rq .none target

/-! ## `mvs.ReqList` (with `base = nil`) -/

structure Frame where
  node : Mod
  rest : List Mod

/-- the first walk of `ReqList`: requirements cached, nodes listed when they are finished. The Go recursion
`walk(m)` is the stack of frames; `post` is the postorder, latest first (i.e. already reversed). -/
def postorder (rq : Reqs) : Nat → List Frame → List (Mod × List Mod) → List Mod →
    Except Err (List (Mod × List Mod) × List Mod)
  | _, [], cache, post => .ok (cache, post)
  | 0, _ :: _, _, _ => .error .fuel
  | f + 1, ⟨m, []⟩ :: stk, cache, post => postorder rq f stk cache (m :: post)
  | f + 1, ⟨m, c :: cs⟩ :: stk, cache, post =>
    if cache.any (·.1 = c) then postorder rq f (⟨m, cs⟩ :: stk) cache post
    else
      match rq.required c with
      | .none => .error .other
      | some req => postorder rq f (⟨c, req⟩ :: ⟨m, cs⟩ :: stk) ((c, req) :: cache) post

def cached (cache : List (Mod × List Mod)) (m : Mod) : List Mod := (cache.lookup m).getD []

/-- the second `walk` of `ReqList`: marks everything reachable through cached requirements (the order of the
marking is immaterial, only the resulting set `have` is read) -/
def markHave (cache : List (Mod × List Mod)) : Nat → List Mod → List Mod → Option (List Mod)
  | _, [], hv => some hv
  | 0, _ :: _, _ => .none
  | f + 1, m :: todo, hv =>
    if m ∈ hv then markHave cache f todo hv else markHave cache f (cached cache m ++ todo) (m :: hv)

/-- "Walk modules in reverse post-order, only adding those not implied already." `maxv` is the build list as a
map; a missing key reads as Go's zero value `""`. -/
def selectMin (fuel : Nat) (cache : List (Mod × List Mod)) (maxv : Sel) : List Mod → List Mod → List Mod → Option (List Mod)
  | [], _, min => some min
  | m :: rest, hv, min =>
    if (maxv.lookup m.path).getD .root ≠ m.ver then selectMin fuel cache maxv rest hv min
    else if m ∈ hv then selectMin fuel cache maxv rest hv min
    else
      match markHave cache fuel [m] hv with
      | .none => .none
      | some hv' => selectMin fuel cache maxv rest hv' (min ++ [m])

/-- `max := map[string]string{}; for _, m := range list { max[m.Path] = m.Version }` -/
def listMap (list : List Mod) : Sel := list.foldl (fun s m => setSel s m.path m.ver) []

def reqList (fuel : Nat) (rq : Reqs) (mainModule : Mod) (list : List Mod) : Except Err (List Mod) :=
  match postorder rq fuel [⟨mainModule, list⟩] [(mainModule, [])] [] with
  | .error e => .error e
  | .ok (cache, post) =>
    -- the frame of the main module itself is an artefact of the stack machine: Go never appends it
    match selectMin fuel cache (listMap list) (post.filter (· ≠ mainModule)) [] [] with
    | .none => .error .fuel
    | some min => .ok (sortByPath min)

/-- `mvs.Req` -/
def req (fuel : Nat) (rq : Reqs) (mainModule : Mod) : Except Err (List Mod) :=
  match buildList fuel rq mainModule with
  | .error e => .error e
  | .ok list => reqList fuel rq mainModule list

/-! ## `mvs.UpgradeAll`, `mvs.Upgrade` (one upgraded module) -/

def mvsUpgradeAll (fuel : Nat) (rq : Reqs) (upg : Mod → Option Mod) (target : Mod) : Except Err (List Mod) :=
  buildListWith fuel rq (some fun m => if m.path = target.path then some target else upg m) target

def mvsUpgrade (fuel : Nat) (rq : Reqs) (target : Mod) (u : Mod) : Except Err (List Mod) :=
  match rq.required target with
  | .none => .error .other
  | some list =>
    let list := if list.any (·.path = u.path) then list else list ++ [⟨u.path, .none⟩]
    buildListWith fuel (override target list rq)
      (some fun m => if m.path = u.path then some ⟨m.path, u.ver⟩ else some m) target

/-! ## `mvs.Downgrade` (one downgraded module) -/

structure DState where
  added : List Mod
  /-- `(r, m)`: `m` was recorded in `rdeps[r]` -/
  rdeps : List (Mod × Mod)
  excluded : List Mod

/-- the closure `exclude` computes: everything that (transitively) recorded a dependency on an excluded module -/
def exclClose (rdeps : List (Mod × Mod)) : Nat → List Mod → List Mod
  | 0, ex => ex
  | n + 1, ex => exclClose rdeps n (ex ++ (rdeps.filter fun rp => rp.1 ∈ ex ∧ rp.2 ∉ ex).map (·.2))

def exclude (st : DState) (m : Mod) : DState :=
  if m ∈ st.excluded then st
  else { st with excluded := exclClose st.rdeps (st.rdeps.length + 1) (m :: st.excluded) }

/-- "m would upgrade an existing dependency" -/
def wouldUpgrade (maxv : Sel) (m : Mod) : Bool :=
  match maxv.lookup m.path with
  | some v => vmax m.ver v ≠ v
  | .none => false

structure AFrame where
  node : Mod
  /-- the requirement whose `add` has just returned -/
  pending : Option Mod
  rest : List Mod

/-- entering `add(r)`: everything up to the loop over `r`'s requirements -/
def addEnter (rq : Reqs) (maxv : Sel) (st : DState) (r : Mod) : DState × Option AFrame :=
  if r ∈ st.added then (st, .none)
  else
    let st := { st with added := r :: st.added }
    if wouldUpgrade maxv r then (exclude st r, .none)
    else
      match rq.required r with
      | .none => (exclude st r, .none)
      | some l => (st, some ⟨r, .none, l⟩)

/-- the recursion of `add` as a stack machine -/
def addRun (rq : Reqs) (maxv : Sel) : Nat → List AFrame → DState → Option DState
  | _, [], st => some st
  | 0, _ :: _, _ => .none
  | f + 1, ⟨m, some r, rs⟩ :: stk, st =>
    if r ∈ st.excluded then addRun rq maxv f stk (exclude st m)
    else addRun rq maxv f (⟨m, .none, rs⟩ :: stk) { st with rdeps := st.rdeps ++ [(r, m)] }
  | f + 1, ⟨_, .none, []⟩ :: stk, st => addRun rq maxv f stk st
  | f + 1, ⟨m, .none, r :: rs⟩ :: stk, st =>
    match addEnter rq maxv st r with
    | (st', .none) => addRun rq maxv f (⟨m, some r, rs⟩ :: stk) st'
    | (st', some fr) => addRun rq maxv f (fr :: ⟨m, some r, rs⟩ :: stk) st'

def add (fuel : Nat) (rq : Reqs) (maxv : Sel) (st : DState) (m : Mod) : Option DState :=
  match addEnter rq maxv st m with
  | (st', .none) => some st'
  | (st', some fr) => addRun rq maxv fuel [fr] st'

/-- the loop `for excluded[r] { … }` for one entry of the list: `some r'` is appended to `downgraded`,
`none` is `continue List`. `fuel` bounds the number of iterations: when `prev` never answers `"none"` and
never reaches a version that is not excluded, the Go loop does not end (`Err.fuel`). -/
def stepDown (fuel : Nat) (rq : Reqs) (prev : Mod → Option Mod) (maxv : Sel) : Nat → DState → Mod →
    Except Err (DState × Option Mod)
  | 0, _, _ => .error .fuel
  | n + 1, st, r =>
    if r ∉ st.excluded then .ok (st, some r)
    else
      match prev r with
      | .none => .error .other
      | some p =>
        let v := (maxv.lookup r.path).getD .root
        let p : Mod := if vmax v r.ver ≠ v ∧ vmax p.ver v ≠ p.ver then ⟨p.path, v⟩ else p
        if p.ver = .none then .ok (st, .none)
        else
          match add fuel rq maxv st p with
          | .none => .error .fuel
          | some st' => stepDown fuel rq prev maxv n st' p

/-- the loop labelled `List` -/
def downLoop (fuel : Nat) (rq : Reqs) (prev : Mod → Option Mod) (maxv : Sel) : List Mod → DState → List Mod →
    Except Err (List Mod)
  | [], _, acc => .ok acc
  | r :: rest, st, acc =>
    match add fuel rq maxv st r with
    | .none => .error .fuel
    | some st1 =>
      match stepDown fuel rq prev maxv fuel st1 r with
      | .error e => .error e
      | .ok (st2, some r') => downLoop fuel rq prev maxv rest st2 (acc ++ [r'])
      | .ok (st2, .none) => downLoop fuel rq prev maxv rest st2 acc

def mvsDowngrade (fuel : Nat) (rq : Reqs) (prev : Mod → Option Mod) (target : Mod) (d : Mod) : Except Err (List Mod) :=
  match buildList fuel rq target with
  | .error e => .error e
  | .ok full =>
    let list := full.drop 1
    let maxv := listMap list
    let maxv := match maxv.lookup d.path with
      | some v => if vmax v d.ver ≠ d.ver then setSel maxv d.path d.ver else maxv
      | .none => setSel maxv d.path d.ver
    match downLoop fuel rq prev maxv list ⟨[], [], []⟩ [target] with
    | .error e => .error e
    | .ok downgraded =>
      match buildList fuel (override target downgraded rq) target with
      | .error e => .error e
      | .ok actual =>
        let actualVersion := listMap actual
        let downgraded := list.filterMap fun m => (actualVersion.lookup m.path).map fun v => (⟨m.path, v⟩ : Mod)
        buildList fuel (override target downgraded rq) target

/-! ## version queries (query.go) -/

structure VersionQuery where
  path : String
  query : String
deriving Repr

def semValid (s : String) : Bool := (parseSem s.toList).isSome

/-- `semver.Major(query) == query` -/
def isBareMajor (s : String) : Bool :=
  match parseSem s.toList with
  | some p => p.short = 2
  | .none => false

def parseVersionQuery (q : String) : VersionQuery :=
  let (path, query) := splitPathVersion q
  if query ≠ "" ∧ isBareMajor query then ⟨q, "latest"⟩ else ⟨path, query⟩

def majorVersionMatch (major : String) (ver : Ver) : Bool :=
  let v := ver.majorStr
  major = v ∨ (major = "" ∧ (v = "v0" ∨ v = "v1"))

/-- `resolveRefQuery`: a parameter of the model -/
def resolveRef (e : Env) (path ref : String) : Except Err Mod :=
  match e.refs path ref with
  | some m => .ok m
  | .none => .error .other

/-- `resolveLatestQuery`: newest release, else newest prerelease, else the default branch -/
def resolveLatest (e : Env) (major path : String) : Except Err Mod :=
  let cands := e.tags.reverse.filter fun v => majorVersionMatch major v.ver ∧ v.path = path
  match cands.find? (fun v => ¬ v.ver.hasPre) with
  | some v => .ok v
  | .none =>
    match cands.head? with
    | some v => .ok v
    | .none => resolveRef e path e.defaultRef

/-- `resolveUpgradeQuery` -/
def resolveUpgrade (e : Env) (bl : List Mod) (major path : String) : Except Err Mod :=
  match resolveLatest e major path with
  | .error err => .error err
  | .ok nv =>
    match bl.find? (·.path = nv.path) with
    | some v => if semverCompare nv.ver v.ver = .lt then .ok v else .ok nv
    | .none => .ok nv

/-- `resolvePatchQuery` -/
def resolvePatch (e : Env) (bl : List Mod) (major path : String) : Except Err Mod :=
  match bl.find? (·.path = path) with
  | .none => resolveLatest e major path
  | some cur =>
    match e.tags.reverse.find? (fun v => v.path = cur.path ∧ v.ver.majorMinor = cur.ver.majorMinor ∧
        semverCompare v.ver cur.ver = .gt) with
    | some v => .ok v
    | .none => .ok cur

/-- `parseSemverRangeQuery`: the acceptance test of `vX[.Y[.Z]]`, `<v`, `<=v`, `>v`, `>=v` -/
def parseRange (s : String) : Option (Ver → Bool) :=
  let canon (t : List Char) : Option (Ver × Bool) := (parseSem t).map fun p => (.sv p.sv, p.short = 0 ∧ ¬ p.build)
  match s.toList with
  | 'v' :: r =>
    match canon ('v' :: r) with
    | some (c, exact) => if exact then some fun v => semverCompare c v = .eq else some fun v => semverCompare c v ≠ .gt
    | .none => .none
  | '>' :: '=' :: r => (canon r).map fun c v => semverCompare c.1 v ≠ .gt
  | '>' :: r => (canon r).map fun c v => semverCompare c.1 v = .lt
  | '<' :: '=' :: r => (canon r).map fun c v => semverCompare c.1 v ≠ .lt
  | '<' :: r => (canon r).map fun c v => semverCompare c.1 v = .gt
  | _ => .none

/-- `resolveSemverRangeQuery` -/
def resolveRange (e : Env) (major path query : String) : Except Err Mod :=
  match parseRange query with
  | .none => .error .other
  | some accept =>
    match e.tags.reverse.find? (fun v => majorVersionMatch major v.ver ∧ v.path = path ∧ accept v.ver) with
    | some v => .ok v
    | .none => .error .other

/-- `resolveVersionQuery` -/
def resolveVersionQuery (e : Env) (bl : List Mod) (q : VersionQuery) : Except Err Mod :=
  if ¬ located e q.path then .error .other else
  let path := cleanPath q.path
  let major := (splitPathVersion path).2
  if q.query = "" ∨ q.query = "latest" then resolveLatest e major path
  else if q.query = "upgrade" then resolveUpgrade e bl major path
  else if q.query = "patch" then resolvePatch e bl major path
  else
    match q.query.toList.head? with
    | some '<' => resolveRange e major path q.query
    | some '>' => resolveRange e major path q.query
    | some 'v' => if semValid q.query then resolveRange e major path q.query else resolveRef e path q.query
    | _ => resolveRef e path q.query

/-! ## `get`, `transformReqs` and the exported operations (get.go) -/

/-- `get`. (The Go code also rewrites `root.Requirements` before calling `ReqList`; `ReqList` never asks for
the requirements of the main module, so that write has no effect and is not modelled.) -/
def get (fuel : Nat) (e : Env) (prev : Mod → Option Mod) (root : List Mod) (q : VersionQuery) : Except Err (List Mod) :=
  let rq := dawnReqs e root
  match buildList fuel rq rootMod with
  | .error err => .error err
  | .ok bl0 =>
    match resolveVersionQuery e bl0 q with
    | .error err => .error err
    | .ok version =>
      match buildList fuel rq rootMod with
      | .error err => .error err
      | .ok bl =>
        match bl.find? (·.path = version.path) with
        | .none => .ok (version :: root)
        | some cur =>
          match semverCompare cur.ver version.ver with
          | .eq => .ok root
          | .lt =>
            match mvsUpgrade fuel rq rootMod version with
            | .error err => .error err
            | .ok bl' => reqList fuel rq rootMod bl'
          | .gt =>
            match mvsDowngrade fuel rq prev rootMod version with
            | .error err => .error err
            | .ok bl' => reqList fuel rq rootMod bl'

/-- the project file's requirements: name ↦ (path, version) -/
abbrev Config := List (String × Mod)

/-- first loop of `transformReqs` for one existing name: it keeps its own requirement when that is still
listed, otherwise it follows the greatest listed version of its project (the fix of D14) -/
def pickFor (r : Mod) : List Mod → Option Mod → Option Mod
  | [], best => best
  | v :: vs, best =>
    if v.path = "" ∨ v.path ≠ r.path then pickFor r vs best
    else if v.ver = r.ver then some v
    else
      match best with
      | .none => pickFor r vs (some v)
      | some b => if cmpVersion b.ver v.ver = .lt then pickFor r vs (some v) else pickFor r vs best

/-- the `k`-th candidate of the loop `for n, suffix := name, 1; ; n, suffix = name-suffix, suffix+1` -/
def candidate (name : String) (k : Nat) : String := if k = 0 then name else name ++ "-" ++ toString k

/-- `name`, `name-1`, `name-2`, …: the first that is not taken. The Go loop has no bound; among the first
`taken.length + 1` candidates one is free, so the bound is never reached (`none` = the loop would still be running). -/
def freshName (taken : List String) (name : String) : Option String :=
  ((List.range (taken.length + 1)).find? (fun k => candidate name k ∉ taken)).map (candidate name)

/-- second loop of `transformReqs`: a name for every project that had none -/
def nameNew (e : Env) (old : Config) : List Mod → Config → Except Err Config
  | [], acc => .ok acc
  | v :: vs, acc =>
    if v.path = "" then nameNew e old vs acc
    else if old.any (·.2.path = v.path) then nameNew e old vs acc
    else
      match e.summary v with
      | .none => .error .other
      | some proj =>
        let name := if proj.name = "" then baseName v.path else joinPathVersion proj.name (splitPathVersion v.path).2
        match freshName (acc.map (·.1)) name with
        | .none => .error .fuel
        | some n => nameNew e old vs (acc ++ [(n, v)])

def insertByName (x : String × Mod) : Config → Config
  | [] => [x]
  | y :: ys => if x.1 < y.1 then x :: y :: ys else y :: insertByName x ys

/-- the result map, listed by name -/
def sortByName (c : Config) : Config := c.foldr insertByName []

def transformReqs (e : Env) (c : Config) (tx : List Mod → Except Err (List Mod)) : Except Err Config :=
  match tx (c.map (·.2)) with
  | .error err => .error err
  | .ok newVersions =>
    let kept := c.filterMap fun nr => (pickFor nr.2 newVersions .none).map fun v => (nr.1, v)
    match nameNew e c newVersions kept with
    | .error err => .error err
    | .ok all => .ok (sortByName all)

/-- `mvs.Get` of dawn -/
def Get (fuel : Nat) (e : Env) (c : Config) (query : String) : Except Err Config :=
  transformReqs e c fun root => get fuel e (previous e) root (parseVersionQuery query)

/-- `mvs.UpgradeAll` of dawn -/
def UpgradeAll (fuel : Nat) (e : Env) (c : Config) : Except Err Config :=
  transformReqs e c fun root =>
    let rq := dawnReqs e root
    match mvsUpgradeAll fuel rq (upgradeLatest e) rootMod with
    | .error err => .error err
    | .ok bl => reqList fuel rq rootMod bl

/-- `mvs.Tidy` of dawn -/
def Tidy (fuel : Nat) (e : Env) (c : Config) : Except Err Config :=
  transformReqs e c fun root => req fuel (dawnReqs e root) rootMod

/-- `mvs.BuildList` of dawn: the path → version map, as a list sorted by path (root entry `"" ↦ ""` first) -/
def BuildList (fuel : Nat) (e : Env) (c : Config) : Except Err (List Mod) :=
  buildList fuel (dawnReqs e (c.map (·.2))) rootMod

end Dawn.Mvs

/-!
# Model of dawn's incremental engine (C01, C02, C03, C13, C14)

Hand-written, executable, core Lean only. It follows

* `target.go`       `runTarget.Evaluate`            → `plan`, `visit`
* `function.go`     `function.load/upToDate/evaluate` → `loadedInfo`, `upToDate`, `execSteps`
* `sourceFile.go`   `sourceFile.upToDate/evaluate`, `fileSum`, `dirSum` → `srcData`, `canon`
* `project.go`      `targetInfo`, `stamp`, `saveTargetInfo`, `targetInfoPath`, `GC`, `load`, `link`
* `project_index.go` `saveIndex`, `loadIndex`

as they are *after* the repairs D8 (run counter in the stamp), D9 (sorted, named directory sums) and D18
(in-progress marker before a body). The behaviour before each repair is a parameter (`Params.stampRuns`,
`Params.marker`, and a `Params.sum` that ignores names) so that the old defects stay provable as
`…_counterexample` theorems.

What is abstracted: the Starlark load is `Tree.defs`; the pickled function environment is an opaque
`Env` value (its injectivity is C07/C08); `sha256` is the function parameter `Params.sum`; target bodies
are the function parameter `Params.out` of what they read; the runner's order guarantee (C04) is the
`order` list a build is folded over.

A build is also given as its list of *steps*: one persistent effect (or none) followed by one hook point.
A crash at the `k`-th hook point is "apply the effects of the first `k` steps".
-/
namespace Dawn.Build

abbrev Label := Nat
abbrev Path := Nat
abbrev Env := Nat

/-! ## files -/

/-- what a source target observes at its path -/
inductive SrcVal
  | missing
  | file (c : Nat)
  /-- a directory: `(entry name, sum of the entry)` in the order `ReadDir` returns them -/
  | dir (es : List (Nat × Nat))
deriving DecidableEq, Repr, Inhabited

def entryLe (a b : Nat × Nat) : Bool := a.1 < b.1 || (a.1 == b.1 && a.2 ≤ b.2)

def insertEntry (e : Nat × Nat) : List (Nat × Nat) → List (Nat × Nat)
  | [] => [e]
  | x :: xs => if entryLe e x then e :: x :: xs else x :: insertEntry e xs

/-- `sort.Slice(entries, by name)` of the repaired `dirSum` -/
def sortEntries : List (Nat × Nat) → List (Nat × Nat)
  | [] => []
  | e :: es => insertEntry e (sortEntries es)

/-- the listing `dirSum` hashes: entries sorted by name, names included -/
def canon : SrcVal → SrcVal
  | .dir es => .dir (sortEntries es)
  | v => v

/-! ## records -/

/-- the `stamp` field of a record: empty (never run / failed / missing file), a pickled function
environment, or a content sum -/
inductive Data
  | empty
  | env (e : Env)
  /-- a digest; digests are modelled by values of `SrcVal` so that an injective `sha256` (the identity) exists -/
  | sum (s : SrcVal)
deriving DecidableEq, Repr, Inhabited

/-- what dependents record for a target: `targetInfo.stamp()` = `Data` or `Data@Runs` -/
structure Stamp where
  data : Data
  runs : Nat
deriving DecidableEq, Repr, Inhabited

/-- the lists a body sees through `self`, in order and with multiplicity: `self.dependencies` (`deps=` then `sources=`,
as labels; `self.sources` are the last of them) and `self.generates`. `targetInfo.Attrs` is a `sha256` of them; the
model keeps the lists themselves (collision-freedom is the standing assumption on `sha256`). -/
abbrev Attrs := List Label × List Path

/-- `targetInfo` (the `doc` field is written and never read by the engine) -/
structure Rec where
  deps : List (Label × Stamp)
  data : Data
  rerun : Bool
  runs : Nat
  /-- D32 repair: the lists as of the last successful execution; `none` = not recorded (no record, a source, a failure
  record, a record written before the repair) -/
  attrs : Option Attrs
deriving DecidableEq, Repr, Inhabited

/-- `targetInfo{}`: what `loadTargetInfo` returns when there is no record file -/
def emptyRec : Rec := ⟨[], .empty, false, 0, none⟩

inductive Index
  | absent
  /-- created (truncated) and not yet encoded: does not decode -/
  | torn
  | good (ls : List Label)
deriving DecidableEq, Repr, Inhabited

/-! ## the project as a load sees it -/

inductive Kind | fn | src
deriving DecidableEq, Repr, Inhabited

structure Def where
  kind : Kind
  /-- declared dependencies (`deps=` then `sources=`, as labels); the generator edge of `link` is added by `depsOf` -/
  deps : List Label
  /-- fn: the dependencies whose files the body reads -/
  reads : List Label
  /-- fn: `generates=` -/
  gens : List Path
  always : Bool
  /-- fn: the fingerprint of the function environment -/
  env : Env
  /-- src: the file or directory -/
  path : Path
deriving Repr, Inhabited

/-- `function.attrs()` -/
def attrsOf (d : Def) : Attrs := (d.deps, d.gens)

structure Tree where
  defs : Label → Option Def
  /-- the labels a full load registers in `proj.targets` -/
  labels : List Label

/-- `Project.link`: a source file that some target generates depends on that target -/
def generatorOf (t : Tree) (p : Path) : Option Label :=
  t.labels.find? fun l => match t.defs l with
    | some d => d.kind == .fn && d.gens.contains p
    | none => false

/-- `Target.dependencies()` after `link` -/
def depsOf (t : Tree) (l : Label) (d : Def) : List Label :=
  match d.kind with
  | .fn => d.deps.eraseDups
  | .src => match generatorOf t d.path with
    | some g => if g == l then [] else [g]
    | none => []

/-! ## persistent state -/

structure World where
  files : Path → SrcVal
  recs : Label → Option Rec
  /-- stray files in `.dawn/build/temp` -/
  temps : Nat
  index : Index

def upd {α : Type} (f : Nat → α) (k : Nat) (v : α) : Nat → α := fun x => if x = k then v else f x
@[simp] theorem upd_same {α} (f : Nat → α) (k v) : upd f k v k = v := by simp [upd]
@[simp] theorem upd_other {α} (f : Nat → α) (k v x) (h : x ≠ k) : upd f k v x = f x := by simp [upd, h]

/-- the persistent effects of the engine -/
inductive Eff
  /-- `os.CreateTemp(proj.temp, "")` -/
  | tempCreate
  /-- the record is encoded into the temporary and the file closed -/
  | tempWrite
  /-- `os.Rename(temp, targetInfoPath(l))`: atomically replaces the whole record -/
  | tempRename (l : Label) (r : Rec)
  /-- a body writes one of its generated files -/
  | genWrite (g : Path) (c : Nat)
  /-- `os.Create(index.json)` truncates the index in place -/
  | indexCreate
  | indexEncode (ls : List Label)
deriving Repr

def Eff.apply (w : World) : Eff → World
  | .tempCreate => { w with temps := w.temps + 1 }
  | .tempWrite => w
  | .tempRename l r => { w with temps := w.temps - 1, recs := upd w.recs l (some r) }
  | .genWrite g c => { w with files := upd w.files g (.file c) }
  | .indexCreate => { w with index := .torn }
  | .indexEncode ls => { w with index := .good ls }

/-- the hook points of `verif:` (the instants at which the harness kills the process) -/
inductive Hook
  | bodyBefore | bodyWrote | bodyAfter | recordFailure | recordSuccess
  | saveCreated | saveWritten | saveRenamed | indexCreated | indexEncoded
deriving DecidableEq, Repr

/-- one persistent effect (or none) followed by one hook point -/
structure Step where
  eff : Option Eff
  hook : Hook
  label : Label
deriving Repr

def Step.apply (w : World) (s : Step) : World :=
  match s.eff with
  | some e => e.apply w
  | none => w

def applySteps (w : World) (ss : List Step) : World := ss.foldl Step.apply w

/-- `saveTargetInfo`: create a temporary, write it, rename it over the record -/
def saveSteps (l : Label) (r : Rec) : List Step :=
  [⟨some .tempCreate, .saveCreated, l⟩, ⟨some .tempWrite, .saveWritten, l⟩, ⟨some (.tempRename l r), .saveRenamed, l⟩]

/-! ## parameters -/

structure Params where
  /-- `sha256` of a file's bytes / of a directory's listing (injective: a hypothesis of the theorems, never an axiom) -/
  sum : SrcVal → SrcVal
  /-- what a body writes to generated file `g`, as a function of its environment, of the lists it is handed through
  `self` (order and multiplicity included) and of the files of the dependencies it reads: bodies are deterministic and
  hermetic by construction -/
  out : Label → Env → Attrs → List (Label × List (Path × SrcVal)) → Path → Nat
  /-- D8 repair: the stamp dependents compare includes the run counter -/
  stampRuns : Bool := true
  /-- D18 repair: a `rerun` record is written before a function target's body runs -/
  marker : Bool := true
  /-- D29 repair: a record that lists more dependencies than the target has now is out of date -/
  depCount : Bool := true
  /-- D32 repair: a function target whose record remembers other lists than the target has now is out of date -/
  listCheck : Bool := true

/-- `fileSum`: a missing file has the empty sum -/
def srcData (P : Params) (v : SrcVal) : Data :=
  match v with
  | .missing => .empty
  | v => .sum (P.sum (canon v))

/-- `targetInfo.stamp()` -/
def stampOf (P : Params) (r : Rec) : Stamp := ⟨r.data, if P.stampRuns then r.runs else 0⟩

/-! ## one build -/

/-- what a build remembers about a visited target (`runTarget.changed`, `runTarget.data`, the runner's status) -/
structure Res where
  ok : Bool
  changed : Bool
  data : Stamp
  /-- the failure is `UnknownTargetError` (reported by the dependent as "missing dependency") -/
  unknown : Bool := false
deriving Repr, Inhabited

inductive Ev
  | upToDate (l : Label) | evaluating (l : Label) | succeeded (l : Label) | failed (l : Label)
deriving DecidableEq, Repr

structure Opts where
  always : Bool
  dry : Bool
  fails : Label → Bool

structure BSt where
  w : World
  memo : Label → Option Res
  /-- events, newest first -/
  evs : List Ev
  /-- steps, newest first -/
  steps : List Step
  /-- ghost: bodies started, newest first -/
  execs : List Label

def BSt.init (w : World) : BSt := ⟨w, fun _ => none, [], [], []⟩

/-- `function.load`: the record as loaded; `always` targets are loaded with `Rerun` set -/
def loadedInfo (w : World) (l : Label) (d : Def) : Rec :=
  let info := (w.recs l).getD emptyRec
  if d.kind == .fn && d.always then { info with rerun := true } else info

/-- the files of a dependency as a body sees them (a directory as its sorted listing: bodies do not depend on
the order in which the file system happens to enumerate a directory) -/
def observe (t : Tree) (w : World) (x : Label) : List (Path × SrcVal) :=
  match t.defs x with
  | some d => match d.kind with
    | .src => [(d.path, canon (w.files d.path))]
    | .fn => d.gens.map fun g => (g, canon (w.files g))
  | none => []

/-- what the body of `l` writes: every generated file, as a function of the environment and of what it reads -/
def bodyWrites (P : Params) (t : Tree) (w : World) (l : Label) (d : Def) : List (Path × Nat) :=
  let obs := d.reads.map fun x => (x, observe t w x)
  d.gens.map fun g => (g, P.out l d.env (attrsOf d) obs g)

/-- `upToDate()` of the two target kinds -/
def upToDate (P : Params) (w : World) (d : Def) (info : Rec) : Bool :=
  match d.kind with
  | .fn =>
    if d.always then true
    else info.data == .env d.env && d.gens.all fun g => w.files g != .missing
  | .src => srcData P (w.files d.path) == info.data

/-- D32 repair, the test in `Evaluate`: only function targets are asked; a record without the lists (written before
the repair) is taken as unchanged -/
def attrsOK (P : Params) (d : Def) (info : Rec) : Bool :=
  !P.listCheck || d.kind == .src ||
    match info.attrs with
    | none => true
    | some a => a == attrsOf d

inductive Plan
  /-- a dependency failed; `report`: it was missing, so the dependent reports `TargetFailed` -/
  | depFailed (report : Bool)
  | skip (info : Rec)
  | dry (info : Rec)
  | run (info : Rec) (depData : List (Label × Stamp))
deriving Repr

def memoData (s : BSt) (x : Label) : Stamp :=
  match s.memo x with
  | some m => m.data
  | none => ⟨.empty, 0⟩

/-- `Evaluate` up to the skip decision -/
def plan (P : Params) (t : Tree) (o : Opts) (s : BSt) (l : Label) (d : Def) : Plan :=
  let info := loadedInfo s.w l d
  let deps := depsOf t l d
  -- the first dependency (in declaration order) that did not succeed decides the error
  match deps.find? (fun x => match s.memo x with | some m => !m.ok | none => true) with
  | some x => .depFailed (match s.memo x with | some m => m.unknown | none => false)
  | none =>
    let depData := deps.map fun x => (x, memoData s x)
    let depsUpToDate := (deps.all fun x =>
      match info.deps.lookup x, s.memo x with
      | some st, some m => !m.changed && st == m.data
      | _, _ => false) &&
      -- D29 repair: a dependency the target no longer has is a change as well (every present dependency is listed, so
      -- the record lists a former one exactly if it lists more than there are now)
      (!P.depCount || info.deps.length == deps.length) &&
      attrsOK P d info
    if !o.always && depsUpToDate && upToDate P s.w d info && !info.rerun then .skip info
    else if o.dry then .dry info
    else .run info depData

/-- the steps of executing `l` and the record it ends with; `none` = the body failed -/
def execSteps (P : Params) (t : Tree) (o : Opts) (w : World) (l : Label) (d : Def) (info : Rec)
    (depData : List (Label × Stamp)) : List Step × Rec × Bool :=
  match d.kind with
  | .src =>
    let r : Rec := ⟨depData, srcData P (w.files d.path), false, info.runs, none⟩
    ([⟨none, .bodyBefore, l⟩, ⟨none, .bodyAfter, l⟩, ⟨none, .recordSuccess, l⟩] ++ saveSteps l r, r, true)
  | .fn =>
    let mark := if P.marker then saveSteps l { info with rerun := true } else []
    if o.fails l then
      let r : Rec := ⟨depData, .empty, true, info.runs, none⟩
      -- a failing body leaves garbage in its first generated file before it fails
      let garbage := match d.gens with
        | g :: _ => [Step.mk (some (.genWrite g 0)) .bodyWrote l]
        | [] => []
      (mark ++ [⟨none, .bodyBefore, l⟩] ++ garbage ++ [⟨none, .bodyAfter, l⟩, ⟨none, .recordFailure, l⟩] ++ saveSteps l r,
       r, false)
    else
      let writes := (bodyWrites P t w l d).map fun gc => Step.mk (some (.genWrite gc.1 gc.2)) .bodyWrote l
      let r : Rec := ⟨depData, .env d.env, false, info.runs + 1, some (attrsOf d)⟩
      (mark ++ [⟨none, .bodyBefore, l⟩] ++ writes ++ [⟨none, .bodyAfter, l⟩, ⟨none, .recordSuccess, l⟩] ++ saveSteps l r,
       r, true)

def failedRes (unknown : Bool) : Res := ⟨false, false, ⟨.empty, 0⟩, unknown⟩

/-- `runTarget.Evaluate` for a target whose dependencies have been evaluated -/
def visit (P : Params) (t : Tree) (o : Opts) (s : BSt) (l : Label) : BSt :=
  match t.defs l with
  | none => { s with memo := upd s.memo l (some (failedRes true)) }
  | some d =>
    match plan P t o s l d with
    | .depFailed report =>
      { s with memo := upd s.memo l (some (failedRes false)),
               evs := if report then .failed l :: s.evs else s.evs }
    | .skip info =>
      { s with memo := upd s.memo l (some ⟨true, false, stampOf P info, false⟩), evs := .upToDate l :: s.evs }
    | .dry info =>
      { s with memo := upd s.memo l (some ⟨true, true, stampOf P info, false⟩),
               evs := .succeeded l :: .evaluating l :: s.evs }
    | .run info depData =>
      let (steps, r, ok) := execSteps P t o s.w l d info depData
      { w := applySteps s.w steps,
        memo := upd s.memo l (some (if ok then ⟨true, true, stampOf P r, false⟩ else failedRes false)),
        evs := (if ok then .succeeded l else .failed l) :: .evaluating l :: s.evs,
        steps := steps.reverse ++ s.steps,
        execs := l :: s.execs }

/-- a build: the targets are visited in the order the runner guarantees (each once, dependencies first) -/
def build (P : Params) (t : Tree) (o : Opts) (s : BSt) : List Label → BSt
  | [] => s
  | l :: rest => build P t o (visit P t o s l) rest

/-! ## the load that precedes every build -/

def isFn (t : Tree) (l : Label) : Bool :=
  match t.defs l with
  | some d => d.kind == .fn
  | none => false

/-- a full load refreshes the record of every function target (`function.load`) and rewrites `index.json` -/
def loadSteps (t : Tree) (w : World) : List Step :=
  ((t.labels.filter (isFn t)).flatMap fun l => saveSteps l ((w.recs l).getD emptyRec)) ++
  [⟨some .indexCreate, .indexCreated, 0⟩, ⟨some (.indexEncode t.labels), .indexEncoded, 0⟩]

def load (t : Tree) (w : World) : World := applySteps w (loadSteps t w)

/-- a process that only loads the project (`dawn list`, the load of `dawn gc`): from the index when it is preferred and
decodes — no effect at all — otherwise a full load -/
def loadOp (t : Tree) (preferIndex : Bool) (w : World) : World :=
  match preferIndex, w.index with
  | true, .good _ => w
  | _, _ => load t w

/-! ## garbage collection -/

/-- `Project.GC`: the records of the loaded labels, `index.json` and the (emptied) temp directory are kept -/
def sweep (live : List Label) (w : World) : World :=
  { w with recs := fun l => if live.contains l then w.recs l else none, temps := 0 }

/-- the labels that exist for a collection: those of the build files. `dawn gc` loads from `index.json` when it
decodes (`preferIndex`), but `GC` then reloads from the build files (D22 repair), so the index never decides. -/
def gcLive (t : Tree) (_preferIndex : Bool) (_w : World) : List Label := t.labels

/-- `dawn gc` = load then `GC` -/
def gc (t : Tree) (preferIndex : Bool) (w : World) : World := sweep (gcLive t preferIndex w) (load t w)

/-- before the D22 repair: a collection after an index-only load kept the labels of the *index* (the last full load) -/
def gcOld (t : Tree) (preferIndex : Bool) (w : World) : World :=
  match preferIndex, w.index with
  | true, .good ls => sweep ls w
  | _, _ => sweep t.labels (load t w)

/-! ## a whole operation of a history -/

/-- the order in which a depth-first traversal from `root` finishes the targets (dependencies first) -/
def topo (t : Tree) : Nat → List Label → List Label → List Label
  | 0, _, acc => acc
  | _, [], acc => acc
  | fuel + 1, l :: rest, acc =>
    if acc.contains l then topo t fuel rest acc
    else
      let acc := match t.defs l with
        | some d => topo t fuel (depsOf t l d) acc
        | none => acc
      topo t fuel rest (if acc.contains l then acc else acc ++ [l])

def order (t : Tree) (root : Label) : List Label := topo t (4 * (t.labels.length + 2)) [root] []

/-- Load then Run, as `dawn build` does -/
def runBuild (P : Params) (t : Tree) (o : Opts) (ord : List Label) (w : World) : BSt :=
  build P t o (BSt.init (load t w)) ord

def succeeded (s : BSt) (root : Label) : Bool :=
  match s.memo root with
  | some m => m.ok
  | none => false

/-- the process dies at the `k`-th hook point of the run phase -/
def crashBuild (P : Params) (t : Tree) (o : Opts) (ord : List Label) (k : Nat) (w : World) : World :=
  let w0 := load t w
  let s := build P t o (BSt.init w0) ord
  applySteps w0 (s.steps.reverse.take k)

/-- the process dies at the `k`-th hook point of the load phase -/
def crashLoad (t : Tree) (k : Nat) (w : World) : World := applySteps w ((loadSteps t w).take k)

/-! ## `RunOptions.apply`: the flags of a Run on an already loaded project -/

structure RunFlags where
  always : Bool
  dry : Bool
deriving DecidableEq, Repr, Inhabited

/-- `(*RunOptions).apply`: the project's flags after `Run(label, options)`; nil options reset BOTH flags (so a Run with
default options after a dry run on the same `*Project` — library, REPL, watch mode — is a real build) -/
def applyOptions (_prev : RunFlags) : Option RunFlags → RunFlags
  | none => ⟨false, false⟩
  | some o => ⟨o.always, o.dry⟩

/-- the options a build of the model runs with, given the project's flags -/
def optsOf (fl : RunFlags) (fails : Label → Bool) : Opts := ⟨fl.always, fl.dry, fails⟩

/-! ## keys of the persisted dependencies map (`depStamps`, D27 repair) -/

/-- a label as `escapeLabel` scans it (Go's `utf8.DecodeRuneInString`): a valid rune other than U+FFFD, a genuine
U+FFFD, or a byte that is not part of a valid UTF-8 sequence -/
inductive KeyItem
  | ch (c : Nat)
  | repl
  | raw (b : UInt8)
deriving DecidableEq, Repr

def hexDigitLower (n : Nat) : Nat := if n < 10 then 48 + n else 87 + n

/-- `escapeLabel`, as code points: what `encoding/json` can carry unchanged -/
def escapeKey : List KeyItem → List Nat
  | [] => []
  | .ch c :: rest => c :: escapeKey rest
  | .repl :: rest => 0xFFFD :: 45 :: 45 :: escapeKey rest
  | .raw b :: rest => 0xFFFD :: hexDigitLower (b.toNat / 16) :: hexDigitLower (b.toNat % 16) :: escapeKey rest

def hexValLower (c : Nat) : Option Nat :=
  if 48 ≤ c ∧ c ≤ 57 then some (c - 48)
  else if 97 ≤ c ∧ c ≤ 102 then some (c - 87)
  else if 65 ≤ c ∧ c ≤ 70 then some (c - 55)
  else none

/-- `unescapeLabel` -/
def unescapeKey : List Nat → List KeyItem
  | [] => []
  | [c] => [if c = 0xFFFD then .repl else .ch c]
  | [c, d] => (if c = 0xFFFD then KeyItem.repl else .ch c) :: unescapeKey [d]
  | c :: a :: b :: rest =>
    if c = 0xFFFD then
      if a = 45 ∧ b = 45 then .repl :: unescapeKey rest
      else match hexValLower a, hexValLower b with
        | some h, some l => .raw (UInt8.ofNat (h * 16 + l)) :: unescapeKey rest
        | _, _ => .repl :: unescapeKey (a :: b :: rest)
    else .ch c :: unescapeKey (a :: b :: rest)

/-! ## record paths (`targetInfoPath`) -/

/-- `shouldEscape(c, encodePathSegment)` of `net/url` for a byte -/
def shouldEscape (c : UInt8) : Bool :=
  if (97 ≤ c && c ≤ 122) || (65 ≤ c && c ≤ 90) || (48 ≤ c && c ≤ 57) then false
  else if c == 45 || c == 95 || c == 46 || c == 126 then false            -- - _ . ~
  else if c == 36 || c == 38 || c == 43 || c == 61 || c == 58 || c == 64 then false   -- $ & + = : @
  else true                                                              -- includes / ; , ?

def upperHex (n : UInt8) : UInt8 := if n < 10 then 48 + n else 55 + n

/-- `url.PathEscape` -/
def pathEscape : List UInt8 → List UInt8
  | [] => []
  | c :: cs => if shouldEscape c then 37 :: upperHex (c >>> 4) :: upperHex (c &&& 15) :: pathEscape cs
               else c :: pathEscape cs

structure LabelS where
  kind : List UInt8
  pkg : List UInt8      -- the package without its leading `//`
  name : List UInt8
deriving DecidableEq, Repr

/-- `"target"`, `"BUILD.dawn"`, `"/"`, `"s"` (tied to the literals of `targetInfoPath` in `Dawn/Ties/Build.lean`) -/
def kindTarget : List UInt8 := [116, 97, 114, 103, 101, 116]
def nameBuild : List UInt8 := [66, 85, 73, 76, 68, 46, 100, 97, 119, 110]
def slash : List UInt8 := [47]
def pluralS : List UInt8 := [115]

/-- `targetInfoPath` relative to `.dawn/build`: directory and file name -/
def targetInfoPath (l : LabelS) : List UInt8 × List UInt8 :=
  let kind := if l.kind == [] then kindTarget else l.kind
  let target := if l.name == [] then nameBuild else l.name
  (kind ++ pluralS, pathEscape (l.pkg ++ slash ++ target))

end Dawn.Build

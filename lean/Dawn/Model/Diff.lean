/-!
# Model of `diff/diff.go`, `diff/diff_slice.go`, `diff/types.go` and of the rebuild reason of `function.go` — C16

Core Lean only (this file is linked into the driver executable).

The sequence diff (`diffSlice`, an O(NP) shortest-edit-script search after Wu, Manber, Myers, Miller) is
modelled on `List α` exactly as the Go code is written: the swap of the two sides when `len(a) >= len(b)`,
the `compose` loop with its arrays `fp` and `path` and the list of route points, `snake`, `recordSeq`,
`extend`, the restart when the route list outgrows `routeSize`, and the final pass that merges a delete
followed by an add into a replace (three length cases). Element equality (`starlark.EqualDepth(…, 1000)`)
and the diff of two elements (`DiffDepth(…, depth)`) are parameters and may fail (depth limit).

Go panics (index out of range, slice bounds) are explicit outcomes (`Err.indexPanic`); unbounded Go loops get
fuel and running out of it is an explicit outcome too (`Err.outOfFuel`). `Dawn/Props/Diff.lean` proves that
neither happens.

Notation: after the swap `a` is the shorter sequence (length `m`), `b` the longer (length `n`), `x` indexes
`a`, `y` indexes `b`, diagonal `k = y - x`, `delta = n - m`, `offset = m + 1`.
-/
namespace Dawn.Diff

inductive Err where
  | depth        -- "comparison exceeded maximum recursion depth"
  | indexPanic   -- a Go runtime panic: index or slice bounds out of range
  | outOfFuel    -- the model's bound on a Go loop without a bound was too small
deriving DecidableEq, Repr

/-! ## Array access as Go does it: out of range panics -/

def rd (a : Array Int) (i : Int) : Except Err Int :=
  if i < 0 then .error .indexPanic
  else match a[i.toNat]? with
    | some v => .ok v
    | none => .error .indexPanic

def wr (a : Array Int) (i : Int) (v : Int) : Except Err (Array Int) :=
  if i < 0 then .error .indexPanic
  else if i.toNat < a.size then .ok (a.setIfInBounds i.toNat v)
  else .error .indexPanic

/-- `s.Slice(lo, hi, 1)`: panics unless `0 ≤ lo ≤ hi ≤ len(s)` -/
def slice {α : Type} (s : List α) (lo hi : Int) : Except Err (List α) :=
  if 0 ≤ lo ∧ lo ≤ hi ∧ hi ≤ s.length then .ok ((s.drop lo.toNat).take (hi - lo).toNat)
  else .error .indexPanic

/-! ## The raw edit script (`diff.edits`) -/

/-- `editKind` -/
inductive Kind where
  | delete
  | common
  | add
deriving DecidableEq, Repr

/-- `edit`: a run of consecutive elements of one kind; `start` is the index of its first element in the
sequence it was taken from -/
structure RawEdit (α : Type) where
  kind : Kind
  start : Int
  values : List α
deriving Repr

/-- `pointWithRoute` -/
structure Pt where
  x : Int
  y : Int
  r : Int
deriving DecidableEq, Repr

/-- the mutable state of `compose`: `fp`, `diff.path`, `diff.pointWithRoute` -/
structure St where
  fp : Array Int
  path : Array Int
  pts : Array Pt
deriving Repr

section generic
variable {α δ : Type}
-- `starlark.EqualDepth(x, y, 1000)` on two elements
variable (eq : α → α → Except Err Bool)

/-- the loop of `snake`: how far the diagonal can be followed over equal elements -/
def run : List α → List α → Except Err Nat
  | x :: xs, y :: ys =>
    match eq x y with
    | .error e => .error e
    | .ok false => .ok 0
    | .ok true => match run xs ys with
      | .error e => .error e
      | .ok s => .ok (s + 1)
  | _, _ => .ok 0

/-- `(*differ).snake(k, p, pp, offset)` -/
def snake (a b : List α) (k p pp offset : Int) (st : St) : Except Err (Int × St) := do
  let r ← if p > pp then rd st.path (k - 1 + offset) else rd st.path (k + 1 + offset)
  let y := if p < pp then pp else p            -- max(p, pp)
  let x := y - k
  let steps ←
    if x < a.length ∧ y < b.length then
      (if x < 0 ∨ y < 0 then .error .indexPanic          -- diff.a.Index(x) with a negative index
       else run eq (a.drop x.toNat) (b.drop y.toNat))
    else pure 0
  let path ← wr st.path (k + offset) st.pts.size
  pure (y + steps, { st with path := path, pts := st.pts.push ⟨x + steps, y + steps, r⟩ })

/-- one iteration of any of the three `snake` call sites of `compose`:
`s := snake(k, fp[k-1+offset]+1, fp[k+1+offset], offset); fp[k+offset] = s` -/
def stepK (a b : List α) (offset k : Int) (st : St) : Except Err St := do
  let p ← rd st.fp (k - 1 + offset)
  let pp ← rd st.fp (k + 1 + offset)
  let (s, st) ← snake eq a b k (p + 1) pp offset st
  let fp ← wr st.fp (k + offset) s
  pure { st with fp := fp }

/-- `for k := -p; k <= delta-1; k++` — `cnt` iterations starting at `k` -/
def sweepUp (a b : List α) (offset : Int) : Int → Nat → St → Except Err St
  | _, 0, st => pure st
  | k, cnt + 1, st => do
    let st ← stepK eq a b offset k st
    sweepUp a b offset (k + 1) cnt st

/-- `for k := delta + p; k >= delta+1; k--` — `cnt` iterations starting at `k` -/
def sweepDown (a b : List α) (offset : Int) : Int → Nat → St → Except Err St
  | _, 0, st => pure st
  | k, cnt + 1, st => do
    let st ← stepK eq a b offset k st
    sweepDown a b offset (k - 1) cnt st

/-- one round of the `for p := 0; ; p++` loop, without its exit test -/
def round (a b : List α) (p : Nat) (st : St) : Except Err St := do
  let m : Int := a.length
  let n : Int := b.length
  let offset := m + 1
  let delta := n - m
  let st ← sweepUp eq a b offset (-(p : Int)) (delta + p).toNat st
  let st ← sweepDown eq a b offset (delta + p) p st
  stepK eq a b offset delta st

/-- `for p := 0; ; p++ { …; if fp[delta+offset] >= diff.n || len(diff.pointWithRoute) > diff.routeSize { break } }` -/
def rounds (a b : List α) (routeSize : Nat) : Nat → Nat → St → Except Err St
  | 0, _, _ => .error .outOfFuel
  | fuel + 1, p, st => do
    let m : Int := a.length
    let n : Int := b.length
    let st ← round eq a b p st
    let v ← rd st.fp (n - m + (m + 1))
    if v ≥ n ∨ st.pts.size > routeSize then pure st
    else rounds a b routeSize fuel (p + 1) st

/-- `for r != -1 { epc = append(epc, point{…[r].x, …[r].y}); r = …[r].r }`; the result is in the order in which
`recordSeq` visits it (it walks `epc` from its last entry to its first): start of the route first -/
def route (pts : Array Pt) : Nat → Int → List (Int × Int) → Except Err (List (Int × Int))
  | 0, _, _ => .error .outOfFuel
  | fuel + 1, r, acc =>
    if r = -1 then .ok acc
    else if r < 0 then .error .indexPanic
    else match pts[r.toNat]? with
      | none => .error .indexPanic
      | some p => route pts fuel p.r ((p.x, p.y) :: acc)

/-- `(*differ).extend(kind, from, loc)`; `edits` is `diff.edits` with its most recent entry first -/
def extend (kind : Kind) (src : List α) (loc : Int) (edits : List (RawEdit α)) : Except Err (List (RawEdit α)) :=
  match edits with
  | last :: rest =>
    if last.kind = kind ∧ last.start + last.values.length = loc then do
      let v ← slice src last.start (loc + 1)
      pure ({ last with values := v } :: rest)
    else do
      let v ← slice src loc (loc + 1)
      pure ({ kind := kind, start := loc, values := v } :: edits)
  | [] => do
    let v ← slice src loc (loc + 1)
    pure [{ kind := kind, start := loc, values := v }]

/-- the position of `recordSeq` in the edit graph (`px`, `py`; the Go code also keeps `x = px+1`, `y = py+1`)
and the edits recorded so far -/
structure Rec (α : Type) where
  px : Int
  py : Int
  edits : List (RawEdit α)

/-- the inner loop of `recordSeq` for one route point `(ex, ey)`:
`for (px < epc[i].x) || (py < epc[i].y) { … }` -/
def walkTo (a b : List α) (reverse : Bool) (ex ey : Int) : Nat → Rec α → Except Err (Rec α)
  | fuel, r =>
    if r.px < ex ∨ r.py < ey then
      match fuel with
      | 0 => .error .outOfFuel
      | fuel + 1 =>
        if ey - ex > r.py - r.px then do
          let es ← extend (if reverse then .delete else .add) b r.py r.edits
          walkTo a b reverse ex ey fuel { r with py := r.py + 1, edits := es }
        else if ey - ex < r.py - r.px then do
          let es ← extend (if reverse then .add else .delete) a r.px r.edits
          walkTo a b reverse ex ey fuel { r with px := r.px + 1, edits := es }
        else do
          let es ← extend .common (if reverse then b else a) (if reverse then r.py else r.px) r.edits
          walkTo a b reverse ex ey fuel { px := r.px + 1, py := r.py + 1, edits := es }
    else .ok r

/-- the outer loop of `recordSeq` -/
def walkRoute (a b : List α) (reverse : Bool) : List (Int × Int) → Rec α → Except Err (Rec α)
  | [], r => .ok r
  | (ex, ey) :: ps, r => do
    let r ← walkTo a b reverse ex ey ((ex - r.px).toNat + (ey - r.py).toNat) r
    walkRoute a b reverse ps r

/-- The outer `for { … if diff.recordSeq(epc) { break } }` of `compose`: search, extract the route, record it;
when not everything was recorded (the route list outgrew `routeSize`) continue on the rest of both sequences.
`size` is the length the arrays `fp` and `path` were allocated with (`m+n+3` of the first pass). -/
def passes (routeSize size : Nat) (reverse : Bool) :
    Nat → List α → List α → List (RawEdit α) → Except Err (List (RawEdit α))
  | 0, _, _, _ => .error .outOfFuel
  | fuel + 1, a, b, edits => do
    let m : Int := a.length
    let n : Int := b.length
    let st : St := { fp := Array.replicate size (-1), path := Array.replicate size (-1), pts := #[] }
    let st ← rounds eq a b routeSize (a.length + b.length + 2) 0 st
    let r ← rd st.path (n - m + (m + 1))
    let epc ← route st.pts (st.pts.size + 1) r []
    let rec_ ← walkRoute a b reverse epc { px := 0, py := 0, edits := edits }
    if rec_.px + 1 > m ∧ rec_.py + 1 > n then pure rec_.edits      -- x > diff.m && y > diff.n
    else do
      let a' ← slice a rec_.px a.length
      let b' ← slice b rec_.py b.length
      passes routeSize size reverse fuel a' b' rec_.edits

/-! ## The edits handed to the client (`Edit`, `types.go`) -/

/-- `Edit`: `kind` and the values; the values of a replace are element diffs (`None` for a pair of equal
elements) -/
inductive Edit (α δ : Type) where
  | delete (vs : List α)
  | common (vs : List α)
  | add (vs : List α)
  | replace (ds : List (Option δ))
deriving Repr

-- `DiffDepth(old.Index(i), new.Index(i), depth)` on two elements
variable (elemDiff : α → α → Except Err (Option δ))
-- `&LiteralDiff{old, new}` when both sequences are strings or bytes (`indexReturnsSlice`), else `none`
variable (lit : Option (List α → List α → δ))

/-- `diffReplacements(old, new, depth)` -/
def diffReplacements (old new : List α) : Except Err (List (Option δ)) :=
  match lit with
  | some f => .ok [some (f old new)]
  | none =>
    let rec go : List α → List α → Except Err (List (Option δ))
      | [], _ => .ok []
      | _ :: _, [] => .error .indexPanic                   -- new.Index(i) out of range
      | o :: os, n :: ns => do
        let d ← elemDiff o n
        let ds ← go os ns
        pure (d :: ds)
    go old new

def toEdit (e : RawEdit α) : Edit α δ :=
  match e.kind with
  | .delete => .delete e.values
  | .common => .common e.values
  | .add => .add e.values

/-- one iteration of the final loop of `compose`; `out` is `edits` with its most recent entry first -/
def mergeStep (out : List (Edit α δ)) (e : RawEdit α) : Except Err (List (Edit α δ)) :=
  match e.kind, out with
  | .add, .delete old :: rest =>
    let new := e.values
    if old.length < new.length then do
      -- replace followed by add
      let ds ← diffReplacements elemDiff lit old (new.take old.length)
      pure (.add (new.drop old.length) :: .replace ds :: rest)
    else if old.length > new.length then do
      -- replace followed by delete
      let ds ← diffReplacements elemDiff lit (old.take new.length) new
      pure (.delete (old.drop new.length) :: .replace ds :: rest)
    else do
      -- pure replace
      let ds ← diffReplacements elemDiff lit old new
      pure (.replace ds :: rest)
  | _, _ => .ok (toEdit e :: out)

def merge : List (Edit α δ) → List (RawEdit α) → Except Err (List (Edit α δ))
  | out, [] => .ok out
  | out, e :: es => do
    let out ← mergeStep elemDiff lit out e
    merge out es

/-- `defaultRouteSize` -/
def defaultRouteSize : Nat := 2000000

/-- `diffSlice(a, b, depth)` up to the construction of the result: the edits. `a` is the old sequence, `b` the
new one. -/
def diffSliceEdits (routeSize : Nat) (a b : List α) : Except Err (List (Edit α δ)) := do
  let reverse := decide (a.length ≥ b.length)
  let (a', b') := if reverse then (b, a) else (a, b)
  let raw ← passes eq routeSize (a'.length + b'.length + 3) reverse (a'.length + b'.length + 1) a' b' []
  let out ← merge elemDiff lit [] raw.reverse
  pure out.reverse

end generic

/-! ## Starlark values (the ones C16 quantifies over) -/

inductive Val where
  | none                               -- `None`
  | bool (b : Bool)
  | int (i : Int)
  | str (s : List UInt8)
  | bytes (b : List UInt8)
  | tuple (xs : List Val)
  | list (xs : List Val)
  | dict (kvs : List (Val × Val))      -- in insertion order
deriving Repr

mutual
/-- structural equality (`deriving DecidableEq` does not work on nested inductives) -/
def Val.beq : Val → Val → Bool
  | .none, .none => true
  | .bool a, .bool b => a == b
  | .int a, .int b => a == b
  | .str a, .str b => a == b
  | .bytes a, .bytes b => a == b
  | .tuple xs, .tuple ys => Val.beqList xs ys
  | .list xs, .list ys => Val.beqList xs ys
  | .dict xs, .dict ys => Val.beqPairs xs ys
  | _, _ => false
def Val.beqList : List Val → List Val → Bool
  | [], [] => true
  | x :: xs, y :: ys => x.beq y && Val.beqList xs ys
  | _, _ => false
def Val.beqPairs : List (Val × Val) → List (Val × Val) → Bool
  | [], [] => true
  | (k, v) :: xs, (k', v') :: ys => k.beq k' && v.beq v' && Val.beqPairs xs ys
  | _, _ => false
end

mutual
/-- nesting depth: the `depth` a comparison of this value with itself needs -/
def Val.height : Val → Nat
  | .none => 1
  | .bool _ => 1
  | .int _ => 1
  | .str _ => 1
  | .bytes _ => 1
  | .tuple xs => 1 + Val.heightList xs
  | .list xs => 1 + Val.heightList xs
  | .dict kvs => 1 + Val.heightPairs kvs
def Val.heightList : List Val → Nat
  | [] => 0
  | x :: xs => max x.height (Val.heightList xs)
def Val.heightPairs : List (Val × Val) → Nat
  | [] => 0
  | (_, v) :: kvs => max v.height (Val.heightPairs kvs)
end

/-- `dict.Get(key)`: keys are hashable values (strings, bytes, tuples of such), for which Starlark equality
is structural equality -/
def lookup (k : Val) : List (Val × Val) → Option Val
  | [] => none
  | (k', v) :: kvs => if k.beq k' then some v else lookup k kvs

/-- `sliceCompare` for `==`, after the length test -/
def allEqWith (f : Val → Val → Except Err Bool) : List Val → List Val → Except Err Bool
  | x :: xs, y :: ys =>
    match f x y with
    | .error e => .error e
    | .ok false => .ok false
    | .ok true => allEqWith f xs ys
  | _, _ => .ok true

/-- the loop of `dictsEqual` -/
def dictEqWith (f : Val → Val → Except Err Bool) (ys : List (Val × Val)) : List (Val × Val) → Except Err Bool
  | [] => .ok true
  | (k, xv) :: xs =>
    match lookup k ys with
    | none => .ok false
    | some yv =>
      match f xv yv with
      | .error e => .error e
      | .ok false => .ok false
      | .ok true => dictEqWith f ys xs

/-- `starlark.EqualDepth(x, y, depth)` -/
def equalDepth : Nat → Val → Val → Except Err Bool
  | 0, _, _ => .error .depth                                   -- if depth < 1
  | _ + 1, .none, .none => .ok true                            -- not Comparable: identity
  | _ + 1, .bool a, .bool b => .ok (a == b)
  | _ + 1, .int a, .int b => .ok (a == b)
  | _ + 1, .str a, .str b => .ok (a == b)
  | _ + 1, .bytes a, .bytes b => .ok (a == b)
  | d + 1, .tuple xs, .tuple ys => if xs.length ≠ ys.length then .ok false else allEqWith (equalDepth d) xs ys
  | d + 1, .list xs, .list ys => if xs.length ≠ ys.length then .ok false else allEqWith (equalDepth d) xs ys
  | d + 1, .dict xs, .dict ys => if xs.length ≠ ys.length then .ok false else dictEqWith (equalDepth d) ys xs
  | _ + 1, _, _ => .ok false                                   -- different types

/-- the elements of a `starlark.Sliceable` as `Index(i)` returns them: indexing a string or bytes gives a
one-byte string or bytes -/
def Val.elems? : Val → Option (List Val)
  | .str s => some (s.map fun c => .str [c])
  | .bytes s => some (s.map fun c => .bytes [c])
  | .tuple xs => some xs
  | .list xs => some xs
  | _ => Option.none

/-- `indexReturnsSlice` -/
def Val.indexReturnsSlice : Val → Bool
  | .str _ => true
  | .bytes _ => true
  | _ => false

/-- join the one-byte pieces of a string or bytes slice back together -/
def unbytes : List Val → List UInt8
  | [] => []
  | .str s :: vs => s ++ unbytes vs
  | .bytes s :: vs => s ++ unbytes vs
  | _ :: vs => unbytes vs

/-- `copySliceable` of a slice of `src`: a string or bytes stays what it is, everything else becomes a tuple -/
def Val.reslice (src : Val) (vs : List Val) : Val :=
  match src with
  | .str _ => .str (unbytes vs)
  | .bytes _ => .bytes (unbytes vs)
  | _ => .tuple vs

/-- `ValueDiff` (`types.go`) -/
inductive VDiff where
  | lit (old new : Val)                                                 -- `LiteralDiff`
  | slice (old new : Val) (edits : List (Edit Val VDiff))                -- `SliceableDiff`
  | mapping (old new : Val) (edits : List (Val × Edit Val VDiff))        -- `MappingDiff`, edits in insertion order

/-- `Old()` -/
def VDiff.old : VDiff → Val
  | .lit o _ => o
  | .slice o _ _ => o
  | .mapping o _ _ => o

/-- `New()` -/
def VDiff.new : VDiff → Val
  | .lit _ n => n
  | .slice _ n _ => n
  | .mapping _ n _ => n

/-- the constant in `snake`: `starlark.EqualDepth(diff.a.Index(x), diff.b.Index(y), 1000)` -/
def snakeDepth : Nat := 1000

/-- `diffMapping(old, new, depth)`, the two loops -/
def mappingEdits (elemDiff : Val → Val → Except Err (Option VDiff)) (old new : List (Val × Val)) :
    Except Err (List (Val × Edit Val VDiff)) := do
  let rec first : List (Val × Val) → Except Err (List (Val × Edit Val VDiff))
    | [] => .ok []
    | (k, oldV) :: rest =>
      match lookup k new with
      | none => do
        let es ← first rest
        pure ((k, .delete [oldV]) :: es)
      | some newV => do
        let d ← elemDiff oldV newV
        let es ← first rest
        match d with
        | none => pure es
        | some d => pure ((k, .replace [some d]) :: es)
  let rec second : List (Val × Val) → List (Val × Edit Val VDiff)
    | [] => []
    | (k, newV) :: rest =>
      match lookup k old with
      | none => (k, .add [newV]) :: second rest
      | some _ => second rest
  let es ← first old
  pure (es ++ second new)

/-- `sidesAfterSwap`: `diffSlice` before the repair of D5 built its result from `a` and `b` *after* exchanging
them when `len(a) >= len(b)` -/
def sliceSides (sidesAfterSwap : Bool) (old new : Val) (a b : List Val) : Val × Val :=
  if sidesAfterSwap && decide (a.length ≥ b.length) then (new, old) else (old, new)

/-- `DiffDepth(old, new, depth)` with `routeSize` and the D5 behaviour as parameters -/
def diffDepthWith (routeSize : Nat) (sidesAfterSwap : Bool) : Nat → Val → Val → Except Err (Option VDiff)
  | 0, _, _ => .error .depth                                 -- EqualDepth(old, new, depth) with depth < 1
  | d + 1, old, new =>
    match equalDepth (d + 1) old new with
    | .error e => .error e
    | .ok true => .ok none
    | .ok false =>
      match old.elems?, new.elems? with
      | some a, some b =>
        -- diffSlice(oldSlice, newSlice, depth-1)
        let lit : Option (List Val → List Val → VDiff) :=
          if old.indexReturnsSlice && new.indexReturnsSlice then
            some fun o n => .lit (old.reslice o) (new.reslice n)
          else none
        match diffSliceEdits (equalDepth snakeDepth) (diffDepthWith routeSize sidesAfterSwap d) lit routeSize a b with
        | .error e => .error e
        | .ok edits =>
          let s := sliceSides sidesAfterSwap old new a b
          .ok (some (.slice s.1 s.2 edits))
      | _, _ =>
        match old, new with
        | .dict okv, .dict nkv =>
          -- diffMapping(oldMapping, newMapping, depth-1)
          match mappingEdits (diffDepthWith routeSize sidesAfterSwap d) okv nkv with
          | .error e => .error e
          | .ok edits => .ok (some (.mapping old new edits))
        | _, _ => .ok (some (.lit old new))

/-- `DiffDepth` as it is (after the repair of D5) -/
def diffDepth : Nat → Val → Val → Except Err (Option VDiff) := diffDepthWith defaultRouteSize false

/-- `CompareLimit` -/
def compareLimit : Nat := 10

/-- `Diff(old, new)` -/
def diff (old new : Val) : Except Err (Option VDiff) := diffDepth compareLimit old new

/-! ## The rebuild reason (`function.go`: `functionEnvKeys`, `diffEnv`) -/

def functionEnvKeys : List String :=
  ["names", "constant values", "predeclared values", "universal values", "function values", "global values",
   "default parameter values", "free variables", "parameters", "code"]

/-- the `switch len(reasons)` of `diffEnv` for at least one reason (`case 0` returns before: see `diffEnv`) -/
def joinReasons : List String → Except Err String
  | [] => .error .indexPanic
  | [r] => .ok r
  | [r0, r1] => .ok (r0 ++ " and " ++ r1)
  | rs => .ok (", ".intercalate rs.dropLast ++ ", and " ++ rs.getLast!)

/-- `md.Has(k)` -/
def hasEdit (k : Val) (edits : List (Val × Edit Val VDiff)) : Bool :=
  edits.any fun e => k.beq e.1

inductive EnvResult where
  | neverRun                                   -- (false, "target has never been run", nil, nil)
  | same                                       -- (true, "", nil, nil)
  | changed (reason : String) (d : VDiff)      -- (false, reason + " changed", d, nil)
  | changedOpaque                              -- (false, "environment changed", nil, nil): the encodings differ but the
                                               -- environments compare equal, or are too deep to compare or diff
  | error (e : String)                         -- a returned error
  | panic                                      -- a Go panic

/-- the depth `diffEnv` compares and diffs with -/
def envDepth : Nat := 1000

/-- `(*function).diffEnv()`; `oldEnv = none` stands for `starlark.None`, `sameEncoding` for
`f.newData == f.oldData` (the pickled forms of the two environments are the same text) -/
def diffEnv (oldEnv : Option Val) (sameEncoding : Bool) (newEnv : Val) : EnvResult :=
  match oldEnv with
  | none => .neverRun
  | some old =>
    if sameEncoding then .same else
    -- the encodings differ, so the environment changed; the rest only finds a readable reason
    match equalDepth envDepth old newEnv with
    | .error _ => .changedOpaque                -- too deep to compare
    | .ok true => .changedOpaque                -- == but distinguishable: 1 and 1.0, 0.0 and -0.0, sharing
    | .ok false =>
      match old, newEnv with
      | .dict _, .dict _ =>
        match diffDepth envDepth old newEnv with
        | .error .depth => .changedOpaque
        | .error _ => .panic
        | .ok (some (.mapping o n edits)) =>
          let reasons := functionEnvKeys.filter fun k => hasEdit (.str k.toUTF8.toList) edits
          match reasons with
          | [] => .changed "environment changed" (.mapping o n edits)   -- case 0: differs in a part that is not listed
          | _ =>
            match joinReasons reasons with
            | .ok r => .changed (r ++ " changed") (.mapping o n edits)
            | .error _ => .panic
        | .ok _ => .panic                       -- panic("expected a diff in unequal environments")
      | .dict _, _ => .error "new environment is not a dict"
      | _, _ => .error "old environment is not a dict"

end Dawn.Diff

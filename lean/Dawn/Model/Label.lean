/-!
# Model of `label/label.go`, `sourceFile.go:repoSourcePath/sourceLabel` and `project.go:targetInfoPath` — property C12

Core Lean only (this file is linked into the driver executable `drv_label`).

**Strings are `List UInt8`.** A Go `string` is a byte sequence and every function modelled here works on bytes:
`Parse` uses `strings.LastIndexByte`, `IndexByte`, `Index(…, "//")`, byte slicing; `Clean` and `Split` index
bytes; `strings.ContainsAny(s, ":/")` and `ContainsRune(s, '/')` with ASCII arguments are byte searches (an
ASCII byte never occurs inside a multi-byte UTF-8 sequence, and the functions do not decode otherwise). A model
over `List Char` could not even express the inputs `"\xff:"` or a lone continuation byte, which the real
functions accept. So the model is exact for *all* Go strings, valid UTF-8 or not.

**Go panics are outcomes.** Every index expression `s[i]` of the Go text is `idx s i` and every slice
expression `s[lo:hi]` is `slice s lo hi`; both answer `Out.panic` when Go would panic with an out-of-range
run-time error. Loops take fuel and answer `Out.fuel` when it runs out. `C12_total` proves that neither outcome
is reachable from `Parse`, `Clean`, `Join`, `New`, `RelativeTo`; for `repoSourcePath` the panic *is* reachable
(`pkg[2:]` with a package shorter than two bytes) and the theorem carries the hypothesis that rules it out.

`path.Clean`, `path.Join`, `path.IsAbs`, `url.PathEscape` are standard library: modelled by their documented
semantics (component stack) and validated by the correspondence streams `label.pclean`, `label.pjoin`.
-/
namespace Dawn.Label

abbrev Bytes := List UInt8

abbrev slash : UInt8 := 47   -- '/'
abbrev colon : UInt8 := 58   -- ':'
abbrev dot : UInt8 := 46     -- '.'

/-- the error *kinds* of the modelled functions (messages are not compared) -/
inductive Err where
  | projectColon     -- Parse/New: "project may not contain ':'"
  | absSingle        -- Clean: "absolute pkg paths must begin with '//'"
  | pkgColon         -- Clean: "pkg paths may not contain ':'"
  | pkgDot           -- Clean: "pkg paths may not contain '.' or '..' elements"
  | nameSlash        -- Parse: "names may not contain ':' or '/'"
  | projectRel       -- Parse: "labels with projects must be absolute"
  | kindBad          -- New: "kind may not contain ':' or '/'"
  | projectRelNew    -- New: "labels with projects must use absolute package paths"
  | nameBad          -- New: "name may not contain ':' or '/'"
  | emptyPath        -- repoSourcePath: "path must not be empty"
  | outsideRoot      -- repoSourcePath: "source file … is outside of the project root"
deriving DecidableEq, Repr

/-- outcome of running a piece of Go: a value, a returned error, a run-time panic, or fuel exhausted -/
inductive Out (α : Type) where
  | ok (a : α)
  | err (e : Err)
  | panic
  | fuel
deriving DecidableEq, Repr

namespace Out
@[inline] def bind {α β : Type} (x : Out α) (f : α → Out β) : Out β :=
  match x with
  | .ok a => f a
  | .err e => .err e
  | .panic => .panic
  | .fuel => .fuel

instance : Monad Out where
  pure := .ok
  bind := Out.bind

/-- a value or a returned error: what Go code that neither panics nor hangs produces -/
def returns {α : Type} : Out α → Bool
  | .ok _ => true
  | .err _ => true
  | _ => false
end Out

structure Label where
  kind : Bytes
  project : Bytes
  pkg : Bytes
  name : Bytes
deriving DecidableEq, Repr

/-! ## Go primitives -/

/-- `s[i]` -/
def idx (s : Bytes) (i : Nat) : Out UInt8 :=
  match s[i]? with
  | some b => .ok b
  | none => .panic

/-- `s[lo:hi]` -/
def slice (s : Bytes) (lo hi : Nat) : Out Bytes :=
  if lo ≤ hi ∧ hi ≤ s.length then .ok ((s.take hi).drop lo) else .panic

/-- `strings.IndexByte(s, c)`; `none` is `-1` -/
def indexByte (c : UInt8) : Bytes → Option Nat
  | [] => none
  | x :: xs => if x = c then some 0 else (indexByte c xs).map (· + 1)

/-- `strings.LastIndexByte(s, c)` -/
def lastIndexByte (c : UInt8) : Bytes → Option Nat
  | [] => none
  | x :: xs => match lastIndexByte c xs with
    | some i => some (i + 1)
    | none => if x = c then some 0 else none

/-- `strings.Index(s, "//")` -/
def indexSS : Bytes → Option Nat
  | [] => none
  | x :: rest => match rest with
    | [] => none
    | y :: _ => if x = slash ∧ y = slash then some 0 else (indexSS rest).map (· + 1)

/-- `strings.HasPrefix(s, "//")` -/
def hasPrefixSS : Bytes → Bool
  | x :: y :: _ => x = slash ∧ y = slash
  | _ => false

/-! ## `lazybuf` -/

/-- `type lazybuf struct { s string; buf []byte; w int }`; `buf = none` is the nil slice -/
structure LazyBuf where
  s : Bytes
  buf : Option Bytes
  w : Nat
deriving DecidableEq, Repr

/-- `func (b *lazybuf) append(c byte)` -/
def LazyBuf.append (b : LazyBuf) (c : UInt8) : Out LazyBuf :=
  match b.buf with
  | none =>
    -- if b.w < len(b.s) && b.s[b.w] == c { b.w++; return }
    (if b.w < b.s.length then (idx b.s b.w).bind fun x => .ok (decide (x = c)) else .ok false).bind fun (same : Bool) =>
    if same then .ok { b with w := b.w + 1 } else
    -- b.buf = make([]byte, len(b.s)); copy(b.buf, b.s[:b.w])
    (slice b.s 0 b.w).bind fun pre =>
    let buf := pre ++ List.replicate (b.s.length - pre.length) 0
    -- b.buf[b.w] = c; b.w++
    if b.w < buf.length then .ok { b with buf := some (buf.set b.w c), w := b.w + 1 } else .panic
  | some buf =>
    if b.w < buf.length then .ok { b with buf := some (buf.set b.w c), w := b.w + 1 } else .panic

/-- `func (b *lazybuf) string() string` -/
def LazyBuf.string (b : LazyBuf) : Out Bytes :=
  match b.buf with
  | none => slice b.s 0 b.w
  | some buf => slice buf 0 b.w

/-! ## `Clean` as the Go text: indices, guards, the lazy buffer -/

/-- `for ; r < n && pkg[r] != '/' && pkg[r] != ':'; r++ { out.append(pkg[r]) }` -/
def copyElem (pkg : Bytes) (n : Nat) : Nat → Nat → LazyBuf → Out (Nat × LazyBuf)
  | 0, _, _ => .fuel
  | fuel + 1, r, out =>
    (if r < n then (idx pkg r).bind fun c => .ok (decide (c ≠ slash ∧ c ≠ colon)) else .ok false).bind fun (go : Bool) =>
    if go then
      (idx pkg r).bind fun c => (out.append c).bind fun out => copyElem pkg n fuel (r + 1) out
    else .ok (r, out)

/-- the `for r < n { switch { … } }` loop of `Clean` -/
def cleanLoop (pkg : Bytes) (n : Nat) (rooted : Bool) : Nat → Nat → LazyBuf → Out LazyBuf
  | 0, _, _ => .fuel
  | fuel + 1, r, out =>
    if r < n then
      (idx pkg r).bind fun c =>
      -- case pkg[r] == ':'
      if c = colon then .err .pkgColon
      -- case pkg[r] == '/'
      else if c = slash then cleanLoop pkg n rooted fuel (r + 1) out
      else
        -- case pkg[r] == '.' && (r+1 == n || pkg[r+1] == '/')
        (if c = dot then (if r + 1 = n then .ok true else (idx pkg (r + 1)).bind fun d => .ok (decide (d = slash)))
         else .ok false).bind fun (isDot : Bool) =>
        if isDot then .err .pkgDot else
        -- case pkg[r] == '.' && pkg[r+1] == '.' && (r+2 == n || pkg[r+2] == '/')
        (if c = dot then (idx pkg (r + 1)).bind fun d =>
            if d = dot then (if r + 2 = n then .ok true else (idx pkg (r + 2)).bind fun e => .ok (decide (e = slash)))
            else .ok false
         else .ok false).bind fun (isDotDot : Bool) =>
        if isDotDot then .err .pkgDot else
        -- default: if rooted && out.w != 2 || !rooted && out.w != 0 { out.append('/') }
        (if (rooted && out.w != 2) || (!rooted && out.w != 0) then out.append slash else .ok out).bind fun out =>
        (copyElem pkg n (n + 1) r out).bind fun p => cleanLoop pkg n rooted fuel p.1 p.2
    else .ok out

/-- `func Clean(pkg string) (string, error)` -/
def cleanGo (pkg : Bytes) : Out Bytes :=
  if pkg = [] then .ok [] else
  let n := pkg.length
  -- rooted := len(pkg) >= 2 && pkg[0] == '/' && pkg[1] == '/'
  (if n ≥ 2 then (idx pkg 0).bind fun a =>
      if a = slash then (idx pkg 1).bind fun b => .ok (decide (b = slash)) else .ok false
   else .ok false).bind fun (rooted : Bool) =>
  let out : LazyBuf := { s := pkg, buf := none, w := 0 }
  (if rooted then (out.append slash).bind fun o => (o.append slash).bind fun o => .ok (o, 2)
   else .ok (out, 0)).bind fun (p : LazyBuf × Nat) =>
  -- if !rooted && pkg[r] == '/'
  (if !rooted then (idx pkg p.2).bind fun c => .ok (decide (c = slash)) else .ok false).bind fun (single : Bool) =>
  if single then .err .absSingle else
  (cleanLoop pkg n rooted (n + 1) p.2 p.1).bind fun out => out.string

/-! ## `Clean` as a structural recursion, and as a statement about path components -/

/-- is the element that starts with `.` followed by `rest` the element `.` or `..`? (the two guarded
look-aheads of the Go `switch`) -/
def dotElem (rest : Bytes) : Bool :=
  match rest with
  | [] => true
  | d :: rest' =>
    if d = slash then true
    else if d = dot then (match rest' with
      | [] => true
      | e :: _ => e = slash)
    else false

/-- The loop of `Clean` byte by byte. `started`: an element has been written (`out.w` is past the root);
`inElem`: the inner copy loop is running. Returns what the loop appends to the buffer. -/
def scan (started inElem : Bool) : Bytes → Except Err Bytes
  | [] => .ok []
  | c :: rest =>
    if c = colon then .error .pkgColon
    else if c = slash then scan started false rest
    else if inElem then (scan started true rest).map (c :: ·)
    else if c = dot ∧ dotElem rest then .error .pkgDot
    else (scan true true rest).map fun t => if started then slash :: c :: t else c :: t

def clean (pkg : Bytes) : Except Err Bytes :=
  match pkg with
  | [] => .ok []
  | x :: rest =>
    if hasPrefixSS pkg then (scan false false (pkg.drop 2)).map ([slash, slash] ++ ·)
    else if x = slash then .error .absSingle
    else scan false false (x :: rest)

/-- split at every `sep` (`strings.Split`): always at least one piece -/
def split (sep : UInt8) : Bytes → List Bytes
  | [] => [[]]
  | c :: rest =>
    if c = sep then [] :: split sep rest
    else match split sep rest with
      | [] => [[c]]
      | h :: t => (c :: h) :: t

def join (sep : UInt8) : List Bytes → Bytes
  | [] => []
  | [a] => a
  | a :: rest => a ++ sep :: join sep rest

/-- an element `Clean` keeps -/
def goodElem (e : Bytes) : Bool := e ≠ [] ∧ e ≠ [dot] ∧ e ≠ [dot, dot] ∧ colon ∉ e

/-- error of the first offending element, in order -/
def firstBad : List Bytes → Option Err
  | [] => none
  | e :: rest =>
    if colon ∈ e then some .pkgColon
    else if e = [dot] ∨ e = [dot, dot] then some .pkgDot
    else firstBad rest

/-- The component-level statement of `Clean`: split on `/`, drop empty elements, reject `.`, `..` and
elements containing `:`, join with single slashes behind the root marker. -/
def cleanSpec (pkg : Bytes) : Except Err Bytes :=
  if pkg = [] then .ok [] else
  let rooted := hasPrefixSS pkg
  if !rooted ∧ pkg.head? = some slash then .error .absSingle else
  let comps := (split slash (if rooted then pkg.drop 2 else pkg)).filter (· ≠ [])
  match firstBad comps with
  | some e => .error e
  | none => .ok ((if rooted then [slash, slash] else []) ++ join slash comps)

/-! ## `Join`, `Split`, `Parse`, `New`, `RelativeTo`, `String` -/

/-- the buffer `Join` (and `path.Join`) builds before cleaning -/
def joinBuf : Bytes → List Bytes → Bytes
  | buf, [] => buf
  | buf, e :: rest =>
    if buf ≠ [] ∨ e ≠ [] then joinBuf ((if buf ≠ [] then buf ++ [slash] else buf) ++ e) rest
    else joinBuf buf rest

/-- `func Join(elem ...string) (string, error)` -/
def joinGo (elems : List Bytes) : Out Bytes :=
  if (elems.map List.length).sum = 0 then .ok [] else cleanGo (joinBuf [] elems)

/-- `func Split(pkg string) []string` -/
def splitGo (pkg : Bytes) : List Bytes :=
  if hasPrefixSS pkg then [slash, slash] :: (split slash (pkg.drop 2)).filter (· ≠ [])
  else (split slash pkg).filter (· ≠ [])

def Label.isAbs (l : Label) : Bool := hasPrefixSS l.pkg

/-- `kind, projectAndPkg := "", ""; if kindColon := strings.IndexByte(kindProjectAndPkg, ':'); kindColon != -1 { … }` -/
def splitKindGo (kpp : Bytes) : Out (Bytes × Bytes) :=
  match indexByte colon kpp with
  | some kc => (slice kpp 0 kc).bind fun k => (slice kpp (kc + 1) kpp.length).bind fun p => .ok (k, p)
  | none => .ok ([], kpp)

/-- `project, pkg := "", projectAndPkg; if i := strings.Index(projectAndPkg, "//"); i != -1 { … }` -/
def splitProjectGo (pp : Bytes) : Out (Bytes × Bytes) :=
  match indexSS pp with
  | some i => (slice pp 0 i).bind fun a => (slice pp i pp.length).bind fun b => .ok (a, b)
  | none => .ok ([], pp)

/-- `func Parse(rawlabel string) (*Label, error)` -/
def parseGo (raw : Bytes) : Out Label :=
  -- nameColon := strings.LastIndexByte(rawlabel, ':'); if nameColon == -1 { nameColon = len(rawlabel) }
  let nameColon := (lastIndexByte colon raw).getD raw.length
  (slice raw 0 nameColon).bind fun kpp =>
  (splitKindGo kpp).bind fun (kp : Bytes × Bytes) =>
  (splitProjectGo kp.2).bind fun (pp : Bytes × Bytes) =>
  if colon ∈ pp.1 then .err .projectColon else
  (cleanGo pp.2).bind fun pkg =>
  (if nameColon < raw.length then
      (slice raw (nameColon + 1) raw.length).bind fun nm =>
      if slash ∈ nm then .err .nameSlash else .ok nm
   else .ok []).bind fun name =>
  let l : Label := ⟨kp.1, pp.1, pkg, name⟩
  if pp.1 ≠ [] ∧ !l.isAbs then .err .projectRel else .ok l

/-- `func New(kind, project, pkg, name string) (*Label, error)` -/
def newGo (kind project pkg name : Bytes) : Out Label :=
  if colon ∈ kind ∨ slash ∈ kind then .err .kindBad else
  if colon ∈ project then .err .projectColon else
  (cleanGo pkg).bind fun pkg =>
  if project ≠ [] ∧ !hasPrefixSS pkg then .err .projectRelNew else
  if colon ∈ name ∨ slash ∈ name then .err .nameBad else
  .ok ⟨kind, project, pkg, name⟩

/-- `func (l *Label) RelativeTo(pkg string) (*Label, error)` -/
def relativeToGo (l : Label) (pkg : Bytes) : Out Label :=
  if l.isAbs then .ok l else
  (joinGo [pkg, l.pkg]).bind fun p => .ok { l with pkg := p }

/-- `func (l *Label) String() string` -/
def print (l : Label) : Bytes :=
  (if l.kind ≠ [] then l.kind ++ [colon] else []) ++ l.project ++ l.pkg ++
  (if l.name ≠ [] then colon :: l.name else [])

/-! ## `path.Clean`, `path.Join` (standard library; component-stack semantics) -/

/-- one element against the stack of kept elements (top first) -/
def pstep (rooted : Bool) (st : List Bytes) (e : Bytes) : List Bytes :=
  if e = [] ∨ e = [dot] then st
  else if e = [dot, dot] then
    match st with
    | [] => if rooted then [] else [e]
    | t :: below => if t = [dot, dot] then e :: st else below
  else e :: st

def pathClean (p : Bytes) : Bytes :=
  if p = [] then [dot] else
  let rooted := p.head? = some slash
  let body := join slash ((split slash p).foldl (pstep rooted) []).reverse
  if rooted then slash :: body else if body = [] then [dot] else body

def pathJoin (elems : List Bytes) : Bytes :=
  if (elems.map List.length).sum = 0 then [] else pathClean (joinBuf [] elems)

def pathIsAbs (p : Bytes) : Bool := p.head? = some slash

/-! ## `repoSourcePath`, `sourceLabel` -/

def dotdot : Bytes := [dot, dot]
def dotdotSlash : Bytes := [dot, dot, slash]

/-- `func repoSourcePath(pkg, sourcePath string) (string, error)` -/
def repoSourcePathGo (pkg sp : Bytes) : Out Bytes :=
  if sp = [] then .err .emptyPath else
  -- if !path.IsAbs(sourcePath) { sourcePath = path.Join(pkg[2:], sourcePath) }
  (if !pathIsAbs sp then (slice pkg 2 pkg.length).bind fun p2 => .ok (pathJoin [p2, sp]) else .ok sp).bind fun sp =>
  let sp := pathClean sp
  if sp = dotdot ∨ dotdotSlash.isPrefixOf sp then .err .outsideRoot else .ok sp

def sourceKind : Bytes := [115, 111, 117, 114, 99, 101]   -- `source`

/-- `func sourceLabel(pkg, sourcePath string) (*label.Label, error)` (`filepath.ToSlash` is the identity where
the separator is `/`) -/
def sourceLabelGo (pkg sp : Bytes) : Out Label :=
  (repoSourcePathGo pkg sp).bind fun sp =>
  match lastIndexByte slash sp with
  | some ls =>
    (slice sp 0 ls).bind fun dir => (slice sp (ls + 1) sp.length).bind fun target =>
    newGo sourceKind [] ([slash, slash] ++ dir) target
  | none => newGo sourceKind [] [slash, slash] sp

/-! ## `targetInfoPath` -/

def hexUpper (n : Nat) : UInt8 := if n < 10 then UInt8.ofNat (48 + n) else UInt8.ofNat (55 + n)

/-- `url.PathEscape`: bytes kept by `shouldEscape(c, encodePathSegment)`: ASCII letters and digits, `-_.~`,
and `$&+=:@`; everything else is `%XX` -/
def pathEscapeKeeps (c : UInt8) : Bool :=
  (97 ≤ c ∧ c ≤ 122) ∨ (65 ≤ c ∧ c ≤ 90) ∨ (48 ≤ c ∧ c ≤ 57) ∨
  c = 45 ∨ c = 95 ∨ c = 46 ∨ c = 126 ∨ c = 36 ∨ c = 38 ∨ c = 43 ∨ c = 61 ∨ c = 58 ∨ c = 64

def pathEscape (s : Bytes) : Bytes :=
  s.flatMap fun c => if pathEscapeKeeps c then [c] else [37, hexUpper (c.toNat / 16), hexUpper (c.toNat % 16)]

def defaultKind : Bytes := [116, 97, 114, 103, 101, 116]       -- `target`
def defaultTarget : Bytes := [66, 85, 73, 76, 68, 46, 100, 97, 119, 110]   -- `BUILD.dawn`
def kindSuffix : Bytes := [115]   -- `s`

/-- `filepath.Join(a, b, c)` with `a` non-empty on a system whose separator is `/`: the elements joined with
`/` and cleaned (`filepath.Clean` is `path.Clean` there) -/
def filepathJoin3 (a b c : Bytes) : Bytes := pathClean (a ++ [slash] ++ b ++ [slash] ++ c)

/-- `func (proj *Project) targetInfoPath(l *label.Label) string` with `proj.work = work` (non-empty) -/
def targetInfoPathGo (work : Bytes) (l : Label) : Out Bytes :=
  let kind := if l.kind = [] then defaultKind else l.kind
  let target := if l.name = [] then defaultTarget else l.name
  (slice l.pkg 2 l.pkg.length).bind fun p2 =>
  .ok (filepathJoin3 work (kind ++ kindSuffix) (pathEscape (p2 ++ [slash] ++ target)))

end Dawn.Label

/-!
# Model of `runner/runner.go` — properties C04, C05, C09

Core Lean only (this file is linked into the driver executable `drv_runner`).

An interleaving transition system. One *main* thread (the caller of `Run`) and one thread per started
target (the goroutine `go t.run(r)`); every shared-memory operation of `runner.go` is one step, a
critical section is one step (it is atomic for every other thread), a blocked `cond.Wait` is a step
that is *not enabled*. The program counter `PC` follows the synchronisation skeleton of the source
(`Dawn/Ties/Runner.lean` compares that skeleton, regenerated from the working tree, with the one this
file was written against):

```
Run:               getTarget(root).start  →  root.wait()  →  running.Wait()                (MainPC)
t.run:             gate.enter → LoadTarget → Evaluate … → lock; status,err := …; unlock; Broadcast → gate.exit
                   → running.Done()
EvaluateTargets:   gate.exit → (getTarget(l).start)* → waiting.Swap(&targets) → checkDeps walk
                   → (t.wait())* → waiting.Swap(nil) → gate.enter
```

The client of the runner (`Targets`/`Target`, in dawn `Project.LoadTarget` and `runTarget.Evaluate`) is
modelled by the parameters: `known l` — `LoadTarget l` succeeds; `deps l` — the labels `Evaluate` passes
to its single `EvaluateTargets` call; `bodyOk l` — whether the rest of `Evaluate` succeeds when no
dependency failed. As in `target.go:55-62` a target fails when any result carries an error, and it
reports the cyclic-dependency error when it is handed one (`cyc`).

The recursive `check`/`checkDeps` walk is a flat LIFO work list: the same sequence of `waiting.Load`
reads, each read one step (it races with the other threads' `Swap`s).

Ghost state (never read by a guard or by a non-ghost assignment): `loads`, `evals` count calls;
`holds` says which thread owns a slot; `cyc` which threads were handed the cycle error;
`ptime`/`clock` time-stamp publications, `seen`/`expd` record a walker's reads (used by the
deadlock-freedom proof); `ftime`/`fclock` time-stamp completions (used by the cycle-report proof); `order` lists
the labels in the order in which their outcome was computed — the failed `LoadTarget` of an unknown target, the
rest of `Evaluate` (in dawn: the up-to-date test and the body) of a known one — and is what the incremental
engine's theorems consume (`Dawn/Props/LinkRunnerBuild.lean`).

`live` is the `sync.WaitGroup` `runner.running` added by the repair of D17 (`Run` used to return as soon
as the requested target had finished, while targets started by a target that then detected a cycle were
still running): `start` adds one inside the target's critical section, `run` ends with `Done()`, `Run`
waits for zero before it returns. `stepOld`/`ReachableOld` keep the behaviour before the repair for the
regression witness `C05_run_returns_early_counterexample`.
-/
namespace Dawn.Runner

abbrev Label := Nat

inductive Status where
  | idle | running | succeeded | failed
deriving DecidableEq, Repr, Inhabited

def Status.final : Status → Bool
  | .succeeded => true
  | .failed => true
  | _ => false

/-- the error *kind* stored in `target.err` / returned by `wait()` -/
inductive Err where
  | none        -- nil
  | unknown     -- LoadTarget failed
  | depFailed   -- a result of EvaluateTargets carried an error (incl. the cyclic-dependency error)
  | body        -- the target's own body failed
deriving DecidableEq, Repr, Inhabited

structure Params where
  deps   : Label → List Label
  known  : Label → Bool
  bodyOk : Label → Bool
  cap    : Nat                 -- runtime.NumCPU(); the theorems assume 1 ≤ cap
  root   : Label

/-- what `EvaluateTargets` returned: `none` = every result carries the cyclic-dependency error
    (`runner.go:155-160`), `some hs` = the errors handed back by `wait()` for each label in order -/
abbrev Results := Option (List Err)

inductive PC where
  | enter1                                   -- goroutine spawned; next `r.gate.enter()`      (blocked iff capacity = 0)
  | load                                     -- holds a slot; next `LoadTarget(label)`
  | evalStart                                -- next `t.target.Evaluate(engine)` up to its `EvaluateTargets` call
  | exit1                                    -- next `gate.exit()` at the top of `EvaluateTargets`
  | startDeps (todo : List Label)            -- next `getTarget(l).start(r)` for the head; `[]`: next `waiting.Swap(&targets)`
  | walk (todo : List Label)                 -- `checkDeps`: head is the next `check(dep)`; `[]`: walk finished, no cycle
  | waitDeps (todo : List Label) (hs : List Err)  -- next `t.wait()` for the head (blocked iff running); `[]`: next `waiting.Swap(nil)`
  | unpubCyc                                 -- cycle found; next the deferred `waiting.Swap(nil)`
  | enter2 (res : Results)                   -- next the deferred `gate.enter()`              (blocked iff capacity = 0)
  | evalRest (res : Results)                 -- holds a slot; rest of `Evaluate`
  | finish (st : Status) (e : Err)           -- next `lock; status, err = st, e; unlock; Broadcast`
  | exit2                                    -- next the deferred `gate.exit()` of `run`
  | wgDone                                   -- next the deferred `r.running.Done()`
  | done
deriving DecidableEq, Repr

inductive MainPC where
  | start                  -- next `r.getTarget(label); t.start(&r)`
  | wait                   -- next `t.wait()`                                               (blocked iff running)
  | waitAll (result : Err) -- next `r.running.Wait()`                                       (blocked iff live ≠ 0)
  | done (result : Err)    -- `Run` returned
deriving DecidableEq, Repr

structure State where
  status   : Label → Status
  err      : Label → Err
  waiting  : Label → Option (List Label)
  capacity : Nat
  registry : List Label            -- labels with a `*target` in `targetMap`, newest first
  pc       : Label → Option PC     -- `none`: no goroutine for this label
  main     : MainPC
  live     : Nat                   -- counter of the WaitGroup `running`
  -- ghost
  loads    : Label → Nat
  evals    : Label → Nat
  holds    : Label → Bool
  cyc      : Label → Bool
  ptime    : Label → Nat
  clock    : Nat
  seen     : Label → List Label
  expd     : Label → List Label
  ftime    : Label → Nat
  fclock   : Nat
  order    : List Label            -- labels in the order their outcome was computed (failed load / rest of `Evaluate`)

def upd {α : Type} (f : Label → α) (l : Label) (v : α) : Label → α := fun x => if x = l then v else f x

@[simp] theorem upd_same {α} (f : Label → α) (l v) : upd f l v l = v := by simp [upd]
@[simp] theorem upd_other {α} (f : Label → α) (l v x) (h : x ≠ l) : upd f l v x = f x := by simp [upd, h]

def init (P : Params) : State where
  status := fun _ => .idle
  err := fun _ => .none
  waiting := fun _ => none
  capacity := P.cap
  registry := []
  pc := fun _ => none
  main := .start
  live := 0
  loads := fun _ => 0
  evals := fun _ => 0
  holds := fun _ => false
  cyc := fun _ => false
  ptime := fun _ => 0
  clock := 0
  seen := fun _ => []
  expd := fun _ => []
  ftime := fun _ => 0
  fclock := 0
  order := []

/-- what `Evaluate` does with the results of its `EvaluateTargets` call (`target.go:55-62` and the body) -/
def localOutcome (res : Results) (bodyOk : Bool) : Status × Err :=
  match res with
  | none => (.failed, .depFailed)
  | some hs =>
    if hs.all (fun e => e == .none) then
      (if bodyOk then (.succeeded, .none) else (.failed, .body))
    else (.failed, .depFailed)

inductive Tid where
  | main
  | tgt (l : Label)
deriving DecidableEq, Repr

/-- `getTarget(d).start(r)`: under `d`'s lock, spawn iff idle and count the goroutine in `running` -/
def startTarget (s : State) (d : Label) : State :=
  if s.status d = .idle then
    { s with status := upd s.status d .running, pc := upd s.pc d (some .enter1),
             registry := d :: s.registry, live := s.live + 1 }
  else s

/-- One step of target thread `l` at program counter `p`; `none` = not enabled (blocked). -/
def stepTgt (P : Params) (s : State) (l : Label) : PC → Option State
  | .enter1 =>
    if s.capacity = 0 then none
    else some { s with capacity := s.capacity - 1, holds := upd s.holds l true, pc := upd s.pc l (some .load) }
  | .load =>
    some { s with loads := upd s.loads l (s.loads l + 1),
                  order := if P.known l then s.order else s.order ++ [l],
                  pc := upd s.pc l (some (if P.known l then .evalStart else .finish .failed .unknown)) }
  | .evalStart =>
    some { s with evals := upd s.evals l (s.evals l + 1), pc := upd s.pc l (some .exit1) }
  | .exit1 =>
    some { s with capacity := s.capacity + 1, holds := upd s.holds l false,
                  pc := upd s.pc l (some (.startDeps (P.deps l))) }
  | .startDeps (d :: rest) =>
    let s1 := startTarget s d
    some { s1 with pc := upd s1.pc l (some (.startDeps rest)) }
  | .startDeps [] =>
    some { s with waiting := upd s.waiting l (some (P.deps l)),
                  ptime := upd s.ptime l s.clock, clock := s.clock + 1,
                  seen := upd s.seen l [], expd := upd s.expd l [],
                  pc := upd s.pc l (some (.walk (P.deps l))) }
  | .walk (d :: rest) =>
    if d = l then
      some { s with pc := upd s.pc l (some .unpubCyc) }
    else match s.waiting d with
      | some ds =>
        some { s with seen := upd s.seen l (d :: s.seen l), expd := upd s.expd l (d :: s.expd l),
                      pc := upd s.pc l (some (.walk (ds ++ rest))) }
      | none =>
        some { s with seen := upd s.seen l (d :: s.seen l), pc := upd s.pc l (some (.walk rest)) }
  | .walk [] =>
    some { s with pc := upd s.pc l (some (.waitDeps (P.deps l) [])) }
  | .waitDeps (d :: rest) hs =>
    if s.status d = .running then none
    else some { s with pc := upd s.pc l (some (.waitDeps rest (hs ++ [s.err d]))) }
  | .waitDeps [] hs =>
    some { s with waiting := upd s.waiting l none, pc := upd s.pc l (some (.enter2 (some hs))) }
  | .unpubCyc =>
    some { s with waiting := upd s.waiting l none, pc := upd s.pc l (some (.enter2 none)) }
  | .enter2 res =>
    if s.capacity = 0 then none
    else some { s with capacity := s.capacity - 1, holds := upd s.holds l true,
                       pc := upd s.pc l (some (.evalRest res)) }
  | .evalRest res =>
    let o := localOutcome res (P.bodyOk l)
    some { s with cyc := upd s.cyc l (s.cyc l || res.isNone), order := s.order ++ [l],
                  pc := upd s.pc l (some (.finish o.1 o.2)) }
  | .finish st e =>
    some { s with status := upd s.status l st, err := upd s.err l e,
                  ftime := upd s.ftime l s.fclock, fclock := s.fclock + 1,
                  pc := upd s.pc l (some .exit2) }
  | .exit2 =>
    some { s with capacity := s.capacity + 1, holds := upd s.holds l false, pc := upd s.pc l (some .wgDone) }
  | .wgDone =>
    some { s with live := s.live - 1, pc := upd s.pc l (some .done) }
  | .done => none

def stepMain (P : Params) (s : State) : MainPC → Option State
  | .start =>
    let s1 := startTarget s P.root
    some { s1 with main := .wait }
  | .wait =>
    if s.status P.root = .running then none
    else some { s with main := .waitAll (s.err P.root) }
  | .waitAll e =>
    if s.live = 0 then some { s with main := .done e } else none
  | .done _ => none

/-- `Run` before the repair of D17: `return t.wait()` -/
def stepMainOld (P : Params) (s : State) : MainPC → Option State
  | .start =>
    let s1 := startTarget s P.root
    some { s1 with main := .wait }
  | .wait =>
    if s.status P.root = .running then none
    else some { s with main := .done (s.err P.root) }
  | _ => none

/-- The transition function: thread `t` takes its next step, `none` when `t` is blocked, finished or absent. -/
def step (P : Params) (s : State) : Tid → Option State
  | .main => stepMain P s s.main
  | .tgt l => match s.pc l with
    | some p => stepTgt P s l p
    | none => none

inductive Reachable (P : Params) : State → Prop where
  | init : Reachable P (init P)
  | step {s s' : State} (t : Tid) : Reachable P s → step P s t = some s' → Reachable P s'

/-- the transition function before the repair of D17 (only `Run` differs) -/
def stepOld (P : Params) (s : State) : Tid → Option State
  | .main => stepMainOld P s s.main
  | .tgt l => step P s (.tgt l)

inductive ReachableOld (P : Params) : State → Prop where
  | init : ReachableOld P (init P)
  | step {s s' : State} (t : Tid) : ReachableOld P s → stepOld P s t = some s' → ReachableOld P s'

/-- run a schedule (a list of thread choices) from a state -/
def runSched (stepf : State → Tid → Option State) : State → List Tid → Option State
  | s, [] => some s
  | s, t :: ts => match stepf s t with
    | some s' => runSched stepf s' ts
    | none => none

/-- threads that exist in `s` -/
def threads (s : State) : List Tid := .main :: s.registry.reverse.map .tgt

def enabled (P : Params) (s : State) : List Tid := (threads s).filter fun t => (step P s t).isSome

/-- `Run` has returned -/
def State.isDone (s : State) : Bool := match s.main with | .done _ => true | _ => false

def State.result (s : State) : Option Err := match s.main with | .done e => some e | _ => none

/-- targets that are executing (being loaded or running their bodies) as opposed to waiting:
    between a `gate.enter` and the next `gate.exit` -/
def PC.executing : PC → Bool
  | .load | .evalStart | .exit1 | .evalRest _ | .finish _ _ | .exit2 => true
  | _ => false

def State.executing (s : State) (l : Label) : Bool :=
  match s.pc l with
  | some p => p.executing
  | none => false

def holders (s : State) : List Label := s.registry.filter fun l => s.holds l
def executingSet (s : State) : List Label := s.registry.filter fun l => s.executing l

/-! ### the gate at the level of `cond.Wait` / `cond.Signal`

`step` lets a thread pass `gate.enter()` whenever a slot is free. The code is one level finer: a thread that finds
`capacity == 0` goes to sleep in `g.cond.Wait()` and stays there until some `gate.exit()` *signals* it; `Signal`
wakes one waiter (Go's `sync.Cond` wakes the longest waiter, has no spurious wake-ups), and the woken thread re-tests
the capacity in the `for` loop. `GState` adds exactly that to a `State`: who sleeps (`asleep`) and in which order they
went to sleep (`gateQ`). Every `gstep` is a `step` of the `core` or leaves the `core` unchanged (going to sleep), so
all safety theorems carry over (`GReachable.core`); deadlock freedom is proved again at this level
(`C05_deadlock_free_signal`), and it is false for a gate that signals only when the first slot becomes free
(`gstepV true`, `C05_signal_only_when_first_slot_frees_counterexample`). -/

def PC.atGate : PC → Bool
  | .enter1 | .enter2 _ => true
  | _ => false

def PC.isExit : PC → Bool
  | .exit1 | .exit2 => true
  | _ => false

structure GState where
  core   : State
  asleep : Label → Bool          -- inside `g.cond.Wait()`, not signalled
  gateQ  : List Label            -- the sleepers, longest waiting first

def ginit (P : Params) : GState := { core := init P, asleep := fun _ => false, gateQ := [] }

/-- `g.cond.Signal()` -/
def gsignal (g : GState) : GState :=
  match g.gateQ with
  | [] => g
  | w :: q => { g with asleep := upd g.asleep w false, gateQ := q }

/-- `onlyFirst = false`: the code (`exit` always signals). `onlyFirst = true`: the variant that signals only when the
    capacity goes from 0 to 1. -/
def gstepV (onlyFirst : Bool) (P : Params) (g : GState) : Tid → Option GState
  | .main => (step P g.core .main).map fun c => { g with core := c }
  | .tgt l =>
    match g.core.pc l with
    | none => none
    | some p =>
      if p.atGate then
        if g.asleep l then none                                             -- sleeping until signalled
        else if g.core.capacity = 0 then                                    -- `for g.capacity == 0 { g.cond.Wait() }`
          some { g with asleep := upd g.asleep l true, gateQ := g.gateQ ++ [l] }
        else (step P g.core (.tgt l)).map fun c => { g with core := c }     -- `g.capacity--`
      else if p.isExit then
        (step P g.core (.tgt l)).map fun c =>
          if onlyFirst && g.core.capacity != 0 then { g with core := c } else gsignal { g with core := c }
      else (step P g.core (.tgt l)).map fun c => { g with core := c }

def gstep (P : Params) (g : GState) (t : Tid) : Option GState := gstepV false P g t

inductive GReachable (P : Params) : GState → Prop where
  | init : GReachable P (ginit P)
  | step {g g' : GState} (t : Tid) : GReachable P g → gstep P g t = some g' → GReachable P g'

/-- reachability under a chosen signalling variant (for the regression witness) -/
inductive GReachableV (onlyFirst : Bool) (P : Params) : GState → Prop where
  | init : GReachableV onlyFirst P (ginit P)
  | step {g g' : GState} (t : Tid) : GReachableV onlyFirst P g → gstepV onlyFirst P g t = some g' →
      GReachableV onlyFirst P g'

def genabled (P : Params) (g : GState) : List Tid := (threads g.core).filter fun t => (gstep P g t).isSome

/-! #### regression variant: `exit` without the gate's mutex

In `gstep` the capacity test and going to sleep are ONE step, because `enter` holds the gate's mutex from the test to
`cond.Wait` (which enqueues the waiter before it releases the mutex) and `exit` takes the same mutex. If `exit` stops
taking the mutex (seeded change: atomic capacity, `Add(1)`; `Signal()` without `Lock`), a release can fall between the
test and the `Wait`: `ustep` splits the sleep into "has seen the gate full" (`deciding`) and "waits", with every other
step as in `gstep`. A `Signal` only reaches threads that already wait. -/

structure UState where
  g        : GState
  deciding : Label → Bool      -- found `capacity == 0`, has not yet called `cond.Wait`

def uinit (P : Params) : UState := { g := ginit P, deciding := fun _ => false }

def ustep (P : Params) (u : UState) : Tid → Option UState
  | .main => (gstep P u.g .main).map fun g' => { u with g := g' }
  | .tgt l =>
    match u.g.core.pc l with
    | some p =>
      if p.atGate && !u.g.asleep l && u.deciding l then
        -- `g.cond.Wait()`: only now does the thread join the waiters
        some { g := { u.g with asleep := upd u.g.asleep l true, gateQ := u.g.gateQ ++ [l] }, deciding := upd u.deciding l false }
      else if p.atGate && !u.g.asleep l && u.g.core.capacity = 0 then
        some { u with deciding := upd u.deciding l true }
      else (gstep P u.g (.tgt l)).map fun g' => { u with g := g' }
    | none => none

def urunSched (P : Params) : UState → List Tid → Option UState
  | u, [] => some u
  | u, t :: ts => match ustep P u t with
    | some u' => urunSched P u' ts
    | none => none

inductive UReachable (P : Params) : UState → Prop where
  | init : UReachable P (uinit P)
  | step {u u' : UState} (t : Tid) : UReachable P u → ustep P u t = some u' → UReachable P u'

/-! ### the status wait at the level of `cond.Wait` / `cond.Broadcast`

`step` lets a dependent pass `t.wait()` whenever the dependency is not running. The code is finer: a waiter that finds
`t.status == statusRunning` goes to sleep in `t.c.Wait()` (test and sleep are one critical section of `t.m`) and moves
again only after `run`'s exit has broadcast on `t.c`; `Broadcast` wakes *all* sleepers of that target, each of which
re-tests the status in its `for` loop. `WState` adds who sleeps in a status wait (`wsleep`, per thread: the target it
sleeps on is the head of its `waitDeps` list, or the requested target for the caller of `Run`) and in which order
(`wq`, used only by the `Signal` variant). Every `wstep` is a `gstep` of the gate-level state or leaves it unchanged.
`WMode` selects the code (`broadcast`) or one of two seeded defects kept as regression witnesses. -/

/-- the target a thread is waiting for in `t.wait()`, if that is where it stands -/
def sleepsOn (P : Params) (s : State) : Tid → Option Label
  | .main => match s.main with
    | .wait => some P.root
    | _ => none
  | .tgt x => match s.pc x with
    | some (.waitDeps (d :: _) _) => some d
    | _ => none

/-- `run`'s exit: the label whose status the thread is about to set, and the error it stores -/
def finishing (s : State) : Tid → Option (Label × Err)
  | .main => none
  | .tgt l => match s.pc l with
    | some (.finish _ e) => some (l, e)
    | _ => none

inductive WMode where
  | broadcast          -- the code: both exits of `run` unlock and `Broadcast`
  | noBroadcastOnLoadFailure   -- seeded defect: the `LoadTarget`-error exit only unlocks
  | signal             -- seeded defect: `Signal` instead of `Broadcast`
deriving DecidableEq, Repr

structure WState where
  g      : GState
  wsleep : Tid → Bool          -- inside `t.c.Wait()`, not woken
  wq     : List Tid            -- the sleepers in the order they went to sleep

def winit (P : Params) : WState := { g := ginit P, wsleep := fun _ => false, wq := [] }

def updT {α : Type} (f : Tid → α) (t : Tid) (v : α) : Tid → α := fun x => if x = t then v else f x

/-- `t.c.Broadcast()` for target `l` -/
def wbroadcast (P : Params) (l : Label) (w : WState) : WState :=
  { w with wsleep := fun x => if sleepsOn P w.g.core x = some l then false else w.wsleep x,
           wq := w.wq.filter fun x => !(sleepsOn P w.g.core x == some l) }

/-- `t.c.Signal()` for target `l`: the longest sleeper on `l` only -/
def wsignal (P : Params) (l : Label) (w : WState) : WState :=
  match w.wq.find? fun x => sleepsOn P w.g.core x == some l with
  | none => w
  | some x => { w with wsleep := updT w.wsleep x false, wq := w.wq.erase x }

def wwake (mode : WMode) (P : Params) (l : Label) (e : Err) (w : WState) : WState :=
  match mode with
  | .broadcast => wbroadcast P l w
  | .noBroadcastOnLoadFailure => if e = .unknown then w else wbroadcast P l w
  | .signal => wsignal P l w

def wstepV (mode : WMode) (P : Params) (w : WState) (t : Tid) : Option WState :=
  match sleepsOn P w.g.core t with
  | some d =>
    if w.wsleep t then none                                              -- sleeping until woken
    else if w.g.core.status d = .running then                            -- `for t.status == statusRunning { t.c.Wait() }`
      some { w with wsleep := updT w.wsleep t true, wq := w.wq ++ [t] }
    else (gstep P w.g t).map fun g' => { w with g := g' }                -- `return t.err`
  | none =>
    match finishing w.g.core t with
    | some (l, e) => (gstep P w.g t).map fun g' => wwake mode P l e { w with g := g' }
    | none => (gstep P w.g t).map fun g' => { w with g := g' }

def wstep (P : Params) (w : WState) (t : Tid) : Option WState := wstepV .broadcast P w t

inductive WReachableV (mode : WMode) (P : Params) : WState → Prop where
  | init : WReachableV mode P (winit P)
  | step {w w' : WState} (t : Tid) : WReachableV mode P w → wstepV mode P w t = some w' → WReachableV mode P w'

abbrev WReachable (P : Params) : WState → Prop := WReachableV .broadcast P

def wrunSched (mode : WMode) (P : Params) : WState → List Tid → Option WState
  | w, [] => some w
  | w, t :: ts => match wstepV mode P w t with
    | some w' => wrunSched mode P w' ts
    | none => none

/-! ### the order of operations the program counters follow (compared with the source by `Dawn/Ties/Runner.lean`) -/

/-- top level of `EvaluateTargets`: `exit1`, (deferred `enter2`), `startDeps`, publish, (deferred un-publish), walk, `waitDeps` -/
def evalOrder : List String :=
  ["gate.exit", "defer(gate.enter)", "range(getTarget,start)", "Swap", "defer(Swap(nil))", "if(checkDeps)", "range(wait)"]

/-- top level of `(*target).run`: (deferred `wgDone`), `enter1`, (deferred `exit2`), `load`, failed load: `finish`,
    `evalStart` … `evalRest`, `finish` = lock, (deferred unlock + broadcast), status assignment -/
def runOrder : List String :=
  ["func(Unlock,Broadcast)", "defer(running.Done)", "gate.enter", "defer(gate.exit)", "LoadTarget",
   "if(Lock,unlock,status=)", "if(Evaluate)", "Lock", "defer(unlock)", "status="]

/-- `Run`: `MainPC.start` (getTarget, start), `wait`, `waitAll` -/
def mainOrder : List String := ["getTarget", "start", "wait", "running.Wait"]

/-- every blocking point and its guard: a blocked step of the model is exactly a `for` loop around `cond.Wait` -/
def waitLoops : List String :=
  ["target.wait:c:for:status==statusRunning", "gate.enter:cond:for:capacity==0", "Run:running:none:"]

/-- The outcome of a finished target as a function of the graph and of its dependencies' outcomes:
    an unknown target fails with the loader's error; a target that was handed the cyclic-dependency error
    fails; otherwise all its dependencies have finished and its outcome is `localOutcome` of theirs. -/
def OutcomeSpec (P : Params) (s : State) (x : Label) (st : Status) (e : Err) : Prop :=
  (P.known x = false ∧ st = .failed ∧ e = .unknown) ∨
  (P.known x = true ∧ s.cyc x = true ∧ st = .failed ∧ e = .depFailed) ∨
  (P.known x = true ∧ s.cyc x = false ∧ (∀ d ∈ P.deps x, (s.status d).final = true) ∧
     (st, e) = localOutcome (some ((P.deps x).map s.err)) (P.bodyOk x))

instance (P : Params) (s : State) (x : Label) (st : Status) (e : Err) : Decidable (OutcomeSpec P s x st e) := by
  unfold OutcomeSpec; infer_instance

end Dawn.Runner

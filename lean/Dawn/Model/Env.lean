/-!
# Model of the function-environment fingerprint (`function.go`, `pickle/encode.go`) — property C08

Core Lean only (this file is linked into the driver executable `drv_env`).

A dawn target is a Starlark function; it is re-run when its *environment* changed. The environment is
computed by pickling the `*starlark.Function` with a host pickler (`envPickler` / `newEnvPickler`) and
is stored as the target's stamp; `upToDate` / `diffEnv` decide from it whether the target is current.

What is modelled, as the Go code is written:

* the **value graph** the encoder walks: a flat heap of objects (no nested inductive). Atoms are inline;
  everything the encoder can memoise or has to descend into is a heap object: tuples (never memoised:
  `reflect.TypeOf(Tuple).Comparable()` is false), lists / dicts / sets (memoised *before* their
  contents; every `Sequence`, `IterableMapping`, `HasAttrs` value is one of these three shapes to the
  encoder), and the host objects of `envPickler`:
  `Target → (label,)`, `Builtin → (name, receiver)`, `FunctionCode → (module, globals, bytecode, signature)`,
  `Function → (defaults, freevars, code)`, the `mandatory` placeholder `→ ()` (memoised *after* their arguments,
  `encodeComplex`). `Cfg` selects the older rules where the tree still has them (`Builtin → ()`, no signature,
  no case for the placeholder).
  The Starlark front end (parser, compiler, `ModuleEnv`, `Env`) is not modelled: the harness reads the
  graph off the real `*starlark.Function` through those APIs and hands it to the model.
* `encVal`: the traversal of `Encoder.encode` / `encodeComplex` at the level of opcodes (`Op`), with the
  encoder's memo (`memo lookup first`), the batches of 1000, and the host pickler. `Cfg.fixed = false` is
  the stateless `envPickler` of the original code (defect D3: a function that reaches itself is walked
  forever); `Cfg.fixed = true` is the per-encoding pickler `newEnvPickler` of the repair: it remembers the
  functions, function codes and builtins it has been asked about, and when the encoder asks about one of
  them again — which it only does for a value it has not finished — answers
  `("dawn", "Recursive", (name, ordinal))`.
* `ser`: opcodes to bytes with the width rules of `encode.go`; `fingerprint` = bytes of the whole walk.
* `equalDepth`: the depth-limited, cycle-unaware comparison `starlark.EqualDepth` that `diffEnv` applies
  to the decoded environments (defect D16), and `diffEnvOld` / `diffEnvFixed`: the decision itself.

Go panics / fatal errors are explicit outcomes: the unbounded recursion of D3 is `Err.outOfFuel` for
every fuel (theorem `C08_recursive_counterexample`), never totalised away.
-/
namespace Dawn.Env

abbrev Bytes := List UInt8

/-- immutable scalar values; the encoder never memoises them -/
inductive Atom where
  | none
  | bool (b : Bool)
  | int (i : Int)
  | float (bits : UInt64)          -- IEEE-754 bits, as `math.Float64bits`
  | str (s : Bytes)                -- UTF-8 bytes of a `starlark.String`
  | bytes (b : Bytes)
deriving DecidableEq, Repr, Inhabited

inductive Val where
  | atom (a : Atom)
  | ref (addr : Nat)
deriving DecidableEq, Repr, Inhabited

inductive Obj where
  | tuple (xs : List Val)
  | list (xs : List Val)
  | dict (kvs : List (Val × Val))
  | set (xs : List Val)
  | target (label : Bytes)                        -- `*function`     → ("dawn","Target",(label,))
  | builtin (name : Bytes) (recv : Val)           -- `*Builtin`      → ("dawn","Builtin",(name, receiver or None))
  | code (name : Bytes) (module globals : Val) (bytecode : Bytes) (sig : Val)
                                                  -- `*FunctionCode` → (module, globals, bytecode, signature)
  | func (name : Bytes) (defaults freevars code : Val)   -- `*Function` → (defaults, freevars, code)
  | mandatory                                     -- placeholder default of a required keyword-only parameter
  | other                                         -- a value no case of the encoder or pickler accepts
deriving DecidableEq, Repr, Inhabited

abbrev Heap := List Obj

/-- abstract opcodes, one per `WriteByte(op…)` (+ argument) of `encode.go` -/
inductive Op where
  | mark | memoize | binget (id : Nat) | stop
  | none | newtrue | newfalse
  | int (i : Int) | float (bits : UInt64) | str (s : Bytes) | bytes (b : Bytes)
  | emptyList | append | appends
  | emptyTuple | tuple1 | tuple2 | tuple3 | tuple
  | emptyDict | setitems | emptySet | additems
  | stackGlobal | newobj
deriving DecidableEq, Repr, Inhabited

inductive Err where
  | outOfFuel        -- the Go recursion does not return (fatal stack overflow in the real process)
  | badRef           -- an address outside the heap: not a Go value graph
  | cannotPickle     -- `panic(failure(fmt.Errorf("cannot pickle value of type %T", x)))`, returned by `Encode`
deriving DecidableEq, Repr, Inhabited

/-- what differs between the code versions the model follows -/
structure Cfg where
  /-- `newEnvPickler` (repair of D3) instead of the stateless `envPickler` -/
  fixed : Bool
  /-- `if !first { e.encode(x) }` before every batch after the first (defect D2 of the codec, area Pickle) -/
  reencode : Bool
  /-- memo ids are the number of MEMOIZE ops written (`e.next`), not `len(e.memo)` -/
  memoCounter : Bool
  /-- builtins are pickled with their name and receiver (repair of D20) instead of `()`; the per-encoding
  pickler then also recognises builtins it is asked about again -/
  builtinIdentity : Bool
  /-- function code is pickled with its signature (repair of D21) -/
  signature : Bool
  /-- the `mandatory` placeholder is pickled (repair of D19) instead of failing with "cannot pickle" -/
  mandatory : Bool
  /-- elements per MARK … APPENDS / SETITEMS / ADDITEMS batch -/
  batch : Nat := 1000
deriving DecidableEq, Repr, Inhabited

/-- the tree as repaired (pickle patches + env patches) -/
def Cfg.current : Cfg :=
  { fixed := true, reencode := false, memoCounter := true, builtinIdentity := true, signature := true, mandatory := true }
/-- the tree as found -/
def Cfg.original : Cfg :=
  { fixed := false, reencode := true, memoCounter := false, builtinIdentity := false, signature := false, mandatory := false }

/-- the strings the host pickler hands to the encoder (tied to `envPickler` / `newEnvPickler` by `Ties/Env.lean`) -/
def hostModuleS : String := "dawn"
def nameTargetS : String := "Target"
def nameBuiltinS : String := "Builtin"
def nameCodeS : String := "FunctionCode"
def nameFuncS : String := "Function"
def nameRecursiveS : String := "Recursive"
def nameMandatoryS : String := "Mandatory"
def hostModule : Bytes := hostModuleS.toUTF8.toList
def nameTarget : Bytes := nameTargetS.toUTF8.toList
def nameBuiltin : Bytes := nameBuiltinS.toUTF8.toList
def nameCode : Bytes := nameCodeS.toUTF8.toList
def nameFunc : Bytes := nameFuncS.toUTF8.toList
def nameRecursive : Bytes := nameRecursiveS.toUTF8.toList
def nameMandatory : Bytes := nameMandatoryS.toUTF8.toList

/-- `functionEnvKeys`: the keys of a decoded environment, in the order `diffEnv` reports them -/
def envKeys : List String :=
  ["names", "constant values", "predeclared values", "universal values", "function values", "global values",
   "default parameter values", "free variables", "parameters", "code"]

structure EncSt where
  /-- `Encoder.memo`: address ↦ id, newest binding first -/
  memo : List (Nat × Nat) := []
  /-- number of distinct keys in `memo` (`len(e.memo)`) -/
  nkeys : Nat := 0
  /-- number of MEMOIZE ops written so far (the decoder's `len(d.memo)`) -/
  nops : Nat := 0
  /-- `seen` of `newEnvPickler`: functions and function codes asked about so far, oldest first -/
  seen : List Nat := []
deriving DecidableEq, Repr, Inhabited

def lookup (m : List (Nat × Nat)) (a : Nat) : Option Nat :=
  match m with
  | [] => none
  | (k, v) :: rest => if k = a then some v else lookup rest a

/-- `Encoder.memoize` for a comparable value -/
def EncSt.memoize (cfg : Cfg) (st : EncSt) (a : Nat) : EncSt :=
  let id := if cfg.memoCounter then st.nops else st.nkeys
  { st with memo := (a, id) :: st.memo,
            nkeys := if (lookup st.memo a).isSome then st.nkeys else st.nkeys + 1,
            nops := st.nops + 1 }

def indexOf (xs : List Nat) (a : Nat) : Option Nat :=
  match xs with
  | [] => none
  | x :: rest => if x = a then some 0 else (indexOf rest a).map (· + 1)

abbrev Res := Except Err (EncSt × List Op)

def encAtom : Atom → List Op
  | .none => [.none]
  | .bool true => [.newtrue]
  | .bool false => [.newfalse]
  | .int i => [.int i]
  | .float b => [.float b]
  | .str s => [.str s]
  | .bytes b => [.bytes b]

/-- encode the values of a list one after the other, threading the encoder state -/
def encSeq (f : EncSt → Val → Res) : EncSt → List Val → Res
  | st, [] => .ok (st, [])
  | st, x :: xs =>
    match f st x with
    | .error e => .error e
    | .ok (st1, ops1) =>
      match encSeq f st1 xs with
      | .error e => .error e
      | .ok (st2, ops2) => .ok (st2, ops1 ++ ops2)

/-- split into consecutive batches of at most `n` (`n ≥ 1`) -/
def chunks (n : Nat) (xs : List α) : List (List α) :=
  if _h : n = 0 ∨ xs = [] then [] else
    xs.take n :: chunks n (xs.drop n)
termination_by xs.length
decreasing_by
  have h1 : n ≠ 0 := fun e => _h (Or.inl e)
  have h2 : xs ≠ [] := fun e => _h (Or.inr e)
  have : 0 < xs.length := List.length_pos_iff.mpr h2
  simp [List.length_drop]; omega

/-- the batch loop: `[BINGET self]? MARK elems… <close>` for every batch -/
def encBatches (cfg : Cfg) (f : EncSt → Val → Res) (self : Nat) (close : Op) :
    Bool → EncSt → List (List Val) → Res
  | _, st, [] => .ok (st, [])
  | first, st, b :: bs =>
    -- `if !first { e.encode(x) }`: the container is memoised, so this is a BINGET
    let pre : List Op := if first || !cfg.reencode then [] else
      match lookup st.memo self with
      | some id => [.binget id]
      | none => []
    match encSeq f st b with
    | .error e => .error e
    | .ok (st1, ops1) =>
      match encBatches cfg f self close false st1 bs with
      | .error e => .error e
      | .ok (st2, ops2) => .ok (st2, pre ++ [.mark] ++ ops1 ++ [close] ++ ops2)

def flattenKvs : List (Val × Val) → List Val
  | [] => []
  | (k, v) :: rest => k :: v :: flattenKvs rest

/-- `STACK_GLOBAL` header of a host object -/
def hostHeader (name : Bytes) : List Op := [.str hostModule, .str name, .stackGlobal]

/-- `Encoder.encode` followed into `encodeComplex`. Fuel stands for the Go call stack. -/
def encVal (cfg : Cfg) (g : Heap) : Nat → EncSt → Val → Res
  | _, st, .atom a => .ok (st, encAtom a)
  | 0, _, .ref _ => .error .outOfFuel
  | fuel+1, st, .ref a =>
    -- "If we've memoized this object, emit a BINGET."
    match lookup st.memo a with
    | some id => .ok (st, [.binget id])
    | none =>
      match g[a]? with
      | none => .error .badRef
      | some (.tuple xs) =>
        match encSeq (encVal cfg g fuel) st xs with
        | .error e => .error e
        | .ok (st', ops) =>
          .ok (st', match xs.length with
            | 0 => [.emptyTuple]
            | 1 => ops ++ [.tuple1]
            | 2 => ops ++ [.tuple2]
            | 3 => ops ++ [.tuple3]
            | _ => [.mark] ++ ops ++ [.tuple])
      | some (.set xs) =>
        match encBatches cfg (encVal cfg g fuel) a .additems true (st.memoize cfg a) (chunks cfg.batch xs) with
        | .error e => .error e
        | .ok (st', ops) => .ok (st', [.emptySet, .memoize] ++ ops)
      | some (.dict kvs) =>
        match encBatches cfg (encVal cfg g fuel) a .setitems true (st.memoize cfg a)
            ((chunks cfg.batch kvs).map flattenKvs) with
        | .error e => .error e
        | .ok (st', ops) => .ok (st', [.emptyDict, .memoize] ++ ops)
      | some (.list xs) =>
        match xs with
        | [] => .ok (st.memoize cfg a, [.emptyList, .memoize])
        | [x] =>
          match encVal cfg g fuel (st.memoize cfg a) x with
          | .error e => .error e
          | .ok (st', ops) => .ok (st', [.emptyList, .memoize] ++ ops ++ [.append])
        | _ =>
          match encBatches cfg (encVal cfg g fuel) a .appends true (st.memoize cfg a) (chunks cfg.batch xs) with
          | .error e => .error e
          | .ok (st', ops) => .ok (st', [.emptyList, .memoize] ++ ops)
      | some (.target label) =>
        .ok (st.memoize cfg a, hostHeader nameTarget ++ [.str label, .tuple1, .newobj, .memoize])
      | some (.builtin name recv) =>
        if cfg.builtinIdentity then
          match (if cfg.fixed then indexOf st.seen a else none) with
          | some idx =>
            .ok (st.memoize cfg a, hostHeader nameRecursive ++ [.str name, .int idx, .tuple2, .newobj, .memoize])
          | none =>
            let st0 := if cfg.fixed then { st with seen := st.seen ++ [a] } else st
            match encVal cfg g fuel st0 recv with
            | .error e => .error e
            | .ok (st', ops) =>
              .ok (st'.memoize cfg a, hostHeader nameBuiltin ++ [.str name] ++ ops ++ [.tuple2, .newobj, .memoize])
        else
          .ok (st.memoize cfg a, hostHeader nameBuiltin ++ [.emptyTuple, .newobj, .memoize])
      | some .mandatory =>
        if cfg.mandatory then
          .ok (st.memoize cfg a, hostHeader nameMandatory ++ [.emptyTuple, .newobj, .memoize])
        else .error .cannotPickle
      | some .other => .error .cannotPickle
      | some (.code name m gl bc sig) =>
        match (if cfg.fixed then indexOf st.seen a else none) with
        | some idx =>
          .ok (st.memoize cfg a, hostHeader nameRecursive ++ [.str name, .int idx, .tuple2, .newobj, .memoize])
        | none =>
          let st0 := if cfg.fixed then { st with seen := st.seen ++ [a] } else st
          match encSeq (encVal cfg g fuel) st0 [m, gl] with
          | .error e => .error e
          | .ok (st1, ops1) =>
            if cfg.signature then
              match encVal cfg g fuel st1 sig with
              | .error e => .error e
              | .ok (st', ops2) =>
                .ok (st'.memoize cfg a,
                     hostHeader nameCode ++ [.mark] ++ ops1 ++ [.bytes bc] ++ ops2 ++ [.tuple, .newobj, .memoize])
            else
              .ok (st1.memoize cfg a, hostHeader nameCode ++ ops1 ++ [.bytes bc, .tuple3, .newobj, .memoize])
      | some (.func name d fv c) =>
        match (if cfg.fixed then indexOf st.seen a else none) with
        | some idx =>
          .ok (st.memoize cfg a, hostHeader nameRecursive ++ [.str name, .int idx, .tuple2, .newobj, .memoize])
        | none =>
          let st0 := if cfg.fixed then { st with seen := st.seen ++ [a] } else st
          match encSeq (encVal cfg g fuel) st0 [d, fv, c] with
          | .error e => .error e
          | .ok (st', ops) =>
            .ok (st'.memoize cfg a, hostHeader nameFunc ++ ops ++ [.tuple3, .newobj, .memoize])

/-- fuel that always suffices for the repaired traversal (theorem `C08_terminates`) -/
def fuelBound (g : Heap) : Nat := (2 * g.length + 1) * (g.length + 1) + 1

/-- `Encoder.Encode`: the walk from the root, then STOP -/
def encodeOps (cfg : Cfg) (g : Heap) (fuel : Nat) (root : Val) : Except Err (List Op) :=
  match encVal cfg g fuel {} root with
  | .error e => .error e
  | .ok (_, ops) => .ok (ops ++ [.stop])

/-! ## opcodes to bytes (`encode.go`: `encodeString`, the `Int` case, BINGET / LONG_BINGET) -/

def le32 (n : Nat) : Bytes :=
  [UInt8.ofNat (n % 256), UInt8.ofNat (n / 256 % 256), UInt8.ofNat (n / 65536 % 256), UInt8.ofNat (n / 16777216 % 256)]

def le64 (n : Nat) : Bytes := le32 (n % 4294967296) ++ le32 (n / 4294967296)

/-- the opcode bytes of `pickle/opcodes.go` that the encoder uses (tied to the source by `Ties/Env.lean`) -/
structure Opcodes where
  mark : UInt8 := 0x28
  stop : UInt8 := 0x2e
  int : UInt8 := 0x49
  binint : UInt8 := 0x4a
  binint1 : UInt8 := 0x4b
  binint2 : UInt8 := 0x4d
  none : UInt8 := 0x4e
  binunicode : UInt8 := 0x58
  append : UInt8 := 0x61
  emptyDict : UInt8 := 0x7d
  appends : UInt8 := 0x65
  binget : UInt8 := 0x68
  longBinget : UInt8 := 0x6a
  emptyList : UInt8 := 0x5d
  tuple : UInt8 := 0x74
  emptyTuple : UInt8 := 0x29
  setitems : UInt8 := 0x75
  binfloat : UInt8 := 0x47
  newobj : UInt8 := 0x81
  tuple1 : UInt8 := 0x85
  tuple2 : UInt8 := 0x86
  tuple3 : UInt8 := 0x87
  newtrue : UInt8 := 0x88
  newfalse : UInt8 := 0x89
  binbytes : UInt8 := 0x42
  shortBinbytes : UInt8 := 0x43
  shortBinunicode : UInt8 := 0x8c
  emptySet : UInt8 := 0x8f
  additems : UInt8 := 0x90
  stackGlobal : UInt8 := 0x93
  memoize : UInt8 := 0x94
deriving DecidableEq, Repr

def opc : Opcodes := {}

/-- the opcode bytes in the order in which the extractor lists them -/
def opcodeList : List Nat :=
  [opc.mark, opc.stop, opc.int, opc.binint, opc.binint1, opc.binint2, opc.none, opc.binunicode, opc.append, opc.emptyDict,
   opc.appends, opc.binget, opc.longBinget, opc.emptyList, opc.tuple, opc.emptyTuple, opc.setitems, opc.binfloat, opc.newobj,
   opc.tuple1, opc.tuple2, opc.tuple3, opc.newtrue, opc.newfalse, opc.binbytes, opc.shortBinbytes, opc.shortBinunicode,
   opc.emptySet, opc.additems, opc.stackGlobal, opc.memoize].map UInt8.toNat

def serString (short long : UInt8) (s : Bytes) : Bytes :=
  if s.length < 256 then short :: UInt8.ofNat s.length :: s
  else long :: (le32 s.length ++ s)

def digitsAux : Nat → Nat → List Nat
  | 0, _ => []
  | fuel + 1, n => if n < 10 then [n] else digitsAux fuel (n / 10) ++ [n % 10]

/-- decimal digits, most significant first -/
def natText (n : Nat) : Bytes := (digitsAux (n + 1) n).map fun d => UInt8.ofNat (48 + d)

/-- decimal text of an integer, as `big.Int.MarshalText` -/
def decimal : Int → Bytes
  | .ofNat n => natText n
  | .negSucc n => 0x2d :: natText (n + 1)

def ser : Op → Bytes
  | .mark => [opc.mark]
  | .memoize => [opc.memoize]
  | .binget id => if id < 256 then [opc.binget, UInt8.ofNat id] else opc.longBinget :: le32 id
  | .stop => [opc.stop]
  | .none => [opc.none]
  | .newtrue => [opc.newtrue]
  | .newfalse => [opc.newfalse]
  | .int i =>
    if i < -2147483648 ∨ i > 2147483647 then opc.int :: (decimal i ++ [10])
    else if 0 ≤ i ∧ i < 256 then [opc.binint1, UInt8.ofNat i.toNat]
    else if 0 ≤ i ∧ i < 65536 then [opc.binint2, UInt8.ofNat (i.toNat % 256), UInt8.ofNat (i.toNat / 256)]
    else opc.binint :: le32 ((i % 4294967296).toNat)
  | .float b => opc.binfloat :: le64 b.toNat
  | .str s => serString opc.shortBinunicode opc.binunicode s
  | .bytes b => serString opc.shortBinbytes opc.binbytes b
  | .emptyList => [opc.emptyList]
  | .append => [opc.append]
  | .appends => [opc.appends]
  | .emptyTuple => [opc.emptyTuple]
  | .tuple1 => [opc.tuple1]
  | .tuple2 => [opc.tuple2]
  | .tuple3 => [opc.tuple3]
  | .tuple => [opc.tuple]
  | .emptyDict => [opc.emptyDict]
  | .setitems => [opc.setitems]
  | .emptySet => [opc.emptySet]
  | .additems => [opc.additems]
  | .stackGlobal => [opc.stackGlobal]
  | .newobj => [opc.newobj]

def serAll (ops : List Op) : Bytes := ops.flatMap ser

/-- the stamp of a function target: the bytes `pickle.NewEncoder(buf, newEnvPickler()).Encode(f)` writes -/
def fingerprint (cfg : Cfg) (g : Heap) (root : Val) : Except Err Bytes :=
  (encodeOps cfg g (fuelBound g) root).map serAll

/-! ## `starlark.EqualDepth` on decoded environments, and the up-to-date decision -/

inductive CmpErr where
  | depthExceeded     -- "comparison exceeded maximum recursion depth"
deriving DecidableEq, Repr

def isNaN (b : UInt64) : Bool := (b.toNat / 4503599627370496) % 2048 == 2047 && b.toNat % 4503599627370496 != 0
def isZeroF (b : UInt64) : Bool := b.toNat % 9223372036854775808 == 0

/-- `floatCmp x y == 0`: numerically equal (so `0.0 == -0.0`), and in this fork NaN equals NaN -/
def floatEq (x y : UInt64) : Bool :=
  if isNaN x || isNaN y then isNaN x && isNaN y
  else if isZeroF x && isZeroF y then true
  else x == y

/-- `x == y` for an `Int` and a `Float` (`x.rational().Cmp(y.rational()) == 0`): the float is finite and
its exact value is the integer -/
def intEqFloat (i : Int) (b : UInt64) : Bool :=
  let n := b.toNat
  let neg := n / 9223372036854775808 == 1
  let e := (n / 4503599627370496) % 2048
  let m := n % 4503599627370496
  if e == 2047 then false
  else
    -- value = (-1)^s * mant * 2^(ex - 1075), mant = m (+ 2^52 when normal), ex = max e 1
    let mant : Nat := if e == 0 then m else m + 4503599627370496
    let ex : Nat := if e == 0 then 1 else e
    let mag : Nat := i.natAbs
    let signOk := mant == 0 || (neg == decide (i < 0))
    if mant == 0 then mag == 0
    else signOk && (if ex ≥ 1075 then mag == mant * 2 ^ (ex - 1075) else mag * 2 ^ (1075 - ex) == mant)

/-- `CompareDepth(EQL, x, y)` on two atoms (`sameType`, then `CompareSameType`; Int/Float cross-type rule) -/
def atomEq : Atom → Atom → Bool
  | .none, .none => true
  | .bool a, .bool b => a == b
  | .int a, .int b => a == b
  | .float a, .float b => floatEq a b
  | .int a, .float b => intEqFloat a b
  | .float a, .int b => intEqFloat b a
  | .str a, .str b => a == b
  | .bytes a, .bytes b => a == b
  | _, _ => false

/-- hashable keys are compared with `Equal` by the hash table; the model covers atom keys and keys that
are the same heap tuple (the generator uses no other keys) -/
def keyEq : Val → Val → Bool
  | .atom a, .atom b => atomEq a b
  | .ref a, .ref b => a == b
  | _, _ => false

def findKey (k : Val) : List (Val × Val) → Option Val
  | [] => none
  | (k', v) :: rest => if keyEq k k' then some v else findKey k rest

abbrev CmpRes := Except CmpErr Bool

/-- `sliceCompare(EQL, …)`: lengths first, then the first unequal element decides -/
def cmpSeq (f : Val → Val → CmpRes) : List Val → List Val → CmpRes
  | [], [] => .ok true
  | x :: xs, y :: ys =>
    match f x y with
    | .error e => .error e
    | .ok false => .ok false
    | .ok true => cmpSeq f xs ys
  | _, _ => .ok false

/-- `dictsEqual`: every entry of `x` is found in `y` with an equal value -/
def cmpDict (f : Val → Val → CmpRes) (ys : List (Val × Val)) : List (Val × Val) → CmpRes
  | [] => .ok true
  | (k, xv) :: rest =>
    match findKey k ys with
    | none => .ok false
    | some yv =>
      match f xv yv with
      | .error e => .error e
      | .ok false => .ok false
      | .ok true => cmpDict f ys rest

/-- `starlark.EqualDepth(x, y, depth)`; `x` lives in heap `g`, `y` in heap `h`. The recursion is the Go
recursion: `depth` is Go's own parameter, there is no other fuel. Host objects do not occur in decoded
environments; two of them compare by identity (address). -/
def equalDepth (g h : Heap) : Nat → Val → Val → CmpRes
  | 0, _, _ => .error .depthExceeded            -- `if depth < 1 { return false, fmt.Errorf(…) }`
  | depth+1, x, y =>
    match x, y with
    | .atom a, .atom b => .ok (atomEq a b)
    | .ref a, .ref b =>
      match g[a]?, h[b]? with
      | some (.tuple xs), some (.tuple ys) =>
        if xs.length ≠ ys.length then .ok false else cmpSeq (equalDepth g h depth) xs ys
      | some (.list xs), some (.list ys) =>
        if xs.length ≠ ys.length then .ok false else cmpSeq (equalDepth g h depth) xs ys
      | some (.dict xs), some (.dict ys) =>
        if xs.length ≠ ys.length then .ok false else cmpDict (equalDepth g h depth) ys xs
      | some (.set xs), some (.set ys) =>
        if xs.length ≠ ys.length then .ok false else .ok (xs.all fun k => ys.any fun k' => keyEq k k')
      | some _, some _ => .ok (a == b && g[a]? == h[b]?)
      | _, _ => .ok false
    | _, _ => .ok false

/-- the limit `diffEnv` passes to `EqualDepth` and `DiffDepth` (tied to the source) -/
def compareLimit : Nat := 1000

inductive Decision where
  | upToDate
  | rerun (reason : String)
  | buildError (msg : String)
deriving DecidableEq, Repr

/-- a stored or fresh environment: the encoding (the stamp) and its decoding as a value in a heap -/
structure EnvRec where
  data : Bytes
  heap : Heap
  root : Val
deriving Repr

/-- `diffEnv` as found: structural comparison of the decoded environments, a comparison error is a build error -/
def diffEnvOld (old : Option EnvRec) (new : EnvRec) : Decision :=
  match old with
  | none => .rerun "target has never been run"
  | some o =>
    match equalDepth o.heap new.heap compareLimit o.root new.root with
    | .error _ => .buildError "comparing function environments: comparison exceeded maximum recursion depth"
    | .ok true => .upToDate
    | .ok false => .rerun "changed"

/-- `diffEnv` after the repair of D16 only: equal encodings are up to date without any structural comparison, a
comparison that exceeds the depth limit means that the environment changed — but differing encodings whose
decodings compare equal were still "up to date" (defect D25) -/
def diffEnvD16 (old : Option EnvRec) (new : EnvRec) : Decision :=
  match old with
  | none => .rerun "target has never been run"
  | some o =>
    if o.data = new.data then .upToDate else
    match equalDepth o.heap new.heap compareLimit o.root new.root with
    | .error _ => .rerun "environment changed"
    | .ok true => .upToDate
    | .ok false => .rerun "changed"

/-- `diffEnv` as repaired (D16 and D25): up to date exactly when the encodings are equal; the structural
comparison only chooses the reason that is reported -/
def diffEnvFixed (old : Option EnvRec) (new : EnvRec) : Decision :=
  match old with
  | none => .rerun "target has never been run"
  | some o =>
    if o.data = new.data then .upToDate else
    match equalDepth o.heap new.heap compareLimit o.root new.root with
    | .error _ => .rerun "environment changed"
    | .ok true => .rerun "environment changed"
    | .ok false => .rerun "changed"

/-! ## the reason `diffEnv` reports -/

def joinWith (sep : String) : List String → String
  | [] => ""
  | [a] => a
  | a :: rest => a ++ sep ++ joinWith sep rest

/-- the `switch len(reasons)` at the end of `diffEnv`, as repaired (D28): when the environments differ but in no part
listed in `functionEnvKeys` (a record of another version, a damaged record) the reason is generic -/
def joinReason : List String → String
  | [] => "environment changed"
  | [a] => a ++ " changed"
  | [a, b] => a ++ " and " ++ b ++ " changed"
  | rs => joinWith ", " rs.dropLast ++ ", and " ++ rs.getLast! ++ " changed"

/-- the same switch before the repair: no case for the empty list, and `reasons[:len(reasons)-1]` with
`len(reasons) = 0` is a Go runtime panic ("slice bounds out of range [:-1]") on a runner goroutine -/
def joinReasonOld : List String → Option String
  | [] => none
  | rs => some (joinReason rs)

/-- the parts named for a diff whose top-level keys are `diffKeys`: `for _, k := range functionEnvKeys { if md.Has(k) … }` -/
def reasonFor (diffKeys : List String) : String := joinReason (envKeys.filter (diffKeys.contains ·))
def reasonForOld (diffKeys : List String) : Option String := joinReasonOld (envKeys.filter (diffKeys.contains ·))

end Dawn.Env

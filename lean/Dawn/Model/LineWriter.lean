/-!
# Model of `lineWriter.go` and of the event emissions of `runTarget.Evaluate` / `Project.Run` — property C18

Core Lean only (this file is linked into the driver executable).

Two independent parts.

* `Dawn.LineWriter`: the `lineWriter` that turns the byte chunks a target body writes into `Print` events,
  one per line. The state is the content of the `strings.Builder` (`line`); `write` is the loop of
  `(*lineWriter).Write`, `flush` is `(*lineWriter).Flush`. `flushOld` is `Flush` as it was before the repair of
  D10 (it did not `Reset` the builder).
* `Dawn.Events`: what `runTarget.Evaluate` (target.go) reports for one target, as a function of the facts
  that decide its control flow, and the tail of `Project.Run` (project.go).
-/
namespace Dawn.LineWriter

abbrev Bytes := List UInt8

/-- `'\n'` -/
def nl : UInt8 := 10

/-- `bytes.IndexByte(b, '\n')` together with the two slices the loop takes from it:
`none` when there is no newline, otherwise `(b[:newline], b[newline+1:])`. -/
def cutNL : Bytes → Option (Bytes × Bytes)
  | [] => none
  | c :: t =>
    if c = nl then some ([], t)
    else match cutNL t with
      | none => none
      | some (pre, rest) => some (c :: pre, rest)

theorem cutNL_length {b pre rest : Bytes} (h : cutNL b = some (pre, rest)) : rest.length < b.length := by
  induction b generalizing pre rest with
  | nil => simp [cutNL] at h
  | cons c t ih =>
    simp only [cutNL] at h
    split at h
    · cases h; simp
    · split at h
      · cases h
      · rename_i pre' rest' h'
        cases h
        have := ih h'
        simp only [List.length_cons]; omega

/-- `(*lineWriter).Write`: the loop `for len(b) > 0`. Returns the builder's new content and the lines handed
to `events.Print`, in order. (The byte count `w` the Go function returns is always `len(b)`; the harness
checks that on the real code.) -/
def write (line : Bytes) (b : Bytes) : Bytes × List Bytes :=
  if b.length > 0 then
    match h : cutNL b with
    | none => (line ++ b, [])                               -- newline == -1: l.line.Write(b); break
    | some (pre, rest) =>
      have : rest.length < b.length := cutNL_length h
      if line.length = 0 then
        let r := write line rest                            -- Print(string(b[:newline])); builder untouched
        (r.1, pre :: r.2)
      else
        let r := write [] rest                              -- Write(b[:newline]); Print(line.String()); Reset()
        (r.1, (line ++ pre) :: r.2)
  else (line, [])
termination_by b.length

/-- `(*lineWriter).Flush` (after the repair of D10): prints the pending partial line and resets the builder. -/
def flush (line : Bytes) : Bytes × List Bytes :=
  if line.length ≠ 0 then ([], [line]) else (line, [])

/-- `Flush` before the repair of D10: prints the pending partial line and keeps it in the builder. -/
def flushOld (line : Bytes) : Bytes × List Bytes :=
  if line.length ≠ 0 then (line, [line]) else (line, [])

/-- what a client does with a writer -/
inductive Op where
  | write (b : Bytes)
  | flush
deriving DecidableEq, Repr

/-- run a sequence of calls on a writer whose builder holds `line`; `fl` is the `Flush` in use -/
def runWith (fl : Bytes → Bytes × List Bytes) (line : Bytes) : List Op → Bytes × List Bytes
  | [] => (line, [])
  | .write b :: ops =>
    let r := write line b
    let r' := runWith fl r.1 ops
    (r'.1, r.2 ++ r'.2)
  | .flush :: ops =>
    let r := fl line
    let r' := runWith fl r.1 ops
    (r'.1, r.2 ++ r'.2)

def run : Bytes → List Op → Bytes × List Bytes := runWith flush
def runOld : Bytes → List Op → Bytes × List Bytes := runWith flushOld

/-- Specification, written independently of the writer: the lines of a text whose pending partial line is
`cur`. Every `'\n'` ends a line; a final piece without a newline is a line iff it is not empty. -/
def linesFrom (cur : Bytes) : Bytes → List Bytes
  | [] => if cur = [] then [] else [cur]
  | c :: t => if c = nl then cur :: linesFrom [] t else linesFrom (cur ++ [c]) t

/-- the lines of a complete output -/
def splitLines (s : Bytes) : List Bytes := linesFrom [] s

end Dawn.LineWriter

namespace Dawn.Events

/-- what `engine.EvaluateTargets` handed back for one dependency, by the classes `Evaluate` distinguishes -/
inductive Dep where
  | ok
  | missing      -- `UnknownTargetError`
  | cyclic       -- `runner.CyclicDependencyError`
  | other        -- any other error (the dependency, or something below it, failed)
deriving DecidableEq, Repr

/-- the target events of the `Events` interface -/
inductive Ev where
  | upToDate
  | evaluating
  | succeeded
  | failed
deriving DecidableEq, Repr

/-- the strings `runEvents` (events.go) reports as `kind` to `run(callback=…)` consumers, and `RunDone`, `Print` -/
def Ev.kind : Ev → String
  | .upToDate => "TargetUpToDate"
  | .evaluating => "TargetEvaluating"
  | .succeeded => "TargetSucceeded"
  | .failed => "TargetFailed"

def runDoneKind : String := "RunDone"
def printKind : String := "Print"

/-- The facts that decide the control flow of `runTarget.Evaluate`, in the order the code consults them. -/
structure Facts where
  /-- results of `engine.EvaluateTargets(deps...)`, in dependency order -/
  deps : List Dep
  /-- `t.target.upToDate()` returned an error -/
  upToDateErr : Bool
  /-- `proj.always` -/
  always : Bool
  /-- `depsUpToDate` after the dependency loop -/
  depsUpToDate : Bool
  /-- first result of `t.target.upToDate()` -/
  upToDate : Bool
  /-- `info.Rerun` -/
  rerun : Bool
  /-- `proj.dryrun` -/
  dryRun : Bool
  /-- `IsTarget(label)`: a function target (not a source file) -/
  isTarget : Bool
  /-- the in-progress record (`Rerun = true`) written by `proj.saveTargetInfo` before the body of a function
  target runs was written without error -/
  preSaveOk : Bool
  /-- `t.target.evaluate()` returned no error -/
  bodyOk : Bool
  /-- `proj.saveTargetInfo` after a successful body returned no error -/
  saveOk : Bool
deriving DecidableEq, Repr

/-- the dependency loop: the first failed dependency ends `Evaluate`; only a missing or cyclic one is reported -/
def depLoop : List Dep → Option (List Ev)
  | [] => none                              -- loop ran to completion
  | .ok :: ds => depLoop ds
  | .missing :: _ => some [.failed]         -- case UnknownTargetError: TargetFailed(label, "missing dependency: …")
  | .cyclic :: _ => some [.failed]          -- case runner.CyclicDependencyError: TargetFailed(label, err)
  | .other :: _ => some []                  -- no case: nothing is reported

/-- the test `!proj.always && depsUpToDate && upToDate && !info.Rerun` -/
def Facts.skip (f : Facts) : Bool := !f.always && f.depsUpToDate && f.upToDate && !f.rerun

/-- `runTarget.Evaluate`: the events it emits for its own label and whether it returns an error. -/
def evaluate (f : Facts) : List Ev × Bool :=
  match depLoop f.deps with
  | some evs => (evs, true)                                   -- return fmt.Errorf("dependency %v failed", …)
  | none =>
    if f.upToDateErr then ([.failed], true)                   -- TargetFailed(label, err); return err
    else if f.skip then ([.upToDate], false)                  -- TargetUpToDate(label); return nil
    else if f.dryRun then ([.evaluating, .succeeded], false)  -- TargetEvaluating; TargetSucceeded(label, true)
    else if f.isTarget && !f.preSaveOk then ([.evaluating, .failed], true)  -- the in-progress record cannot be written
    else if !f.bodyOk then ([.evaluating, .failed], true)     -- TargetEvaluating; evaluate() fails; TargetFailed
    else if !f.saveOk then ([.evaluating, .failed], true)     -- saveTargetInfo fails; TargetFailed
    else ([.evaluating, .succeeded], false)                   -- TargetSucceeded(label, changed)

/-- the body (`t.target.evaluate()`) is called -/
def bodyRuns (f : Facts) : Bool :=
  (depLoop f.deps).isNone && !f.upToDateErr && !f.skip && !f.dryRun && !(f.isTarget && !f.preSaveOk)

/-- the decision to run the body has been taken: it is called, or would be if this were not a dry run (and, for
a function target, if the in-progress record can be written) -/
def bodyWouldRun (f : Facts) : Bool :=
  (depLoop f.deps).isNone && !f.upToDateErr && !f.skip

/-- a target's own events and the lines of its output, in the order they are delivered -/
inductive Out where
  | ev (e : Ev)
  | print (line : List UInt8)
deriving DecidableEq, Repr

/-- `runTarget.Evaluate` together with the output of the body. `t.target.evaluate()` (function.go) runs the
body with the target's line writer as stdout and stderr of its thread (`util.SetStdio(thread, f.out, f.out)`)
and flushes the writer before it returns (`defer f.out.Flush()`), so everything the body writes is delivered
between `TargetEvaluating` and the event that ends the target. `line` is the content of the writer's builder
when the build starts; the third component is its content afterwards. -/
def evaluateOut (f : Facts) (line : List UInt8) (chunks : List (List UInt8)) : List Out × Bool × List UInt8 :=
  let r := evaluate f
  if bodyRuns f then
    let w := LineWriter.run line (chunks.map LineWriter.Op.write ++ [LineWriter.Op.flush])
    ([Out.ev .evaluating] ++ w.2.map Out.print ++ (r.1.drop 1).map Out.ev, r.2, w.1)
  else (r.1.map Out.ev, r.2, line)

/-- how a dependent sees a dependency that was loaded and evaluated with result `r` (`none`: `LoadTarget` failed
with `UnknownTargetError`). A cycle is reported by the runner's walk, not by the dependency: `cyc`. -/
def depOf (cyc : Bool) (r : Option (List Ev × Bool)) : Dep :=
  if cyc then .cyclic else
  match r with
  | none => .missing
  | some (_, true) => .other
  | some (_, false) => .ok

/-- events of a whole run as `Project.Run` delivers them -/
inductive RunEv (L : Type) where
  | target (l : L) (e : Ev)
  | print (l : L) (line : List UInt8)
  | runDone (err : Bool)
deriving DecidableEq, Repr

/-- `Project.Run`: `err := runner.Run(proj, label)`, then `proj.events.RunDone(err)`, `return err`.
`body` stands for `runner.Run`: the events delivered while it runs, and the requested target's result. -/
def projectRun {L : Type} (body : List (RunEv L) × Bool) : List (RunEv L) × Bool :=
  (body.1 ++ [.runDone body.2], body.2)

end Dawn.Events

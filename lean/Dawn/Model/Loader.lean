/-!
# Model of module loading — `Project.loadModule`, `(*module).{setLoading,getLoading,wait,done,load}` — property C06

An interleaving transition system over a *load graph*: `loads m` is the list of `load(…)` targets of module `m`
in source order; `roots` are the `BUILD.dawn` files, one loader goroutine (thread) each (`Project.loadPackage`).
A thread executes a stack of modules (`Frame`s): the body of the top frame runs its `load`s one after the other on
the loading thread; a `load` is `proj.loadModule(top, d)`:

```
loadModule(waiter, d):  proj.m.Lock(); m, ok := proj.modules[d]                       call d
   found:  proj.m.Unlock(); waiter.setLoading(m); defer waiter.setLoading(nil)        setFound d   (skipped: waiter == nil)
           return m.wait(waiter)                                                      enter d … (below)
   new:    proj.modules[d] = m; proj.m.Unlock(); waiter.setLoading(m); defer …        setNew d
           return m.load(proj)                                                        load d: ModuleLoading, push frame d, run
           … body done / a load failed: m.done(…)                                     fin r: loaded := true (+Broadcast), pop
           deferred waiter.setLoading(nil), result handed to the waiter               unset r
```
`wait` exists in two versions.

*As written* (`Version.asWritten`, module.go before the repair of D4):
```
   m.m.Lock(); defer m.m.Unlock()                         enter d  (takes d.m and KEEPS it)
   if waiter != nil { loading := m.loading                          → walk d (loading d)
     for loading != nil { if loading == waiter { return cyclic }    walk d (some c): c = top → unset cyc
                          loading = m.getLoading() } }              otherwise: locks m.m, which this thread holds → never enabled
   for !m.loaded { m.cond.Wait() }                        check d → sleep d (lock released) | unset
```
*Fixed* (`Version.fixed`): the walk reads each module's `loading` under that module's own lock and `m.m` is taken only
for the condition wait:
```
   if waiter != nil { loading := m.getLoading()           enter d → walk d (loading d)
     for loading != nil { if loading == waiter { return cyclic }    walk d (some c): c = top → unset cyc
                          loading = loading.getLoading() } }        otherwise → walk d (loading c)
   m.m.Lock(); defer m.m.Unlock(); for !m.loaded { Wait }  wlock d → sleep d | unset
```
A module whose environment cannot be set up (`P.broken`: `m.env` fails in `module.load`, e.g. the module's project is not in
the build list) executes nothing. *As written* `load` then returns the error without `m.done(…)` — the module stays in
the registry with `loaded = false` and later loaders wait for it for ever (D24); *fixed*, the error goes through
`m.done(nil, err)`: `run` on a broken top frame → `fin err`.

The condition variable is explicit: `asleep d` is `d.cond`'s notify list. `Wait` appends the goroutine (in the same critical
section as the `!m.loaded` test), `done`'s `Broadcast` empties the list, and a goroutine in `sleep d` can run again only when it
is no longer on the list; it then re-tests `m.loaded` (`for`) and waits again if needed. Two variants of the fixed code are
kept as regression witnesses: `Signal` instead of `Broadcast` (only the head of the list is woken) and an unlocked
`if !m.loaded { Lock; Wait }` (a wake-up between the test and the `Wait` is lost).

Critical sections that contain no blocking operation are one atomic step. `mlock m` is `m.m` (a non-reentrant
`sync.Mutex`): an operation that locks `m.m` is enabled only while nobody — the thread itself included — holds it.
In the fixed version no step leaves a mutex held.

Ghost state: `execs m` (number of `ModuleLoading` events = executions of the file), a publish clock (`ptime x` = when
`x.loading` was last set) and a completion clock (`ftime`). Modules fail through a cyclic-dependency verdict (`Res.cyc`) or because their environment cannot be set up
(`Res.err`); either error propagates to every waiter and up the loading chain, as the Starlark `load` error does.
Core Lean only.
-/
namespace Dawn.Loader

/-- A module. Two modules are the same iff their *full labels* are the same — kind, project, package and file name: the
registry `proj.modules` is indexed by `label.String()` (`moduleKey`, compared with the source by `Dawn/Ties/Loader.lean`).
`//lib:defs.dawn` of the project itself and `dep//lib:defs.dawn` of a required project are different modules. -/
abbrev Mod := Nat

/-- the expression(s) by which `Project.loadModule` indexes the registry (`L` = the label parameter) -/
def moduleKey : List String := ["L.String()"]
abbrev Tid := Nat

inductive Version where
  | asWritten
  | fixed
  /-- regression variants of the fixed code (never what the tree contains; each has a `…_counterexample`) -/
  | signalDone       -- `done` calls `m.cond.Signal()` instead of `Broadcast()`
  | unlockedCheck    -- `wait` tests `!m.loaded` without holding `m.m`, then locks and calls `Wait` once (`if`, not `for`)
deriving DecidableEq, Repr

inductive Res where
  | ok
  | cyc            -- the cyclic-dependency error of `module.wait`
  | err            -- the module's environment could not be set up (e.g. its project is not in the build list)
deriving DecidableEq, Repr

structure Project where
  loads : Mod → List Mod
  roots : List Mod
  /-- modules whose environment cannot be set up: `m.env` fails in `module.load` before anything is executed -/
  broken : Mod → Bool := fun _ => false

structure Frame where
  mod : Mod
  todo : List Mod            -- the `load`s of the body not yet completed; the head is the one in progress
deriving DecidableEq, Repr

inductive PC where
  | run                                -- executing the body of the top frame
  | call (d : Mod)                     -- proj.loadModule(top, d): about to look `d` up under proj.m
  | setNew (d : Mod)                   -- `d` was inserted: about to top.setLoading(d)
  | load (d : Mod)                     -- about to d.load(): ModuleLoading event, start executing the body
  | setFound (d : Mod)                 -- `d` was found: about to top.setLoading(d)
  | enter (d : Mod)                    -- about to call d.wait(top)
  | walk (d : Mod) (cur : Option Mod)  -- in the chain walk of d.wait(top) with `loading = cur`
  | check (d : Mod)                    -- as written: holds d.m, at `for !m.loaded`; `unlockedCheck` variant: has tested `!m.loaded`
                                       -- without the mutex and is about to lock and `Wait`
  | wlock (d : Mod)                    -- fixed only: about to d.m.Lock() for the condition wait
  | sleep (d : Mod)                    -- inside d.cond.Wait() (d.m released); asleep while on `asleep d`, woken once taken off
  | unset (r : Res)                    -- loadModule is returning `r`: about to run the deferred top.setLoading(nil)
  | fin (r : Res)                      -- the body of the top frame ended with `r`: about to top.done(…)
  | finished                           -- the goroutine's loadModule(nil, root) returned
deriving DecidableEq, Repr

/-- The statements of `wait` and `done` in source order as `extract/loader` tags them (receiver `R`, waiter `W`), and how the
chain walk starts and advances — the facts that distinguish the two versions (`Dawn/Ties/Loader.lean` compares them
with the source on every run). -/
def waitShape : Version → List String
  | .asWritten => ["R.m.Lock", "defer R.m.Unlock", "if W!=nil { for loading!=nil }", "for !R.loaded { R.cond.Wait }", "return"]
  | .unlockedCheck => ["if W!=nil { for loading!=nil }", "if !R.loaded", "return"]
  | _ => ["if W!=nil { for loading!=nil }", "R.m.Lock", "defer R.m.Unlock", "for !R.loaded { R.cond.Wait }", "return"]
def walkFirst : Version → String
  | .asWritten => "receiver.loading"        -- `loading := m.loading` under m.m
  | _ => "receiver.getLoading"              -- `loading := m.getLoading()`
def walkNext : Version → String
  | .asWritten => "receiver.getLoading"     -- `loading = m.getLoading()`: re-locks m.m, which `wait` holds (D4)
  | _ => "loading.getLoading"               -- `loading = loading.getLoading()`
def envErrorPath : Version → String
  | .asWritten => "plain"                   -- `return nil, err` without `m.done(…)` (D24)
  | _ => "done"                             -- `return m.done(nil, err)`
def doneShape : Version → List String
  | .signalDone => ["set R.data,R.err", "R.m.Lock", "set R.loaded", "R.m.Unlock", "R.cond.Signal", "return"]
  | _ => ["set R.data,R.err", "R.m.Lock", "set R.loaded", "R.m.Unlock", "R.cond.Broadcast", "return"]

def upd {α : Type} (f : Nat → α) (i : Nat) (v : α) : Nat → α := fun x => if x = i then v else f x

@[simp] theorem upd_same {α} (f : Nat → α) (i v) : upd f i v i = v := by simp [upd]
@[simp] theorem upd_other {α} (f : Nat → α) (i v x) (h : x ≠ i) : upd f i v x = f x := by simp [upd, h]

structure State where
  registry : Mod → Bool            -- proj.modules
  loading : Mod → Option Mod       -- m.loading
  loaded : Mod → Bool              -- m.loaded
  result : Mod → Res               -- m.err (meaningful once loaded)
  mlock : Mod → Option Tid         -- holder of m.m across steps (as written only)
  asleep : Mod → List Tid          -- m.cond's notify list: the goroutines inside m.cond.Wait() that have not been woken
  stack : Tid → List Frame
  pc : Tid → PC
  -- ghost
  execs : Mod → Nat
  clock : Nat
  ptime : Mod → Nat
  ftime : Mod → Nat

def init (P : Project) : State :=
  { registry := fun _ => false, loading := fun _ => none, loaded := fun _ => false, result := fun _ => .ok,
    mlock := fun _ => none, asleep := fun _ => [], stack := fun _ => [],
    pc := fun t => match P.roots[t]? with | some r => .call r | none => .finished,
    execs := fun _ => 0, clock := 0, ptime := fun _ => 0, ftime := fun _ => 0 }

/-- the module whose body the thread is executing: the `waiter` of its loadModule calls (`nil` for the goroutine itself) -/
def top (s : State) (t : Tid) : Option Mod := (s.stack t).head?.map Frame.mod

def resOf (s : State) (d : Mod) : Res := s.result d

/-- the module finished loading with an error -/
def failed (s : State) (m : Mod) : Bool := s.result m != .ok

/-- `x.setLoading(some d)`: publish -/
def publish (s : State) (x d : Mod) : State :=
  { s with loading := upd s.loading x (some d), ptime := upd s.ptime x s.clock, clock := s.clock + 1 }

def setPc (s : State) (t : Tid) (p : PC) : State := { s with pc := upd s.pc t p }

/-- `m.cond.Wait()`: join `d.cond`'s notify list (still under `d.m`), release `d.m`, sleep -/
def goSleep (s : State) (t : Tid) (d : Mod) : State :=
  { s with asleep := upd s.asleep d (s.asleep d ++ [t]), pc := upd s.pc t (.sleep d) }

/-- the step of thread `t`, if it has one (`none`: finished, or blocked on a mutex or a condition variable) -/
def next (v : Version) (P : Project) (s : State) (t : Tid) : Option State :=
  match s.pc t with
  | .finished => none
  | .run =>
    match s.stack t with
    | [] => none
    | f :: rest =>
      if P.broken f.mod then
        -- `t, builtins, err := m.env(proj); if err != nil { … }`
        match v with
        | .asWritten => some { s with stack := upd s.stack t rest, pc := upd s.pc t (.unset .err) }  -- `return nil, err`: no done() (D24)
        | _ => some (setPc s t (.fin .err))                                                           -- `return m.done(nil, err)`
      else
      match f.todo with
      | [] => some (setPc s t (.fin .ok))
      | d :: _ => some (setPc s t (.call d))
  | .call d =>
    if s.registry d then some (setPc s t (.setFound d))
    else some { s with registry := upd s.registry d true, pc := upd s.pc t (.setNew d) }
  | .setNew d =>
    match top s t with
    | none => some (setPc s t (.load d))
    | some x => if (s.mlock x).isSome then none else some (setPc (publish s x d) t (.load d))
  | .load d =>
    some { s with stack := upd s.stack t (⟨d, P.loads d⟩ :: s.stack t), execs := upd s.execs d (s.execs d + 1),
                  pc := upd s.pc t .run }
  | .setFound d =>
    match top s t with
    | none => some (setPc s t (.enter d))
    | some x => if (s.mlock x).isSome then none else some (setPc (publish s x d) t (.enter d))
  | .enter d =>
    match v with
    | .asWritten =>
      if (s.mlock d).isSome then none
      else some { s with mlock := upd s.mlock d (some t),
                         pc := upd s.pc t (match top s t with | some _ => .walk d (s.loading d) | none => .check d) }
    | _ =>
      match top s t with
      | none => some (setPc s t (.wlock d))
      | some _ => if (s.mlock d).isSome then none else some (setPc s t (.walk d (s.loading d)))
  | .walk d cur =>
    match cur with
    | none => some (setPc s t (match v with | .asWritten => .check d | _ => .wlock d))
    | some c =>
      if top s t = some c then
        -- `loading == waiter`: return the cyclic-dependency error (as written: the deferred Unlock runs)
        some { s with mlock := (match v with | .asWritten => upd s.mlock d none | _ => s.mlock),
                      pc := upd s.pc t (.unset .cyc) }
      else
        match v with
        | .asWritten =>
          -- `loading = m.getLoading()`: locks d.m — held by this very thread since `enter`
          if (s.mlock d).isSome then none else some (setPc s t (.walk d (s.loading d)))
        | _ =>
          -- `loading = loading.getLoading()`
          if (s.mlock c).isSome then none else some (setPc s t (.walk d (s.loading c)))
  | .check d =>
    match v with
    | .unlockedCheck =>
      -- the variant has tested `!m.loaded` WITHOUT the mutex; now `m.m.Lock(); m.cond.Wait()` whatever has happened since
      if (s.mlock d).isSome then none else some (goSleep s t d)
    | _ =>
      -- as written, holding d.m: `for !m.loaded { m.cond.Wait() }`; Wait and the deferred Unlock both release d.m
      let s1 := { s with mlock := upd s.mlock d none }
      some (if s.loaded d then setPc s1 t (.unset (resOf s d)) else goSleep s1 t d)
  | .wlock d =>
    if (s.mlock d).isSome then none
    else
      match v with
      | .unlockedCheck => some (setPc s t (if s.loaded d then .unset (resOf s d) else .check d))
      | _ =>
        -- `m.m.Lock(); for !m.loaded { m.cond.Wait() }`: the test and the entry into the notify list are one critical section
        some (if s.loaded d then setPc s t (.unset (resOf s d)) else goSleep s t d)
  | .sleep d =>
    -- inside `m.cond.Wait()`: runs again only once a Broadcast/Signal has taken it off the notify list
    if (s.asleep d).contains t || (s.mlock d).isSome then none
    else
      match v with
      | .unlockedCheck => some (setPc s t (.unset (resOf s d)))          -- `if`: no re-test after the wake-up
      | _ => some (if s.loaded d then setPc s t (.unset (resOf s d)) else goSleep s t d)   -- `for`: re-test, wait again
  | .unset r =>
    match s.stack t with
    | [] => some (setPc s t .finished)
    | f :: rest =>
      if (s.mlock f.mod).isSome then none
      else
        let s1 := { s with loading := upd s.loading f.mod none }
        if r = .ok then some { s1 with stack := upd s.stack t (⟨f.mod, f.todo.tail⟩ :: rest), pc := upd s.pc t .run }
        else some (setPc s1 t (.fin r))
  | .fin r =>
    match s.stack t with
    | [] => none
    | f :: rest =>
      if (s.mlock f.mod).isSome then none
      else some { s with loaded := upd s.loaded f.mod true, result := upd s.result f.mod r,
                         -- `m.cond.Broadcast()` empties the notify list; the Signal variant wakes only its head
                         asleep := upd s.asleep f.mod (match v with | .signalDone => (s.asleep f.mod).tail | _ => []),
                         ftime := upd s.ftime f.mod s.clock, clock := s.clock + 1,
                         stack := upd s.stack t rest, pc := upd s.pc t (.unset r) }

def Step (v : Version) (P : Project) (s s' : State) : Prop := ∃ t, next v P s t = some s'

inductive Steps (v : Version) (P : Project) : State → State → Prop where
  | refl (s) : Steps v P s s
  | tail {s s' s''} : Steps v P s s' → Step v P s' s'' → Steps v P s s''

/-- every state some interleaving of the loader goroutines of project `P` can reach -/
def Reachable (v : Version) (P : Project) (s : State) : Prop := Steps v P (init P) s

/-- all loader goroutines have returned: `Load` goes on to collect the modules' errors -/
def Terminal (P : Project) (s : State) : Prop := ∀ t, t < P.roots.length → s.pc t = .finished

/-- run a schedule (list of thread ids); `none` when some scheduled thread has no step -/
def run (v : Version) (P : Project) (s : State) : List Tid → Option State
  | [] => some s
  | t :: ts => match next v P s t with
    | some s' => run v P s' ts
    | none => none

theorem steps_trans {v P} {a b c : State} (h1 : Steps v P a b) (h2 : Steps v P b c) : Steps v P a c := by
  induction h2 with
  | refl => exact h1
  | tail _ st ih => exact .tail ih st

theorem steps_of_run {v P} {s s' : State} {sched : List Tid} (h : run v P s sched = some s') : Steps v P s s' := by
  induction sched generalizing s with
  | nil => simp [run] at h; subst h; exact .refl _
  | cons t ts ih =>
    simp only [run] at h
    cases hn : next v P s t with
    | none => simp [hn] at h
    | some s1 =>
      simp only [hn] at h
      exact steps_trans (.tail (.refl _) ⟨t, hn⟩) (ih h)

/-- no thread of the project has a step -/
def stuck (v : Version) (P : Project) (s : State) : Bool :=
  (List.range P.roots.length).all fun t => (next v P s t).isNone

/-- some loader goroutine has not returned -/
def unfinished (P : Project) (s : State) : Bool :=
  (List.range P.roots.length).any fun t => s.pc t != .finished

end Dawn.Loader

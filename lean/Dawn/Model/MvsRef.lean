import Dawn.Model.Mvs
/-!
# Model of `resolveRefQuery` (query.go) over an abstract commit history

What the code uses of `internal/vcs`: `Repository.ResolveRef` (a branch / tag / hash names a revision),
`Repository.GetRevision`, `Revision.History()` (the revision itself first, then its ancestors, in the order the VCS
walks them — for git a pre-order walk of the commit DAG), `Revision.When()` / `PseudoID()`, and the repository's
canonical version tags with the revision each one points at (`taggedVersions`). The model takes exactly these as a
`History`; `module.PseudoVersion` is modelled on structured versions.
-/
namespace Dawn.Mvs

structure Revision where
  id : String
  /-- `When()` as `module.PseudoVersion` prints it: `yyyymmddhhmmss` in UTC -/
  stamp : String
  pseudoId : String
deriving Repr

structure History where
  /-- `ResolveRef` -/
  refs : String → Option String
  /-- `GetRevision` -/
  revision : String → Option Revision
  /-- the ids `Revision.History()` yields for a revision, itself first -/
  ancestors : String → List String
  /-- the canonical version tags in `repo.Versions()` order, each with the revision it points at -/
  tagRevs : List (Mod × String)

/-- the numeric major of a path's major-version suffix (`""` ↦ `module.PseudoVersion`'s default `v0`) -/
def majorOf (major : String) : Nat :=
  match parseSem major.toList with
  | some p => p.sv.major
  | .none => 0

/-- `module.PseudoVersion(major, older, t, rev)` for a canonical `older` (or none): forms (1), (2)/(3), (4)/(5) -/
def pseudoVersion (major : String) (older : Option SemVer) (stamp pseudoId : String) : Ver :=
  let segment := PreId.str (stamp ++ "-" ++ pseudoId).toList
  match older with
  | .none => .sv ⟨majorOf major, 0, 0, [segment]⟩
  | some s =>
    if s.pre = [] then .sv ⟨s.major, s.minor, s.patch + 1, [.num 0, segment]⟩
    else .sv ⟨s.major, s.minor, s.patch, s.pre ++ [.num 0, segment]⟩

/-- without a tagged ancestor the code hands `module.PseudoVersion` the major-version suffix itself as the older version:
`""` gives form (1) `v0.0.0-…`, but `vN` is canonicalised to `vN.0.0` and treated as a tag, giving `vN.0.1-0.…` -/
def noTagBase (major : String) : Option SemVer :=
  if major = "" then .none else some ⟨majorOf major, 0, 0, []⟩

/-- the tag the inner loop of `resolveRefQuery` picks at one ancestor: the last matching one in `Versions()` order -/
def tagAt (h : History) (major path : String) (ancestor : String) : Option (Mod × String) :=
  h.tagRevs.reverse.find? fun t => t.1.path = path ∧ majorVersionMatch major t.1.ver ∧ t.2 = ancestor

/-- "Find the closest tagged version": the first ancestor, in history order, that carries a matching tag -/
def closestTag (h : History) (major path : String) : List String → Option (Mod × String)
  | [] => .none
  | a :: rest =>
    match tagAt h major path a with
    | some t => some t
    | .none => closestTag h major path rest

/-- the same loop before the fix of D33: without leaving the outer loop, the LAST tagged ancestor in history order won -/
def lastTagD33 (h : History) (major path : String) (ancestors : List String) : Option (Mod × String) :=
  ancestors.foldl (fun acc a => match tagAt h major path a with | some t => some t | .none => acc) .none

/-- `resolveRefQuery`, parameterised by the ancestor search -/
def resolveRefWith (search : History → String → String → List String → Option (Mod × String))
    (h : History) (major path ref : String) : Except Err Mod :=
  match h.refs ref with
  | .none => .error .other
  | some revId =>
    match h.revision revId with
    | .none => .error .other
    | some rev =>
      match search h major path (h.ancestors revId) with
      | some (t, tr) =>
        if tr = rev.id then .ok t
        else
          match t.ver with
          | .sv s => .ok ⟨path, pseudoVersion major (some s) rev.stamp rev.pseudoId⟩
          | _ => .ok ⟨path, pseudoVersion major (noTagBase major) rev.stamp rev.pseudoId⟩
      | .none => .ok ⟨path, pseudoVersion major (noTagBase major) rev.stamp rev.pseudoId⟩

/-- `resolveRefQuery` -/
def resolveRefQuery (h : History) (major path ref : String) : Except Err Mod := resolveRefWith closestTag h major path ref

/-- `resolveRefQuery` before the fix of D33 -/
def resolveRefQueryD33 (h : History) (major path ref : String) : Except Err Mod := resolveRefWith lastTagD33 h major path ref

/-- the `refs` parameter of `Env`, computed from a history: what a ref query on a (clean) project path resolves to -/
def refsOf (h : History) (path ref : String) : Option Mod :=
  match resolveRefQuery h (splitPathVersion path).2 path ref with
  | .ok m => some m
  | .error _ => .none

end Dawn.Mvs

/-!
# Model of `util/glob.go` (`CompileGlobs`) and of the regular expressions it emits — property C17

Core Lean only (this file is linked into the driver executable).

`CompileGlobs` is one byte loop that both recognises glob tokens and writes regular-expression text.
The model splits it in two total functions that compose to the same text:
`lex` (the `switch` of the loop: which token starts at this byte, or which error) and `emit`
(what is written for a token), and adds the *reading* of that text as a regular-expression tree
(`compileGlobs`) with a positional semantics (`M`), i.e. what Go's `regexp` does with it. That reading is
not assumed: the correspondence harness compares, for every generated pattern list, Go's own
`regexp/syntax` parse tree of the text the real code produced with `RE.sexp (compileGlobs gs)`, the text
itself with `render gs`, and `MatchString` with `matchString`.

Patterns and paths are sequences of Unicode code points (`List Char`): the Go loop is over bytes, but all
bytes it treats specially are ASCII and never occur inside a multi-byte UTF-8 sequence, and Go's regexp
works on code points. Invalid UTF-8 is outside the model (a Go-only stream checks it does not crash).
-/
deriving instance DecidableEq for Except

namespace Dawn.Glob

inductive Tok where
  | star                -- `*`   any run of non-separator characters
  | dstar               -- `**`  any run of characters
  | q                   -- `?`   one character
  | ch (c : Char)       -- a literal character (escaped metacharacter or any other character)
deriving DecidableEq, Repr

inductive Err where
  | trailingEscape      -- pattern ends in a single backslash
  | badEscape           -- backslash followed by something other than \ * ? [ ]
deriving DecidableEq, Repr

/-- the characters that may follow a backslash (`case '\\', '*', '?', '[', ']'` in the Go source) -/
def escapable : List Char := ['\\', '*', '?', '[', ']']

/-- The token switch of the loop in `CompileGlobs`. -/
def lex : List Char → Except Err (List Tok)
  | [] => .ok []
  | '\\' :: [] => .error .trailingEscape
  | '\\' :: c :: rest =>
      if c ∈ escapable then (lex rest).map (Tok.ch c :: ·) else .error .badEscape
  | '*' :: '*' :: rest => (lex rest).map (Tok.dstar :: ·)
  | '*' :: rest => (lex rest).map (Tok.star :: ·)
  | '?' :: rest => (lex rest).map (Tok.q :: ·)
  | c :: rest => (lex rest).map (Tok.ch c :: ·)

/-- literal characters that the Go code writes with a backslash in front.
The first nine are the `case '.', '+', …` arm, `[` and `]` the arm added by the repair of D7, and
`\ * ?` can only come from an escape, which is copied through as `\c`. -/
def quoted : List Char := ['.', '+', '(', ')', '|', '{', '}', '^', '$', '[', ']', '\\', '*', '?']

/-- what the loop writes for one token -/
def emitTok : Tok → List Char
  | .star => "[^/]*".toList
  | .dstar => ".*".toList
  | .q => ['.']
  | .ch c => if c ∈ quoted then ['\\', c] else [c]

def emit (ts : List Tok) : List Char := ts.flatMap emitTok

/-- The regular expressions `CompileGlobs` can emit (no general star: only `.*` and `[^/]*`). -/
inductive RE where
  | eps
  | none                      -- empty alternation: matches nothing
  | lit (c : Char)
  | any                       -- `.` under `(?s)`: any code point
  | starAny                   -- `.*`
  | starNotSlash              -- `[^/]*`
  | seq (a b : RE)
  | alt (a b : RE)
  | cap (r : RE)              -- capture group `( … )`
  | bol                       -- `^`  (no `(?m)`: beginning of text)
  | eol                       -- `$`  (end of text)
deriving DecidableEq, Repr

def compileTok : Tok → RE
  | .star => .starNotSlash
  | .dstar => .starAny
  | .q => .any
  | .ch c => .lit c

def compileToks : List Tok → RE
  | [] => .eps
  | t :: ts => .seq (compileTok t) (compileToks ts)

def altAll : List RE → RE
  | [] => .none
  | [r] => r
  | r :: rs => .alt r (altAll rs)

/-- The tree of the text `(?s)^(?:(g1)|(g2)|…)$`. For zero patterns the text is `(?s)^(?:)$`: the empty
non-capturing group is `eps`. -/
def compileSet (gs : List (List Tok)) : RE :=
  .seq .bol (.seq (if gs.isEmpty then .eps else altAll (gs.map fun g => .cap (compileToks g))) .eol)

def lexAll : List (List Char) → Except Err (List (List Tok))
  | [] => .ok []
  | g :: gs => match lex g with
    | .error e => .error e
    | .ok ts => (lexAll gs).map (ts :: ·)

/-- `CompileGlobs`: first error in pattern order, otherwise the tree. -/
def compileGlobs (gs : List (List Char)) : Except Err RE := (lexAll gs).map compileSet

/-- the text handed to `regexp.Compile` -/
def renderToks (gs : List (List Tok)) : List Char :=
  "(?s)^(?:".toList ++ (List.intercalate ['|'] (gs.map fun g => ['('] ++ emit g ++ [')'])) ++ ")$".toList

def render (gs : List (List Char)) : Except Err String := (lexAll gs).map fun ts => String.ofList (renderToks ts)

/-! ## Semantics -/

/-- `M r pre mid post`: in the text `pre ++ mid ++ post`, `r` matches exactly the part `mid`
(positional, so that `^`/`$` make sense). -/
def M : RE → List Char → List Char → List Char → Prop
  | .eps, _, mid, _ => mid = []
  | .none, _, _, _ => False
  | .lit c, _, mid, _ => mid = [c]
  | .any, _, mid, _ => ∃ c, mid = [c]
  | .starAny, _, _, _ => True
  | .starNotSlash, _, mid, _ => ∀ c ∈ mid, c ≠ '/'
  | .seq a b, pre, mid, post => ∃ m₁ m₂, mid = m₁ ++ m₂ ∧ M a pre m₁ (m₂ ++ post) ∧ M b (pre ++ m₁) m₂ post
  | .alt a b, pre, mid, post => M a pre mid post ∨ M b pre mid post
  | .cap r, pre, mid, post => M r pre mid post
  | .bol, pre, mid, _ => pre = [] ∧ mid = []
  | .eol, _, mid, post => mid = [] ∧ post = []

/-- `regexp.MatchString`: an unanchored search. -/
def Matches (r : RE) (s : List Char) : Prop := ∃ pre mid post, s = pre ++ mid ++ post ∧ M r pre mid post

/-- all ways to cut a list in two -/
def splits : List Char → List (List Char × List Char)
  | [] => [([], [])]
  | c :: t => ([], c :: t) :: (splits t).map fun p => (c :: p.1, p.2)

/-- executable: all `(mid, post)` with `rest = mid ++ post` such that `r` matches `mid` after `pre` -/
def run : RE → List Char → List Char → List (List Char × List Char)
  | .eps, _, rest => [([], rest)]
  | .none, _, _ => []
  | .lit c, _, rest => match rest with
    | d :: t => if d = c then [([c], t)] else []
    | [] => []
  | .any, _, rest => match rest with
    | d :: t => [([d], t)]
    | [] => []
  | .starAny, _, rest => splits rest
  | .starNotSlash, _, rest => (splits rest).filter fun p => p.1.all (· ≠ '/')
  | .seq a b, pre, rest =>
      (run a pre rest).flatMap fun p₁ => (run b (pre ++ p₁.1) p₁.2).map fun p₂ => (p₁.1 ++ p₂.1, p₂.2)
  | .alt a b, pre, rest => run a pre rest ++ run b pre rest
  | .cap r, pre, rest => run r pre rest
  | .bol, pre, rest => if pre = [] then [([], rest)] else []
  | .eol, _, rest => if rest = [] then [([], [])] else []

def matchString (r : RE) (s : List Char) : Bool :=
  (splits s).any fun p => !(run r p.1 p.2).isEmpty

/-! ## The independent specification (the documented meaning of a glob) -/

/-- `globMatch ts p`: the token list matches the *whole* path. -/
def globMatch : List Tok → List Char → Prop
  | [], s => s = []
  | .star :: ts, s => ∃ s₁ s₂, s = s₁ ++ s₂ ∧ (∀ c ∈ s₁, c ≠ '/') ∧ globMatch ts s₂
  | .dstar :: ts, s => ∃ s₁ s₂, s = s₁ ++ s₂ ∧ globMatch ts s₂
  | .q :: ts, s => ∃ c s₂, s = c :: s₂ ∧ globMatch ts s₂
  | .ch c :: ts, s => ∃ s₂, s = c :: s₂ ∧ globMatch ts s₂

/-- executable version of the specification, used by the driver as a second oracle -/
def globMatchB : List Tok → List Char → Bool
  | [], s => s.isEmpty
  | .star :: ts, s =>
      (List.range (s.length + 1)).any fun n => (s.take n).all (· ≠ '/') && globMatchB ts (s.drop n)
  | .dstar :: ts, s => (List.range (s.length + 1)).any fun n => globMatchB ts (s.drop n)
  | .q :: ts, s => match s with
    | [] => false
    | _ :: s₂ => globMatchB ts s₂
  | .ch c :: ts, s => match s with
    | [] => false
    | d :: s₂ => c == d && globMatchB ts s₂

/-! ## Use of glob sets: `glob(include, exclude)` (project_builtins.go, lib/os/glob.go) and ignore lists -/

/-- the filter both `glob()` builtins apply to every regular file's relative path -/
def globSelect (inc exc : RE) (files : List (List Char)) : List (List Char) :=
  files.filter fun p => matchString inc p && !matchString exc p

/-- `Project.loadPackage`: a package directory is loaded iff neither it nor any ancestor directory is ignored
(`ignored` is consulted on the way down and an ignored directory is not descended into).
`dirs` are the `/`-separated components of the package path below the root; the root itself is `[]`. -/
def prefixes : List (List Char) → List (List (List Char))
  | [] => [[]]
  | c :: cs => [] :: (prefixes cs).map (c :: ·)

def joinPath (cs : List (List Char)) : List Char := List.intercalate ['/'] cs

def packageLoaded (ignore : Option RE) (dirs : List (List Char)) : Bool :=
  match ignore with
  | none => true
  | some r => (prefixes dirs).all fun pre => !matchString r (joinPath pre)

/-! ## Canonical text of a tree, compared with Go's `regexp/syntax` parse tree of the emitted text -/

def flatSeq : RE → List RE
  | .seq a b => flatSeq a ++ flatSeq b
  | .eps => []
  | r => [r]

def flatAlt : RE → List RE
  | .alt a b => flatAlt a ++ flatAlt b
  | r => [r]

partial def RE.sexp : RE → String
  | .eps => "(cat)"
  | .none => "(nomatch)"
  | .lit c => s!"(lit {c.toNat})"
  | .any => "(any)"
  | .starAny => "(star (any))"
  | .starNotSlash => "(star (notslash))"
  | r@(.seq _ _) => match flatSeq r with
    | [x] => x.sexp
    | xs => "(cat" ++ String.join (xs.map fun x => " " ++ x.sexp) ++ ")"
  | r@(.alt _ _) => "(alt" ++ String.join ((flatAlt r).map fun x => " " ++ x.sexp) ++ ")"
  | .cap r => "(cap " ++ r.sexp ++ ")"
  | .bol => "(bot)"
  | .eol => "(eot)"

end Dawn.Glob

import Dawn.Model.Loader
/-!
# `Project.Reload` — the abstraction behind running the loader model more than once on one `Project`

`Reload` (watch mode, GC after an index-only load, library callers) re-creates the per-load fields of the `Project` and
calls `load(false)` again. The loader model has no notion of an earlier load: every load — the first one and every
reload, of the same or of an edited tree `P'` — is a run of `Loader.next` from `init P'`, whose registry is empty. That
is sound exactly because the module registry (`proj.modules`) is among the fields that are re-initialised before the
loader goroutines start; `reloadResets` names those fields and `Dawn/Ties/Loader.lean` compares the list with the
source on every run. The harness stream `loader.reload` checks the same thing dynamically: the trace of every reload
must be a run of the model from the initial state.
-/
namespace Dawn.Loader

/-- the per-load fields of `Project` that are re-initialised between `Reload()` and the first `loadPackage` call
(sorted): the flag and target tables, the index-only marker, and the module registry -/
def reloadResets : List String := ["flags", "indexOnly", "modules", "targets"]

/-- the loader state when `Reload` starts loading the tree `P'` on a `Project` whose previous load ended in `_old` -/
def reload (P' : Project) (_old : State) : State := init P'

end Dawn.Loader

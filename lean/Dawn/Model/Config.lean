import Dawn.Model.Label
/-!
# Model of `internal/project/config.go` and `version.go` — property C19

Core Lean only (linked into the driver executable `drv_config`).

`emit` reproduces `WriteConfigFile` byte for byte, including go-toml v2's value encoder *as this code uses it*
(`toml.NewEncoder(&b).SetTablesInline(true).Encode(v)` for a `string` and for a `[]string`): that encoder works
on bytes (`needsQuoting`, `encodeQuotedString` range over `[]byte(v)`), so strings are byte lists here and the
model is exact for every Go string. `mustQuote` ranges over runes, but a string has a rune outside
`isPlainRune` exactly when it has a byte outside the same ASCII ranges (a byte ≥ 0x80 belongs to a multi-byte or
invalid sequence, whose rune — possibly U+FFFD — is not plain), so it is a byte predicate too.
`slices.Sorted(maps.Keys(…))` compares Go strings, i.e. bytes lexicographically.

`parseSub` is a parser for the sub-language of TOML that `emit` produces — made tolerant of blanks between
tokens, blank lines, and the order of keys — followed by `LoadConfigBytes`' own validation (`semver`) and
`CleanPath`. It answers `outside` for anything else: no claim is made there. That go-toml's real parser
agrees with `parseSub` on emitted and on re-formatted text is checked by the correspondence stream
`config.load`, not proved. go-toml also insists on valid UTF-8; `parseSub` passes bytes ≥ 0x80 through, so
outside valid UTF-8 (which the property excludes) the two differ.

`path.Clean` is `Dawn.Label.pathClean` (standard library, component-stack semantics, validated per input).
-/
namespace Dawn.Config

abbrev Bytes := List UInt8

/-- decidable equality of results (its own name: other areas derive theirs) -/
instance decEqExcept {ε α : Type} [DecidableEq ε] [DecidableEq α] : DecidableEq (Except ε α)
  | .ok a, .ok b => if h : a = b then isTrue (by rw [h]) else isFalse (fun h' => by cases h'; exact h rfl)
  | .error a, .error b => if h : a = b then isTrue (by rw [h]) else isFalse (fun h' => by cases h'; exact h rfl)
  | .ok _, .error _ => isFalse (fun h => by cases h)
  | .error _, .ok _ => isFalse (fun h => by cases h)

/-- `RequirementConfig` with its key in `Config.Requirements` -/
structure Req where
  key : Bytes
  path : Bytes
  version : Bytes
deriving DecidableEq, Repr

/-- `project.Config`; `Requirements` (a Go map) is its list of entries in ascending key order, `nil` and empty
slices / maps are the empty list -/
structure Config where
  name : Bytes
  version : Bytes
  ignore : List Bytes
  reqs : List Req
deriving DecidableEq, Repr

/-! ## go-toml v2's encoder, as used -/

/-- `characters.InvalidAscii` -/
def invalidAscii (b : UInt8) : Bool := b ≤ 8 ∨ b = 11 ∨ b = 12 ∨ (14 ≤ b ∧ b ≤ 31) ∨ b = 127

/-- `needsQuoting`: `'`, CR, LF or an invalid ASCII byte -/
def needsQuotingByte (b : UInt8) : Bool := b = 39 ∨ b = 13 ∨ b = 10 ∨ invalidAscii b
def needsQuoting (s : Bytes) : Bool := s.any needsQuotingByte

/-- `hextable[n]` -/
def hexUpper (n : UInt8) : UInt8 := if n < 10 then 48 + n else 55 + n

/-- one byte inside `encodeQuotedString` (not multiline) -/
def escByte (b : UInt8) : Bytes :=
  if b = 92 then [92, 92]            -- \\
  else if b = 34 then [92, 34]       -- \"
  else if b = 8 then [92, 98]        -- \b
  else if b = 12 then [92, 102]      -- \f
  else if b = 10 then [92, 110]      -- \n
  else if b = 13 then [92, 114]      -- \r
  else if b = 9 then [92, 116]       -- \t
  else if b ≤ 8 ∨ (10 ≤ b ∧ b ≤ 31) ∨ b = 127 then [92, 117, 48, 48, hexUpper (b >>> 4), hexUpper (b &&& 15)]
  else [b]

/-- `encodeString` -/
def encString (s : Bytes) : Bytes :=
  if needsQuoting s then 34 :: (s.flatMap escByte ++ [34]) else 39 :: (s ++ [39])

def commaSpace : Bytes := [44, 32]

def encItems : List Bytes → Bytes
  | [] => []
  | [a] => encString a
  | a :: rest => encString a ++ commaSpace ++ encItems rest

/-- `encodeSlice` of a `[]string` (arrays not multiline) -/
def encArray (l : List Bytes) : Bytes :=
  if l = [] then [91, 93] else 91 :: (encItems l ++ [93])

/-! ## `WriteConfigFile` -/

/-- `isPlainRune` on a byte -/
def isPlainByte (b : UInt8) : Bool :=
  (65 ≤ b ∧ b ≤ 90) ∨ (97 ≤ b ∧ b ≤ 122) ∨ (48 ≤ b ∧ b ≤ 57) ∨ b = 95 ∨ b = 45

/-- `mustQuote` after the repair of D12: `name == "" || strings.ContainsFunc(name, …)` -/
def mustQuote (name : Bytes) : Bool := name = [] ∨ name.any (fun b => !isPlainByte b)

/-- `mustQuote` as it was (D12): an empty name is written bare -/
def mustQuoteOld (name : Bytes) : Bool := name.any (fun b => !isPlainByte b)

/-- `bytes.Compare(a, b) < 0` (Go string `<`) -/
def bytesLt : Bytes → Bytes → Bool
  | [], [] => false
  | [], _ :: _ => true
  | _ :: _, [] => false
  | x :: xs, y :: ys => if x < y then true else if y < x then false else bytesLt xs ys

def insertReq (r : Req) : List Req → List Req
  | [] => [r]
  | x :: rest => if bytesLt x.key r.key then x :: insertReq r rest else r :: x :: rest

/-- `slices.Sorted(maps.Keys(c.Requirements))`: entries in ascending key order -/
def sortReqs : List Req → List Req
  | [] => []
  | r :: rest => insertReq r (sortReqs rest)

def nl : Bytes := [10]

/-! the literal text of the `print` format strings (byte lists, so that the kernel can compute with them; tied to
the source by `Dawn/Ties/Config.lean`) -/
def tName : Bytes := [110, 97, 109, 101, 32, 61, 32]            -- `name = `
def tVersion : Bytes := [118, 101, 114, 115, 105, 111, 110, 32, 61, 32]   -- `version = `
def tIgnore : Bytes := [105, 103, 110, 111, 114, 101, 32, 61, 32]    -- `ignore = `
def tHeader : Bytes := [91, 114, 101, 113, 117, 105, 114, 101, 109, 101, 110, 116, 115, 93]   -- `[requirements]`
def tReqOpen : Bytes := [32, 61, 32, 123, 112, 97, 116, 104, 32, 61, 32]   -- ` = {path = `
def tReqMid : Bytes := [44, 32, 118, 101, 114, 115, 105, 111, 110, 32, 61, 32]   -- `, version = `
def tReqClose : Bytes := [125]   -- `}`

def reqLine (q : Bytes → Bool) (r : Req) : Bytes :=
  (if q r.key then encString r.key else r.key) ++ tReqOpen ++ encString r.path ++ tReqMid ++
    encString r.version ++ tReqClose ++ nl

/-- `WriteConfigFile` with the quoting rule for requirement names as a parameter -/
def emitWith (q : Bytes → Bool) (c : Config) : Bytes :=
  let s1 := if c.name ≠ [] then tName ++ encString c.name ++ nl else []
  let s2 := if c.version ≠ [] then tVersion ++ encString c.version ++ nl else []
  let has12 : Bool := c.name ≠ [] ∨ c.version ≠ []
  let s3 := if c.ignore ≠ [] then (if has12 then nl else []) ++ tIgnore ++ encArray c.ignore ++ nl else []
  let has123 : Bool := has12 ∨ c.ignore ≠ []
  let s4 := if c.reqs ≠ [] then
      (if has123 then nl else []) ++ tHeader ++ nl ++ ((sortReqs c.reqs).map (reqLine q)).flatten
    else []
  s1 ++ s2 ++ s3 ++ s4

def emit (c : Config) : Bytes := emitWith mustQuote c
def emitOld (c : Config) : Bytes := emitWith mustQuoteOld c

/-! ## `semver` (golang.org/x/mod; by its documented grammar) and `CleanPath` -/

def isDigit (b : UInt8) : Bool := 48 ≤ b ∧ b ≤ 57
def isIdentChar (b : UInt8) : Bool := (65 ≤ b ∧ b ≤ 90) ∨ (97 ≤ b ∧ b ≤ 122) ∨ isDigit b ∨ b = 45

/-- `parseInt`: a run of digits without a leading zero (unless it is `0`); returns the rest -/
def parseInt (v : Bytes) : Option Bytes :=
  match v with
  | [] => none
  | d :: _ =>
    if !isDigit d then none else
    let ds := v.takeWhile isDigit
    if d = 48 ∧ ds.length ≠ 1 then none else some (v.dropWhile isDigit)

/-- `isBadNum`: all digits, more than one, leading zero -/
def isBadNum (v : Bytes) : Bool := v.all isDigit ∧ v.length > 1 ∧ v.head? = some 48

/-- a pre-release after the `-`: dot separated, non-empty identifiers over `[0-9A-Za-z-]`, numeric ones without
leading zeros -/
def validPrerelease (v : Bytes) : Bool :=
  (Label.split 46 v).all fun id => id ≠ [] ∧ id.all isIdentChar ∧ !isBadNum id

/-- `semver.IsValid(v) && semver.Canonical(v) == v`: `vMAJOR.MINOR.PATCH[-PRERELEASE]`, no build metadata, no
shorthand -/
def canonicalSemver (v : Bytes) : Bool :=
  match v with
  | 118 :: r0 =>
    match parseInt r0 with
    | some (46 :: r1) =>
      match parseInt r1 with
      | some (46 :: r2) =>
        match parseInt r2 with
        | some [] => true
        | some (45 :: pre) => validPrerelease pre
        | _ => false
      | _ => false
    | _ => false
  | _ => false

/-- `SplitPathVersion`: at the last `@` after the last `/` -/
def splitPathVersionRev : Bytes → Bytes → Option (Bytes × Bytes)
  | [], _ => none
  | b :: restRev, acc =>
    if b = 47 then none
    else if b = 64 then some (restRev.reverse, acc)
    else splitPathVersionRev restRev (b :: acc)

def splitPathVersion (p : Bytes) : Bytes × Bytes :=
  match splitPathVersionRev p.reverse [] with
  | some r => r
  | none => (p, [])

/-- `JoinPathVersion` -/
def joinPathVersion (p major : Bytes) : Bytes :=
  if major = [] ∨ major = [118, 48] ∨ major = [118, 49] then p else p ++ 64 :: major

/-- `CleanPath` -/
def cleanPath (p : Bytes) : Bytes :=
  let pv := splitPathVersion p
  joinPathVersion (Label.pathClean pv.1) pv.2

/-! ## `parseSub` -/

inductive PErr where
  | outside      -- not in the modelled sub-language: no claim
  | badVersion   -- `LoadConfigBytes`: "invalid version … for dependency …"
deriving DecidableEq, Repr

def isWs (b : UInt8) : Bool := b = 32 ∨ b = 9
def dropWs (s : Bytes) : Bytes := s.dropWhile isWs

/-- a raw byte TOML forbids inside a single-line string: control characters other than tab, and DEL -/
def rawBad (b : UInt8) : Bool := b = 10 ∨ b = 13 ∨ invalidAscii b

def consFst (b : UInt8) (r : Option (Bytes × Bytes)) : Option (Bytes × Bytes) :=
  r.map fun p => (b :: p.1, p.2)

/-- after the opening `'`: the content up to the closing `'`, and the rest -/
def pLiteralBody : Bytes → Option (Bytes × Bytes)
  | [] => none
  | b :: rest =>
    if b = 39 then some ([], rest)
    else if rawBad b then none
    else consFst b (pLiteralBody rest)

def hexVal (c : UInt8) : Option UInt8 :=
  if 48 ≤ c ∧ c ≤ 57 then some (c - 48)
  else if 65 ≤ c ∧ c ≤ 70 then some (c - 55)
  else if 97 ≤ c ∧ c ≤ 102 then some (c - 87)
  else none

/-- the single-character escapes of a basic string -/
def unescape (e : UInt8) : Option UInt8 :=
  if e = 92 then some 92
  else if e = 34 then some 34
  else if e = 98 then some 8
  else if e = 102 then some 12
  else if e = 110 then some 10
  else if e = 114 then some 13
  else if e = 116 then some 9
  else none

/-- after the opening `"`: the decoded content up to the closing `"`, and the rest. Of the `\u` escapes only
`\u00XX` below 0x80 (one byte of UTF-8) is in the sub-language. -/
def pBasicBody : Bytes → Option (Bytes × Bytes)
  | [] => none
  | b :: rest =>
    if b = 34 then some ([], rest)
    else if b = 92 then
      match rest with
      | [] => none
      | e :: rest1 =>
        if e = 117 then
          match rest1 with
          | z1 :: z2 :: h :: l :: rest2 =>
            if z1 = 48 ∧ z2 = 48 then
              match hexVal h, hexVal l with
              | some x, some y => if x < 8 then consFst (x * 16 + y) (pBasicBody rest2) else none
              | _, _ => none
            else none
          | _ => none
        else match unescape e with
          | some x => consFst x (pBasicBody rest1)
          | none => none
    else if rawBad b then none
    else consFst b (pBasicBody rest)

/-- a string value at the head of the input -/
def pString : Bytes → Option (Bytes × Bytes)
  | [] => none
  | b :: rest =>
    if b = 39 then pLiteralBody rest
    else if b = 34 then pBasicBody rest
    else none

/-- a key: bare (`A-Za-z0-9_-`, non-empty) or a quoted string -/
def pKey (s : Bytes) : Option (Bytes × Bytes) :=
  match s with
  | [] => none
  | b :: _ =>
    if isPlainByte b then some (s.takeWhile isPlainByte, s.dropWhile isPlainByte)
    else pString s

/-- `ws c ws`: skip blanks, expect the byte `c`, skip blanks -/
def pSym (c : UInt8) (s : Bytes) : Option Bytes :=
  match dropWs s with
  | b :: rest => if b = c then some (dropWs rest) else none
  | [] => none

/-- items of an array after the first: `(, string)* ]` -/
def pItemsTail : Nat → Bytes → Option (List Bytes × Bytes)
  | 0, _ => none
  | fuel + 1, s =>
    match dropWs s with
    | b :: rest =>
      if b = 93 then some ([], rest)
      else if b = 44 then
        match pString (dropWs rest) with
        | some (x, rest') => (pItemsTail fuel rest').map fun p => (x :: p.1, p.2)
        | none => none
      else none
    | [] => none

/-- `[ string, string … ]` on one line -/
def pArray (s : Bytes) : Option (List Bytes × Bytes) :=
  match s with
  | b :: rest =>
    if b = 91 then
      match dropWs rest with
      | c :: rest' =>
        if c = 93 then some ([], rest')
        else match pString (c :: rest') with
          | some (x, rest'') => (pItemsTail (rest''.length + 1) rest'').map fun p => (x :: p.1, p.2)
          | none => none
      | [] => none
    else none
  | [] => none

def kPath : Bytes := [112, 97, 116, 104]      -- `path`
def kVersion : Bytes := [118, 101, 114, 115, 105, 111, 110]   -- `version`
def kName : Bytes := [110, 97, 109, 101]      -- `name`
def kIgnore : Bytes := [105, 103, 110, 111, 114, 101]   -- `ignore`
def kHeader : Bytes := tHeader

/-- `key = string` inside an inline table -/
def pField (s : Bytes) : Option (Bytes × Bytes × Bytes) :=
  match pKey s with
  | some (k, rest) =>
    match pSym 61 rest with
    | some rest' =>
      match pString rest' with
      | some (v, rest'') => some (k, v, rest'')
      | none => none
    | none => none
  | none => none

/-- `{ path = string , version = string }` (either order): path, version, rest -/
def pInline (s : Bytes) : Option (Bytes × Bytes × Bytes) :=
  match s with
  | b :: rest =>
    if b = 123 then
      match pField (dropWs rest) with
      | some (k1, v1, r1) =>
        match pSym 44 r1 with
        | some r2 =>
          match pField r2 with
          | some (k2, v2, r3) =>
            match dropWs r3 with
            | c :: r4 =>
              if c = 125 then
                if k1 = kPath ∧ k2 = kVersion then some (v1, v2, r4)
                else if k1 = kVersion ∧ k2 = kPath then some (v2, v1, r4)
                else none
              else none
            | [] => none
          | none => none
        | none => none
      | none => none
    else none
  | [] => none

inductive Line where
  | blank
  | header
  | name (v : Bytes)
  | version (v : Bytes)
  | ignore (v : List Bytes)
  | req (r : Req)
  | bad
deriving DecidableEq, Repr

def allWs (s : Bytes) : Bool := s.all isWs

/-- one line (without its newline); `inReqs`: below the `[requirements]` header -/
def pLine (inReqs : Bool) (line : Bytes) : Line :=
  let s := dropWs line
  if s = [] then .blank
  else if s.take kHeader.length = kHeader ∧ allWs (s.drop kHeader.length) then .header
  else match pKey s with
    | none => .bad
    | some (k, rest) =>
      match pSym 61 rest with
      | none => .bad
      | some rest' =>
        if inReqs then
          match pInline rest' with
          | some (p, v, rest'') => if allWs rest'' then .req ⟨k, p, v⟩ else .bad
          | none => .bad
        else if k = kIgnore then
          match pArray rest' with
          | some (l, rest'') => if allWs rest'' then .ignore l else .bad
          | none => .bad
        else match pString rest' with
          | some (v, rest'') =>
            if !allWs rest'' then .bad
            else if k = kName then .name v
            else if k = kVersion then .version v
            else .bad
          | none => .bad

structure PState where
  cfg : Config := ⟨[], [], [], []⟩
  inReqs : Bool := false
  seenName : Bool := false
  seenVersion : Bool := false
  seenIgnore : Bool := false
deriving DecidableEq, Repr

/-- fold one line into the state; `none`: outside the sub-language (duplicate key, second header, bad line).
Only bare `name` / `version` / `ignore` keys are recognised at top level (a quoted `"name"` is the same key for
TOML; `pKey` decodes both, so both are accepted). -/
def stepLine (st : PState) (line : Bytes) : Option PState :=
  match pLine st.inReqs line with
  | .blank => some st
  | .header => if st.inReqs then none else some { st with inReqs := true }
  | .name v => if st.seenName then none else some { st with cfg := { st.cfg with name := v }, seenName := true }
  | .version v =>
    if st.seenVersion then none else some { st with cfg := { st.cfg with version := v }, seenVersion := true }
  | .ignore l => if st.seenIgnore then none else some { st with cfg := { st.cfg with ignore := l }, seenIgnore := true }
  | .req r =>
    if st.cfg.reqs.any (fun x => x.key = r.key) then none
    else some { st with cfg := { st.cfg with reqs := st.cfg.reqs ++ [r] } }
  | .bad => none

def foldLines : PState → List Bytes → Option PState
  | st, [] => some st
  | st, l :: rest => match stepLine st l with
    | some st' => foldLines st' rest
    | none => none

/-- `LoadConfigBytes` after `toml.Unmarshal`: versions must be canonical semver, paths are cleaned -/
def validate (c : Config) : Except PErr Config :=
  if c.reqs.all (fun r => canonicalSemver r.version) then
    .ok { c with reqs := sortReqs (c.reqs.map fun r => { r with path := cleanPath r.path }) }
  else .error .badVersion

/-- `LoadConfigBytes` on the sub-language of `emit` -/
def parseSub (text : Bytes) : Except PErr Config :=
  match foldLines {} (Label.split 10 text) with
  | some st => validate st.cfg
  | none => .error .outside

/-! ## `dawn get` / `dawn tidy` (cmd/dawn/get.go, tidy.go) -/

/-- What the two commands do to the configuration between `LoadConfigFile` and `WriteConfigFile`:
`config.Requirements = newReqs` — the requirements the resolver (`mvs.Get` / `mvs.UpgradeAll` / `mvs.Tidy`)
returned replace the old ones, every other field of the *loaded* configuration is written back. -/
def rewrite (c : Config) (newReqs : List Req) : Config := { c with reqs := newReqs }

/-- the file `get` / `tidy` leave behind, as a function of the file they found and of what the resolver returned
(`outside` / `badVersion`: the command stops at "loading config file" and writes nothing) -/
def rewriteFile (text : Bytes) (newReqs : List Req) : Except PErr Bytes :=
  match parseSub text with
  | .ok c => .ok (emit (rewrite c (sortReqs newReqs)))
  | .error e => .error e

/-! ## validity (DESIGN.md §4) -/

def sortedKeys : List Req → Bool
  | [] => true
  | [_] => true
  | a :: b :: rest => bytesLt a.key b.key && sortedKeys (b :: rest)

/-- a valid configuration: requirement versions canonical semver, paths fixed points of `CleanPath`, entries of
the requirements map listed in (strictly) ascending key order. Names, ignore entries and requirement names are
arbitrary byte strings, including the empty one. -/
def Config.valid (c : Config) : Bool :=
  c.reqs.all (fun r => canonicalSemver r.version && (cleanPath r.path = r.path)) && sortedKeys c.reqs

end Dawn.Config

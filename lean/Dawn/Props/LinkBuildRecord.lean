import Dawn.Props.LinkEnvPickle
import Dawn.Props.Build
/-!
# C15 for a whole record: a damaged stamp is never "up to date"

A record file (`.dawn/build/targets/<label>`) carries the target's stamp: the pickled function environment as of its
last successful execution. Three models meet when a build reads it back:

* `Dawn.Pickle` (C15): `(*function).load` base64-decodes the stamp and runs `pickle.NewDecoder(r, envUnpickler).Decode()`
  — `Pickle.decodeEnv`. By `C15_env_no_crash` the answer is a value or an error, never a crash or a hang. An error is
  returned by `load` ("loading prior function environment"): the project does not load — **load error**.
* `Dawn.Env` (C08): when the stamp decodes, `upToDate` → `diffEnv` compares the stored BYTES with the bytes of the
  function as it is now (`Env.diffEnvFixed`, the D16/D25 repair): "up to date" exactly when they are the same bytes
  (`C08_up_to_date_iff_equal_encodings`); otherwise the target is out of date — or, when the decoded value is not the
  dict an environment is, `diffEnv` returns an error and the target fails (**build error**); either way not up to date.
* `Dawn.Build` (C01–C03): the engine's model keeps the stamp as the opaque value `Data.env e`, where `e` numbers the
  bytes (`Link.codeBytes`, injective: `C08_discharges_build_env_hypothesis`), and skips a target only if
  `info.data == .env d.env` (`upToDate`): with another stamp the plan is never `skip` — the target is **re-executed**
  (or the build fails for another reason: a failed dependency; or it is a dry run, which reports it as to be executed).

`C15_corrupt_record`: for a function target whose function now has fingerprint bytes `cur`, and ANY stamp bytes
`bs' ≠ cur` found in its record — in particular any damaged version of the stamp of a record that was up to date —
the outcome is a load error, or the stamp decodes and neither `diffEnv` nor the engine's skip decision says "up to
date". (A stamp damaged INTO exactly the bytes of the present function is indistinguishable from a genuine record: a
record carries no checksum; `C15_corrupt_record_only_current_bytes` states that this is the only way.)
-/
namespace Dawn.Link
open Dawn

/-- the record as `function.load` hands it to the engine when its stamp is the byte string `bs` -/
def withStamp (r : Build.Rec) (bs : Pickle.Bytes) : Build.Rec := { r with data := .env (codeBytes bs) }

/-- The engine never skips a function target whose record carries another stamp than the function's present one
(whatever else the record says, whatever the options, whatever the dependencies did). -/
theorem plan_not_skip_of_other_stamp (P : Build.Params) (t : Build.Tree) (o : Build.Opts) (s : Build.BSt) (l : Build.Label)
    (d : Build.Def) (hk : d.kind = .fn) (r : Build.Rec) (hr : s.w.recs l = some r) (hne : r.data ≠ .env d.env) :
    ∀ info, Build.plan P t o s l d ≠ .skip info := by
  intro info hp
  obtain ⟨hinfo, _, hrr, hup, _⟩ := Build.plan_skip hp
  subst hinfo
  cases ha : d.always with
  | true =>
    have : (Build.loadedInfo s.w l d).rerun = true := by simp [Build.loadedInfo, hk, ha]
    rw [hrr] at this; cases this
  | false =>
    have hli : Build.loadedInfo s.w l d = r := by simp [Build.loadedInfo, hr, ha]
    rw [hli] at hup
    unfold Build.upToDate at hup
    simp only [hk, ha, Bool.false_eq_true, if_false, Bool.and_eq_true, beq_iff_eq] at hup
    exact hne hup.1

/-- C15, record level. `cur`: the fingerprint bytes of the function as it is now (`d.env` numbers them); `bs'`: the
stamp bytes found in the record, anything but `cur`. Then loading fails with the decoder's error, or the stamp decodes
(to some heap and value — never a crash, `C15_env_no_crash`) and
* the repaired `diffEnv` (`Env.diffEnvFixed`) on the decoded old environment and ANY decoding of the present one does
  not answer "up to date", and
* the engine's plan for the target, with the record as loaded, is not `skip` — for any state of the build, any
  options, any rest of the record. -/
theorem C15_corrupt_record (P : Build.Params) (t : Build.Tree) (o : Build.Opts) (s : Build.BSt) (l : Build.Label)
    (d : Build.Def) (hk : d.kind = .fn) (cur bs' : Pickle.Bytes) (hcur : d.env = codeBytes cur) (hne : bs' ≠ cur)
    (r : Build.Rec) (hr : s.w.recs l = some (withStamp r bs')) :
    (∃ k, Pickle.decodeEnv bs' = .err k) ∨
    ((∃ h v, Pickle.decodeEnv bs' = .ok h v) ∧
      (∀ (oh nh : Env.Heap) (ov nv : Env.Val), Env.diffEnvFixed (some ⟨bs', oh, ov⟩) ⟨cur, nh, nv⟩ ≠ .upToDate) ∧
      ∀ info, Build.plan P t o s l d ≠ .skip info) := by
  rcases Pickle.C15_env_no_crash bs' with hok | herr
  · right
    refine ⟨hok, ?_, ?_⟩
    · intro oh nh ov nv hup
      exact hne ((Env.C08_up_to_date_iff_equal_encodings ⟨bs', oh, ov⟩ ⟨cur, nh, nv⟩).mp hup)
    · apply plan_not_skip_of_other_stamp P t o s l d hk (withStamp r bs') hr
      intro h
      simp only [withStamp, Build.Data.env.injEq] at h
      rw [hcur] at h
      exact hne (codeBytes_injective _ _ h)
  · exact Or.inl herr

/-- The usual case: `r` is a record that was up to date (its stamp is the function's present fingerprint `bs`);
any damaged stamp `bs' ≠ bs` in its place gives a load error, or a target that is not up to date: `diffEnv` says so
and the engine re-executes it (or fails the build) — "up to date" is not among the outcomes. -/
theorem C15_corrupt_record_of_up_to_date (P : Build.Params) (t : Build.Tree) (o : Build.Opts) (s : Build.BSt)
    (l : Build.Label) (d : Build.Def) (hk : d.kind = .fn) (r : Build.Rec) (bs bs' : Pickle.Bytes)
    (hgen : r.data = .env (codeBytes bs)) (hupd : r.data = .env d.env) (hne : bs' ≠ bs)
    (hr : s.w.recs l = some (withStamp r bs')) :
    (∃ k, Pickle.decodeEnv bs' = .err k) ∨ ∀ info, Build.plan P t o s l d ≠ .skip info := by
  have hcur : d.env = codeBytes bs := by
    rw [hgen] at hupd
    exact (Build.Data.env.inj hupd).symm
  rcases C15_corrupt_record P t o s l d hk bs bs' hcur hne r hr with h | ⟨_, _, h⟩
  · exact Or.inl h
  · exact Or.inr h

/-- … and the only stamp with which the engine can skip the target is the present fingerprint itself -/
theorem C15_corrupt_record_only_current_bytes (P : Build.Params) (t : Build.Tree) (o : Build.Opts) (s : Build.BSt)
    (l : Build.Label) (d : Build.Def) (hk : d.kind = .fn) (cur bs' : Pickle.Bytes) (hcur : d.env = codeBytes cur)
    (r : Build.Rec) (hr : s.w.recs l = some (withStamp r bs')) (info : Build.Rec)
    (hskip : Build.plan P t o s l d = .skip info) : bs' = cur := by
  by_cases hne : bs' = cur
  · exact hne
  · exfalso
    refine plan_not_skip_of_other_stamp P t o s l d hk (withStamp r bs') hr ?_ info hskip
    intro h
    simp only [withStamp, Build.Data.env.injEq] at h
    rw [hcur] at h
    exact hne (codeBytes_injective _ _ h)

/-! ## non-vacuity -/

/-- a damaged stamp that does not decode: the lone opcode byte `0x85` (TUPLE1 on an empty stack) -/
example : Pickle.decodeEnv [0x85] = .err .underflow := by decide

/-- a damaged stamp that decodes (`N .`: the value `None`, not an environment) -/
example : Pickle.decodeEnv [0x4e, 0x2e] = .ok [] (.atom .none) := by decide

/-- … and the engine's answer to it: in the example project the record of `d = 2` is given that stamp; the next build
executes `d` again (and then `t = 3`, whose dependency ran) -/
example :
    let w1 := (Build.runBuild Build.exP Build.exTree Build.exOpts [1, 2, 3] Build.exW0).w
    let w2 : Build.World := { w1 with recs := Build.upd w1.recs 2 ((w1.recs 2).map fun r => withStamp r [0x4e, 0x2e]) }
    (Build.runBuild Build.exP Build.exTree Build.exOpts [1, 2, 3] w1).execs = [] ∧
      (Build.runBuild Build.exP Build.exTree Build.exOpts [1, 2, 3] w2).execs = [3, 2] := by
  decide

end Dawn.Link

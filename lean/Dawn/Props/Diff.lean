import Dawn.Proofs.DiffVal
/-!
# C16 — diffs are faithful to both values

Property theorems only. `diffDepth` models `diff.DiffDepth`, `diffSliceEdits` the sequence diff `diffSlice`
(the O(NP) search `compose`/`snake`, `recordSeq`, `extend`, the replace merge), `mappingEdits` the two loops of
`diffMapping`, `equalDepth` is `starlark.EqualDepth`, `diffEnv` the rebuild reason of `function.go`. They are
tied to the source by `Dawn/Ties/Diff.lean` and by the correspondence streams `diff.*` of `checks/C16.py`.
-/
namespace Dawn.Diff

/-- C16, empty iff equal: `DiffDepth` answers `nil` exactly when `EqualDepth` (same depth) says the values are
equal; when it says they differ the answer is a diff or the depth error of a nested comparison, never `nil`. -/
theorem C16_empty_iff (d : Nat) (a b : Val) :
    (diffDepth d a b = .ok none ↔ equalDepth d a b = .ok true) ∧
    (equalDepth d a b = .ok false → diffDepth d a b ≠ .ok none) := by
  cases d with
  | zero => simp [diffDepth, diffDepthWith, equalDepth]
  | succ d =>
    simp only [diffDepth, diffDepthWith]
    cases h : equalDepth (d + 1) a b with
    | error e => simp
    | ok r =>
      cases r with
      | true => simp
      | false =>
        simp only [reduceCtorEq, iff_false, ne_eq, true_implies]
        refine ⟨?_, ?_⟩ <;>
        · split
          · split <;> simp
          · split
            · split <;> simp
            · simp

/-- C16, sides: a diff reports the two values it was made from, in the order given (the repair of D5). -/
theorem C16_sides (d : Nat) (a b : Val) (x : VDiff) (h : diffDepth d a b = .ok (some x)) :
    x.old = a ∧ x.new = b := by
  cases d with
  | zero => simp [diffDepth, diffDepthWith] at h
  | succ d =>
    simp only [diffDepth, diffDepthWith] at h
    split at h
    · cases h
    · cases h
    · split at h
      · split at h
        · cases h
        · simp only [sliceSides, Bool.false_and, Bool.false_eq_true, ↓reduceIte, Except.ok.injEq,
            Option.some.injEq] at h
          subst h
          exact ⟨rfl, rfl⟩
      · split at h
        · split at h
          · cases h
          · simp only [Except.ok.injEq, Option.some.injEq] at h
            subst h
            exact ⟨rfl, rfl⟩
        · simp only [Except.ok.injEq, Option.some.injEq] at h
          subst h
          exact ⟨rfl, rfl⟩

/-- D5 (regression witness): `diffSlice` as it was built its result from the two sequences *after* exchanging
them (it exchanges them whenever the old one is not shorter): the diff of "abc" and "abd" reported "abd" as the
old value. With the repair it reports "abc". -/
theorem C16_sides_counterexample :
    let abc : Val := .str [97, 98, 99]
    let abd : Val := .str [97, 98, 100]
    (match diffDepthWith defaultRouteSize true compareLimit abc abd with
     | .ok (some x) => x.old.beq abd && x.new.beq abc
     | _ => false) = true ∧
    (match diff abc abd with
     | .ok (some x) => x.old.beq abc && x.new.beq abd
     | _ => false) = true := by
  decide +kernel

end Dawn.Diff
